/-
C04, round 4: the CAS-loop machine (`Model/AtomicsCas.lean`) refines the single-RMW machine: every step either
leaves everything but a thread-private register untouched, or is exactly one step of the RMW machine.
-/
import MetricsVerif.Proofs.Atomics
import MetricsVerif.Model.AtomicsCas

namespace MetricsVerif.Atomics
variable {F : Type}

theorem setAt_map {α β : Type} (f : α → β) (l : List α) (i : Nat) (x : α) :
    setAt (l.map f) i (f x) = (setAt l i x).map f := by
  induction l generalizing i with
  | nil => rfl
  | cons y ys ih =>
    cases i with
    | zero => rfl
    | succ n => simp [setAt, ih n]

theorem erase_threads_get (s : Sys F) (tid : Nat) : (erase s).threads[tid]? = (s.threads[tid]?).map clr := by
  simp [erase, List.getElem?_map]

/-- replacing a thread by one that differs only in `tmp` is invisible after `erase` -/
theorem erase_setAt_tmp (s : Sys F) (tid : Nat) (t t' : Thread F) (hg : s.threads[tid]? = some t)
    (hc : clr t' = clr t) : erase { s with threads := setAt s.threads tid t' } = erase s := by
  simp only [erase]
  congr 1
  rw [← setAt_map, hc]
  exact setAt_self _ _ _ (by simp [List.getElem?_map, hg])

theorem erase_setAt_done (s : Sys F) (tid : Nat) (rest : List (Call F)) :
    (setAt s.threads tid ({ prog := rest, tmp := none } : Thread F)).map clr
      = setAt (erase s).threads tid { prog := rest, tmp := none } := by
  simp only [erase]
  rw [← setAt_map]
  rfl

/-- **one CAS-machine step is silent or is one RMW-machine step** -/
theorem cas_step_sim (A : Carrier F) (sh : Shape) (s : Sys F) (x : Nat × Bool) :
    erase (casStep A sh s x) = erase s ∨ erase (casStep A sh s x) = step A allRmw (erase s) x.1 := by
  unfold casStep
  cases hg : s.threads[x.1]? with
  | none => exact .inl rfl
  | some t =>
    simp only
    have hge : (erase s).threads[x.1]? = some (clr t) := by rw [erase_threads_get, hg]; rfl
    unfold casStepThread
    cases hp : t.prog with
    | nil =>
      simp only
      rw [setAt_self _ _ _ hg]
      exact .inl rfl
    | cons c rest =>
      simp only
      have hpe : (clr t).prog = c :: rest := hp
      cases hh : c.h with
      | none =>
        refine .inr ?_
        simp only [step, hge, stepThread, hpe, hh]
        simp only [erase]
        congr 1
        exact erase_setAt_done s x.1 rest
      | some u =>
        simp only
        have hcommit : erase { (commit A s x.1 c.op s.cell) with
              threads := setAt (commit A s x.1 c.op s.cell).threads x.1 { prog := rest, tmp := none } }
            = step A allRmw (erase s) x.1 := by
          simp only [step, hge, stepThread, hpe, hh, rmw_of_all allRmw_all, if_true, commit]
          simp only [erase]
          congr 1
          exact erase_setAt_done s x.1 rest
        cases hr : sh.rmw c.op with
        | true =>
          simp only [if_true]
          exact .inr hcommit
        | false =>
          simp only [Bool.false_eq_true, if_false]
          have hclr : ∀ v : Option Nat, clr ({ prog := c :: rest, tmp := v } : Thread F) = clr t := by
            intro v; simp only [clr]; rw [← hp]
          cases ht : t.tmp with
          | none =>
            simp only
            exact .inl (erase_setAt_tmp s x.1 t _ hg (hclr _))
          | some prev =>
            simp only
            by_cases hc : prev = s.cell ∧ x.2 = false
            · rw [if_pos hc]
              refine .inr ?_
              rw [hc.1]
              exact hcommit
            · rw [if_neg hc]
              exact .inl (erase_setAt_tmp s x.1 t _ hg (hclr _))

theorem erase_init (c0 : Nat) (progs : List (List (Call F))) : erase (init c0 progs) = init c0 progs := by
  simp only [erase, init, List.map_map]
  congr 1

/-- **refinement**: for every CAS-machine schedule there is an RMW-machine schedule — a subsequence of its thread
    ids: the steps at which an update took effect or a no-op call returned — that leads to the same cell, log,
    wrap flag and remaining programs -/
theorem cas_run_refines (A : Carrier F) (sh : Shape) :
    ∀ (sched : List (Nat × Bool)) (s : Sys F),
      ∃ sched' : List Nat, sched'.Sublist (sched.map Prod.fst)
        ∧ erase (casRun A sh s sched) = run A allRmw (erase s) sched' := by
  intro sched
  induction sched with
  | nil => intro s; exact ⟨[], List.Sublist.refl _, rfl⟩
  | cons x xs ih =>
    intro s
    obtain ⟨sched', hsub, he⟩ := ih (casStep A sh s x)
    rcases cas_step_sim A sh s x with h | h
    · refine ⟨sched', ?_, ?_⟩
      · simp only [List.map_cons]; exact List.Sublist.cons _ hsub
      · simp only [casRun, List.foldl_cons] at he ⊢; rw [he, h]
    · refine ⟨x.1 :: sched', ?_, ?_⟩
      · simp only [List.map_cons]; exact List.Sublist.cons_cons _ hsub
      · simp only [casRun, List.foldl_cons, run] at he ⊢; rw [he, h]

theorem erase_allDone (s : Sys F) : AllDone (erase s) ↔ AllDone s := by
  simp only [AllDone, erase, List.mem_map]
  constructor
  · intro h t ht; exact h (clr t) ⟨t, ht, rfl⟩
  · rintro h t' ⟨t, ht, rfl⟩; exact h t ht

theorem erase_pendingLen (s : Sys F) : pendingLen (erase s) = pendingLen s := by
  simp only [pendingLen, erase, List.map_map]
  rfl

/-- a thread's step never touches the thread list of the system component it returns (only `casStep` does) -/
theorem casStepThread_threads (A : Carrier F) (sh : Shape) (s : Sys F) (tid : Nat) (t : Thread F) (wf : Bool) :
    (casStepThread A sh s tid t wf).1.threads = s.threads := by
  unfold casStepThread
  cases t.prog with
  | nil => rfl
  | cons c rest =>
    simp only
    cases c.h with
    | none => rfl
    | some u =>
      simp only
      cases sh.rmw c.op with
      | true => rfl
      | false =>
        simp only [Bool.false_eq_true, if_false]
        cases t.tmp with
        | none => rfl
        | some prev =>
          simp only
          by_cases hc : prev = s.cell ∧ wf = false
          · rw [if_pos hc]; rfl
          · rw [if_neg hc]

/-! ### a CAS fails only because an update took effect since the value was read -/

/-- a step leaves cell and log alone, or appends exactly one entry to the log -/
theorem cas_step_log (A : Carrier F) (sh : Shape) (s : Sys F) (x : Nat × Bool) :
    ((casStep A sh s x).log = s.log ∧ (casStep A sh s x).cell = s.cell)
    ∨ (casStep A sh s x).log.length = s.log.length + 1 := by
  rcases cas_step_sim A sh s x with h | h
  · have h1 := congrArg Sys.log h
    have h2 := congrArg Sys.cell h
    exact .inl ⟨h1, h2⟩
  · have e := step_eff A allRmw_all (erase s) x.1
    rw [← h] at e
    have hl : (erase (casStep A sh s x)).log = (casStep A sh s x).log := rfl
    have hc : (erase (casStep A sh s x)).cell = (casStep A sh s x).cell := rfl
    generalize erase (casStep A sh s x) = s' at e hl hc
    cases e with
    | stutter => exact .inl ⟨hl.symm, hc.symm⟩
    | noop t c rest hg hp hh => exact .inl ⟨hl.symm, hc.symm⟩
    | rmw t c rest u hg hp hh =>
      refine .inr ?_
      rw [← hl]
      simp [erase]

theorem casRun_log_mono (A : Carrier F) (sh : Shape) :
    ∀ (mid : List (Nat × Bool)) (s : Sys F), s.log.length ≤ (casRun A sh s mid).log.length := by
  intro mid
  induction mid with
  | nil => intro s; exact Nat.le_refl _
  | cons x xs ih =>
    intro s
    have := ih (casStep A sh s x)
    simp only [casRun, List.foldl_cons] at this ⊢
    rcases cas_step_log A sh s x with h | h
    · rw [h.1] at this; exact this
    · omega

/-- no update took effect during `mid` ⇒ the cell is what it was -/
theorem casRun_cell_of_log (A : Carrier F) (sh : Shape) :
    ∀ (mid : List (Nat × Bool)) (s : Sys F), (casRun A sh s mid).log.length = s.log.length →
      (casRun A sh s mid).cell = s.cell := by
  intro mid
  induction mid with
  | nil => intro s _; rfl
  | cons x xs ih =>
    intro s hlen
    have hm := casRun_log_mono A sh xs (casStep A sh s x)
    simp only [casRun, List.foldl_cons] at hlen hm ⊢
    rcases cas_step_log A sh s x with h | h
    · have := ih (casStep A sh s x) (by simp only [casRun]; rw [hlen, h.1])
      simp only [casRun] at this
      rw [this, h.2]
    · omega

/-- steps of other threads do not touch a thread's program or `prev` -/
theorem casRun_other_threads (A : Carrier F) (sh : Shape) (tid : Nat) :
    ∀ (mid : List (Nat × Bool)) (s : Sys F), (∀ x ∈ mid, x.1 ≠ tid) →
      (casRun A sh s mid).threads[tid]? = s.threads[tid]? := by
  intro mid
  induction mid with
  | nil => intro s _; rfl
  | cons x xs ih =>
    intro s hne
    have hx : x.1 ≠ tid := hne x (by simp)
    simp only [casRun, List.foldl_cons]
    have := ih (casStep A sh s x) (fun y hy => hne y (List.mem_cons_of_mem _ hy))
    simp only [casRun] at this
    rw [this]
    unfold casStep
    cases hg : s.threads[x.1]? with
    | none => rfl
    | some t => simp [getElem?_setAt, hx, casStepThread_threads]


end MetricsVerif.Atomics
