/-
Helper lemmas for the concurrent reservoir machine (`Model/ReservoirConc.lean`).  Property statements live in
`Props/C16.lean`.
-/
import MetricsVerif.Proofs.Reservoir
import MetricsVerif.Model.ReservoirConc

namespace MetricsVerif.Reservoir

/-! ## sides -/

@[simp] theorem side_true (a : ASR) : a.side true = a.primary := rfl
@[simp] theorem side_false (a : ASR) : a.side false = a.secondary := rfl
@[simp] theorem setSide_true (a : ASR) (r : Res) : a.setSide true r = { a with primary := r } := rfl
@[simp] theorem setSide_false (a : ASR) (r : Res) : a.setSide false r = { a with secondary := r } := rfl

theorem active_eq_side (a : ASR) : a.active = a.side a.usePrimary := by
  cases h : a.usePrimary <;> simp [ASR.active, ASR.side, h]

/-- `push` = `fetch_add` followed by the store step with the claimed index -/
theorem push_eq_claim_store (r : Res) (v c : Nat) : r.push v c = (r.claim.1).storeAt r.claim.2 v c := by
  simp only [Res.push, Res.pushWith, Res.claim, Res.storeAt]
  by_cases h1 : r.count < r.slots.length
  · simp [h1]
  · by_cases h2 : fastrandArg r.count = 0
    · simp [h1, h2]
    · by_cases h3 : c % fastrandArg r.count < r.slots.length <;> simp [h1, h2, h3]

@[simp] theorem storeAt_slots_length (r : Res) (idx v c : Nat) : (r.storeAt idx v c).slots.length = r.slots.length := by
  simp only [Res.storeAt, fastrandArg]
  by_cases h1 : idx < r.slots.length
  · simp [h1]
  · by_cases h3 : c % (idx + 1) < r.slots.length <;> simp [h1, h3]

@[simp] theorem storeAt_count (r : Res) (idx v c : Nat) : (r.storeAt idx v c).count = r.count := by
  simp only [Res.storeAt, fastrandArg]
  by_cases h1 : idx < r.slots.length
  · simp [h1]
  · by_cases h3 : c % (idx + 1) < r.slots.length <;> simp [h1, h3]

/-- the replacement step never reaches `fastrand(0)`: it asks for `idx + 1` -/
@[simp] theorem storeAt_panicked (r : Res) (idx v c : Nat) : (r.storeAt idx v c).panicked = r.panicked := by
  simp only [Res.storeAt, fastrandArg]
  by_cases h1 : idx < r.slots.length
  · simp [h1]
  · by_cases h3 : c % (idx + 1) < r.slots.length <;> simp [h1, h3]

/-! ## the invariant of every reachable state -/

structure CInv (cap : Nat) (s : Sys) : Prop where
  lenP : s.asr.primary.slots.length = cap
  lenS : s.asr.secondary.slots.length = cap
  okP : s.asr.primary.panicked = false
  okS : s.asr.secondary.panicked = false
  rd : ∀ th ∈ s.threads, ∀ p u len vals, th.pc = .reading p u len vals → len = min u cap ∧ vals.length ≤ len
  dr : ∀ td ∈ s.drains, td.2.len = min td.2.unsampled cap ∧ td.2.values.length = td.2.len

theorem CInv.init (cap : Nat) (progs : List (List COp)) : CInv cap (Sys.init cap progs) := by
  refine ⟨by simp [Sys.init, ASR.new], by simp [Sys.init, ASR.new], rfl, rfl, ?_, ?_⟩
  · intro th hth p u len vals hpc
    simp only [Sys.init, List.mem_map] at hth
    obtain ⟨_, _, rfl⟩ := hth
    simp at hpc
  · intro td htd
    simp [Sys.init] at htd

theorem mem_set_cases {α} {l : List α} {n : Nat} {a b : α} (h : a ∈ l.set n b) : a ∈ l ∨ a = b :=
  List.mem_or_eq_of_mem_set h

theorem CInv.setThread_rd {cap : Nat} {s : Sys} (h : CInv cap s) (t : Nat) (th' : Thread)
    (hth : ∀ p u len vals, th'.pc = .reading p u len vals → len = min u cap ∧ vals.length ≤ len) :
    ∀ th ∈ (s.setThread t th').threads, ∀ p u len vals, th.pc = .reading p u len vals →
      len = min u cap ∧ vals.length ≤ len := by
  intro th hmem
  rcases mem_set_cases hmem with h1 | rfl
  · exact h.rd th h1
  · exact hth

theorem side_len {cap : Nat} {s : Sys} (h : CInv cap s) (p : Bool) : (s.asr.side p).slots.length = cap := by
  cases p
  · exact h.lenS
  · exact h.lenP

theorem side_ok {cap : Nat} {s : Sys} (h : CInv cap s) (p : Bool) : (s.asr.side p).panicked = false := by
  cases p
  · exact h.okS
  · exact h.okP

theorem CInv.push_step {cap : Nat} {s : Sys} (h : CInv cap s) (t : Nat) (th : Thread) (hth : th ∈ s.threads)
    (v c : Nat) (rest : List COp) : CInv cap (pushStep s t th v c rest) := by
  unfold pushStep
  split
  · refine ⟨h.lenP, h.lenS, h.okP, h.okS, ?_, h.dr⟩
    exact h.setThread_rd t _ (by intro p u len vals e; simp at e)
  · rename_i _ p _
    have hl := side_len h p
    have ho := side_ok h p
    refine ⟨?_, ?_, ?_, ?_, ?_, h.dr⟩
    · cases p <;> simp_all [Sys.setThread, Res.claim, h.lenP]
    · cases p <;> simp_all [Sys.setThread, Res.claim, h.lenS]
    · cases p <;> simp_all [Sys.setThread, Res.claim, h.okP]
    · cases p <;> simp_all [Sys.setThread, Res.claim, h.okS]
    · intro th' hmem
      rcases mem_set_cases hmem with h1 | rfl
      · exact h.rd th' h1
      · intro p u len vals e; simp at e
  · rename_i _ p idx _
    have hl := side_len h p
    have ho := side_ok h p
    refine ⟨?_, ?_, ?_, ?_, ?_, h.dr⟩
    · cases p <;> simp_all [Sys.setThread, h.lenP]
    · cases p <;> simp_all [Sys.setThread, h.lenS]
    · cases p <;> simp_all [Sys.setThread, h.okP]
    · cases p <;> simp_all [Sys.setThread, h.okS]
    · intro th' hmem
      rcases mem_set_cases hmem with h1 | rfl
      · exact h.rd th' h1
      · intro p u len vals e; simp at e
  · exact h

theorem CInv.consume_step {cap : Nat} {s : Sys} (h : CInv cap s) (t : Nat) (th : Thread) (hth : th ∈ s.threads)
    (forget : Bool) (rest : List COp) : CInv cap (consumeStep s t th forget rest) := by
  unfold consumeStep
  split
  · split
    · exact h
    · refine ⟨h.lenP, h.lenS, h.okP, h.okS, ?_, h.dr⟩
      intro th' hmem
      rcases mem_set_cases hmem with h1 | rfl
      · exact h.rd th' h1
      · intro p u len vals e
        simp only [PC.reading.injEq] at e
        obtain ⟨_, rfl, rfl, rfl⟩ := e
        have hl : s.asr.active.slots.length = cap := by
          rw [active_eq_side]; exact side_len h _
        refine ⟨?_, by simp⟩
        rw [drain_len, drain_unsampled, hl]
  · rename_i p u len vals hpc
    have hr := h.rd th hth p u len vals hpc
    split
    · rename_i hlt
      refine ⟨h.lenP, h.lenS, h.okP, h.okS, ?_, h.dr⟩
      intro th' hmem
      rcases mem_set_cases hmem with h1 | rfl
      · exact h.rd th' h1
      · intro p' u' len' vals' e
        simp only [PC.reading.injEq] at e
        obtain ⟨_, rfl, rfl, rfl⟩ := e
        refine ⟨hr.1, ?_⟩
        simp; omega
    · rename_i hge
      refine ⟨?_, ?_, ?_, ?_, ?_, ?_⟩
      · cases forget <;> cases p <;> simp [Sys.setThread, Res.reset, h.lenP]
      · cases forget <;> cases p <;> simp [Sys.setThread, Res.reset, h.lenS]
      · cases forget <;> cases p <;> simp [Sys.setThread, Res.reset, h.okP]
      · cases forget <;> cases p <;> simp [Sys.setThread, Res.reset, h.okS]
      · intro th' hmem
        rcases mem_set_cases hmem with h1 | rfl
        · exact h.rd th' h1
        · intro p u len vals e; simp at e
      · intro td hmem
        simp only [Sys.setThread, List.mem_append, List.mem_singleton] at hmem
        rcases hmem with h1 | rfl
        · exact h.dr td h1
        · exact ⟨hr.1, by simp; omega⟩
  · exact h

theorem CInv.step {cap : Nat} {s : Sys} (h : CInv cap s) (t : Nat) : CInv cap (cstep s t) := by
  unfold cstep
  split
  · exact h
  · rename_i th hget
    have hth : th ∈ s.threads := List.mem_of_getElem? hget
    unfold threadStep
    split
    · exact h
    · exact h.push_step t th hth _ _ _
    · exact h.consume_step t th hth _ _
    · exact h.consume_step t th hth _ _

theorem CInv.run {cap : Nat} {s : Sys} (h : CInv cap s) (sched : List Nat) : CInv cap (crun s sched) := by
  induction sched generalizing s with
  | nil => exact h
  | cons t sched ih => exact ih (h.step t)

/-! ## a drain whose swap finds no push in flight on the retiring side -/

theorem take_snoc_getD (l : List Nat) (k : Nat) (h : k < l.length) : l.take k ++ [l.getD k 0] = l.take (k + 1) := by
  rw [List.take_add_one, List.getD_eq_getElem?_getD, List.getElem?_eq_getElem h]
  simp

theorem side_setSide_ne (a : ASR) (p q : Bool) (r : Res) (h : (q == p) = false) : (a.setSide q r).side p = a.side p := by
  cases p <;> cases q <;> simp_all [ASR.side, ASR.setSide]

@[simp] theorem setSide_usePrimary (a : ASR) (q : Bool) (r : Res) : (a.setSide q r).usePrimary = a.usePrimary := by
  cases q <;> rfl

theorem setThread_get_ne (s : Sys) (i j : Nat) (th : Thread) (h : i ≠ j) : (s.setThread i th).threads[j]? = s.threads[j]? := by
  simp [Sys.setThread, h]

theorem setThread_get_self (s : Sys) (i : Nat) (th th0 : Thread) (h : s.threads[i]? = some th0) :
    (s.setThread i th).threads[i]? = some th := by
  have : i < s.threads.length := by
    rcases Nat.lt_or_ge i s.threads.length with h1 | h1
    · exact h1
    · rw [List.getElem?_eq_none h1] at h; cases h
  simp [Sys.setThread, this]

/-- thread `t` is draining side `p`, whose state at the swap was `S0`; nobody else is inside a push on that side or
    inside another drain -/
structure QInv (s : Sys) (t : Nat) (p : Bool) (S0 : Res) (u len : Nat) (rest : List COp) : Prop where
  locked : s.locked = true
  up : s.asr.usePrimary = !p
  side : s.asr.side p = S0
  lenle : len ≤ S0.slots.length
  others : ∀ i th, s.threads[i]? = some th → i ≠ t →
    th.midPushOn p = false ∧ ∀ q u' l vs, th.pc ≠ .reading q u' l vs
  me : ∃ vals asked, s.threads[t]? = some { prog := .consume :: rest, pc := .reading p u len vals, asked := asked }
    ∧ vals = S0.slots.take vals.length ∧ vals.length ≤ len

theorem QInv.step {s : Sys} {t : Nat} {p : Bool} {S0 : Res} {u len : Nat} {rest : List COp}
    (h : QInv s t p S0 u len rest) (i : Nat) :
    (QInv (cstep s i) t p S0 u len rest ∧ (cstep s i).drains = s.drains)
    ∨ (cstep s i).drains = s.drains ++ [(t, DrainOut.mk (S0.slots.take len) u len)] := by
  unfold cstep
  cases hget : s.threads[i]? with
  | none => exact Or.inl ⟨h, rfl⟩
  | some th =>
    simp only
    by_cases hit : i = t
    · subst hit
      obtain ⟨vals, asked, hme, hv, hle⟩ := h.me
      rw [hget] at hme
      cases hme
      simp only [threadStep, consumeStep]
      by_cases hlt : vals.length < len
      · simp only [hlt, if_true]
        refine Or.inl ⟨⟨h.locked, h.up, h.side, h.lenle, ?_, ?_⟩, rfl⟩
        · intro j thj hj hne
          rw [setThread_get_ne _ _ _ _ (Ne.symm hne)] at hj
          exact h.others j thj hj hne
        · refine ⟨_, asked, setThread_get_self _ _ _ _ hget, ?_, ?_⟩
          · rw [h.side]
            have hk : vals.length < S0.slots.length := by have := h.lenle; omega
            simp only [List.length_append, List.length_singleton]
            rw [← take_snoc_getD _ _ hk, ← hv]
          · simp; omega
      · simp only [hlt, if_false]
        right
        have e : vals.length = len := by omega
        simp only [Sys.setThread]
        rw [hv, e]
    · obtain ⟨hmid, hnr⟩ := h.others i th hget hit
      have keepMe : ∀ (s' : Sys) (th' : Thread), s'.threads = s.threads →
          ∃ vals asked, (s'.setThread i th').threads[t]? = some { prog := .consume :: rest, pc := .reading p u len vals, asked := asked }
            ∧ vals = S0.slots.take vals.length ∧ vals.length ≤ len := by
        intro s' th' e
        obtain ⟨vals, asked, hme, hv, hle⟩ := h.me
        refine ⟨vals, asked, ?_, hv, hle⟩
        rw [setThread_get_ne _ _ _ _ hit, e]; exact hme
      have keepOthers : ∀ (s' : Sys) (th' : Thread), s'.threads = s.threads →
          (th'.midPushOn p = false ∧ ∀ q u' l vs, th'.pc ≠ .reading q u' l vs) →
          ∀ j thj, (s'.setThread i th').threads[j]? = some thj → j ≠ t →
            thj.midPushOn p = false ∧ ∀ q u' l vs, thj.pc ≠ .reading q u' l vs := by
        intro s' th' e hth' j thj hj hne
        by_cases hji : i = j
        · subst hji
          have hs' : s'.threads[i]? = some th := by rw [e]; exact hget
          rw [setThread_get_self _ _ _ _ hs'] at hj
          cases hj; exact hth'
        · rw [setThread_get_ne _ _ _ _ hji, e] at hj
          exact h.others j thj hj hne
      unfold threadStep
      split
      · exact Or.inl ⟨h, rfl⟩
      · -- push
        unfold MetricsVerif.Reservoir.pushStep
        split
        · refine Or.inl ⟨⟨h.locked, h.up, h.side, h.lenle, ?_, keepMe s _ rfl⟩, rfl⟩
          refine keepOthers s _ rfl ⟨?_, by intro q u' l vs e; simp at e⟩
          simp [Thread.midPushOn, h.up]
        · rename_i _ q hpc
          have hq : (q == p) = false := by simpa [Thread.midPushOn, hpc] using hmid
          refine Or.inl ⟨⟨h.locked, ?_, ?_, h.lenle, ?_, keepMe _ _ rfl⟩, rfl⟩
          · simpa [Sys.setThread] using h.up
          · simp only [Sys.setThread]; rw [side_setSide_ne _ _ _ _ hq]; exact h.side
          · refine keepOthers _ _ rfl ⟨?_, by intro q u' l vs e; simp at e⟩
            simpa [Thread.midPushOn] using hq
        · rename_i _ q idx hpc
          have hq : (q == p) = false := by simpa [Thread.midPushOn, hpc] using hmid
          refine Or.inl ⟨⟨h.locked, ?_, ?_, h.lenle, ?_, keepMe _ _ rfl⟩, rfl⟩
          · simpa [Sys.setThread] using h.up
          · simp only [Sys.setThread]; rw [side_setSide_ne _ _ _ _ hq]; exact h.side
          · exact keepOthers _ _ rfl ⟨by simp [Thread.midPushOn], by intro q u' l vs e; simp at e⟩
        · exact Or.inl ⟨h, rfl⟩
      · unfold MetricsVerif.Reservoir.consumeStep
        split
        · rw [if_pos h.locked]; exact Or.inl ⟨h, rfl⟩
        · rename_i _ q u' l vs hpc
          exact absurd hpc (hnr q u' l vs)
        · exact Or.inl ⟨h, rfl⟩
      · unfold MetricsVerif.Reservoir.consumeStep
        split
        · rw [if_pos h.locked]; exact Or.inl ⟨h, rfl⟩
        · rename_i _ q u' l vs hpc
          exact absurd hpc (hnr q u' l vs)
        · exact Or.inl ⟨h, rfl⟩


/-- drains are only ever appended -/
theorem cstep_drains (s : Sys) (i : Nat) : ∃ tail, (cstep s i).drains = s.drains ++ tail := by
  unfold cstep
  split
  · exact ⟨[], by simp⟩
  · unfold threadStep
    split
    · exact ⟨[], by simp⟩
    · unfold MetricsVerif.Reservoir.pushStep
      split <;> exact ⟨[], by simp [Sys.setThread]⟩
    · unfold MetricsVerif.Reservoir.consumeStep
      split
      · split <;> exact ⟨[], by simp [Sys.setThread]⟩
      · split
        · exact ⟨[], by simp [Sys.setThread]⟩
        · exact ⟨_, rfl⟩
      · exact ⟨[], by simp⟩
    · unfold MetricsVerif.Reservoir.consumeStep
      split
      · split <;> exact ⟨[], by simp [Sys.setThread]⟩
      · split
        · exact ⟨[], by simp [Sys.setThread]⟩
        · exact ⟨_, rfl⟩
      · exact ⟨[], by simp⟩

theorem crun_drains (s : Sys) (sched : List Nat) : ∃ tail, (crun s sched).drains = s.drains ++ tail := by
  induction sched generalizing s with
  | nil => exact ⟨[], by simp [crun]⟩
  | cons t sched ih =>
    obtain ⟨t1, h1⟩ := cstep_drains s t
    obtain ⟨t2, h2⟩ := ih (cstep s t)
    exact ⟨t1 ++ t2, by simp only [crun, List.foldl_cons] at h2 ⊢; rw [h2, h1, List.append_assoc]⟩

theorem QInv.run {s : Sys} {t : Nat} {p : Bool} {S0 : Res} {u len : Nat} {rest : List COp}
    (h : QInv s t p S0 u len rest) (sched : List Nat) :
    (crun s sched).drains = s.drains
    ∨ ∃ tail, (crun s sched).drains = s.drains ++ [(t, DrainOut.mk (S0.slots.take len) u len)] ++ tail := by
  induction sched generalizing s with
  | nil => exact Or.inl rfl
  | cons i sched ih =>
    simp only [crun, List.foldl_cons]
    rcases h.step i with ⟨h', e⟩ | e
    · rcases ih h' with e2 | ⟨tail, e2⟩
      · left; simp only [crun] at e2; rw [e2, e]
      · right; refine ⟨tail, ?_⟩; simp only [crun] at e2; rw [e2, e]
    · right
      obtain ⟨tail, e2⟩ := crun_drains (cstep s i) sched
      refine ⟨tail, ?_⟩
      simp only [crun] at e2; rw [e2, e]

/-- the swap step of a consumer that finds the lock free and no push in flight on the active side establishes `QInv` -/
theorem QInv.start (s0 : Sys) (t : Nat) (asked : List (Option Nat)) (rest : List COp)
    (hth : s0.threads[t]? = some { prog := .consume :: rest, pc := .idle, asked := asked })
    (hfree : s0.locked = false)
    (hq : ∀ (i : Nat) (th : Thread), s0.threads[i]? = some th →
      th.midPushOn s0.asr.usePrimary = false ∧ ∀ q u l vs, th.pc ≠ .reading q u l vs) :
    QInv (cstep s0 t) t s0.asr.usePrimary s0.asr.active s0.asr.active.drain.unsampled s0.asr.active.drain.len rest
    ∧ (cstep s0 t).drains = s0.drains := by
  unfold cstep
  rw [hth]
  simp only [threadStep, consumeStep, hfree, Bool.false_eq_true, if_false]
  refine ⟨⟨rfl, ?_, ?_, ?_, ?_, ?_⟩, rfl⟩
  · simp [Sys.setThread]
  · simp only [Sys.setThread]; rw [active_eq_side]; cases s0.asr.usePrimary <;> rfl
  · rw [drain_len]; omega
  · intro i th hi hne
    rw [setThread_get_ne _ _ _ _ (Ne.symm hne)] at hi
    exact hq i th hi
  · exact ⟨[], asked, setThread_get_self _ _ _ _ hth, by simp, by simp⟩

end MetricsVerif.Reservoir
