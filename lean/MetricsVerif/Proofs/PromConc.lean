/-
Helper lemmas for `Props/C07Conc.lean` (the Prometheus histogram path on the bucket step machine).
-/
import MetricsVerif.Model.PromConc
import MetricsVerif.Proofs.BucketCons

namespace MetricsVerif.PromConc
open MetricsVerif.Bucket

/-! ### programs -/

theorem count_push_recCalls (vs : List Nat) (v : Nat) : (recCalls vs).count (Call.push v) = vs.count v := by
  induction vs with
  | nil => rfl
  | cons w r ih =>
    simp only [recCalls, List.map_cons, List.count_cons] at ih ⊢
    rw [ih]
    by_cases h : w = v <;> simp [h]

theorem count_push_drainCalls (n : Nat) (v : Nat) : (drainCalls n).count (Call.push v) = 0 := by
  simp [drainCalls, List.count_replicate]

theorem count_push_progsOf (recs : List (List Nat)) (drains : List Nat) (v : Nat) :
    (progsOf recs drains).flatten.count (Call.push v) = (recorded recs).count v := by
  have h1 : ∀ ds : List Nat, (ds.map drainCalls).flatten.count (Call.push v) = 0 := by
    intro ds
    induction ds with
    | nil => rfl
    | cons d r ih => simp only [List.map_cons, List.flatten_cons, List.count_append, ih, count_push_drainCalls]
  simp only [progsOf, recorded, List.flatten_append, List.count_append, h1, Nat.add_zero]
  induction recs with
  | nil => rfl
  | cons r rs ih => simp only [List.map_cons, List.flatten_cons, List.count_append, ih, count_push_recCalls]

/-! ### everything the clears have been handed (finished AND running ones) and what is still visible are disjoint parts
of the claimed cells — `delivered_visible_le_cells` with the running clears included -/

theorem folded_visible_le_cells (B : Nat) (progs : List (List Call)) (sched : List Nat) (v : Nat) :
    (delivered (run (init B progs) sched)).count v + (inRunningClears (run (init B progs) sched)).count v
        + (visible (run (init B progs) sched)).count v
      ≤ cellsCount v (run (init B progs) sched) := by
  obtain ⟨hg, ha⟩ := grun_inv sched _ _ (init_ginv B progs) (init_gacc B progs)
  rw [grun_fst] at hg ha
  generalize (grun (init B progs) own0 sched).2 = own at hg ha
  generalize run (init B progs) sched = s at hg ha ⊢
  have h1 := Dsum_split s v
  have h2 := ha.le v
  have h3 := rsum_add_lsum_le_csum v own s.blocks 0
  rw [cellsCount_eq]
  suffices (visible s).count v ≤ lsum v own s.blocks 0 by omega
  obtain ⟨lb, hlb, hlive, htn, hts⟩ := hg.live
  unfold visible
  cases ht : s.tail with
  | none =>
    have : chainData s s.blocks.length none = [] := by cases s.blocks.length <;> rfl
    rw [this]; simp
  | some b =>
    obtain ⟨h4, hseg⟩ := hts b ht
    have hbl := hg.base.inv.tail_valid b ht
    obtain ⟨n, rfl⟩ : ∃ n, b = lb + n := ⟨b - lb, by omega⟩
    have := chain_le_lsum s own v lb n s.blocks.length (by omega) hseg (fun i h _ => (hlive i).mpr h)
    rw [hbl, List.take_length] at this
    exact this

/-! ### the last drain pass, run after every other thread has finished, leaves the bucket empty -/

/-- where the last drainer (program: one `clear_with`) can be, together with what the tail is then -/
def finalPhase (tail : Option Nat) (t : Thread) : Prop :=
  match t.pc with
  | .start => t.calls = [.clear]
  | .cLoadTail => t.calls = [.clear]
  | .cCas old => t.calls = [.clear] ∧ tail = some old
  | .cQuiesced _ => t.calls = [.clear] ∧ tail = none
  | .cWait _ => t.calls = [.clear] ∧ tail = none
  | .cRead _ => t.calls = [.clear] ∧ tail = none
  | .cNext _ => t.calls = [.clear] ∧ tail = none
  | .done => tail = none
  | _ => False

theorem finalPhase_step (s : Sys) (t : Thread) (h : finalPhase s.tail t) :
    finalPhase (stepThread s t).1.tail (stepThread s t).2 := by
  unfold finalPhase at h
  unfold stepThread
  cases hp : t.pc with
  | start => rw [hp] at h; simp only at h ⊢; simp [finalPhase, h, startPC, pcOfCall]
  | done => rw [hp] at h; simp only at h ⊢; simp [finalPhase, hp, h]
  | cLoadTail =>
    rw [hp] at h; simp only at h ⊢
    cases ht : s.tail with
    | none => simp [finalPhase, Thread.advance, h, startPC, ht]
    | some b => simp [finalPhase, h, ht]
  | cCas old =>
    rw [hp] at h; simp only at h ⊢
    simp [finalPhase, h.1, h.2]
  | cQuiesced blk => rw [hp] at h; simp only at h ⊢; split <;> simp [finalPhase, h.1, h.2]
  | cWait blk => rw [hp] at h; simp only at h ⊢; split <;> simp [finalPhase, h.1, h.2]
  | cRead blk => rw [hp] at h; simp only at h ⊢; simp [finalPhase, h.1, h.2]
  | cNext blk =>
    rw [hp] at h; simp only at h ⊢
    split
    · simp [finalPhase, Thread.advance, h.1, h.2, startPC]
    · simp [finalPhase, h.1, h.2]
  | pLoadTail => rw [hp] at h; exact h.elim
  | pCasFirst => rw [hp] at h; exact h.elim
  | pClaim _ _ => rw [hp] at h; exact h.elim
  | pPublish _ _ => rw [hp] at h; exact h.elim
  | pCasNew _ => rw [hp] at h; exact h.elim
  | dLoadTail => rw [hp] at h; exact h.elim
  | dQuiesced _ => rw [hp] at h; exact h.elim
  | dWait _ => rw [hp] at h; exact h.elim
  | dRead _ => rw [hp] at h; exact h.elim
  | dNext _ => rw [hp] at h; exact h.elim
  | eLoadTail => rw [hp] at h; exact h.elim
  | eLen _ => rw [hp] at h; exact h.elim

/-- all threads but `f` have finished, `f` is the last drain pass -/
structure FinalDrain (s : Sys) (f : Nat) : Prop where
  others : ∀ (i : Nat) (t : Thread), s.threads[i]? = some t → i ≠ f → t.pc = .done
  me : ∃ t, s.threads[f]? = some t ∧ finalPhase s.tail t

/-- a step of a finished thread (or of a thread that does not exist) changes nothing -/
theorem step_done (s : Sys) (tid : Nat) (h : ∀ t, s.threads[tid]? = some t → t.pc = .done) : step s tid = s := by
  unfold step
  cases hg : s.threads[tid]? with
  | none => rfl
  | some t =>
    have hd := h t hg
    have : stepThread s t = (s, t) := by unfold stepThread; rw [hd]
    simp only [this, setAt_same' _ _ _ hg]

theorem finalDrain_step (s : Sys) (f tid : Nat) (h : FinalDrain s f) : FinalDrain (step s tid) f := by
  by_cases hf : tid = f
  · subst hf
    obtain ⟨t, hg, hph⟩ := h.me
    have hst := step_threads s tid t hg
    have htail : (step s tid).tail = (stepThread s t).1.tail := by
      unfold step; rw [hg]
    have hlt : tid < s.threads.length := by
      rcases Nat.lt_or_ge tid s.threads.length with h1 | h1
      · exact h1
      · rw [List.getElem?_eq_none h1] at hg; cases hg
    refine ⟨?_, ⟨(stepThread s t).2, ?_, ?_⟩⟩
    · intro i u hu hne
      rw [hst.1, getElem?_setAt] at hu
      have : ¬ (tid = i ∧ i < s.threads.length) := fun hh => hne hh.1.symm
      rw [if_neg this] at hu
      exact h.others i u hu hne
    · rw [hst.1, getElem?_setAt]; simp [hlt]
    · rw [htail]; exact finalPhase_step s t hph
  · have : step s tid = s := step_done s tid (fun t ht => h.others tid t ht hf)
    rw [this]; exact h

theorem finalDrain_run (f : Nat) (sched : List Nat) : ∀ s, FinalDrain s f → FinalDrain (run s sched) f := by
  induction sched with
  | nil => intro s h; exact h
  | cons t ts ih => intro s h; simp only [run, List.foldl_cons]; exact ih _ (finalDrain_step s f t h)

/-- once the last drain pass has finished too, the tail is null: nothing is left in the bucket -/
theorem finalDrain_tail_none (s : Sys) (f : Nat) (h : FinalDrain s f) (hq : quiescent s = true) : s.tail = none := by
  obtain ⟨t, hg, hph⟩ := h.me
  have hm : t ∈ s.threads := List.mem_of_getElem? hg
  have hd : t.pc = .done := by
    simp only [quiescent, List.all_eq_true] at hq
    have := hq t hm
    simpa using this
  unfold finalPhase at hph
  rw [hd] at hph
  exact hph

theorem visible_of_tail_none (s : Sys) (h : s.tail = none) : visible s = [] := by
  unfold visible
  rw [h]
  cases s.blocks.length <;> rfl

/-! ### grants -/

/-- a schedule of scheduler grants is that very schedule of single steps (one grant = one step: the CAS of
    `clear_with` has its own yield point `bkt.clear.cas`) -/
theorem foldl_grant_eq_run (sched : List Nat) : ∀ s : Sys, sched.foldl grant s = run s sched := by
  induction sched with
  | nil => intro s; rfl
  | cons tid r ih =>
    intro s
    simp only [List.foldl_cons, run, grant]
    exact ih _

end MetricsVerif.PromConc
