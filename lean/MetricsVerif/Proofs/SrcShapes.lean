/-
Helpers for obligations over the translator's atomic-call shapes (`Generated/SourceFacts.lean`, `shape_*`):
a shape is the list of `(receiver.method, orderings)` of a function's atomic calls (plus a few named plain
calls) in source order.  Orderings are compared by strength (an ordering may be strengthened without breaking
an obligation; weakening it below what the publish/consume idiom needs does break it).
-/
namespace MetricsVerif.Src

abbrev Shape := List (String × List String)

def isRelease (s : String) : Bool := s == "Release" || s == "AcqRel" || s == "SeqCst"
def isAcquire (s : String) : Bool := s == "Acquire" || s == "AcqRel" || s == "SeqCst"

/-- the calls, in order, without their orderings -/
def names (sh : Shape) : List String := sh.map (·.1)

/-- success ordering (first listed) of the `k`-th call named `c` (0-based among calls of that name) -/
def ordOf (sh : Shape) (c : String) (k : Nat := 0) : String :=
  match (sh.filter (·.1 == c))[k]? with
  | some (_, o :: _) => o
  | _ => "<none>"

/-- every call named `c` has a release (resp. acquire) success ordering, and there is at least one -/
def allRelease (sh : Shape) (c : String) : Bool :=
  let cs := sh.filter (·.1 == c)
  !cs.isEmpty && cs.all (fun p => match p.2 with | o :: _ => isRelease o | [] => false)
def allAcquire (sh : Shape) (c : String) : Bool :=
  let cs := sh.filter (·.1 == c)
  !cs.isEmpty && cs.all (fun p => match p.2 with | o :: _ => isAcquire o | [] => false)

end MetricsVerif.Src
