import MetricsVerif.Model.StatsdFwd
/-
Helper lemmas for the forwarder client machine (`Model/StatsdFwd`): the shape invariant of every socket's history
(only the last send on a socket can have failed, and then the socket is closed), what a chunk can be, and the
receiver's de-framing of such a history.
-/
namespace MetricsVerif.StatsdFwd
open MetricsVerif.Statsd

/-! ## `Client::send` -/

theorem clientSend_ok_bytes {stream : Bool} {p : Bytes} {w : WriteRes} (h : (clientSend stream p w).ok = true) :
    (clientSend stream p w).bytes = p := by
  cases w with
  | full => rfl
  | fail k =>
    cases stream with
    | false => simp [clientSend] at h
    | true =>
      by_cases hp : p.isEmpty = true
      · simp [clientSend, hp]; exact List.isEmpty_iff.mp hp
      · simp [clientSend, hp] at h

theorem clientSend_torn {p : Bytes} {w : WriteRes} (h : (clientSend true p w).ok = false) :
    ∃ k, k < p.length ∧ (clientSend true p w).bytes = p.take k := by
  cases w with
  | full => simp [clientSend] at h
  | fail k =>
    by_cases hp : p.isEmpty = true
    · simp [clientSend, hp] at h
    · have hl : 0 < p.length := by
        cases p with
        | nil => simp at hp
        | cons a t => simp
      refine ⟨min k (p.length - 1), by omega, ?_⟩
      simp [clientSend, hp]

theorem clientSend_dgram_fail {p : Bytes} {w : WriteRes} (h : (clientSend false p w).ok = false) :
    (clientSend false p w).bytes = [] := by
  cases w with
  | full => simp [clientSend] at h
  | fail k => simp [clientSend]

/-! ## the invariant -/

/-- a chunk is what `Client::send` leaves for SOME payload satisfying `P` -/
def ChunkOf (P : Bytes → Prop) (stream : Bool) (ch : Chunk) : Prop := ∃ p w, P p ∧ ch = clientSend stream p w

/-- the live socket: every send on it returned `Ok` -/
def LiveOk (P : Bytes → Prop) (stream : Bool) (c : Conn) : Prop := ∀ ch ∈ c, ch.ok = true ∧ ChunkOf P stream ch

/-- a dropped socket: every send but the last returned `Ok`, the last one failed -/
def ClosedOk (P : Bytes → Prop) (stream : Bool) (c : Conn) : Prop :=
  ∃ pre last, c = pre ++ [last] ∧ LiveOk P stream pre ∧ last.ok = false ∧ ChunkOf P stream last

structure Inv (P : Bytes → Prop) (s : Fwd) : Prop where
  live : ∀ c, s.ready = some c → LiveOk P s.stream c
  closed : ∀ c ∈ s.closed, ClosedOk P s.stream c

theorem init_inv (P : Bytes → Prop) (stream : Bool) : Inv P (init stream) :=
  ⟨by intro c h; simp [init] at h, by intro c h; simp [init] at h⟩

theorem sendOn_ok {s : Fwd} {c : Conn} {p : Bytes} {w : WriteRes} (h : (clientSend s.stream p w).ok = true) :
    sendOn s c p w = ({ s with ready := some (c ++ [clientSend s.stream p w]) }, some p.length) := by
  unfold sendOn; simp [h]

theorem sendOn_fail {s : Fwd} {c : Conn} {p : Bytes} {w : WriteRes} (h : (clientSend s.stream p w).ok = false) :
    sendOn s c p w = ({ s with ready := none, closed := s.closed ++ [c ++ [clientSend s.stream p w]] }, none) := by
  unfold sendOn; simp [h]

theorem sendOn_stream (s : Fwd) (c : Conn) (p : Bytes) (w : WriteRes) : (sendOn s c p w).1.stream = s.stream := by
  cases h : (clientSend s.stream p w).ok
  · rw [sendOn_fail h]
  · rw [sendOn_ok h]

theorem trySend_stream (s : Fwd) (p : Bytes) (e : Env) : (trySend s p e).1.stream = s.stream := by
  unfold trySend
  split
  · exact sendOn_stream ..
  · split
    · exact sendOn_stream ..
    · rfl

theorem sendOn_inv {P : Bytes → Prop} {s : Fwd} {c : Conn} (h : Inv P s) (hc : LiveOk P s.stream c) {p : Bytes}
    (hp : P p) (w : WriteRes) : Inv P (sendOn s c p w).1 := by
  have hch : ChunkOf P s.stream (clientSend s.stream p w) := ⟨p, w, hp, rfl⟩
  cases hok : (clientSend s.stream p w).ok
  · rw [sendOn_fail hok]
    refine ⟨by intro c' hc'; simp at hc', ?_⟩
    intro c' hc'
    rcases List.mem_append.mp hc' with hm | hm
    · exact h.closed c' hm
    · simp only [List.mem_singleton] at hm; subst hm
      exact ⟨c, _, rfl, hc, hok, hch⟩
  · rw [sendOn_ok hok]
    refine ⟨?_, h.closed⟩
    intro c' hc'
    simp only [Option.some.injEq] at hc'
    subst hc'
    intro ch hmem
    rcases List.mem_append.mp hmem with hm | hm
    · exact hc ch hm
    · simp only [List.mem_singleton] at hm; subst hm; exact ⟨hok, hch⟩

theorem trySend_inv {P : Bytes → Prop} {s : Fwd} (h : Inv P s) {p : Bytes} (hp : P p) (e : Env) :
    Inv P (trySend s p e).1 := by
  unfold trySend
  split
  · next c hc => exact sendOn_inv h (h.live c hc) hp _
  · split
    · exact sendOn_inv h (by intro ch hm; cases hm) hp _
    · exact h

theorem run_inv {P : Bytes → Prop} : ∀ (ops : List (Bytes × Env)) (s : Fwd), Inv P s → (∀ op ∈ ops, P op.1) →
    Inv P (run s ops).1 := by
  intro ops
  induction ops with
  | nil => intro s h _; exact h
  | cons op ops ih =>
    intro s h hP
    obtain ⟨p, e⟩ := op
    simp only [run]
    exact ih _ (trySend_inv h (hP (p, e) (List.mem_cons_self ..)) e) (fun o ho => hP o (List.mem_cons_of_mem _ ho))

/-! ## who got what -/

/-- the payloads whose `try_send` returned `Ok`, in order -/
def okSent : List (Bytes × Env) → List (Option Nat) → List Bytes
  | (p, _) :: ops, some _ :: os => p :: okSent ops os
  | _ :: ops, none :: os => okSent ops os
  | _, _ => []

theorem flatMap_rxDgram_append_singleton (cs : List Conn) (c : Conn) :
    (cs ++ [c]).flatMap rxDgram = cs.flatMap rxDgram ++ rxDgram c := by
  simp [List.flatMap_append]

theorem rxDgram_append (c : Conn) (ch : Chunk) :
    rxDgram (c ++ [ch]) = rxDgram c ++ (if ch.ok then [ch.bytes] else []) := by
  unfold rxDgram
  by_cases h : ch.ok = true <;> simp [List.filter_append, h]

/-- one `Client::send` on socket `c` (the live one, or a fresh one when disconnected): the whole payloads the
    receivers get grow by exactly this payload if the call returned `Ok`, and by nothing otherwise -/
theorem sendOn_received (s : Fwd) (c : Conn) (p : Bytes) (w : WriteRes) :
    (conns (sendOn s c p w).1).flatMap rxDgram
      = s.closed.flatMap rxDgram ++ rxDgram c ++ (if (sendOn s c p w).2.isSome then [p] else []) := by
  cases hok : (clientSend s.stream p w).ok
  · rw [sendOn_fail hok]
    simp only [conns, Option.toList, Option.isSome, List.append_nil]
    rw [flatMap_rxDgram_append_singleton, rxDgram_append]
    simp [hok]
  · rw [sendOn_ok hok]
    simp only [conns, Option.toList, Option.isSome]
    rw [flatMap_rxDgram_append_singleton, rxDgram_append]
    simp [hok, clientSend_ok_bytes hok, List.append_assoc]

theorem trySend_received (s : Fwd) (p : Bytes) (e : Env) :
    (conns (trySend s p e).1).flatMap rxDgram
      = (conns s).flatMap rxDgram ++ (if (trySend s p e).2.isSome then [p] else []) := by
  unfold trySend
  split
  · next c hc =>
    rw [sendOn_received]
    simp [conns, hc, List.flatMap_append]
  · next hc =>
    split
    · rw [sendOn_received]
      simp [conns, hc, rxDgram]
    · simp [conns, hc]

theorem run_received : ∀ (ops : List (Bytes × Env)) (s : Fwd),
    (conns (run s ops).1).flatMap rxDgram = (conns s).flatMap rxDgram ++ okSent ops (run s ops).2 := by
  intro ops
  induction ops with
  | nil => intro s; simp [run, okSent]
  | cons op ops ih =>
    intro s
    obtain ⟨p, e⟩ := op
    simp only [run]
    rw [ih, trySend_received]
    cases h : (trySend s p e).2 <;> simp [okSent, List.append_assoc]

/-! ## the payload loop with its counters (`cycle`) -/

/-- total bytes of a list of payloads -/
def totalLen (ps : List Bytes) : Nat := (ps.map List.length).sum

theorem run_length : ∀ (ops : List (Bytes × Env)) (s : Fwd), (run s ops).2.length = ops.length := by
  intro ops
  induction ops with
  | nil => intro s; rfl
  | cons op ops ih => intro s; obtain ⟨p, e⟩ := op; simp only [run, List.length_cons]; rw [ih]

theorem cycle_state : ∀ (ops : List (Bytes × Env)) (s : Fwd) (c : SendCounts), (cycle s c ops).1 = (run s ops).1 := by
  intro ops
  induction ops with
  | nil => intro s c; rfl
  | cons op ops ih => intro s c; obtain ⟨p, e⟩ := op; simp only [cycle, run]; rw [ih]

/-- the counters after the loop, from ANY starting counters and ANY client state: each counter grew by exactly what
    the per-payload results say -/
theorem cycle_counts_from : ∀ (ops : List (Bytes × Env)) (s : Fwd) (c : SendCounts),
    (cycle s c ops).2.packetsSent = c.packetsSent + (okSent ops (run s ops).2).length
    ∧ (cycle s c ops).2.bytesSent = c.bytesSent + totalLen (okSent ops (run s ops).2)
    ∧ (cycle s c ops).2.packetsSent + (cycle s c ops).2.packetsDropped = c.packetsSent + c.packetsDropped + ops.length
    ∧ (cycle s c ops).2.bytesSent + (cycle s c ops).2.bytesDropped
        = c.bytesSent + c.bytesDropped + totalLen (ops.map (·.1))
    ∧ (cycle s c ops).2.packetsDroppedWriter + c.packetsDropped = c.packetsDroppedWriter + (cycle s c ops).2.packetsDropped
    ∧ (cycle s c ops).2.bytesDroppedWriter + c.bytesDropped = c.bytesDroppedWriter + (cycle s c ops).2.bytesDropped := by
  intro ops
  induction ops with
  | nil => intro s c; simp [cycle, okSent, totalLen]
  | cons op ops ih =>
    intro s c
    obtain ⟨p, e⟩ := op
    simp only [cycle, run]
    obtain ⟨h1, h2, h3, h4, h5, h6⟩ := ih (trySend s p e).1 (track c p.length (trySend s p e).2)
    cases h : (trySend s p e).2 with
    | none =>
      rw [h] at h1 h2 h3 h4 h5 h6
      simp only [track, trackFailed] at h1 h2 h3 h4 h5 h6 ⊢
      simp only [okSent, totalLen, List.map_cons, List.sum_cons, List.length_cons] at h1 h2 h3 h4 h5 h6 ⊢
      refine ⟨h1, h2, ?_, ?_, ?_, ?_⟩ <;> omega
    | some n =>
      rw [h] at h1 h2 h3 h4 h5 h6
      simp only [track, trackOk] at h1 h2 h3 h4 h5 h6 ⊢
      simp only [okSent, totalLen, List.map_cons, List.sum_cons, List.length_cons] at h1 h2 h3 h4 h5 h6 ⊢
      refine ⟨?_, ?_, ?_, ?_, h5, h6⟩ <;> omega

/-! ## the receiver's de-framing -/

theorem le32val_le32 (n : Nat) (h : n < 4294967296) :
    le32val (UInt8.ofNat (n % 256)) (UInt8.ofNat (n / 256 % 256)) (UInt8.ofNat (n / 65536 % 256))
      (UInt8.ofNat (n / 16777216 % 256)) = n := by
  simp only [le32val, UInt8.toNat_ofNat']
  omega

theorem deframeGo_nil (fuel : Nat) : deframeGo fuel [] = ([], []) := by
  cases fuel <;> simp [deframeGo]

/-- a whole lpFrame at the head of the stream is read as its body, and reading goes on behind it -/
theorem deframeGo_frame (b rest : Bytes) (hb : b.length < 4294967296) (fuel : Nat) :
    deframeGo (fuel + 1) (lpFrame b ++ rest) = (b :: (deframeGo fuel rest).1, (deframeGo fuel rest).2) := by
  simp only [lpFrame, le32, List.cons_append, List.nil_append, deframeGo]
  rw [le32val_le32 _ hb]
  simp [List.take_left', List.drop_left']

/-- a truncated lpFrame (a proper prefix of `lpFrame b`) is not read at all -/
theorem deframeGo_torn (b : Bytes) (hb : b.length < 4294967296) (k : Nat) (hk : k < (lpFrame b).length) (fuel : Nat) :
    deframeGo fuel ((lpFrame b).take k) = ([], (lpFrame b).take k) := by
  cases fuel with
  | zero => simp [deframeGo]
  | succ fuel =>
    simp only [lpFrame, le32, List.cons_append, List.nil_append, List.length_cons] at hk ⊢
    match k, hk with
    | 0, _ => simp [deframeGo]
    | 1, _ => simp [deframeGo]
    | 2, _ => simp [deframeGo]
    | 3, _ => simp [deframeGo]
    | k + 4, hk =>
      simp only [List.take_succ_cons, deframeGo]
      rw [le32val_le32 _ hb]
      simp
      omega

/-- what can be left at the end of a connection: nothing, or a truncated lpFrame -/
def TornFrame (t : Bytes) : Prop := t = [] ∨ ∃ b k, b.length < 4294967296 ∧ k < (lpFrame b).length ∧ t = (lpFrame b).take k

theorem deframeGo_frames (t : Bytes) (ht : TornFrame t) : ∀ (bodies : List Bytes), (∀ b ∈ bodies, b.length < 4294967296) →
    ∀ fuel, bodies.length ≤ fuel → deframeGo fuel ((bodies.map lpFrame).flatten ++ t) = (bodies, t) := by
  intro bodies
  induction bodies with
  | nil =>
    intro _ fuel _
    simp only [List.map_nil, List.flatten_nil, List.nil_append]
    rcases ht with rfl | ⟨b, k, hb, hk, rfl⟩
    · exact deframeGo_nil fuel
    · exact deframeGo_torn b hb k hk fuel
  | cons b bodies ih =>
    intro hb fuel hf
    cases fuel with
    | zero => simp at hf
    | succ fuel =>
      simp only [List.map_cons, List.flatten_cons, List.append_assoc]
      rw [deframeGo_frame b _ (hb b (List.mem_cons_self ..)) fuel,
        ih (fun x hx => hb x (List.mem_cons_of_mem _ hx)) fuel (by simpa using hf)]

theorem frame_length (b : Bytes) : (lpFrame b).length = b.length + 4 := by
  simp [lpFrame, le32]

theorem flatten_frames_length (bodies : List Bytes) : bodies.length ≤ ((bodies.map lpFrame).flatten).length := by
  induction bodies with
  | nil => simp
  | cons b bs ih => simp only [List.map_cons, List.flatten_cons, List.length_append, List.length_cons, frame_length]; omega

/-- **the Agent's reader on a connection that carries whole frames and then at most one truncated lpFrame** reads
    exactly those frames' bodies and leaves the truncated one unread -/
theorem deframe_frames (bodies : List Bytes) (hb : ∀ b ∈ bodies, b.length < 4294967296) (t : Bytes) (ht : TornFrame t) :
    deframe ((bodies.map lpFrame).flatten ++ t) = (bodies, t) := by
  unfold deframe
  apply deframeGo_frames t ht bodies hb
  have := flatten_frames_length bodies
  simp only [List.length_append]; omega

/-- payloads as the writer emits them in length-prefixed mode -/
def IsFrame (p : Bytes) : Prop := ∃ b, b.length < 4294967296 ∧ p = lpFrame b

theorem frame_drop (b : Bytes) : (lpFrame b).drop 4 = b := by simp [lpFrame, le32]

/-- the bytes of a run of successful sends of framed payloads -/
theorem live_bytes {c : Conn} (h : LiveOk IsFrame true c) :
    c.map (·.bytes) = (c.map (fun ch => ch.bytes.drop 4)).map lpFrame
    ∧ ∀ b ∈ c.map (fun ch => ch.bytes.drop 4), b.length < 4294967296 := by
  induction c with
  | nil => simp
  | cons ch c ih =>
    obtain ⟨hok, p, w, ⟨b, hb, hp⟩, hch⟩ := h ch (List.mem_cons_self ..)
    have hbytes : ch.bytes = lpFrame b := by
      rw [hch] at hok ⊢; rw [clientSend_ok_bytes hok, hp]
    obtain ⟨ih1, ih2⟩ := ih (fun x hx => h x (List.mem_cons_of_mem _ hx))
    refine ⟨?_, ?_⟩
    · simp only [List.map_cons, hbytes, frame_drop]
      rw [ih1]
    · intro x hx
      simp only [List.map_cons, List.mem_cons] at hx
      rcases hx with rfl | hx
      · rw [hbytes, frame_drop]; exact hb
      · exact ih2 x hx

theorem filter_ok_live {P : Bytes → Prop} {stream : Bool} {c : Conn} (h : LiveOk P stream c) : c.filter (·.ok) = c := by
  apply List.filter_eq_self.mpr
  intro ch hm; exact (h ch hm).1

end MetricsVerif.StatsdFwd
