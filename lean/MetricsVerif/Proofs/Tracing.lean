/-
Helper lemmas and the specification vocabulary for C17 (model: `Model/Tracing.lean`).

Specification vocabulary (used in the statements of `Props/C17.lean`):
* `lastAssign evs k`   the value of the *latest* assignment to `k` in a time-ordered list of assignments;
* `Chain`, `visibleSpec` the assignment histories a span can see, innermost level first: its own history,
                       then the history its parent had *when the span was created*, and so on; a name is
                       looked up in the innermost level that ever assigned it;
* `chainStep`, `runG`  how those histories evolve with the subscriber calls — defined on op lists only,
                       without any reference to the insertion-ordered maps of the model.
-/
import MetricsVerif.Model.Tracing

namespace MetricsVerif.Tracing

/-! ### insertion-ordered maps -/

namespace FMap

@[simp] theorem get?_nil (k : Str) : get? [] k = none := rfl

theorem get?_cons (k' v' : Str) (r : FMap) (k : Str) :
    get? ((k', v') :: r) k = if k' = k then some v' else get? r k := rfl

theorem get?_insert (m : FMap) (k v k' : Str) :
    (insert m k v).get? k' = if k = k' then some v else m.get? k' := by
  induction m with
  | nil => simp [insert, get?]
  | cons x xs ih =>
    obtain ⟨kx, vx⟩ := x
    simp only [insert]
    by_cases hx : kx = k
    · subst hx
      simp only [if_true, get?]
      by_cases h : kx = k' <;> simp [h]
    · simp only [hx, if_false, get?, ih]
      by_cases h : kx = k'
      · subst h
        have : ¬ k = kx := fun e => hx e.symm
        simp [this]
      · simp [h]

theorem get?_insertIfAbsent (m : FMap) (k v k' : Str) :
    (insertIfAbsent m k v).get? k' = (m.get? k').or (if k = k' then some v else none) := by
  induction m with
  | nil => simp [insertIfAbsent, get?]
  | cons x xs ih =>
    obtain ⟨kx, vx⟩ := x
    simp only [insertIfAbsent]
    by_cases hx : kx = k
    · subst hx
      simp only [if_true, get?]
      by_cases h : kx = k' <;> simp [h]
    · simp only [hx, if_false, get?, ih]
      by_cases h : kx = k' <;> simp [h]

theorem keys_insert (m : FMap) (k v : Str) :
    (insert m k v).keys = if k ∈ m.keys then m.keys else m.keys ++ [k] := by
  induction m with
  | nil => simp [insert, keys]
  | cons x xs ih =>
    obtain ⟨kx, vx⟩ := x
    simp only [insert]
    by_cases hx : kx = k
    · subst hx; simp [keys]
    · have hx' : ¬ k = kx := fun e => hx e.symm
      simp only [hx, if_false]
      simp only [keys, List.map_cons, List.mem_cons, hx', false_or] at ih ⊢
      rw [ih]
      by_cases hm : k ∈ List.map Prod.fst xs <;> simp [hm]

theorem keys_insertIfAbsent (m : FMap) (k v : Str) :
    (insertIfAbsent m k v).keys = if k ∈ m.keys then m.keys else m.keys ++ [k] := by
  induction m with
  | nil => simp [insertIfAbsent, keys]
  | cons x xs ih =>
    obtain ⟨kx, vx⟩ := x
    simp only [insertIfAbsent]
    by_cases hx : kx = k
    · subst hx; simp [keys]
    · have hx' : ¬ k = kx := fun e => hx e.symm
      simp only [hx, if_false]
      simp only [keys, List.map_cons, List.mem_cons, hx', false_or] at ih ⊢
      rw [ih]
      by_cases hm : k ∈ List.map Prod.fst xs <;> simp [hm]

theorem nodup_append_singleton {l : List Str} {k : Str} (h : l.Nodup) (hk : k ∉ l) : (l ++ [k]).Nodup := by
  rw [List.nodup_append]
  refine ⟨h, by simp, ?_⟩
  intro a ha b hb
  simp only [List.mem_singleton] at hb
  subst hb
  intro e
  subst e
  exact hk ha

theorem nodup_insert {m : FMap} (h : m.keys.Nodup) (k v : Str) : (insert m k v).keys.Nodup := by
  rw [keys_insert]
  split
  · exact h
  · next hk => exact nodup_append_singleton h hk

theorem nodup_insertIfAbsent {m : FMap} (h : m.keys.Nodup) (k v : Str) : (insertIfAbsent m k v).keys.Nodup := by
  rw [keys_insertIfAbsent]
  split
  · exact h
  · next hk => exact nodup_append_singleton h hk

theorem get?_eq_none_of_not_mem {m : FMap} {k : Str} (h : k ∉ m.keys) : m.get? k = none := by
  induction m with
  | nil => rfl
  | cons x xs ih =>
    obtain ⟨kx, vx⟩ := x
    simp only [keys, List.map_cons, List.mem_cons, not_or] at h
    have : ¬ kx = k := fun e => h.1 e.symm
    simp only [get?, this, if_false]
    exact ih h.2

theorem mem_keys_of_get? {m : FMap} {k v : Str} (h : m.get? k = some v) : k ∈ m.keys := by
  apply Classical.byContradiction
  intro hn
  rw [get?_eq_none_of_not_mem hn] at h
  cases h

theorem get?_isNone_iff_all (m : FMap) : (∀ k, m.get? k = none) ↔ m = [] := by
  constructor
  · intro h
    cases m with
    | nil => rfl
    | cons x xs =>
      obtain ⟨kx, vx⟩ := x
      have := h kx
      simp [get?] at this
  · intro h; subst h; intro k; rfl

/-- for a map with distinct keys, membership is lookup -/
theorem mem_iff_get? {m : FMap} (h : m.keys.Nodup) (k v : Str) : (k, v) ∈ m ↔ m.get? k = some v := by
  induction m with
  | nil => simp [get?]
  | cons x xs ih =>
    obtain ⟨kx, vx⟩ := x
    simp only [keys, List.map_cons, List.nodup_cons] at h
    simp only [List.mem_cons, get?, Prod.mk.injEq]
    by_cases hk : kx = k
    · subst hk
      simp only [if_true, Option.some.injEq, true_and]
      constructor
      · rintro (e | hm)
        · exact e.symm
        · exact absurd (List.mem_map_of_mem (f := Prod.fst) hm) h.1
      · intro e; exact Or.inl e.symm
    · have hk' : ¬ k = kx := fun e => hk e.symm
      simp only [hk, if_false, hk', false_and, false_or]
      exact ih h.2

/-- `retain` on a map with distinct keys: a key survives iff its (only) entry passes the predicate -/
theorem get?_filter {m : FMap} (h : m.keys.Nodup) (p : Str × Str → Bool) (k : Str) :
    get? (m.filter p) k = (m.get? k).bind (fun v => if p (k, v) then some v else none) := by
  induction m with
  | nil => rfl
  | cons x xs ih =>
    obtain ⟨kx, vx⟩ := x
    simp only [keys, List.map_cons, List.nodup_cons] at h
    by_cases hk : kx = k
    · subst hk
      have hnone : get? xs kx = none := get?_eq_none_of_not_mem h.1
      by_cases hp : p (kx, vx)
      · simp [List.filter, hp, get?]
      · have := ih h.2
        rw [hnone] at this
        simp [List.filter, hp, get?, this]
    · by_cases hp : p (kx, vx)
      · simp [List.filter, hp, get?, hk, ih h.2]
      · simp [List.filter, hp, get?, hk, ih h.2]

theorem keys_filter_sublist (m : FMap) (p : Str × Str → Bool) : List.Sublist (keys (m.filter p)) m.keys := by
  simp only [keys]
  exact List.Sublist.map _ List.filter_sublist

theorem nodup_filter {m : FMap} (h : m.keys.Nodup) (p : Str × Str → Bool) : (keys (m.filter p)).Nodup :=
  List.Nodup.sublist (keys_filter_sublist m p) h

end FMap

/-! ### specification vocabulary -/

/-- value of the latest assignment to `k` in a time-ordered assignment list -/
def lastAssign : List (Str × Str) → Str → Option Str
  | [], _ => none
  | (k', v) :: r, k => (lastAssign r k).or (if k' = k then some v else none)

/-- the assignments a list of span field values makes (`Empty` assigns nothing) -/
def rendered (fields : List (Str × Value)) : List (Str × Str) :=
  fields.filterMap (fun kv => kv.2.render.map (fun s => (kv.1, s)))

/-- histories visible from a span, innermost first -/
abbrev Chain := List (List (Str × Str))

/-- precedence: the innermost level that ever assigned `k` decides, by its latest assignment -/
def visibleSpec : Chain → Str → Option Str
  | [], _ => none
  | lvl :: r, k => (lastAssign lvl k).or (visibleSpec r k)

/-- a later `record()` appends to the span's own history -/
def recordChain (evs : List (Str × Str)) : Chain → Chain
  | [] => [evs]
  | lvl :: r => (lvl ++ evs) :: r

def parentChain (cs : List Chain) : Option Nat → Chain
  | none => []
  | some p => (cs[p]?).getD []

/-- evolution of the histories: a new span starts with its own assignments on top of a *snapshot* of its
    parent's chain; `record` extends only that span's own level; enter/exit change nothing -/
def chainStep (s : State) (cs : List Chain) : Op → List Chain
  | .newSpan t p fields => cs ++ [rendered fields :: parentChain cs (resolveParent s t p)]
  | .record _ id fields => modifyAt cs id (recordChain (rendered fields))
  | .enter _ _ => cs
  | .exit _ _ => cs

/-- model state and histories side by side -/
def runG (s : State) (cs : List Chain) : List Op → State × List Chain
  | [] => (s, cs)
  | op :: ops => runG (step s op) (chainStep s cs op) ops

/-- what the label filter lets through -/
def admitOpt (f : Filter) (name k : Str) : Option Str → Option Str
  | none => none
  | some v => if f.shouldInclude name k v then some v else none

/-- fields visible to an emission on thread `t` (none without a current span) -/
def visibleAt (s : State) (cs : List Chain) (t : Nat) (k : Str) : Option Str :=
  visibleSpec (parentChain cs (current s t)) k

/-! ### lemmas about the vocabulary -/

@[simp] theorem lastAssign_nil (k : Str) : lastAssign [] k = none := rfl

theorem lastAssign_append (a b : List (Str × Str)) (k : Str) :
    lastAssign (a ++ b) k = (lastAssign b k).or (lastAssign a k) := by
  induction a with
  | nil => simp
  | cons x xs ih =>
    obtain ⟨kx, vx⟩ := x
    simp only [List.cons_append, lastAssign, ih]
    cases lastAssign b k <;> simp

theorem lastAssign_eq_get?_of_nodup {l : FMap} (h : l.keys.Nodup) (k : Str) : lastAssign l k = l.get? k := by
  induction l with
  | nil => rfl
  | cons x xs ih =>
    obtain ⟨kx, vx⟩ := x
    simp only [FMap.keys, List.map_cons, List.nodup_cons] at h
    simp only [lastAssign, FMap.get?, ih h.2]
    by_cases hk : kx = k
    · subst hk
      simp [FMap.get?_eq_none_of_not_mem h.1]
    · simp [hk]

theorem get?_foldl_insertPair (evs : List (Str × Str)) (m : FMap) (k : Str) :
    (evs.foldl insertPair m).get? k = (lastAssign evs k).or (m.get? k) := by
  induction evs generalizing m with
  | nil => simp
  | cons e es ih =>
    obtain ⟨ke, ve⟩ := e
    simp only [List.foldl_cons, ih, insertPair, FMap.get?_insert, lastAssign]
    by_cases hk : ke = k
    · subst hk; cases lastAssign es ke <;> simp
    · cases lastAssign es k <;> simp [hk]

theorem nodup_foldl_insertPair (evs : List (Str × Str)) {m : FMap} (h : m.keys.Nodup) :
    (FMap.keys (evs.foldl insertPair m)).Nodup := by
  induction evs generalizing m with
  | nil => exact h
  | cons e es ih => exact ih (FMap.nodup_insert h _ _)

theorem foldl_visit (fields : List (Str × Value)) (m : FMap) :
    fields.foldl visit m = (rendered fields).foldl insertPair m := by
  induction fields generalizing m with
  | nil => rfl
  | cons x xs ih =>
    obtain ⟨kx, vx⟩ := x
    simp only [List.foldl_cons, rendered, List.filterMap_cons, visit]
    cases hv : vx.render with
    | none => simpa [rendered, hv] using ih m
    | some sv => simpa [rendered, hv, insertPair] using ih (m.insert kx sv)

theorem get?_fromRecord (fields : List (Str × Value)) (k : Str) :
    (fromRecord fields).get? k = lastAssign (rendered fields) k := by
  simp [fromRecord, foldl_visit, get?_foldl_insertPair]

theorem nodup_fromRecord (fields : List (Str × Value)) : (FMap.keys (fromRecord fields)).Nodup := by
  rw [fromRecord, foldl_visit]
  exact nodup_foldl_insertPair _ (by simp [FMap.keys])

theorem get?_extendFromLabels (self other : FMap) (k : Str) :
    (extendFromLabels self other).get? k = (self.get? k).or (other.get? k) := by
  unfold extendFromLabels
  induction other generalizing self with
  | nil => simp
  | cons e es ih =>
    obtain ⟨ke, ve⟩ := e
    simp only [List.foldl_cons, ih, insertIfAbsentPair, FMap.get?_insertIfAbsent, FMap.get?]
    by_cases hk : ke = k
    · subst hk; cases FMap.get? self ke <;> simp
    · cases FMap.get? self k <;> simp [hk]

theorem nodup_extendFromLabels {self : FMap} (h : self.keys.Nodup) (other : FMap) :
    (FMap.keys (extendFromLabels self other)).Nodup := by
  unfold extendFromLabels
  induction other generalizing self with
  | nil => exact h
  | cons e es ih => exact ih (FMap.nodup_insertIfAbsent h _ _)

theorem get?_extendFromLabelsOverwrite (self other : FMap) (k : Str) :
    (extendFromLabelsOverwrite self other).get? k = (lastAssign other k).or (self.get? k) :=
  get?_foldl_insertPair other self k

theorem nodup_extendFromLabelsOverwrite {self : FMap} (h : self.keys.Nodup) (other : FMap) :
    (FMap.keys (extendFromLabelsOverwrite self other)).Nodup :=
  nodup_foldl_insertPair other h

/-- `on_record` on one map, as a lookup function: the recorded values replace, everything else stays -/
theorem get?_record (m : FMap) (fields : List (Str × Value)) (k : Str) :
    (extendFromLabelsOverwrite m (fromRecord fields)).get? k = (lastAssign (rendered fields) k).or (m.get? k) := by
  rw [get?_extendFromLabelsOverwrite, lastAssign_eq_get?_of_nodup (nodup_fromRecord fields), get?_fromRecord]

/-- `on_new_span` as a lookup function: own fields first, then whatever the parent's map had -/
theorem get?_newSpanLabels (fields : List (Str × Value)) (parent : Option FMap) (k : Str) :
    (newSpanLabels fields parent).get? k
      = (lastAssign (rendered fields) k).or (match parent with | some pl => pl.get? k | none => none) := by
  cases parent with
  | none => simp [newSpanLabels, get?_fromRecord]
  | some pl => simp [newSpanLabels, get?_extendFromLabels, get?_fromRecord]

theorem nodup_newSpanLabels (fields : List (Str × Value)) (parent : Option FMap) :
    (FMap.keys (newSpanLabels fields parent)).Nodup := by
  cases parent with
  | none => exact nodup_fromRecord fields
  | some pl => exact nodup_extendFromLabels (nodup_fromRecord fields) pl

/-! ### lists with one element modified -/

theorem length_modifyAt {α : Type} (l : List α) (i : Nat) (f : α → α) : (modifyAt l i f).length = l.length := by
  induction l generalizing i with
  | nil => rfl
  | cons x xs ih => cases i <;> simp [modifyAt, ih]

theorem getElem?_modifyAt {α : Type} (l : List α) (i j : Nat) (f : α → α) :
    (modifyAt l i f)[j]? = if j = i then (l[j]?).map f else l[j]? := by
  induction l generalizing i j with
  | nil => simp [modifyAt]
  | cons x xs ih =>
    cases i with
    | zero =>
      cases j with
      | zero => simp [modifyAt]
      | succ j => simp [modifyAt]
    | succ i =>
      cases j with
      | zero => simp [modifyAt]
      | succ j => simp [modifyAt, ih]

theorem mem_modifyAt {α : Type} {l : List α} {i : Nat} {f : α → α} {y : α} (h : y ∈ modifyAt l i f) :
    y ∈ l ∨ ∃ x ∈ l, y = f x := by
  induction l generalizing i with
  | nil => simp [modifyAt] at h
  | cons x xs ih =>
    cases i with
    | zero =>
      simp only [modifyAt, List.mem_cons] at h
      rcases h with h | h
      · exact Or.inr ⟨x, by simp, h⟩
      · exact Or.inl (by simp [h])
    | succ i =>
      simp only [modifyAt, List.mem_cons] at h
      rcases h with h | h
      · exact Or.inl (by simp [h])
      · rcases ih h with h' | ⟨z, hz, e⟩
        · exact Or.inl (by simp [h'])
        · exact Or.inr ⟨z, by simp [hz], e⟩

/-! ### invariants of reachable states -/

/-- every span's map answers lookups exactly as its history says -/
def Agree (spans : List FMap) (cs : List Chain) : Prop :=
  spans.length = cs.length ∧
  ∀ (i : Nat) (m : FMap) (c : Chain), spans[i]? = some m → cs[i]? = some c → ∀ k, m.get? k = visibleSpec c k

/-- every span's map has distinct keys (it is an `IndexMap`) -/
def NodupKeys (s : State) : Prop := ∀ m ∈ s.spans, (FMap.keys m).Nodup

/-- stacks only mention spans that exist -/
def WF (s : State) : Prop := ∀ t c, c ∈ s.stacks t → c.id < s.spans.length

theorem agree_init : Agree ([] : List FMap) [] := ⟨rfl, by intro i m c h; simp at h⟩

theorem visibleSpec_recordChain (evs : List (Str × Str)) (c : Chain) (k : Str) :
    visibleSpec (recordChain evs c) k = (lastAssign evs k).or (visibleSpec c k) := by
  cases c with
  | nil => simp [recordChain, visibleSpec]
  | cons lvl r =>
    simp only [recordChain, visibleSpec, lastAssign_append]
    cases lastAssign evs k <;> simp

theorem parentLabels_agree {s : State} {cs : List Chain} (h : Agree s.spans cs) (p : Option Nat) (k : Str) :
    (match parentLabels s p with | some pl => pl.get? k | none => none) = visibleSpec (parentChain cs p) k := by
  cases p with
  | none => simp [parentLabels, parentChain, visibleSpec]
  | some pid =>
    simp only [parentLabels, parentChain]
    by_cases hlt : pid < s.spans.length
    · have hlt' : pid < cs.length := h.1 ▸ hlt
      have e1 : s.spans[pid]? = some s.spans[pid] := List.getElem?_eq_getElem hlt
      have e2 : cs[pid]? = some cs[pid] := List.getElem?_eq_getElem hlt'
      rw [e1, e2]
      simpa using h.2 pid _ _ e1 e2 k
    · have hge : s.spans.length ≤ pid := Nat.le_of_not_lt hlt
      have hge' : cs.length ≤ pid := h.1 ▸ hge
      rw [List.getElem?_eq_none hge, List.getElem?_eq_none hge']
      simp [visibleSpec]

theorem agree_step {s : State} {cs : List Chain} (h : Agree s.spans cs) (op : Op) :
    Agree (step s op).spans (chainStep s cs op) := by
  cases op with
  | newSpan t p fields =>
    refine ⟨by simp [step, onNewSpan, chainStep, h.1], ?_⟩
    intro i m c hm hc k
    simp only [step, onNewSpan, chainStep] at hm hc
    by_cases hi : i < s.spans.length
    · have hi' : i < cs.length := h.1 ▸ hi
      rw [List.getElem?_append_left hi] at hm
      rw [List.getElem?_append_left hi'] at hc
      exact h.2 i m c hm hc k
    · have hge : s.spans.length ≤ i := Nat.le_of_not_lt hi
      have hge' : cs.length ≤ i := h.1 ▸ hge
      rw [List.getElem?_append_right hge] at hm
      rw [List.getElem?_append_right hge'] at hc
      have hz : i - s.spans.length = 0 ∨ 0 < i - s.spans.length := Nat.eq_zero_or_pos _
      rcases hz with hz | hz
      · have hz' : i - cs.length = 0 := h.1 ▸ hz
        rw [hz] at hm; rw [hz'] at hc
        simp only [List.getElem?_cons_zero, Option.some.injEq] at hm hc
        subst hm; subst hc
        rw [get?_newSpanLabels, visibleSpec, parentLabels_agree h]
      · have : ([newSpanLabels fields (parentLabels s (resolveParent s t p))] : List FMap)[i - s.spans.length]? = none := by
          apply List.getElem?_eq_none; simp; omega
        rw [this] at hm; cases hm
  | record t id fields =>
    refine ⟨by simp [step, onRecord, chainStep, length_modifyAt, h.1], ?_⟩
    intro i m c hm hc k
    simp only [step, onRecord, chainStep, getElem?_modifyAt] at hm hc
    by_cases hi : i = id
    · simp only [hi, if_true, Option.map_eq_some_iff] at hm hc
      obtain ⟨m0, hm0, rfl⟩ := hm
      obtain ⟨c0, hc0, rfl⟩ := hc
      rw [get?_record, visibleSpec_recordChain, h.2 id m0 c0 hm0 hc0 k]
    · simp only [hi, if_false] at hm hc
      exact h.2 i m c hm hc k
  | enter t id =>
    simp only [step, chainStep]
    split <;> exact h
  | exit t id => exact h

theorem agree_runG (ops : List Op) {s : State} {cs : List Chain} (h : Agree s.spans cs) :
    Agree (runG s cs ops).1.spans (runG s cs ops).2 := by
  induction ops generalizing s cs with
  | nil => exact h
  | cons op ops ih => exact ih (agree_step h op)

theorem runG_fst (ops : List Op) (s : State) (cs : List Chain) : (runG s cs ops).1 = run s ops := by
  induction ops generalizing s cs with
  | nil => rfl
  | cons op ops ih => simp [runG, run, ih]

theorem nodupKeys_init : NodupKeys {} := by intro m hm; simp at hm

theorem nodupKeys_step {s : State} (h : NodupKeys s) (op : Op) : NodupKeys (step s op) := by
  cases op with
  | newSpan t p fields =>
    intro m hm
    simp only [step, onNewSpan, List.mem_append, List.mem_singleton] at hm
    rcases hm with hm | hm
    · exact h m hm
    · subst hm; exact nodup_newSpanLabels _ _
  | record t id fields =>
    intro m hm
    simp only [step, onRecord] at hm
    rcases mem_modifyAt hm with hm | ⟨m0, hm0, rfl⟩
    · exact h m hm
    · exact nodup_extendFromLabelsOverwrite (h m0 hm0) _
  | enter t id =>
    simp only [step]
    split
    · exact h
    · exact h
  | exit t id => exact h

theorem nodupKeys_run (ops : List Op) {s : State} (h : NodupKeys s) : NodupKeys (run s ops) := by
  induction ops generalizing s with
  | nil => exact h
  | cons op ops ih => exact ih (nodupKeys_step h op)

/-! ### stacks -/

theorem mem_pop {st : Stack} {id : Nat} {c : Ctx} (h : c ∈ Stack.pop st id) : c ∈ st := by
  induction st with
  | nil => simp [Stack.pop] at h
  | cons x xs ih =>
    simp only [Stack.pop] at h
    split at h
    · exact List.mem_cons_of_mem _ h
    · simp only [List.mem_cons] at h ⊢
      rcases h with h | h
      · exact Or.inl h
      · exact Or.inr (ih h)

theorem current_mem {st : Stack} {id : Nat} (h : st.current = some id) : ∃ c ∈ st, c.id = id := by
  simp only [Stack.current, Option.map_eq_some_iff] at h
  obtain ⟨c, hc, rfl⟩ := h
  exact ⟨c, List.mem_of_find?_eq_some hc, rfl⟩

theorem wf_init : WF {} := by intro t c h; simp at h

theorem wf_step {s : State} (h : WF s) (op : Op) : WF (step s op) := by
  cases op with
  | newSpan t p fields =>
    intro u c hc
    have := h u c hc
    simp only [step, onNewSpan, List.length_append, List.length_singleton]
    omega
  | record t id fields =>
    intro u c hc
    simp only [step, onRecord, length_modifyAt]
    exact h u c hc
  | enter t id =>
    simp only [step]
    split
    · next hlt =>
      intro u c hc
      simp only [setStack] at hc ⊢
      split at hc
      · simp only [Stack.push, List.mem_cons] at hc
        rcases hc with hc | hc
        · subst hc; exact hlt
        · next hu => subst hu; exact h _ c hc
      · exact h u c hc
    · exact h
  | exit t id =>
    intro u c hc
    simp only [step, setStack] at hc ⊢
    split at hc
    · next hu => subst hu; exact h _ c (mem_pop hc)
    · exact h u c hc

theorem wf_run (ops : List Op) {s : State} (h : WF s) : WF (run s ops) := by
  induction ops generalizing s with
  | nil => exact h
  | cons op ops ih => exact ih (wf_step h op)

theorem current_lt {s : State} (h : WF s) {t id : Nat} (hc : current s t = some id) : id < s.spans.length := by
  obtain ⟨c, hm, rfl⟩ := current_mem hc
  exact h t c hm

/-! ### `enhance_key` -/

theorem get?_enhanceLabels (f : Filter) (name : Str) {m : FMap} (hm : m.keys.Nodup)
    (labels : List (Str × Str)) (k : Str) :
    FMap.get? (enhanceLabels f name m labels) k = (lastAssign labels k).or (admitOpt f name k (m.get? k)) := by
  rw [enhanceLabels, get?_foldl_insertPair, FMap.get?_filter hm]
  cases h : FMap.get? m k with
  | none => simp [admitOpt]
  | some v =>
    simp only [admitOpt, admits, Option.bind_some]
    congr 1

theorem nodup_enhanceLabels (f : Filter) (name : Str) {m : FMap} (hm : m.keys.Nodup) (labels : List (Str × Str)) :
    (FMap.keys (enhanceLabels f name m labels)).Nodup :=
  nodup_foldl_insertPair labels (FMap.nodup_filter hm _)

/-! ### other threads -/

/-- the thread that performs an op -/
def opThread : Op → Nat
  | .newSpan t _ _ => t
  | .record t _ _ => t
  | .enter t _ => t
  | .exit t _ => t

/-- the op is a `record()` on span `cur` -/
def recordsOn (cur : Option Nat) : Op → Prop
  | .record _ id _ => cur = some id
  | _ => False

theorem get?_isSome_of_mem_keys {m : FMap} {k : Str} (h : k ∈ FMap.keys m) : ∃ v, FMap.get? m k = some v := by
  cases hg : FMap.get? m k with
  | some v => exact ⟨v, rfl⟩
  | none =>
    exfalso
    induction m with
    | nil => simp [FMap.keys] at h
    | cons x xs ih =>
      obtain ⟨kx, vx⟩ := x
      simp only [FMap.get?] at hg
      split at hg
      · cases hg
      · next hne =>
        simp only [FMap.keys, List.map_cons, List.mem_cons] at h
        rcases h with h | h
        · exact hne h.symm
        · exact ih h hg

theorem step_other_thread {s : State} (hwf : WF s) (t : Nat) (op : Op)
    (hop : opThread op ≠ t) (hrec : ¬ recordsOn (current s t) op) :
    (step s op).stacks t = s.stacks t
    ∧ parentLabels (step s op) (current s t) = parentLabels s (current s t) := by
  cases op with
  | newSpan u p fields =>
    refine ⟨rfl, ?_⟩
    cases hc : current s t with
    | none => rfl
    | some id =>
      have hlt := current_lt hwf hc
      simp [parentLabels, step, onNewSpan, List.getElem?_append_left hlt]
  | record u id' fields =>
    refine ⟨rfl, ?_⟩
    cases hc : current s t with
    | none => rfl
    | some id =>
      have hne : id ≠ id' := by
        intro e; subst e
        exact hrec (by simp [recordsOn, hc])
      simp [parentLabels, step, onRecord, getElem?_modifyAt, hne]
  | enter u id' =>
    have hne : ¬ t = u := fun e => hop e.symm
    simp only [step]
    split
    · simp [setStack, hne, parentLabels]
    · exact ⟨rfl, rfl⟩
  | exit u id' =>
    have hne : ¬ t = u := fun e => hop e.symm
    simp [step, setStack, hne, parentLabels]


/-! ### the exact order of the resulting labels -/

/-- the value the metric's own labels give to a span field, if any -/
def overrideBy (labels : List (Str × Str)) (kv : Str × Str) : Str × Str :=
  (kv.1, (FMap.get? labels kv.1).getD kv.2)

def notIn (base : FMap) (kv : Str × Str) : Bool := !(FMap.keys base).contains kv.1

theorem insert_of_not_mem {base : FMap} {k : Str} (v : Str) (h : k ∉ FMap.keys base) :
    FMap.insert base k v = base ++ [(k, v)] := by
  induction base with
  | nil => rfl
  | cons x xs ih =>
    obtain ⟨kx, vx⟩ := x
    simp only [FMap.keys, List.map_cons, List.mem_cons, not_or] at h
    have : ¬ kx = k := fun e => h.1 e.symm
    simp only [FMap.insert, this, if_false, List.cons_append]
    rw [ih h.2]

theorem map_replace_of_not_mem {base : FMap} {k : Str} (v : Str) (h : k ∉ FMap.keys base) :
    base.map (fun kv => if kv.1 = k then (kv.1, v) else kv) = base := by
  induction base with
  | nil => rfl
  | cons x xs ih =>
    obtain ⟨kx, vx⟩ := x
    simp only [FMap.keys, List.map_cons, List.mem_cons, not_or] at h
    have : ¬ kx = k := fun e => h.1 e.symm
    simp only [List.map_cons, this, if_false]
    rw [ih h.2]

theorem insert_of_mem {base : FMap} (hnd : (FMap.keys base).Nodup) {k : Str} (v : Str) (h : k ∈ FMap.keys base) :
    FMap.insert base k v = base.map (fun kv => if kv.1 = k then (kv.1, v) else kv) := by
  induction base with
  | nil => simp [FMap.keys] at h
  | cons x xs ih =>
    obtain ⟨kx, vx⟩ := x
    simp only [FMap.keys, List.map_cons, List.nodup_cons] at hnd
    by_cases hk : kx = k
    · subst hk
      simp only [FMap.insert, if_true, List.map_cons]
      rw [map_replace_of_not_mem v hnd.1]
    · simp only [FMap.keys, List.map_cons, List.mem_cons] at h
      have h' : k ∈ FMap.keys xs := by
        rcases h with h | h
        · exact absurd h.symm hk
        · exact h
      simp only [FMap.insert, hk, if_false, List.map_cons]
      rw [ih hnd.2 h']

theorem foldl_insertPair_eq (labels : List (Str × Str)) (hl : (FMap.keys labels).Nodup)
    (base : FMap) (hb : (FMap.keys base).Nodup) :
    labels.foldl insertPair base = base.map (overrideBy labels) ++ labels.filter (notIn base) := by
  induction labels generalizing base with
  | nil =>
    have : overrideBy [] = id := by
      funext kv
      simp [overrideBy, FMap.get?]
    simp [this]
  | cons x r ih =>
    obtain ⟨k, v⟩ := x
    simp only [FMap.keys, List.map_cons, List.nodup_cons] at hl
    have hkr : FMap.get? r k = none := FMap.get?_eq_none_of_not_mem hl.1
    simp only [List.foldl_cons, insertPair]
    rw [ih hl.2 _ (FMap.nodup_insert hb k v)]
    by_cases hk : k ∈ FMap.keys base
    · rw [insert_of_mem hb v hk]
      have hkeys : FMap.keys (base.map (fun kv => if kv.1 = k then (kv.1, v) else kv)) = FMap.keys base := by
        simp only [FMap.keys, List.map_map]
        apply List.map_congr_left
        intro a _
        simp only [Function.comp]
        split <;> rfl
      have hfilt : List.filter (notIn (base.map (fun kv => if kv.1 = k then (kv.1, v) else kv))) r
          = List.filter (notIn base) ((k, v) :: r) := by
        have : notIn base (k, v) = false := by simp [notIn, hk]
        simp only [List.filter_cons, this]
        apply List.filter_congr
        intro a _
        simp only [notIn, hkeys]
      rw [hfilt, List.map_map]
      congr 1
      apply List.map_congr_left
      intro a _
      simp only [Function.comp, overrideBy]
      by_cases ha : a.1 = k
      · simp [ha, hkr, FMap.get?]
      · have : ¬ k = a.1 := fun e => ha e.symm
        simp [ha, FMap.get?, this]
    · rw [insert_of_not_mem v hk]
      have hnot : notIn base (k, v) = true := by simp [notIn, hk]
      simp only [List.map_append, List.map_cons, List.map_nil, List.filter_cons, hnot, if_true,
        List.append_assoc, List.singleton_append]
      have h1 : base.map (overrideBy r) = base.map (overrideBy ((k, v) :: r)) := by
        apply List.map_congr_left
        intro a ha
        have hne : ¬ k = a.1 := by
          intro e; apply hk; rw [e]; exact List.mem_map_of_mem (f := Prod.fst) ha
        simp [overrideBy, FMap.get?, hne]
      have h2 : overrideBy r (k, v) = (k, v) := by simp [overrideBy, hkr]
      have h3 : List.filter (notIn (base ++ [(k, v)])) r = List.filter (notIn base) r := by
        apply List.filter_congr
        intro a ha
        have hne : ¬ a.1 = k := by
          intro e; apply hl.1; rw [← e]; exact List.mem_map_of_mem (f := Prod.fst) ha
        simp [notIn, FMap.keys, hne]
      rw [h1, h2, h3]

theorem enhanceLabels_eq (f : Filter) (name : Str) {m : FMap} (hm : m.keys.Nodup)
    (labels : List (Str × Str)) (hl : (FMap.keys labels).Nodup) :
    enhanceLabels f name m labels
      = (m.filter (admits f name)).map (overrideBy labels) ++ labels.filter (notIn (m.filter (admits f name))) :=
  foldl_insertPair_eq labels hl _ (FMap.nodup_filter hm _)

/-! ### the object pool and closing spans -/

/-- every free map of the pool is empty -/
def PoolClean (p : PState) : Prop := ∀ m ∈ p.pool, m = []

/-- what a pooled step does to the subscriber state if `Labels::default()` were always a fresh empty map -/
def baseStep (s : State) : POp → State
  | .base op => step s op
  | .close _ => s

theorem baseStep_foldl (ops : List POp) (s : State) : ops.foldl baseStep s = run s (baseOps ops) := by
  induction ops generalizing s with
  | nil => rfl
  | cons op ops ih =>
    cases op with
    | base o => simp [baseOps, baseStep, run, ih]
    | close id => simp [baseOps, baseStep, ih]

theorem pull_fst_of_clean {pool : List FMap} (h : ∀ m ∈ pool, m = []) : (pull pool).1 = [] := by
  cases pool with
  | nil => rfl
  | cons m r => simpa [pull] using h m (by simp)

theorem pull_snd_of_clean {pool : List FMap} (h : ∀ m ∈ pool, m = []) : ∀ m ∈ (pull pool).2, m = [] := by
  cases pool with
  | nil => intro m hm; simp [pull] at hm
  | cons m r => intro x hx; exact h x (by simp [pull] at hx; simp [hx])

theorem release_clean {pool : List FMap} (h : ∀ m ∈ pool, m = []) (x : FMap) : ∀ m ∈ release pool x, m = [] := by
  intro m hm
  simp only [release, List.mem_cons] at hm
  rcases hm with hm | hm
  · simpa [poolReset] using hm
  · exact h m hm

theorem newSpanLabelsIn_nil (fields : List (Str × Value)) (parent : Option FMap) :
    newSpanLabelsIn [] fields parent = newSpanLabels fields parent := by
  cases parent <;> rfl

/-- one pooled step from a clean pool: the pool stays clean and the subscriber state moves exactly as in the
    pool-free reading -/
theorem pstep_of_clean {p : PState} (h : PoolClean p) (op : POp) :
    PoolClean (pstep p op) ∧ (pstep p op).base = baseStep p.base op := by
  cases op with
  | base o =>
    cases o with
    | newSpan t par fields =>
      refine ⟨pull_snd_of_clean h, ?_⟩
      simp only [pstep, pOnNewSpan, baseStep, step, onNewSpan, pull_fst_of_clean h, newSpanLabelsIn_nil]
    | record t id fields =>
      refine ⟨release_clean (pull_snd_of_clean h) _, ?_⟩
      simp only [pstep, pOnRecord, baseStep, step, onRecord, pull_fst_of_clean h]
      rfl
    | enter t id => exact ⟨h, rfl⟩
    | exit t id => exact ⟨h, rfl⟩
  | close id =>
    refine ⟨?_, ?_⟩
    · simp only [pstep, pClose]
      split
      · split
        · exact h
        · exact release_clean h _
      · exact h
    · simp only [pstep, pClose, baseStep]
      split
      · split <;> rfl
      · rfl

theorem prun_of_clean (ops : List POp) {p : PState} (h : PoolClean p) :
    PoolClean (prun p ops) ∧ (prun p ops).base = ops.foldl baseStep p.base := by
  induction ops generalizing p with
  | nil => exact ⟨h, rfl⟩
  | cons op ops ih =>
    have h1 := pstep_of_clean h op
    have h2 := ih h1.1
    refine ⟨h2.1, ?_⟩
    simp only [prun, List.foldl_cons] at h2 ⊢
    rw [h2.2, h1.2]

/-- dropping a whole subscriber (every open span's `Labels` goes back) leaves the pool clean -/
theorem poolAfterDrop_clean {p : PState} (h : PoolClean p) : ∀ m ∈ poolAfterDrop p, m = [] := by
  unfold poolAfterDrop
  revert h
  unfold PoolClean
  generalize p.pool = pool
  generalize List.range p.base.spans.length = l
  intro h
  induction l generalizing pool with
  | nil => exact h
  | cons i l ih =>
    simp only [List.foldl_cons]
    apply ih
    split
    · exact h
    · split
      · exact release_clean h _
      · exact h

end MetricsVerif.Tracing
