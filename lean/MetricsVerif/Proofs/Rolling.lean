/-
Helper lemmas for C15, part (c): `Model/Rolling.lean`.

The window theorems run the model on samples that carry their own timestamp (`α × Nat`, added at time `.2`);
`keep` looks at the value only.  `Inv` is the invariant of `RollingSummary` under non-decreasing timestamps.
-/
import MetricsVerif.Model.Rolling

namespace MetricsVerif.Rolling
open MetricsVerif.Histogram

variable {α : Type}

/-! ### the alignment loop -/

theorem alignLoop_spec (d now : Nat) (hd : 1 ≤ d) : ∀ (fuel begin : Nat), begin ≤ now → now - begin < fuel →
    alignLoop d now fuel begin ≤ now ∧ now < alignLoop d now fuel begin + d ∧ begin ≤ alignLoop d now fuel begin
    ∧ ∃ k, alignLoop d now fuel begin = begin + k * d
  | 0, _, _, h => by omega
  | fuel + 1, begin, hb, hf => by
    unfold alignLoop
    by_cases h : now < begin ∨ now ≥ begin + d
    · simp only [h, if_true]
      have h' : begin + d ≤ now := by omega
      obtain ⟨h1, h2, h3, k, h4⟩ := alignLoop_spec d now hd fuel (begin + d) h' (by omega)
      refine ⟨h1, h2, by omega, k + 1, ?_⟩
      rw [h4, Nat.succ_mul]; omega
    · simp only [h, if_false]
      exact ⟨hb, by omega, Nat.le_refl _, 0, by simp⟩

/-- the loop computes the closed form `reftime + dur * ((now - reftime) / dur)` wherever the code reaches it
    (`now >= reftime + dur`), and `now + 1` iterations of fuel are enough -/
theorem alignLoop_closed (d now ref : Nat) (hd : 1 ≤ d) (h : ref + d ≤ now) :
    alignLoop d now (now + 1) (ref + d) = ref + d * ((now - ref) / d) := by
  obtain ⟨h1, h2, _, k, h4⟩ := alignLoop_spec d now hd (now + 1) (ref + d) h (by omega)
  have hk : (now - ref) / d = k + 1 := by
    apply Nat.div_eq_of_lt_le
    · rw [Nat.succ_mul]; omega
    · rw [Nat.succ_mul, Nat.succ_mul]; omega
  rw [hk, h4, Nat.mul_comm d, Nat.succ_mul]; omega

/-! ### small facts -/

theorem mem_summaryAdd (keep : α → Bool) (s : List α) (v a : α) :
    a ∈ summaryAdd keep s v ↔ a ∈ s ∨ (a = v ∧ keep v = true) := by
  unfold summaryAdd; split <;> simp_all

theorem mem_liveAt (W now : Nat) (bs : List (RBucket α)) (b : RBucket α) :
    b ∈ liveAt W now bs ↔ b ∈ bs ∧ now < b.begin + W := by
  unfold liveAt; split
  · simp only [List.mem_filter, decide_eq_true_eq]
    constructor <;> (rintro ⟨h1, h2⟩; exact ⟨h1, by omega⟩)
  · constructor
    · intro h; exact ⟨h, by omega⟩
    · exact fun h => h.1

theorem liveAt_sublist (W now : Nat) (bs : List (RBucket α)) : (liveAt W now bs).Sublist bs := by
  unfold liveAt; split
  · exact List.filter_sublist
  · exact List.Sublist.refl _

/-- latest first, begins at least one duration apart -/
def Spaced (d : Nat) (bs : List (RBucket α)) : Prop := bs.Pairwise (fun a b => b.begin + d ≤ a.begin)

/-! ### the search loop -/

theorem addInBucket_begins (keep : α → Bool) (d now : Nat) (v : α) : ∀ (bs bs' : List (RBucket α)),
    addInBucket keep d now v bs = some bs' → bs'.map (·.begin) = bs.map (·.begin)
  | [], _, h => by simp [addInBucket] at h
  | b :: bs, bs', h => by
    unfold addInBucket at h
    split at h
    · cases h
    · split at h
      · cases h; rfl
      · cases hr : addInBucket keep d now v bs with
        | none => rw [hr] at h; cases h
        | some r =>
          rw [hr] at h; cases h
          simp [addInBucket_begins keep d now v bs r hr]

/-- every bucket after a successful search is an old bucket, unchanged or with `v` added to it because `now` falls
    into it -/
theorem addInBucket_mem (keep : α → Bool) (d now : Nat) (v : α) : ∀ (bs bs' : List (RBucket α)),
    addInBucket keep d now v bs = some bs' → ∀ b' ∈ bs', ∃ b ∈ bs, b'.begin = b.begin ∧
      (b'.samples = b.samples ∨ (b'.samples = summaryAdd keep b.samples v ∧ b.begin ≤ now ∧ now < b.begin + d))
  | [], _, h => by simp [addInBucket] at h
  | b :: bs, bs', h => by
    unfold addInBucket at h
    split at h
    · cases h
    · split at h
      · rename_i hin
        cases h
        intro b' hb'
        rcases List.mem_cons.mp hb' with rfl | hb'
        · exact ⟨b, by simp, rfl, Or.inr ⟨rfl, hin.1, hin.2⟩⟩
        · exact ⟨b', by simp [hb'], rfl, Or.inl rfl⟩
      · cases hr : addInBucket keep d now v bs with
        | none => rw [hr] at h; cases h
        | some r =>
          rw [hr] at h; cases h
          intro b' hb'
          rcases List.mem_cons.mp hb' with rfl | hb'
          · exact ⟨b', by simp, rfl, Or.inl rfl⟩
          · obtain ⟨b0, h0, h1⟩ := addInBucket_mem keep d now v bs r hr b' hb'
            exact ⟨b0, by simp [h0], h1⟩

/-- nothing is lost by a successful search, and the new value (if kept) is in -/
theorem addInBucket_keeps (keep : α → Bool) (d now : Nat) (v : α) : ∀ (bs bs' : List (RBucket α)),
    addInBucket keep d now v bs = some bs' →
      (∀ b ∈ bs, ∀ a ∈ b.samples, ∃ b' ∈ bs', a ∈ b'.samples) ∧ (keep v = true → ∃ b' ∈ bs', v ∈ b'.samples)
  | [], _, h => by simp [addInBucket] at h
  | b :: bs, bs', h => by
    unfold addInBucket at h
    split at h
    · cases h
    · split at h
      · cases h
        constructor
        · intro b1 hb1 a ha
          rcases List.mem_cons.mp hb1 with rfl | hb1
          · exact ⟨_, List.mem_cons_self, by simp [mem_summaryAdd, ha]⟩
          · exact ⟨b1, by simp [hb1], ha⟩
        · intro hk
          exact ⟨_, List.mem_cons_self, by simp [mem_summaryAdd, hk]⟩
      · cases hr : addInBucket keep d now v bs with
        | none => rw [hr] at h; cases h
        | some r =>
          rw [hr] at h; cases h
          obtain ⟨k1, k2⟩ := addInBucket_keeps keep d now v bs r hr
          constructor
          · intro b1 hb1 a ha
            rcases List.mem_cons.mp hb1 with rfl | hb1
            · exact ⟨b1, by simp, ha⟩
            · obtain ⟨b', hb', h'⟩ := k1 b1 hb1 a ha
              exact ⟨b', by simp [hb'], h'⟩
          · intro hk
            obtain ⟨b', hb', h'⟩ := k2 hk
            exact ⟨b', by simp [hb'], h'⟩

/-- on a latest-first list the `break` loses nothing: if the search fails, `now` falls into no bucket at all -/
theorem addInBucket_none (keep : α → Bool) (d now : Nat) (v : α) : ∀ (bs : List (RBucket α)), Spaced d bs →
    addInBucket keep d now v bs = none → ∀ b ∈ bs, ¬ (b.begin ≤ now ∧ now < b.begin + d)
  | [], _, _ => by simp
  | b :: bs, hs, h => by
    have hb : ∀ b' ∈ bs, b'.begin + d ≤ b.begin := (List.pairwise_cons.mp hs).1
    have hs' : Spaced d bs := (List.pairwise_cons.mp hs).2
    unfold addInBucket at h
    split at h
    · rename_i hgt
      intro b1 hb1
      rcases List.mem_cons.mp hb1 with rfl | hb1
      · omega
      · have := hb b1 hb1; omega
    · split at h
      · cases h
      · rename_i h1 h2
        cases hr : addInBucket keep d now v bs with
        | some r => rw [hr] at h; cases h
        | none =>
          intro b1 hb1
          rcases List.mem_cons.mp hb1 with rfl | hb1
          · exact h2
          · exact addInBucket_none keep d now v bs hs' hr b1 hb1

/-! ### `add` on the bucket list -/

/-- the bucket list after `add` (the other fields of `Rolling` only pass through) -/
def addBuckets (keep : α → Bool) (n d W : Nat) (bs : List (RBucket α)) (v : α) (now : Nat) : List (RBucket α) :=
  match addInBucket keep d now v bs with
  | some bs' => bs'
  | none =>
    match liveAt W now bs with
    | [] => [⟨now, summaryAdd keep [] v⟩]
    | b0 :: rest =>
      if now > b0.begin then
        ⟨alignLoop d now (now + 1) (b0.begin + d), summaryAdd keep [] v⟩ :: (b0 :: rest).take (n - 1)
      else b0 :: rest

theorem add_buckets (keep : α → Bool) (r : Rolling α) (v : α) (now : Nat) :
    (r.add keep v now).buckets = addBuckets keep r.maxBuckets r.bucketDuration r.maxBucketDuration r.buckets v now := by
  unfold Rolling.add addBuckets
  simp only
  cases addInBucket keep r.bucketDuration now v r.buckets with
  | some bs => rfl
  | none =>
    simp only
    cases liveAt r.maxBucketDuration now r.buckets with
    | nil => rfl
    | cons b0 rest => simp only; split <;> rfl

theorem add_params (keep : α → Bool) (r : Rolling α) (v : α) (now : Nat) :
    (r.add keep v now).maxBuckets = r.maxBuckets ∧ (r.add keep v now).bucketDuration = r.bucketDuration
    ∧ (r.add keep v now).maxBucketDuration = r.maxBucketDuration ∧ (r.add keep v now).count = r.count + 1 := by
  unfold Rolling.add
  simp only
  split
  · simp
  · split
    · simp
    · split <;> simp

/-! ### buckets within one window -/

/-- begins spaced by at least `d`, all at most `hi`, all within `W` of `now`: not many of them -/
theorem spaced_count (d W now : Nat) : ∀ (l : List (RBucket α)) (hi : Nat), Spaced d l → (∀ b ∈ l, b.begin ≤ hi) →
    (∀ b ∈ l, now < b.begin + W) → l ≠ [] → now + l.length * d < hi + d + W
  | [], _, _, _, _, h => by simp at h
  | [b], hi, _, h1, h2, _ => by
    have := h1 b (by simp); have := h2 b (by simp)
    simp; omega
  | b :: c :: t, hi, hs, h1, h2, _ => by
    have hb : ∀ b' ∈ c :: t, b'.begin + d ≤ b.begin := (List.pairwise_cons.mp hs).1
    have hs' : Spaced d (c :: t) := (List.pairwise_cons.mp hs).2
    have hc := hb c (by simp)
    have ih := spaced_count d W now (c :: t) (b.begin - d) hs'
      (fun b' hb' => by have := hb b' hb'; omega) (fun b' hb' => h2 b' (by simp [hb'])) (by simp)
    have := h1 b (by simp)
    simp only [List.length_cons, Nat.succ_mul] at ih ⊢
    omega

/-! ### the invariant -/

/-- invariant of the bucket list of a `RollingSummary` with `n` buckets of duration `d`, after the time-stamped
    samples `adds` (the last one at time `T`) -/
structure Inv (keep : α → Bool) (d n : Nat) (bs : List (RBucket (α × Nat))) (adds : List (α × Nat)) (T : Nat) : Prop where
  /-- latest first, begins at least one duration apart (so: distinct, no two buckets overlap) -/
  spaced : Spaced d bs
  le_T : ∀ b ∈ bs, b.begin ≤ T
  /-- each retained sample was added, was kept by `Summary::add`, and sits in the bucket covering its timestamp -/
  sound : ∀ b ∈ bs, ∀ a ∈ b.samples, b.begin ≤ a.2 ∧ a.2 < b.begin + d ∧ a ∈ adds ∧ keep a.1 = true
  /-- a kept sample is only ever lost together with a bucket that has left the window -/
  complete : ∀ a ∈ adds, keep a.1 = true → (∃ b ∈ bs, a ∈ b.samples) ∨ a.2 + d * n < T + d

theorem Inv.init (keep : α → Bool) (d n : Nat) : Inv keep d n [] [] 0 :=
  ⟨List.Pairwise.nil, by simp, by simp, by simp⟩

theorem Inv.step (keep : α → Bool) (d n : Nat) (hd : 1 ≤ d) (hn : 1 ≤ n) (bs : List (RBucket (α × Nat)))
    (adds : List (α × Nat)) (T : Nat) (inv : Inv keep d n bs adds T) (v : α) (now : Nat) (hT : T ≤ now) :
    Inv keep d n (addBuckets (fun p => keep p.1) n d (d * n) bs (v, now) now) (adds ++ [(v, now)]) now := by
  unfold addBuckets
  cases hsearch : addInBucket (fun p : α × Nat => keep p.1) d now (v, now) bs with
  | some bs' =>
    simp only
    have hbeg := addInBucket_begins _ d now (v, now) bs bs' hsearch
    have hmem := addInBucket_mem _ d now (v, now) bs bs' hsearch
    have hkeep := addInBucket_keeps _ d now (v, now) bs bs' hsearch
    refine ⟨?_, ?_, ?_, ?_⟩
    · have h1 : (bs.map (·.begin)).Pairwise (fun x y => y + d ≤ x) := List.pairwise_map.mpr inv.spaced
      rw [← hbeg] at h1
      exact List.pairwise_map.mp h1
    · intro b' hb'
      obtain ⟨b, hb, e, _⟩ := hmem b' hb'
      have := inv.le_T b hb; omega
    · intro b' hb' a ha
      obtain ⟨b, hb, e, h⟩ := hmem b' hb'
      rcases h with h | ⟨h, h1, h2⟩
      · rw [h] at ha
        obtain ⟨s1, s2, s3, s4⟩ := inv.sound b hb a ha
        exact ⟨by omega, by omega, by simp [s3], s4⟩
      · rw [h, mem_summaryAdd] at ha
        rcases ha with ha | ⟨rfl, hk⟩
        · obtain ⟨s1, s2, s3, s4⟩ := inv.sound b hb a ha
          exact ⟨by omega, by omega, by simp [s3], s4⟩
        · exact ⟨by simp; omega, by simp; omega, by simp, hk⟩
    · intro a ha hk
      rcases List.mem_append.mp ha with ha | ha
      · rcases inv.complete a ha hk with ⟨b, hb, hab⟩ | h
        · left; exact hkeep.1 b hb a hab
        · right; omega
      · simp only [List.mem_singleton] at ha
        subst ha
        left; exact hkeep.2 hk
  | none =>
    simp only
    have hnone := addInBucket_none _ d now (v, now) bs inv.spaced hsearch
    have hlive_sp : Spaced d (liveAt (d * n) now bs) := List.Pairwise.sublist (liveAt_sublist _ _ _) inv.spaced
    -- a sample whose bucket is no longer live is older than the window allows
    have hexp : ∀ a ∈ adds, keep a.1 = true →
        (∃ b ∈ liveAt (d * n) now bs, a ∈ b.samples) ∨ a.2 + d * n < now + d := by
      intro a ha hk
      rcases inv.complete a ha hk with ⟨b, hb, hab⟩ | h
      · by_cases hl : now < b.begin + d * n
        · left; exact ⟨b, (mem_liveAt _ _ _ _).mpr ⟨hb, hl⟩, hab⟩
        · right
          have := (inv.sound b hb a hab).2.1
          omega
      · right; omega
    cases hlive : liveAt (d * n) now bs with
    | nil =>
      simp only
      refine ⟨by simp [Spaced], by simp, ?_, ?_⟩
      · intro b hb a ha
        simp only [List.mem_singleton] at hb
        subst hb
        simp only [mem_summaryAdd, List.not_mem_nil, false_or] at ha
        obtain ⟨rfl, hk⟩ := ha
        exact ⟨by simp, by simp; omega, by simp, hk⟩
      · intro a ha hk
        rcases List.mem_append.mp ha with ha | ha
        · rcases hexp a ha hk with ⟨b, hb, _⟩ | h
          · rw [hlive] at hb; simp at hb
          · right; exact h
        · simp only [List.mem_singleton] at ha
          subst ha
          left; exact ⟨_, List.mem_singleton.mpr rfl, by simp [mem_summaryAdd, hk]⟩
    | cons b0 rest =>
      simp only
      have hb0live : b0 ∈ liveAt (d * n) now bs := by rw [hlive]; simp
      have hb0 : b0 ∈ bs := ((mem_liveAt _ _ _ _).mp hb0live).1
      have hb0T := inv.le_T b0 hb0
      have hb0none := hnone b0 hb0
      by_cases hgt : now > b0.begin
      · simp only [hgt, if_true]
        have hge : b0.begin + d ≤ now := by omega
        obtain ⟨a1, a2, a3, _⟩ := alignLoop_spec d now hd (now + 1) (b0.begin + d) hge (by omega)
        rw [hlive] at hlive_sp
        have hrest : ∀ b ∈ rest, b.begin + d ≤ b0.begin := (List.pairwise_cons.mp hlive_sp).1
        -- `truncate(max_buckets - 1)` removes nothing: the live buckets are already at most n - 1
        have hlen : (b0 :: rest).length ≤ n - 1 := by
          have hc := spaced_count d (d * n) now (b0 :: rest) b0.begin hlive_sp
            (by
              intro b hb
              rcases List.mem_cons.mp hb with rfl | hb
              · exact Nat.le_refl _
              · have := hrest b hb; omega)
            (by
              intro b hb
              have : b ∈ liveAt (d * n) now bs := by rw [hlive]; exact hb
              exact ((mem_liveAt _ _ _ _).mp this).2)
            (by simp)
          have h2 : (b0 :: rest).length * d < n * d := by rw [Nat.mul_comm n d]; omega
          have := Nat.lt_of_mul_lt_mul_right h2
          omega
        rw [List.take_of_length_le hlen]
        have hsub : ∀ b ∈ b0 :: rest, b ∈ bs := by
          intro b hb
          have : b ∈ liveAt (d * n) now bs := by rw [hlive]; exact hb
          exact ((mem_liveAt _ _ _ _).mp this).1
        refine ⟨?_, ?_, ?_, ?_⟩
        · refine List.pairwise_cons.mpr ⟨?_, hlive_sp⟩
          intro b hb
          simp only
          rcases List.mem_cons.mp hb with rfl | hb
          · omega
          · have := hrest b hb; omega
        · intro b hb
          rcases List.mem_cons.mp hb with rfl | hb
          · exact a1
          · have := inv.le_T b (hsub b hb); omega
        · intro b hb a ha
          rcases List.mem_cons.mp hb with rfl | hb
          · simp only [mem_summaryAdd, List.not_mem_nil, false_or] at ha
            obtain ⟨rfl, hk⟩ := ha
            exact ⟨a1, a2, by simp, hk⟩
          · obtain ⟨s1, s2, s3, s4⟩ := inv.sound b (hsub b hb) a ha
            exact ⟨s1, s2, by simp [s3], s4⟩
        · intro a ha hk
          rcases List.mem_append.mp ha with ha | ha
          · rcases hexp a ha hk with ⟨b, hb, hab⟩ | h
            · left
              rw [hlive] at hb
              exact ⟨b, List.mem_cons_of_mem _ hb, hab⟩
            · right; exact h
          · simp only [List.mem_singleton] at ha
            subst ha
            left; exact ⟨_, List.mem_cons_self, by simp [mem_summaryAdd, hk]⟩
      · -- `now <= reftime`: cannot happen when timestamps do not go backwards
        exfalso
        apply hb0none
        omega

/-! ### runs -/

/-- timestamps never go backwards, starting from `T` -/
def NonDecr : Nat → List (α × Nat) → Prop
  | _, [] => True
  | T, a :: rest => T ≤ a.2 ∧ NonDecr a.2 rest

theorem nonDecr_of_pairwise : ∀ (l : List (α × Nat)) (T : Nat), l.Pairwise (fun a b => a.2 ≤ b.2) → (∀ a ∈ l, T ≤ a.2) →
    NonDecr T l
  | [], _, _, _ => trivial
  | a :: rest, T, hp, hT =>
    ⟨hT a (by simp), nonDecr_of_pairwise rest a.2 (List.pairwise_cons.mp hp).2 (List.pairwise_cons.mp hp).1⟩

/-- the bucket list after a sequence of time-stamped adds -/
def runBuckets (keep : α → Bool) (n d : Nat) (bs : List (RBucket (α × Nat))) (adds : List (α × Nat)) :
    List (RBucket (α × Nat)) :=
  adds.foldl (fun bs a => addBuckets (fun p => keep p.1) n d (d * n) bs a a.2) bs

theorem Inv.run (keep : α → Bool) (d n : Nat) (hd : 1 ≤ d) (hn : 1 ≤ n) : ∀ (adds2 : List (α × Nat))
    (bs : List (RBucket (α × Nat))) (adds1 : List (α × Nat)) (T : Nat), Inv keep d n bs adds1 T → NonDecr T adds2 →
    ∃ T', Inv keep d n (runBuckets keep n d bs adds2) (adds1 ++ adds2) T'
      ∧ ∀ now, T ≤ now → (∀ a ∈ adds2, a.2 ≤ now) → T' ≤ now
  | [], bs, adds1, T, inv, _ => ⟨T, by simpa [runBuckets] using inv, fun _ h _ => h⟩
  | a :: rest, bs, adds1, T, inv, hnd => by
    obtain ⟨v, t⟩ := a
    have st := Inv.step keep d n hd hn bs adds1 T inv v t hnd.1
    obtain ⟨T', i', h'⟩ := Inv.run keep d n hd hn rest _ (adds1 ++ [(v, t)]) t st hnd.2
    refine ⟨T', ?_, ?_⟩
    · simpa [runBuckets, List.append_assoc] using i'
    · intro now _ hall
      exact h' now (hall (v, t) (by simp)) (fun a ha => hall a (by simp [ha]))

/-- the model itself, started fresh, on time-stamped samples -/
def runT (keep : α → Bool) (n d : Nat) (adds : List (α × Nat)) : Rolling (α × Nat) :=
  adds.foldl (fun r a => r.add (fun p => keep p.1) a a.2) (Rolling.new n d)

theorem runT_fields (keep : α → Bool) (n d : Nat) (adds : List (α × Nat)) :
    (runT keep n d adds).buckets = runBuckets keep n d [] adds
    ∧ (runT keep n d adds).maxBuckets = n ∧ (runT keep n d adds).bucketDuration = d
    ∧ (runT keep n d adds).maxBucketDuration = d * n ∧ (runT keep n d adds).count = adds.length := by
  have gen : ∀ (adds : List (α × Nat)) (r : Rolling (α × Nat)), r.maxBuckets = n → r.bucketDuration = d →
      r.maxBucketDuration = d * n →
      let r' := adds.foldl (fun r a => r.add (fun p => keep p.1) a a.2) r
      r'.buckets = runBuckets keep n d r.buckets adds ∧ r'.maxBuckets = n ∧ r'.bucketDuration = d
      ∧ r'.maxBucketDuration = d * n ∧ r'.count = r.count + adds.length := by
    intro adds
    induction adds with
    | nil => intro r h1 h2 h3; simp [runBuckets, h1, h2, h3]
    | cons a rest ih =>
      intro r h1 h2 h3
      obtain ⟨p1, p2, p3, p4⟩ := add_params (fun p : α × Nat => keep p.1) r a a.2
      have := ih (r.add (fun p => keep p.1) a a.2) (by rw [p1, h1]) (by rw [p2, h2]) (by rw [p3, h3])
      simp only [List.foldl_cons, List.length_cons] at this ⊢
      obtain ⟨q1, q2, q3, q4, q5⟩ := this
      refine ⟨?_, q2, q3, q4, by rw [q5, p4]; omega⟩
      rw [q1, add_buckets, h1, h2, h3]
      simp [runBuckets]
  have := gen adds (Rolling.new n d) rfl rfl rfl
  simpa [runT, Rolling.new] using this

theorem mem_snapshot (r : Rolling α) (now : Nat) (a : α) :
    a ∈ r.snapshot now ↔ ∃ b ∈ r.buckets, now < b.begin + r.maxBucketDuration ∧ a ∈ b.samples := by
  simp only [Rolling.snapshot, List.mem_flatMap, mem_liveAt]
  constructor
  · rintro ⟨b, ⟨h1, h2⟩, h3⟩; exact ⟨b, h1, h2, h3⟩
  · rintro ⟨b, h1, h2, h3⟩; exact ⟨b, ⟨h1, h2⟩, h3⟩

/-! ### multiplicities: no sample is ever retained twice -/

theorem flatMap_sublist {β : Type} (f : α → List β) {l1 l2 : List α} (h : l1.Sublist l2) :
    (l1.flatMap f).Sublist (l2.flatMap f) := by
  induction h with
  | slnil => exact List.Sublist.refl _
  | cons a _ ih => simp only [List.flatMap_cons]; exact List.Sublist.trans ih (List.sublist_append_right _ _)
  | cons_cons a _ ih => simp only [List.flatMap_cons]; exact List.Sublist.append (List.Sublist.refl _) ih

/-- all retained samples, latest bucket first -/
def flat (bs : List (RBucket α)) : List α := bs.flatMap (·.samples)

theorem addInBucket_flat (keep : α → Bool) (d now : Nat) (v : α) : ∀ (bs bs' : List (RBucket α)),
    addInBucket keep d now v bs = some bs' → (flat bs').Perm (if keep v then v :: flat bs else flat bs)
  | [], _, h => by simp [addInBucket] at h
  | b :: bs, bs', h => by
    unfold addInBucket at h
    split at h
    · cases h
    · split at h
      · cases h
        simp only [flat, List.flatMap_cons, summaryAdd]
        split
        · simp only [List.append_assoc, List.singleton_append]
          exact List.perm_middle
        · exact List.Perm.refl _
      · cases hr : addInBucket keep d now v bs with
        | none => rw [hr] at h; cases h
        | some r =>
          rw [hr] at h; cases h
          have ih := addInBucket_flat keep d now v bs r hr
          simp only [flat, List.flatMap_cons] at ih ⊢
          split
          · rename_i hk
            simp only [hk, if_true] at ih
            exact List.Perm.trans (List.Perm.append_left _ ih) List.perm_middle
          · rename_i hk
            simp only [hk] at ih
            exact List.Perm.append_left _ ih

/-- one `add` of a sample that is not retained yet keeps the retained samples duplicate-free, and retains nothing
    but old retained samples and the new one -/
theorem addBuckets_nodup (keep : α → Bool) (n d W : Nat) (bs : List (RBucket α)) (v : α) (now : Nat)
    (hnd : (flat bs).Nodup) (hnew : v ∉ flat bs) :
    (flat (addBuckets keep n d W bs v now)).Nodup ∧ ∀ a ∈ flat (addBuckets keep n d W bs v now), a = v ∨ a ∈ flat bs := by
  unfold addBuckets
  cases hs : addInBucket keep d now v bs with
  | some bs' =>
    simp only
    have hp := addInBucket_flat keep d now v bs bs' hs
    split at hp
    · exact ⟨(hp.nodup_iff).mpr (List.nodup_cons.mpr ⟨hnew, hnd⟩), fun a ha => by
        have := hp.mem_iff.mp ha; simpa using this⟩
    · exact ⟨(hp.nodup_iff).mpr hnd, fun a ha => Or.inr (hp.mem_iff.mp ha)⟩
  | none =>
    simp only
    have hsub : (flat (liveAt W now bs)).Sublist (flat bs) := flatMap_sublist _ (liveAt_sublist W now bs)
    have hone : ∀ l : List (RBucket α), (flat l).Sublist (flat bs) →
        (flat (⟨now, summaryAdd keep [] v⟩ :: l)).Nodup ∧ ∀ a ∈ flat (⟨now, summaryAdd keep [] v⟩ :: l), a = v ∨ a ∈ flat bs := by
      intro l hl
      have hln : (flat l).Nodup := List.Nodup.sublist hl hnd
      simp only [flat, List.flatMap_cons, summaryAdd]
      split
      · simp only [List.nil_append, List.singleton_append]
        refine ⟨List.nodup_cons.mpr ⟨fun h => hnew (hl.subset h), hln⟩, ?_⟩
        intro a ha
        rcases List.mem_cons.mp ha with rfl | ha
        · exact Or.inl rfl
        · exact Or.inr (hl.subset ha)
      · simp only [List.nil_append]
        exact ⟨hln, fun a ha => Or.inr (hl.subset ha)⟩
    cases hl : liveAt W now bs with
    | nil => simpa [flat] using hone [] (by simp [flat])
    | cons b0 rest =>
      simp only
      rw [hl] at hsub
      split
      · have ht : (flat ((b0 :: rest).take (n - 1))).Sublist (flat bs) :=
          List.Sublist.trans (flatMap_sublist _ (List.take_sublist _ _)) hsub
        have := hone ((b0 :: rest).take (n - 1)) ht
        simpa [flat, summaryAdd] using this
      · exact ⟨List.Nodup.sublist hsub hnd, fun a ha => Or.inr (hsub.subset ha)⟩

/-- distinct time-stamped samples in, duplicate-free retained samples out (for ANY timestamps) -/
theorem runBuckets_nodup (keep : α → Bool) (n d : Nat) : ∀ (adds2 : List (α × Nat)) (bs : List (RBucket (α × Nat)))
    (adds1 : List (α × Nat)), (flat bs).Nodup → (∀ a ∈ flat bs, a ∈ adds1) → (adds1 ++ adds2).Nodup →
    (flat (runBuckets keep n d bs adds2)).Nodup
  | [], bs, _, h, _, _ => by simpa [runBuckets] using h
  | a :: rest, bs, adds1, h, hin, hnd => by
    have hnd' : (adds1 ++ [a] ++ rest).Nodup := by simpa [List.append_assoc] using hnd
    have hnew : a ∉ flat bs := by
      intro hm
      have h1 := hin a hm
      have := (List.nodup_append.mp hnd).2.2 a h1 a (by simp)
      exact this rfl
    obtain ⟨s1, s2⟩ := addBuckets_nodup (fun p : α × Nat => keep p.1) n d (d * n) bs a a.2 h hnew
    have := runBuckets_nodup keep n d rest _ (adds1 ++ [a]) s1
      (fun x hx => by
        rcases s2 x hx with rfl | hx
        · simp
        · simp [hin x hx]) hnd'
    simpa [runBuckets] using this

theorem snapshot_nodup (keep : α → Bool) (n d : Nat) (adds : List (α × Nat)) (hnd : adds.Nodup) (now : Nat) :
    ((runT keep n d adds).snapshot now).Nodup := by
  have h := runBuckets_nodup keep n d adds [] [] (by simp [flat]) (by simp [flat]) (by simpa using hnd)
  rw [← (runT_fields keep n d adds).1] at h
  exact List.Nodup.sublist (flatMap_sublist _ (liveAt_sublist _ _ _)) h

/-! ### the payload is opaque: `add` and `snapshot` commute with any relabelling of the samples -/

section naturality
variable {β : Type}

def RBucket.map (f : α → β) (b : RBucket α) : RBucket β := ⟨b.begin, b.samples.map f⟩

def Rolling.map (f : α → β) (r : Rolling α) : Rolling β :=
  { buckets := r.buckets.map (RBucket.map f), maxBuckets := r.maxBuckets, bucketDuration := r.bucketDuration,
    maxBucketDuration := r.maxBucketDuration, count := r.count }

theorem summaryAdd_map (f : α → β) (keepA : α → Bool) (keepB : β → Bool) (hk : ∀ a, keepB (f a) = keepA a)
    (s : List α) (v : α) : summaryAdd keepB (s.map f) (f v) = (summaryAdd keepA s v).map f := by
  unfold summaryAdd; rw [hk]; split <;> simp

theorem addInBucket_map (f : α → β) (keepA : α → Bool) (keepB : β → Bool) (hk : ∀ a, keepB (f a) = keepA a)
    (d now : Nat) (v : α) : ∀ bs : List (RBucket α),
    addInBucket keepB d now (f v) (bs.map (RBucket.map f)) = (addInBucket keepA d now v bs).map (·.map (RBucket.map f))
  | [] => rfl
  | b :: bs => by
    have ih := addInBucket_map f keepA keepB hk d now v bs
    simp only [List.map_cons, addInBucket]
    have e : (RBucket.map f b).begin = b.begin := rfl
    simp only [e]
    split
    · rfl
    · split
      · simp [RBucket.map, summaryAdd_map f keepA keepB hk]
      · rw [ih]; cases addInBucket keepA d now v bs <;> simp

theorem liveAt_map (f : α → β) (W now : Nat) (bs : List (RBucket α)) :
    liveAt W now (bs.map (RBucket.map f)) = (liveAt W now bs).map (RBucket.map f) := by
  unfold liveAt; split
  · rw [List.filter_map]; rfl
  · rfl

theorem addBuckets_map (f : α → β) (keepA : α → Bool) (keepB : β → Bool) (hk : ∀ a, keepB (f a) = keepA a)
    (n d W : Nat) (bs : List (RBucket α)) (v : α) (now : Nat) :
    addBuckets keepB n d W (bs.map (RBucket.map f)) (f v) now = (addBuckets keepA n d W bs v now).map (RBucket.map f) := by
  unfold addBuckets
  rw [addInBucket_map f keepA keepB hk, liveAt_map]
  cases addInBucket keepA d now v bs with
  | some r => rfl
  | none =>
    simp only [Option.map_none]
    cases liveAt W now bs with
    | nil => simp [RBucket.map, summaryAdd, hk]; split <;> simp
    | cons b0 rest =>
      simp only [List.map_cons]
      have e : (RBucket.map f b0).begin = b0.begin := rfl
      rw [e]
      split
      · simp only [List.map_cons, List.map_take]
        congr 1
        have := summaryAdd_map f keepA keepB hk [] v
        simp only [List.map_nil] at this
        simp [RBucket.map, this]
      · rfl

theorem add_map (f : α → β) (keepA : α → Bool) (keepB : β → Bool) (hk : ∀ a, keepB (f a) = keepA a)
    (r : Rolling α) (v : α) (now : Nat) : (r.map f).add keepB (f v) now = (r.add keepA v now).map f := by
  obtain ⟨p1, p2, p3, p4⟩ := add_params keepA r v now
  obtain ⟨q1, q2, q3, q4⟩ := add_params keepB (r.map f) (f v) now
  have hb := add_buckets keepB (r.map f) (f v) now
  have ha := add_buckets keepA r v now
  cases hx : (r.map f).add keepB (f v) now with
  | mk b1 m1 d1 w1 c1 =>
    rw [hx] at q1 q2 q3 q4 hb
    simp only [Rolling.map] at q1 q2 q3 q4 hb ⊢
    rw [addBuckets_map f keepA keepB hk] at hb
    simp [hb, q1, q2, q3, q4, p1, p2, p3, p4, ha]

theorem snapshot_map (f : α → β) (r : Rolling α) (now : Nat) : (r.map f).snapshot now = (r.snapshot now).map f := by
  simp only [Rolling.snapshot, Rolling.map, liveAt_map, List.flatMap_map, List.map_flatMap]
  rfl

/-- the model run on plain values is the image of the model run on time-stamped values -/
theorem run_map (keep : α → Bool) (n d : Nat) (adds : List (α × Nat)) :
    adds.foldl (fun r a => r.add keep a.1 a.2) (Rolling.new n d) = (runT keep n d adds).map Prod.fst := by
  have gen : ∀ (adds : List (α × Nat)) (r : Rolling (α × Nat)),
      adds.foldl (fun r a => r.add keep a.1 a.2) (r.map Prod.fst)
        = (adds.foldl (fun r a => r.add (fun p => keep p.1) a a.2) r).map Prod.fst := by
    intro adds
    induction adds with
    | nil => intro r; rfl
    | cons a rest ih =>
      intro r
      simp only [List.foldl_cons]
      rw [← ih]
      congr 1
      exact add_map Prod.fst (fun p : α × Nat => keep p.1) keep (fun _ => rfl) r a a.2
  exact gen adds (Rolling.new n d)

end naturality

/-! ### min/max of a merged snapshot (the answers to `quantile(0.0)` and `quantile(1.0)`) -/

def isFin : FV → Bool
  | .fin _ => true
  | _ => false

/-- `m` is the min/max summary of the finite samples `S`, and its min and max are members of `S` -/
def Good (m : MinMax) (S : List FV) : Prop :=
  m.total = S.length ∧ m.pos ≤ m.total ∧ (m.total = 0 → m.min = .pinf ∧ m.max = .ninf)
  ∧ (0 < m.total → m.min ∈ S ∧ m.max ∈ S)

theorem Good.empty : Good {} [] := ⟨rfl, Nat.le_refl _, fun _ => ⟨rfl, rfl⟩, fun h => by simp at h⟩

theorem Good.add {m : MinMax} {S : List FV} (g : Good m S) (v : FV) (hv : isFin v = true) : Good (m.add v) (S ++ [v]) := by
  obtain ⟨g1, g2, g3, g4⟩ := g
  cases v with
  | fin n =>
    refine ⟨by simp [MinMax.add, g1], ?_, fun h => by simp [MinMax.add] at h, fun _ => ?_⟩
    · simp only [MinMax.add]; split <;> omega
    · by_cases h0 : m.total = 0
      · obtain ⟨e1, e2⟩ := g3 h0
        simp [MinMax.add, e1, e2, FV.lt, FV.le]
      · obtain ⟨e1, e2⟩ := g4 (by omega)
        simp only [MinMax.add]
        constructor
        · split <;> simp [e1]
        · split <;> simp [e2]
  | nan => simp [isFin] at hv
  | pinf => simp [isFin] at hv
  | ninf => simp [isFin] at hv

theorem Good.bucket : ∀ (xs : List FV) (m : MinMax) (S : List FV), Good m S → (∀ x ∈ xs, isFin x = true) →
    Good (xs.foldl MinMax.add m) (S ++ xs)
  | [], m, S, g, _ => by simpa using g
  | x :: xs, m, S, g, h => by
    have := Good.bucket xs (m.add x) (S ++ [x]) (g.add x (h x (by simp))) (fun y hy => h y (by simp [hy]))
    simpa [List.append_assoc] using this

/-- the repaired `Summary::merge` keeps min and max among the samples -/
theorem Good.merge {s o : MinMax} {S So : List FV} (gs : Good s S) (go : Good o So) :
    Good (summaryMerge true s o) (S ++ So) := by
  obtain ⟨s1, s2, s3, s4⟩ := gs
  obtain ⟨o1, o2, o3, o4⟩ := go
  unfold summaryMerge
  by_cases h0 : o.total = 0
  · have : So = [] := by
      cases So with
      | nil => rfl
      | cons _ _ => simp [h0] at o1
    simp only [h0, Bool.true_and, beq_self_eq_true, if_true, this, List.append_nil]
    exact ⟨s1, s2, s3, s4⟩
  · have hb : (o.total == 0) = false := by simpa using h0
    simp only [hb, Bool.and_false, Bool.false_eq_true, if_false]
    obtain ⟨m1, m2⟩ := o4 (by omega)
    refine ⟨by simp [MinMax.merge, s1, o1], by simp only [MinMax.merge]; omega,
      fun h => by simp only [MinMax.merge] at h; omega, fun _ => ?_⟩
    by_cases hp : s.pos = 0
    · simp [MinMax.merge, hp, m1, m2]
    · obtain ⟨n1, n2⟩ := s4 (by omega)
      have hp' : (s.pos == 0) = false := by simpa using hp
      simp only [MinMax.merge, hp', Bool.false_eq_true, if_false]
      constructor
      · split <;> simp [m1, n1]
      · split <;> simp [m2, n2]

theorem Good.buckets : ∀ (bs : List (RBucket FV)) (acc : MinMax) (S : List FV), Good acc S →
    (∀ b ∈ bs, ∀ x ∈ b.samples, isFin x = true) →
    Good (bs.foldl (fun acc b => summaryMerge true acc (bucketMinMax b.samples)) acc) (S ++ bs.flatMap (·.samples))
  | [], acc, S, g, _ => by simpa using g
  | b :: bs, acc, S, g, h => by
    have gb : Good (bucketMinMax b.samples) b.samples := by
      have := Good.bucket b.samples {} [] Good.empty (h b (by simp))
      simpa [bucketMinMax] using this
    have := Good.buckets bs _ (S ++ b.samples) (g.merge gb) (fun b' hb' => h b' (by simp [hb']))
    simpa [List.append_assoc] using this

/-! ### the three stores of the sketch: everything a quantile can answer with is a retained sample -/

/-- `s` holds exactly (as far as membership and the count go) the samples `xs` -/
structure Within (minU : Nat) (s : Sketch) (xs : List FV) : Prop where
  neg : ∀ v ∈ s.neg, v ∈ xs ∧ clsOf minU v = .neg
  pos : ∀ v ∈ s.pos, v ∈ xs ∧ clsOf minU v = .pos
  zero : 0 < s.zero → ∃ v ∈ xs, clsOf minU v = .zero
  count : s.count = xs.length

theorem Within.empty (minU : Nat) : Within minU {} [] :=
  ⟨by simp, by simp, by simp, by simp [Sketch.count]⟩

theorem Within.add {minU : Nat} {s : Sketch} {xs : List FV} (w : Within minU s xs) (v : FV) :
    Within minU (s.add minU v) (xs ++ [v]) := by
  unfold Sketch.add
  cases hc : clsOf minU v with
  | pos =>
    refine ⟨fun x hx => ?_, fun x hx => ?_, fun hz => ?_, ?_⟩
    · obtain ⟨a, b⟩ := w.neg x hx; exact ⟨by simp [a], b⟩
    · simp only [List.mem_append, List.mem_singleton] at hx
      rcases hx with hx | rfl
      · obtain ⟨a, b⟩ := w.pos x hx; exact ⟨by simp [a], b⟩
      · exact ⟨by simp, hc⟩
    · obtain ⟨x, hx, hx'⟩ := w.zero hz; exact ⟨x, by simp [hx], hx'⟩
    · have := w.count; simp only [Sketch.count, List.length_append, List.length_singleton] at this ⊢; omega
  | neg =>
    refine ⟨fun x hx => ?_, fun x hx => ?_, fun hz => ?_, ?_⟩
    · simp only [List.mem_append, List.mem_singleton] at hx
      rcases hx with hx | rfl
      · obtain ⟨a, b⟩ := w.neg x hx; exact ⟨by simp [a], b⟩
      · exact ⟨by simp, hc⟩
    · obtain ⟨a, b⟩ := w.pos x hx; exact ⟨by simp [a], b⟩
    · obtain ⟨x, hx, hx'⟩ := w.zero hz; exact ⟨x, by simp [hx], hx'⟩
    · have := w.count; simp only [Sketch.count, List.length_append, List.length_singleton] at this ⊢; omega
  | zero =>
    refine ⟨fun x hx => ?_, fun x hx => ?_, fun _ => ⟨v, by simp, hc⟩, ?_⟩
    · obtain ⟨a, b⟩ := w.neg x hx; exact ⟨by simp [a], b⟩
    · obtain ⟨a, b⟩ := w.pos x hx; exact ⟨by simp [a], b⟩
    · have := w.count; simp only [Sketch.count, List.length_append, List.length_singleton] at this ⊢; omega

theorem Within.merge {minU : Nat} {s o : Sketch} {xs ys : List FV} (ws : Within minU s xs) (wo : Within minU o ys) :
    Within minU (s.merge o) (xs ++ ys) := by
  refine ⟨fun x hx => ?_, fun x hx => ?_, fun hz => ?_, ?_⟩
  · simp only [Sketch.merge, List.mem_append] at hx
    rcases hx with hx | hx
    · obtain ⟨a, b⟩ := ws.neg x hx; exact ⟨by simp [a], b⟩
    · obtain ⟨a, b⟩ := wo.neg x hx; exact ⟨by simp [a], b⟩
  · simp only [Sketch.merge, List.mem_append] at hx
    rcases hx with hx | hx
    · obtain ⟨a, b⟩ := ws.pos x hx; exact ⟨by simp [a], b⟩
    · obtain ⟨a, b⟩ := wo.pos x hx; exact ⟨by simp [a], b⟩
  · simp only [Sketch.merge] at hz
    by_cases h : 0 < s.zero
    · obtain ⟨x, hx, hx'⟩ := ws.zero h; exact ⟨x, by simp [hx], hx'⟩
    · obtain ⟨x, hx, hx'⟩ := wo.zero (by omega); exact ⟨x, by simp [hx], hx'⟩
  · have a := ws.count; have b := wo.count
    simp only [Sketch.count, Sketch.merge, List.length_append] at a b ⊢; omega

theorem Within.bucket (minU : Nat) : ∀ (ys : List FV) (acc : Sketch) (xs : List FV), Within minU acc xs →
    Within minU (ys.foldl (Sketch.add minU) acc) (xs ++ ys)
  | [], acc, xs, w => by simpa using w
  | y :: ys, acc, xs, w => by
    have := Within.bucket minU ys (acc.add minU y) (xs ++ [y]) (w.add y)
    simpa [List.append_assoc] using this

theorem Within.buckets (minU : Nat) : ∀ (bs : List (RBucket FV)) (acc : Sketch) (xs : List FV), Within minU acc xs →
    Within minU (bs.foldl (fun acc b => acc.merge (bucketSketch minU b.samples)) acc) (xs ++ bs.flatMap (·.samples))
  | [], acc, xs, w => by simpa using w
  | b :: bs, acc, xs, w => by
    have wb : Within minU (bucketSketch minU b.samples) b.samples := by
      have := Within.bucket minU b.samples {} [] (Within.empty minU)
      simpa [bucketSketch] using this
    have := Within.buckets minU bs _ (xs ++ b.samples) (w.merge wb)
    simpa [List.append_assoc] using this

theorem Within.snapshot (minU : Nat) (r : Rolling FV) (now : Nat) :
    Within minU (snapshotSketch minU r now) (r.snapshot now) := by
  have := Within.buckets minU (liveAt r.maxBucketDuration now r.buckets) {} [] (Within.empty minU)
  simpa [snapshotSketch, Rolling.snapshot] using this

theorem mem_insertBy (le : FV → FV → Bool) (x a : FV) : ∀ l : List FV, a ∈ insertBy le x l ↔ a = x ∨ a ∈ l
  | [] => by simp [insertBy]
  | y :: ys => by
    unfold insertBy
    split
    · simp
    · simp only [List.mem_cons, mem_insertBy le x a ys]
      constructor
      · rintro (h | h | h)
        · exact Or.inr (Or.inl h)
        · exact Or.inl h
        · exact Or.inr (Or.inr h)
      · rintro (h | h | h)
        · exact Or.inr (Or.inl h)
        · exact Or.inl h
        · exact Or.inr (Or.inr h)

theorem mem_sortBy (le : FV → FV → Bool) (a : FV) : ∀ l : List FV, a ∈ sortBy le l ↔ a ∈ l
  | [] => by simp [sortBy]
  | y :: ys => by
    have ih := mem_sortBy le a ys
    simp only [sortBy, List.foldr_cons] at ih ⊢
    rw [mem_insertBy, ih]; simp

theorem storeAtRank_mem (le : FV → FV → Bool) (store : List FV) (rank : Nat) (x : FV)
    (h : storeAtRank le store rank = some x) : x ∈ store := by
  unfold storeAtRank at h
  split at h
  · rename_i y hy
    cases h
    exact (mem_sortBy le _ store).mp (List.mem_of_getElem? hy)
  · exact (mem_sortBy le _ store).mp (List.mem_of_getLast? h)

theorem storeAtRank_none (le : FV → FV → Bool) (store : List FV) (rank : Nat)
    (h : storeAtRank le store rank = none) : store = [] := by
  unfold storeAtRank at h
  split at h
  · cases h
  · have : sortBy le store = [] := List.getLast?_eq_none_iff.mp h
    cases store with
    | nil => rfl
    | cons y ys =>
      have hm : y ∈ sortBy le (y :: ys) := (mem_sortBy le y (y :: ys)).mpr (by simp)
      rw [this] at hm; cases hm

end MetricsVerif.Rolling
