/-
C05, clears under ANY interleaving: a value is never delivered more often than it was pushed.

Ghost ownership of blocks (`live` = reachable from the tail, `det tid` = detached by the running clear of
thread `tid` and not yet read, `read` = handed to a clear callback) is threaded through the step machine
(`grun`, defined in `Model/BucketGhost.lean`); its first projection is the plain `run`.  The invariant says that the live chain and every running
clear's remaining chain are contiguous, disjoint index ranges that end in a `next = none` block, so a block is
read by at most one clear, at most once.
-/
import MetricsVerif.Proofs.BucketAll
import MetricsVerif.Model.BucketGhost

namespace MetricsVerif.Bucket

/-- what a running clear still has to read: blocks up to `blk` (inclusive or not) of its detached chain -/
def claim : PC → Option (Nat × Bool)
  | .cQuiesced b => some (b, true)
  | .cWait b => some (b, true)
  | .cRead b => some (b, true)
  | .cNext b => some (b, false)
  | _ => none

theorem grun_fst (sched : List Nat) : ∀ s own, (grun s own sched).1 = run s sched := by
  induction sched with
  | nil => intro s own; rfl
  | cons t ts ih => intro s own; simp only [grun, run, List.foldl_cons]; exact ih _ _

def nextAt (bs : List Block) (i : Nat) : Option (Option Nat) := (bs[i]?).map Block.next

/-- same length, same links, cells only grow -/
def Sim (bs bs' : List Block) : Prop :=
  bs'.length = bs.length ∧ (∀ i, nextAt bs' i = nextAt bs i)
    ∧ ∀ (i : Nat) (b : Block), bs[i]? = some b → ∃ b', bs'[i]? = some b' ∧ ∀ v, cnt v b ≤ cnt v b'

theorem Sim.refl (bs : List Block) : Sim bs bs :=
  ⟨rfl, fun _ => rfl, fun _ b hb => ⟨b, hb, fun _ => Nat.le_refl _⟩⟩

theorem Sim.setAt_getBlock (s : Sys) (blk : Nat) (b' : Block) (hn : b'.next = (getBlock s blk).next)
    (hc : ∀ v, cnt v (getBlock s blk) ≤ cnt v b') : Sim s.blocks (setAt s.blocks blk b') := by
  refine ⟨setAt_length _ _ _, ?_, ?_⟩
  · intro i
    unfold nextAt
    rw [getElem?_setAt]
    by_cases h : blk = i ∧ i < s.blocks.length
    · obtain ⟨rfl, hlt⟩ := h
      have hb : s.blocks[blk]? = some s.blocks[blk] := List.getElem?_eq_getElem hlt
      simp only [hlt, and_self, if_true, Option.map_some, hb, hn, getBlock_eq hb]
    · simp only [h, if_false]
  · intro i b hb
    rw [getElem?_setAt]
    by_cases h : blk = i ∧ i < s.blocks.length
    · obtain ⟨rfl, hlt⟩ := h
      refine ⟨b', by simp [hlt], ?_⟩
      rw [getBlock_eq hb] at hc; exact hc
    · exact ⟨b, by simp only [h, if_false]; exact hb, fun _ => Nat.le_refl _⟩

def clearedVals : Res → List Nat
  | .cleared vs => vs
  | _ => []

/-- what thread `t` has been handed by clears: finished clears plus the running one -/
def dl (t : Thread) : List Nat := t.results.flatMap clearedVals ++ (if (claim t.pc).isSome then t.acc else [])

theorem claim_startPC (calls : List Call) : claim (startPC calls) = none := by
  cases calls with
  | nil => rfl
  | cons c r => cases c <;> rfl

theorem dl_advance (t : Thread) (r : Res) (v : Nat) :
    (dl (t.advance r)).count v = (t.results.flatMap clearedVals).count v + (clearedVals r).count v := by
  have : claim (startPC t.calls.tail) = none := claim_startPC _
  simp [dl, this, Thread.advance, List.flatMap_append, List.count_append]

theorem dl_of_none (t : Thread) (h : claim t.pc = none) (v : Nat) :
    (dl t).count v = (t.results.flatMap clearedVals).count v := by
  simp [dl, h]

/-- effects of one step, as far as block ownership is concerned -/
inductive GEff (s : Sys) (t : Thread) : List Block → Option Nat → Thread → Prop
  | quiet (bs' : List Block) (t' : Thread) : Sim s.blocks bs' → claim t'.pc = claim t.pc →
      (∀ tid own, gownT s t tid own = own) → (∀ v, (dl t').count v = (dl t).count v) → GEff s t bs' s.tail t'
  | append (nb : Block) (t' : Thread) : nb.cells = [] → claim t.pc = none → claim t'.pc = none →
      (∀ tid own, gownT s t tid own = own) → (∀ v, (dl t').count v = (dl t).count v) →
      ((s.tail = none ∧ nb.next = none) ∨ (∃ old, s.tail = some old ∧ nb.next = some old)) →
      GEff s t (s.blocks ++ [nb]) (some s.blocks.length) t'
  | detach (old : Nat) : t.pc = .cCas old → s.tail = some old → GEff s t s.blocks none { t with pc := .cQuiesced old }
  | read (blk : Nat) : t.pc = .cRead blk →
      GEff s t s.blocks s.tail { t with acc := t.acc ++ (getBlock s blk).data, pc := .cNext blk }
  | nextNone (blk : Nat) : t.pc = .cNext blk → (getBlock s blk).next = none →
      GEff s t s.blocks s.tail (t.advance (.cleared t.acc))
  | nextSome (blk n : Nat) : t.pc = .cNext blk → (getBlock s blk).next = some n →
      GEff s t s.blocks s.tail { t with pc := .cQuiesced n }

theorem stepThread_geff (s : Sys) (t : Thread) :
    GEff s t (stepThread s t).1.blocks (stepThread s t).1.tail (stepThread s t).2 := by
  -- the three recurring shapes of a quiet step
  have q_pc : ∀ (pc' : PC), claim pc' = claim t.pc → (∀ tid own, gownT s t tid own = own) →
      GEff s t s.blocks s.tail { t with pc := pc' } := by
    intro pc' hc hg
    refine .quiet _ _ (Sim.refl _) hc hg ?_
    intro v; simp only [dl, hc]
  have q_adv : ∀ (r : Res), claim t.pc = none → clearedVals r = [] → (∀ tid own, gownT s t tid own = own) →
      GEff s t s.blocks s.tail (t.advance r) := by
    intro r hc hr hg
    refine .quiet _ _ (Sim.refl _) (by rw [hc]; exact claim_startPC _) hg ?_
    intro v; rw [dl_advance, dl_of_none t hc, hr]; simp
  unfold stepThread
  cases hp : t.pc with
  | start =>
    simp only
    exact q_pc _ (by rw [hp]; exact claim_startPC _) (by intro tid own; simp [gownT, hp])
  | done =>
    simp only
    have := q_pc t.pc rfl (by intro tid own; simp [gownT, hp])
    exact this
  | pLoadTail =>
    simp only
    split <;> exact q_pc _ (by rw [hp]; rfl) (by intro tid own; simp [gownT, hp])
  | pCasFirst =>
    simp only
    split
    · rename_i ht
      have := GEff.append (s := s) (t := t) newBlock { t with pc := .pClaim s.blocks.length false } rfl (by rw [hp]; rfl) rfl
        (by intro tid own; simp [gownT, hp]) (by intro v; simp [dl, hp, claim]) (Or.inl ⟨ht, rfl⟩)
      exact this
    · exact q_pc _ (by rw [hp]; rfl) (by intro tid own; simp [gownT, hp])
  | pClaim blk r =>
    simp only
    have hg : ∀ tid own, gownT s t tid own = own := by intro tid own; simp [gownT, hp]
    split
    · refine .quiet _ _ (Sim.setAt_getBlock s blk _ rfl ?_) (by rw [hp]; rfl) hg (by intro v; simp [dl, hp, claim])
      intro v; simp [cnt, List.count_append]
    · split
      · exact .quiet _ _ (Sim.setAt_getBlock s blk _ rfl (fun _ => Nat.le_refl _)) (by rw [hp]; rfl) hg
          (by intro v; simp [dl, hp, claim])
      · exact .quiet _ _ (Sim.setAt_getBlock s blk _ rfl (fun _ => Nat.le_refl _)) (by rw [hp]; rfl) hg
          (by intro v; simp [dl, hp, claim])
  | pPublish blk idx =>
    simp only
    have hg : ∀ tid own, gownT s t tid own = own := by intro tid own; simp [gownT, hp]
    refine .quiet _ _ (Sim.setAt_getBlock s blk _ rfl ?_) (by rw [hp]; exact claim_startPC _) hg ?_
    · intro v; simp [cnt, publishCell_vals]
    · intro v; rw [dl_advance, dl_of_none t (by rw [hp]; rfl)]; simp [clearedVals]
  | pCasNew old =>
    simp only
    by_cases ht : s.tail = some old
    · simp only [ht, if_true]
      have := GEff.append (s := s) (t := t) { newBlock with next := some old } { t with pc := .pClaim s.blocks.length true } rfl
        (by rw [hp]; rfl) rfl (by intro tid own; simp [gownT, hp]) (by intro v; simp [dl, hp, claim]) (Or.inr ⟨old, ht, rfl⟩)
      exact this
    · simp only [ht, if_false]
      exact q_pc _ (by rw [hp]; rfl) (by intro tid own; simp [gownT, hp])
  | dLoadTail =>
    simp only
    have hg : ∀ tid own, gownT s t tid own = own := by intro tid own; simp [gownT, hp]
    split
    · exact q_adv _ (by rw [hp]; rfl) rfl hg
    · exact q_pc _ (by rw [hp]; rfl) hg
  | dQuiesced blk =>
    simp only
    exact q_pc _ (by rw [hp]; split <;> rfl) (by intro tid own; simp [gownT, hp])
  | dWait blk =>
    simp only
    exact q_pc _ (by rw [hp]; split <;> rfl) (by intro tid own; simp [gownT, hp])
  | dRead blk =>
    simp only
    refine .quiet _ _ (Sim.refl _) (by rw [hp]; rfl) (by intro tid own; simp [gownT, hp]) ?_
    intro v; simp [dl, hp, claim]
  | dNext blk =>
    simp only
    have hg : ∀ tid own, gownT s t tid own = own := by intro tid own; simp [gownT, hp]
    split
    · exact q_adv _ (by rw [hp]; rfl) rfl hg
    · exact q_pc _ (by rw [hp]; rfl) hg
  | cLoadTail =>
    simp only
    have hg : ∀ tid own, gownT s t tid own = own := by intro tid own; simp [gownT, hp]
    split
    · exact q_adv _ (by rw [hp]; rfl) rfl hg
    · exact q_pc _ (by rw [hp]; rfl) hg
  | cCas old =>
    simp only
    by_cases ht : s.tail = some old
    · simp only [ht, if_true]
      have := GEff.detach (s := s) (t := t) old hp ht
      exact this
    · simp only [ht, if_false]
      exact q_pc _ (by rw [hp]; rfl) (by intro tid own; simp [gownT, hp, ht])
  | cQuiesced blk =>
    simp only
    exact q_pc _ (by rw [hp]; split <;> rfl) (by intro tid own; simp [gownT, hp])
  | cWait blk =>
    simp only
    exact q_pc _ (by rw [hp]; split <;> rfl) (by intro tid own; simp [gownT, hp])
  | cRead blk => simp only; exact .read blk hp
  | cNext blk =>
    simp only
    split
    · rename_i hn; exact .nextNone blk hp hn
    · rename_i n hn; exact .nextSome blk n hp hn
  | eLoadTail =>
    simp only
    have hg : ∀ tid own, gownT s t tid own = own := by intro tid own; simp [gownT, hp]
    split
    · exact q_adv _ (by rw [hp]; rfl) rfl hg
    · exact q_pc _ (by rw [hp]; rfl) hg
  | eLen blk =>
    simp only
    exact q_adv _ (by rw [hp]; rfl) rfl (by intro tid own; simp [gownT, hp])

end MetricsVerif.Bucket

/-! ### the ownership invariant -/
namespace MetricsVerif.Bucket

/-- blocks `lo ..= hi` are linked downwards and `lo` is the end of the chain -/
def Seg (bs : List Block) (lo hi : Nat) : Prop :=
  nextAt bs lo = some none ∧ ∀ i, lo < i → i ≤ hi → nextAt bs i = some (some (i - 1))

def COK (s : Sys) (own : Nat → Owner) (tid : Nat) : Option (Nat × Bool) → Prop
  | none => ∀ i, own i ≠ .det tid
  | some (blk, incl) => blk < s.blocks.length ∧ ∃ bt, bt ≤ blk
      ∧ (∀ i, own i = .det tid ↔ (bt ≤ i ∧ (i < blk ∨ (incl = true ∧ i = blk)))) ∧ Seg s.blocks bt blk

structure GInv (s : Sys) (own : Nat → Owner) : Prop where
  base : AInv2 s
  live : ∃ lb, lb ≤ s.blocks.length ∧ (∀ i, own i = .live ↔ lb ≤ i) ∧ (s.tail = none → lb = s.blocks.length)
      ∧ (∀ b, s.tail = some b → lb ≤ b ∧ Seg s.blocks lb b)
  clr : ∀ (tid : Nat) (t : Thread), s.threads[tid]? = some t → COK s own tid (claim t.pc)

theorem nextAt_append_lt (bs : List Block) (nb : Block) (i : Nat) (h : i < bs.length) :
    nextAt (bs ++ [nb]) i = nextAt bs i := by
  unfold nextAt; rw [List.getElem?_append_left h]

theorem nextAt_append_len (bs : List Block) (nb : Block) : nextAt (bs ++ [nb]) bs.length = some nb.next := by
  unfold nextAt; simp

theorem nextAt_some_lt {bs : List Block} {i : Nat} {x : Option Nat} (h : nextAt bs i = some x) : i < bs.length := by
  unfold nextAt at h
  cases hb : bs[i]? with
  | none => rw [hb] at h; cases h
  | some b => exact lt_of_getElem?_some hb

theorem nextAt_getBlock {s : Sys} {i : Nat} (h : i < s.blocks.length) : nextAt s.blocks i = some (getBlock s i).next := by
  have hb : s.blocks[i]? = some s.blocks[i] := List.getElem?_eq_getElem h
  unfold nextAt; rw [hb, getBlock_eq hb]; rfl

theorem Seg.mono_blocks {bs bs' : List Block} {lo hi : Nat} (h : Seg bs lo hi) (hhi : lo ≤ hi)
    (hn : ∀ i, i ≤ hi → nextAt bs' i = nextAt bs i) : Seg bs' lo hi :=
  ⟨by rw [hn lo hhi]; exact h.1, fun i h1 h2 => by rw [hn i h2]; exact h.2 i h1 h2⟩

/-- transporting a thread's claim to a state with the same links below the old length and the same `det` marks -/
theorem COK.congr {s s' : Sys} {own own' : Nat → Owner} {u : Nat} {c : Option (Nat × Bool)}
    (h : COK s own u c) (hlen : s.blocks.length ≤ s'.blocks.length)
    (hn : ∀ i, i < s.blocks.length → nextAt s'.blocks i = nextAt s.blocks i)
    (hown : ∀ i, own' i = .det u ↔ own i = .det u) : COK s' own' u c := by
  cases c with
  | none => intro i hi; exact h i ((hown i).mp hi)
  | some p =>
    obtain ⟨blk, incl⟩ := p
    obtain ⟨hlt, bt, hbt, hr, hseg⟩ := h
    refine ⟨Nat.lt_of_lt_of_le hlt hlen, bt, hbt, fun i => (hown i).trans (hr i), ?_⟩
    exact hseg.mono_blocks hbt (fun i hi => hn i (by omega))

theorem claim_eq_some_incl {pc : PC} {blk : Nat} (h : claim pc = some (blk, true)) :
    pc = .cQuiesced blk ∨ pc = .cWait blk ∨ pc = .cRead blk := by
  cases pc <;> simp [claim] at h <;> simp [h]

/-- the step, spelled out -/
theorem step_eq (s : Sys) (tid : Nat) (t : Thread) (hg : s.threads[tid]? = some t) :
    step s tid = { B := s.B, blocks := (stepThread s t).1.blocks, tail := (stepThread s t).1.tail,
                   threads := setAt s.threads tid (stepThread s t).2 } := by
  have hth := (step_threads s tid t hg).2
  have hB : (stepThread s t).1.B = s.B := by
    unfold stepThread
    cases t.pc <;> simp only [setBlock] <;> (repeat' split) <;> rfl
  unfold step
  rw [hg]
  simp only [hth]
  rw [← hB]

theorem gstep_inv (s : Sys) (own : Nat → Owner) (tid : Nat) (h : GInv s own) : GInv (step s tid) (gown s own tid) := by
  have hbase := astep_inv2 s tid h.base
  cases hg : s.threads[tid]? with
  | none =>
    have e1 : step s tid = s := by unfold step; rw [hg]
    have e2 : gown s own tid = own := by unfold gown; rw [hg]
    rw [e1, e2]; exact h
  | some t =>
    have e2 : gown s own tid = gownT s t tid own := by unfold gown; rw [hg]
    have hstep := step_eq s tid t hg
    rw [hstep] at hbase ⊢
    rw [e2]
    have eff := stepThread_geff s t
    generalize (stepThread s t).1.blocks = bs' at eff hbase ⊢
    generalize (stepThread s t).1.tail = tl' at eff hbase ⊢
    generalize (stepThread s t).2 = t' at eff hbase ⊢
    obtain ⟨lb, hlb, hlive, htn, hts⟩ := h.live
    have hct := h.clr tid t hg
    have htv := h.base.inv.tail_valid
    -- other threads keep their claims when links below the old length and their `det` marks are unchanged
    have others : ∀ (own' : Nat → Owner), s.blocks.length ≤ bs'.length →
        (∀ i, i < s.blocks.length → nextAt bs' i = nextAt s.blocks i) →
        (∀ u, u ≠ tid → ∀ i, own' i = .det u ↔ own i = .det u) →
        COK { B := s.B, blocks := bs', tail := tl', threads := setAt s.threads tid t' } own' tid (claim t'.pc) →
        ∀ (j : Nat) (u : Thread), (setAt s.threads tid t')[j]? = some u →
          COK { B := s.B, blocks := bs', tail := tl', threads := setAt s.threads tid t' } own' j (claim u.pc) := by
      intro own' hlen hn hown hself j u hu
      rcases threads_after hg j u hu with ⟨rfl, rfl⟩ | ⟨hj, hu'⟩
      · exact hself
      · exact (h.clr j u hu').congr hlen hn (hown j hj)
    cases eff with
    | quiet bs' t' hsim hcl hgo hdl =>
      rw [hgo]
      obtain ⟨hl, hnx, _⟩ := hsim
      refine ⟨hbase, ⟨lb, by rw [hl]; exact hlb, hlive, fun e => by rw [hl]; exact htn e, ?_⟩, ?_⟩
      · intro b hb
        obtain ⟨h1, h2⟩ := hts b hb
        exact ⟨h1, h2.mono_blocks h1 (fun i _ => hnx i)⟩
      · refine others own (by rw [hl]; exact Nat.le_refl _) (fun i _ => hnx i) (fun _ _ _ => Iff.rfl) ?_
        rw [hcl]
        exact hct.congr (by show s.blocks.length ≤ bs'.length; rw [hl]; exact Nat.le_refl _) (fun i _ => hnx i) (fun _ => Iff.rfl)
    | append nb t' hcells hc0 hc1 hgo hdl hnb =>
      rw [hgo]
      refine ⟨hbase, ⟨lb, ?_, hlive, ?_, ?_⟩, ?_⟩
      · simp only [List.length_append, List.length_cons, List.length_nil]; omega
      · intro e; cases e
      · intro b hb
        injection hb with hb; subst hb
        rcases hnb with ⟨ht, hnn⟩ | ⟨old, ht, hnn⟩
        · have := htn ht
          subst this
          exact ⟨Nat.le_refl _, by rw [nextAt_append_len, hnn], fun i h1 h2 => by omega⟩
        · obtain ⟨h1, h2⟩ := hts old ht
          have hol := htv old ht
          refine ⟨by omega, ?_, ?_⟩
          · rw [nextAt_append_lt _ _ _ (by omega)]; exact h2.1
          · intro i hi1 hi2
            by_cases hi : i < s.blocks.length
            · rw [nextAt_append_lt _ _ _ hi]; exact h2.2 i hi1 (by omega)
            · have : i = s.blocks.length := by omega
              subst this
              rw [nextAt_append_len, hnn]
              congr 2; omega
      · refine others own (by simp) (fun i hi => nextAt_append_lt _ _ _ hi) (fun _ _ _ => Iff.rfl) ?_
        rw [hc1]
        rw [hc0] at hct
        intro i; exact hct i
    | detach old hp ht =>
      have hol := htv old ht
      obtain ⟨h1, h2⟩ := hts old ht
      have hgo : gownT s t tid own = fun i => if i < s.blocks.length ∧ own i = .live then .det tid else own i := by
        unfold gownT; rw [hp]; simp only [ht, if_true]
      rw [hgo]
      rw [hp] at hct
      have hnone : ∀ i, own i ≠ .det tid := hct
      refine ⟨hbase, ⟨s.blocks.length, Nat.le_refl _, ?_, fun _ => rfl, by intro b hb; cases hb⟩, ?_⟩
      · intro i
        show (if i < s.blocks.length ∧ own i = .live then Owner.det tid else own i) = .live ↔ s.blocks.length ≤ i
        by_cases hc : i < s.blocks.length ∧ own i = .live
        · rw [if_pos hc]
          constructor
          · intro e; cases e
          · intro e; omega
        · rw [if_neg hc]
          constructor
          · intro e
            have := (hlive i).mp e
            by_cases hi : i < s.blocks.length
            · exact absurd ⟨hi, e⟩ hc
            · omega
          · intro e; exact (hlive i).mpr (by omega)
      · refine others _ (Nat.le_refl _) (fun _ _ => rfl) ?_ ?_
        · intro u hu i
          show (if i < s.blocks.length ∧ own i = .live then Owner.det tid else own i) = .det u ↔ own i = .det u
          by_cases hc : i < s.blocks.length ∧ own i = .live
          · rw [if_pos hc]
            constructor
            · intro e; injection e with e; exact absurd e.symm hu
            · intro e; rw [hc.2] at e; cases e
          · rw [if_neg hc]
        · show COK _ _ tid (some (old, true))
          refine ⟨by show old < s.blocks.length; omega, lb, h1, ?_, h2⟩
          intro i
          show (if i < s.blocks.length ∧ own i = .live then Owner.det tid else own i) = .det tid ↔ _
          by_cases hc : i < s.blocks.length ∧ own i = .live
          · rw [if_pos hc]
            have := (hlive i).mp hc.2
            constructor
            · intro _
              refine ⟨this, ?_⟩
              by_cases hio : i < old
              · exact Or.inl hio
              · exact Or.inr ⟨rfl, by omega⟩
            · intro _; rfl
          · rw [if_neg hc]
            constructor
            · intro e; exact absurd e (hnone i)
            · intro ⟨e1, e2⟩
              exfalso; apply hc
              refine ⟨?_, (hlive i).mpr e1⟩
              rcases e2 with e2 | ⟨_, e2⟩ <;> omega
    | read blk hp =>
      have hgo : gownT s t tid own = fun i => if i = blk then .read else own i := by
        unfold gownT; rw [hp]
      rw [hgo]
      rw [hp] at hct
      obtain ⟨hlt, bt, hbt, hr, hseg⟩ := hct
      have hown_blk : own blk = .det tid := (hr blk).mpr ⟨hbt, Or.inr ⟨rfl, rfl⟩⟩
      refine ⟨hbase, ⟨lb, hlb, ?_, htn, hts⟩, ?_⟩
      · intro i
        show (if i = blk then Owner.read else own i) = .live ↔ lb ≤ i
        by_cases hi : i = blk
        · rw [if_pos hi]
          constructor
          · intro e; cases e
          · intro e; have := (hlive i).mpr e; rw [hi, hown_blk] at this; cases this
        · rw [if_neg hi]; exact hlive i
      · refine others _ (Nat.le_refl _) (fun _ _ => rfl) ?_ ?_
        · intro u hu i
          show (if i = blk then Owner.read else own i) = .det u ↔ own i = .det u
          by_cases hi : i = blk
          · rw [if_pos hi]
            constructor
            · intro e; cases e
            · intro e; rw [hi, hown_blk] at e; injection e with e; exact absurd e.symm hu
          · rw [if_neg hi]
        · show COK _ _ tid (some (blk, false))
          refine ⟨hlt, bt, hbt, ?_, hseg⟩
          intro i
          show (if i = blk then Owner.read else own i) = .det tid ↔ _
          by_cases hi : i = blk
          · rw [if_pos hi]
            constructor
            · intro e; cases e
            · intro ⟨_, e⟩
              rcases e with e | ⟨e, _⟩
              · omega
              · cases e
          · rw [if_neg hi, hr i]
            constructor
            · intro ⟨e1, e2⟩
              rcases e2 with e2 | ⟨_, e2⟩
              · exact ⟨e1, Or.inl e2⟩
              · exact absurd e2 hi
            · intro ⟨e1, e2⟩
              rcases e2 with e2 | ⟨e2, _⟩
              · exact ⟨e1, Or.inl e2⟩
              · cases e2
    | nextNone blk hp hn =>
      have hgo : gownT s t tid own = own := by unfold gownT; rw [hp]
      rw [hgo]
      rw [hp] at hct
      obtain ⟨hlt, bt, hbt, hr, hseg⟩ := hct
      refine ⟨hbase, ⟨lb, hlb, hlive, htn, hts⟩, ?_⟩
      refine others own (Nat.le_refl _) (fun _ _ => rfl) (fun _ _ _ => Iff.rfl) ?_
      have : claim (t.advance (.cleared t.acc)).pc = none := claim_startPC _
      rw [this]
      intro i hi
      have := (hr i).mp hi
      have hb : bt = blk := by
        by_cases e : bt = blk
        · exact e
        · have := hseg.2 blk (by omega) (Nat.le_refl _)
          rw [nextAt_getBlock hlt, hn] at this
          cases this
      obtain ⟨e1, e2⟩ := this
      rcases e2 with e2 | ⟨e2, _⟩
      · omega
      · cases e2
    | nextSome blk n hp hn =>
      have hgo : gownT s t tid own = own := by unfold gownT; rw [hp]
      rw [hgo]
      rw [hp] at hct
      obtain ⟨hlt, bt, hbt, hr, hseg⟩ := hct
      refine ⟨hbase, ⟨lb, hlb, hlive, htn, hts⟩, ?_⟩
      refine others own (Nat.le_refl _) (fun _ _ => rfl) (fun _ _ _ => Iff.rfl) ?_
      show COK _ _ tid (some (n, true))
      have hlt' : bt < blk := by
        by_cases e : bt = blk
        · subst e
          have := hseg.1
          rw [nextAt_getBlock hlt, hn] at this
          cases this
        · omega
      have hnn : n = blk - 1 := by
        have := hseg.2 blk hlt' (Nat.le_refl _)
        rw [nextAt_getBlock hlt, hn] at this
        injection this with this; injection this
      subst hnn
      refine ⟨by show blk - 1 < s.blocks.length; omega, bt, by have := hlt'; omega, ?_, hseg.1, fun i h1 h2 => hseg.2 i h1 (by omega)⟩
      intro i
      rw [hr i]
      constructor
      · intro ⟨e1, e2⟩
        rcases e2 with e2 | ⟨e2, _⟩
        · refine ⟨e1, ?_⟩
          by_cases hi : i < blk - 1
          · exact Or.inl hi
          · exact Or.inr ⟨rfl, by omega⟩
        · cases e2
      · intro ⟨e1, e2⟩
        refine ⟨e1, Or.inl ?_⟩
        rcases e2 with e2 | ⟨_, e2⟩ <;> omega

end MetricsVerif.Bucket

/-! ### accounting: what clears were handed ≤ cells of blocks marked `read` -/
namespace MetricsVerif.Bucket

/-- cells holding `v` in the blocks marked `read` (block `i` of the list has index `k + i`) -/
def rsum (v : Nat) (own : Nat → Owner) : List Block → Nat → Nat
  | [], _ => 0
  | b :: bs, k => (if own k = .read then cnt v b else 0) + rsum v own bs (k + 1)

theorem rsum_mono (v : Nat) (own own' : Nat → Owner) : ∀ (bs bs' : List Block) (k : Nat),
    (∀ (i : Nat) (b : Block), bs[i]? = some b → ∃ b', bs'[i]? = some b' ∧ (own (k + i) = .read → own' (k + i) = .read ∧ cnt v b ≤ cnt v b')) →
    rsum v own bs k ≤ rsum v own' bs' k := by
  intro bs
  induction bs with
  | nil => intro bs' k _; simp [rsum]
  | cons b bs ih =>
    intro bs' k h
    obtain ⟨b', hb', h0⟩ := h 0 b rfl
    cases bs' with
    | nil => simp at hb'
    | cons x xs =>
      simp only [List.getElem?_cons_zero, Option.some.injEq] at hb'
      subst hb'
      have hrest := ih xs (k + 1) (by
        intro i c hc
        obtain ⟨c', hc', h1⟩ := h (i + 1) c (by simpa using hc)
        refine ⟨c', by simpa using hc', ?_⟩
        have e : k + (i + 1) = k + 1 + i := by omega
        rw [e] at h1; exact h1)
      simp only [rsum]
      by_cases hr : own k = .read
      · obtain ⟨h1, h2⟩ := h0 hr
        simp only [Nat.add_zero] at h1
        simp only [hr, h1, if_true]; omega
      · simp only [hr, if_false]; omega

theorem rsum_gain (v : Nat) (own own' : Nat → Owner) (hmono : ∀ j, own j = .read → own' j = .read) :
    ∀ (bs : List Block) (k i : Nat) (b : Block), bs[i]? = some b → own (k + i) ≠ .read → own' (k + i) = .read →
      rsum v own bs k + cnt v b ≤ rsum v own' bs k := by
  intro bs
  induction bs with
  | nil => intro k i b hb; simp at hb
  | cons x xs ih =>
    intro k i b hb h1 h2
    have hrest : rsum v own xs (k + 1) ≤ rsum v own' xs (k + 1) :=
      rsum_mono v own own' xs xs (k + 1) (fun j c hc => ⟨c, hc, fun hr => ⟨hmono _ hr, Nat.le_refl _⟩⟩)
    cases i with
    | zero =>
      simp only [List.getElem?_cons_zero, Option.some.injEq] at hb
      subst hb
      simp only [Nat.add_zero] at h1 h2
      simp only [rsum, h1, h2, if_true, if_false]; omega
    | succ n =>
      simp only [List.getElem?_cons_succ] at hb
      have e : k + (n + 1) = k + 1 + n := by omega
      rw [e] at h1 h2
      have := ih (k + 1) n b hb h1 h2
      simp only [rsum]
      by_cases hr : own k = .read
      · simp only [hr, hmono k hr, if_true]; omega
      · simp only [hr, if_false]; omega

theorem rsum_le_csum (v : Nat) (own : Nat → Owner) : ∀ (bs : List Block) (k : Nat), rsum v own bs k ≤ csum v bs := by
  intro bs
  induction bs with
  | nil => intro k; simp [rsum, csum]
  | cons b bs ih =>
    intro k
    have := ih (k + 1)
    simp only [rsum, csum, List.map_cons, List.sum_cons] at this ⊢
    split <;> omega

theorem count_data_le (v : Nat) (b : Block) : b.data.count v ≤ cnt v b := by
  unfold Block.data cnt
  exact ((List.takeWhile_sublist _).map _).count_le _

/-- pcs at which a thread is walking a chain and may hold collected values -/
def walk : PC → Bool
  | .dQuiesced _ | .dWait _ | .dRead _ | .dNext _ | .cQuiesced _ | .cWait _ | .cRead _ | .cNext _ => true
  | _ => false

def AccNil (t : Thread) : Prop := walk t.pc = false → t.acc = []

theorem AccNil_advance (t : Thread) (r : Res) : AccNil (t.advance r) := fun _ => rfl

theorem accnil_step (s : Sys) (t : Thread) (h : AccNil t) : AccNil (stepThread s t).2 := by
  unfold stepThread
  cases hp : t.pc with
  | start => exact fun _ => h (by rw [hp]; rfl)
  | done => exact h
  | pLoadTail => simp only; split <;> exact fun _ => h (by rw [hp]; rfl)
  | pCasFirst => simp only; split <;> exact fun _ => h (by rw [hp]; rfl)
  | pClaim blk r =>
    simp only
    split
    · exact fun _ => h (by rw [hp]; rfl)
    · split <;> exact fun _ => h (by rw [hp]; rfl)
  | pPublish blk idx => exact AccNil_advance _ _
  | pCasNew old => simp only; split <;> exact fun _ => h (by rw [hp]; rfl)
  | dLoadTail =>
    simp only
    split
    · exact AccNil_advance _ _
    · exact fun hw => by simp [walk] at hw
  | dQuiesced blk => simp only; exact fun hw => by split at hw <;> simp [walk] at hw
  | dWait blk => simp only; exact fun hw => by split at hw <;> simp [walk] at hw
  | dRead blk => exact fun hw => by simp [walk] at hw
  | dNext blk =>
    simp only
    split
    · exact AccNil_advance _ _
    · exact fun hw => by simp [walk] at hw
  | cLoadTail =>
    simp only
    split
    · exact AccNil_advance _ _
    · exact fun _ => h (by rw [hp]; rfl)
  | cCas old =>
    simp only
    split
    · exact fun hw => by simp [walk] at hw
    · exact fun _ => h (by rw [hp]; rfl)
  | cQuiesced blk => simp only; exact fun hw => by split at hw <;> simp [walk] at hw
  | cWait blk => simp only; exact fun hw => by split at hw <;> simp [walk] at hw
  | cRead blk => exact fun hw => by simp [walk] at hw
  | cNext blk =>
    simp only
    split
    · exact AccNil_advance _ _
    · exact fun hw => by simp [walk] at hw
  | eLoadTail =>
    simp only
    split
    · exact AccNil_advance _ _
    · exact fun _ => h (by rw [hp]; rfl)
  | eLen blk => exact AccNil_advance _ _

def Dsum (v : Nat) (s : Sys) : Nat := (s.threads.map (fun t => (dl t).count v)).sum

structure GAcc (s : Sys) (own : Nat → Owner) : Prop where
  accnil : ∀ (i : Nat) (t : Thread), s.threads[i]? = some t → AccNil t
  le : ∀ v, Dsum v s ≤ rsum v own s.blocks 0

theorem gstep_acc (s : Sys) (own : Nat → Owner) (tid : Nat) (h : GInv s own) (ha : GAcc s own) :
    GAcc (step s tid) (gown s own tid) := by
  cases hg : s.threads[tid]? with
  | none =>
    have e1 : step s tid = s := by unfold step; rw [hg]
    have e2 : gown s own tid = own := by unfold gown; rw [hg]
    rw [e1, e2]; exact ha
  | some t =>
    have e2 : gown s own tid = gownT s t tid own := by unfold gown; rw [hg]
    have hstep := step_eq s tid t hg
    have han := accnil_step s t (ha.accnil tid t hg)
    rw [hstep, e2]
    have eff := stepThread_geff s t
    generalize (stepThread s t).1.blocks = bs' at eff ⊢
    generalize (stepThread s t).1.tail = tl' at eff ⊢
    generalize (stepThread s t).2 = t' at eff han ⊢
    refine ⟨?_, ?_⟩
    · intro i u hu
      rcases threads_after hg i u hu with ⟨_, rfl⟩ | ⟨_, hu'⟩
      · exact han
      · exact ha.accnil i u hu'
    · intro v
      have hle := ha.le v
      have hD := sum_map_setAt (fun t => (dl t).count v) s.threads tid t' t hg
      show ((setAt s.threads tid t').map (fun t => (dl t).count v)).sum ≤ _
      simp only [Dsum] at hle
      have hct := h.clr tid t hg
      have hanT := ha.accnil tid t hg
      cases eff with
      | quiet bs' t' hsim hcl hgo hdl =>
        rw [hgo]
        have := rsum_mono v own own s.blocks bs' 0 (fun i b hb => by
          obtain ⟨b', hb', hc⟩ := hsim.2.2 i b hb
          exact ⟨b', hb', fun hr => ⟨hr, hc v⟩⟩)
        have := hdl v
        simp only at hD ⊢
        omega
      | append nb t' hcells hc0 hc1 hgo hdl hnb =>
        rw [hgo]
        have := rsum_mono v own own s.blocks (s.blocks ++ [nb]) 0 (fun i b hb => by
          refine ⟨b, ?_, fun hr => ⟨hr, Nat.le_refl _⟩⟩
          rw [List.getElem?_append_left (lt_of_getElem?_some hb)]; exact hb)
        have := hdl v
        simp only at hD ⊢
        omega
      | detach old hp ht =>
        have hgo : gownT s t tid own = fun i => if i < s.blocks.length ∧ own i = .live then .det tid else own i := by
          unfold gownT; rw [hp]; simp only [ht, if_true]
        rw [hgo]
        have := rsum_mono v own (fun i => if i < s.blocks.length ∧ own i = .live then .det tid else own i) s.blocks s.blocks 0
          (fun i b hb => ⟨b, hb, fun hr => ⟨by
            show (if 0 + i < s.blocks.length ∧ own (0 + i) = .live then Owner.det tid else own (0 + i)) = .read
            rw [if_neg (by rw [hr]; intro c; cases c.2)]; exact hr, Nat.le_refl _⟩⟩)
        have hacc : t.acc = [] := hanT (by rw [hp]; rfl)
        have e : (dl { t with pc := PC.cQuiesced old }).count v = (dl t).count v := by
          simp [dl, hp, claim, hacc]
        simp only at hD ⊢
        omega
      | read blk hp =>
        have hgo : gownT s t tid own = fun i => if i = blk then .read else own i := by
          unfold gownT; rw [hp]
        rw [hgo]
        rw [hp] at hct
        obtain ⟨hlt, bt, hbt, hr, hseg⟩ := hct
        have hown_blk : own blk = .det tid := (hr blk).mpr ⟨hbt, Or.inr ⟨rfl, rfl⟩⟩
        have hb : s.blocks[blk]? = some s.blocks[blk] := List.getElem?_eq_getElem hlt
        have := rsum_gain v own (fun i => if i = blk then .read else own i)
          (fun j hj => by
            show (if j = blk then Owner.read else own j) = .read
            by_cases hjb : j = blk
            · rw [if_pos hjb]
            · rw [if_neg hjb]; exact hj)
          s.blocks 0 blk _ hb (by rw [Nat.zero_add, hown_blk]; intro c; cases c)
          (by show (if 0 + blk = blk then Owner.read else own (0 + blk)) = .read; rw [if_pos (Nat.zero_add _)])
        have hd := count_data_le v s.blocks[blk]
        have e : (dl { t with acc := t.acc ++ (getBlock s blk).data, pc := PC.cNext blk }).count v
            = (dl t).count v + (s.blocks[blk]).data.count v := by
          rw [getBlock_eq hb]
          simp [dl, hp, claim, List.count_append]; omega
        simp only at hD ⊢
        omega
      | nextNone blk hp hn =>
        have hgo : gownT s t tid own = own := by unfold gownT; rw [hp]
        rw [hgo]
        have e : (dl (t.advance (.cleared t.acc))).count v = (dl t).count v := by
          rw [dl_advance]; simp [dl, hp, claim, clearedVals, List.count_append]
        simp only at hD ⊢
        omega
      | nextSome blk n hp hn =>
        have hgo : gownT s t tid own = own := by unfold gownT; rw [hp]
        rw [hgo]
        have e : (dl { t with pc := PC.cQuiesced n }).count v = (dl t).count v := by
          simp [dl, hp, claim]
        simp only at hD ⊢
        omega

end MetricsVerif.Bucket

/-! ### every reachable state -/
namespace MetricsVerif.Bucket

theorem init_ginv (B : Nat) (progs : List (List Call)) : GInv (init B progs) own0 := by
  refine ⟨init_ainv2 B progs, ⟨0, Nat.zero_le _, fun i => ⟨fun _ => Nat.zero_le _, fun _ => rfl⟩, fun _ => rfl,
    by intro b hb; cases hb⟩, ?_⟩
  intro tid t ht
  have hm : t ∈ (init B progs).threads := List.mem_of_getElem? ht
  simp only [init, List.mem_map] at hm
  obtain ⟨p, _, rfl⟩ := hm
  intro i hi; cases hi

theorem init_gacc (B : Nat) (progs : List (List Call)) : GAcc (init B progs) own0 := by
  refine ⟨?_, ?_⟩
  · intro i t ht
    have hm : t ∈ (init B progs).threads := List.mem_of_getElem? ht
    simp only [init, List.mem_map] at hm
    obtain ⟨p, _, rfl⟩ := hm
    intro _; rfl
  · intro v
    have : ∀ l : List (List Call), ((l.map mkThread).map (fun t => (dl t).count v)).sum = 0 := by
      intro l; induction l with
      | nil => rfl
      | cons x xs ih => simp only [List.map_cons, List.sum_cons, ih]; simp [dl, mkThread, claim]
    simp only [Dsum, init, this]; exact Nat.zero_le _

theorem grun_inv (sched : List Nat) : ∀ s own, GInv s own → GAcc s own →
    GInv (grun s own sched).1 (grun s own sched).2 ∧ GAcc (grun s own sched).1 (grun s own sched).2 := by
  induction sched with
  | nil => intro s own h ha; exact ⟨h, ha⟩
  | cons t ts ih =>
    intro s own h ha
    simp only [grun]
    exact ih _ _ (gstep_inv s own t h) (gstep_acc s own t h ha)

theorem delivered_count_le_Dsum (s : Sys) (v : Nat) : (delivered s).count v ≤ Dsum v s := by
  have hd : delivered s = s.threads.flatMap (fun t => t.results.flatMap clearedVals) := by
    unfold delivered
    congr 1
  rw [hd]
  unfold Dsum
  induction s.threads with
  | nil => simp
  | cons t ts ih =>
    simp only [List.flatMap_cons, List.count_append, List.map_cons, List.sum_cons]
    have : (t.results.flatMap clearedVals).count v ≤ (dl t).count v := by
      simp [dl, List.count_append]
    omega

/-- whatever the clears of a run have delivered so far never exceeds, value by value, the claimed cells -/
theorem delivered_le_cells (B : Nat) (progs : List (List Call)) (sched : List Nat) (v : Nat) :
    (delivered (run (init B progs) sched)).count v ≤ cellsCount v (run (init B progs) sched) := by
  obtain ⟨_, ha⟩ := grun_inv sched _ _ (init_ginv B progs) (init_gacc B progs)
  rw [grun_fst] at ha
  have h1 := delivered_count_le_Dsum (run (init B progs) sched) v
  have h2 := ha.le v
  have h3 := rsum_le_csum v (grun (init B progs) own0 sched).2 (run (init B progs) sched).blocks 0
  rw [cellsCount_eq]
  omega

end MetricsVerif.Bucket

/-! ### delivered values and still-visible values are disjoint parts of the claimed cells -/
namespace MetricsVerif.Bucket

/-- cells holding `v` in the blocks marked `live` -/
def lsum (v : Nat) (own : Nat → Owner) : List Block → Nat → Nat
  | [], _ => 0
  | b :: bs, k => (if own k = .live then cnt v b else 0) + lsum v own bs (k + 1)

theorem rsum_add_lsum_le_csum (v : Nat) (own : Nat → Owner) : ∀ (bs : List Block) (k : Nat),
    rsum v own bs k + lsum v own bs k ≤ csum v bs := by
  intro bs
  induction bs with
  | nil => intro k; simp [rsum, lsum, csum]
  | cons b bs ih =>
    intro k
    have := ih (k + 1)
    simp only [rsum, lsum, csum, List.map_cons, List.sum_cons] at this ⊢
    have nrl : ¬ (Owner.read = Owner.live) := by intro c; cases c
    have nlr : ¬ (Owner.live = Owner.read) := by intro c; cases c
    by_cases h1 : own k = .read
    · rw [h1, if_pos rfl, if_neg nrl]; omega
    · by_cases h2 : own k = .live
      · rw [h2, if_pos rfl, if_neg nlr]; omega
      · rw [if_neg h1, if_neg h2]; omega

theorem lsum_append_one (v : Nat) (own : Nat → Owner) (b : Block) : ∀ (bs : List Block) (k : Nat),
    lsum v own (bs ++ [b]) k = lsum v own bs k + (if own (k + bs.length) = .live then cnt v b else 0) := by
  intro bs
  induction bs with
  | nil => intro k; simp [lsum]
  | cons x xs ih =>
    intro k
    simp only [List.cons_append, lsum, ih (k + 1), List.length_cons]
    have : k + 1 + xs.length = k + (xs.length + 1) := by omega
    rw [this]; omega

theorem lsum_take_succ (v : Nat) (own : Nat → Owner) (bs : List Block) (j : Nat) (b : Block) (hb : bs[j]? = some b) :
    lsum v own (bs.take (j + 1)) 0 = lsum v own (bs.take j) 0 + (if own j = .live then cnt v b else 0) := by
  have hlt := lt_of_getElem?_some hb
  rw [List.take_add_one, hb]
  show lsum v own (bs.take j ++ [b]) 0 = _
  rw [lsum_append_one]
  simp [List.length_take, Nat.min_eq_left (Nat.le_of_lt hlt)]

/-- walking the chain down from block `lo + n`, all of whose blocks are live, hands out no more than the live cells
    below `lo + n + 1` -/
theorem chain_le_lsum (s : Sys) (own : Nat → Owner) (v : Nat) (lo : Nat) : ∀ (n fuel : Nat),
    lo + n < s.blocks.length → Seg s.blocks lo (lo + n) → (∀ i, lo ≤ i → i ≤ lo + n → own i = .live) →
    (chainData s fuel (some (lo + n))).count v ≤ lsum v own (s.blocks.take (lo + n + 1)) 0 := by
  intro n
  induction n with
  | zero =>
    intro fuel hlt hseg hl
    have hlt0 : lo < s.blocks.length := hlt
    have hb : s.blocks[lo]? = some s.blocks[lo] := List.getElem?_eq_getElem hlt0
    have hnx : (s.blocks[lo]).next = none := by
      have := hseg.1; rw [nextAt_getBlock hlt0, getBlock_eq hb] at this; injection this
    rw [Nat.add_zero, lsum_take_succ v own s.blocks lo _ hb, if_pos (hl lo (Nat.le_refl _) (by omega))]
    cases fuel with
    | zero => simp [chainData]
    | succ f =>
      have hd := count_data_le v s.blocks[lo]
      have : chainData s f none = [] := by cases f <;> rfl
      simp only [chainData, getBlock_eq hb, hnx, this, List.count_append, List.count_nil]
      omega
  | succ n ih =>
    intro fuel hlt hseg hl
    have hlt' : lo + (n + 1) < s.blocks.length := hlt
    have hb : s.blocks[lo + (n + 1)]? = some s.blocks[lo + (n + 1)] := List.getElem?_eq_getElem hlt'
    have hnx : (s.blocks[lo + (n + 1)]).next = some (lo + n) := by
      have := hseg.2 (lo + (n + 1)) (by omega) (Nat.le_refl _)
      rw [nextAt_getBlock hlt', getBlock_eq hb] at this
      injection this
    rw [lsum_take_succ v own s.blocks (lo + (n + 1)) _ hb, if_pos (hl _ (by omega) (Nat.le_refl _))]
    cases fuel with
    | zero => simp [chainData]
    | succ f =>
      have hd := count_data_le v s.blocks[lo + (n + 1)]
      have hrec := ih f (by omega) ⟨hseg.1, fun i h1 h2 => hseg.2 i h1 (by omega)⟩ (fun i h1 h2 => hl i h1 (by omega))
      simp only [chainData, getBlock_eq hb, hnx, List.count_append]
      have e : lo + n + 1 = lo + (n + 1) := by omega
      rw [e] at hrec
      omega

/-- at every moment the values already delivered to clears and the values a snapshot could still see are disjoint
    parts of the claimed cells -/
theorem delivered_visible_le_cells (B : Nat) (progs : List (List Call)) (sched : List Nat) (v : Nat) :
    (delivered (run (init B progs) sched)).count v + (visible (run (init B progs) sched)).count v
      ≤ cellsCount v (run (init B progs) sched) := by
  obtain ⟨hg, ha⟩ := grun_inv sched _ _ (init_ginv B progs) (init_gacc B progs)
  rw [grun_fst] at hg ha
  generalize (grun (init B progs) own0 sched).2 = own at hg ha
  generalize run (init B progs) sched = s at hg ha ⊢
  have h1 := delivered_count_le_Dsum s v
  have h2 := ha.le v
  have h3 := rsum_add_lsum_le_csum v own s.blocks 0
  rw [cellsCount_eq]
  suffices (visible s).count v ≤ lsum v own s.blocks 0 by omega
  obtain ⟨lb, hlb, hlive, htn, hts⟩ := hg.live
  unfold visible
  cases ht : s.tail with
  | none =>
    have : chainData s s.blocks.length none = [] := by cases s.blocks.length <;> rfl
    rw [this]; simp
  | some b =>
    obtain ⟨h4, hseg⟩ := hts b ht
    have hbl := hg.base.inv.tail_valid b ht
    obtain ⟨n, rfl⟩ : ∃ n, b = lb + n := ⟨b - lb, by omega⟩
    have := chain_le_lsum s own v lb n s.blocks.length (by omega) hseg (fun i h _ => (hlive i).mpr h)
    rw [hbl, List.take_length] at this
    exact this

end MetricsVerif.Bucket
