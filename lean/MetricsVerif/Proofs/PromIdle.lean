/-
Helper lemmas for the exporter side of C12 (model: `Model/PromIdle.lean`): the exporter's loops act on the
registry / `Recency` part of the state exactly as the loops of `Model/Recency.lean`, and the histogram loop
only ever removes distributions.
-/
import MetricsVerif.Model.PromIdle
import MetricsVerif.Proofs.Recency

namespace MetricsVerif.PromIdle
open MetricsVerif.Recency

theorem foldl_drainOne_base (parts : Key → DKey) (l : List (Id × Metric)) (ps : PSt) :
    (l.foldl (drainOne parts) ps).base = ps.base := by
  induction l generalizing ps with
  | nil => rfl
  | cons e es ih => simp only [List.foldl_cons]; rw [ih]; rfl

/-- draining touches neither the registry nor `Recency` -/
theorem drain_base (parts : Key → DKey) (ps : PSt) : (drain parts ps).base = ps.base :=
  foldl_drainOne_base ..

theorem visitH_base (parts : Key → DKey) (ps : PSt) (e : Id × Metric) :
    (visitH parts ps e).base = visit ps.base e := by
  unfold visitH visit
  split <;> rfl

theorem foldl_visitH_base (parts : Key → DKey) (l : List (Id × Metric)) (ps : PSt) :
    (l.foldl (visitH parts) ps).base = l.foldl visit ps.base := by
  induction l generalizing ps with
  | nil => rfl
  | cons e es ih => simp only [List.foldl_cons]; rw [ih, visitH_base]

/-- a render acts on registry and `Recency` as one observation of the `Recency` model -/
theorem render_base (parts : Key → DKey) (ps : PSt) : (render parts ps).base = observe ps.base := by
  unfold render
  rw [foldl_visitH_base, drain_base]
  rfl

theorem recordN_base (ps : PSt) (key : Key) (v : Int) (n : Nat) :
    (recordN ps key v n).base = run ps.base (List.replicate n (.upd .histogram key (.record v))) := by
  induction n with
  | zero => rfl
  | succ n ih =>
    have h : (recordN ps key v (n + 1)).base
        = step (recordN ps key v n).base (.upd .histogram key (.record v)) := rfl
    rw [h, ih, List.replicate_succ', run_append]
    rfl

theorem updStep_base (ps : PSt) (k : Kind) (key : Key) (u : Upd) :
    (updStep ps k key u).base = step ps.base (.upd k key u) := by
  unfold updStep
  split <;> rfl

theorem pstep_base (parts : Key → DKey) (ps : PSt) (op : POp) :
    (pstep parts ps op).base = run ps.base op.toOps := by
  cases op with
  | reg k key => rfl
  | upd k key u => exact updStep_base ps k key u
  | recMany key v n =>
    show (recordN _ key v n).base = _
    rw [recordN_base]
    rfl
  | adv n => rfl
  | upkeep => exact drain_base parts ps
  | render => exact render_base parts ps

theorem prun_base (parts : Key → DKey) (ps : PSt) (ops : List POp) :
    (prun parts ps ops).base = run ps.base (ops.flatMap POp.toOps) := by
  induction ops generalizing ps with
  | nil => rfl
  | cons op rest ih =>
    show (prun parts (pstep parts ps op) rest).base = _
    rw [ih, pstep_base, List.flatMap_cons, run_append]

/-! ### the histogram loop only removes distributions -/

theorem visitH_dists_none (parts : Key → DKey) (ps : PSt) (e : Id × Metric) (d : DKey)
    (h : lookup ps.dists d = none) : lookup (visitH parts ps e).dists d = none := by
  unfold visitH
  split
  · exact h
  · show lookup (erase ps.dists (parts e.1.2)) d = none
    rw [lookup_erase]
    split
    · rfl
    · exact h

theorem foldl_visitH_dists_none (parts : Key → DKey) (l : List (Id × Metric)) (ps : PSt) (d : DKey)
    (h : lookup ps.dists d = none) : lookup (l.foldl (visitH parts) ps).dists d = none := by
  induction l generalizing ps with
  | nil => exact h
  | cons e es ih => exact ih _ (visitH_dists_none parts ps e d h)

/-- the iteration that removes a metric from the registry removes the distribution found under its parts -/
theorem visitH_drop (parts : Key → DKey) (ps : PSt) (e : Id × Metric) (i : Id)
    (hs : (lookup ps.base.metrics i).isSome = true)
    (hn : lookup (visitH parts ps e).base.metrics i = none) :
    lookup (visitH parts ps e).dists (parts i.2) = none := by
  obtain ⟨⟨k, key⟩, m⟩ := e
  rw [visitH_base] at hn
  unfold visit at hn
  unfold visitH
  rcases shouldStore_cases ps.base k key m.gen with h | ⟨_, _, _, _, _, _, _, h⟩ | h
  · simp only [h] at hn
    rw [hn] at hs; cases hs
  · simp only [h] at hn ⊢
    rw [lookup_erase] at hn
    by_cases e : i = (k, key)
    · subst e
      simp [lookup_erase]
    · simp only [e, if_false] at hn
      rw [hn] at hs; cases hs
  · simp only [h] at hn
    rw [hn] at hs; cases hs

theorem foldl_visitH_drop (parts : Key → DKey) (l : List (Id × Metric)) (ps : PSt) (i : Id)
    (hs : (lookup ps.base.metrics i).isSome = true)
    (hn : lookup (l.foldl (visitH parts) ps).base.metrics i = none) :
    lookup (l.foldl (visitH parts) ps).dists (parts i.2) = none := by
  induction l generalizing ps with
  | nil =>
    simp only [List.foldl_nil] at hn
    rw [hn] at hs; cases hs
  | cons e es ih =>
    simp only [List.foldl_cons] at hn ⊢
    cases hmid : lookup (visitH parts ps e).base.metrics i with
    | some m => exact ih _ (by rw [hmid]; rfl) hn
    | none => exact foldl_visitH_dists_none parts es _ _ (visitH_drop parts ps e i hs hmid)

end MetricsVerif.PromIdle
