import MetricsVerif.Model.IdleRace
import MetricsVerif.Proofs.ListAt
/-
Invariants of the idle-race step machine (Model/IdleRace).

`Inv` holds in EVERY interleaving.  Its core is `P`: if `Recency`'s entry carries the current generation of the
registered cell and no updater is between its value write and its bump on that cell, then every update written to
the cell has been shown.  On schedules in which no update step lies inside a read→delete window (`windowFree`) the
observer's deletion finds exactly that situation, so nothing is lost (`run_lossless`).
-/
namespace MetricsVerif.IdleRace

def noMidOn (s : Sys) (c : Nat) : Prop := ∀ u ∈ s.upds, u.pc = .applied → u.h ≠ c

/-- the part of the invariant that does not mention the updater threads -/
structure InvA (s : Sys) : Prop where
  R : s.obs.pc ≠ .idle → s.reg = some s.obs.c
  Q : s.reg = none → s.entry = none
  L : ∀ c lg lt, s.reg = some c → s.entry = some (lg, lt) → lg ≤ s.gen c
  G : s.obs.pc ≠ .idle → s.obs.g ≤ s.gen s.obs.c
  D : s.obs.pc = .deleting → doomed s = true

def InvP (s : Sys) : Prop :=
  ∀ c lg lt, s.reg = some c → s.entry = some (lg, lt) → lg = s.gen c → noMidOn s c → s.unshown c = 0

structure Inv (s : Sys) : Prop where
  A : InvA s
  P : InvP s

theorem mem_or_mem_setAt {α : Type} {l : List α} {i : Nat} {a u x : α} (hg : l[i]? = some u) (hx : x ∈ l) :
    x = u ∨ x ∈ setAt l i a := by
  induction l generalizing i with
  | nil => cases hx
  | cons y ys ih =>
    cases i with
    | zero =>
      simp only [List.getElem?_cons_zero, Option.some.injEq] at hg
      simp only [List.mem_cons] at hx
      rcases hx with hx | hx
      · exact Or.inl (hx.trans hg)
      · exact Or.inr (by simp [setAt, hx])
    | succ n =>
      simp only [List.getElem?_cons_succ] at hg
      simp only [List.mem_cons] at hx
      rcases hx with hx | hx
      · exact Or.inr (by simp [setAt, hx])
      · rcases ih hg hx with h | h
        · exact Or.inl h
        · exact Or.inr (by simp [setAt, h])

/-! ### the updater-independent part under the primitive state changes -/

theorem doomed_congr (s s' : Sys) (h1 : s'.timeout = s.timeout) (h2 : s'.covered = s.covered) (h3 : s'.entry = s.entry)
    (h4 : s'.obs.g = s.obs.g) (h5 : s'.now = s.now) : doomed s' = doomed s := by
  unfold doomed; rw [h1, h2, h3, h4, h5]

theorem invA_congr (s s' : Sys) (h : InvA s) (hreg : s'.reg = s.reg) (hentry : s'.entry = s.entry)
    (hgen : ∀ c, s.gen c ≤ s'.gen c) (hobs : s'.obs = s.obs) (h1 : s'.timeout = s.timeout)
    (h2 : s'.covered = s.covered) (h5 : s'.now = s.now) : InvA s' := by
  refine ⟨?_, ?_, ?_, ?_, ?_⟩
  · rw [hobs, hreg]; exact h.R
  · rw [hreg, hentry]; exact h.Q
  · intro c lg lt hr he
    rw [hreg] at hr; rw [hentry] at he
    exact Nat.le_trans (h.L c lg lt hr he) (hgen c)
  · rw [hobs]; intro hp; exact Nat.le_trans (h.G hp) (hgen _)
  · rw [hobs]; intro hp
    rw [doomed_congr s s' h1 h2 hentry (by rw [hobs]) h5]; exact h.D hp

theorem invA_write (s : Sys) (c : Nat) (h : InvA s) : InvA (write s c) :=
  invA_congr s (write s c) h rfl rfl (fun _ => Nat.le_refl _) rfl rfl rfl rfl

theorem invA_bump (s : Sys) (c : Nat) (h : InvA s) : InvA (bump s c) := by
  refine invA_congr s (bump s c) h rfl rfl ?_ rfl rfl rfl rfl
  intro i; simp only [bump]; split <;> omega

theorem invA_upds (s : Sys) (l : List Upd) (h : InvA s) : InvA { s with upds := l } :=
  invA_congr s _ h rfl rfl (fun _ => Nat.le_refl _) rfl rfl rfl rfl

theorem invA_create (s : Sys) (h : InvA s) (hr : s.reg = none) : InvA (create s) := by
  have hidle : s.obs.pc = .idle := by
    cases hp : s.obs.pc with
    | idle => rfl
    | genRead => have := h.R (by rw [hp]; exact fun h => nomatch h); rw [hr] at this; cases this
    | deleting => have := h.R (by rw [hp]; exact fun h => nomatch h); rw [hr] at this; cases this
  have he : s.entry = none := h.Q hr
  refine ⟨?_, ?_, ?_, ?_, ?_⟩
  · intro hp; exact absurd hidle hp
  · intro hc; simp [create] at hc
  · intro c lg lt _ hent; simp only [create] at hent; rw [he] at hent; cases hent
  · intro hp; exact absurd hidle hp
  · intro hp; simp only [create] at hp; rw [hidle] at hp; cases hp

/-! ### the part about the updaters -/

/-- an updater that was not mid-update takes a step that leaves registry, entry and generations alone and writes at
    most to the cell it is now mid-update on -/
theorem invP_from_nonmid (s s' : Sys) (tid : Nat) (u u' : Upd) (hg : s.upds[tid]? = some u) (hpc : u.pc ≠ .applied)
    (hreg : s'.reg = s.reg) (hentry : s'.entry = s.entry) (hgen : s'.gen = s.gen) (hupds : s'.upds = s.upds)
    (hun : ∀ c, s'.unshown c = s.unshown c ∨ (u'.pc = .applied ∧ u'.h = c))
    (hP : InvP s) : InvP { s' with upds := setAt s'.upds tid u' } := by
  intro c lg lt hr he hl hn
  simp only at hr he hl
  rw [hreg] at hr; rw [hentry] at he; rw [hgen] at hl
  rcases hun c with h | ⟨h1, h2⟩
  · simp only; rw [h]
    apply hP c lg lt hr he hl
    intro x hx hxp
    rcases mem_or_mem_setAt (a := u') hg hx with rfl | hx'
    · exact absurd hxp hpc
    · exact hn x (by simp only; rw [hupds]; exact hx') hxp
  · exfalso
    exact hn u' (by simp only; rw [hupds]; exact mem_setAt_self hg) h1 h2

/-- the step of an updater from `gen.applied`: the generation of its cell is bumped; afterwards it is done, about to
    look the key up again, or (kept handle) mid-update on the same cell again -/
theorem invP_from_mid (s s' : Sys) (tid : Nat) (u u' : Upd) (hg : s.upds[tid]? = some u) (hh : u'.h = u.h)
    (hreg : s'.reg = s.reg) (hentry : s'.entry = s.entry)
    (hgen : ∀ c, s'.gen c = if c = u.h then s.gen c + 1 else s.gen c) (hupds : s'.upds = s.upds)
    (hun : ∀ c, s'.unshown c = s.unshown c ∨ (u'.pc = .applied ∧ u'.h = c))
    (hA : InvA s) (hP : InvP s) : InvP { s' with upds := setAt s'.upds tid u' } := by
  intro c lg lt hr he hl hn
  simp only at hr he hl
  rw [hreg] at hr; rw [hentry] at he; rw [hgen c] at hl
  by_cases hc : c = u.h
  · rw [if_pos hc] at hl
    have := hA.L c lg lt hr he
    omega
  · rw [if_neg hc] at hl
    rcases hun c with h | ⟨_, h2⟩
    · simp only; rw [h]
      apply hP c lg lt hr he hl
      intro x hx hxp
      rcases mem_or_mem_setAt (a := u') hg hx with rfl | hx'
      · exact fun e => hc e.symm
      · exact hn x (by simp only; rw [hupds]; exact hx') hxp
    · exact absurd (h2.symm.trans hh) hc

theorem invP_create (s : Sys) (s' : Sys) (l : List Upd) (hA : InvA s) (hr : s.reg = none)
    (hentry : s'.entry = s.entry) : InvP { s' with upds := l } := by
  intro c lg lt _ he
  simp only at he
  rw [hentry, hA.Q hr] at he; cases he

/-! ### one step preserves the invariant -/

theorem stepUpd_inv (s : Sys) (tid : Nat) (u : Upd) (hg : s.upds[tid]? = some u) (h : Inv s) :
    Inv { (stepUpd s u).1 with upds := setAt (stepUpd s u).1.upds tid (stepUpd s u).2 } := by
  unfold stepUpd
  cases hpc : u.pc with
  | start =>
    simp only
    unfold beginUpd
    by_cases ht : u.todo = 0
    · simp only [ht, if_true]
      exact ⟨invA_upds s _ h.A, invP_from_nonmid s s tid u _ hg (by rw [hpc]; exact fun h => nomatch h) rfl rfl rfl rfl
        (fun _ => Or.inl rfl) h.P⟩
    · simp only [ht, if_false]
      by_cases hf : u.fresh = true
      · simp only [hf, if_true]
        exact ⟨invA_upds s _ h.A, invP_from_nonmid s s tid u _ hg (by rw [hpc]; exact fun h => nomatch h) rfl rfl rfl rfl
          (fun _ => Or.inl rfl) h.P⟩
      · simp only [hf, if_false]
        refine ⟨invA_upds _ _ (invA_write s u.h h.A),
          invP_from_nonmid s (write s u.h) tid u _ hg (by rw [hpc]; exact fun h => nomatch h) rfl rfl rfl rfl ?_ h.P⟩
        intro c
        by_cases hc : c = u.h
        · exact Or.inr ⟨rfl, hc.symm⟩
        · exact Or.inl (by simp [write, hc])
  | gocRead =>
    simp only
    cases hr : s.reg with
    | none =>
      simp only
      exact ⟨invA_upds s _ h.A, invP_from_nonmid s s tid u _ hg (by rw [hpc]; exact fun h => nomatch h) rfl rfl rfl rfl
        (fun _ => Or.inl rfl) h.P⟩
    | some c0 =>
      simp only
      refine ⟨invA_upds _ _ (invA_write s c0 h.A),
        invP_from_nonmid s (write s c0) tid u _ hg (by rw [hpc]; exact fun h => nomatch h) rfl rfl rfl rfl ?_ h.P⟩
      intro c
      by_cases hc : c = c0
      · exact Or.inr ⟨rfl, hc.symm⟩
      · exact Or.inl (by simp [write, hc])
  | gocWrite =>
    simp only
    cases hr : s.reg with
    | none =>
      simp only
      exact ⟨invA_upds _ _ (invA_write _ _ (invA_create s h.A hr)),
        invP_create s (write (create s) s.nCells) _ h.A hr rfl⟩
    | some c0 =>
      simp only
      refine ⟨invA_upds _ _ (invA_write s c0 h.A),
        invP_from_nonmid s (write s c0) tid u _ hg (by rw [hpc]; exact fun h => nomatch h) rfl rfl rfl rfl ?_ h.P⟩
      intro c
      by_cases hc : c = c0
      · exact Or.inr ⟨rfl, hc.symm⟩
      · exact Or.inl (by simp [write, hc])
  | applied =>
    simp only
    unfold beginUpd
    by_cases ht : u.todo - 1 = 0
    · simp only [ht, if_true]
      exact ⟨invA_upds _ _ (invA_bump s u.h h.A),
        invP_from_mid s (bump s u.h) tid u _ hg rfl rfl rfl (fun _ => rfl) rfl (fun _ => Or.inl rfl) h.A h.P⟩
    · simp only [ht, if_false]
      by_cases hf : u.fresh = true
      · simp only [hf, if_true]
        exact ⟨invA_upds _ _ (invA_bump s u.h h.A),
          invP_from_mid s (bump s u.h) tid u _ hg rfl rfl rfl (fun _ => rfl) rfl (fun _ => Or.inl rfl) h.A h.P⟩
      · simp only [hf, if_false]
        refine ⟨invA_upds _ _ (invA_write _ _ (invA_bump s u.h h.A)),
          invP_from_mid s (write (bump s u.h) u.h) tid u _ hg rfl rfl rfl (fun _ => rfl) rfl ?_ h.A h.P⟩
        intro c
        by_cases hc : c = u.h
        · exact Or.inr ⟨rfl, hc.symm⟩
        · exact Or.inl (by simp [write, bump, hc])
  | done =>
    simp only
    rw [setAt_same' _ _ _ hg]
    exact h

theorem stepObs_inv (s : Sys) (h : Inv s) : Inv (stepObs s) := by
  unfold stepObs
  cases hpc : s.obs.pc with
  | idle =>
    simp only
    by_cases ht : s.obs.todo = 0
    · simp only [ht, if_true]; exact h
    · simp only [ht, if_false]
      cases hr : s.reg with
      | none =>
        simp only
        refine ⟨⟨?_, ?_, ?_, ?_, ?_⟩, ?_⟩
        · intro hp; exact absurd rfl hp
        · intro _; exact h.A.Q hr
        · intro c lg lt hc; simp only [finishObs] at hc; rw [hr] at hc; cases hc
        · intro hp; exact absurd rfl hp
        · intro hp; cases hp
        · intro c lg lt hc; simp only [finishObs] at hc; rw [hr] at hc; cases hc
      | some c0 =>
        simp only
        refine ⟨⟨?_, ?_, ?_, ?_, ?_⟩, ?_⟩
        · intro _; rfl
        · intro hc; cases hc
        · intro c lg lt hc he
          have hcc : c0 = c := Option.some.inj hc
          subst hcc
          exact h.A.L _ lg lt hr he
        · intro _; exact Nat.le_refl _
        · intro hp; cases hp
        · intro c lg lt hc he hl hn
          exact h.P c lg lt (hr.trans hc) he hl hn
  | genRead =>
    simp only
    have hR : s.reg = some s.obs.c := h.A.R (by rw [hpc]; exact fun h => nomatch h)
    have hG : s.obs.g ≤ s.gen s.obs.c := h.A.G (by rw [hpc]; exact fun h => nomatch h)
    by_cases hd : doomed s = true
    · simp only [hd, if_true]
      refine ⟨⟨?_, ?_, ?_, ?_, ?_⟩, ?_⟩
      · intro _; exact hR
      · exact h.A.Q
      · exact h.A.L
      · intro _; exact hG
      · intro _; rw [← hd]; exact doomed_congr s _ rfl rfl rfl rfl rfl
      · exact h.P
    · simp only [hd, Bool.false_eq_true, ↓reduceIte]
      refine ⟨⟨?_, ?_, ?_, ?_, ?_⟩, ?_⟩
      · intro hp; exact absurd rfl hp
      · intro hc; simp only [showValue, finishObs] at hc; rw [hR] at hc; cases hc
      · intro c lg lt hc he
        simp only [showValue, finishObs] at hc he ⊢
        rw [hR] at hc
        have hcc : s.obs.c = c := Option.some.inj hc
        subst hcc
        unfold refreshed at he
        cases hT : s.timeout with
        | none => rw [hT] at he; exact h.A.L _ lg lt hR he
        | some T =>
          rw [hT] at he
          simp only at he
          by_cases hcov : s.covered = true
          · simp only [hcov, if_true] at he
            cases hent : s.entry with
            | none => rw [hent] at he; simp only [Option.some.injEq, Prod.mk.injEq] at he; omega
            | some p =>
              obtain ⟨lg0, lt0⟩ := p
              rw [hent] at he
              simp only at he
              by_cases hlg : lg0 = s.obs.g
              · simp only [hlg, if_true, Option.some.injEq, Prod.mk.injEq] at he; omega
              · simp only [hlg, if_false, Option.some.injEq, Prod.mk.injEq] at he; omega
          · simp only [hcov, if_false] at he
            exact h.A.L _ lg lt hR he
      · intro hp; exact absurd rfl hp
      · intro hp; cases hp
      · intro c lg lt hc _ _ _
        simp only [showValue, finishObs] at hc ⊢
        rw [hR] at hc
        have hcc : s.obs.c = c := Option.some.inj hc
        simp [hcc]
  | deleting =>
    simp only
    cases hr : s.reg with
    | some c0 =>
      simp only
      refine ⟨⟨?_, ?_, ?_, ?_, ?_⟩, ?_⟩
      · intro hp; exact absurd rfl hp
      · intro _; rfl
      · intro c lg lt hc; cases hc
      · intro hp; exact absurd rfl hp
      · intro hp; cases hp
      · intro c lg lt hc; cases hc
    | none =>
      simp only
      refine ⟨⟨?_, ?_, ?_, ?_, ?_⟩, ?_⟩
      · intro hp; exact absurd rfl hp
      · intro _; exact h.A.Q hr
      · intro c lg lt hc; simp only [showValue, finishObs] at hc; rw [hr] at hc; cases hc
      · intro hp; exact absurd rfl hp
      · intro hp; cases hp
      · intro c lg lt hc; simp only [showValue, finishObs] at hc; rw [hr] at hc; cases hc

theorem step_inv (s : Sys) (tid : Nat) (h : Inv s) : Inv (step s tid) := by
  unfold step
  by_cases ht : tid < s.upds.length
  · simp only [ht, if_true]
    cases hg : s.upds[tid]? with
    | none => exact h
    | some u => exact stepUpd_inv s tid u hg h
  · simp only [ht, if_false]
    by_cases he : tid = s.upds.length
    · simp only [he, if_true]; exact stepObs_inv s h
    · simp only [he, if_false]; exact h

theorem run_inv (sched : List Nat) : ∀ s, Inv s → Inv (run s sched) := by
  induction sched with
  | nil => intro s h; exact h
  | cons t ts ih => intro s h; exact ih _ (step_inv s t h)

theorem init_inv (c : Cfg) : Inv (init c) := by
  refine ⟨⟨?_, ?_, ?_, ?_, ?_⟩, ?_⟩
  · intro hp; exact absurd rfl hp
  · intro hc; cases hc
  · intro c' lg lt _ he
    simp only [init] at he ⊢
    cases hT : c.timeout with
    | none => rw [hT] at he; cases he
    | some T =>
      rw [hT] at he
      simp only at he
      by_cases hcov : c.covered = true
      · simp only [hcov, if_true, Option.some.injEq, Prod.mk.injEq] at he; omega
      · simp only [hcov, if_false] at he; cases he
  · intro hp; exact absurd rfl hp
  · intro hp; cases hp
  · intro c' lg lt _ _ _ _; rfl

/-! ### schedules without an update step inside a read→delete window lose nothing -/

def allFresh (s : Sys) : Prop := ∀ u ∈ s.upds, u.fresh = true

/-- inside a window the generation the observer holds is still the cell's generation, and nobody is mid-update -/
def K (s : Sys) : Prop := inWindow s = true → (s.gen s.obs.c = s.obs.g ∧ anyMid s = false)

/-- the ghost counters did not move -/
structure Same (s s' : Sys) : Prop where
  lost : s'.lost = s.lost
  dirty : s'.dirtyDrops = s.dirtyDrops
  orphan : s'.orphanWrites = s.orphanWrites

theorem Same.rfl' (s : Sys) : Same s s := ⟨rfl, rfl, rfl⟩

theorem Same.trans {a b c : Sys} (h1 : Same a b) (h2 : Same b c) : Same a c :=
  ⟨h2.lost.trans h1.lost, h2.dirty.trans h1.dirty, h2.orphan.trans h1.orphan⟩

theorem inWindow_congr (s s' : Sys) (hobs : s'.obs = s.obs) (h1 : s'.timeout = s.timeout) (h2 : s'.covered = s.covered)
    (h3 : s'.entry = s.entry) (h5 : s'.now = s.now) : inWindow s' = inWindow s := by
  unfold inWindow
  rw [doomed_congr s s' h1 h2 h3 (by rw [hobs]) h5, hobs]

/-- what an updater step never touches -/
structure Frame (s s' : Sys) : Prop where
  obs : s'.obs = s.obs
  timeout : s'.timeout = s.timeout
  covered : s'.covered = s.covered
  entry : s'.entry = s.entry
  now : s'.now = s.now
  upds : s'.upds = s.upds

theorem frame_write (s : Sys) (c : Nat) : Frame s (write s c) := ⟨rfl, rfl, rfl, rfl, rfl, rfl⟩
theorem frame_bump (s : Sys) (c : Nat) : Frame s (bump s c) := ⟨rfl, rfl, rfl, rfl, rfl, rfl⟩
theorem frame_create (s : Sys) : Frame s (create s) := ⟨rfl, rfl, rfl, rfl, rfl, rfl⟩
theorem Frame.trans {a b c : Sys} (h1 : Frame a b) (h2 : Frame b c) : Frame a c :=
  ⟨h2.obs.trans h1.obs, h2.timeout.trans h1.timeout, h2.covered.trans h1.covered, h2.entry.trans h1.entry,
   h2.now.trans h1.now, h2.upds.trans h1.upds⟩

theorem stepUpd_frame (s : Sys) (u : Upd) : Frame s (stepUpd s u).1 ∧ (stepUpd s u).2.fresh = u.fresh := by
  unfold stepUpd
  cases u.pc with
  | start =>
    simp only; unfold beginUpd
    split
    · exact ⟨⟨rfl, rfl, rfl, rfl, rfl, rfl⟩, rfl⟩
    · split
      · exact ⟨⟨rfl, rfl, rfl, rfl, rfl, rfl⟩, rfl⟩
      · exact ⟨frame_write _ _, rfl⟩
  | gocRead =>
    simp only
    split
    · exact ⟨frame_write _ _, rfl⟩
    · exact ⟨⟨rfl, rfl, rfl, rfl, rfl, rfl⟩, rfl⟩
  | gocWrite =>
    simp only
    split
    · exact ⟨frame_write _ _, rfl⟩
    · exact ⟨(frame_create s).trans (frame_write _ _), rfl⟩
  | applied =>
    simp only; unfold beginUpd
    split
    · exact ⟨frame_bump _ _, rfl⟩
    · split
      · exact ⟨frame_bump _ _, rfl⟩
      · exact ⟨(frame_bump s _).trans (frame_write _ _), rfl⟩
  | done => exact ⟨⟨rfl, rfl, rfl, rfl, rfl, rfl⟩, rfl⟩

/-- a fresh-handle updater only ever writes to the cell the registry maps the key to -/
theorem stepUpd_same (s : Sys) (u : Upd) (hf : u.fresh = true) : Same s (stepUpd s u).1 := by
  unfold stepUpd
  cases u.pc with
  | start =>
    simp only; unfold beginUpd
    split
    · exact Same.rfl' s
    · simp only [hf, if_true]; exact Same.rfl' s
  | gocRead =>
    simp only
    split
    · rename_i c hr
      exact ⟨by simp [write, hr], rfl, by simp [write, hr]⟩
    · exact Same.rfl' s
  | gocWrite =>
    simp only
    split
    · rename_i c hr
      exact ⟨by simp [write, hr], rfl, by simp [write, hr]⟩
    · exact ⟨by simp [write, create], rfl, by simp [write, create]⟩
  | applied =>
    simp only; unfold beginUpd
    split
    · exact ⟨rfl, rfl, rfl⟩
    · simp only [hf, if_true]; exact ⟨rfl, rfl, rfl⟩
  | done => exact Same.rfl' s

theorem anyMid_of_calm (s : Sys) (hc : calm s = true) (hw : inWindow s = true) : anyMid s = false := by
  unfold calm at hc
  rw [hw] at hc
  cases h : anyMid s with
  | false => rfl
  | true => rw [h] at hc; cases hc

theorem doomed_entry (s : Sys) (h : doomed s = true) : ∃ lt, s.entry = some (s.obs.g, lt) := by
  unfold doomed at h
  cases hT : s.timeout with
  | none => rw [hT] at h; cases h
  | some T =>
    rw [hT] at h
    cases he : s.entry with
    | none => rw [he] at h; simp at h
    | some p =>
      obtain ⟨lg, lt⟩ := p
      rw [he] at h
      simp only [Bool.and_eq_true, decide_eq_true_eq] at h
      exact ⟨lt, by rw [h.2.1]⟩

theorem noMidOn_of_anyMid (s : Sys) (h : anyMid s = false) (c : Nat) : noMidOn s c := by
  intro u hu hp
  unfold anyMid at h
  rw [List.any_eq_false] at h
  have := h u hu
  simp [hp] at this

theorem stepObs_lossless (s : Sys) (hinv : Inv s) (hK : K s) (hcalm : calm (stepObs s) = true) :
    K (stepObs s) ∧ (stepObs s).upds = s.upds ∧ Same s (stepObs s) := by
  have hKof : ∀ s' : Sys, s' = stepObs s → (inWindow s' = true → s'.gen s'.obs.c = s'.obs.g) → K s' := by
    intro s' he hg hw
    exact ⟨hg hw, anyMid_of_calm s' (by rw [he]; exact hcalm) hw⟩
  refine ⟨hKof _ rfl ?_, ?_⟩
  · -- the generation held inside a window is the cell's
    unfold stepObs
    cases hpc : s.obs.pc with
    | idle =>
      simp only
      split
      · intro hw; exact (hK hw).1
      · split
        · intro hw; simp [inWindow, finishObs] at hw
        · intro _; rfl
    | genRead =>
      simp only
      split
      · rename_i hd
        intro _
        have hw : inWindow s = true := by unfold inWindow; rw [hpc]; exact hd
        exact (hK hw).1
      · intro hw; simp [inWindow, showValue, finishObs] at hw
    | deleting =>
      simp only
      split
      · intro hw; simp [inWindow, finishObs] at hw
      · intro hw; simp [inWindow, showValue, finishObs] at hw
  · unfold stepObs
    cases hpc : s.obs.pc with
    | idle =>
      simp only
      split
      · exact ⟨rfl, Same.rfl' s⟩
      · split
        · exact ⟨rfl, rfl, rfl, rfl⟩
        · exact ⟨rfl, rfl, rfl, rfl⟩
    | genRead =>
      simp only
      split
      · exact ⟨rfl, rfl, rfl, rfl⟩
      · exact ⟨rfl, rfl, rfl, rfl⟩
    | deleting =>
      simp only
      have hw : inWindow s = true := by unfold inWindow; rw [hpc]
      obtain ⟨hgen, hmid⟩ := hK hw
      have hR : s.reg = some s.obs.c := hinv.A.R (by rw [hpc]; exact fun h => nomatch h)
      obtain ⟨lt, hent⟩ := doomed_entry s (hinv.A.D hpc)
      have hz : s.unshown s.obs.c = 0 :=
        hinv.P s.obs.c s.obs.g lt hR hent hgen.symm (noMidOn_of_anyMid s hmid _)
      split
      · rename_i c0 hr
        rw [hR] at hr
        have hcc : s.obs.c = c0 := Option.some.inj hr
        subst hcc
        exact ⟨rfl, by simp [finishObs, hz], by simp [finishObs, hz], rfl⟩
      · exact ⟨rfl, rfl, rfl, rfl⟩

theorem mem_setAt_fresh (l : List Upd) (tid : Nat) (u' : Upd) (hl : ∀ u ∈ l, u.fresh = true) (hu : u'.fresh = true) :
    ∀ u ∈ setAt l tid u', u.fresh = true := by
  intro u hm
  rcases mem_setAt hm with rfl | h
  · exact hu
  · exact hl u h

theorem step_lossless (s : Sys) (t : Nat) (hinv : Inv s) (hK : K s) (hf : allFresh s)
    (hno : t < s.upds.length → inWindow s = false) (hcalm : calm (step s t) = true) :
    K (step s t) ∧ allFresh (step s t) ∧ Same s (step s t) := by
  unfold step at hcalm ⊢
  by_cases ht : t < s.upds.length
  · simp only [ht, if_true] at hcalm ⊢
    cases hg : s.upds[t]? with
    | none => simp only [hg] at hcalm ⊢; exact ⟨hK, hf, Same.rfl' s⟩
    | some u =>
      simp only
      have hu : u ∈ s.upds := List.mem_of_getElem? hg
      obtain ⟨hfr, hfresh⟩ := stepUpd_frame s u
      have hsame := stepUpd_same s u (hf u hu)
      refine ⟨?_, ?_, ⟨hsame.lost, hsame.dirty, hsame.orphan⟩⟩
      · intro hw
        have : inWindow { (stepUpd s u).1 with upds := setAt (stepUpd s u).1.upds t (stepUpd s u).2 } = inWindow s :=
          inWindow_congr s _ hfr.obs hfr.timeout hfr.covered hfr.entry hfr.now
        rw [this, hno ht] at hw; cases hw
      · intro x hx
        simp only at hx
        rw [hfr.upds] at hx
        exact mem_setAt_fresh s.upds t _ hf (by rw [hfresh]; exact hf u hu) x hx
  · simp only [ht, if_false] at hcalm ⊢
    by_cases he : t = s.upds.length
    · simp only [he, if_true] at hcalm ⊢
      obtain ⟨h1, h2, h3⟩ := stepObs_lossless s hinv hK hcalm
      exact ⟨h1, by unfold allFresh; rw [h2]; exact hf, h3⟩
    · simp only [he, if_false] at hcalm ⊢
      exact ⟨hK, hf, Same.rfl' s⟩

theorem run_lossless (sched : List Nat) : ∀ s, Inv s → K s → allFresh s → windowFree s sched = true →
    Same s (run s sched) := by
  induction sched with
  | nil => intro s _ _ _ _; exact Same.rfl' s
  | cons t ts ih =>
    intro s hinv hK hf hw
    simp only [windowFree, Bool.and_eq_true] at hw
    obtain ⟨⟨h1, h2⟩, h3⟩ := hw
    have hno : t < s.upds.length → inWindow s = false := by
      intro ht; simp only [ht, if_true] at h1; simpa using h1
    obtain ⟨hK', hf', hs⟩ := step_lossless s t hinv hK hf hno h2
    exact hs.trans (ih (step s t) (step_inv s t hinv) hK' hf' h3)

theorem init_K (c : Cfg) : K (init c) := by
  intro hw; simp [inWindow, init] at hw

theorem init_allFresh (c : Cfg) (h : ∀ p ∈ c.upds, p.1 = true) : allFresh (init c) := by
  intro u hu
  simp only [init, List.mem_map] at hu
  obtain ⟨p, hp, rfl⟩ := hu
  exact h p hp

/-! ### a quiescent observation never drops a metric that has unshown updates -/

theorem stepObs_genRead_keep (s : Sys) (hpc : s.obs.pc = .genRead) (hd : doomed s = false) :
    stepObs s = showValue { s with entry := refreshed s } := by
  unfold stepObs
  rw [hpc]
  simp only [hd, Bool.false_eq_true, if_false]

theorem quiet_keeps_fresh (s : Sys) (hinv : Inv s) (hidle : s.obs.pc = .idle) (htodo : s.obs.todo ≠ 0) (c : Nat)
    (hreg : s.reg = some c) (hmid : anyMid s = false) (hfresh : 0 < s.unshown c) :
    (stepObs (stepObs s)).obs.pc = .idle ∧ (stepObs (stepObs s)).reg = some c ∧
    (stepObs (stepObs s)).obs.shown = s.obs.shown ++ [some (s.val c)] ∧
    (stepObs (stepObs s)).unshown c = 0 ∧ Same s (stepObs (stepObs s)) := by
  have h1 : stepObs s = { s with obs := { s.obs with pc := .genRead, c := c, g := s.gen c } } := by
    unfold stepObs; rw [hidle]; simp only [htodo, if_false, hreg]
  have hnd : doomed (stepObs s) = false := by
    cases hd : doomed (stepObs s) with
    | false => rfl
    | true =>
      exfalso
      obtain ⟨lt, hent⟩ := doomed_entry _ hd
      rw [h1] at hent
      simp only at hent
      have := hinv.P c (s.gen c) lt hreg hent rfl (noMidOn_of_anyMid s hmid c)
      omega
  have hpc1 : (stepObs s).obs.pc = .genRead := by rw [h1]
  have h2 : stepObs (stepObs s) = showValue { (stepObs s) with entry := refreshed (stepObs s) } :=
    stepObs_genRead_keep (stepObs s) hpc1 hnd
  rw [h2, h1]
  refine ⟨rfl, hreg, rfl, ?_, ⟨rfl, rfl, rfl⟩⟩
  simp [showValue, finishObs]

/-! ### no timeout, or a kind outside the mask: no window ever opens -/

def neverDue (s : Sys) : Prop := s.timeout = none ∨ s.covered = false

theorem doomed_false_of_neverDue (s : Sys) (h : neverDue s) : doomed s = false := by
  unfold doomed
  rcases h with h | h
  · rw [h]
  · rw [h]; cases s.timeout <;> rfl

theorem inWindow_false_of_neverDue (s : Sys) (hinv : Inv s) (h : neverDue s) : inWindow s = false := by
  unfold inWindow
  cases hpc : s.obs.pc with
  | idle => rfl
  | genRead => exact doomed_false_of_neverDue s h
  | deleting =>
    have := hinv.A.D hpc
    rw [doomed_false_of_neverDue s h] at this; cases this

theorem stepObs_cfg (s : Sys) : (stepObs s).timeout = s.timeout ∧ (stepObs s).covered = s.covered := by
  unfold stepObs
  cases s.obs.pc with
  | idle =>
    simp only
    split
    · exact ⟨rfl, rfl⟩
    · split <;> exact ⟨rfl, rfl⟩
  | genRead => simp only; split <;> exact ⟨rfl, rfl⟩
  | deleting => simp only; split <;> exact ⟨rfl, rfl⟩

theorem step_cfg (s : Sys) (t : Nat) : (step s t).timeout = s.timeout ∧ (step s t).covered = s.covered := by
  unfold step
  by_cases ht : t < s.upds.length
  · simp only [ht, if_true]
    cases hg : s.upds[t]? with
    | none => exact ⟨rfl, rfl⟩
    | some u =>
      obtain ⟨hfr, _⟩ := stepUpd_frame s u
      exact ⟨hfr.timeout, hfr.covered⟩
  · simp only [ht, if_false]
    by_cases he : t = s.upds.length
    · simp only [he, if_true]; exact stepObs_cfg s
    · simp [he]

theorem windowFree_of_neverDue (sched : List Nat) : ∀ s, Inv s → neverDue s → windowFree s sched = true := by
  induction sched with
  | nil => intro s _ _; rfl
  | cons t ts ih =>
    intro s hinv hn
    have hinv' := step_inv s t hinv
    have hn' : neverDue (step s t) := by
      obtain ⟨h1, h2⟩ := step_cfg s t
      unfold neverDue; rw [h1, h2]; exact hn
    simp only [windowFree, Bool.and_eq_true]
    refine ⟨⟨?_, ?_⟩, ih _ hinv' hn'⟩
    · split
      · rw [inWindow_false_of_neverDue s hinv hn]; rfl
      · rfl
    · unfold calm; rw [inWindow_false_of_neverDue _ hinv' hn']; rfl

end MetricsVerif.IdleRace
