/-
Helper lemmas for C04: the effect of one step of the atomic-storage machine when every update is a single
read-modify-write, and the inductive invariants (linearization, exactly-once projection, counter sum,
monotonicity under absolutes, no-op handles).
-/
import MetricsVerif.Model.Atomics
import MetricsVerif.Proofs.ListAt

namespace MetricsVerif.Atomics
variable {F : Type}

/-- every update function is one atomic read-modify-write -/
def AllRmw (sh : Shape) : Prop :=
  sh.inc = true ∧ sh.abs = true ∧ sh.gInc = true ∧ sh.gDec = true ∧ sh.gSet = true

instance (sh : Shape) : Decidable (AllRmw sh) := by unfold AllRmw; infer_instance

theorem rmw_of_all {sh : Shape} (h : AllRmw sh) (op : Op F) : sh.rmw op = true := by
  cases op <;> simp [Shape.rmw, h.1, h.2.1, h.2.2.1, h.2.2.2.1, h.2.2.2.2]

theorem allRmw_all : AllRmw allRmw := by decide

theorem setAt_self {α : Type} (l : List α) (i : Nat) (x : α) (h : l[i]? = some x) : setAt l i x = l := by
  induction l generalizing i with
  | nil => rfl
  | cons y ys ih =>
    cases i with
    | zero => simp at h; subst h; rfl
    | succ n => simp at h; simp [setAt, ih n h]

theorem lt_of_getElem? {α : Type} {l : List α} {i : Nat} {x : α} (h : l[i]? = some x) : i < l.length := by
  rcases List.getElem?_eq_some_iff.mp h with ⟨hlt, _⟩
  exact hlt

theorem effOps_noop {c : Call F} {rest : List (Call F)} (h : c.h = none) : effOps (c :: rest) = effOps rest := by
  simp [effOps, h]

theorem effOps_live {c : Call F} {rest : List (Call F)} {u : Unit} (h : c.h = some u) :
    effOps (c :: rest) = c.op :: effOps rest := by
  simp [effOps, h]

/-! ### the effect of one step (all updates single RMWs) -/

/-- what one scheduled step can do -/
inductive StepEff (A : Carrier F) (s : Sys F) (tid : Nat) : Sys F → Prop
  | stutter : StepEff A s tid s
  | noop (t : Thread F) (c : Call F) (rest : List (Call F)) :
      s.threads[tid]? = some t → t.prog = c :: rest → c.h = none →
      StepEff A s tid { s with threads := setAt s.threads tid { prog := rest, tmp := none } }
  | rmw (t : Thread F) (c : Call F) (rest : List (Call F)) (u : Unit) :
      s.threads[tid]? = some t → t.prog = c :: rest → c.h = some u →
      StepEff A s tid { cell := applyOp A c.op s.cell,
                        threads := setAt s.threads tid { prog := rest, tmp := none },
                        log := (tid, c.op) :: s.log,
                        wrapped := s.wrapped || wraps c.op s.cell }

theorem step_eff (A : Carrier F) {sh : Shape} (h : AllRmw sh) (s : Sys F) (tid : Nat) :
    StepEff A s tid (step A sh s tid) := by
  unfold step
  cases hg : s.threads[tid]? with
  | none => exact .stutter
  | some t =>
    simp only
    unfold stepThread
    cases hp : t.prog with
    | nil =>
      simp only
      rw [setAt_self _ _ _ hg]
      exact .stutter
    | cons c rest =>
      simp only
      cases hh : c.h with
      | none => exact .noop t c rest hg hp hh
      | some u =>
        simp only [rmw_of_all h, if_true]
        exact .rmw t c rest u hg hp hh

theorem run_induct (A : Carrier F) (sh : Shape) (P : Sys F → Prop)
    (hstep : ∀ s tid, P s → P (step A sh s tid)) : ∀ (sched : List Nat) (s : Sys F), P s → P (run A sh s sched) := by
  intro sched
  induction sched with
  | nil => intro s h; exact h
  | cons t ts ih => intro s h; exact ih _ (hstep s t h)

theorem run_append (A : Carrier F) (sh : Shape) (s : Sys F) (s1 s2 : List Nat) :
    run A sh s (s1 ++ s2) = run A sh (run A sh s s1) s2 := by
  simp [run, List.foldl_append]

/-! ### linearization: the cell is the log applied to the initial value -/

theorem lin_step (A : Carrier F) {sh : Shape} (h : AllRmw sh) (c0 : Nat) (s : Sys F) (tid : Nat)
    (hinv : s.cell = replay A c0 s.log) :
    (step A sh s tid).cell = replay A c0 (step A sh s tid).log := by
  have e := step_eff A h s tid
  generalize step A sh s tid = s' at e ⊢
  cases e with
  | stutter => exact hinv
  | noop t c rest hg hp hh => exact hinv
  | rmw t c rest u hg hp hh => simp [replay, List.foldr_cons] at hinv ⊢; rw [← hinv]

/-! ### exactly once: per thread, the log holds exactly the executed prefix of its effective calls -/

def Once (progs : List (List (Call F))) (s : Sys F) : Prop :=
  ∀ tid p, progs[tid]? = some p →
    ∃ t, s.threads[tid]? = some t ∧ effOps p = (proj tid s.log).reverse ++ effOps t.prog

theorem once_init (c0 : Nat) (progs : List (List (Call F))) : Once progs (init c0 progs) := by
  intro tid p hp
  refine ⟨mkThread p, ?_, ?_⟩
  · simp [init, List.getElem?_map, hp]
  · simp [init, proj, mkThread]

theorem once_step (A : Carrier F) {sh : Shape} (h : AllRmw sh) (progs : List (List (Call F))) (s : Sys F) (tid : Nat)
    (hinv : Once progs s) : Once progs (step A sh s tid) := by
  have e := step_eff A h s tid
  generalize step A sh s tid = s' at e ⊢
  cases e with
  | stutter => exact hinv
  | noop t c rest hg hp hh =>
    intro tid' p hpr
    obtain ⟨t', ht', he⟩ := hinv tid' p hpr
    by_cases hne : tid = tid'
    · subst hne
      rw [hg] at ht'; injection ht' with ht'; subst ht'
      refine ⟨{ prog := rest, tmp := none }, ?_, ?_⟩
      · simp [getElem?_setAt, lt_of_getElem? hg]
      · rw [he, hp, effOps_noop hh]
    · refine ⟨t', ?_, he⟩
      simp [getElem?_setAt, hne, ht']
  | rmw t c rest u hg hp hh =>
    intro tid' p hpr
    obtain ⟨t', ht', he⟩ := hinv tid' p hpr
    by_cases hne : tid = tid'
    · subst hne
      rw [hg] at ht'; injection ht' with ht'; subst ht'
      refine ⟨{ prog := rest, tmp := none }, ?_, ?_⟩
      · simp [getElem?_setAt, lt_of_getElem? hg]
      · rw [he, hp, effOps_live hh]
        simp [proj]
    · refine ⟨t', ?_, ?_⟩
      · simp [getElem?_setAt, hne, ht']
      · simp only [proj, hne, if_false]; exact he

/-! ### counting: log length + pending effective calls = all effective calls -/

def pendLen (t : Thread F) : Nat := (effOps t.prog).length
def pendingLen (s : Sys F) : Nat := (s.threads.map pendLen).sum

theorem count_step (A : Carrier F) {sh : Shape} (h : AllRmw sh) (s : Sys F) (tid : Nat) :
    (step A sh s tid).log.length + pendingLen (step A sh s tid) = s.log.length + pendingLen s := by
  have e := step_eff A h s tid
  generalize step A sh s tid = s' at e ⊢
  cases e with
  | stutter => rfl
  | noop t c rest hg hp hh =>
    have := sum_map_setAt pendLen s.threads tid { prog := rest, tmp := none } t hg
    have e : pendLen t = pendLen ({ prog := rest, tmp := none } : Thread F) := by simp [pendLen, hp, effOps_noop hh]
    simp only [pendingLen] at *
    omega
  | rmw t c rest u hg hp hh =>
    have := sum_map_setAt pendLen s.threads tid { prog := rest, tmp := none } t hg
    have e : pendLen t = pendLen ({ prog := rest, tmp := none } : Thread F) + 1 := by simp [pendLen, hp, effOps_live hh]
    simp only [pendingLen, List.length_cons] at *
    omega

theorem sum_zero_of_done (f : Thread F → Nat) (l : List (Thread F)) (h : ∀ t ∈ l, f t = 0) : (l.map f).sum = 0 := by
  induction l with
  | nil => rfl
  | cons x xs ih =>
    simp only [List.map_cons, List.sum_cons]
    rw [h x (by simp), ih (fun t ht => h t (List.mem_cons_of_mem _ ht))]

/-! ### counter: increments only ⇒ cell + pending increments ≡ initial + all increments (mod 2^64) -/

def incOf : Op F → Nat
  | .inc n => n
  | _ => 0

def progSum (p : List (Call F)) : Nat := ((effOps p).map incOf).sum
def pendSum (t : Thread F) : Nat := progSum t.prog
def pending (s : Sys F) : Nat := (s.threads.map pendSum).sum

/-- every update of the program that reaches the storage is an increment -/
def IncOnlyProg (p : List (Call F)) : Prop := ∀ op ∈ effOps p, ∃ n, op = Op.inc n

structure SumInv (K : Nat) (s : Sys F) : Prop where
  inc_only : ∀ t ∈ s.threads, IncOnlyProg t.prog
  lt : s.cell < two64
  sum : (s.cell + pending s) % two64 = K % two64

theorem incOnly_tail {c : Call F} {rest : List (Call F)} (h : IncOnlyProg (c :: rest)) : IncOnlyProg rest := by
  intro op hop
  apply h
  unfold effOps
  cases c.h with
  | none => exact hop
  | some u => exact List.mem_cons_of_mem _ hop

theorem sum_step (A : Carrier F) {sh : Shape} (h : AllRmw sh) (K : Nat) (s : Sys F) (tid : Nat)
    (hinv : SumInv K s) : SumInv K (step A sh s tid) := by
  have e := step_eff A h s tid
  generalize step A sh s tid = s' at e ⊢
  cases e with
  | stutter => exact hinv
  | noop t c rest hg hp hh =>
    have hs := sum_map_setAt pendSum s.threads tid { prog := rest, tmp := none } t hg
    have e : pendSum t = pendSum ({ prog := rest, tmp := none } : Thread F) := by simp [pendSum, progSum, hp, effOps_noop hh]
    refine ⟨?_, hinv.lt, ?_⟩
    · intro x hx
      rcases mem_setAt hx with rfl | hx
      · have := hinv.inc_only t (List.mem_of_getElem? hg)
        rw [hp] at this
        exact incOnly_tail this
      · exact hinv.inc_only x hx
    · have := hinv.sum
      simp only [pending] at *
      rw [← this]; congr 1; omega
  | rmw t c rest u hg hp hh =>
    have hs := sum_map_setAt pendSum s.threads tid { prog := rest, tmp := none } t hg
    have hio := hinv.inc_only t (List.mem_of_getElem? hg)
    rw [hp] at hio
    obtain ⟨n, hn⟩ := hio c.op (by rw [effOps_live hh]; simp)
    have e : pendSum t = n + pendSum ({ prog := rest, tmp := none } : Thread F) := by
      simp [pendSum, progSum, hp, effOps_live hh, hn, incOf]
    refine ⟨?_, ?_, ?_⟩
    · intro x hx
      rcases mem_setAt hx with rfl | hx
      · exact incOnly_tail hio
      · exact hinv.inc_only x hx
    · simp only [hn, applyOp, counterIncrement]
      exact Nat.mod_lt _ (by decide)
    · have := hinv.sum
      simp only [pending, hn, applyOp, counterIncrement] at *
      rw [Nat.mod_add_mod, ← this]; congr 1; omega

theorem pending_init (c0 : Nat) (progs : List (List (Call F))) :
    pending (init c0 progs) = (progs.map progSum).sum := by
  simp only [pending, init, List.map_map]
  rfl

/-! ### counter with absolutes: while no increment has wrapped the cell only grows and dominates every
    absolute value applied so far -/

def CounterOp : Op F → Prop
  | .inc _ => True
  | .abs _ => True
  | _ => False

def CounterOnlyProg (p : List (Call F)) : Prop := ∀ op ∈ effOps p, CounterOp op

structure AbsInv (lo : Nat) (s : Sys F) : Prop where
  only : ∀ t ∈ s.threads, CounterOnlyProg t.prog
  mono : s.wrapped = false → lo ≤ s.cell ∧ ∀ e ∈ s.log, ∀ v, e.2 = Op.abs v → v ≤ s.cell

theorem counterOnly_tail {c : Call F} {rest : List (Call F)} (h : CounterOnlyProg (c :: rest)) : CounterOnlyProg rest := by
  intro op hop
  apply h
  unfold effOps
  cases c.h with
  | none => exact hop
  | some u => exact List.mem_cons_of_mem _ hop

theorem abs_step (A : Carrier F) {sh : Shape} (h : AllRmw sh) (lo : Nat) (s : Sys F) (tid : Nat)
    (hinv : AbsInv lo s) : AbsInv lo (step A sh s tid) := by
  have e := step_eff A h s tid
  generalize step A sh s tid = s' at e ⊢
  cases e with
  | stutter => exact hinv
  | noop t c rest hg hp hh =>
    refine ⟨?_, hinv.mono⟩
    intro x hx
    rcases mem_setAt hx with rfl | hx
    · have := hinv.only t (List.mem_of_getElem? hg)
      rw [hp] at this
      exact counterOnly_tail this
    · exact hinv.only x hx
  | rmw t c rest u hg hp hh =>
    have hco := hinv.only t (List.mem_of_getElem? hg)
    rw [hp] at hco
    have hop : CounterOp c.op := hco c.op (by rw [effOps_live hh]; simp)
    refine ⟨?_, ?_⟩
    · intro x hx
      rcases mem_setAt hx with rfl | hx
      · exact counterOnly_tail hco
      · exact hinv.only x hx
    · intro hw
      simp only [Bool.or_eq_false_iff] at hw
      obtain ⟨hlo, hlog⟩ := hinv.mono hw.1
      have hge : s.cell ≤ applyOp A c.op s.cell ∧ ∀ v, c.op = Op.abs v → v ≤ applyOp A c.op s.cell := by
        cases hc : c.op with
        | inc n =>
          have hnw := hw.2
          rw [hc] at hnw
          simp only [wraps, decide_eq_false_iff_not, Nat.not_le] at hnw
          simp only [applyOp, counterIncrement, Nat.mod_eq_of_lt hnw]
          exact ⟨by omega, by intro v hv; cases hv⟩
        | abs n =>
          simp only [applyOp, counterAbsolute]
          refine ⟨by omega, ?_⟩
          intro v hv; injection hv with hv; subst hv; omega
        | gInc d => rw [hc] at hop; exact absurd hop (by simp [CounterOp])
        | gDec d => rw [hc] at hop; exact absurd hop (by simp [CounterOp])
        | gSet d => rw [hc] at hop; exact absurd hop (by simp [CounterOp])
      refine ⟨by simp only; omega, ?_⟩
      intro e he v hv
      simp only [List.mem_cons] at he
      rcases he with rfl | he
      · exact hge.2 v hv
      · have := hlog e he v hv
        simp only; omega

/-! ### no-op handles (any shape, also the split one) -/

def AllNoop (s : Sys F) : Prop := ∀ t ∈ s.threads, ∀ c ∈ t.prog, c.h = none

theorem noop_step (A : Carrier F) (sh : Shape) (s : Sys F) (tid : Nat) (h : AllNoop s) :
    (step A sh s tid).cell = s.cell ∧ (step A sh s tid).log = s.log ∧ (step A sh s tid).wrapped = s.wrapped
    ∧ AllNoop (step A sh s tid) := by
  unfold step
  cases hg : s.threads[tid]? with
  | none => exact ⟨rfl, rfl, rfl, h⟩
  | some t =>
    simp only
    have ht := h t (List.mem_of_getElem? hg)
    unfold stepThread
    cases hp : t.prog with
    | nil =>
      simp only
      refine ⟨trivial, trivial, trivial, ?_⟩
      rw [setAt_self _ _ _ hg]; exact h
    | cons c rest =>
      have hh : c.h = none := ht c (by rw [hp]; simp)
      simp only [hh]
      refine ⟨trivial, trivial, trivial, ?_⟩
      intro x hx
      rcases mem_setAt hx with rfl | hx
      · intro c' hc'
        exact ht c' (by rw [hp]; exact List.mem_cons_of_mem _ hc')
      · exact h x hx

/-! ### gauge view of a replayed log -/

def GaugeOp : Op F → Prop
  | .gInc _ => True
  | .gDec _ => True
  | .gSet _ => True
  | _ => False

/-- the update on gauge VALUES -/
def gApply (A : Carrier F) (op : Op F) (x : F) : F :=
  match op with
  | .gInc d => A.add x d
  | .gDec d => A.sub x d
  | .gSet v => v
  | _ => x

theorem replay_gauge (A : Carrier F) (hrt : ∀ x, A.ofBits (A.toBits x) = x) (c0 : Nat) (log : List (Nat × Op F))
    (hg : ∀ e ∈ log, GaugeOp e.2) :
    A.ofBits (replay A c0 log) = log.foldr (fun e x => gApply A e.2 x) (A.ofBits c0) := by
  induction log with
  | nil => rfl
  | cons e rest ih =>
    have ih' := ih (fun x hx => hg x (List.mem_cons_of_mem _ hx))
    have he := hg e (by simp)
    simp only [replay, List.foldr_cons] at ih' ⊢
    rw [← ih']
    cases hop : e.2 with
    | inc n => rw [hop] at he; exact absurd he (by simp [GaugeOp])
    | abs n => rw [hop] at he; exact absurd he (by simp [GaugeOp])
    | gInc d => simp [applyOp, gaugeIncrement, gApply, hrt]
    | gDec d => simp [applyOp, gaugeDecrement, gApply, hrt]
    | gSet v => simp [applyOp, gaugeSet, gApply, hrt]

/-! ### record_many -/

theorem recordManyDefault_log (log : List F) (v : F) (n : Nat) :
    recordManyDefault logRecord log v n = log ++ List.replicate n v := by
  induction n generalizing log with
  | zero => simp [recordManyDefault]
  | succ n ih => simp [recordManyDefault, ih, logRecord, List.replicate_succ]

theorem recordManyDefault_iter {σ : Type} (record : σ → F → σ) (st : σ) (v : F) (n : Nat) :
    recordManyDefault record st v n = Nat.repeat (fun s => record s v) n st := by
  induction n generalizing st with
  | zero => rfl
  | succ n ih =>
    simp only [recordManyDefault, ih]
    clear ih
    induction n generalizing st with
    | zero => rfl
    | succ m ihm => simp only [Nat.repeat] at ihm ⊢; rw [ihm]

theorem arcN_record {σ : Type} (inner : HistFn σ F) (k : Nat) : (HistFn.arcN inner k).record = inner.record := by
  induction k with
  | zero => rfl
  | succ k ih => simp [HistFn.arcN, HistFn.arc, HistFn.ofRecord, ih]

end MetricsVerif.Atomics

namespace MetricsVerif.Atomics
variable {F : Type}

/-! ### a predicate on updates that holds of all programs holds of the log -/

structure OpsInv (P : Op F → Prop) (s : Sys F) : Prop where
  progs : ∀ t ∈ s.threads, ∀ op ∈ effOps t.prog, P op
  log : ∀ e ∈ s.log, P e.2

theorem ops_step (A : Carrier F) {sh : Shape} (h : AllRmw sh) (P : Op F → Prop) (s : Sys F) (tid : Nat)
    (hinv : OpsInv P s) : OpsInv P (step A sh s tid) := by
  have e := step_eff A h s tid
  generalize step A sh s tid = s' at e ⊢
  cases e with
  | stutter => exact hinv
  | noop t c rest hg hp hh =>
    refine ⟨?_, hinv.log⟩
    intro x hx op hop
    rcases mem_setAt hx with rfl | hx
    · apply hinv.progs t (List.mem_of_getElem? hg) op
      rw [hp, effOps_noop hh]; exact hop
    · exact hinv.progs x hx op hop
  | rmw t c rest u hg hp hh =>
    have ht := hinv.progs t (List.mem_of_getElem? hg)
    rw [hp, effOps_live hh] at ht
    refine ⟨?_, ?_⟩
    · intro x hx op hop
      rcases mem_setAt hx with rfl | hx
      · exact ht op (List.mem_cons_of_mem _ hop)
      · exact hinv.progs x hx op hop
    · intro e he
      simp only [List.mem_cons] at he
      rcases he with rfl | he
      · exact ht c.op (by simp)
      · exact hinv.log e he

theorem ops_init (P : Op F → Prop) (c0 : Nat) (progs : List (List (Call F)))
    (h : ∀ p ∈ progs, ∀ op ∈ effOps p, P op) : OpsInv P (init c0 progs) := by
  refine ⟨?_, by simp [init]⟩
  intro t ht
  simp only [init, List.mem_map] at ht
  obtain ⟨p, hp, rfl⟩ := ht
  exact h p hp

theorem mem_of_mem_proj {tid : Nat} {op : Op F} {log : List (Nat × Op F)} (h : op ∈ proj tid log) : (tid, op) ∈ log := by
  induction log with
  | nil => simp [proj] at h
  | cons e rest ih =>
    simp only [proj] at h
    by_cases he : e.1 = tid
    · simp only [he, if_true, List.mem_cons] at h
      rcases h with rfl | h
      · simp [← he]
      · exact List.mem_cons_of_mem _ (ih h)
    · simp only [he, if_false] at h
      exact List.mem_cons_of_mem _ (ih h)

theorem pendingLen_init (c0 : Nat) (progs : List (List (Call F))) :
    pendingLen (init c0 progs) = (progs.map (fun p => (effOps p).length)).sum := by
  simp only [pendingLen, init, List.map_map]
  rfl

end MetricsVerif.Atomics

namespace MetricsVerif.Atomics
variable {F : Type}

/-! ### progress: every schedule prefix can be extended to a complete one -/

def remaining (s : Sys F) : Nat := (s.threads.map (fun t => t.prog.length)).sum

theorem step_threads (A : Carrier F) {sh : Shape} (h : AllRmw sh) (s : Sys F) (tid : Nat) (t : Thread F)
    (c : Call F) (rest : List (Call F)) (hg : s.threads[tid]? = some t) (hp : t.prog = c :: rest) :
    (step A sh s tid).threads = setAt s.threads tid { prog := rest, tmp := none } := by
  unfold step
  simp only [hg]
  unfold stepThread
  simp only [hp]
  cases c.h with
  | none => rfl
  | some u => simp [rmw_of_all h, commit]

theorem remaining_step (A : Carrier F) {sh : Shape} (h : AllRmw sh) (s : Sys F) (tid : Nat) (t : Thread F)
    (c : Call F) (rest : List (Call F)) (hg : s.threads[tid]? = some t) (hp : t.prog = c :: rest) :
    remaining (step A sh s tid) + 1 = remaining s := by
  have := sum_map_setAt (fun t : Thread F => t.prog.length) s.threads tid { prog := rest, tmp := none } t hg
  simp only [remaining, step_threads A h s tid t c rest hg hp]
  simp only [hp, List.length_cons] at this
  omega

theorem exists_pending (l : List (Thread F)) (h : 0 < (l.map (fun t => t.prog.length)).sum) :
    ∃ (tid : Nat) (t : Thread F) (c : Call F) (rest : List (Call F)), l[tid]? = some t ∧ t.prog = c :: rest := by
  induction l with
  | nil => simp at h
  | cons x xs ih =>
    cases hx : x.prog with
    | cons c rest => exact ⟨0, x, c, rest, by simp, hx⟩
    | nil =>
      simp only [List.map_cons, List.sum_cons, hx, List.length_nil, Nat.zero_add] at h
      obtain ⟨tid, t, c, rest, hg, hp⟩ := ih h
      exact ⟨tid + 1, t, c, rest, by simp [hg], hp⟩

theorem done_of_remaining_zero (s : Sys F) (h : remaining s = 0) : AllDone s := by
  unfold remaining at h
  intro t ht
  have : ∀ (l : List (Thread F)), (l.map (fun t => t.prog.length)).sum = 0 → ∀ t ∈ l, t.prog = [] := by
    intro l
    induction l with
    | nil => intro _ t ht; simp at ht
    | cons x xs ih =>
      intro hs t ht
      simp only [List.map_cons, List.sum_cons] at hs
      simp only [List.mem_cons] at ht
      rcases ht with rfl | ht
      · exact List.length_eq_zero_iff.mp (by omega)
      · exact ih (by omega) t ht
  exact this _ h t ht

theorem exists_completion (A : Carrier F) {sh : Shape} (h : AllRmw sh) :
    ∀ (n : Nat) (s : Sys F), remaining s = n → ∃ sched, AllDone (run A sh s sched) := by
  intro n
  induction n with
  | zero => intro s hs; exact ⟨[], done_of_remaining_zero s hs⟩
  | succ n ih =>
    intro s hs
    obtain ⟨tid, t, c, rest, hg, hp⟩ := exists_pending s.threads (by unfold remaining at hs; omega)
    have := remaining_step A h s tid t c rest hg hp
    obtain ⟨sched, hd⟩ := ih (step A sh s tid) (by omega)
    exact ⟨tid :: sched, hd⟩

/-! ### without increments nothing wraps -/

def NotInc : Op F → Prop
  | .inc _ => False
  | _ => True

theorem nowrap_step (A : Carrier F) {sh : Shape} (h : AllRmw sh) (s : Sys F) (tid : Nat)
    (hinv : OpsInv NotInc s ∧ s.wrapped = false) :
    OpsInv NotInc (step A sh s tid) ∧ (step A sh s tid).wrapped = false := by
  refine ⟨ops_step A h NotInc s tid hinv.1, ?_⟩
  have e := step_eff A h s tid
  generalize step A sh s tid = s' at e ⊢
  cases e with
  | stutter => exact hinv.2
  | noop t c rest hg hp hh => exact hinv.2
  | rmw t c rest u hg hp hh =>
    have ht := hinv.1.progs t (List.mem_of_getElem? hg) c.op (by rw [hp, effOps_live hh]; simp)
    simp only [hinv.2, Bool.false_or]
    cases hc : c.op with
    | inc n => rw [hc] at ht; exact absurd ht (by simp [NotInc])
    | abs n => rfl
    | gInc d => rfl
    | gDec d => rfl
    | gSet d => rfl

end MetricsVerif.Atomics
