/-
Helper lemmas for C01 (Model/LocalRec.lean): the guard table, the per-thread stack of live guards, the
invariants and their preservation by `step`.
-/
import MetricsVerif.Model.LocalRec

namespace MetricsVerif.LocalRec

/-! ### the invariants -/

/-- `l` is the recorder of the top guard, every guard saved the recorder of the guard below it, the bottom
    guard saved "nothing installed" -/
def Chain : Option RecId → List Guard → Prop
  | l, [] => l = none
  | l, g :: rest => l = some g.rcd ∧ Chain g.prev rest

def key (x : Guard) : Tid × GuardId := (x.tid, x.id)

/-- guard ids are unique per thread and below the thread's counter -/
structure Wf (s : St) : Prop where
  nodup : (s.guards.map key).Nodup
  lt : ∀ x ∈ s.guards, x.id < s.next x.tid

/-- no guard value that still exists borrows a recorder whose borrow ended (what `endBorrow` checks) -/
def NoLiveEnded (s : St) : Prop := ∀ x ∈ s.guards, x.live = true → s.ended.contains x.rcd = false

/-- no emission so far reached a recorder after its borrow ended -/
def LogFresh (s : St) : Prop := ∀ e ∈ s.log, e.stale = false

structure Inv (s : St) : Prop where
  wf : Wf s
  chain : ∀ t, Chain (s.loc t) (liveGuards s t)
  nle : NoLiveEnded s
  fresh : LogFresh s

theorem chain_loc {l : Option RecId} {gs : List Guard} (h : Chain l gs) : l = gs.head?.map Guard.rcd := by
  cases gs with
  | nil => exact h
  | cons g rest => exact h.1

/-! ### `kill` / `markDead` -/

theorem key_kill (t : Tid) (g : GuardId) (f : Bool) (x : Guard) : key (kill t g f x) = key x := by
  unfold kill; split <;> rfl

theorem tid_kill (t : Tid) (g : GuardId) (f : Bool) (x : Guard) : (kill t g f x).tid = x.tid := by
  unfold kill; split <;> rfl

theorem id_kill (t : Tid) (g : GuardId) (f : Bool) (x : Guard) : (kill t g f x).id = x.id := by
  unfold kill; split <;> rfl

theorem rcd_kill (t : Tid) (g : GuardId) (f : Bool) (x : Guard) : (kill t g f x).rcd = x.rcd := by
  unfold kill; split <;> rfl

theorem live_kill (t : Tid) (g : GuardId) (f : Bool) (x : Guard) (h : (kill t g f x).live = true) : x.live = true := by
  unfold kill at h; split at h
  · simp at h
  · exact h

theorem map_key_markDead (gs : List Guard) (t : Tid) (g : GuardId) (f : Bool) :
    (markDead gs t g f).map key = gs.map key := by
  unfold markDead
  rw [List.map_map]
  apply List.map_congr_left
  intro x _
  exact key_kill t g f x

theorem isG_iff (t : Tid) (g : GuardId) (x : Guard) : isG t g x = true ↔ x.tid = t ∧ x.id = g := by
  unfold isG; simp

theorem isLiveOf_iff (t : Tid) (x : Guard) : isLiveOf t x = true ↔ x.tid = t ∧ x.live = true := by
  unfold isLiveOf; simp

/-- another thread's stack is untouched by `markDead` -/
theorem filter_markDead_other (gs : List Guard) (t t' : Tid) (g : GuardId) (f : Bool) (h : t' ≠ t) :
    (markDead gs t g f).filter (isLiveOf t') = gs.filter (isLiveOf t') := by
  unfold markDead
  induction gs with
  | nil => rfl
  | cons x xs ih =>
    simp only [List.map_cons, List.filter_cons]
    rw [ih]
    cases hg : isG t g x with
    | true =>
      have hx := (isG_iff t g x).1 hg
      have h1 : isLiveOf t' x = false := by
        cases hq : isLiveOf t' x with
        | false => rfl
        | true => have := (isLiveOf_iff t' x).1 hq; exact absurd (this.1.symm.trans hx.1) h
      have h2 : isLiveOf t' (kill t g f x) = false := by simp [kill, hg, isLiveOf]
      simp [h1, h2]
    | false => simp [kill, hg]

theorem markDead_id_of_no_key (gs : List Guard) (t : Tid) (g : GuardId) (f : Bool)
    (h : (t, g) ∉ gs.map key) : markDead gs t g f = gs := by
  unfold markDead
  induction gs with
  | nil => rfl
  | cons x xs ih =>
    simp only [List.map_cons, List.mem_cons, not_or] at h
    simp only [List.map_cons]
    rw [ih h.2]
    have : isG t g x = false := by
      cases hg : isG t g x with
      | false => rfl
      | true =>
        have := (isG_iff t g x).1 hg
        exact absurd (by simp [key, this.1, this.2]) h.1
    simp [kill, this]

theorem head_filter_mem {p : Guard → Bool} {l : List Guard} {h : Guard} (hh : (l.filter p).head? = some h) :
    h ∈ l ∧ p h = true := by
  have : h ∈ l.filter p := List.mem_of_mem_head? (by simp [hh])
  exact List.mem_filter.1 this

/-- dropping / forgetting the TOP guard of the thread's stack pops it -/
theorem filter_markDead_top (gs : List Guard) (t : Tid) (g : GuardId) (f : Bool)
    (hn : (gs.map key).Nodup) (htop : (gs.filter (isLiveOf t)).head?.map Guard.id = some g) :
    (markDead gs t g f).filter (isLiveOf t) = (gs.filter (isLiveOf t)).tail := by
  induction gs with
  | nil => simp at htop
  | cons x xs ih =>
    simp only [List.map_cons, List.nodup_cons] at hn
    cases hg : isG t g x with
    | true =>
      have hx := (isG_iff t g x).1 hg
      have hid : markDead xs t g f = xs := by
        apply markDead_id_of_no_key
        have : key x = (t, g) := by simp [key, hx.1, hx.2]
        rw [← this]; exact hn.1
      have hk : isLiveOf t (kill t g f x) = false := by simp [kill, hg, isLiveOf]
      have e1 : (markDead (x :: xs) t g f).filter (isLiveOf t) = xs.filter (isLiveOf t) := by
        show ((kill t g f x) :: (markDead xs t g f)).filter (isLiveOf t) = _
        rw [List.filter_cons, hk, hid]; simp
      rw [e1]
      cases hp : isLiveOf t x with
      | true => simp [hp]
      | false =>
        -- then the top of the stack is another guard with the same key: impossible
        rw [List.filter_cons] at htop
        simp only [hp] at htop
        simp only [Bool.false_eq_true, ↓reduceIte] at htop
        cases hh : (xs.filter (isLiveOf t)).head? with
        | none => simp [hh] at htop
        | some h =>
          simp [hh] at htop
          have hm := head_filter_mem hh
          have := (isLiveOf_iff t h).1 hm.2
          exfalso
          apply hn.1
          have : key x = key h := by simp [key, hx.1, hx.2, this.1, htop]
          rw [this]
          exact List.mem_map_of_mem hm.1
    | false =>
      have hk : kill t g f x = x := by simp [kill, hg]
      cases hp : isLiveOf t x with
      | true =>
        exfalso
        rw [List.filter_cons] at htop
        simp [hp] at htop
        have := (isLiveOf_iff t x).1 hp
        have : isG t g x = true := (isG_iff t g x).2 ⟨this.1, htop⟩
        rw [hg] at this; cases this
      | false =>
        rw [List.filter_cons] at htop
        simp only [hp] at htop
        simp only [Bool.false_eq_true, ↓reduceIte] at htop
        show ((kill t g f x) :: (markDead xs t g f)).filter (isLiveOf t) = _
        rw [hk, List.filter_cons, List.filter_cons]
        simp only [hp]
        simp only [Bool.false_eq_true, ↓reduceIte]
        exact ih hn.2 htop

/-- if the top of the thread's stack has id `g`, `findLive` finds exactly that guard -/
theorem findLive_top (gs : List Guard) (t : Tid) (g : GuardId) (h : Guard)
    (hh : (gs.filter (isLiveOf t)).head? = some h) (hid : h.id = g) : findLive gs t g = some h := by
  unfold findLive
  induction gs with
  | nil => simp at hh
  | cons x xs ih =>
    rw [List.filter_cons] at hh
    cases hp : isLiveOf t x with
    | true =>
      simp [hp] at hh
      subst hh
      have := (isLiveOf_iff t x).1 hp
      have : isLiveG t g x = true := by simp [isLiveG, isG, this.1, this.2, hid]
      simp [this]
    | false =>
      simp only [hp] at hh
      simp only [Bool.false_eq_true, ↓reduceIte] at hh
      have : isLiveG t g x = false := by
        cases hq : isLiveG t g x with
        | false => rfl
        | true =>
          simp [isLiveG, isG] at hq
          have : isLiveOf t x = true := (isLiveOf_iff t x).2 ⟨hq.1.1, hq.2⟩
          rw [hp] at this; cases this
      simp only [List.find?_cons, this]
      exact ih hh

theorem findLive_some {gs : List Guard} {t : Tid} {g : GuardId} {x : Guard} (h : findLive gs t g = some x) :
    x ∈ gs ∧ x.tid = t ∧ x.id = g ∧ x.live = true := by
  unfold findLive at h
  have hm := List.mem_of_find?_eq_some h
  have hp := List.find?_some h
  simp [isLiveG, isG] at hp
  exact ⟨hm, hp.1.1, hp.1.2, hp.2⟩

/-! ### preservation of the invariant -/

theorem upd_same {α : Type} (f : Tid → α) (t : Tid) (v : α) : upd f t v t = v := by simp [upd]

theorem upd_other {α : Type} (f : Tid → α) (t t' : Tid) (v : α) (h : t' ≠ t) : upd f t v t' = f t' := by
  simp [upd, h]

def newGuard (s : St) (t : Tid) (r : RecId) : Guard :=
  { tid := t, id := s.next t, rcd := r, prev := s.loc t, live := true, forgotten := false }

theorem install_guards (s : St) (t : Tid) (r : RecId) : (install s t r).1.guards = newGuard s t r :: s.guards := rfl

theorem liveGuards_install_same (s : St) (t : Tid) (r : RecId) :
    liveGuards (install s t r).1 t = newGuard s t r :: liveGuards s t := by
  simp [liveGuards, install_guards, isLiveOf, newGuard]

theorem liveGuards_install_other (s : St) (t t' : Tid) (r : RecId) (h : t' ≠ t) :
    liveGuards (install s t r).1 t' = liveGuards s t' := by
  have : isLiveOf t' (newGuard s t r) = false := by
    simp [isLiveOf, newGuard]; intro e; exact absurd e.symm h
  simp [liveGuards, install_guards, this]

theorem inv_install (s : St) (t : Tid) (r : RecId) (h : Inv s) (hr : s.ended.contains r = false) :
    Inv (install s t r).1 := by
  refine ⟨⟨?_, ?_⟩, ?_, ?_, ?_⟩
  · rw [install_guards, List.map_cons, List.nodup_cons]
    refine ⟨?_, h.wf.nodup⟩
    intro hm
    obtain ⟨x, hx, hk⟩ := List.mem_map.1 hm
    have := h.wf.lt x hx
    simp [key, newGuard] at hk
    rw [hk.1, hk.2] at this
    exact Nat.lt_irrefl _ this
  · intro x hx
    rw [install_guards, List.mem_cons] at hx
    show x.id < upd s.next t (s.next t + 1) x.tid
    rcases hx with hx | hx
    · subst hx; simp [newGuard, upd]
    · have := h.wf.lt x hx
      unfold upd; split
      · rename_i e; rw [e] at this; exact Nat.lt_succ_of_lt this
      · exact this
  · intro t'
    by_cases e : t' = t
    · subst e
      rw [liveGuards_install_same]
      show upd s.loc t' (some r) t' = some r ∧ Chain (s.loc t') (liveGuards s t')
      exact ⟨upd_same _ _ _, h.chain t'⟩
    · rw [liveGuards_install_other s t t' r e]
      show Chain (upd s.loc t (some r) t') _
      rw [upd_other _ _ _ _ e]; exact h.chain t'
  · intro x hx hl
    rw [install_guards, List.mem_cons] at hx
    show s.ended.contains x.rcd = false
    rcases hx with hx | hx
    · subst hx; exact hr
    · exact h.nle x hx hl
  · exact h.fresh

theorem inv_scopes (s : St) (sc : Tid → List GuardId) (h : Inv s) : Inv { s with scopes := sc } :=
  ⟨⟨h.wf.nodup, h.wf.lt⟩, h.chain, h.nle, h.fresh⟩

theorem mem_markDead {gs : List Guard} {t : Tid} {g : GuardId} {f : Bool} {y : Guard} (h : y ∈ markDead gs t g f) :
    ∃ y0 ∈ gs, y = kill t g f y0 := by
  unfold markDead at h
  obtain ⟨y0, h0, e⟩ := List.mem_map.1 h
  exact ⟨y0, h0, e.symm⟩

/-- closing the guard on top of thread `t`'s stack (explicit drop, closure return, unwinding) -/
theorem inv_dropG (s : St) (t : Tid) (g : GuardId) (x : Guard) (h : Inv s)
    (htop : topLive s t = some g) (hx : findLive s.guards t g = some x) :
    Inv (dropG s t x) ∧ liveGuards (dropG s t x) t = (liveGuards s t).tail := by
  unfold topLive at htop
  cases hh : (liveGuards s t).head? with
  | none => simp [hh] at htop
  | some hd =>
    simp [hh] at htop
    have hf := findLive_top s.guards t g hd hh htop
    rw [hx] at hf
    cases hf
    have hxg : x.id = g := htop
    have htail : liveGuards (dropG s t x) t = (liveGuards s t).tail := by
      show (markDead s.guards t x.id false).filter (isLiveOf t) = _
      rw [hxg]
      exact filter_markDead_top s.guards t g false h.wf.nodup (by unfold liveGuards at hh; simp [hh, htop])
    refine ⟨⟨⟨?_, ?_⟩, ?_, ?_, ?_⟩, htail⟩
    · show ((markDead s.guards t x.id false).map key).Nodup
      rw [map_key_markDead]; exact h.wf.nodup
    · intro y hy
      obtain ⟨y0, h0, e⟩ := mem_markDead hy
      show y.id < s.next y.tid
      rw [e, id_kill, tid_kill]; exact h.wf.lt y0 h0
    · intro t'
      by_cases e : t' = t
      · subst e
        rw [htail]
        show Chain (upd s.loc t' x.prev t') _
        rw [upd_same]
        have hc := h.chain t'
        cases hl : liveGuards s t' with
        | nil => rw [hl] at hh; simp at hh
        | cons a rest =>
          rw [hl] at hh hc
          simp at hh
          subst hh
          exact hc.2
      · show Chain (upd s.loc t x.prev t') ((markDead s.guards t x.id false).filter (isLiveOf t'))
        rw [upd_other _ _ _ _ e, filter_markDead_other _ _ _ _ _ e]
        exact h.chain t'
    · intro y hy hl
      obtain ⟨y0, h0, e⟩ := mem_markDead hy
      show s.ended.contains y.rcd = false
      rw [e] at hl ⊢
      rw [rcd_kill]
      exact h.nle y0 h0 (live_kill _ _ _ _ hl)
    · exact h.fresh

theorem dispatch_eq_innermost (s : St) (t : Tid) (h : Inv s) : dispatch s t = innermost s t := by
  have hc := h.chain t
  unfold dispatch innermost
  cases hl : liveGuards s t with
  | nil => rw [hl] at hc; rw [hc]
  | cons g rest => rw [hl] at hc; rw [hc.1]

theorem innermost_fresh (s : St) (t : Tid) (h : Inv s) : isStale s (innermost s t) = false := by
  unfold innermost
  cases hl : liveGuards s t with
  | nil =>
    simp only [fallback]
    cases s.global <;> rfl
  | cons g rest =>
    have hm : g ∈ liveGuards s t := by rw [hl]; exact List.mem_cons_self
    unfold liveGuards at hm
    have := List.mem_filter.1 hm
    exact h.nle g this.1 ((isLiveOf_iff t g).1 this.2).2

theorem step_inv (s : St) (t : Tid) (op : Op) (h : Inv s) (hok : opOk s t op = true) : Inv (step s t op).1 := by
  cases op with
  | install r =>
    unfold step
    simp only
    split
    · exact h
    · rename_i hr
      exact inv_install s t r h (by simpa using hr)
  | dropGuard g =>
    unfold step
    simp only
    split
    · exact h
    · split
      · rename_i x hx
        exact (inv_dropG s t g x h (by simpa [opOk] using hok) hx).1
      · exact h
  | forget g => simp [opOk] at hok
  | endBorrow r =>
    unfold step
    simp only
    split
    · exact h
    · rename_i hc
      simp only [Bool.or_eq_true, not_or] at hc
      refine ⟨⟨h.wf.nodup, h.wf.lt⟩, h.chain, ?_, h.fresh⟩
      intro x hx hl
      show (r :: s.ended).contains x.rcd = false
      have h1 := h.nle x hx hl
      have h2 : x.rcd ≠ r := by
        intro e
        apply hc.1
        unfold borrowed
        rw [List.any_eq_true]
        exact ⟨x, hx, by simp [borrowsRec, e, hl]⟩
      simp only [List.contains_cons, Bool.or_eq_false_iff]
      exact ⟨by simpa using h2, h1⟩
  | enter r =>
    unfold step
    simp only
    split
    · exact h
    · rename_i hr
      exact inv_scopes _ _ (inv_install s t r h (by simpa using hr))
  | exit p =>
    unfold step
    simp only
    split
    · exact h
    · rename_i g rest hs
      split
      · rename_i x hx
        have hi := inv_scopes s (upd s.scopes t rest) h
        have ht : topLive s t = some g := by
          have : topLive s t = (s.scopes t).head? := by simpa [opOk] using hok
          rw [this, hs]; rfl
        exact (inv_dropG { s with scopes := upd s.scopes t rest } t g x hi ht hx).1
      · exact h
  | emit c =>
    unfold step
    simp only
    refine ⟨⟨h.wf.nodup, h.wf.lt⟩, h.chain, h.nle, ?_⟩
    intro e he
    rw [List.mem_append] at he
    rcases he with he | he
    · exact h.fresh e he
    · simp only [List.mem_singleton] at he
      subst he
      show isStale s (dispatch s t) = false
      rw [dispatch_eq_innermost s t h]
      exact innermost_fresh s t h
  | setGlobal r =>
    unfold step
    simp only
    split
    · exact ⟨⟨h.wf.nodup, h.wf.lt⟩, h.chain, h.nle, h.fresh⟩
    · exact h
  | keepRef => exact h
  | dupGuard g => exact h

theorem init_inv (g : Option RecId) : Inv (init g) := by
  refine ⟨⟨?_, ?_⟩, ?_, ?_, ?_⟩
  · simp [init]
  · intro x hx; simp [init] at hx
  · intro t; simp [init, liveGuards, Chain]
  · intro x hx; simp [init] at hx
  · intro e he; simp [init] at he

theorem run_cons (s : St) (o : Tid × Op) (ops : List (Tid × Op)) :
    run s (o :: ops) = run (step s o.1 o.2).1 ops := rfl

theorem run_append (s : St) (a b : List (Tid × Op)) : run s (a ++ b) = run (run s a) b := by
  unfold run; rw [List.foldl_append]

theorem run_inv (ops : List (Tid × Op)) : ∀ s, Inv s → disc s ops = true → Inv (run s ops) := by
  induction ops with
  | nil => intro s h _; exact h
  | cons o rest ih =>
    intro s h hd
    simp only [disc, Bool.and_eq_true] at hd
    rw [run_cons]
    exact ih _ (step_inv s o.1 o.2 h hd.1) hd.2

theorem disc_append (a b : List (Tid × Op)) : ∀ s, disc s (a ++ b) = (disc s a && disc (run s a) b) := by
  induction a with
  | nil => intro s; simp [disc, run]
  | cons o rest ih =>
    intro s
    simp only [List.cons_append, disc, run_cons, ih, Bool.and_assoc]

/-! ### facts that hold for ALL programs (no discipline) -/

structure Base (s : St) : Prop where
  wf : Wf s
  nle : NoLiveEnded s

theorem base_install (s : St) (t : Tid) (r : RecId) (h : Base s) (hr : s.ended.contains r = false) :
    Base (install s t r).1 := by
  refine ⟨⟨?_, ?_⟩, ?_⟩
  · rw [install_guards, List.map_cons, List.nodup_cons]
    refine ⟨?_, h.wf.nodup⟩
    intro hm
    obtain ⟨x, hx, hk⟩ := List.mem_map.1 hm
    have := h.wf.lt x hx
    simp [key, newGuard] at hk
    rw [hk.1, hk.2] at this
    exact Nat.lt_irrefl _ this
  · intro x hx
    rw [install_guards, List.mem_cons] at hx
    show x.id < upd s.next t (s.next t + 1) x.tid
    rcases hx with hx | hx
    · subst hx; simp [newGuard, upd]
    · have := h.wf.lt x hx
      unfold upd; split
      · rename_i e; rw [e] at this; exact Nat.lt_succ_of_lt this
      · exact this
  · intro x hx hl
    rw [install_guards, List.mem_cons] at hx
    show s.ended.contains x.rcd = false
    rcases hx with hx | hx
    · subst hx; exact hr
    · exact h.nle x hx hl

theorem base_frame (s s' : St) (h : Base s) (hg : s'.guards = s.guards) (hn : s'.next = s.next)
    (he : s'.ended = s.ended) : Base s' := by
  refine ⟨⟨by rw [hg]; exact h.wf.nodup, ?_⟩, ?_⟩
  · intro x hx; rw [hg] at hx; rw [hn]; exact h.wf.lt x hx
  · intro x hx hl; rw [hg] at hx; rw [he]; exact h.nle x hx hl

theorem base_markDead (s s' : St) (t : Tid) (g : GuardId) (f : Bool) (h : Base s)
    (hg : s'.guards = markDead s.guards t g f) (hn : s'.next = s.next) (he : s'.ended = s.ended) : Base s' := by
  refine ⟨⟨?_, ?_⟩, ?_⟩
  · rw [hg, map_key_markDead]; exact h.wf.nodup
  · intro y hy
    rw [hg] at hy
    obtain ⟨y0, h0, e⟩ := mem_markDead hy
    rw [hn, e, id_kill, tid_kill]; exact h.wf.lt y0 h0
  · intro y hy hl
    rw [hg] at hy
    obtain ⟨y0, h0, e⟩ := mem_markDead hy
    rw [he]
    rw [e] at hl ⊢
    rw [rcd_kill]
    exact h.nle y0 h0 (live_kill _ _ _ _ hl)

theorem base_step (s : St) (t : Tid) (op : Op) (h : Base s) : Base (step s t op).1 := by
  cases op with
  | install r =>
    unfold step; simp only
    split
    · exact h
    · rename_i hr; exact base_install s t r h (by simpa using hr)
  | dropGuard g =>
    unfold step; simp only
    split
    · exact h
    · split
      · exact base_markDead s _ t _ false h rfl rfl rfl
      · exact h
  | forget g =>
    unfold step; simp only
    split
    · exact h
    · split
      · exact base_markDead s _ t _ true h rfl rfl rfl
      · exact h
  | endBorrow r =>
    unfold step; simp only
    split
    · exact h
    · rename_i hc
      simp only [Bool.or_eq_true, not_or] at hc
      refine ⟨⟨h.wf.nodup, h.wf.lt⟩, ?_⟩
      intro x hx hl
      show (r :: s.ended).contains x.rcd = false
      have h1 := h.nle x hx hl
      have h2 : x.rcd ≠ r := by
        intro e
        apply hc.1
        unfold borrowed
        rw [List.any_eq_true]
        exact ⟨x, hx, by simp [borrowsRec, e, hl]⟩
      simp only [List.contains_cons, Bool.or_eq_false_iff]
      exact ⟨by simpa using h2, h1⟩
  | enter r =>
    unfold step; simp only
    split
    · exact h
    · rename_i hr
      exact base_frame (install s t r).1 _ (base_install s t r h (by simpa using hr)) rfl rfl rfl
  | exit p =>
    unfold step; simp only
    split
    · exact h
    · split
      · exact base_markDead s _ t _ false h rfl rfl rfl
      · exact h
  | emit c => unfold step; simp only; exact base_frame s _ h rfl rfl rfl
  | setGlobal r =>
    unfold step; simp only
    split
    · exact base_frame s _ h rfl rfl rfl
    · exact h
  | keepRef => exact h
  | dupGuard g => exact h

theorem base_run (ops : List (Tid × Op)) : ∀ s, Base s → Base (run s ops) := by
  induction ops with
  | nil => intro s h; exact h
  | cons o rest ih => intro s h; rw [run_cons]; exact ih _ (base_step s o.1 o.2 h)

end MetricsVerif.LocalRec
