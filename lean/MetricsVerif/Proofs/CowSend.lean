/-
Helper lemmas for the thread model of `metrics::Cow` (`Model/CowSend.lean`): the invariant that carries the
soundness proof of the `Arc` bounds — while `T` lacks `Send` or `Sync`, no value ever leaves the thread its `T`
objects were made on and no reference to it is ever handed out.
-/
import MetricsVerif.Model.CowSend

namespace MetricsVerif.CowSend

/-- every live value sits on the home thread of its cell and is lent to nobody; every destruction happened at home -/
def AtHome (s : St) : Prop :=
  (∀ x, some x ∈ s.vals → x.thr = x.cell.home ∧ x.lent = []) ∧ (∀ p ∈ s.destroyed, p.2 = p.1.home)

theorem atHome_init : AtHome init := by
  constructor
  · intro x hx; simp [init] at hx
  · intro p hp; simp [init] at hp

theorem getVal_mem {s : St} {h : Nat} {x : Handle} (hg : getVal s h = some x) : some x ∈ s.vals := by
  unfold getVal at hg
  split at hg
  · next y hy =>
    cases hg
    exact List.mem_of_getElem? hy
  · cases hg

theorem mem_set_cases {α} {l : List α} {i : Nat} {a b : α} (h : a ∈ l.set i b) : a ∈ l ∨ a = b :=
  List.mem_or_eq_of_mem_set h

theorem arc_admits_false {e : Elem} (h : (e.send && e.sync) = false) :
    arcBounds.send.admits e = false ∧ arcBounds.sync.admits e = false := by
  cases e with
  | mk a b => cases a <;> cases b <;> simp_all [arcBounds, Bound.admits]

/-- a fresh value made by thread `t` on a cell whose home is `t` keeps the invariant -/
theorem atHome_push {s : St} (hI : AtHome s) (c : Cell) (k : Kind) (hc : c.home = t) :
    (∀ x, some x ∈ (push s ⟨c, k, t, []⟩).vals → x.thr = x.cell.home ∧ x.lent = []) := by
  intro x hx
  simp only [push, List.mem_append, List.mem_singleton] at hx
  rcases hx with hx | hx
  · exact hI.1 x hx
  · cases hx; exact ⟨hc.symm, rfl⟩

/-- with the `Arc` bounds and a `T` that is not both `Send` and `Sync`, every step keeps every value at home -/
theorem step_atHome {e : Elem} (he : (e.send && e.sync) = false) {s : St} (hI : AtHome s) (op : Op) :
    AtHome (step arcBounds e s op) := by
  obtain ⟨hs, hy⟩ := arc_admits_false he
  cases op with
  | fromBorrowed t => exact ⟨atHome_push hI ⟨t, s.next⟩ .borrowed rfl, hI.2⟩
  | fromOwned t => exact ⟨atHome_push hI ⟨t, s.next⟩ .owned rfl, hI.2⟩
  | fromShared t keep => exact ⟨atHome_push hI ⟨t, s.next⟩ .shared rfl, hI.2⟩
  | send h t =>
    simp only [step]
    split
    · simp [hs]; exact hI
    · exact hI
  | lend h t =>
    simp only [step]
    split
    · simp [hy]; exact hI
    · exact hI
  | unlend h t =>
    simp only [step]
    split
    · next x hg =>
      have hx := hI.1 x (getVal_mem hg)
      refine ⟨?_, hI.2⟩
      intro z hz
      rcases mem_set_cases hz with hz | hz
      · exact hI.1 z hz
      · cases hz
        exact ⟨hx.1, by simp [hx.2]⟩
    · exact hI
  | clone t h =>
    simp only [step]
    split
    · next x hg =>
      have hx := hI.1 x (getVal_mem hg)
      by_cases hu : canUse x t = true
      · have ht : x.thr = t := by
          simp [canUse, hx.2] at hu
          exact hu
        simp only [hu, if_true]
        split
        · exact ⟨atHome_push hI ⟨t, s.next⟩ .owned rfl, hI.2⟩
        · exact ⟨atHome_push hI x.cell x.kind (by rw [← hx.1, ht]), hI.2⟩
      · simp only [hu]
        exact hI
    · exact hI
  | drop t h =>
    simp only [step]
    split
    · next x hg =>
      have hx := hI.1 x (getVal_mem hg)
      by_cases hu : (x.thr == t && x.lent.isEmpty) = true
      · have ht : x.thr = t := by
          simp at hu
          exact hu.1
        have hvals : ∀ z, some z ∈ s.vals.set h none → z.thr = z.cell.home ∧ z.lent = [] := by
          intro z hz
          rcases mem_set_cases hz with hz | hz
          · exact hI.1 z hz
          · cases hz
        have hdest : ∀ p ∈ (x.cell, t) :: s.destroyed, p.2 = p.1.home := by
          intro p hp
          rcases List.mem_cons.1 hp with hp | hp
          · subst hp
            show t = x.cell.home
            rw [← ht]; exact hx.1
          · exact hI.2 p hp
        simp only [hu, if_true]
        split
        · exact ⟨hvals, hI.2⟩
        · exact ⟨hvals, hdest⟩
        · split
          · exact ⟨hvals, hI.2⟩
          · exact ⟨hvals, hdest⟩
      · simp only [hu]
        exact hI
    · exact hI

theorem run_atHome {e : Elem} (he : (e.send && e.sync) = false) (ops : List Op) :
    ∀ s, AtHome s → AtHome (run arcBounds e s ops) := by
  induction ops with
  | nil => intro s hI; exact hI
  | cons op ops ih => intro s hI; exact ih _ (step_atHome he hI op)

/-- at home, every path to a cell starts on the cell's home thread -/
theorem reachers_atHome {s : St} (hI : AtHome s) (c : Cell) : ∀ t ∈ reachers s c, t = c.home := by
  intro t ht
  simp only [reachers, List.mem_append, List.mem_flatMap] at ht
  rcases ht with ht | ⟨o, ho, ht⟩
  · split at ht
    · simpa using ht
    · cases ht
  · cases o with
    | none => cases ht
    | some x =>
      have hx := hI.1 x ho
      simp only at ht
      split at ht
      · next hc =>
        have hc' : x.cell = c := by simpa using hc
        simp [hx.2] at ht
        rw [ht, hx.1, hc']
      · cases ht

theorem atHome_not_violates {s : St} (hI : AtHome s) (e : Elem) : violates e s = false := by
  have hr : racy e s = false := by
    simp only [racy, Bool.and_eq_false_imp]
    intro _
    rw [Bool.eq_false_iff]
    intro h
    simp only [List.any_eq_true] at h
    obtain ⟨c, _, t1, h1, t2, h2, hne⟩ := h
    have e1 := reachers_atHome hI c t1 h1
    have e2 := reachers_atHome hI c t2 h2
    simp [e1, e2] at hne
  have hm : misplaced e s = false := by
    simp only [misplaced, Bool.and_eq_false_imp]
    intro _
    rw [Bool.eq_false_iff]
    intro h
    simp only [Bool.or_eq_true, List.any_eq_true] at h
    rcases h with ⟨o, ho, h⟩ | ⟨p, hp, h⟩
    · cases o with
      | none => simp at h
      | some x =>
        have hx := hI.1 x ho
        simp [hx.1] at h
    · have := hI.2 p hp
      simp [this] at h
  simp [violates, hr, hm]

end MetricsVerif.CowSend
