/-
Helper lemmas for C07 (model: `Model/Prom.lean`).
-/
import MetricsVerif.Model.Prom

namespace MetricsVerif.Prom
open MetricsVerif.PromFmt MetricsVerif.PromRender

/-! ### association lists -/

section assoc
variable {κ α : Type} [DecidableEq κ]

@[simp] theorem lookup_nil (k : κ) : lookup ([] : List (κ × α)) k = none := rfl

theorem lookup_upsert (m : List (κ × α)) (k k' : κ) (d : α) (f : α → α) :
    lookup (upsert m k d f) k' = if k' = k then some (f ((lookup m k).getD d)) else lookup m k' := by
  induction m with
  | nil =>
    simp only [upsert, lookup]
    by_cases h : k' = k
    · simp [h]
    · have : ¬ k = k' := fun e => h e.symm
      simp [h, this]
  | cons x xs ih =>
    obtain ⟨kx, ax⟩ := x
    simp only [upsert]
    by_cases hx : kx = k
    · subst hx
      simp only [if_true, lookup]
      by_cases h : k' = kx
      · subst h; simp
      · have : ¬ kx = k' := fun e => h e.symm
        simp [h, this]
    · simp only [hx, if_false, lookup]
      by_cases h' : kx = k'
      · subst h'
        have : ¬ kx = k := hx
        simp [this]
      · simp only [h', if_false, ih]

theorem lookup_upsert_self (m : List (κ × α)) (k : κ) (d : α) (f : α → α) :
    lookup (upsert m k d f) k = some (f ((lookup m k).getD d)) := by
  simp [lookup_upsert]

theorem lookup_upsert_ne (m : List (κ × α)) (k k' : κ) (d : α) (f : α → α) (h : k' ≠ k) :
    lookup (upsert m k d f) k' = lookup m k' := by
  simp [lookup_upsert, h]

/-- updating an existing entry with the identity leaves the map unchanged -/
theorem upsert_id_of_mem (m : List (κ × α)) (k : κ) (d : α) (f : α → α)
    (hf : ∀ a, lookup m k = some a → f a = a) (hm : (lookup m k).isSome) : upsert m k d f = m := by
  induction m with
  | nil => simp [lookup] at hm
  | cons x xs ih =>
    obtain ⟨kx, ax⟩ := x
    simp only [upsert]
    by_cases hx : kx = k
    · subst hx
      have := hf ax (by simp [lookup])
      simp [this]
    · simp only [hx, if_false]
      congr 1
      apply ih
      · intro a ha; apply hf; simpa [lookup, hx] using ha
      · simpa [lookup, hx] using hm

end assoc

/-! ### distributions -/

def Dist.count : Dist → Nat
  | .hist _ _ c _ => c
  | .summ c _ => c
def Dist.sum : Dist → Int
  | .hist _ _ _ s => s
  | .summ _ s => s

theorem Dist.record_count (d : Dist) (v : Int) : (d.record v).count = d.count + 1 := by
  cases d <;> rfl
theorem Dist.record_sum (d : Dist) (v : Int) : (d.record v).sum = d.sum + v := by
  cases d <;> rfl

theorem Dist.recordMany_count (vs : List Int) : ∀ d : Dist, (d.recordMany vs).count = d.count + vs.length := by
  induction vs with
  | nil => intro d; simp [Dist.recordMany]
  | cons v vs ih =>
    intro d
    simp only [Dist.recordMany, List.foldl_cons, List.length_cons] at ih ⊢
    rw [ih, Dist.record_count]; omega

theorem Dist.recordMany_sum (vs : List Int) : ∀ d : Dist, (d.recordMany vs).sum = d.sum + vs.sum := by
  induction vs with
  | nil => intro d; simp [Dist.recordMany]
  | cons v vs ih =>
    intro d
    simp only [Dist.recordMany, List.foldl_cons, List.sum_cons] at ih ⊢
    rw [ih, Dist.record_sum]; omega

theorem Dist.recordMany_nil (d : Dist) : d.recordMany [] = d := rfl

theorem newDist_count (cfg : Cfg) (n : Str) : (newDist cfg n).count = 0 := by
  unfold newDist; split
  · rfl
  · split <;> rfl
theorem newDist_sum (cfg : Cfg) (n : Str) : (newDist cfg n).sum = 0 := by
  unfold newDist; split
  · rfl
  · split <;> rfl

end MetricsVerif.Prom

namespace MetricsVerif.Prom
open MetricsVerif.PromFmt MetricsVerif.PromRender

/-! ### per-series accounting of histogram samples -/

abbrev Parts := Str × List Str

/-- the series a key is rendered as: sanitised name and formatted (merged) labels -/
def partsOf (cfg : Cfg) (k : MKey) : Parts := keyToParts k.name k.labels cfg.globals

def getDist (ds : List (Str × List (List Str × Dist))) (p : Parts) : Option Dist :=
  (lookup ds p.1).bind (fun m => lookup m p.2)

def dCount (o : Option Dist) : Nat := (o.map Dist.count).getD 0
def dSum (o : Option Dist) : Int := (o.map Dist.sum).getD 0

def pendCount (cfg : Cfg) (hs : List (MKey × List Int)) (p : Parts) : Nat :=
  (hs.map (fun kh => if partsOf cfg kh.1 = p then kh.2.length else 0)).sum
def pendSum (cfg : Cfg) (hs : List (MKey × List Int)) (p : Parts) : Int :=
  (hs.map (fun kh => if partsOf cfg kh.1 = p then kh.2.sum else 0)).sum

def opCount (cfg : Cfg) (p : Parts) : Op → Nat
  | .hrec k _ => if partsOf cfg k = p then 1 else 0
  | .hrecMany k _ n => if partsOf cfg k = p then n else 0
  | _ => 0
def opSum (cfg : Cfg) (p : Parts) : Op → Int
  | .hrec k v => if partsOf cfg k = p then v else 0
  | .hrecMany k v n => if partsOf cfg k = p then (n : Int) * v else 0
  | _ => 0

theorem getDist_upsert2 (ds : List (Str × List (List Str × Dist))) (n : Str) (l : List Str) (d0 : Dist)
    (g : Dist → Dist) (p : Parts) :
    getDist (upsert ds n [] (fun byLabels => upsert byLabels l d0 g)) p
      = if p = (n, l) then some (g ((getDist ds (n, l)).getD d0)) else getDist ds p := by
  obtain ⟨n', l'⟩ := p
  simp only [getDist, lookup_upsert]
  by_cases hn : n' = n
  · subst hn
    simp only [if_true, Option.bind_some, lookup_upsert]
    by_cases hl : l' = l
    · subst hl
      simp only [if_true]
      cases h : lookup ds n' <;> simp
    · have : ¬ (n', l') = (n', l) := by intro e; injection e with _ e2; exact hl e2
      simp only [hl, this, if_false]
      cases h : lookup ds n' <;> simp
  · have : ¬ (n', l') = (n, l) := by intro e; injection e with e1 _; exact hn e1
    simp [hn, this]

/-- one iteration of the loop in `drain_histograms_to_distributions` -/
def drainOne (cfg : Cfg) (ds : List (Str × List (List Str × Dist))) (kh : MKey × List Int) :=
  let (name, labels) := keyToParts kh.1.name kh.1.labels cfg.globals
  upsert ds name [] (fun byLabels => upsert byLabels labels (newDist cfg name) (fun d => d.recordMany kh.2))

theorem drain_dists (s : St) : (drain s).dists = s.hists.foldl (drainOne s.cfg) s.dists := rfl
theorem drain_hists (s : St) : (drain s).hists = s.hists.map (fun kh => (kh.1, [])) := rfl
theorem drain_cfg (s : St) : (drain s).cfg = s.cfg := rfl

theorem drainOne_count (cfg : Cfg) (ds) (kh : MKey × List Int) (p : Parts) :
    dCount (getDist (drainOne cfg ds kh) p)
      = dCount (getDist ds p) + (if partsOf cfg kh.1 = p then kh.2.length else 0) := by
  unfold drainOne partsOf
  generalize hkp : keyToParts kh.1.name kh.1.labels cfg.globals = np
  obtain ⟨n, l⟩ := np
  simp only [getDist_upsert2]
  by_cases h : p = (n, l)
  · subst h
    simp only [if_true, dCount, Option.map_some, Option.getD_some, Dist.recordMany_count]
    cases hg : getDist ds (n, l) <;> simp [newDist_count]
  · have : ¬ (n, l) = p := fun e => h e.symm
    simp [h, this]

theorem drainOne_sum (cfg : Cfg) (ds) (kh : MKey × List Int) (p : Parts) :
    dSum (getDist (drainOne cfg ds kh) p)
      = dSum (getDist ds p) + (if partsOf cfg kh.1 = p then kh.2.sum else 0) := by
  unfold drainOne partsOf
  generalize hkp : keyToParts kh.1.name kh.1.labels cfg.globals = np
  obtain ⟨n, l⟩ := np
  simp only [getDist_upsert2]
  by_cases h : p = (n, l)
  · subst h
    simp only [if_true, dSum, Option.map_some, Option.getD_some, Dist.recordMany_sum]
    cases hg : getDist ds (n, l) <;> simp [newDist_sum]
  · have : ¬ (n, l) = p := fun e => h e.symm
    simp [h, this]

theorem drainFold_count (cfg : Cfg) (hs : List (MKey × List Int)) (p : Parts) :
    ∀ ds, dCount (getDist (hs.foldl (drainOne cfg) ds) p) = dCount (getDist ds p) + pendCount cfg hs p := by
  induction hs with
  | nil => intro ds; simp [pendCount]
  | cons kh rest ih =>
    intro ds
    simp only [List.foldl_cons, ih, drainOne_count, pendCount, List.map_cons, List.sum_cons]
    omega

theorem drainFold_sum (cfg : Cfg) (hs : List (MKey × List Int)) (p : Parts) :
    ∀ ds, dSum (getDist (hs.foldl (drainOne cfg) ds) p) = dSum (getDist ds p) + pendSum cfg hs p := by
  induction hs with
  | nil => intro ds; simp [pendSum]
  | cons kh rest ih =>
    intro ds
    simp only [List.foldl_cons, ih, drainOne_sum, pendSum, List.map_cons, List.sum_cons]
    omega

theorem pendCount_drained (cfg : Cfg) (hs : List (MKey × List Int)) (p : Parts) :
    pendCount cfg (hs.map (fun kh => (kh.1, ([] : List Int)))) p = 0 := by
  induction hs with
  | nil => rfl
  | cons kh rest ih =>
    simp only [pendCount, List.map_cons, List.sum_cons, List.length_nil, ite_self, Nat.zero_add] at ih ⊢
    exact ih

theorem pendSum_drained (cfg : Cfg) (hs : List (MKey × List Int)) (p : Parts) :
    pendSum cfg (hs.map (fun kh => (kh.1, ([] : List Int)))) p = 0 := by
  induction hs with
  | nil => rfl
  | cons kh rest ih =>
    simp only [pendSum, List.map_cons, List.sum_cons, List.sum_nil, ite_self, Int.zero_add] at ih ⊢
    exact ih

theorem pendCount_upsert_app (cfg : Cfg) (hs : List (MKey × List Int)) (k : MKey) (vs : List Int) (p : Parts) :
    pendCount cfg (upsert hs k [] (fun q => q ++ vs)) p
      = pendCount cfg hs p + (if partsOf cfg k = p then vs.length else 0) := by
  induction hs with
  | nil => simp [upsert, pendCount]
  | cons x xs ih =>
    obtain ⟨kx, px⟩ := x
    simp only [upsert]
    by_cases hx : kx = k
    · subst hx
      simp only [if_true, pendCount, List.map_cons, List.sum_cons, List.length_append]
      split <;> omega
    · simp only [hx, if_false, pendCount, List.map_cons, List.sum_cons] at ih ⊢
      omega

theorem pendCount_upsert (cfg : Cfg) (hs : List (MKey × List Int)) (k : MKey) (v : Int) (p : Parts) :
    pendCount cfg (upsert hs k [] (fun q => q ++ [v])) p
      = pendCount cfg hs p + (if partsOf cfg k = p then 1 else 0) := by
  simpa using pendCount_upsert_app cfg hs k [v] p

theorem pendSum_upsert_app (cfg : Cfg) (hs : List (MKey × List Int)) (k : MKey) (vs : List Int) (p : Parts) :
    pendSum cfg (upsert hs k [] (fun q => q ++ vs)) p
      = pendSum cfg hs p + (if partsOf cfg k = p then vs.sum else 0) := by
  induction hs with
  | nil => simp [upsert, pendSum]
  | cons x xs ih =>
    obtain ⟨kx, px⟩ := x
    simp only [upsert]
    by_cases hx : kx = k
    · subst hx
      simp only [if_true, pendSum, List.map_cons, List.sum_cons, List.sum_append]
      split <;> omega
    · simp only [hx, if_false, pendSum, List.map_cons, List.sum_cons] at ih ⊢
      omega

theorem pendSum_upsert (cfg : Cfg) (hs : List (MKey × List Int)) (k : MKey) (v : Int) (p : Parts) :
    pendSum cfg (upsert hs k [] (fun q => q ++ [v])) p
      = pendSum cfg hs p + (if partsOf cfg k = p then v else 0) := by
  simpa using pendSum_upsert_app cfg hs k [v] p

theorem sum_replicate_int (n : Nat) (v : Int) : (List.replicate n v).sum = (n : Int) * v := by
  induction n with
  | zero => simp
  | succ n ih =>
    simp only [List.replicate_succ, List.sum_cons, ih]
    rw [Int.natCast_succ, Int.add_mul, Int.one_mul, Int.add_comm]

theorem step_cfg (s : St) (op : Op) : (step s op).cfg = s.cfg := by
  cases op <;> simp only [step] <;> try rfl
  split <;> rfl

/-- the accounting invariant is preserved by every step -/
theorem step_count (s : St) (op : Op) (p : Parts) :
    dCount (getDist (step s op).dists p) + pendCount s.cfg (step s op).hists p
      = dCount (getDist s.dists p) + pendCount s.cfg s.hists p + opCount s.cfg p op := by
  cases op with
  | describe n u d => simp only [step, opCount]; split <;> rfl
  | cinc k n => rfl
  | cabs k n => rfl
  | gset k v => rfl
  | gadd k n => rfl
  | hrec k v => simp only [step, opCount, pendCount_upsert]; omega
  | hrecMany k v n => simp only [step, opCount, pendCount_upsert_app, List.length_replicate]; omega
  | upkeep =>
    simp only [step, opCount, drain_dists, drain_hists, drainFold_count, pendCount_drained]

theorem step_sum (s : St) (op : Op) (p : Parts) :
    dSum (getDist (step s op).dists p) + pendSum s.cfg (step s op).hists p
      = dSum (getDist s.dists p) + pendSum s.cfg s.hists p + opSum s.cfg p op := by
  cases op with
  | describe n u d => simp only [step, opSum]; split <;> simp
  | cinc k n => simp [step, opSum]
  | cabs k n => simp [step, opSum]
  | gset k v => simp [step, opSum]
  | gadd k n => simp [step, opSum]
  | hrec k v => simp only [step, opSum, pendSum_upsert]; omega
  | hrecMany k v n => simp only [step, opSum, pendSum_upsert_app, sum_replicate_int]; omega
  | upkeep =>
    simp only [step, opSum, drain_dists, drain_hists, drainFold_sum, pendSum_drained]

def run (s : St) (ops : List Op) : St := ops.foldl step s

theorem run_cfg (ops : List Op) : ∀ s, (run s ops).cfg = s.cfg := by
  induction ops with
  | nil => intro s; rfl
  | cons op ops ih => intro s; simp only [run, List.foldl_cons] at ih ⊢; rw [ih, step_cfg]

end MetricsVerif.Prom
