/-
Helper lemmas for C15, part (b) continued: the kind (histogram / summary) of every distribution the recorder model ever
holds is the kind `get_distribution` gives for the plain name of its family (an invariant of `Prom.step`), and the
guarded builder never stores an empty bound list.
-/
import MetricsVerif.Proofs.Prom
import MetricsVerif.Proofs.PromWhole
import MetricsVerif.Proofs.DistBuilder

namespace MetricsVerif.DistBuilder
open MetricsVerif.Prom MetricsVerif.PromFmt MetricsVerif.PromRender

/-- histogram or summary -/
def isHist : Dist → Bool
  | .hist .. => true
  | .summ .. => false

theorem isHist_record (d : Dist) (v : Int) : isHist (d.record v) = isHist d := by
  cases d <;> rfl

theorem isHist_recordMany (vs : List Int) : ∀ d : Dist, isHist (d.recordMany vs) = isHist d := by
  induction vs with
  | nil => intro d; rfl
  | cons v vs ih => intro d; simp only [Dist.recordMany, List.foldl_cons] at ih ⊢; rw [ih, isHist_record]

/-- the invariant: every distribution kept under family `name` has the kind of `newDist cfg name` -/
def KindInv (cfg : Cfg) (ds : List (Str × List (List Str × Dist))) : Prop :=
  ∀ f ∈ ds, ∀ ld ∈ f.2, isHist ld.2 = isHist (newDist cfg f.1)

theorem drainOne_kind (cfg : Cfg) (ds : List (Str × List (List Str × Dist))) (kh : MKey × List Int)
    (h : KindInv cfg ds) : KindInv cfg (drainOne cfg ds kh) := by
  unfold drainOne
  generalize keyToParts kh.1.name kh.1.labels cfg.globals = p
  obtain ⟨name, labels⟩ := p
  show KindInv cfg (upsert ds name [] (fun byLabels => upsert byLabels labels (newDist cfg name) (fun d => d.recordMany kh.2)))
  intro f hf
  refine upsert_inv (fun (k : Str) (a : List (List Str × Dist)) => ∀ ld ∈ a, isHist ld.2 = isHist (newDist cfg k))
    ds name [] _ (fun x hx => h x hx) ?_ ?_ f hf
  · intro ld hld
    exact upsert_inv (fun (_ : List Str) (d : Dist) => isHist d = isHist (newDist cfg name)) [] labels _ _
      (fun x hx => by cases hx) (isHist_recordMany _ _) (fun a ha => by rw [isHist_recordMany]; exact ha) ld hld
  · intro a ha ld hld
    exact upsert_inv (fun (_ : List Str) (d : Dist) => isHist d = isHist (newDist cfg name)) a labels _ _
      (fun x hx => ha x hx) (isHist_recordMany _ _) (fun a ha => by rw [isHist_recordMany]; exact ha) ld hld

theorem drain_kind (s : St) (h : KindInv s.cfg s.dists) : KindInv (drain s).cfg (drain s).dists := by
  rw [drain_cfg, drain_dists]
  exact foldl_inv (KindInv s.cfg) (fun _ => True) (drainOne s.cfg) s.hists
    (fun b a hb _ => drainOne_kind s.cfg b a hb) s.dists h (fun _ _ => trivial)

theorem step_kind (s : St) (op : Op) (h : KindInv s.cfg s.dists) : KindInv (step s op).cfg (step s op).dists := by
  cases op with
  | describe n u d => simp only [step]; split <;> exact h
  | cinc k n => exact h
  | cabs k n => exact h
  | gset k v => exact h
  | gadd k n => exact h
  | hrec k v => exact h
  | hrecMany k v n => exact h
  | upkeep => exact drain_kind s h

theorem run_kind (ops : List Op) : ∀ s : St, KindInv s.cfg s.dists → KindInv (run s ops).cfg (run s ops).dists := by
  induction ops with
  | nil => intro s h; exact h
  | cons op ops ih => intro s h; simp only [run, List.foldl_cons] at ih ⊢; exact ih _ (step_kind s op h)

/-! ### the guarded builder -/

theorem foldlM_checked (calls : List (Matcher × List Int)) :
    ∀ (ovs0 ovs : List (Matcher × List Int)), (∀ x ∈ ovs0, x.2 ≠ []) →
      calls.foldlM (fun ovs c => setBucketsForMetricChecked ovs c.1 c.2) ovs0 = some ovs →
      ovs = calls.foldl (fun ovs c => setBucketsForMetric ovs c.1 c.2) ovs0
      ∧ (∀ x ∈ ovs, x.2 ≠ []) ∧ (∀ c ∈ calls, c.2 ≠ []) := by
  induction calls with
  | nil =>
    intro ovs0 ovs h0 h
    simp only [List.foldlM_nil] at h
    cases h
    exact ⟨rfl, h0, by simp⟩
  | cons c cs ih =>
    intro ovs0 ovs h0 h
    simp only [List.foldlM_cons] at h
    by_cases hc : c.2 = []
    · simp [setBucketsForMetricChecked, guardNonEmpty, hc] at h
    · have hlen : guardNonEmpty c.2.length = true := by
        simp only [guardNonEmpty, bne_iff_ne, ne_eq, List.length_eq_zero_iff]; exact hc
      have e1 : setBucketsForMetricChecked ovs0 c.1 c.2 = some (setBucketsForMetric ovs0 c.1 c.2) := by
        simp only [setBucketsForMetricChecked, hlen, if_true]
      rw [e1] at h
      have h0' : ∀ x ∈ setBucketsForMetric ovs0 c.1 c.2, x.2 ≠ [] := by
        unfold setBucketsForMetric
        exact upsert_inv (fun (_ : Matcher) (a : List Int) => a ≠ []) ovs0 _ [] _ (fun x hx => h0 x hx) hc (fun _ _ => hc)
      obtain ⟨e, h1, h2⟩ := ih _ ovs h0' (by simpa using h)
      refine ⟨by simpa [List.foldl_cons] using e, h1, ?_⟩
      intro c' hc'
      rcases List.mem_cons.mp hc' with rfl | hm
      · exact hc
      · exact h2 c' hm

end MetricsVerif.DistBuilder
