/-
Helper lemmas for C15, part (a): `Model/Histogram.lean`.
-/
import MetricsVerif.Model.Histogram

namespace MetricsVerif.Histogram

/-! ### the order -/

theorem FV.le_trans {a b c : FV} (h1 : a.le b = true) (h2 : b.le c = true) : a.le c = true := by
  cases a <;> cases b <;> cases c <;> simp_all [FV.le] <;> omega

theorem FV.le_total (a b : FV) (ha : a ≠ .nan) (hb : b ≠ .nan) : a.le b = true ∨ b.le a = true := by
  cases a <;> cases b <;> simp_all [FV.le] <;> omega

theorem FV.le_refl (a : FV) (ha : a ≠ .nan) : a.le a = true := by
  cases a <;> simp_all [FV.le]

theorem FV.le_antisymm {a b : FV} (h1 : a.le b = true) (h2 : b.le a = true) : a = b := by
  cases a <;> cases b <;> simp_all [FV.le] <;> omega

theorem FV.nan_le (b : FV) : FV.le .nan b = false := by cases b <;> rfl
theorem FV.le_nan (a : FV) : FV.le a .nan = false := by cases a <;> rfl

/-- ascending bounds: every earlier bound is `<=` every later one (in particular no bound is NaN, unless it is
    the only one; duplicates and ±∞ are allowed) -/
def Ascending (bs : List FV) : Prop := bs.Pairwise (fun a b => a.le b = true)

instance : DecidablePred Ascending := fun bs => by unfold Ascending; infer_instance

/-! ### lengths -/

@[simp] theorem bumpAll_length (x : FV) : ∀ (bs : List FV) (cs : List Nat), (bumpAll x bs cs).length = cs.length
  | [], cs => by simp [bumpAll]
  | _ :: _, [] => by simp [bumpAll]
  | _ :: bs, _ :: cs => by simp [bumpAll, bumpAll_length x bs cs]

@[simp] theorem bumpFirst_length (x : FV) : ∀ (bs : List FV) (cs : List Nat), (bumpFirst x bs cs).length = cs.length
  | [], cs => by simp [bumpFirst]
  | _ :: _, [] => by simp [bumpFirst]
  | b :: bs, c :: cs => by
    simp only [bumpFirst]; split <;> simp [bumpFirst_length x bs cs]

@[simp] theorem prefixFrom_length : ∀ (acc : Nat) (cs : List Nat), (prefixFrom acc cs).length = cs.length
  | _, [] => rfl
  | acc, c :: cs => by simp [prefixFrom, prefixFrom_length (acc + c) cs]

theorem mergeInto_length : ∀ (cs ls : List Nat), cs.length = ls.length → (mergeInto cs ls).length = cs.length
  | [], [], _ => rfl
  | [], _ :: _, h => by simp at h
  | _ :: _, [], h => by simp at h
  | c :: cs, l :: ls, h => by
    simp only [List.length_cons, Nat.add_right_cancel_iff] at h
    simp [mergeInto, mergeInto_length cs ls h]

/-! ### `record_many`'s bucketing agrees with `record`'s for ascending bounds -/

theorem bumpAll_of_all_le (x : FV) : ∀ (bs : List FV) (cs : List Nat), (∀ b ∈ bs, x.le b = true) →
    bs.length = cs.length → bumpAll x bs cs = cs.map (· + 1)
  | [], [], _, _ => rfl
  | [], _ :: _, _, h => by simp at h
  | _ :: _, [], _, h => by simp at h
  | b :: bs, c :: cs, hall, h => by
    simp only [List.length_cons, Nat.add_right_cancel_iff] at h
    have hb : x.le b = true := hall b (by simp)
    simp [bumpAll, hb, bumpAll_of_all_le x bs cs (fun b' hb' => hall b' (by simp [hb'])) h]

theorem prefixFrom_succ : ∀ (acc : Nat) (cs : List Nat), prefixFrom (acc + 1) cs = (prefixFrom acc cs).map (· + 1)
  | _, [] => rfl
  | acc, c :: cs => by
    simp only [prefixFrom, List.map_cons]
    have : acc + 1 + c = acc + c + 1 := by omega
    rw [this, prefixFrom_succ (acc + c) cs]

/-- the heart of `record_many`: bumping the first fitting bucket and then taking running sums is the same as
    taking running sums and then bumping every fitting bucket — when the bounds ascend -/
theorem prefixFrom_bumpFirst (x : FV) : ∀ (bs : List FV) (cs : List Nat) (acc : Nat), Ascending bs →
    bs.length = cs.length → prefixFrom acc (bumpFirst x bs cs) = bumpAll x bs (prefixFrom acc cs)
  | [], [], _, _, _ => rfl
  | [], _ :: _, _, _, h => by simp at h
  | _ :: _, [], _, _, h => by simp at h
  | b :: bs, c :: cs, acc, hasc, h => by
    simp only [List.length_cons, Nat.add_right_cancel_iff] at h
    have hasc' : Ascending bs := (List.pairwise_cons.mp hasc).2
    have hhead : ∀ b' ∈ bs, b.le b' = true := (List.pairwise_cons.mp hasc).1
    by_cases hb : x.le b = true
    · have hall : ∀ b' ∈ bs, x.le b' = true := fun b' hb' => FV.le_trans hb (hhead b' hb')
      simp only [bumpFirst, hb, if_true, prefixFrom, bumpAll]
      have e : acc + (c + 1) = acc + c + 1 := by omega
      rw [e, prefixFrom_succ, bumpAll_of_all_le x bs _ hall (by simp [h])]
    · have hb' : x.le b = false := by simpa using hb
      simp only [bumpFirst, hb', prefixFrom, bumpAll, Bool.false_eq_true, if_false]
      rw [prefixFrom_bumpFirst x bs cs (acc + c) hasc' h]

theorem mergeInto_bumpAll (x : FV) : ∀ (bs : List FV) (B P : List Nat), bs.length = B.length → B.length = P.length →
    mergeInto B (bumpAll x bs P) = bumpAll x bs (mergeInto B P)
  | [], [], [], _, _ => rfl
  | [], _ :: _, _, h, _ => by simp at h
  | _ :: _, [], _, h, _ => by simp at h
  | _, _ :: _, [], _, h => by simp at h
  | [], [], _ :: _, _, h => by simp at h
  | b :: bs, c :: B, p :: P, h1, h2 => by
    simp only [List.length_cons, Nat.add_right_cancel_iff] at h1 h2
    simp only [bumpAll, mergeInto, mergeInto_bumpAll x bs B P h1 h2]
    split <;> simp <;> omega

theorem prefixFrom_zeros : ∀ (cs : List Nat), prefixFrom 0 (cs.map (fun _ => 0)) = cs.map (fun _ => 0)
  | [] => rfl
  | _ :: cs => by simp [prefixFrom, prefixFrom_zeros cs]

theorem mergeInto_zeros : ∀ (cs : List Nat), mergeInto cs (cs.map (fun _ => 0)) = cs
  | [] => rfl
  | _ :: cs => by simp [mergeInto, mergeInto_zeros cs]

/-! ### sums -/

theorem FSum.plus_zero (a : FSum) : a.plus {} = a := by
  cases a; simp [FSum.plus]

theorem FSum.plus_add (a b : FSum) (x : FV) : a.plus (b.add x) = (a.plus b).add x := by
  cases x <;> simp [FSum.plus, FSum.add, Int.add_assoc]

/-! ### well-formed histograms -/

/-- one count per bound — true of everything `Histogram::new` returns and preserved by both record functions -/
def Hist.WF (h : Hist) : Prop := h.bounds.length = h.buckets.length

theorem Hist.new_wf {bounds : List FV} {h : Hist} (e : Hist.new bounds = some h) : h.WF ∧ h.bounds = bounds := by
  unfold Hist.new at e
  split at e
  · cases e
  · cases e; simp [Hist.WF]

theorem Hist.record_wf {h : Hist} (x : FV) (w : h.WF) : (h.record x).WF := by
  simp [Hist.WF, Hist.record] at *; exact w

@[simp] theorem Hist.record_bounds (h : Hist) (x : FV) : (h.record x).bounds = h.bounds := rfl
@[simp] theorem Hist.recordMany_bounds (h : Hist) (xs : List FV) : (h.recordMany xs).bounds = h.bounds := rfl

theorem Hist.recordAll_bounds (xs : List FV) : ∀ h : Hist, (h.recordAll xs).bounds = h.bounds := by
  induction xs with
  | nil => intro h; rfl
  | cons x xs ih => intro h; simp only [Hist.recordAll, List.foldl_cons] at ih ⊢; rw [ih]; rfl

theorem Hist.recordAll_wf (xs : List FV) : ∀ h : Hist, h.WF → (h.recordAll xs).WF := by
  induction xs with
  | nil => intro h w; exact w
  | cons x xs ih => intro h w; simp only [Hist.recordAll, List.foldl_cons] at ih ⊢; exact ih _ (Hist.record_wf x w)

/-- the fields after recording one by one -/
theorem Hist.recordAll_fields (xs : List FV) : ∀ h : Hist,
    (h.recordAll xs).buckets = xs.foldl (fun cs x => bumpAll x h.bounds cs) h.buckets
    ∧ (h.recordAll xs).sum = xs.foldl FSum.add h.sum
    ∧ (h.recordAll xs).count = h.count + xs.length := by
  induction xs with
  | nil => intro h; simp [Hist.recordAll]
  | cons x xs ih =>
    intro h
    have := ih (h.record x)
    simp only [Hist.recordAll, List.foldl_cons, List.length_cons] at this ⊢
    refine ⟨this.1, this.2.1, ?_⟩
    rw [this.2.2]; simp [Hist.record]; omega

/-- the loop of `record_many`, against the loop of `record` -/
theorem batch_fold (bounds : List FV) (hasc : Ascending bounds) (B : List Nat) (hB : bounds.length = B.length)
    (S : FSum) (xs : List FV) : ∀ b : Batch, b.bucketed.length = B.length →
    let b' := xs.foldl (Batch.step bounds) b
    mergeInto B (prefixSum b'.bucketed) = xs.foldl (fun cs x => bumpAll x bounds cs) (mergeInto B (prefixSum b.bucketed))
    ∧ S.plus b'.sum = xs.foldl FSum.add (S.plus b.sum)
    ∧ b'.count = b.count + xs.length := by
  induction xs with
  | nil => intro b _; simp
  | cons x xs ih =>
    intro b hb
    have hb' : (Batch.step bounds b x).bucketed.length = B.length := by simp [Batch.step, hb]
    have := ih (Batch.step bounds b x) hb'
    simp only [List.foldl_cons, List.length_cons] at this ⊢
    refine ⟨?_, ?_, ?_⟩
    · rw [this.1]
      congr 1
      simp only [Batch.step, prefixSum]
      rw [prefixFrom_bumpFirst x bounds b.bucketed 0 hasc (by omega), mergeInto_bumpAll x bounds B _ hB (by simp [hb])]
    · rw [this.2.1]; simp [Batch.step, FSum.plus_add]
    · rw [this.2.2]; simp [Batch.step]; omega

/-- **`record_many` = `record` one by one** (whole state: buckets, count, exact sum) for ascending bounds -/
theorem Hist.recordMany_eq_recordAll (h : Hist) (w : h.WF) (hasc : Ascending h.bounds) (xs : List FV) :
    h.recordMany xs = h.recordAll xs := by
  have hz : (h.buckets.map (fun _ => (0 : Nat))).length = h.buckets.length := by simp
  have := batch_fold h.bounds hasc h.buckets w h.sum xs { bucketed := h.buckets.map (fun _ => 0) } hz
  have f := Hist.recordAll_fields xs h
  have hb := Hist.recordAll_bounds xs h
  simp only [prefixSum, prefixFrom_zeros, mergeInto_zeros, FSum.plus_zero] at this
  cases hr : h.recordAll xs with
  | mk bo bu co su =>
    rw [hr] at f hb
    simp only at f hb
    simp only [Hist.recordMany, prefixSum, this.1, this.2.1, this.2.2]
    rw [f.1, f.2.1, f.2.2, hb]
    simp

/-! ### what the buckets count -/

theorem foldl_bumpAll_nil (xs : List FV) (cs : List Nat) : xs.foldl (fun cs x => bumpAll x [] cs) cs = cs := by
  induction xs generalizing cs with
  | nil => rfl
  | cons x xs ih => simp only [List.foldl_cons, bumpAll]; exact ih cs

theorem foldl_bumpAll_cons (b : FV) (bs : List FV) (xs : List FV) : ∀ (c : Nat) (cs : List Nat),
    xs.foldl (fun cs x => bumpAll x (b :: bs) cs) (c :: cs)
      = (c + xs.countP (fun x => x.le b)) :: xs.foldl (fun cs x => bumpAll x bs cs) cs := by
  induction xs with
  | nil => intro c cs; simp
  | cons x xs ih =>
    intro c cs
    simp only [List.foldl_cons, bumpAll, List.countP_cons]
    rw [ih]
    by_cases hx : x.le b = true <;> simp [hx] <;> omega

theorem foldl_bumpAll_zeros (xs : List FV) : ∀ bs : List FV,
    xs.foldl (fun cs x => bumpAll x bs cs) (bs.map (fun _ => 0)) = bs.map (fun b => xs.countP (fun x => x.le b))
  | [] => by simp [foldl_bumpAll_nil]
  | b :: bs => by
    simp only [List.map_cons]
    rw [foldl_bumpAll_cons, foldl_bumpAll_zeros xs bs]; simp

/-! ### pointwise `≤` on bucket vectors -/

def leAll : List Nat → List Nat → Prop
  | [], [] => True
  | a :: as, b :: bs => a ≤ b ∧ leAll as bs
  | _, _ => False

theorem leAll_refl : ∀ l : List Nat, leAll l l
  | [] => trivial
  | _ :: l => ⟨Nat.le_refl _, leAll_refl l⟩

theorem leAll_trans : ∀ {a b c : List Nat}, leAll a b → leAll b c → leAll a c
  | [], [], [], _, _ => trivial
  | _ :: _, _ :: _, _ :: _, h1, h2 => ⟨Nat.le_trans h1.1 h2.1, leAll_trans h1.2 h2.2⟩
  | [], [], _ :: _, _, h2 => by simp [leAll] at h2
  | [], _ :: _, _, h1, _ => by simp [leAll] at h1
  | _ :: _, [], _, h1, _ => by simp [leAll] at h1
  | _ :: _, _ :: _, [], _, h2 => by simp [leAll] at h2

theorem leAll_mergeInto : ∀ (cs ls : List Nat), cs.length = ls.length → leAll cs (mergeInto cs ls)
  | [], [], _ => trivial
  | [], _ :: _, h => by simp at h
  | _ :: _, [], h => by simp at h
  | c :: cs, l :: ls, h => by
    simp only [List.length_cons, Nat.add_right_cancel_iff] at h
    exact ⟨Nat.le_add_right _ _, leAll_mergeInto cs ls h⟩

theorem leAll_getD {a b : List Nat} (h : leAll a b) (i : Nat) : a.getD i 0 ≤ b.getD i 0 := by
  induction a generalizing b i with
  | nil => cases b with
    | nil => simp
    | cons _ _ => simp [leAll] at h
  | cons x a ih => cases b with
    | nil => simp [leAll] at h
    | cons y b =>
      cases i with
      | zero => simpa using h.1
      | succ i => simpa using ih h.2 i

theorem batch_bucketed_length (bounds : List FV) (xs : List FV) : ∀ b : Batch,
    (xs.foldl (Batch.step bounds) b).bucketed.length = b.bucketed.length := by
  induction xs with
  | nil => intro b; rfl
  | cons x xs ih => intro b; simp only [List.foldl_cons]; rw [ih]; simp [Batch.step]

theorem Hist.recordMany_wf {h : Hist} (xs : List FV) (w : h.WF) : (h.recordMany xs).WF := by
  simp only [Hist.WF, Hist.recordMany] at *
  rw [mergeInto_length]
  · exact w
  · simp [prefixSum, batch_bucketed_length]

/-- for ANY bounds: a batch never lowers a bucket -/
theorem Hist.recordMany_leAll (h : Hist) (xs : List FV) : leAll h.buckets (h.recordMany xs).buckets := by
  simp only [Hist.recordMany]
  apply leAll_mergeInto
  simp [prefixSum, batch_bucketed_length]

end MetricsVerif.Histogram
