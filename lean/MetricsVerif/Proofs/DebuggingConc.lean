/-
Helper lemmas for the concurrent `DebuggingRecorder` machine (`Model/DebuggingConc`): the invariant that ties
every handle held by any thread, every logged cell operation and `seen` to the registry's CURRENT map, and its
preservation by every step of every thread.
-/
import MetricsVerif.Model.DebuggingConc
import MetricsVerif.Proofs.Registry

namespace MetricsVerif.DebuggingConc
open MetricsVerif MetricsVerif.Registry

variable {K : Type}

/-! ### facts about the registry's map (`readSection`) -/

/-- a storage is found under one kind and one key class only -/
theorem read_inj {ko : KeyOps K} (L : KeyLaws ko) (r : Reg K) (hinv : Inv ko r) {kd kd' : Kind} {k k' : K} {i : Nat}
    (h : readSection ko r kd k = some i) (h' : readSection ko r kd' k' = some i) :
    kd = kd' ∧ ko.eqv k k' = true := by
  obtain ⟨e, he, hk, hid⟩ := (entries_lookup L r hinv kd k i).mpr h
  obtain ⟨e', he', hk', hid'⟩ := (entries_lookup L r hinv kd' k' i).mpr h'
  obtain ⟨j, hj⟩ := (mem_entries r kd e).mp he
  obtain ⟨j', hj'⟩ := (mem_entries r kd' e').mp he'
  obtain ⟨h1, h2⟩ := hinv.idinj _ _ _ _ _ _ hj hj' (hid.trans hid'.symm)
  exact ⟨h1, L.trans _ _ _ (L.trans _ _ _ hk h2) (L.symm _ _ hk')⟩

/-- a storage in the map was made by the factory -/
theorem read_lt {ko : KeyOps K} (L : KeyLaws ko) (r : Reg K) (hinv : Inv ko r) {kd : Kind} {k : K} {i : Nat}
    (h : readSection ko r kd k = some i) : i < r.next := by
  obtain ⟨e, he, _, hid⟩ := (entries_lookup L r hinv kd k i).mpr h
  obtain ⟨j, hj⟩ := (mem_entries r kd e).mp he
  exact hid ▸ hinv.fresh _ _ _ hj

/-- the write section when the key is (still) absent: a new storage `next` under `(kd, k)`, nothing else moves -/
theorem write_absent {ko : KeyOps K} (L : KeyLaws ko) (r : Reg K) (hinv : Inv ko r) (kd : Kind) (k : K)
    (h : readSection ko r kd k = none) :
    Inv ko (writeSection ko r kd k).1 ∧ (writeSection ko r kd k).2 = r.next
    ∧ (writeSection ko r kd k).1.next = r.next + 1
    ∧ ∀ kd' k', readSection ko (writeSection ko r kd k).1 kd' k'
        = if kd' = kd ∧ ko.eqv k k' = true then some r.next else readSection ko r kd' k' := by
  have hl := (readSection_none_iff ko r kd k).mp h
  have hw : writeSection ko r kd k
      = ((r.setShard kd (ko.hash k) (r.shard kd (ko.hash k) ++ [⟨k, ko.hash k, r.next⟩])).bump, r.next) := by
    unfold writeSection
    simp only [hl]
  rw [hw]
  exact ⟨insert_inv L r hinv kd k hl, rfl, by simp, fun kd' k' => read_after_insert L r kd k (hinv.len kd) hl kd' k'⟩

/-- the write section when another thread has created the entry meanwhile: the re-check finds it -/
theorem write_present (ko : KeyOps K) (r : Reg K) (kd : Kind) (k : K) (i : Nat)
    (h : readSection ko r kd k = some i) : writeSection ko r kd k = (r, i) := by
  unfold readSection at h
  unfold writeSection
  cases hl : lookup ko (r.shard kd (ko.hash k)) (ko.hash k) k with
  | none => simp [hl] at h
  | some e => simp [hl] at h; simp only [hl, h]

/-! ### `seen` -/

theorem sameMetric_congr {ko : KeyOps K} (L : KeyLaws ko) (kd : Kind) {k k' : K} (h : ko.eqv k k' = true)
    (e : Kind × K) : sameMetric ko kd k' e = sameMetric ko kd k e := by
  unfold sameMetric
  cases hk : ko.eqv k e.2 with
  | true => rw [L.trans _ _ _ (L.symm _ _ h) hk]
  | false =>
    cases hk' : ko.eqv k' e.2 with
    | false => rfl
    | true => rw [L.trans _ _ _ h hk'] at hk; cases hk

theorem seenHas_congr {ko : KeyOps K} (L : KeyLaws ko) (seen : List (Kind × K)) (kd : Kind) {k k' : K}
    (h : ko.eqv k k' = true) : seenHas ko seen kd k' = seenHas ko seen kd k := by
  unfold seenHas
  congr 1
  funext e
  exact sameMetric_congr L kd h e

theorem seenHas_track_mono (ko : KeyOps K) (seen : List (Kind × K)) (kd kd' : Kind) (k k' : K)
    (h : seenHas ko seen kd' k' = true) : seenHas ko (track ko seen kd k) kd' k' = true := by
  unfold track
  split
  · exact h
  · unfold seenHas at h ⊢
    rw [List.any_append, h]; rfl

theorem seenHas_track_self {ko : KeyOps K} (L : KeyLaws ko) (seen : List (Kind × K)) (kd : Kind) (k : K) :
    seenHas ko (track ko seen kd k) kd k = true := by
  unfold track
  split
  · assumption
  · unfold seenHas
    rw [List.any_append]
    simp [sameMetric, L.refl]

/-! ### the invariant -/

/-- the part of the invariant that does not mention threads -/
structure GInv (ko : KeyOps K) (s : CSys K) : Prop where
  /-- the registry invariant of C06 (one entry per kind and key class, storages not shared) -/
  reg : Inv ko s.reg
  /-- one cell per storage the factory made -/
  len : s.cells.length = s.reg.next
  /-- every logged cell operation went through a key the registry holds -/
  logged : ∀ e ∈ s.ulog, readSection ko s.reg e.kd e.key ≠ none
  /-- the cell the registry holds for `(kd, k)` has seen exactly the operations logged for `(kd, k)` -/
  fold : ∀ kd k i, readSection ko s.reg kd k = some i → s.cells[i]? = some (foldCell kd (keyLog ko s.ulog kd k))
  /-- a key in the registry was tracked before (`track_metric` precedes `get_or_create_*`) -/
  tracked : ∀ kd k, readSection ko s.reg kd k ≠ none → seenHas ko s.seen kd k = true

/-- the part about one thread -/
structure TInv (ko : KeyOps K) (s : CSys K) (t : CThread K) : Prop where
  /-- **every handle is the cell the registry holds NOW for the handle's key** -/
  handles : ∀ h ∈ t.handles, readSection ko s.reg h.kd h.key = some h.id
  /-- inside `get_or_create_*` the key has been tracked -/
  pcs : (t.pc = .gocRead ∨ t.pc = .gocWrite) →
    ∃ kd k rest, t.calls = .register kd k :: rest ∧ seenHas ko s.seen kd k = true

structure CInv (ko : KeyOps K) (s : CSys K) : Prop where
  g : GInv ko s
  t : ∀ t ∈ s.threads, TInv ko s t

/-- the registry's map and `seen` only grow -/
structure Ext (ko : KeyOps K) (s s' : CSys K) : Prop where
  reads : ∀ kd k i, readSection ko s.reg kd k = some i → readSection ko s'.reg kd k = some i
  seen : ∀ kd k, seenHas ko s.seen kd k = true → seenHas ko s'.seen kd k = true

theorem Ext.refl (ko : KeyOps K) (s : CSys K) : Ext ko s s := ⟨fun _ _ _ h => h, fun _ _ h => h⟩

theorem Ext.trans {ko : KeyOps K} {a b c : CSys K} (h1 : Ext ko a b) (h2 : Ext ko b c) : Ext ko a c :=
  ⟨fun kd k i h => h2.reads kd k i (h1.reads kd k i h), fun kd k h => h2.seen kd k (h1.seen kd k h)⟩

theorem TInv.ext {ko : KeyOps K} {s s' : CSys K} {t : CThread K} (h : TInv ko s t) (e : Ext ko s s') : TInv ko s' t :=
  ⟨fun hd hm => e.reads _ _ _ (h.handles hd hm),
   fun hp => by obtain ⟨kd, k, rest, h1, h2⟩ := h.pcs hp; exact ⟨kd, k, rest, h1, e.seen _ _ h2⟩⟩

theorem TInv.advance {ko : KeyOps K} {s : CSys K} {t : CThread K} (h : TInv ko s t) : TInv ko s t.advance := by
  refine ⟨h.handles, fun hp => ?_⟩
  simp only [CThread.advance] at hp
  split at hp <;> rcases hp with hp | hp <;> cases hp

theorem keyLog_append (ko : KeyOps K) (l : List (ULog K)) (e : ULog K) (kd : Kind) (k : K) :
    keyLog ko (l ++ [e]) kd k = keyLog ko l kd k ++ (if sameMetric ko kd k (e.kd, e.key) then [e.upd] else []) := by
  unfold keyLog
  rw [List.filter_append, List.map_append]
  congr 1
  by_cases h : sameMetric ko kd k (e.kd, e.key) = true <;> simp [h]

/-- **one operation on the cell the registry holds for `(kd, k)`** keeps the global invariant -/
theorem cellOp_ginv {ko : KeyOps K} (L : KeyLaws ko) (s : CSys K) (hg : GInv ko s) (kd : Kind) (k : K) (i : Nat)
    (u : Upd) (hr : readSection ko s.reg kd k = some i) : GInv ko (cellOp s kd k i u) := by
  have hc := hg.fold kd k i hr
  have hlt : i < s.cells.length := by
    rcases Nat.lt_or_ge i s.cells.length with h | h
    · exact h
    · rw [List.getElem?_eq_none h] at hc; cases hc
  refine ⟨hg.reg, ?_, ?_, ?_, hg.tracked⟩
  · simp only [cellOp, hc, setAt_length]; exact hg.len
  · intro e he
    simp only [cellOp, List.mem_append, List.mem_singleton] at he
    rcases he with he | rfl
    · exact hg.logged e he
    · simp only [cellOp]; rw [hr]; simp
  · intro kd' k' i' hr'
    change readSection ko s.reg kd' k' = some i' at hr'
    have hold := hg.fold kd' k' i' hr'
    simp only [cellOp, hc]
    rw [keyLog_append, getElem?_setAt]
    by_cases hi : i = i'
    · subst hi
      obtain ⟨h1, h2⟩ := read_inj L s.reg hg.reg hr hr'
      subst h1
      have hm : sameMetric ko kd k' (kd, k) = true := by simp [sameMetric, L.symm _ _ h2]
      simp only [hm, if_true, hlt, and_self]
      rw [hc] at hold
      injection hold with hold
      simp only [foldCell, List.foldl_append, List.foldl_cons, List.foldl_nil]
      simp only [foldCell] at hold
      rw [← hold]
    · have hm : sameMetric ko kd' k' (kd, k) = false := by
        cases hm : sameMetric ko kd' k' (kd, k) with
        | false => rfl
        | true =>
          simp only [sameMetric, Bool.and_eq_true, decide_eq_true_eq] at hm
          obtain ⟨h1, h2⟩ := hm
          subst h1
          have := readSection_congr L s.reg kd h2
          rw [this, hr'] at hr
          injection hr with hr
          exact absurd hr.symm hi
      simp [hm, hi, hold]

theorem cellOp_ext (ko : KeyOps K) (s : CSys K) (kd : Kind) (k : K) (i : Nat) (u : Upd) :
    Ext ko s (cellOp s kd k i u) := ⟨fun _ _ _ h => h, fun _ _ h => h⟩

theorem cellOp_threads (s : CSys K) (kd : Kind) (k : K) (i : Nat) (u : Upd) : (cellOp s kd k i u).threads = s.threads := rfl

/-- draining the histograms reached through a list of `seen` elements -/
theorem drain_ginv {ko : KeyOps K} (L : KeyLaws ko) (l : List (Kind × K)) : ∀ s : CSys K, GInv ko s →
    GInv ko (l.foldl (drainOne ko) s) ∧ Ext ko s (l.foldl (drainOne ko) s)
    ∧ (l.foldl (drainOne ko) s).threads = s.threads := by
  induction l with
  | nil => intro s hg; exact ⟨hg, Ext.refl ko s, rfl⟩
  | cons e es ih =>
    intro s hg
    simp only [List.foldl_cons]
    have h1 : GInv ko (drainOne ko s e) ∧ Ext ko s (drainOne ko s e) ∧ (drainOne ko s e).threads = s.threads := by
      unfold drainOne
      split
      · next hk hr => exact ⟨cellOp_ginv L s hg _ _ _ _ (hk ▸ hr), cellOp_ext ko s _ _ _ _, rfl⟩
      · exact ⟨hg, Ext.refl ko s, rfl⟩
    obtain ⟨a, b, c⟩ := ih _ h1.1
    exact ⟨a, h1.2.1.trans b, c.trans h1.2.2⟩

/-- the write section (with the storage factory) keeps the global invariant, returns the cell the registry now
    holds for the key, and the map only grows -/
theorem create_ginv {ko : KeyOps K} (L : KeyLaws ko) (s : CSys K) (hg : GInv ko s) (kd : Kind) (k : K)
    (hseen : seenHas ko s.seen kd k = true) :
    GInv ko (create ko s kd k).1 ∧ Ext ko s (create ko s kd k).1
    ∧ readSection ko (create ko s kd k).1.reg kd k = some (create ko s kd k).2
    ∧ (create ko s kd k).1.threads = s.threads ∧ (create ko s kd k).1.seen = s.seen := by
  cases hr : readSection ko s.reg kd k with
  | some i =>
    have hw := write_present ko s.reg kd k i hr
    have hs : create ko s kd k = (s, i) := by
      unfold create
      simp only [hw, Nat.sub_self, List.replicate_zero, List.append_nil]
    rw [hs]
    exact ⟨hg, Ext.refl ko s, hr, rfl, rfl⟩
  | none =>
    obtain ⟨winv, wid, wnext, wread⟩ := write_absent L s.reg hg.reg kd k hr
    have hcells : (create ko s kd k).1.cells = s.cells ++ [fresh kd] := by
      simp only [create, wnext]
      rw [Nat.add_sub_cancel_left]; rfl
    have hreg : (create ko s kd k).1.reg = (writeSection ko s.reg kd k).1 := rfl
    have hid : (create ko s kd k).2 = s.reg.next := wid
    have hlog : (create ko s kd k).1.ulog = s.ulog := rfl
    have hsn : (create ko s kd k).1.seen = s.seen := rfl
    have hext : Ext ko s (create ko s kd k).1 := by
      refine ⟨fun kd' k' i h => ?_, fun _ _ h => by rw [hsn]; exact h⟩
      rw [hreg, wread]
      split
      · next hc =>
        obtain ⟨h1, h2⟩ := hc
        subst h1
        rw [readSection_congr L s.reg kd' h2, hr] at h; cases h
      · exact h
    refine ⟨⟨by rw [hreg]; exact winv, ?_, ?_, ?_, ?_⟩, hext, ?_, rfl, rfl⟩
    · rw [hcells, hreg, wnext, List.length_append, hg.len]; rfl
    · intro e he
      rw [hlog] at he
      have := hg.logged e he
      cases h : readSection ko s.reg e.kd e.key with
      | none => exact absurd h this
      | some i => rw [hext.reads _ _ _ h]; simp
    · intro kd' k' i h
      rw [hreg, wread] at h
      rw [hcells, hlog]
      split at h
      · next hc =>
        obtain ⟨h1, h2⟩ := hc
        subst h1
        injection h with h
        subst h
        -- nothing was logged for a key the registry did not hold
        have hnil : keyLog ko s.ulog kd' k' = [] := by
          unfold keyLog
          rw [List.map_eq_nil_iff, List.filter_eq_nil_iff]
          intro e he hm
          simp only [sameMetric, Bool.and_eq_true, decide_eq_true_eq] at hm
          have h3 := hg.logged e he
          rw [hm.1, readSection_congr L s.reg kd' hm.2, readSection_congr L s.reg kd' h2, hr] at h3
          exact h3 rfl
        rw [hnil, ← hg.len]
        simp [foldCell]
      · have hlt : i < s.cells.length := by rw [hg.len]; exact read_lt L s.reg hg.reg h
        rw [List.getElem?_append_left hlt]
        exact hg.fold kd' k' i h
    · intro kd' k' h
      rw [hsn]
      rw [hreg, wread] at h
      split at h
      · next hc =>
        obtain ⟨h1, h2⟩ := hc
        subst h1
        rw [seenHas_congr L s.seen kd' h2]; exact hseen
      · exact hg.tracked kd' k' h
    · rw [hreg, wread, hid]; simp [L.refl]

/-- **one step of one thread** keeps the global invariant and the thread's own, and the map and `seen` only grow -/
theorem stepThread_inv {ko : KeyOps K} (L : KeyLaws ko) (s : CSys K) (t : CThread K) (hg : GInv ko s)
    (ht : TInv ko s t) :
    GInv ko (stepThread ko s t).1 ∧ TInv ko (stepThread ko s t).1 (stepThread ko s t).2
    ∧ Ext ko s (stepThread ko s t).1 ∧ (stepThread ko s t).1.threads = s.threads := by
  unfold stepThread
  split
  · exact ⟨hg, ⟨ht.handles, fun hp => by rcases hp with hp | hp <;> cases hp⟩, Ext.refl ko s, rfl⟩
  · exact ⟨hg, ⟨ht.handles, fun hp => by rcases hp with hp | hp <;> cases hp⟩, Ext.refl ko s, rfl⟩
  · next kd k rest hpc hcalls =>
    have hext : Ext ko s { s with seen := track ko s.seen kd k } :=
      ⟨fun _ _ _ h => h, fun kd' k' h => seenHas_track_mono ko s.seen kd kd' k k' h⟩
    refine ⟨⟨hg.reg, hg.len, hg.logged, hg.fold, fun kd' k' h => hext.seen _ _ (hg.tracked kd' k' h)⟩,
      ⟨ht.handles, fun _ => ⟨kd, k, rest, hcalls, seenHas_track_self L s.seen kd k⟩⟩, hext, rfl⟩
  · next h u rest hpc hcalls =>
    split
    · next hd hh =>
      have hm : hd ∈ t.handles := List.mem_of_getElem? hh
      have hr := ht.handles hd hm
      exact ⟨cellOp_ginv L s hg _ _ _ u hr, (ht.advance).ext (cellOp_ext ko s _ _ _ _), cellOp_ext ko s _ _ _ _, rfl⟩
    · exact ⟨hg, ht.advance, Ext.refl ko s, rfl⟩
  · next rest hpc hcalls =>
    obtain ⟨a, b, c⟩ := drain_ginv L s.seen s hg
    refine ⟨a, ?_, b, c⟩
    have := (ht.advance).ext b
    exact ⟨this.handles, this.pcs⟩
  · next kd k rest hpc hcalls =>
    split
    · next i hr =>
      refine ⟨hg, ⟨?_, ?_⟩, Ext.refl ko s, rfl⟩
      · intro hd hm
        simp only [List.mem_append, List.mem_singleton] at hm
        rcases hm with hm | rfl
        · exact ht.handles hd hm
        · exact hr
      · exact (ht.advance).pcs
    · refine ⟨hg, ⟨ht.handles, fun _ => ?_⟩, Ext.refl ko s, rfl⟩
      obtain ⟨kd', k', rest', h1, h2⟩ := ht.pcs (Or.inl hpc)
      exact ⟨kd', k', rest', h1, h2⟩
  · next kd k rest hpc hcalls =>
    obtain ⟨kd', k', rest', h1, h2⟩ := ht.pcs (Or.inr hpc)
    rw [hcalls] at h1
    injection h1 with h1 _
    injection h1 with h1a h1b
    subst h1a; subst h1b
    obtain ⟨a, b, c, d, _⟩ := create_ginv L s hg kd k h2
    refine ⟨a, ⟨?_, ?_⟩, b, d⟩
    · intro hd hm
      simp only [List.mem_append, List.mem_singleton] at hm
      rcases hm with hm | rfl
      · exact b.reads _ _ _ (ht.handles hd hm)
      · exact c
    · exact ((ht.advance).ext b).pcs
  · exact ⟨hg, ht, Ext.refl ko s, rfl⟩

theorem GInv.of_threads {ko : KeyOps K} {s : CSys K} (h : GInv ko s) (ts : List (CThread K)) :
    GInv ko { s with threads := ts } := ⟨h.reg, h.len, h.logged, h.fold, h.tracked⟩

theorem TInv.of_threads {ko : KeyOps K} {s : CSys K} {v : CThread K} (h : TInv ko s v) (ts : List (CThread K)) :
    TInv ko { s with threads := ts } v := ⟨h.handles, h.pcs⟩

theorem step_inv {ko : KeyOps K} (L : KeyLaws ko) (s : CSys K) (h : CInv ko s) (tid : Nat) :
    CInv ko (step ko s tid) ∧ Ext ko s (step ko s tid) := by
  unfold step
  split
  · exact ⟨h, Ext.refl ko s⟩
  · next t hget =>
    have htm : t ∈ s.threads := List.mem_of_getElem? hget
    obtain ⟨a, b, c, d⟩ := stepThread_inv L s t h.g (h.t t htm)
    dsimp only
    refine ⟨⟨a.of_threads _, ?_⟩, ⟨c.reads, c.seen⟩⟩
    intro u hu
    rcases mem_setAt hu with hu | hu
    · rw [hu]; exact b.of_threads _
    · rw [d] at hu
      exact ((h.t u hu).ext c).of_threads _

theorem run_inv {ko : KeyOps K} (L : KeyLaws ko) (sched : List Nat) : ∀ s : CSys K, CInv ko s →
    CInv ko (run ko s sched) ∧ Ext ko s (run ko s sched) := by
  induction sched with
  | nil => intro s h; exact ⟨h, Ext.refl ko s⟩
  | cons x xs ih =>
    intro s h
    obtain ⟨a, b⟩ := step_inv L s h x
    obtain ⟨c, d⟩ := ih _ a
    exact ⟨c, b.trans d⟩

theorem readSection_new (ko : KeyOps K) (count : Nat) (kd : Kind) (k : K) :
    readSection ko (Reg.new count : Reg K) kd k = none := by
  have hget : (Reg.new count : Reg K).get kd = List.replicate count [] := by cases kd <;> rfl
  simp only [readSection, Reg.shard, hget, lookup, List.getD, List.getElem?_replicate]
  split <;> rfl

theorem init_inv (ko : KeyOps K) (count : Nat) (hc : 0 < count) (progs : List (List (CCall K))) :
    CInv ko (CSys.init count progs) := by
  refine ⟨⟨new_inv ko count hc, rfl, (fun e he => by cases he), fun kd k i h => ?_, fun kd k h => ?_⟩, fun t ht => ?_⟩
  · simp only [CSys.init] at h; rw [readSection_new] at h; cases h
  · simp only [CSys.init] at h; rw [readSection_new] at h; exact absurd rfl h
  · simp only [CSys.init, List.mem_map] at ht
    obtain ⟨p, _, rfl⟩ := ht
    exact ⟨(fun hd hm => by cases hm), fun hp => by rcases hp with hp | hp <;> cases hp⟩

end MetricsVerif.DebuggingConc
