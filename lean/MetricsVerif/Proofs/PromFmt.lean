/-
Helper lemmas for C08 (kept apart from the property statements in `Props/C08.lean`).
-/
import MetricsVerif.Model.PromFmt
import MetricsVerif.Model.Exposition
import MetricsVerif.Model.PromRender

namespace MetricsVerif.PromFmt
open MetricsVerif.Expo

/-! ### the two name sanitizers produce grammar-conforming names -/

theorem sanitizeWith_length (st rs : Char → Bool) (s : List Char) :
    (sanitizeWith st rs s).length = s.length := by
  cases s <;> simp [sanitizeWith]

theorem nameStart_underscore : nameStart '_' = true := by decide
theorem nameChar_underscore : nameChar '_' = true := by decide
theorem labelStart_underscore : labelStart '_' = true := by decide
theorem labelChar_underscore : labelChar '_' = true := by decide

theorem sanitizeMetricName_grammar (s : List Char) (h : s ≠ []) :
    IsMetricName (sanitizeMetricName s) = true := by
  cases s with
  | nil => exact absurd rfl h
  | cons c cs =>
    simp only [sanitizeMetricName, sanitizeWith, IsMetricName, Bool.and_eq_true, List.all_eq_true]
    constructor
    · by_cases hc : validNameStart c = true
      · rw [if_pos hc]; exact hc
      · simp [hc, nameStart_underscore]
    · intro x hx
      simp only [List.mem_map] at hx
      obtain ⟨y, _, rfl⟩ := hx
      by_cases hy : validNameChar y = true
      · rw [if_pos hy]; exact hy
      · simp [hy, nameChar_underscore]

theorem sanitizeLabelKey_grammar (s : List Char) (h : s ≠ []) :
    IsLabelName (sanitizeLabelKey s) = true := by
  cases s with
  | nil => exact absurd rfl h
  | cons c cs =>
    simp only [sanitizeLabelKey, sanitizeWith, IsLabelName, Bool.and_eq_true, List.all_eq_true]
    constructor
    · by_cases hc : validLabelStart c = true
      · rw [if_pos hc]; exact hc
      · simp [hc, labelStart_underscore]
    · intro x hx
      simp only [List.mem_map] at hx
      obtain ⟨y, _, rfl⟩ := hx
      by_cases hy : validLabelChar y = true
      · rw [if_pos hy]; exact hy
      · simp [hy, labelChar_underscore]

/-- characters that were already valid are kept: sanitising is the identity on grammar-conforming names -/
theorem sanitizeMetricName_id (s : List Char) (h : IsMetricName s = true) : sanitizeMetricName s = s := by
  cases s with
  | nil => rfl
  | cons c cs =>
    simp only [IsMetricName, Bool.and_eq_true, List.all_eq_true] at h
    simp only [sanitizeMetricName, sanitizeWith]
    have h1 : validNameStart c = true := by simpa [validNameStart, nameStart] using h.1
    rw [if_pos h1]
    congr 1
    have : ∀ x ∈ cs, (if validNameChar x = true then x else '_') = x := by
      intro x hx
      have : validNameChar x = true := by simpa [validNameChar, nameChar] using h.2 x hx
      simp [this]
    calc cs.map (fun c => if validNameChar c = true then c else '_') = cs.map id :=
          List.map_congr_left this
      _ = cs := List.map_id cs

/-! ### well-formed escaped text -/

/-- Token structure of escaped text. `d = true`: description (HELP docstring) mode, where `"` is an
    ordinary character; `d = false`: label-value mode. -/
inductive WF (d : Bool) : List Char → Prop
  | nil : WF d []
  | safe (c : Char) (t : List Char) : c ≠ '\\' → c ≠ '\n' → (d = false → c ≠ '"') → WF d t → WF d (c :: t)
  | escN (t : List Char) : WF d t → WF d ('\\' :: 'n' :: t)
  | escB (t : List Char) : WF d t → WF d ('\\' :: '\\' :: t)
  | escQ (t : List Char) : d = false → WF d t → WF d ('\\' :: '"' :: t)

theorem escGo_wf (d : Bool) (s : List Char) : ∀ p, WF d (escGo d p s) := by
  induction s with
  | nil => intro p; cases p <;> simp [escGo] <;> first | exact .nil | exact .escB _ .nil
  | cons c cs ih =>
    intro p
    unfold escGo
    split
    · exact .escN _ (ih p)
    · split
      · rename_i h; exact .escQ _ h.2 (ih false)
      · split
        · split
          · exact .escB _ (ih false)
          · exact ih true
        · rename_i h1 h2 h3
          have hq : d = false → c ≠ '"' := fun hd hc => h2 ⟨hc, hd⟩
          split
          · exact .escB _ (.safe c _ h3 h1 hq (ih false))
          · exact .safe c _ h3 h1 hq (ih false)

theorem sanitizeLabelValue_wf (s : List Char) : WF false (sanitizeLabelValue s) := escGo_wf false s false
theorem sanitizeDescription_wf (s : List Char) : WF true (sanitizeDescription s) := escGo_wf true s false

theorem WF.no_newline {d : Bool} {t : List Char} (h : WF d t) : '\n' ∉ t := by
  induction h with
  | nil => simp
  | safe c t _ h2 _ _ ih => simp only [List.mem_cons, not_or]; exact ⟨fun e => h2 e.symm, ih⟩
  | escN t _ ih => simp only [List.mem_cons, not_or]; exact ⟨by decide, by decide, ih⟩
  | escB t _ ih => simp only [List.mem_cons, not_or]; exact ⟨by decide, by decide, ih⟩
  | escQ t _ _ ih => simp only [List.mem_cons, not_or]; exact ⟨by decide, by decide, ih⟩

/-- description mode: the docstring checker of the reader accepts it -/
theorem WF.docOk {t : List Char} (h : WF true t) : docOk t = true := by
  unfold Expo.docOk
  induction h with
  | nil => rfl
  | safe c t h1 h2 _ _ ih => simp [docGo, h1, h2, ih]
  | escN t _ ih => simp [docGo, ih]
  | escB t _ ih => simp [docGo, ih]
  | escQ t hd _ _ => exact absurd hd (by decide)


/-! ### the reader on what the writer emits -/

theorem labelChar_ne {c : Char} (h : labelChar c = true) : c ≠ '=' ∧ c ≠ '}' := by
  constructor <;> (intro e; subst e; revert h; decide)

theorem nameChar_ne {c : Char} (h : nameChar c = true) : c ≠ '{' ∧ c ≠ ' ' := by
  constructor <;> (intro e; subst e; revert h; decide)

theorem labelsGo_val {t : List Char} (h : WF false t) (k rest : List Char) :
    ∀ acc ls, labelsGo (.val k acc) ls (t ++ '"' :: rest) = labelsGo .after (ls ++ [(k, acc ++ t)]) rest := by
  induction h with
  | nil => intro acc ls; simp [labelsGo]
  | safe c t h1 h2 h3 _ ih =>
    intro acc ls
    have h3' := h3 rfl
    simp [labelsGo, h1, h2, h3', ih]
  | escN t _ ih => intro acc ls; simp [labelsGo, ih]
  | escB t _ ih => intro acc ls; simp [labelsGo, ih]
  | escQ t _ _ ih => intro acc ls; simp [labelsGo, ih]

theorem labelsGo_key (k : List Char) (hk : k.all labelChar = true) (rest : List Char) :
    ∀ acc ls, labelsGo (.key acc) ls (k ++ rest) = labelsGo (.key (acc ++ k)) ls rest := by
  induction k with
  | nil => intro acc ls; simp
  | cons c cs ih =>
    intro acc ls
    simp only [List.all_cons, Bool.and_eq_true] at hk
    have := labelChar_ne hk.1
    simp [labelsGo, this.1, this.2, hk.1, ih hk.2]

/-- a formatted label `k="t"` -/
def labelStr (kt : List Char × List Char) : List Char := kt.1 ++ ['=', '"'] ++ kt.2 ++ ['"']

/-- a label the grammar accepts: name conforms, value text is well-formed escaped text -/
def LabelOk (kt : List Char × List Char) : Prop := IsLabelName kt.1 = true ∧ WF false kt.2

theorem IsLabelName.all {k : List Char} (h : IsLabelName k = true) : k.all labelChar = true := by
  cases k with
  | nil => simp [IsLabelName] at h
  | cons c cs =>
    simp only [IsLabelName, Bool.and_eq_true] at h
    simp only [List.all_cons, Bool.and_eq_true]
    refine ⟨?_, h.2⟩
    have := h.1
    simp only [labelStart, labelChar, Bool.or_eq_true] at this ⊢
    rcases this with h | h
    · left; simp [Char.isAlphanum, h]
    · right; exact h

theorem labelsGo_one (kt : List Char × List Char) (h : LabelOk kt) (ls : List _) (rest : List Char) :
    labelsGo (.key []) ls (labelStr kt ++ rest) = labelsGo .after (ls ++ [kt]) rest := by
  obtain ⟨k, t⟩ := kt
  obtain ⟨hk, ht⟩ := h
  simp only [labelStr, List.append_assoc]
  rw [labelsGo_key k (IsLabelName.all hk)]
  simp only [List.nil_append, List.cons_append]
  have := labelsGo_val ht k rest [] ls
  simp only [List.nil_append] at this
  simp [labelsGo, hk, this]

theorem labelsGo_all (lbls : List (List Char × List Char)) (hne : lbls ≠ [])
    (h : ∀ kt ∈ lbls, LabelOk kt) (rest : List Char) :
    ∀ ls, labelsGo (.key []) ls (joinComma (lbls.map labelStr) ++ '}' :: rest) = some (ls ++ lbls, rest) := by
  induction lbls with
  | nil => exact absurd rfl hne
  | cons kt more ih =>
    intro ls
    cases more with
    | nil =>
      simp only [List.map, joinComma]
      rw [labelsGo_one kt (h kt (by simp))]
      simp [labelsGo]
    | cons kt2 more2 =>
      simp only [List.map, joinComma, List.append_assoc, List.cons_append]
      rw [labelsGo_one kt (h kt (by simp))]
      simp only [labelsGo]
      have ih' := ih (by simp) (fun x hx => h x (by simp [hx])) (ls ++ [kt])
      simp only [List.map, List.append_assoc] at ih'
      simp [ih']

theorem spanName_append (n : List Char) (hn : n.all nameChar = true) (c : Char) (hc : nameChar c = false)
    (rest : List Char) : spanName (n ++ c :: rest) = (n, c :: rest) := by
  induction n with
  | nil => simp [spanName, hc]
  | cons x xs ih =>
    simp only [List.all_cons, Bool.and_eq_true] at hn
    simp [spanName, hn.1, ih hn.2]

theorem parseValue_token (v : List Char) (hv : IsToken v = true) : parseValue (' ' :: v ++ ['\n']) = some v := by
  simp [parseValue, hv]

theorem IsMetricName.all {n : List Char} (h : IsMetricName n = true) : n.all nameChar = true := by
  cases n with
  | nil => simp [IsMetricName] at h
  | cons c cs =>
    simp only [IsMetricName, Bool.and_eq_true] at h
    simp only [List.all_cons, Bool.and_eq_true]
    refine ⟨?_, h.2⟩
    have := h.1
    simp only [nameStart, nameChar, Bool.or_eq_true] at this ⊢
    rcases this with (h | h) | h
    · left; left; simp [Char.isAlphanum, h]
    · left; right; exact h
    · right; exact h

theorem joinComma_snoc (ls : List (List Char)) (e : List Char) :
    joinComma (ls ++ [e]) = joinComma ls ++ (if ls.isEmpty then [] else [',']) ++ e := by
  induction ls with
  | nil => simp [joinComma]
  | cons l more ih =>
    cases more with
    | nil => simp [joinComma]
    | cons m more2 =>
      simp only [List.cons_append, joinComma] at ih ⊢
      simp [ih]


/-- the label block `write_metric_line` writes is the comma-join of all labels incl. the additional one -/
theorem labelBlock_eq (lbls : List (List Char × List Char)) (extra : Option (List Char × List Char)) :
    labelBlock (lbls.map labelStr) extra
      = '{' :: joinComma ((lbls ++ extra.toList).map labelStr) ++ ['}'] := by
  unfold labelBlock
  cases extra with
  | none => simp
  | some kt =>
    obtain ⟨k, t⟩ := kt
    simp only [Option.toList, List.map_append, List.map, joinComma_snoc, labelStr]
    simp

end MetricsVerif.PromFmt
