/-
C05, snapshot completeness and "stays visible": what one step can do to the cells of a block (`CellsStep`), the
consequences for `Block::data` (only ever grows, as a prefix) and for the published values (never un-published),
and the invariant behind `C05.snapshot_complete`: in programs without clears, a `data_with` that began after a
value's publish step hands that value to its callback — whatever the interleaving, however long it has to wait.
The proof uses exactly the two facts the seeded "bounded wait" defect breaks: the reader leaves the wait loop ONLY
when the block is quiesced, and a quiesced block's `data()` is all of its claimed slots.
-/
import MetricsVerif.Proofs.BucketClear

namespace MetricsVerif.Bucket

/-! ### what one step does to the cells of a block -/

/-- the only three things a step can do to the cells of any one block: nothing, append a freshly written
    (unpublished) cell, publish one cell -/
def CellsStep (cs cs' : List Cell) : Prop :=
  cs' = cs ∨ (∃ v, cs' = cs ++ [Cell.written v]) ∨ ∃ i, cs' = publishCell cs i

theorem getBlock_setBlock (s : Sys) (blk : Nat) (b' : Block) (k : Nat) :
    getBlock (setBlock s blk b') k = if blk = k ∧ k < s.blocks.length then b' else getBlock s k := by
  unfold getBlock setBlock
  simp only [getElem?_setAt]
  split <;> simp

theorem getBlock_append (s : Sys) (nb : Block) (tl : Option Nat) (k : Nat) :
    getBlock { s with blocks := s.blocks ++ [nb], tail := tl } k
      = if k < s.blocks.length then getBlock s k else if k = s.blocks.length then nb else newBlock := by
  unfold getBlock
  simp only
  by_cases h1 : k < s.blocks.length
  · rw [List.getElem?_append_left h1]; simp [h1]
  · by_cases h2 : k = s.blocks.length
    · subst h2; simp
    · have h3 : (s.blocks ++ [nb]).length ≤ k := by simp; omega
      rw [List.getElem?_eq_none h3]; simp [h1, h2]

theorem getBlock_of_ge (s : Sys) (k : Nat) (h : s.blocks.length ≤ k) : getBlock s k = newBlock := by
  unfold getBlock; rw [List.getElem?_eq_none h]; rfl

theorem cellsStep_setBlock (s : Sys) (blk : Nat) (b' : Block) (k : Nat)
    (h : CellsStep (getBlock s blk).cells b'.cells) :
    CellsStep (getBlock s k).cells (getBlock (setBlock s blk b') k).cells := by
  rw [getBlock_setBlock]
  split
  · rename_i hc; obtain ⟨rfl, _⟩ := hc; exact h
  · exact Or.inl rfl

theorem cellsStep_append (s : Sys) (nb : Block) (tl : Option Nat) (k : Nat) (h : nb.cells = []) :
    CellsStep (getBlock s k).cells (getBlock { s with blocks := s.blocks ++ [nb], tail := tl } k).cells := by
  rw [getBlock_append]
  by_cases h1 : k < s.blocks.length
  · simp only [h1, if_true]; exact Or.inl rfl
  · have hk : getBlock s k = newBlock := getBlock_of_ge s k (by omega)
    simp only [h1, if_false, hk]
    split
    · exact Or.inl (by rw [h]; rfl)
    · exact Or.inl rfl

theorem stepThread_cells (s : Sys) (t : Thread) (k : Nat) :
    CellsStep (getBlock s k).cells (getBlock (stepThread s t).1 k).cells := by
  unfold stepThread
  cases hp : t.pc with
  | pCasFirst =>
    simp only
    split
    · exact cellsStep_append s newBlock _ k rfl
    · exact Or.inl rfl
  | pClaim blk r =>
    simp only
    by_cases hlt : (getBlock s blk).write < s.B
    · simp only [hlt, if_true]
      exact cellsStep_setBlock _ _ _ _ (Or.inr (Or.inl ⟨_, rfl⟩))
    · simp only [hlt, if_false]
      split <;> exact cellsStep_setBlock _ _ _ _ (Or.inl rfl)
  | pPublish blk idx =>
    simp only
    exact cellsStep_setBlock _ _ _ _ (Or.inr (Or.inr ⟨idx, rfl⟩))
  | pCasNew old =>
    simp only
    split
    · exact cellsStep_append s { newBlock with next := some old } _ k rfl
    · exact Or.inl rfl
  | start => exact Or.inl rfl
  | done => exact Or.inl rfl
  | pLoadTail => simp only; split <;> exact Or.inl rfl
  | dLoadTail => simp only; split <;> exact Or.inl rfl
  | dQuiesced blk => exact Or.inl rfl
  | dWait blk => exact Or.inl rfl
  | dRead blk => exact Or.inl rfl
  | dNext blk => simp only; split <;> exact Or.inl rfl
  | cLoadTail => simp only; split <;> exact Or.inl rfl
  | cCas old => simp only; split <;> exact Or.inl rfl
  | cQuiesced blk => exact Or.inl rfl
  | cWait blk => exact Or.inl rfl
  | cRead blk => exact Or.inl rfl
  | cNext blk => simp only; split <;> exact Or.inl rfl
  | eLoadTail => simp only; split <;> exact Or.inl rfl
  | eLen blk => exact Or.inl rfl

theorem step_cells (s : Sys) (tid k : Nat) : CellsStep (getBlock s k).cells (getBlock (step s tid) k).cells := by
  cases hg : s.threads[tid]? with
  | none => unfold step; rw [hg]; exact Or.inl rfl
  | some t =>
    rw [step_eq s tid t hg]
    exact stepThread_cells s t k

/-! ### published values and `data()` only grow -/

def Cell.pubVal : Cell → Option Nat
  | .published v => some v
  | .written _ => none

/-- the values whose publish step has run, in slot order -/
def pubVals (cs : List Cell) : List Nat := cs.filterMap Cell.pubVal

/-- how many slots hold a PUBLISHED `v` -/
def pubc (v : Nat) (cs : List Cell) : Nat := (pubVals cs).count v

theorem pubc_publishCell (v : Nat) (cs : List Cell) (i : Nat) : pubc v cs ≤ pubc v (publishCell cs i) := by
  induction cs generalizing i with
  | nil => exact Nat.le_refl _
  | cons c cs ih =>
    cases i with
    | zero =>
      cases c with
      | written w =>
        simp only [publishCell, pubc, pubVals, List.filterMap_cons, Cell.pubVal, Cell.val]
        exact List.count_le_count_cons ..
      | published w => exact Nat.le_refl _
    | succ n =>
      have := ih n
      cases c with
      | written w => simpa only [publishCell, pubc, pubVals, List.filterMap_cons, Cell.pubVal] using this
      | published w =>
        simp only [publishCell, pubc, pubVals, List.filterMap_cons, Cell.pubVal, List.count_cons] at this ⊢
        exact Nat.add_le_add_right this _

theorem pubc_of_cellsStep (v : Nat) (cs cs' : List Cell) (h : CellsStep cs cs') : pubc v cs ≤ pubc v cs' := by
  rcases h with h | ⟨w, h⟩ | ⟨i, h⟩
  · rw [h]; exact Nat.le_refl _
  · rw [h]; simp [pubc, pubVals, List.filterMap_append, Cell.pubVal]
  · rw [h]; exact pubc_publishCell v cs i

/-- published values are among the claimed values -/
theorem pubc_le_vals (v : Nat) (cs : List Cell) : pubc v cs ≤ (cs.map Cell.val).count v := by
  induction cs with
  | nil => exact Nat.le_refl _
  | cons c cs ih =>
    cases c with
    | written w =>
      simp only [pubc, pubVals, List.filterMap_cons, Cell.pubVal, List.map_cons, Cell.val] at ih ⊢
      exact Nat.le_trans ih (List.count_le_count_cons ..)
    | published w =>
      simp only [pubc, pubVals, List.filterMap_cons, Cell.pubVal, List.map_cons, Cell.val, List.count_cons] at ih ⊢
      exact Nat.add_le_add_right ih _

theorem takeWhile_prefix_append {α : Type} (p : α → Bool) (l m : List α) :
    l.takeWhile p <+: (l ++ m).takeWhile p := by
  induction l with
  | nil => exact List.nil_prefix
  | cons x xs ih =>
    simp only [List.cons_append, List.takeWhile_cons]
    split
    · exact (List.prefix_cons_inj x).mpr ih
    · exact List.nil_prefix

theorem takeWhile_prefix_publish (cs : List Cell) (i : Nat) :
    cs.takeWhile Cell.isPub <+: (publishCell cs i).takeWhile Cell.isPub := by
  induction cs generalizing i with
  | nil => exact List.nil_prefix
  | cons c cs ih =>
    cases i with
    | zero =>
      cases c with
      | written w => simp only [List.takeWhile_cons, Cell.isPub]; exact List.nil_prefix
      | published w => exact List.prefix_refl _
    | succ n =>
      simp only [publishCell, List.takeWhile_cons]
      split
      · exact (List.prefix_cons_inj c).mpr (ih n)
      · exact List.nil_prefix

theorem prefix_map {α β : Type} (f : α → β) {l₁ l₂ : List α} (h : l₁ <+: l₂) : l₁.map f <+: l₂.map f := by
  obtain ⟨r, hr⟩ := h
  exact ⟨r.map f, by rw [← hr, List.map_append]⟩

theorem data_prefix_of_cellsStep (b b' : Block) (h : CellsStep b.cells b'.cells) : b.data <+: b'.data := by
  unfold Block.data
  rcases h with h | ⟨v, h⟩ | ⟨i, h⟩
  · rw [h]; exact List.prefix_refl _
  · rw [h]; exact prefix_map _ (takeWhile_prefix_append _ _ _)
  · rw [h]; exact prefix_map _ (takeWhile_prefix_publish _ _)

/-- one step of any thread: what `Block::data` returns for any block only grows, as a prefix -/
theorem step_data_prefix (s : Sys) (tid k : Nat) : (getBlock s k).data <+: (getBlock (step s tid) k).data :=
  data_prefix_of_cellsStep _ _ (step_cells s tid k)

theorem run_data_prefix (sched : List Nat) : ∀ (s : Sys) (k : Nat), (getBlock s k).data <+: (getBlock (run s sched) k).data := by
  induction sched with
  | nil => intro s k; exact List.prefix_refl _
  | cons t ts ih =>
    intro s k
    simp only [run, List.foldl_cons] at ih ⊢
    exact List.IsPrefix.trans (step_data_prefix s t k) (ih (step s t) k)

theorem count_le_of_prefix {l₁ l₂ : List Nat} (h : l₁ <+: l₂) (v : Nat) : l₁.count v ≤ l₂.count v := by
  obtain ⟨r, hr⟩ := h
  rw [← hr, List.count_append]; exact Nat.le_add_right _ _

/-- `Block::is_quiesced` ⇒ every claimed slot is in `Block::data` -/
theorem quiesced_all_pub (B : Nat) (b : Block) (hl : b.cells.length = min b.write B) (hq : b.quiesced B = true) :
    b.cells.takeWhile Cell.isPub = b.cells := by
  have hpre := List.takeWhile_append_dropWhile (p := Cell.isPub) (l := b.cells)
  have hlen : (b.cells.takeWhile Cell.isPub).length + (b.cells.dropWhile Cell.isPub).length = b.cells.length := by
    rw [← List.length_append, hpre]
  simp only [Block.quiesced, Block.len, Bool.or_eq_true, beq_iff_eq] at hq
  have hd : (b.cells.dropWhile Cell.isPub).length = 0 := by
    rcases hq with h | h <;> omega
  have hnil : b.cells.dropWhile Cell.isPub = [] := List.eq_nil_of_length_eq_zero hd
  rw [hnil, List.append_nil] at hpre
  exact hpre

theorem quiesced_data_all (B : Nat) (b : Block) (hl : b.cells.length = min b.write B) (hq : b.quiesced B = true) :
    b.data = b.cells.map Cell.val := by
  unfold Block.data; rw [quiesced_all_pub B b hl hq]

/-! ### programs without clears: the chain is `0 ← 1 ← … ← tail` -/

def isClearPC : PC → Bool
  | .cLoadTail | .cCas _ | .cQuiesced _ | .cWait _ | .cRead _ | .cNext _ => true
  | _ => false

def NoClrT (t : Thread) : Prop := Call.clear ∉ t.calls ∧ isClearPC t.pc = false

theorem startPC_noclear (calls : List Call) (h : Call.clear ∉ calls) : isClearPC (startPC calls) = false := by
  cases calls with
  | nil => rfl
  | cons c r => cases c <;> simp_all [startPC, pcOfCall, isClearPC]

theorem NoClrT.advance {t : Thread} (h : NoClrT t) (r : Res) : NoClrT (t.advance r) := by
  have hc : Call.clear ∉ t.calls.tail := fun hm => h.1 (List.mem_of_mem_tail hm)
  exact ⟨hc, startPC_noclear _ hc⟩

theorem NoClrT.setpc {t : Thread} (h : NoClrT t) (pc' : PC) (hp : isClearPC pc' = false) : NoClrT { t with pc := pc' } :=
  ⟨h.1, hp⟩

theorem NoClrT.setacc {t : Thread} (h : NoClrT t) (acc' : List Nat) (pc' : PC) (hp : isClearPC pc' = false) :
    NoClrT { t with acc := acc', pc := pc' } := ⟨h.1, hp⟩

theorem noclr_step (s : Sys) (t : Thread) (h : NoClrT t) : NoClrT (stepThread s t).2 := by
  unfold stepThread
  cases hp : t.pc with
  | start => exact ⟨h.1, startPC_noclear _ h.1⟩
  | done => exact h
  | pLoadTail => simp only; split <;> exact h.setpc _ rfl
  | pCasFirst => simp only; split <;> exact h.setpc _ rfl
  | pClaim blk r =>
    simp only
    split
    · exact h.setpc _ rfl
    · split <;> exact h.setpc _ rfl
  | pPublish blk idx => exact h.advance _
  | pCasNew old => simp only; split <;> exact h.setpc _ rfl
  | dLoadTail =>
    simp only
    split
    · exact h.advance _
    · exact h.setpc _ rfl
  | dQuiesced blk => exact h.setpc _ (by split <;> rfl)
  | dWait blk => exact h.setpc _ (by split <;> rfl)
  | dRead blk => exact h.setacc _ _ rfl
  | dNext blk =>
    simp only
    split
    · exact h.advance _
    · exact h.setpc _ rfl
  | eLoadTail =>
    simp only
    split
    · exact h.advance _
    · exact h.setpc _ rfl
  | eLen blk => exact h.advance _
  | cLoadTail => exact absurd h.2 (by rw [hp]; simp [isClearPC])
  | cCas old => exact absurd h.2 (by rw [hp]; simp [isClearPC])
  | cQuiesced blk => exact absurd h.2 (by rw [hp]; simp [isClearPC])
  | cWait blk => exact absurd h.2 (by rw [hp]; simp [isClearPC])
  | cRead blk => exact absurd h.2 (by rw [hp]; simp [isClearPC])
  | cNext blk => exact absurd h.2 (by rw [hp]; simp [isClearPC])

/-- without clears nothing is ever detached: block `k` links to `k - 1`, the tail is the newest block -/
structure CInv (s : Sys) : Prop where
  nxt : ∀ k, k < s.blocks.length → nextAt s.blocks k = some (if k = 0 then none else some (k - 1))
  tl : s.tail = if s.blocks.length = 0 then none else some (s.blocks.length - 1)
  thr : ∀ (i : Nat) (t : Thread), s.threads[i]? = some t → NoClrT t

theorem cstep (s : Sys) (tid : Nat) (h : CInv s) : CInv (step s tid) := by
  cases hg : s.threads[tid]? with
  | none => unfold step; rw [hg]; exact h
  | some t =>
    have hn := h.thr tid t hg
    rw [step_eq s tid t hg]
    have hthr : ∀ (i : Nat) (u : Thread), (setAt s.threads tid (stepThread s t).2)[i]? = some u → NoClrT u := by
      intro i u hu
      rcases threads_after hg i u hu with ⟨_, rfl⟩ | ⟨_, hu'⟩
      · exact noclr_step s t hn
      · exact h.thr i u hu'
    have hge := stepThread_geff s t
    generalize (stepThread s t).1.blocks = bs' at hge ⊢
    generalize (stepThread s t).1.tail = tl' at hge ⊢
    generalize (stepThread s t).2 = t' at hge hthr ⊢
    cases hge with
    | quiet bs' t' hsim _ _ _ =>
      obtain ⟨hlen, hnx, _⟩ := hsim
      refine ⟨?_, ?_, hthr⟩
      · intro k hk
        have hk' : k < s.blocks.length := by rw [← hlen]; exact hk
        show nextAt bs' k = _
        rw [hnx k]; exact h.nxt k hk'
      · show s.tail = if bs'.length = 0 then none else some (bs'.length - 1)
        rw [hlen]; exact h.tl
    | append nb t' hcells _ _ _ _ hnb =>
      refine ⟨?_, ?_, hthr⟩
      · intro k hk
        simp only [List.length_append, List.length_singleton] at hk ⊢
        by_cases hk' : k < s.blocks.length
        · rw [nextAt_append_lt _ _ _ hk']; exact h.nxt k hk'
        · have hke : k = s.blocks.length := by omega
          subst hke
          rw [nextAt_append_len]
          have htl := h.tl
          rcases hnb with ⟨ht0, hn0⟩ | ⟨old, ht0, hn0⟩
          · rw [ht0] at htl
            by_cases hz : s.blocks.length = 0
            · simp [hz, hn0]
            · simp [hz] at htl
          · rw [ht0] at htl
            by_cases hz : s.blocks.length = 0
            · simp [hz] at htl
            · simp only [hz, if_false, Option.some.injEq] at htl
              simp [hz, hn0, htl]
      · simp only [List.length_append, List.length_singleton]
        have : s.blocks.length + 1 ≠ 0 := by omega
        simp [this]
    | detach old hpc _ => exact absurd hn.2 (by rw [hpc]; simp [isClearPC])
    | read blk hpc => exact absurd hn.2 (by rw [hpc]; simp [isClearPC])
    | nextNone blk hpc _ => exact absurd hn.2 (by rw [hpc]; simp [isClearPC])
    | nextSome blk n hpc _ => exact absurd hn.2 (by rw [hpc]; simp [isClearPC])

theorem crun (sched : List Nat) : ∀ s, CInv s → CInv (run s sched) := by
  induction sched with
  | nil => intro s h; exact h
  | cons t ts ih => intro s h; exact ih _ (cstep s t h)

theorem init_cinv (B : Nat) (progs : List (List Call)) (hnc : ∀ p ∈ progs, Call.clear ∉ p) : CInv (init B progs) := by
  refine ⟨?_, ?_, ?_⟩
  · intro k hk; simp [init] at hk
  · simp [init]
  · intro i t ht
    have hm : t ∈ (init B progs).threads := List.mem_of_getElem? ht
    simp only [init, List.mem_map] at hm
    obtain ⟨p, hp, rfl⟩ := hm
    exact ⟨hnc p hp, rfl⟩

theorem step_len (s : Sys) (tid : Nat) : s.blocks.length ≤ (step s tid).blocks.length := by
  cases hg : s.threads[tid]? with
  | none => unfold step; rw [hg]; exact Nat.le_refl _
  | some t =>
    rw [step_eq s tid t hg]
    have hge := stepThread_geff s t
    generalize (stepThread s t).1.blocks = bs' at hge ⊢
    generalize (stepThread s t).1.tail = tl' at hge
    generalize (stepThread s t).2 = t' at hge
    cases hge with
    | quiet bs' t' hsim _ _ _ => exact Nat.le_of_eq hsim.1.symm
    | append nb t' _ _ _ _ _ _ => show s.blocks.length ≤ (s.blocks ++ [nb]).length; simp
    | detach old _ _ => exact Nat.le_refl _
    | read blk _ => exact Nat.le_refl _
    | nextNone blk _ _ => exact Nat.le_refl _
    | nextSome blk n _ _ => exact Nat.le_refl _

/-! ### the reader's invariant, relative to the state `S0` (blocks `bs0`) in which its `data_with` began -/

def blk0 (bs0 : List Block) (k : Nat) : Block := (bs0[k]?).getD newBlock

/-- published `v`s of `S0` in blocks `k, k+1, …` -/
def needFrom (v : Nat) (bs0 : List Block) (k : Nat) : Nat := ((bs0.drop k).map (fun b => pubc v b.cells)).sum

/-- number of slots whose publish step has run and that hold `v` -/
def pubCount (v : Nat) (s : Sys) : Nat := needFrom v s.blocks 0

theorem needFrom_ge (v : Nat) (bs0 : List Block) (k : Nat) (h : bs0.length ≤ k) : needFrom v bs0 k = 0 := by
  unfold needFrom; rw [List.drop_eq_nil_of_le h]; rfl

theorem needFrom_succ (v : Nat) (bs0 : List Block) (k : Nat) :
    needFrom v bs0 k = pubc v (blk0 bs0 k).cells + needFrom v bs0 (k + 1) := by
  by_cases h : k < bs0.length
  · unfold needFrom blk0
    rw [List.drop_eq_getElem_cons h, List.map_cons, List.sum_cons, List.getElem?_eq_getElem h]
    rfl
  · have h' : bs0.length ≤ k := by omega
    rw [needFrom_ge v bs0 k h', needFrom_ge v bs0 (k + 1) (by omega)]
    unfold blk0
    rw [List.getElem?_eq_none h']
    rfl

/-- where the reader is, and what it has collected so far, relative to `bs0` -/
def RdPC (bs0 : List Block) (s : Sys) (acc : List Nat) : PC → Prop
  | .dLoadTail => True
  | .dQuiesced k => k < s.blocks.length ∧ ∀ v, needFrom v bs0 (k + 1) ≤ acc.count v
  | .dWait k => k < s.blocks.length ∧ ∀ v, needFrom v bs0 (k + 1) ≤ acc.count v
  | .dRead k => k < s.blocks.length ∧ (∀ v, needFrom v bs0 (k + 1) ≤ acc.count v)
      ∧ ∀ v, pubc v (blk0 bs0 k).cells ≤ (getBlock s k).data.count v
  | .dNext k => k < s.blocks.length ∧ ∀ v, needFrom v bs0 k ≤ acc.count v
  | _ => False

/-- the call that began in `S0` is still running and on track, or it has returned everything published in `S0` -/
def RdInv (bs0 : List Block) (r0 : List Res) (s : Sys) (t : Thread) : Prop :=
  (t.results = r0 ∧ RdPC bs0 s t.acc t.pc)
  ∨ ∃ vs rest, t.results = r0 ++ Res.snapshot vs :: rest ∧ ∀ v, needFrom v bs0 0 ≤ vs.count v

theorem RdPC.mono {bs0 : List Block} {s s' : Sys} {acc : List Nat} {pc : PC}
    (hl : s.blocks.length ≤ s'.blocks.length)
    (hd : ∀ k v, (getBlock s k).data.count v ≤ (getBlock s' k).data.count v)
    (h : RdPC bs0 s acc pc) : RdPC bs0 s' acc pc := by
  cases pc with
  | dLoadTail => trivial
  | dQuiesced k => simp only [RdPC] at h ⊢; exact ⟨Nat.lt_of_lt_of_le h.1 hl, h.2⟩
  | dWait k => simp only [RdPC] at h ⊢; exact ⟨Nat.lt_of_lt_of_le h.1 hl, h.2⟩
  | dRead k =>
    simp only [RdPC] at h ⊢
    exact ⟨Nat.lt_of_lt_of_le h.1 hl, h.2.1, fun v => Nat.le_trans (h.2.2 v) (hd k v)⟩
  | dNext k => simp only [RdPC] at h ⊢; exact ⟨Nat.lt_of_lt_of_le h.1 hl, h.2⟩
  | _ => simp only [RdPC] at h

theorem RdInv.mono {bs0 : List Block} {r0 : List Res} {s s' : Sys} {t : Thread}
    (hl : s.blocks.length ≤ s'.blocks.length)
    (hd : ∀ k v, (getBlock s k).data.count v ≤ (getBlock s' k).data.count v)
    (h : RdInv bs0 r0 s t) : RdInv bs0 r0 s' t := by
  rcases h with ⟨h1, h2⟩ | h
  · exact Or.inl ⟨h1, h2.mono hl hd⟩
  · exact Or.inr h

theorem stepThread_results (s : Sys) (t : Thread) :
    (stepThread s t).2.results = t.results ∨ ∃ r, (stepThread s t).2.results = t.results ++ [r] := by
  have adv : ∀ r, (t.advance r).results = t.results ∨ ∃ r', (t.advance r).results = t.results ++ [r'] :=
    fun r => Or.inr ⟨r, rfl⟩
  unfold stepThread
  cases hp : t.pc with
  | start => exact Or.inl rfl
  | done => exact Or.inl rfl
  | pLoadTail => simp only; split <;> exact Or.inl rfl
  | pCasFirst => simp only; split <;> exact Or.inl rfl
  | pClaim blk r =>
    simp only
    split
    · exact Or.inl rfl
    · split <;> exact Or.inl rfl
  | pPublish blk idx => exact adv _
  | pCasNew old => simp only; split <;> exact Or.inl rfl
  | dLoadTail =>
    simp only
    split
    · exact adv _
    · exact Or.inl rfl
  | dQuiesced blk => exact Or.inl rfl
  | dWait blk => exact Or.inl rfl
  | dRead blk => exact Or.inl rfl
  | dNext blk =>
    simp only
    split
    · exact adv _
    · exact Or.inl rfl
  | cLoadTail =>
    simp only
    split
    · exact adv _
    · exact Or.inl rfl
  | cCas old =>
    simp only
    split
    · exact Or.inl rfl
    · exact Or.inl rfl
  | cQuiesced blk => exact Or.inl rfl
  | cWait blk => exact Or.inl rfl
  | cRead blk => exact Or.inl rfl
  | cNext blk =>
    simp only
    split
    · exact adv _
    · exact Or.inl rfl
  | eLoadTail =>
    simp only
    split
    · exact adv _
    · exact Or.inl rfl
  | eLen blk => exact adv _

structure SnapInv (bs0 : List Block) (r0 : List Res) (i : Nat) (s : Sys) : Prop where
  base : AInv s
  chain : CInv s
  len : bs0.length ≤ s.blocks.length
  mono : ∀ k v, pubc v (blk0 bs0 k).cells ≤ pubc v (getBlock s k).cells
  rd : ∃ t, s.threads[i]? = some t ∧ RdInv bs0 r0 s t

theorem tail_none_len {s : Sys} (h : CInv s) (ht : s.tail = none) : s.blocks.length = 0 := by
  have := h.tl
  rw [ht] at this
  by_cases hz : s.blocks.length = 0
  · exact hz
  · simp [hz] at this

theorem tail_some_len {s : Sys} (h : CInv s) {b : Nat} (ht : s.tail = some b) : b + 1 = s.blocks.length := by
  have := h.tl
  rw [ht] at this
  by_cases hz : s.blocks.length = 0
  · simp [hz] at this
  · simp only [hz, if_false, Option.some.injEq] at this; omega

theorem next_of_chain {s : Sys} (h : CInv s) {k : Nat} (hk : k < s.blocks.length) :
    (getBlock s k).next = if k = 0 then none else some (k - 1) := by
  have h1 := h.nxt k hk
  rw [nextAt_getBlock hk] at h1
  exact Option.some.inj h1

/-- the reader's own step -/
theorem rd_own_step {bs0 : List Block} {r0 : List Res} {i : Nat} {s : Sys} (h : SnapInv bs0 r0 i s) (t : Thread)
    (hr : RdInv bs0 r0 s t) : RdInv bs0 r0 (stepThread s t).1 (stepThread s t).2 := by
  rcases hr with ⟨hres, hpc⟩ | ⟨vs, rest, hres, hv⟩
  · unfold stepThread
    cases hp : t.pc with
    | dLoadTail =>
      simp only
      split
      · rename_i ht
        refine Or.inr ⟨t.acc, [], by simp [Thread.advance, hres], fun v => ?_⟩
        have hz := tail_none_len h.chain ht
        rw [needFrom_ge v bs0 0 (by have := h.len; omega)]; exact Nat.zero_le _
      · rename_i b ht
        have hb := tail_some_len h.chain ht
        refine Or.inl ⟨hres, ?_⟩
        simp only [RdPC]
        refine ⟨by omega, fun v => ?_⟩
        rw [needFrom_ge v bs0 (b + 1) (by have := h.len; omega)]; exact Nat.zero_le _
    | dQuiesced k =>
      rw [hp] at hpc; simp only [RdPC] at hpc
      obtain ⟨hk, hA⟩ := hpc
      simp only
      split
      · rename_i hq
        refine Or.inl ⟨hres, ?_⟩
        simp only [RdPC]
        refine ⟨hk, hA, fun v => ?_⟩
        have hb : s.blocks[k]? = some (getBlock s k) := by
          rw [List.getElem?_eq_getElem hk]; unfold getBlock; rw [List.getElem?_eq_getElem hk]; rfl
        rw [quiesced_data_all s.B (getBlock s k) (h.base.cells_len k _ hb) hq]
        exact Nat.le_trans (h.mono k v) (pubc_le_vals v _)
      · exact Or.inl ⟨hres, by simp only [RdPC]; exact ⟨hk, hA⟩⟩
    | dWait k =>
      rw [hp] at hpc; simp only [RdPC] at hpc
      obtain ⟨hk, hA⟩ := hpc
      simp only
      split
      · rename_i hq
        refine Or.inl ⟨hres, ?_⟩
        simp only [RdPC]
        refine ⟨hk, hA, fun v => ?_⟩
        have hb : s.blocks[k]? = some (getBlock s k) := by
          rw [List.getElem?_eq_getElem hk]; unfold getBlock; rw [List.getElem?_eq_getElem hk]; rfl
        rw [quiesced_data_all s.B (getBlock s k) (h.base.cells_len k _ hb) hq]
        exact Nat.le_trans (h.mono k v) (pubc_le_vals v _)
      · exact Or.inl ⟨hres, by simp only [RdPC]; exact ⟨hk, hA⟩⟩
    | dRead k =>
      rw [hp] at hpc; simp only [RdPC] at hpc
      obtain ⟨hk, hA, hD⟩ := hpc
      simp only
      refine Or.inl ⟨hres, ?_⟩
      simp only [RdPC]
      refine ⟨hk, fun v => ?_⟩
      rw [needFrom_succ, List.count_append]
      have := hA v; have := hD v; omega
    | dNext k =>
      rw [hp] at hpc; simp only [RdPC] at hpc
      obtain ⟨hk, hA⟩ := hpc
      have hnx := next_of_chain h.chain hk
      simp only
      split
      · rename_i hn
        rw [hn] at hnx
        have hk0 : k = 0 := by
          by_cases hz : k = 0
          · exact hz
          · simp [hz] at hnx
        subst hk0
        exact Or.inr ⟨t.acc, [], by simp [Thread.advance, hres], hA⟩
      · rename_i n hn
        rw [hn] at hnx
        have hk0 : k ≠ 0 ∧ n = k - 1 := by
          by_cases hz : k = 0
          · simp [hz] at hnx
          · simp only [hz, if_false, Option.some.injEq] at hnx; exact ⟨hz, hnx⟩
        refine Or.inl ⟨hres, ?_⟩
        simp only [RdPC]
        refine ⟨by omega, fun v => ?_⟩
        have : n + 1 = k := by omega
        rw [this]; exact hA v
    | start => rw [hp] at hpc; simp only [RdPC] at hpc
    | done => rw [hp] at hpc; simp only [RdPC] at hpc
    | pLoadTail => rw [hp] at hpc; simp only [RdPC] at hpc
    | pCasFirst => rw [hp] at hpc; simp only [RdPC] at hpc
    | pClaim blk r => rw [hp] at hpc; simp only [RdPC] at hpc
    | pPublish blk idx => rw [hp] at hpc; simp only [RdPC] at hpc
    | pCasNew old => rw [hp] at hpc; simp only [RdPC] at hpc
    | cLoadTail => rw [hp] at hpc; simp only [RdPC] at hpc
    | cCas old => rw [hp] at hpc; simp only [RdPC] at hpc
    | cQuiesced blk => rw [hp] at hpc; simp only [RdPC] at hpc
    | cWait blk => rw [hp] at hpc; simp only [RdPC] at hpc
    | cRead blk => rw [hp] at hpc; simp only [RdPC] at hpc
    | cNext blk => rw [hp] at hpc; simp only [RdPC] at hpc
    | eLoadTail => rw [hp] at hpc; simp only [RdPC] at hpc
    | eLen blk => rw [hp] at hpc; simp only [RdPC] at hpc
  · rcases stepThread_results s t with e | ⟨r, e⟩
    · exact Or.inr ⟨vs, rest, by rw [e, hres], hv⟩
    · exact Or.inr ⟨vs, rest ++ [r], by rw [e, hres]; simp, hv⟩

theorem snap_step {bs0 : List Block} {r0 : List Res} {i : Nat} (s : Sys) (tid : Nat) (h : SnapInv bs0 r0 i s) :
    SnapInv bs0 r0 i (step s tid) := by
  have hdata : ∀ k v, (getBlock s k).data.count v ≤ (getBlock (step s tid) k).data.count v :=
    fun k v => count_le_of_prefix (step_data_prefix s tid k) v
  refine ⟨astep_inv s tid h.base, cstep s tid h.chain, Nat.le_trans h.len (step_len s tid),
    fun k v => Nat.le_trans (h.mono k v) (pubc_of_cellsStep v _ _ (step_cells s tid k)), ?_⟩
  obtain ⟨t, ht, hr⟩ := h.rd
  cases hg : s.threads[tid]? with
  | none =>
    have : step s tid = s := by unfold step; rw [hg]
    rw [this]; exact ⟨t, ht, hr⟩
  | some u =>
    have hthr := (step_threads s tid u hg).1
    by_cases hi : tid = i
    · subst hi
      rw [ht] at hg; injection hg with hg; subst hg
      refine ⟨(stepThread s t).2, ?_, ?_⟩
      · rw [hthr, getElem?_setAt]; simp [lt_of_getElem?_some ht]
      · have h1 := rd_own_step h t hr
        have hb : (step s tid).blocks = (stepThread s t).1.blocks := by rw [step_eq s tid t ht]
        have hgb : ∀ k, getBlock (step s tid) k = getBlock (stepThread s t).1 k := by
          intro k; unfold getBlock; rw [hb]
        exact h1.mono (by rw [hb]; exact Nat.le_refl _) (fun k v => by rw [hgb k]; exact Nat.le_refl _)
    · refine ⟨t, ?_, hr.mono (step_len s tid) hdata⟩
      rw [hthr, getElem?_setAt]; simp [hi, ht]

theorem snap_run {bs0 : List Block} {r0 : List Res} {i : Nat} (sched : List Nat) :
    ∀ s, SnapInv bs0 r0 i s → SnapInv bs0 r0 i (run s sched) := by
  induction sched with
  | nil => intro s h; exact h
  | cons t ts ih => intro s h; exact ih _ (snap_step s t h)

end MetricsVerif.Bucket
