/-
Inductive invariant of the `RecorderOnceCell` step machine (helper lemmas for C02).
-/
import MetricsVerif.Model.OnceCell
import MetricsVerif.Proofs.ListAt

namespace MetricsVerif.OnceCell

def okN (t : Thread) : Nat := t.results.countP (· = Res.ok)
def critN (t : Thread) : Nat := if t.pc = .write ∨ t.pc = .store then 1 else 0
def okCount (s : Sys) : Nat := (s.threads.map okN).sum
def critCount (s : Sys) : Nat := (s.threads.map critN).sum

/-- both orderings are at least as strong as the publish/consume idiom needs -/
def OrdOK (o : Ord) : Prop := o.storeRelease = true ∧ o.loadAcquire = true

/-- per-thread part of the invariant (relative to the shared state) -/
structure TInv (o : Ord) (s : Sys) (t : Thread) : Prop where
  at_read : t.pc = .read → s.state = 2
  at_read_sync : OrdOK o → t.pc = .read → t.synced = true
  at_store : t.pc = .store → ∃ r, s.cell = some r
  some_res : ∀ r, Res.some r ∈ t.results → s.state = 2 ∧ s.cell = some r
  no_torn : Res.torn ∉ t.results

structure Inv (o : Ord) (s : Sys) : Prop where
  st_le : s.state ≤ 2
  c0 : s.state = 0 → okCount s = 0 ∧ critCount s = 0
  c1 : s.state = 1 → okCount s = 0 ∧ critCount s = 1
  c2 : s.state = 2 → okCount s = 1 ∧ critCount s = 0
  cell2 : s.state = 2 → ∃ w, s.cell = some w
  pub2 : s.state = 2 → s.published = o.storeRelease
  no_race : OrdOK o → s.raced = false
  thr : ∀ t ∈ s.threads, TInv o s t

theorem stepThread_threads (o : Ord) (s : Sys) (t : Thread) : (stepThread o s t).1.threads = s.threads := by
  unfold stepThread
  split <;> try rfl
  all_goals (split <;> rfl)

theorem advance_pc_not_crit (t : Thread) (r : Res) :
    (t.advance r).pc ≠ .write ∧ (t.advance r).pc ≠ .store ∧ (t.advance r).pc ≠ .read := by
  unfold Thread.advance
  cases h : settle r t.calls.tail with
  | nil => simp
  | cons c rest => cases c <;> simp [pcOfCall]

theorem advance_results (t : Thread) (r : Res) : (t.advance r).results = t.results ++ [r] := rfl
theorem advance_synced (t : Thread) (r : Res) : (t.advance r).synced = t.synced := rfl

theorem critN_advance (t : Thread) (r : Res) : critN (t.advance r) = 0 := by
  have := advance_pc_not_crit t r
  simp [critN, this.1, this.2.1]

theorem okN_advance (t : Thread) (r : Res) : okN (t.advance r) = okN t + (if r = Res.ok then 1 else 0) := by
  simp [okN, advance_results, List.countP_append, List.countP_cons]

theorem pcOfCall_not_crit (c : Call) : pcOfCall c ≠ .write ∧ pcOfCall c ≠ .store ∧ pcOfCall c ≠ .read := by
  cases c <;> simp [pcOfCall]

/-- TInv is stable under state changes that keep what it talks about -/
theorem TInv.mono {o : Ord} {s s' : Sys} {t : Thread} (h : TInv o s t)
    (hst : s.state = 2 → s'.state = 2) (hcell : ∀ r, s.cell = some r → s'.cell = some r) : TInv o s' t :=
  { at_read := fun hp => hst (h.at_read hp)
    at_read_sync := h.at_read_sync
    at_store := fun hp => by obtain ⟨r, hr⟩ := h.at_store hp; exact ⟨r, hcell r hr⟩
    some_res := fun r hr => ⟨hst (h.some_res r hr).1, hcell r (h.some_res r hr).2⟩
    no_torn := h.no_torn }

theorem init_inv (o : Ord) (progs : List (List Call)) : Inv o (init progs) := by
  have hz : ∀ (f : Thread → Nat), (∀ p, f (mkThread p) = 0) → ∀ l : List (List Call), ((l.map mkThread).map f).sum = 0 := by
    intro f hf l; induction l with
    | nil => rfl
    | cons x xs ih => simp only [List.map_cons, List.sum_cons, hf, ih]
  have hok := hz okN (by intro p; simp [okN, mkThread])
  have hcr := hz critN (by intro p; simp [critN, mkThread])
  refine { st_le := by simp [init], c0 := fun _ => ⟨hok progs, hcr progs⟩, c1 := by simp [init], c2 := by simp [init], cell2 := by simp [init], pub2 := by simp [init],
           no_race := by simp [init], thr := ?_ }
  intro t ht
  simp only [init, List.mem_map] at ht
  obtain ⟨p, _, rfl⟩ := ht
  exact { at_read := by simp [mkThread], at_read_sync := by simp [mkThread], at_store := by simp [mkThread],
          some_res := by simp [mkThread], no_torn := by simp [mkThread] }

end MetricsVerif.OnceCell

namespace MetricsVerif.OnceCell

/-- the possible effects of one thread step -/
inductive Eff (o : Ord) (s : Sys) (t : Thread) : Sys → Thread → Prop
  | noop : Eff o s t s t
  | start (t' : Thread) : t.pc = .start → t'.results = t.results → t'.synced = t.synced →
      t'.pc ≠ .write → t'.pc ≠ .store → t'.pc ≠ .read → Eff o s t s t'
  | casWin : t.pc = .cas → s.state = 0 → Eff o s t { s with state := 1 } { t with pc := .write, synced := true }
  | casLose (x : Nat) : t.pc = .cas → s.state ≠ 0 → Eff o s t s (t.advance (.err x))
  | write (x : Nat) : t.pc = .write → Eff o s t { s with cell := some x } { t with pc := .store }
  | store : t.pc = .store → Eff o s t { s with state := 2, published := o.storeRelease } (t.advance .ok)
  | loadNone : t.pc = .loadState → s.state ≠ 2 → Eff o s t s (t.advance .none)
  | loadInit : t.pc = .loadState → s.state = 2 →
      Eff o s t s { t with pc := .read, synced := t.synced || (o.loadAcquire && s.published) }
  | read : t.pc = .read →
      Eff o s t (if t.synced then s else { s with raced := true })
        (t.advance (match s.cell with | some r => .some r | none => .torn))

theorem stepThread_eff (o : Ord) (s : Sys) (t : Thread) : Eff o s t (stepThread o s t).1 (stepThread o s t).2 := by
  unfold stepThread
  split
  · rename_i hp hc
    exact .start _ hp rfl rfl (by simp) (by simp) (by simp)
  · rename_i c rest hp hc
    have := pcOfCall_not_crit c
    exact .start _ hp rfl rfl this.1 this.2.1 this.2.2
  · rename_i r rest hp hc
    split
    · rename_i h0; exact .casWin hp h0
    · rename_i h0; exact .casLose r hp h0
  · rename_i r rest hp hc; exact .write r hp
  · rename_i r rest hp hc; exact .store hp
  · rename_i rest hp hc
    split
    · rename_i h2; exact .loadInit hp h2
    · rename_i h2; exact .loadNone hp h2
  · rename_i rest hp hc
    split
    · rename_i h2; exact .loadInit hp h2
    · rename_i h2; exact .loadNone hp h2
  · rename_i rest hp hc; exact .read hp
  · rename_i rest hp hc; exact .read hp
  · exact .noop

end MetricsVerif.OnceCell

namespace MetricsVerif.OnceCell

theorem okCount_set (s s' : Sys) (tid : Nat) (t t' : Thread) (hg : s.threads[tid]? = some t)
    (hth : s'.threads = s.threads) :
    okCount { s' with threads := setAt s'.threads tid t' } + okN t = okCount s + okN t' := by
  simp only [okCount, hth]; exact sum_map_setAt okN s.threads tid t' t hg

theorem critCount_set (s s' : Sys) (tid : Nat) (t t' : Thread) (hg : s.threads[tid]? = some t)
    (hth : s'.threads = s.threads) :
    critCount { s' with threads := setAt s'.threads tid t' } + critN t = critCount s + critN t' := by
  simp only [critCount, hth]; exact sum_map_setAt critN s.threads tid t' t hg

theorem critN_le_critCount (s : Sys) (tid : Nat) (t : Thread) (hg : s.threads[tid]? = some t) :
    critN t ≤ critCount s := by
  have h2 : ∀ (l : List Thread) (i : Nat) (x : Thread), l[i]? = some x → critN x ≤ (l.map critN).sum := by
    intro l; induction l with
    | nil => intro i x h; simp at h
    | cons y ys ih =>
      intro i x h
      cases i with
      | zero => simp at h; subst h; simp
      | succ n => simp at h; have := ih n x h; simp only [List.map_cons, List.sum_cons]; omega
  exact h2 _ _ _ hg

theorem setAt_same {α : Type} (l : List α) (i : Nat) (x : α) (h : l[i]? = some x) : setAt l i x = l := by
  induction l generalizing i with
  | nil => rfl
  | cons y ys ih =>
    cases i with
    | zero => simp at h; subst h; rfl
    | succ n => simp at h; simp [setAt, ih n h]

/-- the thread after finishing a call with result `r` -/
theorem TInv.advance {o : Ord} {s : Sys} {t : Thread} (hT : TInv o s t) (r : Res) (hr : r ≠ .torn)
    (hs : ∀ x, r = .some x → s.state = 2 ∧ s.cell = some x) : TInv o s (t.advance r) := by
  have hn := advance_pc_not_crit t r
  refine { at_read := fun x => absurd x hn.2.2, at_read_sync := fun _ x => absurd x hn.2.2,
           at_store := fun x => absurd x hn.2.1, some_res := ?_, no_torn := ?_ }
  · intro x hx
    rw [advance_results] at hx
    simp only [List.mem_append, List.mem_singleton] at hx
    rcases hx with hx | hx
    · exact hT.some_res x hx
    · exact hs x hx.symm
  · rw [advance_results]
    simp only [List.mem_append, List.mem_singleton, not_or]
    exact ⟨hT.no_torn, fun e => hr e.symm⟩

/-- the thread with only pc/synced changed to a non-critical, non-read pc -/
theorem TInv.repc {o : Ord} {s : Sys} {t t' : Thread} (hT : TInv o s t) (hres : t'.results = t.results)
    (h1 : t'.pc ≠ .store) (h3 : t'.pc ≠ .read) : TInv o s t' :=
  { at_read := fun x => absurd x h3, at_read_sync := fun _ x => absurd x h3, at_store := fun x => absurd x h1,
    some_res := by rw [hres]; exact hT.some_res, no_torn := by rw [hres]; exact hT.no_torn }

/-- one step of any thread preserves the invariant -/
theorem step_inv (o : Ord) (s : Sys) (tid : Nat) (h : Inv o s) : Inv o (step o s tid) := by
  unfold step
  cases hg : s.threads[tid]? with
  | none => exact h
  | some t =>
    simp only
    have hmem : t ∈ s.threads := List.mem_of_getElem? hg
    have hth := stepThread_threads o s t
    have e := stepThread_eff o s t
    have hT := h.thr t hmem
    generalize (stepThread o s t).1 = s' at hth e
    generalize (stepThread o s t).2 = t' at e
    have hok := okCount_set s s' tid t t' hg hth
    have hcr := critCount_set s s' tid t t' hg hth
    have hle := critN_le_critCount s tid t hg
    have hsl := h.st_le
    have hc0 := h.c0
    have hc1 := h.c1
    have hc2 := h.c2
    -- threads of the new state: either the stepped thread or an old one
    have thr_of : (∀ u ∈ s.threads, TInv o s' u) → TInv o s' t' →
        ∀ u ∈ setAt s'.threads tid t', TInv o { s' with threads := setAt s'.threads tid t' } u := by
      intro hold hnew u hu
      rw [hth] at hu
      rcases mem_setAt hu with rfl | hu
      · exact hnew.mono (fun x => x) (fun _ x => x)
      · exact (hold u hu).mono (fun x => x) (fun _ x => x)
    cases e with
    | noop => rw [setAt_same _ _ _ hg]; exact h
    | start t' hp hres hsyn h1 h2 h3 =>
      have c0 : critN t = 0 := by simp [critN, hp]
      have c1 : critN t' = 0 := by simp [critN, h1, h2]
      have o1 : okN t' = okN t := by simp [okN, hres]
      refine { st_le := hsl, c0 := ?_, c1 := ?_, c2 := ?_,
               cell2 := h.cell2, pub2 := h.pub2, no_race := h.no_race, thr := thr_of h.thr (hT.repc hres h2 h3) }
      · intro hs; have := hc0 hs; (try simp only at hok hcr ⊢); omega
      · intro hs; have := hc1 hs; (try simp only at hok hcr ⊢); omega
      · intro hs; have := hc2 hs; (try simp only at hok hcr ⊢); omega
    | casWin hp h0 =>
      have c0 : critN t = 0 := by simp [critN, hp]
      have c1 : critN { t with pc := PC.write, synced := true } = 1 := by simp [critN]
      have o1 : okN { t with pc := PC.write, synced := true } = okN t := rfl
      have := hc0 h0
      refine { st_le := by simp, c0 := ?_, c1 := ?_, c2 := ?_,
               cell2 := by simp, pub2 := by simp, no_race := h.no_race, thr := thr_of ?_ ?_ }
      · intro hs; simp at hs
      · intro _; (try simp only at hok hcr ⊢); omega
      · intro hs; simp at hs
      · intro u hu
        have hu' := h.thr u hu
        exact { at_read := fun x => by have := hu'.at_read x; omega,
                at_read_sync := hu'.at_read_sync,
                at_store := hu'.at_store,
                some_res := fun r hr => by have := (hu'.some_res r hr).1; omega,
                no_torn := hu'.no_torn }
      · exact { at_read := by simp, at_read_sync := by simp, at_store := by simp,
                some_res := fun r hr => by have := (hT.some_res r hr).1; omega,
                no_torn := hT.no_torn }
    | casLose x hp h0 =>
      have c0 : critN t = 0 := by simp [critN, hp]
      have c1 := critN_advance t (.err x)
      have o1 : okN (t.advance (.err x)) = okN t := by simp [okN_advance]
      refine { st_le := hsl, c0 := ?_, c1 := ?_, c2 := ?_,
               cell2 := h.cell2, pub2 := h.pub2, no_race := h.no_race,
               thr := thr_of h.thr (hT.advance _ (by simp) (by simp)) }
      · intro hs; have := hc0 hs; (try simp only at hok hcr ⊢); omega
      · intro hs; have := hc1 hs; (try simp only at hok hcr ⊢); omega
      · intro hs; have := hc2 hs; (try simp only at hok hcr ⊢); omega
    | write x hp =>
      have c0 : critN t = 1 := by simp [critN, hp]
      have c1 : critN { t with pc := PC.store } = 1 := by simp [critN]
      have o1 : okN { t with pc := PC.store } = okN t := rfl
      have hst1 : s.state = 1 := by
        rcases Nat.lt_or_ge s.state 1 with h' | h'
        · have := hc0 (by omega); omega
        · rcases Nat.lt_or_ge s.state 2 with h'' | h''
          · omega
          · have := hc2 (by omega); omega
      refine { st_le := hsl, c0 := ?_, c1 := ?_, c2 := ?_,
               cell2 := by simp only; intro h2; omega, pub2 := h.pub2, no_race := h.no_race, thr := thr_of ?_ ?_ }
      · intro hs; simp only at hs; omega
      · intro hs; have := hc1 hst1; (try simp only at hok hcr ⊢); omega
      · intro hs; simp only at hs; omega
      · intro u hu
        have hu' := h.thr u hu
        exact { at_read := hu'.at_read, at_read_sync := hu'.at_read_sync,
                at_store := fun _ => ⟨x, rfl⟩,
                some_res := fun r hr => by have := (hu'.some_res r hr).1; omega,
                no_torn := hu'.no_torn }
      · exact { at_read := by simp, at_read_sync := by simp, at_store := fun _ => ⟨x, rfl⟩,
                some_res := fun r hr => by have := (hT.some_res r hr).1; omega,
                no_torn := hT.no_torn }
    | store hp =>
      have c0 : critN t = 1 := by simp [critN, hp]
      have c1 := critN_advance t .ok
      have o1 : okN (t.advance .ok) = okN t + 1 := by simp [okN_advance]
      have hst1 : s.state = 1 := by
        rcases Nat.lt_or_ge s.state 1 with h' | h'
        · have := hc0 (by omega); omega
        · rcases Nat.lt_or_ge s.state 2 with h'' | h''
          · omega
          · have := hc2 (by omega); omega
      have := hc1 hst1
      obtain ⟨w, hw⟩ := hT.at_store hp
      refine { st_le := by simp, c0 := ?_, c1 := ?_, c2 := ?_,
               cell2 := fun _ => ⟨w, hw⟩, pub2 := fun _ => rfl, no_race := h.no_race, thr := thr_of ?_ ?_ }
      · intro hs; simp at hs
      · intro hs; simp at hs
      · intro _; (try simp only at hok hcr ⊢); omega
      · intro u hu
        have hu' := h.thr u hu
        exact { at_read := fun _ => rfl, at_read_sync := hu'.at_read_sync, at_store := hu'.at_store,
                some_res := fun r hr => by have := (hu'.some_res r hr).1; omega,
                no_torn := hu'.no_torn }
      · have hT' : TInv o { s with state := 2, published := o.storeRelease } t :=
          { at_read := fun _ => rfl, at_read_sync := hT.at_read_sync, at_store := hT.at_store,
            some_res := fun r hr => by have := (hT.some_res r hr).1; omega,
            no_torn := hT.no_torn }
        exact hT'.advance _ (by simp) (by simp)
    | loadNone hp h2 =>
      have c0 : critN t = 0 := by simp [critN, hp]
      have c1 := critN_advance t .none
      have o1 : okN (t.advance .none) = okN t := by simp [okN_advance]
      refine { st_le := hsl, c0 := ?_, c1 := ?_, c2 := ?_,
               cell2 := h.cell2, pub2 := h.pub2, no_race := h.no_race,
               thr := thr_of h.thr (hT.advance _ (by simp) (by simp)) }
      · intro hs; have := hc0 hs; (try simp only at hok hcr ⊢); omega
      · intro hs; have := hc1 hs; (try simp only at hok hcr ⊢); omega
      · intro hs; have := hc2 hs; (try simp only at hok hcr ⊢); omega
    | loadInit hp h2 =>
      have c0 : critN t = 0 := by simp [critN, hp]
      have c1 : critN { t with pc := PC.read, synced := t.synced || (o.loadAcquire && s.published) } = 0 := by
        simp [critN]
      have o1 : okN { t with pc := PC.read, synced := t.synced || (o.loadAcquire && s.published) } = okN t := rfl
      refine { st_le := hsl, c0 := ?_, c1 := ?_, c2 := ?_,
               cell2 := h.cell2, pub2 := h.pub2, no_race := h.no_race, thr := thr_of h.thr ?_ }
      · intro hs; have := hc0 hs; (try simp only at hok hcr ⊢); omega
      · intro hs; have := hc1 hs; (try simp only at hok hcr ⊢); omega
      · intro hs; have := hc2 hs; (try simp only at hok hcr ⊢); omega
      · exact { at_read := fun _ => h2,
                at_read_sync := fun hord _ => by
                  have := h.pub2 h2
                  simp [this, hord.1, hord.2],
                at_store := by simp, some_res := hT.some_res, no_torn := hT.no_torn }
    | read hp =>
      have c0 : critN t = 0 := by simp [critN, hp]
      have h2 := hT.at_read hp
      obtain ⟨w, hw⟩ := h.cell2 h2
      generalize hres : (match s.cell with | some r => Res.some r | none => Res.torn) = res at hok hcr thr_of ⊢
      have hres' : res = Res.some w := by rw [← hres, hw]
      subst hres'
      have c1 := critN_advance t (Res.some w)
      have o1 : okN (t.advance (Res.some w)) = okN t := by simp [okN_advance]
      have hadv : TInv o s (t.advance (Res.some w)) :=
        hT.advance _ (by simp) (by intro x hx; injection hx with hx; subst hx; exact ⟨h2, hw⟩)
      by_cases hsyn : t.synced = true
      · rw [if_pos hsyn] at hok hcr thr_of ⊢
        refine { st_le := hsl, c0 := ?_, c1 := ?_, c2 := ?_,
                 cell2 := h.cell2, pub2 := h.pub2, no_race := h.no_race, thr := thr_of h.thr hadv }
        · intro hs; have := hc0 hs; (try simp only at hok hcr ⊢); omega
        · intro hs; have := hc1 hs; (try simp only at hok hcr ⊢); omega
        · intro hs; have := hc2 hs; (try simp only at hok hcr ⊢); omega
      · rw [if_neg hsyn] at hok hcr thr_of ⊢
        refine { st_le := hsl, c0 := ?_, c1 := ?_, c2 := ?_,
                 cell2 := h.cell2, pub2 := h.pub2,
                 no_race := fun hord => absurd (hT.at_read_sync hord hp) hsyn, thr := thr_of ?_ ?_ }
        · intro hs; have := hc0 hs; (try simp only at hok hcr ⊢); omega
        · intro hs; have := hc1 hs; (try simp only at hok hcr ⊢); omega
        · intro hs; have := hc2 hs; (try simp only at hok hcr ⊢); omega
        · intro u hu; exact (h.thr u hu).mono (fun x => x) (fun _ x => x)
        · exact hadv.mono (fun x => x) (fun _ x => x)

theorem run_inv (o : Ord) (sched : List Nat) : ∀ s, Inv o s → Inv o (run o s sched) := by
  induction sched with
  | nil => intro s h; exact h
  | cons t ts ih => intro s h; exact ih _ (step_inv o s t h)

end MetricsVerif.OnceCell
