/-
C05, all thread kinds (pushers, snapshot readers, clearers, is_empty): the structural invariant and the value
accounting hold in EVERY interleaving — no slot is claimed twice or overwritten, every claimed slot holds the
argument of exactly one push, and readers only ever hand out published slots holding push arguments.
(Conservation for pushers-only runs is in `Proofs/Bucket.lean`; with clearers the full statement is false, K1.)
-/
import MetricsVerif.Proofs.Bucket

namespace MetricsVerif.Bucket

def isPusherPC : PC → Bool
  | .pLoadTail | .pCasFirst | .pClaim _ _ | .pPublish _ _ | .pCasNew _ => true
  | _ => false

/-- per-thread invariant for arbitrary programs -/
structure ATI (blocks : List Block) (t : Thread) : Prop where
  push_head : isPusherPC t.pc = true → ∃ v rest, t.calls = .push v :: rest
  claim_lt : ∀ blk r, t.pc = .pClaim blk r → blk < blocks.length
  pub_cell : ∀ blk idx, t.pc = .pPublish blk idx → PubCell blocks blk idx (curVal t)

structure AInv (s : Sys) : Prop where
  tail_valid : ∀ b, s.tail = some b → b + 1 = s.blocks.length
  cells_len : ∀ (i : Nat) (b : Block), s.blocks[i]? = some b → b.cells.length = min b.write s.B
  thr : ∀ (i : Nat) (t : Thread), s.threads[i]? = some t → ATI s.blocks t
  distinct : ∀ (i j : Nat) (ti tj : Thread) (blk idx : Nat), i ≠ j → s.threads[i]? = some ti →
      s.threads[j]? = some tj → ti.pc = .pPublish blk idx → tj.pc ≠ .pPublish blk idx
  wp : wSum s = pSum s

theorem ATI.mono {bs bs' : List Block} {t : Thread} (h : ATI bs t) (hlen : bs.length ≤ bs'.length)
    (hcell : ∀ blk idx, t.pc = .pPublish blk idx → PubCell bs blk idx (curVal t) →
      PubCell bs' blk idx (curVal t)) : ATI bs' t :=
  { push_head := h.push_head
    claim_lt := fun blk r hp => Nat.lt_of_lt_of_le (h.claim_lt blk r hp) hlen
    pub_cell := fun blk idx hp => hcell blk idx hp (h.pub_cell blk idx hp) }

theorem ATI.set_block {bs : List Block} {u : Thread} {blk : Nat} {b b' : Block} (hu : ATI bs u)
    (hb : bs[blk]? = some b)
    (hkeep : ∀ idx, u.pc = .pPublish blk idx → b.cells[idx]? = some (.written (curVal u)) →
        b'.cells[idx]? = some (.written (curVal u))) : ATI (setAt bs blk b') u := by
  have hlt := lt_of_getElem?_some hb
  refine hu.mono (by rw [setAt_length]; exact Nat.le_refl _) ?_
  intro blk' idx' hpc hc
  by_cases hbb : blk' = blk
  · subst hbb
    obtain ⟨b0, hb0, hc0⟩ := hc
    rw [hb] at hb0; injection hb0 with hb0; subst hb0
    exact ⟨b', by rw [getElem?_setAt]; simp [hlt], hkeep idx' hpc hc0⟩
  · exact hc.set_other hbb

/-- a thread at a pc that is neither a claim nor a publish has no obligations towards the blocks -/
theorem ATI.of_plain {bs : List Block} {t : Thread}
    (hhead : isPusherPC t.pc = true → ∃ v rest, t.calls = .push v :: rest)
    (h1 : ∀ blk r, t.pc ≠ .pClaim blk r) (h2 : ∀ blk idx, t.pc ≠ .pPublish blk idx) : ATI bs t :=
  { push_head := hhead, claim_lt := fun blk r hp => absurd hp (h1 blk r),
    pub_cell := fun blk idx hp => absurd hp (h2 blk idx) }

theorem startPC_head (calls : List Call) (h : isPusherPC (startPC calls) = true) :
    ∃ v rest, calls = .push v :: rest := by
  cases calls with
  | nil => simp [startPC, isPusherPC] at h
  | cons c r => cases c <;> simp_all [startPC, pcOfCall, isPusherPC]

theorem startPC_plain (calls : List Call) :
    (∀ blk r, startPC calls ≠ .pClaim blk r) ∧ (∀ blk idx, startPC calls ≠ .pPublish blk idx) := by
  cases calls with
  | nil => simp [startPC]
  | cons c r => cases c <;> simp [startPC, pcOfCall]

theorem pubN_startPC (calls : List Call) (t : Thread) (r : Res) :
    pubN { t with calls := calls, results := t.results ++ [r], acc := [], pc := startPC calls } = 0 := by
  have := (startPC_plain calls).2
  unfold pubN
  cases h : startPC calls <;> simp_all

theorem pubN_advance' (t : Thread) (r : Res) : pubN (t.advance r) = 0 := pubN_startPC _ t r

theorem ATI.advance {bs : List Block} (t : Thread) (r : Res) : ATI bs (t.advance r) := by
  have hp := startPC_plain t.calls.tail
  exact ATI.of_plain (fun h => startPC_head _ h) hp.1 hp.2

/-- packaging, as `pinv_after` -/
theorem ainv_after {s : Sys} {tid : Nat} {t t' : Thread} {bs' : List Block} {tl' : Option Nat}
    (hg : s.threads[tid]? = some t)
    (tail_valid : ∀ b, tl' = some b → b + 1 = bs'.length)
    (cells_len : ∀ (i : Nat) (b : Block), bs'[i]? = some b → b.cells.length = min b.write s.B)
    (hnew : ATI bs' t')
    (hold : ∀ (i : Nat) (u : Thread), i ≠ tid → s.threads[i]? = some u → ATI bs' u)
    (hdist : ∀ blk idx, t'.pc = .pPublish blk idx → ∀ (j : Nat) (u : Thread), j ≠ tid → s.threads[j]? = some u →
        u.pc ≠ .pPublish blk idx)
    (holddist : ∀ (i j : Nat) (ti tj : Thread) (blk idx : Nat), i ≠ j → s.threads[i]? = some ti →
        s.threads[j]? = some tj → ti.pc = .pPublish blk idx → tj.pc ≠ .pPublish blk idx)
    (wp : (bs'.map (fun b => wcount b.cells)).sum + pubN t = pSum s + pubN t') :
    AInv { B := s.B, blocks := bs', tail := tl', threads := setAt s.threads tid t' } := by
  refine { tail_valid := tail_valid, cells_len := cells_len, thr := ?_, distinct := ?_, wp := ?_ }
  · intro i u hu
    rcases threads_after hg i u hu with ⟨_, rfl⟩ | ⟨hi, hu'⟩
    · exact hnew
    · exact hold i u hi hu'
  · intro i j ti tj blk idx hij hi hj hpi
    rcases threads_after hg i ti hi with ⟨ei, rfl⟩ | ⟨hni, hi'⟩
    · rcases threads_after hg j tj hj with ⟨ej, rfl⟩ | ⟨hnj, hj'⟩
      · exact absurd (ei.trans ej.symm) hij
      · exact hdist blk idx hpi j tj hnj hj'
    · rcases threads_after hg j tj hj with ⟨ej, rfl⟩ | ⟨hnj, hj'⟩
      · intro hpj
        exact hdist blk idx hpj i ti hni hi' hpi
      · exact holddist i j ti tj blk idx hij hi' hj' hpi
  · have := sum_map_setAt pubN s.threads tid t' t hg
    simp only [wSum, pSum] at wp ⊢
    omega

/-- steps that leave the blocks alone and move the thread between non-publish pcs (all reader / clearer
    steps, and the pusher's tail loads and failed CASes); the tail may be reset to `none` (a clear's CAS) -/
theorem ainv_same {s : Sys} {tid : Nat} {t t'' : Thread} {tl' : Option Nat} (h : AInv s)
    (hg : s.threads[tid]? = some t) (htl : tl' = s.tail ∨ tl' = none)
    (hnew : ATI s.blocks t'') (hp : pubN t'' = 0) (hp0 : pubN t = 0) :
    AInv { B := s.B, blocks := s.blocks, tail := tl', threads := setAt s.threads tid t'' } := by
  have hwp := h.wp
  refine ainv_after hg ?_ h.cells_len hnew (fun i u _ hu => h.thr i u hu) ?_ h.distinct
    (by simp only [wSum] at hwp; omega)
  · intro b hb
    rcases htl with e | e
    · rw [e] at hb; exact h.tail_valid b hb
    · rw [e] at hb; cases hb
  · intro blk idx hp' j u hj hu
    simp [pubN, hp'] at hp

end MetricsVerif.Bucket

namespace MetricsVerif.Bucket

theorem cells_set_struct {s : Sys} (h : AInv s) {blk : Nat} {b b' : Block} (hb : s.blocks[blk]? = some b)
    (hlen : b'.cells.length = min b'.write s.B) :
    (∀ t, s.tail = some t → t + 1 = (setAt s.blocks blk b').length)
    ∧ (∀ (i : Nat) (x : Block), (setAt s.blocks blk b')[i]? = some x → x.cells.length = min x.write s.B) := by
  refine ⟨?_, ?_⟩
  · intro t ht; rw [setAt_length]; exact h.tail_valid t ht
  · intro i x hx
    rw [getElem?_setAt] at hx
    by_cases hi : blk = i ∧ i < s.blocks.length
    · simp only [hi, and_self, if_true, Option.some.injEq] at hx
      subst hx; exact hlen
    · simp only [hi, if_false] at hx; exact h.cells_len i x hx

theorem ainv_append {s : Sys} {tid : Nat} {t : Thread} {r : Bool} (h : AInv s) (hg : s.threads[tid]? = some t)
    (hT : ATI s.blocks t) (hpush : isPusherPC t.pc = true) (hp0 : pubN t = 0) (nb : Block)
    (hnb : nb.cells = [] ∧ nb.write = 0) :
    AInv { B := s.B, blocks := s.blocks ++ [nb], tail := some s.blocks.length,
           threads := setAt s.threads tid { t with pc := .pClaim s.blocks.length r } } := by
  have hwp := h.wp
  refine ainv_after hg ?_ ?_ ?_ ?_ ?_ h.distinct ?_
  · intro b hb; injection hb with hb; subst hb; simp
  · intro i b hb
    by_cases hi : i < s.blocks.length
    · rw [List.getElem?_append_left hi] at hb; exact h.cells_len i b hb
    · have hi' : i = s.blocks.length := by
        have := lt_of_getElem?_some hb; simp at this; omega
      subst hi'
      simp at hb; subst hb; simp [hnb.1, hnb.2]
  · exact { push_head := fun _ => hT.push_head hpush,
            claim_lt := by intro blk r' hpc; simp at hpc; simp [hpc.1], pub_cell := by simp }
  · intro i u _ hu
    exact (h.thr i u hu).mono (by simp) (fun blk idx _ hc => hc.append _)
  · simp
  · have p1 : pubN { t with pc := PC.pClaim s.blocks.length r } = 0 := rfl
    have w0 : wcount nb.cells = 0 := by rw [hnb.1]; rfl
    simp only [List.map_append, List.sum_append, List.map_cons, List.map_nil, List.sum_cons, List.sum_nil, w0, p1, hp0]
    simp only [wSum] at hwp
    omega

theorem ainv_claimOk {s : Sys} {tid : Nat} {t : Thread} {blk : Nat} {r : Bool} {b : Block} (h : AInv s)
    (hg : s.threads[tid]? = some t) (hT : ATI s.blocks t) (hp : t.pc = .pClaim blk r)
    (hb : s.blocks[blk]? = some b) (hw : b.write < s.B) :
    AInv { B := s.B,
           blocks := setAt s.blocks blk { b with write := b.write + 1, cells := b.cells ++ [.written (curVal t)] },
           tail := s.tail, threads := setAt s.threads tid { t with pc := .pPublish blk b.write } } := by
  have hwp := h.wp
  have hlt := lt_of_getElem?_some hb
  have hclen := h.cells_len blk b hb
  have hwlen : b.cells.length = b.write := by rw [hclen]; omega
  obtain ⟨s1, s2⟩ := cells_set_struct h (b' := { b with write := b.write + 1, cells := b.cells ++ [.written (curVal t)] })
    hb (by simp; omega)
  refine ainv_after hg s1 s2 ?_ ?_ ?_ h.distinct ?_
  · refine { push_head := fun _ => hT.push_head (by simp [hp, isPusherPC]), claim_lt := by simp, pub_cell := ?_ }
    intro blk' idx' hpc
    simp only [PC.pPublish.injEq] at hpc
    obtain ⟨rfl, rfl⟩ := hpc
    refine ⟨{ b with write := b.write + 1, cells := b.cells ++ [.written (curVal t)] },
      by rw [getElem?_setAt]; simp [hlt], ?_⟩
    show (b.cells ++ [Cell.written (curVal t)])[b.write]? = some (Cell.written (curVal t))
    rw [← hwlen]; simp
  · intro i u _ hu
    refine (h.thr i u hu).set_block hb ?_
    intro idx _ hc
    have := lt_of_getElem?_some hc
    show (b.cells ++ [Cell.written (curVal t)])[idx]? = _
    rw [List.getElem?_append_left this]; exact hc
  · intro blk' idx' hpc j u hj hu hpu
    simp only [PC.pPublish.injEq] at hpc
    obtain ⟨rfl, rfl⟩ := hpc
    obtain ⟨b0, hb0, hc0⟩ := (h.thr j u hu).pub_cell _ _ hpu
    rw [hb] at hb0; injection hb0 with hb0; subst hb0
    have := lt_of_getElem?_some hc0
    omega
  · have := sum_map_setAt (fun b => wcount b.cells) s.blocks blk
      { b with write := b.write + 1, cells := b.cells ++ [.written (curVal t)] } b hb
    simp only [wcount_append] at this
    have w1 : wcount [Cell.written (curVal t)] = 1 := by simp [wcount, Cell.isPub]
    have p0 : pubN t = 0 := by simp [pubN, hp]
    have p1 : pubN { t with pc := PC.pPublish blk b.write } = 1 := rfl
    simp only [wSum] at hwp
    rw [p0, p1]; omega

theorem ainv_claimFull {s : Sys} {tid : Nat} {t : Thread} {blk : Nat} {r : Bool} {b : Block} {pc' : PC} (h : AInv s)
    (hg : s.threads[tid]? = some t) (hT : ATI s.blocks t) (hp : t.pc = .pClaim blk r)
    (hb : s.blocks[blk]? = some b) (hw : ¬ b.write < s.B) (hpc' : pc' = .pLoadTail ∨ pc' = .pCasNew blk) :
    AInv { B := s.B, blocks := setAt s.blocks blk { b with write := b.write + 1 },
           tail := s.tail, threads := setAt s.threads tid { t with pc := pc' } } := by
  have hwp := h.wp
  have hclen := h.cells_len blk b hb
  obtain ⟨s1, s2⟩ := cells_set_struct h (b' := { b with write := b.write + 1 }) hb (by simp; omega)
  have hhead := hT.push_head (by simp [hp, isPusherPC])
  refine ainv_after hg s1 s2 ?_ ?_ ?_ h.distinct ?_
  · rcases hpc' with rfl | rfl
    · exact ATI.of_plain (fun _ => hhead) (by simp) (by simp)
    · exact ATI.of_plain (fun _ => hhead) (by simp) (by simp)
  · intro i u _ hu
    exact (h.thr i u hu).set_block hb (fun idx _ hc => hc)
  · intro blk' idx' hpc
    rcases hpc' with rfl | rfl <;> simp at hpc
  · have := sum_map_setAt (fun b => wcount b.cells) s.blocks blk { b with write := b.write + 1 } b hb
    have p0 : pubN t = 0 := by simp [pubN, hp]
    have p1 : pubN { t with pc := pc' } = 0 := by rcases hpc' with rfl | rfl <;> rfl
    simp only [wSum] at hwp
    rw [p0, p1]; simp only at this; omega

theorem ainv_publish {s : Sys} {tid : Nat} {t : Thread} {blk idx : Nat} {b : Block} (h : AInv s)
    (hg : s.threads[tid]? = some t) (hp : t.pc = .pPublish blk idx)
    (hb : s.blocks[blk]? = some b) (hc : b.cells[idx]? = some (.written (curVal t))) :
    AInv { B := s.B, blocks := setAt s.blocks blk { b with cells := publishCell b.cells idx },
           tail := s.tail, threads := setAt s.threads tid (t.advance .pushed) } := by
  have hwp := h.wp
  obtain ⟨s1, s2⟩ := cells_set_struct h (b' := { b with cells := publishCell b.cells idx }) hb
    (by simp only [publishCell_length]; exact h.cells_len blk b hb)
  refine ainv_after hg s1 s2 (ATI.advance t .pushed) ?_ ?_ h.distinct ?_
  · intro i u hi hu
    refine (h.thr i u hu).set_block hb ?_
    intro idx' hpu hcu
    have hne : idx ≠ idx' := by
      intro e; subst e
      exact h.distinct tid i t u blk idx (fun e => hi e.symm) hg hu hp hpu
    show (publishCell b.cells idx)[idx']? = _
    rw [publishCell_get]; simp [hne, hcu]
  · intro blk' idx' hpc
    have := pubN_advance' t .pushed
    simp [pubN, hpc] at this
  · have := sum_map_setAt (fun b => wcount b.cells) s.blocks blk { b with cells := publishCell b.cells idx } b hb
    have hw := wcount_publish b.cells idx (curVal t) hc
    have p0 : pubN t = 1 := by simp [pubN, hp]
    have p1 := pubN_advance' t .pushed
    simp only [wSum] at hwp
    rw [p0, p1]; simp only at this; omega

end MetricsVerif.Bucket

namespace MetricsVerif.Bucket

theorem pubN_plain (t : Thread) (h : ∀ blk idx, t.pc ≠ .pPublish blk idx) : pubN t = 0 := by
  unfold pubN
  cases hp : t.pc <;> simp_all

/-- one step of ANY thread (pusher, reader, clearer, is_empty) preserves the invariant -/
theorem astep_inv (s : Sys) (tid : Nat) (h : AInv s) : AInv (step s tid) := by
  unfold step
  cases hg : s.threads[tid]? with
  | none => exact h
  | some t =>
    simp only
    have hT := h.thr tid t hg
    -- a reader/clearer step: blocks unchanged, thread moves to a pc without block obligations
    have rd : ∀ (t'' : Thread) (tl' : Option Nat), (tl' = s.tail ∨ tl' = none) →
        (isPusherPC t''.pc = true → ∃ v rest, t''.calls = .push v :: rest) →
        (∀ blk r, t''.pc ≠ .pClaim blk r) → (∀ blk idx, t''.pc ≠ .pPublish blk idx) →
        (∀ blk idx, t.pc ≠ .pPublish blk idx) →
        AInv { B := s.B, blocks := s.blocks, tail := tl', threads := setAt s.threads tid t'' } := by
      intro t'' tl' htl hh h1 h2 h0
      exact ainv_same h hg htl (ATI.of_plain hh h1 h2) (pubN_plain t'' h2) (pubN_plain t h0)
    -- the thread after finishing a call
    have adv : ∀ (r : Res) (tl' : Option Nat), (tl' = s.tail ∨ tl' = none) → (∀ blk idx, t.pc ≠ .pPublish blk idx) →
        AInv { B := s.B, blocks := s.blocks, tail := tl', threads := setAt s.threads tid (t.advance r) } := by
      intro r tl' htl h0
      have hp := startPC_plain t.calls.tail
      exact rd (t.advance r) tl' htl (fun hh => startPC_head _ hh) hp.1 hp.2 h0
    unfold stepThread
    cases hp : t.pc with
    | start =>
      simp only
      have hpl := startPC_plain t.calls
      exact rd _ s.tail (Or.inl rfl) (fun hh => startPC_head _ hh) hpl.1 hpl.2 (by simp [hp])
    | done => simp only; rw [setAt_same _ _ _ hg]; exact h
    | pLoadTail =>
      simp only
      have hhead := hT.push_head (by simp [hp, isPusherPC])
      split
      · exact rd { t with pc := .pCasFirst } s.tail (Or.inl rfl) (fun _ => hhead) (by simp) (by simp) (by simp [hp])
      · rename_i b ht
        have hb := h.tail_valid b ht
        exact ainv_same (t'' := { t with pc := .pClaim b false }) (tl' := s.tail) h hg (Or.inl rfl)
          { push_head := fun _ => hhead, claim_lt := (by intro blk r hpc; simp at hpc; obtain ⟨e, _⟩ := hpc; show blk < s.blocks.length; omega), pub_cell := by simp }
          rfl (by simp [pubN, hp])
    | pCasFirst =>
      simp only
      have hhead := hT.push_head (by simp [hp, isPusherPC])
      split
      · exact ainv_append h hg hT (by simp [hp, isPusherPC]) (by simp [pubN, hp]) newBlock ⟨rfl, rfl⟩
      · rename_i b ht
        have hb := h.tail_valid b ht
        exact ainv_same (t'' := { t with pc := .pClaim b false }) (tl' := s.tail) h hg (Or.inl rfl)
          { push_head := fun _ => hhead, claim_lt := (by intro blk r hpc; simp at hpc; obtain ⟨e, _⟩ := hpc; show blk < s.blocks.length; omega), pub_cell := by simp }
          rfl (by simp [pubN, hp])
    | pClaim blk r =>
      simp only
      have hlt := hT.claim_lt blk r hp
      obtain ⟨b, hb⟩ : ∃ b, s.blocks[blk]? = some b := ⟨s.blocks[blk], List.getElem?_eq_getElem hlt⟩
      rw [getBlock_eq hb]
      by_cases hw : b.write < s.B
      · simp only [hw, if_true]; exact ainv_claimOk h hg hT hp hb hw
      · simp only [hw, if_false]
        cases r with
        | true => simp only [if_true]; exact ainv_claimFull h hg hT hp hb hw (Or.inl rfl)
        | false => simp only [Bool.false_eq_true, if_false]; exact ainv_claimFull h hg hT hp hb hw (Or.inr rfl)
    | pPublish blk idx =>
      simp only
      obtain ⟨b, hb, hc⟩ := hT.pub_cell blk idx hp
      rw [getBlock_eq hb]
      exact ainv_publish h hg hp hb hc
    | pCasNew old =>
      simp only
      have hhead := hT.push_head (by simp [hp, isPusherPC])
      by_cases ht : s.tail = some old
      · simp only [ht, if_true]
        exact ainv_append h hg hT (by simp [hp, isPusherPC]) (by simp [pubN, hp]) { newBlock with next := some old } ⟨rfl, rfl⟩
      · simp only [ht, if_false]
        exact rd { t with pc := .pLoadTail } s.tail (Or.inl rfl) (fun _ => hhead) (by simp) (by simp) (by simp [hp])
    | dLoadTail =>
      simp only
      split
      · exact adv (.snapshot t.acc) s.tail (Or.inl rfl) (by simp [hp])
      · rename_i b ht
        exact rd { t with pc := .dQuiesced b } s.tail (Or.inl rfl) (by simp [isPusherPC]) (by simp) (by simp) (by simp [hp])
    | dQuiesced blk =>
      simp only
      exact rd _ s.tail (Or.inl rfl) (by split <;> simp [isPusherPC]) (by split <;> simp) (by split <;> simp) (by simp [hp])
    | dWait blk =>
      simp only
      exact rd _ s.tail (Or.inl rfl) (by split <;> simp [isPusherPC]) (by split <;> simp) (by split <;> simp) (by simp [hp])
    | dRead blk =>
      simp only
      exact rd _ s.tail (Or.inl rfl) (by simp [isPusherPC]) (by simp) (by simp) (by simp [hp])
    | dNext blk =>
      simp only
      split
      · exact adv (.snapshot t.acc) s.tail (Or.inl rfl) (by simp [hp])
      · rename_i n hn
        exact rd { t with pc := .dQuiesced n } s.tail (Or.inl rfl) (by simp [isPusherPC]) (by simp) (by simp) (by simp [hp])
    | cLoadTail =>
      simp only
      split
      · exact adv (.cleared []) s.tail (Or.inl rfl) (by simp [hp])
      · rename_i b ht
        exact rd { t with pc := .cCas b } s.tail (Or.inl rfl) (by simp [isPusherPC]) (by simp) (by simp) (by simp [hp])
    | cCas old =>
      simp only
      by_cases ht : s.tail = some old
      · simp only [ht, if_true]
        exact rd { t with pc := .cQuiesced old } none (Or.inr rfl) (by simp [isPusherPC]) (by simp) (by simp) (by simp [hp])
      · simp only [ht, if_false]
        exact rd { t with pc := .cLoadTail } s.tail (Or.inl rfl) (by simp [isPusherPC]) (by simp) (by simp) (by simp [hp])
    | cQuiesced blk =>
      simp only
      exact rd _ s.tail (Or.inl rfl) (by split <;> simp [isPusherPC]) (by split <;> simp) (by split <;> simp) (by simp [hp])
    | cWait blk =>
      simp only
      exact rd _ s.tail (Or.inl rfl) (by split <;> simp [isPusherPC]) (by split <;> simp) (by split <;> simp) (by simp [hp])
    | cRead blk =>
      simp only
      exact rd _ s.tail (Or.inl rfl) (by simp [isPusherPC]) (by simp) (by simp) (by simp [hp])
    | cNext blk =>
      simp only
      split
      · exact adv (.cleared t.acc) s.tail (Or.inl rfl) (by simp [hp])
      · rename_i n hn
        exact rd { t with pc := .cQuiesced n } s.tail (Or.inl rfl) (by simp [isPusherPC]) (by simp) (by simp) (by simp [hp])
    | eLoadTail =>
      simp only
      split
      · exact adv (.empty true) s.tail (Or.inl rfl) (by simp [hp])
      · rename_i b ht
        exact rd { t with pc := .eLen b } s.tail (Or.inl rfl) (by simp [isPusherPC]) (by simp) (by simp) (by simp [hp])
    | eLen blk =>
      simp only
      exact adv _ s.tail (Or.inl rfl) (by simp [hp])

theorem init_ainv (B : Nat) (progs : List (List Call)) : AInv (init B progs) := by
  have hz : ∀ l : List (List Call), ((l.map mkThread).map pubN).sum = 0 := by
    intro l; induction l with
    | nil => rfl
    | cons x xs ih => simp only [List.map_cons, List.sum_cons, ih]; rfl
  refine { tail_valid := by simp [init], cells_len := by simp [init], thr := ?_, distinct := ?_,
           wp := by simp only [init, wSum, pSum, List.map_nil, List.sum_nil]; exact (hz progs).symm }
  · intro i t ht
    have hm : t ∈ (init B progs).threads := List.mem_of_getElem? ht
    simp only [init, List.mem_map] at hm
    obtain ⟨p, _, rfl⟩ := hm
    exact ATI.of_plain (by simp [mkThread, isPusherPC]) (by simp [mkThread]) (by simp [mkThread])
  · intro i j ti tj blk idx _ hi _ hpi
    have hm : ti ∈ (init B progs).threads := List.mem_of_getElem? hi
    simp only [init, List.mem_map] at hm
    obtain ⟨p, _, rfl⟩ := hm
    simp [mkThread] at hpi

theorem arun_inv (sched : List Nat) : ∀ s, AInv s → AInv (run s sched) := by
  induction sched with
  | nil => intro s h; exact h
  | cons t ts ih => intro s h; exact ih _ (astep_inv s t h)

end MetricsVerif.Bucket

/-! ## value accounting for ALL thread kinds -/
namespace MetricsVerif.Bucket

/-- thread-local: outside the push code the call being executed is not a push -/
def RH (t : Thread) : Prop := isPusherPC t.pc = false → t.pc ≠ .start → ∀ v, t.calls.head? ≠ some (.push v)

theorem RH_of_startPC (t : Thread) (h : t.pc = startPC t.calls) : RH t := by
  intro hp _ v hv
  cases hc : t.calls with
  | nil => simp [hc] at hv
  | cons c r =>
    simp only [hc, List.head?_cons, Option.some.injEq] at hv
    subst hv
    simp [h, hc, startPC, pcOfCall, isPusherPC] at hp

theorem RH_of_pusher (t : Thread) (h : isPusherPC t.pc = true) : RH t := by
  intro hp; rw [h] at hp; cases hp

theorem RH_of_head (t : Thread) (hh : ∀ v, t.calls.head? ≠ some (.push v)) : RH t := fun _ _ => hh

theorem rh_step (s : Sys) (t : Thread) (h : RH t) : RH (stepThread s t).2 := by
  unfold stepThread
  cases hp : t.pc with
  | start => exact RH_of_startPC _ rfl
  | done => exact h
  | pLoadTail => simp only; split <;> exact RH_of_pusher _ rfl
  | pCasFirst => simp only; split <;> exact RH_of_pusher _ rfl
  | pClaim blk r =>
    simp only
    split
    · exact RH_of_pusher _ rfl
    · split <;> exact RH_of_pusher _ rfl
  | pPublish blk idx => exact RH_of_startPC _ rfl
  | pCasNew old => simp only; split <;> exact RH_of_pusher _ rfl
  | dLoadTail =>
    simp only; have hh := h (by simp [hp, isPusherPC]) (by simp [hp])
    split
    · exact RH_of_startPC _ rfl
    · exact RH_of_head _ hh
  | dQuiesced blk => exact RH_of_head _ (h (by simp [hp, isPusherPC]) (by simp [hp]))
  | dWait blk => exact RH_of_head _ (h (by simp [hp, isPusherPC]) (by simp [hp]))
  | dRead blk => exact RH_of_head _ (h (by simp [hp, isPusherPC]) (by simp [hp]))
  | dNext blk =>
    simp only; have hh := h (by simp [hp, isPusherPC]) (by simp [hp])
    split
    · exact RH_of_startPC _ rfl
    · exact RH_of_head _ hh
  | cLoadTail =>
    simp only; have hh := h (by simp [hp, isPusherPC]) (by simp [hp])
    split
    · exact RH_of_startPC _ rfl
    · exact RH_of_head _ hh
  | cCas old =>
    simp only; have hh := h (by simp [hp, isPusherPC]) (by simp [hp])
    split
    · exact RH_of_head _ hh
    · exact RH_of_head _ hh
  | cQuiesced blk => exact RH_of_head _ (h (by simp [hp, isPusherPC]) (by simp [hp]))
  | cWait blk => exact RH_of_head _ (h (by simp [hp, isPusherPC]) (by simp [hp]))
  | cRead blk => exact RH_of_head _ (h (by simp [hp, isPusherPC]) (by simp [hp]))
  | cNext blk =>
    simp only; have hh := h (by simp [hp, isPusherPC]) (by simp [hp])
    split
    · exact RH_of_startPC _ rfl
    · exact RH_of_head _ hh
  | eLoadTail =>
    simp only; have hh := h (by simp [hp, isPusherPC]) (by simp [hp])
    split
    · exact RH_of_startPC _ rfl
    · exact RH_of_head _ hh
  | eLen blk => exact RH_of_startPC _ rfl

theorem todo_eq (v : Nat) (t t' : Thread) (hc : t'.calls = t.calls) (h1 : ∀ b i, t.pc ≠ .pPublish b i)
    (h2 : ∀ b i, t'.pc ≠ .pPublish b i) : todo v t' = todo v t := by
  unfold todo
  cases hp : t.pc <;> cases hp' : t'.pc <;> simp_all

theorem todo_advance (v : Nat) (t : Thread) (r : Res) : todo v (t.advance r) = t.calls.tail.count (.push v) := by
  have := (startPC_plain t.calls.tail).2
  unfold todo
  show (match startPC t.calls.tail with | .pPublish _ _ => _ | _ => _) = _
  cases h : startPC t.calls.tail <;> simp_all [Thread.advance]

theorem count_tail_of_head (calls : List Call) (v : Nat) (hh : ∀ w, calls.head? ≠ some (.push w)) :
    calls.tail.count (.push v) = calls.count (.push v) := by
  cases calls with
  | nil => rfl
  | cons c r =>
    have : c ≠ .push v := fun e => hh v (by simp [e])
    simp [List.count_cons, this]

/-- a reader / clearer / is_empty thread finishing its call leaves its to-do pushes unchanged -/
theorem todo_advance_reader (v : Nat) (t : Thread) (r : Res) (h : RH t) (hp : isPusherPC t.pc = false) (hs : t.pc ≠ .start) :
    todo v (t.advance r) = todo v t := by
  rw [todo_advance, count_tail_of_head _ _ (h hp hs)]
  unfold todo
  cases hpc : t.pc <;> simp_all [isPusherPC]

def cnt (v : Nat) (b : Block) : Nat := (b.cells.map Cell.val).count v
def csum (v : Nat) (bs : List Block) : Nat := (bs.map (cnt v)).sum

theorem cellsCount_eq (v : Nat) (s : Sys) : cellsCount v s = csum v s.blocks := rfl

theorem vals_after (v : Nat) (s : Sys) (tid : Nat) (t t' : Thread) (bs' : List Block) (tl' : Option Nat)
    (hg : s.threads[tid]? = some t) (heq : csum v bs' + todo v t' = csum v s.blocks + todo v t)
    (hle : csum v s.blocks ≤ csum v bs') :
    (cellsCount v { B := s.B, blocks := bs', tail := tl', threads := setAt s.threads tid t' }
      + todoSum v { B := s.B, blocks := bs', tail := tl', threads := setAt s.threads tid t' }
        = cellsCount v s + todoSum v s)
    ∧ cellsCount v s ≤ cellsCount v { B := s.B, blocks := bs', tail := tl', threads := setAt s.threads tid t' } := by
  have := todoSum_set v s tid t t' hg
  simp only [cellsCount_eq, todoSum] at *
  omega

theorem csum_append_empty (v : Nat) (bs : List Block) (nb : Block) (h : nb.cells = []) : csum v (bs ++ [nb]) = csum v bs := by
  simp [csum, cnt, h]

theorem csum_set (v : Nat) (bs : List Block) (blk : Nat) (b b' : Block) (hb : bs[blk]? = some b) :
    csum v (setAt bs blk b') + cnt v b = csum v bs + cnt v b' := sum_map_setAt (cnt v) bs blk b' b hb

/-- one step of ANY thread keeps (claimed cells holding `v`) + (pushes of `v` not yet claimed) constant, and never
    removes a claimed cell -/
theorem astep_vals (v : Nat) (s : Sys) (tid : Nat) (h : AInv s) (hr : ∀ (i : Nat) (t : Thread), s.threads[i]? = some t → RH t) :
    (cellsCount v (step s tid) + todoSum v (step s tid) = cellsCount v s + todoSum v s)
    ∧ cellsCount v s ≤ cellsCount v (step s tid) := by
  unfold step
  cases hg : s.threads[tid]? with
  | none => exact ⟨rfl, Nat.le_refl _⟩
  | some t =>
    simp only
    have hT := h.thr tid t hg
    have hR := hr tid t hg
    -- blocks unchanged, to-do unchanged
    have same : ∀ (t'' : Thread) (tl' : Option Nat), todo v t'' = todo v t →
        (cellsCount v { B := s.B, blocks := s.blocks, tail := tl', threads := setAt s.threads tid t'' }
          + todoSum v { B := s.B, blocks := s.blocks, tail := tl', threads := setAt s.threads tid t'' }
            = cellsCount v s + todoSum v s)
        ∧ cellsCount v s ≤ cellsCount v { B := s.B, blocks := s.blocks, tail := tl', threads := setAt s.threads tid t'' } := by
      intro t'' tl' e
      exact vals_after v s tid t t'' s.blocks tl' hg (by rw [e]) (Nat.le_refl _)
    unfold stepThread
    cases hp : t.pc with
    | start =>
      simp only
      refine same _ _ ?_
      have hpl := (startPC_plain t.calls).2
      exact todo_eq v t _ rfl (by simp [hp]) hpl
    | done => simp only; rw [setAt_same _ _ _ hg]; exact ⟨rfl, Nat.le_refl _⟩
    | pLoadTail =>
      simp only
      split <;> exact same _ _ (todo_eq v t _ rfl (by simp [hp]) (by simp))
    | pCasFirst =>
      simp only
      split
      · refine vals_after v s tid t { t with pc := .pClaim s.blocks.length false } (s.blocks ++ [newBlock]) _ hg ?_ ?_
        · rw [csum_append_empty v _ _ rfl, todo_eq v t { t with pc := .pClaim s.blocks.length false } rfl (by simp [hp]) (by simp)]
        · rw [csum_append_empty v _ _ rfl]; exact Nat.le_refl _
      · exact same _ _ (todo_eq v t _ rfl (by simp [hp]) (by simp))
    | pClaim blk r =>
      simp only
      have hlt := hT.claim_lt blk r hp
      obtain ⟨b, hb⟩ : ∃ b, s.blocks[blk]? = some b := ⟨s.blocks[blk], List.getElem?_eq_getElem hlt⟩
      rw [getBlock_eq hb]
      obtain ⟨w, rest, hrest⟩ := hT.push_head (by simp [hp, isPusherPC])
      have hcv : curVal t = w := by simp [curVal, hrest]
      by_cases hw : b.write < s.B
      · simp only [hw, if_true]
        have hc := csum_set v s.blocks blk b { b with write := b.write + 1, cells := b.cells ++ [.written (curVal t)] } hb
        have e1 : todo v t = (if w = v then 1 else 0) + rest.count (.push v) := by
          simp only [todo, hp, hrest, List.count_cons]
          by_cases hv : w = v <;> simp [hv] <;> omega
        have e2 : todo v { t with pc := PC.pPublish blk b.write } = rest.count (.push v) := by
          simp [todo, hrest]
        have e3 : cnt v { b with write := b.write + 1, cells := b.cells ++ [.written (curVal t)] }
            = cnt v b + (if w = v then 1 else 0) := by
          simp only [cnt, List.map_append, List.count_append, List.map_cons, List.map_nil, Cell.val, List.count_cons,
            List.count_nil, hcv]
          by_cases hv : w = v <;> simp [hv]
        refine vals_after v s tid t _ _ _ hg ?_ ?_
        · show csum v (setAt s.blocks blk _) + _ = _
          rw [e2, e1]; rw [e3] at hc; omega
        · show _ ≤ csum v (setAt s.blocks blk _)
          rw [e3] at hc; omega
      · simp only [hw, if_false]
        have hc := csum_set v s.blocks blk b { b with write := b.write + 1 } hb
        have e3 : cnt v { b with write := b.write + 1 } = cnt v b := rfl
        cases r with
        | true =>
          simp only [if_true]
          have e := todo_eq v t { t with pc := .pLoadTail } rfl (by simp [hp]) (by simp)
          refine vals_after v s tid t { t with pc := .pLoadTail } _ _ hg ?_ ?_
          · show csum v (setAt s.blocks blk _) + _ = _
            rw [e]; rw [e3] at hc; omega
          · show _ ≤ csum v (setAt s.blocks blk _)
            rw [e3] at hc; omega
        | false =>
          simp only [Bool.false_eq_true, if_false]
          have e := todo_eq v t { t with pc := .pCasNew blk } rfl (by simp [hp]) (by simp)
          refine vals_after v s tid t { t with pc := .pCasNew blk } _ _ hg ?_ ?_
          · show csum v (setAt s.blocks blk _) + _ = _
            rw [e]; rw [e3] at hc; omega
          · show _ ≤ csum v (setAt s.blocks blk _)
            rw [e3] at hc; omega
    | pPublish blk idx =>
      simp only
      obtain ⟨b, hb, hcell⟩ := hT.pub_cell blk idx hp
      rw [getBlock_eq hb]
      have hc := csum_set v s.blocks blk b { b with cells := publishCell b.cells idx } hb
      have e3 : cnt v { b with cells := publishCell b.cells idx } = cnt v b := by
        simp [cnt, publishCell_vals]
      have e1 : todo v t = t.calls.tail.count (.push v) := by simp [todo, hp]
      refine vals_after v s tid t _ _ _ hg ?_ ?_
      · show csum v (setAt s.blocks blk _) + _ = _
        rw [todo_advance, e1]; rw [e3] at hc; omega
      · show _ ≤ csum v (setAt s.blocks blk _)
        rw [e3] at hc; omega
    | pCasNew old =>
      simp only
      by_cases ht : s.tail = some old
      · simp only [ht, if_true]
        refine vals_after v s tid t { t with pc := .pClaim s.blocks.length true } (s.blocks ++ [{ newBlock with next := some old }]) _ hg ?_ ?_
        · rw [csum_append_empty v _ _ rfl, todo_eq v t { t with pc := .pClaim s.blocks.length true } rfl (by simp [hp]) (by simp)]
        · rw [csum_append_empty v _ _ rfl]; exact Nat.le_refl _
      · simp only [ht, if_false]
        exact same _ _ (todo_eq v t _ rfl (by simp [hp]) (by simp))
    | dLoadTail =>
      simp only
      split
      · exact same _ _ (todo_advance_reader v t _ hR (by simp [hp, isPusherPC]) (by simp [hp]))
      · exact same _ _ (todo_eq v t _ rfl (by simp [hp]) (by simp))
    | dQuiesced blk => simp only; exact same _ _ (todo_eq v t _ rfl (by simp [hp]) (by intro b i; split <;> simp))
    | dWait blk => simp only; exact same _ _ (todo_eq v t _ rfl (by simp [hp]) (by intro b i; split <;> simp))
    | dRead blk => simp only; exact same _ _ (todo_eq v t _ rfl (by simp [hp]) (by simp))
    | dNext blk =>
      simp only
      split
      · exact same _ _ (todo_advance_reader v t _ hR (by simp [hp, isPusherPC]) (by simp [hp]))
      · exact same _ _ (todo_eq v t _ rfl (by simp [hp]) (by simp))
    | cLoadTail =>
      simp only
      split
      · exact same _ _ (todo_advance_reader v t _ hR (by simp [hp, isPusherPC]) (by simp [hp]))
      · exact same _ _ (todo_eq v t _ rfl (by simp [hp]) (by simp))
    | cCas old =>
      simp only
      by_cases ht : s.tail = some old
      · simp only [ht, if_true]
        exact same _ _ (todo_eq v t _ rfl (by simp [hp]) (by simp))
      · simp only [ht, if_false]
        exact same _ _ (todo_eq v t _ rfl (by simp [hp]) (by simp))
    | cQuiesced blk => simp only; exact same _ _ (todo_eq v t _ rfl (by simp [hp]) (by intro b i; split <;> simp))
    | cWait blk => simp only; exact same _ _ (todo_eq v t _ rfl (by simp [hp]) (by intro b i; split <;> simp))
    | cRead blk => simp only; exact same _ _ (todo_eq v t _ rfl (by simp [hp]) (by simp))
    | cNext blk =>
      simp only
      split
      · exact same _ _ (todo_advance_reader v t _ hR (by simp [hp, isPusherPC]) (by simp [hp]))
      · exact same _ _ (todo_eq v t _ rfl (by simp [hp]) (by simp))
    | eLoadTail =>
      simp only
      split
      · exact same _ _ (todo_advance_reader v t _ hR (by simp [hp, isPusherPC]) (by simp [hp]))
      · exact same _ _ (todo_eq v t _ rfl (by simp [hp]) (by simp))
    | eLen blk =>
      simp only
      exact same _ _ (todo_advance_reader v t _ hR (by simp [hp, isPusherPC]) (by simp [hp]))

end MetricsVerif.Bucket

namespace MetricsVerif.Bucket

/-- the all-threads invariant together with the thread-local head-call invariant -/
structure AInv2 (s : Sys) : Prop where
  inv : AInv s
  rh : ∀ (i : Nat) (t : Thread), s.threads[i]? = some t → RH t

theorem step_threads (s : Sys) (tid : Nat) (t : Thread) (hg : s.threads[tid]? = some t) :
    (step s tid).threads = setAt s.threads tid (stepThread s t).2 ∧ (stepThread s t).1.threads = s.threads := by
  have h2 : (stepThread s t).1.threads = s.threads := by
    unfold stepThread
    cases t.pc <;> simp only [setBlock] <;> (repeat' split) <;> rfl
  refine ⟨?_, h2⟩
  unfold step
  rw [hg]
  simp only [h2]

theorem astep_inv2 (s : Sys) (tid : Nat) (h : AInv2 s) : AInv2 (step s tid) := by
  refine ⟨astep_inv s tid h.inv, ?_⟩
  cases hg : s.threads[tid]? with
  | none => unfold step; rw [hg]; exact h.rh
  | some t =>
    rw [(step_threads s tid t hg).1]
    intro i u hu
    rcases threads_after hg i u hu with ⟨_, rfl⟩ | ⟨_, hu'⟩
    · exact rh_step s t (h.rh tid t hg)
    · exact h.rh i u hu'

theorem init_ainv2 (B : Nat) (progs : List (List Call)) : AInv2 (init B progs) := by
  refine ⟨init_ainv B progs, ?_⟩
  intro i t ht
  have hm : t ∈ (init B progs).threads := List.mem_of_getElem? ht
  simp only [init, List.mem_map] at hm
  obtain ⟨p, _, rfl⟩ := hm
  intro _ hs; exact absurd rfl hs

theorem arun_inv2 (sched : List Nat) : ∀ s, AInv2 s → AInv2 (run s sched) := by
  induction sched with
  | nil => intro s h; exact h
  | cons t ts ih => intro s h; exact ih _ (astep_inv2 s t h)

theorem arun_vals (v : Nat) (sched : List Nat) : ∀ s, AInv2 s →
    cellsCount v (run s sched) + todoSum v (run s sched) = cellsCount v s + todoSum v s := by
  induction sched with
  | nil => intro s _; rfl
  | cons t ts ih =>
    intro s h
    simp only [run, List.foldl_cons] at ih ⊢
    rw [ih _ (astep_inv2 s t h), (astep_vals v s t h.inv h.rh).1]

/-! ### readers never hand out anything but claimed cells (so: nothing but push arguments) -/

def resVals : Res → List Nat
  | .snapshot vs => vs
  | .cleared vs => vs
  | _ => []

/-- everything a thread has been handed by the bucket so far (current call and finished calls) -/
def seenVals (t : Thread) : List Nat := t.acc ++ t.results.flatMap resVals

theorem seen_advance (t : Thread) (r : Res) (v : Nat) (h : v ∈ seenVals (t.advance r)) :
    v ∈ t.results.flatMap resVals ∨ v ∈ resVals r := by
  simpa [seenVals, Thread.advance, List.flatMap_append] using h

/-- thread-local: a step only adds values read from an existing block's published prefix -/
theorem seen_step (s : Sys) (t : Thread) (v : Nat) (h : v ∈ seenVals (stepThread s t).2) :
    v ∈ seenVals t ∨ ∃ (blk : Nat) (b : Block), s.blocks[blk]? = some b ∧ v ∈ b.data := by
  have keep : ∀ r, (resVals r = [] ∨ resVals r = t.acc) → v ∈ seenVals (t.advance r) → v ∈ seenVals t := by
    intro r hr hv
    rcases seen_advance t r v hv with h1 | h1
    · simp [seenVals, h1]
    · rcases hr with e | e
      · rw [e] at h1; cases h1
      · rw [e] at h1; simp [seenVals, h1]
  have rd : ∀ blk pc', v ∈ seenVals { t with acc := t.acc ++ (getBlock s blk).data, pc := pc' } →
      v ∈ seenVals t ∨ ∃ (blk : Nat) (b : Block), s.blocks[blk]? = some b ∧ v ∈ b.data := by
    intro blk pc' hv
    simp only [seenVals, List.mem_append] at hv ⊢
    rcases hv with (h1 | h1) | h1
    · exact Or.inl (Or.inl h1)
    · cases hb : s.blocks[blk]? with
      | none => simp [getBlock, hb, newBlock, Block.data] at h1
      | some b => rw [getBlock_eq hb] at h1; exact Or.inr ⟨blk, b, hb, h1⟩
    · exact Or.inl (Or.inr h1)
  unfold stepThread at h
  cases hp : t.pc with
  | start => rw [hp] at h; exact Or.inl h
  | done => rw [hp] at h; exact Or.inl h
  | pLoadTail => rw [hp] at h; simp only at h; split at h <;> exact Or.inl h
  | pCasFirst => rw [hp] at h; simp only at h; split at h <;> exact Or.inl h
  | pClaim blk r =>
    rw [hp] at h; simp only at h
    split at h
    · exact Or.inl h
    · split at h <;> exact Or.inl h
  | pPublish blk idx => rw [hp] at h; exact Or.inl (keep _ (Or.inl rfl) h)
  | pCasNew old => rw [hp] at h; simp only at h; split at h <;> exact Or.inl h
  | dLoadTail =>
    rw [hp] at h; simp only at h
    split at h
    · exact Or.inl (keep _ (Or.inr rfl) h)
    · exact Or.inl h
  | dQuiesced blk => rw [hp] at h; exact Or.inl h
  | dWait blk => rw [hp] at h; exact Or.inl h
  | dRead blk => rw [hp] at h; exact rd blk _ h
  | dNext blk =>
    rw [hp] at h; simp only at h
    split at h
    · exact Or.inl (keep _ (Or.inr rfl) h)
    · exact Or.inl h
  | cLoadTail =>
    rw [hp] at h; simp only at h
    split at h
    · exact Or.inl (keep _ (Or.inl rfl) h)
    · exact Or.inl h
  | cCas old =>
    rw [hp] at h; simp only at h
    split at h
    · exact Or.inl h
    · exact Or.inl h
  | cQuiesced blk => rw [hp] at h; exact Or.inl h
  | cWait blk => rw [hp] at h; exact Or.inl h
  | cRead blk => rw [hp] at h; exact rd blk _ h
  | cNext blk =>
    rw [hp] at h; simp only at h
    split at h
    · exact Or.inl (keep _ (Or.inr rfl) h)
    · exact Or.inl h
  | eLoadTail =>
    rw [hp] at h; simp only at h
    split at h
    · exact Or.inl (keep _ (Or.inl rfl) h)
    · exact Or.inl h
  | eLen blk => rw [hp] at h; exact Or.inl (keep _ (Or.inl rfl) h)

theorem cnt_pos_of_data {b : Block} {v : Nat} (h : v ∈ b.data) : 0 < cnt v b := by
  unfold cnt Block.data at *
  apply List.count_pos_iff.mpr
  simp only [List.mem_map] at h ⊢
  obtain ⟨c, hc, e⟩ := h
  exact ⟨c, (List.takeWhile_sublist _).subset hc, e⟩

theorem le_sum_of_mem {α : Type} (f : α → Nat) (l : List α) (x : α) (h : x ∈ l) : f x ≤ (l.map f).sum := by
  induction l with
  | nil => cases h
  | cons y ys ih =>
    simp only [List.map_cons, List.sum_cons]
    simp only [List.mem_cons] at h
    rcases h with rfl | h
    · omega
    · have := ih h; omega

/-- every value any thread has been handed sits in a claimed cell -/
def SeenOK (s : Sys) : Prop := ∀ (i : Nat) (t : Thread), s.threads[i]? = some t → ∀ v ∈ seenVals t, 0 < cellsCount v s

theorem astep_seen (s : Sys) (tid : Nat) (h : AInv2 s) (hs : SeenOK s) : SeenOK (step s tid) := by
  cases hg : s.threads[tid]? with
  | none => unfold step; rw [hg]; exact hs
  | some t =>
    intro i u hu v hv
    have mono := (astep_vals v s tid h.inv h.rh).2
    rw [(step_threads s tid t hg).1] at hu
    rcases threads_after hg i u hu with ⟨_, rfl⟩ | ⟨_, hu'⟩
    · rcases seen_step s t v hv with h1 | ⟨blk, b, hb, hd⟩
      · have := hs tid t hg v h1; omega
      · have h1 := cnt_pos_of_data hd
        have h2 := le_sum_of_mem (cnt v) s.blocks b (List.mem_of_getElem? hb)
        have : 0 < cellsCount v s := by rw [cellsCount_eq]; unfold csum; omega
        omega
    · have := hs i u hu' v hv; omega

theorem init_seen (B : Nat) (progs : List (List Call)) : SeenOK (init B progs) := by
  intro i t ht v hv
  have hm : t ∈ (init B progs).threads := List.mem_of_getElem? ht
  simp only [init, List.mem_map] at hm
  obtain ⟨p, _, rfl⟩ := hm
  simp [seenVals, mkThread] at hv

theorem arun_seen (sched : List Nat) : ∀ s, AInv2 s → SeenOK s → SeenOK (run s sched) := by
  induction sched with
  | nil => intro s _ h; exact h
  | cons t ts ih => intro s h hs; exact ih _ (astep_inv2 s t h) (astep_seen s t h hs)

end MetricsVerif.Bucket
