/-
C05, `is_empty` completeness for ANY programs (clears included): an `is_empty` whose tail load is executed in a state
in which some published value sits in a block reachable from the tail answers `false` — whatever happens between its
two steps.  Ingredients: claim counters only grow; `next` links of existing blocks never change; a block is linked
below a new one only by a pusher whose claim on it failed, i.e. after its claim counter was incremented (`LWInv`, the
link form of `WInv` — with clears "every block below the newest" is not the right notion any more); `is_empty` decides
on the claim counters of the tail it loaded and of that tail's predecessor.
-/
import MetricsVerif.Proofs.BucketSnapLive
import MetricsVerif.Proofs.BucketEmpty

namespace MetricsVerif.Bucket

theorem nextAt_ge {bs : List Block} {k : Nat} (h : bs.length ≤ k) : nextAt bs k = none := by
  unfold nextAt; rw [List.getElem?_eq_none h]; rfl

/-- a step creates a link only in the won hand-over CAS, and the link goes to the block that CAS replaced -/
theorem stepThread_new_link (s : Sys) (t : Thread) (k j : Nat) (hk : s.blocks.length ≤ k)
    (hn : nextAt (stepThread s t).1.blocks k = some (some j)) : t.pc = .pCasNew j := by
  have hset : ∀ blk b', nextAt (setBlock s blk b').blocks k = none := fun blk b' =>
    nextAt_ge (by rw [setBlock_blocks, setAt_length]; exact hk)
  have hsame : nextAt s.blocks k = none := nextAt_ge hk
  have happ : ∀ (nb : Block) (tl : Option Nat),
      nextAt ({ s with blocks := s.blocks ++ [nb], tail := tl } : Sys).blocks k = some (some j) → nb.next = some j := by
    intro nb tl h
    by_cases hkl : k = s.blocks.length
    · subst hkl
      show nb.next = some j
      have e : nextAt (s.blocks ++ [nb]) s.blocks.length = some nb.next := nextAt_append_len _ _
      have h' : nextAt (s.blocks ++ [nb]) s.blocks.length = some (some j) := h
      rw [e] at h'; exact Option.some.inj h'
    · have e : nextAt (s.blocks ++ [nb]) k = none := nextAt_ge (by simp; omega)
      have h' : nextAt (s.blocks ++ [nb]) k = some (some j) := h
      rw [e] at h'; cases h'
  unfold stepThread at hn
  cases hp : t.pc with
  | pCasFirst =>
    rw [hp] at hn; simp only at hn
    split at hn
    · have := happ _ _ hn; cases this
    · rw [hsame] at hn; cases hn
  | pClaim blk r =>
    rw [hp] at hn; simp only at hn
    split at hn
    · rw [hset] at hn; cases hn
    · split at hn <;> (rw [hset] at hn; cases hn)
  | pPublish blk idx => rw [hp] at hn; simp only at hn; rw [hset] at hn; cases hn
  | pCasNew old =>
    rw [hp] at hn; simp only at hn
    split at hn
    · have := happ _ _ hn
      simp only [Option.some.injEq] at this
      rw [this]
    · rw [hsame] at hn; cases hn
  | start => rw [hp] at hn; simp only at hn; rw [hsame] at hn; cases hn
  | done => rw [hp] at hn; simp only at hn; rw [hsame] at hn; cases hn
  | pLoadTail => rw [hp] at hn; simp only at hn; split at hn <;> (rw [hsame] at hn; cases hn)
  | dLoadTail => rw [hp] at hn; simp only at hn; split at hn <;> (rw [hsame] at hn; cases hn)
  | dQuiesced blk => rw [hp] at hn; simp only at hn; rw [hsame] at hn; cases hn
  | dWait blk => rw [hp] at hn; simp only at hn; rw [hsame] at hn; cases hn
  | dRead blk => rw [hp] at hn; simp only at hn; rw [hsame] at hn; cases hn
  | dNext blk => rw [hp] at hn; simp only at hn; split at hn <;> (rw [hsame] at hn; cases hn)
  | cLoadTail => rw [hp] at hn; simp only at hn; split at hn <;> (rw [hsame] at hn; cases hn)
  | cCas old => rw [hp] at hn; simp only at hn; split at hn <;> (rw [hsame] at hn; cases hn)
  | cQuiesced blk => rw [hp] at hn; simp only at hn; rw [hsame] at hn; cases hn
  | cWait blk => rw [hp] at hn; simp only at hn; rw [hsame] at hn; cases hn
  | cRead blk => rw [hp] at hn; simp only at hn; rw [hsame] at hn; cases hn
  | cNext blk => rw [hp] at hn; simp only at hn; split at hn <;> (rw [hsame] at hn; cases hn)
  | eLoadTail => rw [hp] at hn; simp only at hn; split at hn <;> (rw [hsame] at hn; cases hn)
  | eLen blk => rw [hp] at hn; simp only at hn; rw [hsame] at hn; cases hn

/-- a thread arrives at the hand-over CAS for `old` only through a claim on `old` that found it full — after the claim
    counter of `old` was incremented -/
theorem stepThread_to_casnew (s : Sys) (t : Thread) (old : Nat) (h : (stepThread s t).2.pc = .pCasNew old)
    (hlt : ∀ blk r, t.pc = .pClaim blk r → blk < s.blocks.length) :
    1 ≤ (getBlock (stepThread s t).1 old).write := by
  have adv : ∀ r, (t.advance r).pc ≠ .pCasNew old := fun r => startPC_ne_casnew _ old
  unfold stepThread at h ⊢
  cases hp : t.pc with
  | pClaim blk r =>
    have hb := hlt blk r hp
    rw [hp] at h; simp only at h ⊢
    split at h
    · simp at h
    · split at h
      · simp at h
      · rename_i hw hr
        simp only [PC.pCasNew.injEq] at h
        subst h
        simp only [hw, if_false, hr, Bool.false_eq_true]
        rw [getBlock_setBlock]
        simp only [hb, and_self, if_true]
        omega
  | start => rw [hp] at h; exact absurd h (startPC_ne_casnew _ old)
  | done => rw [hp] at h; simp [hp] at h
  | pLoadTail => rw [hp] at h; simp only at h; split at h <;> simp at h
  | pCasFirst => rw [hp] at h; simp only at h; split at h <;> simp at h
  | pPublish b i => rw [hp] at h; exact absurd h (adv _)
  | pCasNew o => rw [hp] at h; simp only at h; split at h <;> simp at h
  | dLoadTail =>
    rw [hp] at h; simp only at h
    split at h
    · exact absurd h (adv _)
    · simp at h
  | dQuiesced b => rw [hp] at h; simp only at h; split at h <;> simp at h
  | dWait b => rw [hp] at h; simp only at h; split at h <;> simp at h
  | dRead b => rw [hp] at h; simp at h
  | dNext b =>
    rw [hp] at h; simp only at h
    split at h
    · exact absurd h (adv _)
    · simp at h
  | cLoadTail =>
    rw [hp] at h; simp only at h
    split at h
    · exact absurd h (adv _)
    · simp at h
  | cCas o =>
    rw [hp] at h; simp only at h
    split at h
    · simp at h
    · simp at h
  | cQuiesced b => rw [hp] at h; simp only at h; split at h <;> simp at h
  | cWait b => rw [hp] at h; simp only at h; split at h <;> simp at h
  | cRead b => rw [hp] at h; simp at h
  | cNext b =>
    rw [hp] at h; simp only at h
    split at h
    · exact absurd h (adv _)
    · simp at h
  | eLoadTail =>
    rw [hp] at h; simp only at h
    split at h
    · exact absurd h (adv _)
    · simp at h
  | eLen b => rw [hp] at h; exact absurd h (adv _)

/-- the claim-counter invariant for ANY programs: a block that another block links to has had its claim counter
    incremented; so has the block a thread parked at the hand-over CAS wants to replace -/
structure LWInv (s : Sys) : Prop where
  base : AInv s
  link : ∀ k j, nextAt s.blocks k = some (some j) → 1 ≤ (getBlock s j).write
  casnew : ∀ (i : Nat) (t : Thread) (old : Nat), s.threads[i]? = some t → t.pc = .pCasNew old →
      1 ≤ (getBlock s old).write

theorem lwstep (s : Sys) (tid : Nat) (h : LWInv s) : LWInv (step s tid) := by
  cases hg : s.threads[tid]? with
  | none =>
    have : step s tid = s := by unfold step; rw [hg]
    rw [this]; exact h
  | some t =>
    refine ⟨astep_inv s tid h.base, ?_, ?_⟩
    · intro k j hn
      by_cases hk : k < s.blocks.length
      · rw [step_nextAt s tid k hk] at hn
        exact Nat.le_trans (h.link k j hn) (step_write s tid j)
      · rw [step_eq s tid t hg] at hn
        have hp := stepThread_new_link s t k j (by omega) hn
        exact Nat.le_trans (h.casnew tid t j hg hp) (step_write s tid j)
    · intro i u old hu hpc
      rw [(step_threads s tid t hg).1] at hu
      rcases threads_after hg i u hu with ⟨_, rfl⟩ | ⟨_, hu'⟩
      · rw [step_getBlock s tid t hg]
        exact stepThread_to_casnew s t old hpc (fun blk r hp => (h.base.thr tid t hg).claim_lt blk r hp)
      · exact Nat.le_trans (h.casnew i u old hu' hpc) (step_write s tid old)

theorem lwrun (sched : List Nat) : ∀ s, LWInv s → LWInv (run s sched) := by
  induction sched with
  | nil => intro s h; exact h
  | cons t ts ih => intro s h; exact ih _ (lwstep s t h)

theorem init_lwinv (B : Nat) (progs : List (List Call)) : LWInv (init B progs) := by
  refine ⟨init_ainv B progs, ?_, ?_⟩
  · intro k j hn
    have : nextAt (init B progs).blocks k = none := nextAt_ge (by simp [init])
    rw [this] at hn; cases hn
  · intro i t old ht hpc
    have hm : t ∈ (init B progs).threads := List.mem_of_getElem? ht
    simp only [init, List.mem_map] at hm
    obtain ⟨p, _, rfl⟩ := hm
    cases hpc

/-! ### the `is_empty` caller between its two steps -/

/-- what makes `is_empty` on tail `hi` answer `false`: a claimed slot in `hi` or in its predecessor -/
def NE (s : Sys) (hi : Nat) : Prop :=
  1 ≤ (getBlock s hi).write ∨ ∃ n, (getBlock s hi).next = some n ∧ 1 ≤ (getBlock s n).write

theorem NE_step (s : Sys) (tid hi : Nat) (hlt : hi < s.blocks.length) (h : NE s hi) : NE (step s tid) hi := by
  have hlt' : hi < (step s tid).blocks.length := Nat.lt_of_lt_of_le hlt (step_len s tid)
  have hnx : (getBlock (step s tid) hi).next = (getBlock s hi).next := by
    have e := step_nextAt s tid hi hlt
    rw [nextAt_getBlock hlt, nextAt_getBlock hlt'] at e
    exact Option.some.inj e
  rcases h with h | ⟨n, hn, h⟩
  · exact Or.inl (Nat.le_trans h (step_write s tid hi))
  · exact Or.inr ⟨n, by rw [hnx]; exact hn, Nat.le_trans h (step_write s tid n)⟩

/-- the second step of `is_empty` -/
theorem eLen_result (s : Sys) (t : Thread) (hi : Nat) (hpc : t.pc = .eLen hi) :
    ∃ e, (stepThread s t).2 = t.advance (.empty e) ∧ (NE s hi → e = false) := by
  unfold stepThread
  rw [hpc]
  simp only
  refine ⟨_, rfl, ?_⟩
  intro hne
  rcases hne with h | ⟨n, hn, h⟩
  · have : ((getBlock s hi).write == 0) = false := by
      rw [beq_eq_false_iff_ne]; omega
    rw [this]; rfl
  · rw [hn]
    have : ((getBlock s n).write == 0) = false := by
      rw [beq_eq_false_iff_ne]; omega
    simp only [this, Bool.and_false]

def EInv2 (hi : Nat) (r0 : List Res) (s : Sys) (t : Thread) : Prop :=
  (t.results = r0 ∧ t.pc = .eLen hi ∧ hi < s.blocks.length ∧ NE s hi)
  ∨ ∃ rest, t.results = r0 ++ Res.empty false :: rest

theorem e_own_step2 {hi : Nat} {r0 : List Res} {s : Sys} (t : Thread) (h : EInv2 hi r0 s t) :
    ∃ rest, (stepThread s t).2.results = r0 ++ Res.empty false :: rest := by
  rcases h with ⟨hres, hpc, _, hne⟩ | ⟨rest, hres⟩
  · obtain ⟨e, he, hf⟩ := eLen_result s t hi hpc
    rw [he, hf hne]
    exact ⟨[], by simp [Thread.advance, hres]⟩
  · rcases stepThread_results s t with e | ⟨r, e⟩
    · exact ⟨rest, by rw [e, hres]⟩
    · exact ⟨rest ++ [r], by rw [e, hres]; simp⟩

theorem EInv2_step {hi : Nat} {r0 : List Res} {i : Nat} (s : Sys) (tid : Nat)
    (h : ∃ t, s.threads[i]? = some t ∧ EInv2 hi r0 s t) :
    ∃ t, (step s tid).threads[i]? = some t ∧ EInv2 hi r0 (step s tid) t := by
  obtain ⟨t, ht, hr⟩ := h
  cases hg : s.threads[tid]? with
  | none =>
    have : step s tid = s := by unfold step; rw [hg]
    rw [this]; exact ⟨t, ht, hr⟩
  | some u =>
    have hthr := (step_threads s tid u hg).1
    by_cases hi' : tid = i
    · subst hi'
      rw [ht] at hg; injection hg with hg; subst hg
      refine ⟨(stepThread s t).2, ?_, Or.inr (e_own_step2 t hr)⟩
      rw [hthr, getElem?_setAt]; simp [lt_of_getElem?_some ht]
    · refine ⟨t, ?_, ?_⟩
      · rw [hthr, getElem?_setAt]; simp [hi', ht]
      · rcases hr with ⟨hres, hpc, hlt, hne⟩ | h1
        · exact Or.inl ⟨hres, hpc, Nat.lt_of_lt_of_le hlt (step_len s tid), NE_step s tid hi hlt hne⟩
        · exact Or.inr h1

theorem EInv2_run {hi : Nat} {r0 : List Res} {i : Nat} (sched : List Nat) : ∀ s,
    (∃ t, s.threads[i]? = some t ∧ EInv2 hi r0 s t) → ∃ t, (run s sched).threads[i]? = some t ∧ EInv2 hi r0 (run s sched) t := by
  induction sched with
  | nil => intro s h; exact h
  | cons t ts ih => intro s h; exact ih _ (EInv2_step s t h)

/-- **is_empty completeness, any programs**: thread `i` executes the tail load of an `is_empty` in the state reached by
    `pre`; if in that state some value is published in a block reachable from the tail, the call answers `false` -/
theorem live_is_empty (B : Nat) (progs : List (List Call)) (pre rest : List Nat) (i : Nat) (t0 t1 : Thread)
    (h0 : (run (init B progs) pre).threads[i]? = some t0) (hpc : t0.pc = .eLoadTail)
    (h1 : (run (init B progs) (pre ++ i :: rest)).threads[i]? = some t1)
    (e : Bool) (hres : t1.results = t0.results ++ [.empty e]) (v : Nat)
    (hv : 1 ≤ pubIn v isLive (grun (init B progs) own0 pre).2 (run (init B progs) pre)) : e = false := by
  have hg := (grun_inv pre _ _ (init_ginv B progs) (init_gacc B progs)).1
  rw [grun_fst] at hg
  have hw := lwrun pre _ (init_lwinv B progs)
  generalize (grun (init B progs) own0 pre).2 = own at hg hv
  have hrun : run (init B progs) (pre ++ i :: rest) = run (step (run (init B progs) pre) i) rest := by
    simp [run, List.foldl_append]
  rw [hrun] at h1
  generalize run (init B progs) pre = s at hg hw h0 h1 hv
  obtain ⟨lb, hlb, hlive, htn, hts⟩ := hg.live
  have hpub : pubIn v isLive own s = needFrom v s.blocks lb := by
    unfold pubIn needFrom
    rw [osum_live_eq _ own lb hlive s.blocks 0, Nat.sub_zero]
  rw [hpub] at hv
  cases ht : s.tail with
  | none =>
    have hl := htn ht
    rw [needFrom_ge v _ _ (by omega)] at hv; omega
  | some hi =>
    obtain ⟨hlo, hseg⟩ := hts hi ht
    have hhi := hg.base.inv.tail_valid hi ht
    -- a published value in some block `j` of the live chain
    have hj : ∃ j, lb ≤ j ∧ j ≤ hi ∧ 1 ≤ pubc v (getBlock s j).cells := by
      have : ∀ (n k : Nat), s.blocks.length ≤ k + n → 1 ≤ needFrom v s.blocks k →
          ∃ j, k ≤ j ∧ 1 ≤ pubc v (blk0 s.blocks j).cells := by
        intro n
        induction n with
        | zero => intro k hk h; rw [needFrom_ge v _ k (by omega)] at h; omega
        | succ n ih =>
          intro k hk h
          rw [needFrom_succ] at h
          by_cases h1 : 1 ≤ pubc v (blk0 s.blocks k).cells
          · exact ⟨k, Nat.le_refl _, h1⟩
          · obtain ⟨j, hj1, hj2⟩ := ih (k + 1) (by omega) (by omega)
            exact ⟨j, by omega, hj2⟩
      obtain ⟨j, hj1, hj2⟩ := this s.blocks.length lb (by omega) hv
      have hjl := blk0_pos_lt v _ j hj2
      exact ⟨j, hj1, by omega, hj2⟩
    obtain ⟨j, hj1, hj2, hj3⟩ := hj
    have hne : NE s hi := by
      by_cases hjh : j = hi
      · subst hjh
        exact Or.inl (write_pos_of_pub hg.base.inv (by omega) hj3)
      · have hl := hseg.2 hi (by omega) (Nat.le_refl _)
        have hnx : (getBlock s hi).next = some (hi - 1) := by
          rw [nextAt_getBlock (by omega)] at hl
          exact Option.some.inj hl
        exact Or.inr ⟨hi - 1, hnx, hw.link hi (hi - 1) hl⟩
    -- the load step
    have hst := step_eq s i t0 h0
    have hthr : (step s i).threads[i]? = some (stepThread s t0).2 := by
      rw [(step_threads s i t0 h0).1, getElem?_setAt]; simp [lt_of_getElem?_some h0]
    have e2 : (stepThread s t0).2 = { t0 with pc := .eLen hi } := by
      unfold stepThread; rw [hpc]; simp only [ht]
    have hinv0 : ∃ t, (step s i).threads[i]? = some t ∧ EInv2 hi t0.results (step s i) t :=
      ⟨_, hthr, Or.inl ⟨by rw [e2], by rw [e2], Nat.lt_of_lt_of_le (by omega) (step_len s i),
        NE_step s i hi (by omega) hne⟩⟩
    obtain ⟨t, ht', hr⟩ := EInv2_run rest _ hinv0
    rw [h1] at ht'; injection ht' with ht'; subst ht'
    rcases hr with ⟨hsame, _⟩ | ⟨rest', hres'⟩
    · rw [hsame] at hres
      have := congrArg List.length hres
      simp at this
    · rw [hres'] at hres
      have h2 := List.append_cancel_left hres
      simp only [List.cons.injEq, Res.empty.injEq] at h2
      exact h2.1.symm

end MetricsVerif.Bucket
