/-
Helper lemmas for C14: the ownership invariant of the `Cow` heap model and its preservation by every
atomic transition the operations are made of.
-/
import MetricsVerif.Model.Cow

namespace MetricsVerif.Cow

@[simp] theorem pushVal_statics (s : St) (v g) : (pushVal s v g).statics = s.statics := rfl
@[simp] theorem pushVal_vecs (s : St) (v g) : (pushVal s v g).vecs = s.vecs := rfl
@[simp] theorem pushVal_arcs (s : St) (v g) : (pushVal s v g).arcs = s.arcs := rfl
@[simp] theorem pushVal_leaked (s : St) (v g) : (pushVal s v g).leaked = s.leaked := rfl
@[simp] theorem pushVal_vals (s : St) (v g) : (pushVal s v g).vals = s.vals ++ [some ⟨v, g⟩] := rfl
@[simp] theorem killVal_statics (s : St) (h) : (killVal s h).statics = s.statics := rfl
@[simp] theorem killVal_vecs (s : St) (h) : (killVal s h).vecs = s.vecs := rfl
@[simp] theorem killVal_arcs (s : St) (h) : (killVal s h).arcs = s.arcs := rfl
@[simp] theorem killVal_leaked (s : St) (h) : (killVal s h).leaked = s.leaked := rfl
@[simp] theorem killVal_vals (s : St) (h) : (killVal s h).vals = s.vals.set h none := rfl

/-! ## counting references -/

def refVec (i : Nat) : Option Entry → Bool
  | some e => e.val.ptr == .vec i
  | none => false

def refArc (i : Nat) : Option Entry → Bool
  | some e => e.val.ptr == .arc i
  | none => false

/-- number of live values whose pointer is the buffer `i` -/
def vecRefs (s : St) (i : Nat) : Nat := s.vals.countP (refVec i)
/-- number of live values whose pointer is the `Arc` block `i` -/
def arcRefs (s : St) (i : Nat) : Nat := s.vals.countP (refArc i)

theorem countP_set_none (p : Option Entry → Bool) (hp : p none = false) :
    ∀ (l : List (Option Entry)) (h : Nat) (e : Entry), l[h]? = some (some e) →
      (l.set h none).countP p + (if p (some e) then 1 else 0) = l.countP p := by
  intro l
  induction l with
  | nil => intro h e hl; simp at hl
  | cons x xs ih =>
    intro h e hl
    cases h with
    | zero =>
      simp at hl
      subst hl
      simp [List.countP_cons, hp]
    | succ h =>
      simp at hl
      have := ih h e hl
      simp only [List.set_cons_succ, List.countP_cons]
      omega

theorem getElem?_append_of_some {α} (l l' : List α) (i : Nat) (x : α) (h : l[i]? = some x) :
    (l ++ l')[i]? = some x := by
  have hi : i < l.length := by
    apply Classical.byContradiction
    intro hn
    have : l[i]? = none := List.getElem?_eq_none (by omega)
    simp [this] at h
  rw [List.getElem?_append_left hi]; exact h

theorem lt_of_getElem?_some {α} (l : List α) (i : Nat) (x : α) (h : l[i]? = some x) : i < l.length := by
  apply Classical.byContradiction
  intro hn
  have : l[i]? = none := List.getElem?_eq_none (by omega)
  simp [this] at h

/-! ## the invariant -/

/-- a live value fits what its pointer really points to, and reads back what it was built from -/
def EntryOk (s : St) (e : Entry) : Prop :=
  match e.val.ptr with
  | .dangling => e.val.cap = 0 ∧ e.val.len = 0 ∧ e.built = []
  | .stat i => e.val.cap = 0 ∧ s.statics[i]? = some e.built ∧ e.val.len = e.built.length
  | .vec i => e.val.cap ≠ 0 ∧ e.val.cap ≠ usizeMax ∧
      ∃ c, s.vecs[i]? = some c ∧ c.live = true ∧ c.cap = e.val.cap ∧ c.content = e.built ∧ e.val.len = e.built.length
  | .arc i => e.val.cap = usizeMax ∧
      ∃ c, s.arcs[i]? = some c ∧ c.live = true ∧ c.content = e.built ∧ e.val.len = e.built.length

/-- a buffer is live iff exactly one value points to it; it has been freed once iff it is not live -/
def VecOk (s : St) (i : Nat) (c : VecCell) : Prop :=
  vecRefs s i = (if c.live then 1 else 0) ∧ c.frees = (if c.live then 0 else 1)

/-- strong count = the caller's references + the values pointing to the block; live iff count > 0 -/
def ArcOk (s : St) (i : Nat) (c : ArcCell) : Prop :=
  c.strong = c.ext + arcRefs s i ∧ c.live = decide (0 < c.strong) ∧ c.frees = (if c.live then 0 else 1)

structure Inv (s : St) : Prop where
  ent : ∀ (h : Nat) (e : Entry), s.vals[h]? = some (some e) → EntryOk s e
  vec : ∀ (i : Nat) (c : VecCell), s.vecs[i]? = some c → VecOk s i c
  arc : ∀ (i : Nat) (c : ArcCell), s.arcs[i]? = some c → ArcOk s i c
  leak : s.leaked = 0
  small : (∀ (h : Nat) (e : Entry), s.vals[h]? = some (some e) → e.built.length < usizeMax) ∧
    (∀ (i : Nat) (c : ArcCell), s.arcs[i]? = some c → c.content.length < usizeMax)

theorem inv_init : Inv init := by
  constructor <;> simp [init]

/-- a value's pointer is never beyond the heap -/
theorem Inv.vecRefs_fresh {s : St} (hI : Inv s) : vecRefs s s.vecs.length = 0 := by
  unfold vecRefs
  rw [List.countP_eq_zero]
  intro x hx
  cases x with
  | none => simp [refVec]
  | some e =>
    obtain ⟨h, hh⟩ := List.getElem?_of_mem hx
    have := hI.ent h e hh
    simp only [refVec, beq_iff_eq]
    intro hp
    simp only [EntryOk, hp] at this
    obtain ⟨_, _, c, hc, _⟩ := this
    have := lt_of_getElem?_some _ _ _ hc
    omega

theorem Inv.arcRefs_fresh {s : St} (hI : Inv s) : arcRefs s s.arcs.length = 0 := by
  unfold arcRefs
  rw [List.countP_eq_zero]
  intro x hx
  cases x with
  | none => simp [refArc]
  | some e =>
    obtain ⟨h, hh⟩ := List.getElem?_of_mem hx
    have := hI.ent h e hh
    simp only [refArc, beq_iff_eq]
    intro hp
    simp only [EntryOk, hp] at this
    obtain ⟨_, c, hc, _⟩ := this
    have := lt_of_getElem?_some _ _ _ hc
    omega


/-! ## frames -/

theorem countP_snoc {α} (l : List α) (x : α) (p : α → Bool) :
    (l ++ [x]).countP p = l.countP p + (if p x then 1 else 0) := by
  simp [List.countP_append, List.countP_cons]

theorem getElem?_snoc_some {α} (l : List α) (x y : α) (h : Nat) (hh : (l ++ [x])[h]? = some y) :
    l[h]? = some y ∨ (h = l.length ∧ x = y) := by
  by_cases hl : h < l.length
  · rw [List.getElem?_append_left hl] at hh; exact Or.inl hh
  · rw [List.getElem?_append_right (by omega)] at hh
    have : h - l.length = 0 := by
      apply Classical.byContradiction
      intro hn
      have : ([x] : List α)[h - l.length]? = none := List.getElem?_eq_none (by simp; omega)
      simp [this] at hh
    rw [this] at hh
    simp at hh
    exact Or.inr ⟨by omega, hh⟩

theorem getElem?_set_none_some {α} (l : List (Option α)) (h h' : Nat) (y : α)
    (hh : (l.set h none)[h']? = some (some y)) : h' ≠ h ∧ l[h']? = some (some y) := by
  rw [List.getElem?_set] at hh
  by_cases e : h = h'
  · subst e
    simp at hh
  · simp [e] at hh
    exact ⟨fun x => e x.symm, hh⟩

theorem EntryOk.frame {s s' : St} {e : Entry} (h : EntryOk s e)
    (hs : ∀ (i : Nat) (c : Content), s.statics[i]? = some c → s'.statics[i]? = some c)
    (hv : ∀ (i : Nat) (c : VecCell), e.val.ptr = .vec i → s.vecs[i]? = some c → c.live = true →
      ∃ c', s'.vecs[i]? = some c' ∧ c'.live = true ∧ c'.cap = c.cap ∧ c'.content = c.content)
    (ha : ∀ (i : Nat) (c : ArcCell), e.val.ptr = .arc i → s.arcs[i]? = some c → c.live = true →
      ∃ c', s'.arcs[i]? = some c' ∧ c'.live = true ∧ c'.content = c.content) :
    EntryOk s' e := by
  unfold EntryOk at h ⊢
  split at h
  · next hp => exact h
  · next i hp => exact ⟨h.1, hs _ _ h.2.1, h.2.2⟩
  · next i hp =>
    obtain ⟨h1, h2, c, hc, hl, hcap, hcont, hlen⟩ := h
    obtain ⟨c', hc', hl', hcap', hcont'⟩ := hv i c hp hc hl
    exact ⟨h1, h2, c', hc', hl', by rw [hcap', hcap], by rw [hcont', hcont], hlen⟩
  · next i hp =>
    obtain ⟨h1, c, hc, hl, hcont, hlen⟩ := h
    obtain ⟨c', hc', hl', hcont'⟩ := ha i c hp hc hl
    exact ⟨h1, c', hc', hl', by rw [hcont', hcont], hlen⟩

/-! ## atomic transitions that re-establish the invariant -/

/-- `from_borrowed` of a fresh static -/
theorem inv_pushStatic {s : St} (hI : Inv s) (c : Content) (hs : c.length < usizeMax) :
    Inv { s with statics := s.statics ++ [c],
                 vals := s.vals ++ [some ⟨⟨.stat s.statics.length, c.length, 0⟩, c⟩] } := by
  constructor
  · intro h e hh
    rcases getElem?_snoc_some _ _ _ _ hh with hh | ⟨_, hh⟩
    · exact EntryOk.frame (hI.ent h e hh) (fun i c h => getElem?_append_of_some _ _ _ _ h)
        (fun i c _ h hl => ⟨c, h, hl, rfl, rfl⟩) (fun i c _ h hl => ⟨c, h, hl, rfl⟩)
    · simp at hh; subst hh
      simp [EntryOk]
  · intro i c hc
    have := hI.vec i c hc
    simpa [VecOk, vecRefs, countP_snoc, refVec] using this
  · intro i c hc
    have := hI.arc i c hc
    simpa [ArcOk, arcRefs, countP_snoc, refArc] using this
  · exact hI.leak
  · refine ⟨?_, hI.small.2⟩
    intro h e hh
    rcases getElem?_snoc_some _ _ _ _ hh with hh | ⟨_, hh⟩
    · exact hI.small.1 h e hh
    · simp at hh; subst hh; exact hs

/-- a second value with the same three words as a live value that owns nothing (Borrowed clone) -/
theorem inv_pushDup {s : St} (hI : Inv s) (e : Entry) (he : EntryOk s e)
    (hnv : ∀ i, e.val.ptr ≠ .vec i) (hna : ∀ i, e.val.ptr ≠ .arc i) (hs : e.built.length < usizeMax) :
    Inv { s with vals := s.vals ++ [some e] } := by
  constructor
  · intro h e' hh
    rcases getElem?_snoc_some _ _ _ _ hh with hh | ⟨_, hh⟩
    · exact EntryOk.frame (hI.ent h e' hh) (fun i c h => h)
        (fun i c _ h hl => ⟨c, h, hl, rfl, rfl⟩) (fun i c _ h hl => ⟨c, h, hl, rfl⟩)
    · simp at hh; subst hh
      exact EntryOk.frame he (fun i c h => h) (fun i c _ h hl => ⟨c, h, hl, rfl, rfl⟩) (fun i c _ h hl => ⟨c, h, hl, rfl⟩)
  · intro i c hc
    have := hI.vec i c hc
    have hn := hnv i
    simpa [VecOk, vecRefs, countP_snoc, refVec, hn] using this
  · intro i c hc
    have := hI.arc i c hc
    have hn := hna i
    simpa [ArcOk, arcRefs, countP_snoc, refArc, hn] using this
  · exact hI.leak
  · refine ⟨?_, hI.small.2⟩
    intro h e hh
    rcases getElem?_snoc_some _ _ _ _ hh with hh | ⟨_, hh⟩
    · exact hI.small.1 h e hh
    · simp at hh; subst hh; exact hs


theorem getElem?_set_some {α} {l : List α} {i j : Nat} {x y : α} (h : (l.set i x)[j]? = some y) :
    (j = i ∧ y = x) ∨ (j ≠ i ∧ l[j]? = some y) := by
  rw [List.getElem?_set] at h
  by_cases e : i = j
  · subst e
    simp at h
    exact Or.inl ⟨rfl, h.2.symm⟩
  · simp [e] at h
    exact Or.inr ⟨fun x => e x.symm, h⟩

theorem getElem?_set_self_of_some {α} {l : List α} {i : Nat} {x c : α} (h : l[i]? = some c) :
    (l.set i x)[i]? = some x := by
  have := lt_of_getElem?_some _ _ _ h
  simp [List.getElem?_set, this]

theorem getElem?_set_ne' {α} {l : List α} {i j : Nat} {x : α} (h : j ≠ i) :
    (l.set i x)[j]? = l[j]? := by
  have : ¬ i = j := fun e => h e.symm
  simp [List.getElem?_set, this]

/-- `from_owned` of a `Vec` with a real buffer / clone of an Owned value -/
theorem inv_newOwned {s : St} (hI : Inv s) (c : Content) (cap : Nat) (h0 : cap ≠ 0) (hm : cap ≠ usizeMax) (hs : c.length < usizeMax) :
    Inv (pushVal { s with vecs := s.vecs ++ [{ cap, content := c, live := true, frees := 0 }] }
          ⟨.vec s.vecs.length, c.length, cap⟩ c) := by
  constructor
  · intro h e hh
    rcases getElem?_snoc_some _ _ _ _ hh with hh | ⟨_, hh⟩
    · exact EntryOk.frame (hI.ent h e hh) (fun i c h => h)
        (fun i c _ h hl => ⟨c, getElem?_append_of_some _ _ _ _ h, hl, rfl, rfl⟩) (fun i c _ h hl => ⟨c, h, hl, rfl⟩)
    · simp at hh; subst hh
      simp [EntryOk, h0, hm]
  · intro i c1 hc
    rcases getElem?_snoc_some _ _ _ _ hc with hc | ⟨hi, hc⟩
    · have := hI.vec i c1 hc
      have hlt := lt_of_getElem?_some _ _ _ hc
      have hne : ¬ s.vecs.length = i := by omega
      simpa [VecOk, vecRefs, pushVal, countP_snoc, refVec, hne] using this
    · subst hc; subst hi
      have := hI.vecRefs_fresh
      simp only [vecRefs] at this
      simp [VecOk, vecRefs, pushVal, countP_snoc, refVec, this]
  · intro i c1 hc
    have := hI.arc i c1 hc
    simpa [ArcOk, arcRefs, pushVal, countP_snoc, refArc] using this
  · exact hI.leak
  · refine ⟨?_, hI.small.2⟩
    intro h e hh
    rcases getElem?_snoc_some _ _ _ _ hh with hh | ⟨_, hh⟩
    · exact hI.small.1 h e hh
    · simp at hh; subst hh; exact hs

/-- `from_shared` of a clone of a held `Arc` / clone of a Shared value -/
theorem inv_newShared {s : St} (hI : Inv s) (a : Nat) (c : ArcCell) (hc : s.arcs[a]? = some c) (hl : c.live = true) :
    Inv (pushVal { s with arcs := s.arcs.set a { c with strong := c.strong + 1 } }
          ⟨.arc a, c.content.length, usizeMax⟩ c.content) := by
  constructor
  · intro h e hh
    rcases getElem?_snoc_some _ _ _ _ hh with hh | ⟨_, hh⟩
    · refine EntryOk.frame (hI.ent h e hh) (fun i c h => h) (fun i c _ h hl => ⟨c, h, hl, rfl, rfl⟩) ?_
      intro i c1 _ h1 hl1
      by_cases e : i = a
      · subst e
        rw [hc] at h1; cases h1
        exact ⟨_, getElem?_set_self_of_some hc, hl, rfl⟩
      · exact ⟨c1, by simpa [getElem?_set_ne' e] using h1, hl1, rfl⟩
    · simp at hh; subst hh
      unfold EntryOk
      exact ⟨rfl, _, getElem?_set_self_of_some hc, hl, rfl, rfl⟩
  · intro i c1 hc1
    have := hI.vec i c1 hc1
    simpa [VecOk, vecRefs, pushVal, countP_snoc, refVec] using this
  · intro i c1 hc1
    rcases getElem?_set_some hc1 with ⟨hi, hx⟩ | ⟨hi, hx⟩
    · subst hi; subst hx
      obtain ⟨h1, h2, h3⟩ := hI.arc _ c hc
      simp only [arcRefs] at h1
      simp [ArcOk, arcRefs, pushVal, countP_snoc, refArc, hl] at h1 h2 h3 ⊢
      omega
    · have := hI.arc i c1 hx
      have hne : ¬ a = i := fun e => hi e.symm
      simpa [ArcOk, arcRefs, pushVal, countP_snoc, refArc, hne] using this
  · exact hI.leak
  · constructor
    · intro h e hh
      rcases getElem?_snoc_some _ _ _ _ hh with hh | ⟨_, hh⟩
      · exact hI.small.1 h e hh
      · simp at hh; subst hh; exact hI.small.2 a c hc
    · intro i c1 hc1
      rcases getElem?_set_some hc1 with ⟨_, hx⟩ | ⟨_, hx⟩
      · subst hx; exact hI.small.2 a c hc
      · exact hI.small.2 i c1 hx

/-- a value that owns nothing goes away (drop / move-out of a Borrowed value) -/
theorem inv_killPlain {s : St} (hI : Inv s) (h : Nat) (e : Entry) (he : s.vals[h]? = some (some e))
    (hnv : ∀ i, e.val.ptr ≠ .vec i) (hna : ∀ i, e.val.ptr ≠ .arc i) : Inv (killVal s h) := by
  constructor
  · intro h' e' hh
    obtain ⟨_, hh⟩ := getElem?_set_none_some _ _ _ _ hh
    exact EntryOk.frame (hI.ent h' e' hh) (fun i c h => h) (fun i c _ h hl => ⟨c, h, hl, rfl, rfl⟩)
      (fun i c _ h hl => ⟨c, h, hl, rfl⟩)
  · intro i c hc
    have := hI.vec i c hc
    have hcnt := countP_set_none (refVec i) rfl s.vals h e he
    have hn := hnv i
    have hz : (if refVec i (some e) then 1 else 0) = 0 := by simp [refVec, hn]
    have hcnt' : (s.vals.set h none).countP (refVec i) = s.vals.countP (refVec i) := by omega
    simpa [VecOk, vecRefs, hcnt'] using this
  · intro i c hc
    have := hI.arc i c hc
    have hcnt := countP_set_none (refArc i) rfl s.vals h e he
    have hn := hna i
    have hz : (if refArc i (some e) then 1 else 0) = 0 := by simp [refArc, hn]
    have hcnt' : (s.vals.set h none).countP (refArc i) = s.vals.countP (refArc i) := by omega
    simpa [ArcOk, arcRefs, hcnt'] using this
  · exact hI.leak
  · refine ⟨?_, hI.small.2⟩
    intro h' e' hh
    obtain ⟨_, hh⟩ := getElem?_set_none_some _ _ _ _ hh
    exact hI.small.1 _ _ hh

/-- a value is moved to a new handle (`into_owned` of an Owned value, `Borrowed` → `std::Cow::Borrowed`) -/
theorem inv_move {s : St} (hI : Inv s) (h : Nat) (e : Entry) (he : s.vals[h]? = some (some e)) :
    Inv (pushVal (killVal s h) e.val e.built) := by
  constructor
  · intro h' e' hh
    rcases getElem?_snoc_some _ _ _ _ hh with hh | ⟨_, hh⟩
    · obtain ⟨_, hh⟩ := getElem?_set_none_some _ _ _ _ hh
      exact EntryOk.frame (hI.ent h' e' hh) (fun i c h => h) (fun i c _ h hl => ⟨c, h, hl, rfl, rfl⟩)
        (fun i c _ h hl => ⟨c, h, hl, rfl⟩)
    · simp at hh; subst hh
      exact EntryOk.frame (hI.ent h e he) (fun i c h => h) (fun i c _ h hl => ⟨c, h, hl, rfl, rfl⟩)
        (fun i c _ h hl => ⟨c, h, hl, rfl⟩)
  · intro i c hc
    have := hI.vec i c hc
    have hcnt := countP_set_none (refVec i) rfl s.vals h e he
    have hcnt' : ((s.vals.set h none) ++ [some e]).countP (refVec i) = s.vals.countP (refVec i) := by
      rw [countP_snoc]; omega
    simpa [VecOk, vecRefs, hcnt'] using this
  · intro i c hc
    have := hI.arc i c hc
    have hcnt := countP_set_none (refArc i) rfl s.vals h e he
    have hcnt' : ((s.vals.set h none) ++ [some e]).countP (refArc i) = s.vals.countP (refArc i) := by
      rw [countP_snoc]; omega
    simpa [ArcOk, arcRefs, hcnt'] using this
  · exact hI.leak
  · refine ⟨?_, hI.small.2⟩
    intro h' e' hh
    rcases getElem?_snoc_some _ _ _ _ hh with hh | ⟨_, hh⟩
    · obtain ⟨_, hh⟩ := getElem?_set_none_some _ _ _ _ hh
      exact hI.small.1 _ _ hh
    · simp at hh; subst hh; exact hI.small.1 h e he


theorem countP_zero_not {l : List (Option Entry)} {p : Option Entry → Bool} (hz : l.countP p = 0)
    {h : Nat} {x : Option Entry} (hx : l[h]? = some x) : p x = false := by
  rw [List.countP_eq_zero] at hz
  have := hz x (List.mem_of_getElem? hx)
  simpa using this

theorem countP_pos_of {l : List (Option Entry)} {p : Option Entry → Bool}
    {h : Nat} {x : Option Entry} (hx : l[h]? = some x) (hp : p x = true) : 0 < l.countP p := by
  rw [List.countP_pos_iff]
  exact ⟨x, List.mem_of_getElem? hx, hp⟩

/-- the value owning buffer `i` goes away and the buffer is freed with the value's own length / capacity -/
theorem inv_dropOwned {s : St} (hI : Inv s) (h : Nat) (e : Entry) (he : s.vals[h]? = some (some e))
    (i : Nat) (hp : e.val.ptr = .vec i) (c : VecCell) (hc : s.vecs[i]? = some c) :
    Inv (killVal { s with vecs := s.vecs.set i { c with live := false, frees := c.frees + 1 },
                          leaked := s.leaked + (c.content.length - e.val.len) } h) := by
  have hE := hI.ent h e he
  unfold EntryOk at hE
  rw [hp] at hE
  obtain ⟨_, _, c', hc', hl, _, hcont, hlen⟩ := hE
  rw [hc] at hc'; cases hc'
  obtain ⟨hr, hf⟩ := hI.vec i c hc
  have hcnt := countP_set_none (refVec i) rfl s.vals h e he
  have hpi : refVec i (some e) = true := by simp [refVec, hp]
  simp only [vecRefs, hl, if_true] at hr
  rw [hpi] at hcnt
  have hz : (s.vals.set h none).countP (refVec i) = 0 := by simp at hcnt; omega
  constructor
  · intro h' e' hh
    obtain ⟨_, hh'⟩ := getElem?_set_none_some _ _ _ _ hh
    have hnp := countP_zero_not hz hh
    refine EntryOk.frame (hI.ent h' e' hh') (fun i c h => h) ?_ (fun i c _ h hl => ⟨c, h, hl, rfl⟩)
    intro j cj hpj hcj hlj
    have hne : j ≠ i := by
      intro ej; subst ej
      simp [refVec, hpj] at hnp
    exact ⟨cj, by simpa [getElem?_set_ne' hne] using hcj, hlj, rfl, rfl⟩
  · intro j cj hcj
    rcases getElem?_set_some hcj with ⟨hj, hx⟩ | ⟨hj, hx⟩
    · subst hj; subst hx
      simp only [hl, if_true] at hf
      simp [VecOk, vecRefs, hz, hf]
    · have := hI.vec j cj hx
      have hcntj := countP_set_none (refVec j) rfl s.vals h e he
      have hzj : (if refVec j (some e) then 1 else 0) = 0 := by
        have : ¬ i = j := fun e => hj e.symm
        simp [refVec, hp, this]
      have hcnt' : (s.vals.set h none).countP (refVec j) = s.vals.countP (refVec j) := by omega
      simpa [VecOk, vecRefs, hcnt'] using this
  · intro j cj hcj
    have := hI.arc j cj hcj
    have hcntj := countP_set_none (refArc j) rfl s.vals h e he
    have hzj : (if refArc j (some e) then 1 else 0) = 0 := by simp [refArc, hp]
    have hcnt' : (s.vals.set h none).countP (refArc j) = s.vals.countP (refArc j) := by omega
    simpa [ArcOk, arcRefs, hcnt'] using this
  · have := hI.leak
    have hlen' : c.content.length - e.val.len = 0 := by rw [hcont, hlen]; omega
    simp [this, hlen']
  · refine ⟨?_, hI.small.2⟩
    intro h' e' hh
    obtain ⟨_, hh⟩ := getElem?_set_none_some _ _ _ _ hh
    exact hI.small.1 _ _ hh

/-- one strong reference to block `i` is given back (`dext` = 0: by the value at `h`, which goes away;
    the general statement about the block itself) -/
theorem arcOk_dec {c : ArcCell} {refs refs' dext : Nat} (hl : c.live = true)
    (h1 : c.strong = c.ext + refs) (h2 : c.live = decide (0 < c.strong)) (h3 : c.frees = if c.live then 0 else 1)
    (hr : refs' + (1 - dext) = refs) (hd : dext ≤ 1) (he : dext ≤ c.ext) :
    (c.dec dext).strong = (c.dec dext).ext + refs' ∧ (c.dec dext).live = decide (0 < (c.dec dext).strong) ∧
      (c.dec dext).frees = (if (c.dec dext).live then 0 else 1) := by
  simp only [hl, if_true] at h3
  rw [hl] at h2
  have hpos : 0 < c.strong := by simpa using h2.symm
  simp only [ArcCell.dec]
  refine ⟨by omega, ?_, ?_⟩
  · by_cases h : 1 < c.strong
    · have : 0 < c.strong - 1 := by omega
      simp [h, this]
    · have : ¬ 0 < c.strong - 1 := by omega
      simp [h, this]
  · by_cases h : 1 < c.strong
    · have : c.strong ≠ 1 := by omega
      simp [h, this, h3]
    · have : c.strong = 1 := by omega
      simp [this, h3]

theorem inv_dropShared {s : St} (hI : Inv s) (h : Nat) (e : Entry) (he : s.vals[h]? = some (some e))
    (i : Nat) (hp : e.val.ptr = .arc i) (c : ArcCell) (hc : s.arcs[i]? = some c) :
    Inv (killVal { s with arcs := s.arcs.set i (c.dec 0) } h) := by
  have hE := hI.ent h e he
  unfold EntryOk at hE
  rw [hp] at hE
  obtain ⟨_, c', hc', hl, hcont, hlen⟩ := hE
  rw [hc] at hc'; cases hc'
  obtain ⟨h1, h2, h3⟩ := hI.arc i c hc
  have hcnt := countP_set_none (refArc i) rfl s.vals h e he
  have hpi : refArc i (some e) = true := by simp [refArc, hp]
  rw [hpi] at hcnt
  simp only [if_true] at hcnt
  simp only [arcRefs] at h1
  constructor
  · intro h' e' hh
    obtain ⟨_, hh'⟩ := getElem?_set_none_some _ _ _ _ hh
    refine EntryOk.frame (hI.ent h' e' hh') (fun i c h => h) (fun i c _ h hl => ⟨c, h, hl, rfl, rfl⟩) ?_
    intro j cj hpj hcj hlj
    by_cases ej : j = i
    · subst ej
      rw [hc] at hcj; cases hcj
      have hpos : 0 < (s.vals.set h none).countP (refArc j) :=
        countP_pos_of (p := refArc j) hh (by simp [refArc, hpj])
      refine ⟨_, getElem?_set_self_of_some hc, ?_, rfl⟩
      have : 1 < c.strong := by omega
      simp [ArcCell.dec, this]
    · exact ⟨cj, by simpa [getElem?_set_ne' ej] using hcj, hlj, rfl⟩
  · intro j cj hcj
    have := hI.vec j cj hcj
    have hcntj := countP_set_none (refVec j) rfl s.vals h e he
    have hzj : (if refVec j (some e) then 1 else 0) = 0 := by simp [refVec, hp]
    have hcnt' : (s.vals.set h none).countP (refVec j) = s.vals.countP (refVec j) := by omega
    simpa [VecOk, vecRefs, hcnt'] using this
  · intro j cj hcj
    rcases getElem?_set_some hcj with ⟨hj, hx⟩ | ⟨hj, hx⟩
    · subst hj; subst hx
      exact arcOk_dec hl h1 h2 h3 (by simpa [arcRefs] using hcnt) (by omega) (by omega)
    · have := hI.arc j cj hx
      have hcntj := countP_set_none (refArc j) rfl s.vals h e he
      have hzj : (if refArc j (some e) then 1 else 0) = 0 := by
        have : ¬ i = j := fun e => hj e.symm
        simp [refArc, hp, this]
      have hcnt' : (s.vals.set h none).countP (refArc j) = s.vals.countP (refArc j) := by omega
      simpa [ArcOk, arcRefs, hcnt'] using this
  · exact hI.leak
  · constructor
    · intro h' e' hh
      obtain ⟨_, hh⟩ := getElem?_set_none_some _ _ _ _ hh
      exact hI.small.1 _ _ hh
    · intro j cj hcj
      rcases getElem?_set_some hcj with ⟨_, hx⟩ | ⟨_, hx⟩
      · subst hx; exact hI.small.2 i c hc
      · exact hI.small.2 j cj hx

/-- the caller makes an `Arc` -/
theorem inv_newArc {s : St} (hI : Inv s) (c : Content) (hs : c.length < usizeMax) :
    Inv { s with arcs := s.arcs ++ [{ strong := 1, ext := 1, content := c, live := true, frees := 0 }] } := by
  constructor
  · intro h e hh
    exact EntryOk.frame (hI.ent h e hh) (fun i c h => h) (fun i c _ h hl => ⟨c, h, hl, rfl, rfl⟩)
      (fun i c _ h hl => ⟨c, getElem?_append_of_some _ _ _ _ h, hl, rfl⟩)
  · intro i c1 hc
    exact hI.vec i c1 hc
  · intro i c1 hc
    rcases getElem?_snoc_some _ _ _ _ hc with hc | ⟨hi, hc⟩
    · exact hI.arc i c1 hc
    · subst hc; subst hi
      have := hI.arcRefs_fresh
      simp only [arcRefs] at this
      simp [ArcOk, arcRefs, this]
  · exact hI.leak
  · refine ⟨hI.small.1, ?_⟩
    intro i c1 hc
    rcases getElem?_snoc_some _ _ _ _ hc with hc | ⟨_, hc⟩
    · exact hI.small.2 i c1 hc
    · subst hc; exact hs

/-- the caller drops one of its own references -/
theorem inv_dropArc {s : St} (hI : Inv s) (a : Nat) (c : ArcCell) (hc : s.arcs[a]? = some c)
    (hl : c.live = true) (hext : 0 < c.ext) :
    Inv { s with arcs := s.arcs.set a (c.dec 1) } := by
  obtain ⟨h1, h2, h3⟩ := hI.arc a c hc
  constructor
  · intro h' e' hh
    refine EntryOk.frame (hI.ent h' e' hh) (fun i c h => h) (fun i c _ h hl => ⟨c, h, hl, rfl, rfl⟩) ?_
    intro j cj hpj hcj hlj
    by_cases ej : j = a
    · subst ej
      rw [hc] at hcj; cases hcj
      have hpos : 0 < s.vals.countP (refArc j) :=
        countP_pos_of (p := refArc j) hh (by simp [refArc, hpj])
      refine ⟨_, getElem?_set_self_of_some hc, ?_, rfl⟩
      simp only [arcRefs] at h1
      have : 1 < c.strong := by omega
      simp [ArcCell.dec, this]
    · exact ⟨cj, by simpa [getElem?_set_ne' ej] using hcj, hlj, rfl⟩
  · intro j cj hcj
    exact hI.vec j cj hcj
  · intro j cj hcj
    rcases getElem?_set_some hcj with ⟨hj, hx⟩ | ⟨hj, hx⟩
    · subst hj; subst hx
      exact arcOk_dec hl h1 h2 h3 (by simp [arcRefs]) (by omega) (by omega)
    · exact hI.arc j cj hx
  · exact hI.leak
  · refine ⟨hI.small.1, ?_⟩
    intro j cj hcj
    rcases getElem?_set_some hcj with ⟨_, hx⟩ | ⟨_, hx⟩
    · subst hx; exact hI.small.2 a c hc
    · exact hI.small.2 j cj hx


/-! ## the model's functions on a state satisfying the invariant -/

theorem kindOf_zero : kindOf 0 = .borrowed := by decide
theorem kindOf_max : kindOf usizeMax = .shared := by simp [kindOf]
theorem kindOf_owned {cap : Nat} (h0 : cap ≠ 0) (hm : cap ≠ usizeMax) : kindOf cap = .owned := by
  simp [kindOf, h0, hm]

/-- reading a live value gives the content it was built from -/
theorem read_ok {s : St} {e : Entry} (h : EntryOk s e) : readPtr s e.val.ptr e.val.len = .ok e.built := by
  unfold EntryOk at h
  split at h
  · next hp => obtain ⟨_, h2, h3⟩ := h; simp [readPtr, hp, h2, h3]
  · next i hp => obtain ⟨_, h2, h3⟩ := h; simp [readPtr, hp, h2, h3]
  · next i hp =>
    obtain ⟨_, _, c, hc, hl, _, hcont, hlen⟩ := h
    simp [readPtr, hp, hc, hl, hlen, hcont]
  · next i hp =>
    obtain ⟨_, c, hc, hl, hcont, hlen⟩ := h
    simp [readPtr, hp, hc, hl, hlen, hcont]

theorem bindNew_ok {s : St} {v : CowVal} {g : Content} (hI : Inv (pushVal s v g)) :
    bindNew s v g = .ok (pushVal s v g, s.vals.length, g) := by
  have := read_ok (hI.ent s.vals.length ⟨v, g⟩ (by simp))
  simp only at this
  simp [bindNew, this, bind, Except.bind]

/-- a `Vec` with content `c` and a legal capacity, taken apart and bound to a new handle -/
theorem inv_ownedIntoParts {s : St} (hI : Inv s) (c : Content) (cap : Nat) (hle : c.length ≤ cap)
    (hs : cap < usizeMax) :
    Inv (pushVal (ownedIntoParts s c cap).1 (ownedIntoParts s c cap).2 c) := by
  by_cases h0 : cap = 0
  · subst h0
    have hc : c = [] := List.eq_nil_of_length_eq_zero (by omega)
    subst hc
    simp only [ownedIntoParts, allocVec, List.length_nil, if_true]
    exact inv_pushDup hI ⟨⟨.dangling, 0, 0⟩, []⟩ (by simp [EntryOk]) (by simp) (by simp) (by simp [usizeMax])
  · simp only [ownedIntoParts, allocVec, h0, if_false]
    exact inv_newOwned hI c cap h0 (by omega) (by omega)

theorem freshCap_ok (len fc : Nat) (h : len < usizeMax) : len ≤ freshCap len fc ∧ freshCap len fc < usizeMax := by
  unfold freshCap
  split
  · next hh => exact hh
  · exact ⟨Nat.le_refl _, h⟩

theorem cloneFromParts_spec {s : St} (hI : Inv s) {h : Nat} {e : Entry} (he : s.vals[h]? = some (some e)) :
    ∃ s1 v, cloneFromParts s e.val = .ok (s1, v) ∧ Inv (pushVal s1 v e.built) := by
  have hE := hI.ent h e he
  have hr := read_ok hE
  have hsm := hI.small.1 h e he
  unfold EntryOk at hE
  split at hE
  · next hp =>
    obtain ⟨hcap, hlen, hb⟩ := hE
    refine ⟨s, e.val, by simp [cloneFromParts, CowVal.kind, hcap, kindOf_zero], ?_⟩
    exact inv_pushDup hI e (hI.ent h e he) (by simp [hp]) (by simp [hp]) hsm
  · next i hp =>
    obtain ⟨hcap, _, hlen⟩ := hE
    refine ⟨s, e.val, by simp [cloneFromParts, CowVal.kind, hcap, kindOf_zero], ?_⟩
    exact inv_pushDup hI e (hI.ent h e he) (by simp [hp]) (by simp [hp]) hsm
  · next i hp =>
    obtain ⟨h0, hm, _⟩ := hE
    refine ⟨(ownedIntoParts s e.built e.built.length).1, (ownedIntoParts s e.built e.built.length).2, ?_, ?_⟩
    · simp [cloneFromParts, CowVal.kind, kindOf_owned h0 hm, hr, bind, Except.bind]
    · exact inv_ownedIntoParts hI e.built e.built.length (Nat.le_refl _) hsm
  · next i hp =>
    obtain ⟨hcap, c, hc, hl, hcont, hlen⟩ := hE
    refine ⟨{ s with arcs := s.arcs.set i { c with strong := c.strong + 1 } }, e.val, ?_, ?_⟩
    · simp [cloneFromParts, CowVal.kind, hcap, kindOf_max, incStrong, hp, hc, hl, bind, Except.bind]
    · have := inv_newShared hI i c hc hl
      have hv : e.val = ⟨.arc i, c.content.length, usizeMax⟩ := by
        cases hv' : e.val with
        | mk p l k => rw [hv'] at hp hcap hlen; simp at hp hcap hlen; subst hp; subst hcap; rw [hcont, hlen]
      rw [hv, ← hcont]; exact this

theorem dropFromParts_spec {s : St} (hI : Inv s) {h : Nat} {e : Entry} (he : s.vals[h]? = some (some e)) :
    ∃ s1, dropFromParts s e.val = .ok s1 ∧ Inv (killVal s1 h) := by
  have hE := hI.ent h e he
  unfold EntryOk at hE
  split at hE
  · next hp =>
    obtain ⟨hcap, _, _⟩ := hE
    exact ⟨s, by simp [dropFromParts, CowVal.kind, hcap, kindOf_zero],
      inv_killPlain hI h e he (by simp [hp]) (by simp [hp])⟩
  · next i hp =>
    obtain ⟨hcap, _, _⟩ := hE
    exact ⟨s, by simp [dropFromParts, CowVal.kind, hcap, kindOf_zero],
      inv_killPlain hI h e he (by simp [hp]) (by simp [hp])⟩
  · next i hp =>
    obtain ⟨h0, hm, c, hc, hl, hcap, hcont, hlen⟩ := hE
    refine ⟨_, ?_, inv_dropOwned hI h e he i hp c hc⟩
    simp [dropFromParts, CowVal.kind, kindOf_owned h0 hm, freeVec, h0, hp, hc, hl, hcap, hcont, hlen]
  · next i hp =>
    obtain ⟨hcap, c, hc, hl, hcont, hlen⟩ := hE
    obtain ⟨h1, h2, h3⟩ := hI.arc i c hc
    have hpos : c.strong ≠ 0 := by
      rw [hl] at h2
      have : 0 < c.strong := by simpa using h2.symm
      omega
    refine ⟨_, ?_, inv_dropShared hI h e he i hp c hc⟩
    simp [dropFromParts, CowVal.kind, hcap, kindOf_max, decStrong, decArc, hp, hc, hl, hpos]


theorem ownedIntoParts_arcs (s : St) (c : Content) (cap : Nat) : (ownedIntoParts s c cap).1.arcs = s.arcs := by
  simp only [ownedIntoParts, allocVec]; split <;> rfl

theorem ownedIntoParts_kill_arcs (s : St) (c : Content) (cap : Nat) (h : Nat) (a : List ArcCell) :
    killVal { (ownedIntoParts s c cap).1 with arcs := a } h = (ownedIntoParts (killVal { s with arcs := a } h) c cap).1
    ∧ (ownedIntoParts s c cap).2 = (ownedIntoParts (killVal { s with arcs := a } h) c cap).2 := by
  simp only [ownedIntoParts, allocVec]; split <;> exact ⟨rfl, rfl⟩

theorem ownedIntoParts_kill (s : St) (c : Content) (cap : Nat) (h : Nat) :
    killVal (ownedIntoParts s c cap).1 h = (ownedIntoParts (killVal s h) c cap).1
    ∧ (ownedIntoParts s c cap).2 = (ownedIntoParts (killVal s h) c cap).2 := by
  simp only [ownedIntoParts, allocVec]; split <;> exact ⟨rfl, rfl⟩

theorem ownedFromParts_spec {s : St} (hI : Inv s) {h : Nat} {e : Entry} (he : s.vals[h]? = some (some e)) (fc : Nat) :
    ∃ s1 o, ownedFromParts s e.val fc = .ok (s1, o) ∧ Inv (pushVal (killVal s1 h) o e.built) := by
  have hE := hI.ent h e he
  have hr := read_ok hE
  have hsm := hI.small.1 h e he
  obtain ⟨hf1, hf2⟩ := freshCap_ok e.built.length fc hsm
  unfold EntryOk at hE
  split at hE
  · next hp =>
    obtain ⟨hcap, _, _⟩ := hE
    refine ⟨(ownedIntoParts s e.built (freshCap e.built.length fc)).1, (ownedIntoParts s e.built (freshCap e.built.length fc)).2, ?_, ?_⟩
    · simp [ownedFromParts, CowVal.kind, hcap, kindOf_zero, hr, bind, Except.bind]
    · have hK := inv_killPlain hI h e he (by simp [hp]) (by simp [hp])
      have := inv_ownedIntoParts hK e.built _ hf1 hf2
      obtain ⟨e1, e2⟩ := ownedIntoParts_kill s e.built (freshCap e.built.length fc) h
      rw [e1, e2]; exact this
  · next i hp =>
    obtain ⟨hcap, _, _⟩ := hE
    refine ⟨(ownedIntoParts s e.built (freshCap e.built.length fc)).1, (ownedIntoParts s e.built (freshCap e.built.length fc)).2, ?_, ?_⟩
    · simp [ownedFromParts, CowVal.kind, hcap, kindOf_zero, hr, bind, Except.bind]
    · have hK := inv_killPlain hI h e he (by simp [hp]) (by simp [hp])
      have := inv_ownedIntoParts hK e.built _ hf1 hf2
      obtain ⟨e1, e2⟩ := ownedIntoParts_kill s e.built (freshCap e.built.length fc) h
      rw [e1, e2]; exact this
  · next i hp =>
    obtain ⟨h0, hm, _⟩ := hE
    exact ⟨s, e.val, by simp [ownedFromParts, CowVal.kind, kindOf_owned h0 hm], inv_move hI h e he⟩
  · next i hp =>
    obtain ⟨hcap, c, hc, hl, hcont, hlen⟩ := hE
    obtain ⟨h1, h2, h3⟩ := hI.arc i c hc
    have hpos : c.strong ≠ 0 := by
      rw [hl] at h2
      have : 0 < c.strong := by simpa using h2.symm
      omega
    refine ⟨{ (ownedIntoParts s e.built (freshCap e.built.length fc)).1 with arcs := s.arcs.set i (c.dec 0) },
      (ownedIntoParts s e.built (freshCap e.built.length fc)).2, ?_, ?_⟩
    · rw [hp] at hr
      simp [ownedFromParts, CowVal.kind, hcap, kindOf_max, hr, decStrong, decArc, hp, ownedIntoParts_arcs,
        hc, hl, hpos, bind, Except.bind]
    · have hK := inv_dropShared hI h e he i hp c hc
      have := inv_ownedIntoParts hK e.built _ hf1 hf2
      obtain ⟨e1, e2⟩ := ownedIntoParts_kill_arcs s e.built (freshCap e.built.length fc) h (s.arcs.set i (c.dec 0))
      rw [e1, e2]; exact this

theorem fromOwned_spec {s : St} (hI : Inv s) (c : Content) (cap : Nat) :
    match fromOwned s c cap with
    | .ok (s1, v) => Inv (pushVal s1 v c)
    | .error e => e.isMisuse = true := by
  unfold fromOwned
  by_cases h1 : cap < c.length
  · simp [h1, Err.isMisuse]
  · by_cases h2 : usizeMax < cap
    · simp [h1, h2, Err.isMisuse]
    · by_cases h3 : cap = usizeMax
      · subst h3
        simp only [h1, h2, if_false, ownedIntoParts, if_true]
        simp [Err.isMisuse]
      · simp only [h1, h2, if_false, ownedIntoParts]
        by_cases h0 : cap = 0
        · subst h0
          have hc : c = [] := List.eq_nil_of_length_eq_zero (by omega)
          subst hc
          simp only [allocVec, if_true, List.length_nil]
          have : ¬ (0 = usizeMax) := by decide
          simp only [this, if_false]
          exact inv_pushDup hI ⟨⟨.dangling, 0, 0⟩, []⟩ (by simp [EntryOk]) (by simp) (by simp) (by simp [usizeMax])
        · simp only [allocVec, h0, if_false, h3]
          exact inv_newOwned hI c cap h0 h3 (by omega)


theorem getVal_cases (s : St) (h : Nat) :
    (getVal s h = .error .deadHandle) ∨ (∃ e, s.vals[h]? = some (some e) ∧ getVal s h = .ok e) := by
  unfold getVal
  cases hv : s.vals[h]? with
  | none => exact Or.inl rfl
  | some o => cases o with
    | none => exact Or.inl rfl
    | some e => exact Or.inr ⟨e, rfl, rfl⟩

/-! ## unwinding: a panicking element `Clone` inside `into_owned` / `clone` -/

/-- what `owned_from_parts` leaves behind when its element copy unwinds, by kind: nothing can unwind for an
    Owned value; a Borrowed value is simply consumed; a Shared value gives back exactly ONE strong reference.
    In each case the state with the handle consumed satisfies the invariant again. -/
theorem ownedFromPartsUnwind_spec {s : St} (hI : Inv s) {h : Nat} {e : Entry} (he : s.vals[h]? = some (some e)) :
    (e.val.kind = .owned ∧ ownedFromPartsUnwind s e.val = .ok none) ∨
    (e.val.kind = .borrowed ∧ ownedFromPartsUnwind s e.val = .ok (some s) ∧ Inv (killVal s h)) ∨
    (e.val.kind = .shared ∧ ∃ i c, e.val.ptr = .arc i ∧ s.arcs[i]? = some c ∧ c.live = true ∧ 0 < c.strong ∧
      ownedFromPartsUnwind s e.val = .ok (some { s with arcs := s.arcs.set i (c.dec 0) }) ∧
      Inv (killVal { s with arcs := s.arcs.set i (c.dec 0) } h)) := by
  have hE := hI.ent h e he
  have hr := read_ok hE
  unfold EntryOk at hE
  split at hE
  · next hp =>
    obtain ⟨hcap, _, _⟩ := hE
    refine Or.inr (Or.inl ⟨by simp [CowVal.kind, hcap, kindOf_zero], ?_,
      inv_killPlain hI h e he (by simp [hp]) (by simp [hp])⟩)
    simp [ownedFromPartsUnwind, CowVal.kind, hcap, kindOf_zero, hr, bind, Except.bind]
  · next i hp =>
    obtain ⟨hcap, _, _⟩ := hE
    refine Or.inr (Or.inl ⟨by simp [CowVal.kind, hcap, kindOf_zero], ?_,
      inv_killPlain hI h e he (by simp [hp]) (by simp [hp])⟩)
    simp [ownedFromPartsUnwind, CowVal.kind, hcap, kindOf_zero, hr, bind, Except.bind]
  · next i hp =>
    obtain ⟨h0, hm, _⟩ := hE
    exact Or.inl ⟨by simp [CowVal.kind, kindOf_owned h0 hm],
      by simp [ownedFromPartsUnwind, CowVal.kind, kindOf_owned h0 hm]⟩
  · next i hp =>
    obtain ⟨hcap, c, hc, hl, hcont, hlen⟩ := hE
    obtain ⟨h1, h2, h3⟩ := hI.arc i c hc
    have hpos0 : 0 < c.strong := by
      rw [hl] at h2
      simpa using h2.symm
    have hpos : c.strong ≠ 0 := by omega
    refine Or.inr (Or.inr ⟨by simp [CowVal.kind, hcap, kindOf_max], i, c, hp, hc, hl, hpos0, ?_,
      inv_dropShared hI h e he i hp c hc⟩)
    rw [hp] at hr
    simp [ownedFromPartsUnwind, CowVal.kind, hcap, kindOf_max, hr, decStrong, decArc, hp, hc, hl, hpos,
      bind, Except.bind]

/-- only the Owned arm of `clone_from_parts` runs user code; reading the source succeeds -/
theorem cloneFromPartsUnwind_spec {s : St} (hI : Inv s) {h : Nat} {e : Entry} (he : s.vals[h]? = some (some e)) :
    (e.val.kind = .owned ∧ cloneFromPartsUnwind s e.val = .ok true) ∨
    (e.val.kind ≠ .owned ∧ cloneFromPartsUnwind s e.val = .ok false) := by
  have hr := read_ok (hI.ent h e he)
  cases hk : e.val.kind with
  | owned => exact Or.inl ⟨rfl, by simp [cloneFromPartsUnwind, hk, hr, bind, Except.bind]⟩
  | borrowed => exact Or.inr ⟨by simp, by simp [cloneFromPartsUnwind, hk]⟩
  | shared => exact Or.inr ⟨by simp, by simp [cloneFromPartsUnwind, hk]⟩

theorem stepClone_inv {s : St} (hI : Inv s) (h : Nat) :
    match stepClone s h with
    | .ok (s', _) => Inv s'
    | .error e => e.isMisuse = true := by
  simp only [stepClone]
  rcases getVal_cases s h with hg | ⟨e, he, hg⟩
  · simp [hg, bind, Except.bind, Err.isMisuse]
  · obtain ⟨s1, v, hc, hI'⟩ := cloneFromParts_spec hI he
    simp only [hg, hc, bind, Except.bind, bindNew_ok hI']
    exact hI'

theorem stepIntoOwned_inv {s : St} (hI : Inv s) (h fc : Nat) :
    match stepIntoOwned s h fc with
    | .ok (s', _) => Inv s'
    | .error e => e.isMisuse = true := by
  simp only [stepIntoOwned]
  rcases getVal_cases s h with hg | ⟨e, he, hg⟩
  · simp [hg, bind, Except.bind, Err.isMisuse]
  · obtain ⟨s1, o, hc, hI'⟩ := ownedFromParts_spec hI he fc
    simp only [hg, intoOwned, hc, bind, Except.bind, bindNew_ok hI']
    exact hI'

theorem stepIntoOwnedUnwind_inv {s : St} (hI : Inv s) (h fc : Nat) :
    match stepIntoOwnedUnwind s h fc with
    | .ok (s', _) => Inv s'
    | .error e => e.isMisuse = true := by
  rcases getVal_cases s h with hg | ⟨e, he, hg⟩
  · simp [stepIntoOwnedUnwind, hg, Err.isMisuse]
  · rcases ownedFromPartsUnwind_spec hI he with ⟨_, hu⟩ | ⟨_, hu, hI'⟩ | ⟨_, i, c, _, _, _, _, hu, hI'⟩
    · simp only [stepIntoOwnedUnwind, hg, hu]
      exact stepIntoOwned_inv hI h fc
    · simp only [stepIntoOwnedUnwind, hg, hu]
      exact hI'
    · simp only [stepIntoOwnedUnwind, hg, hu]
      exact hI'

theorem stepCloneUnwind_inv {s : St} (hI : Inv s) (h : Nat) :
    match stepCloneUnwind s h with
    | .ok (s', _) => Inv s'
    | .error e => e.isMisuse = true := by
  rcases getVal_cases s h with hg | ⟨e, he, hg⟩
  · simp [stepCloneUnwind, hg, Err.isMisuse]
  · rcases cloneFromPartsUnwind_spec hI he with ⟨_, hu⟩ | ⟨_, hu⟩
    · simp only [stepCloneUnwind, hg, hu]
      exact hI
    · simp only [stepCloneUnwind, hg, hu]
      exact stepClone_inv hI h

/-! ## the heap functions never touch the caller's value table -/

theorem ownedIntoParts_vals (s : St) (c : Content) (cap : Nat) : (ownedIntoParts s c cap).1.vals = s.vals := by
  simp only [ownedIntoParts, allocVec]; split <;> rfl

theorem fromOwned_vals {s s1 : St} {c : Content} {cap : Nat} {v : CowVal}
    (h : fromOwned s c cap = .ok (s1, v)) : s1.vals = s.vals := by
  unfold fromOwned at h
  by_cases h1 : cap < c.length
  · simp [h1] at h
  · by_cases h2 : usizeMax < cap
    · simp [h1, h2] at h
    · by_cases h3 : cap = usizeMax
      · simp [h1, h2, h3, ownedIntoParts] at h
        split at h <;> simp at h
      · simp [h1, h2, h3, ownedIntoParts] at h
        rw [← h.1]; simp only [allocVec]; split <;> rfl

theorem cloneFromParts_vals {s s1 : St} {v v' : CowVal}
    (h : cloneFromParts s v = .ok (s1, v')) : s1.vals = s.vals := by
  unfold cloneFromParts at h
  split at h
  · simp at h; rw [h.1]
  · cases hr : readPtr s v.ptr v.len with
    | error e => simp [hr, bind, Except.bind] at h
    | ok c =>
      simp only [hr, bind, Except.bind, Except.ok.injEq] at h
      rw [← ownedIntoParts_vals s c c.length, h]
  · cases hi : incStrong s v.ptr with
    | error e => simp [hi, bind, Except.bind] at h
    | ok s2 =>
      simp only [hi, bind, Except.bind, Except.ok.injEq, Prod.mk.injEq] at h
      rw [← h.1]
      unfold incStrong at hi
      split at hi
      · split at hi
        · split at hi
          · simp at hi; rw [← hi]
          · simp at hi
        · simp at hi
      all_goals simp at hi

theorem dropFromParts_vals {s s1 : St} {v : CowVal} (h : dropFromParts s v = .ok s1) : s1.vals = s.vals := by
  unfold dropFromParts at h
  split at h
  · simp at h; rw [← h]
  · unfold freeVec at h
    repeat' split at h
    all_goals first
      | (simp at h; done)
      | (simp at h; rw [← h])
  · unfold decStrong decArc at h
    repeat' split at h
    all_goals first
      | (simp at h; done)
      | (simp at h; rw [← h])

/-! ## `clone_from` (std's provided method) and comparisons / hashes whose element operation unwinds -/

/-- what `Clone::clone` does to a live value, in full: the heap functions leave the value table alone, the clone is
    bound to the next handle and reads what the source was built from -/
theorem stepClone_spec {s : St} (hI : Inv s) {h : Nat} {e : Entry} (he : s.vals[h]? = some (some e)) :
    ∃ s1 v, cloneFromParts s e.val = .ok (s1, v) ∧ s1.vals = s.vals ∧ Inv (pushVal s1 v e.built) ∧
      stepClone s h = .ok (pushVal s1 v e.built, .handle s.vals.length e.built) := by
  obtain ⟨s1, v, hc, hI'⟩ := cloneFromParts_spec hI he
  have hv := cloneFromParts_vals hc
  refine ⟨s1, v, hc, hv, hI', ?_⟩
  have hg : getVal s h = .ok e := by simp [getVal, he]
  simp only [stepClone, hg, hc, bind, Except.bind, bindNew_ok hI', hv]

theorem stepClone_dead {s : St} {h : Nat} (hg : getVal s h = .error .deadHandle) :
    stepClone s h = .error .deadHandle := by
  simp [stepClone, hg, bind, Except.bind]

/-- `clone_from` on live values, in full: the clone of the source is made in the untouched state, then the
    destination's old value is released by `drop_from_parts` in the state that already holds the clone -/
theorem stepCloneFrom_spec {s : St} (hI : Inv s) {hd hs : Nat} {ed es : Entry}
    (hed : s.vals[hd]? = some (some ed)) (hes : s.vals[hs]? = some (some es)) :
    ∃ s1 v s2, cloneFromParts s es.val = .ok (s1, v) ∧ s1.vals = s.vals ∧ Inv (pushVal s1 v es.built) ∧
      stepClone s hs = .ok (pushVal s1 v es.built, .handle s.vals.length es.built) ∧
      dropFromParts (pushVal s1 v es.built) ed.val = .ok s2 ∧ Inv (killVal s2 hd) ∧
      stepCloneFrom s hd hs = .ok (killVal s2 hd, .handle s.vals.length es.built) := by
  obtain ⟨s1, v, hc, hv, hI', hst⟩ := stepClone_spec hI hes
  have hed' : (pushVal s1 v es.built).vals[hd]? = some (some ed) := by
    simp only [pushVal_vals, hv]
    exact getElem?_append_of_some _ _ _ _ hed
  obtain ⟨s2, hdp, hI2⟩ := dropFromParts_spec hI' hed'
  refine ⟨s1, v, s2, hc, hv, hI', hst, hdp, hI2, ?_⟩
  have hg : getVal s hd = .ok ed := by simp [getVal, hed]
  simp only [stepCloneFrom, hg, hst, hdp]

theorem stepCloneFrom_inv {s : St} (hI : Inv s) (hd hs : Nat) :
    match stepCloneFrom s hd hs with
    | .ok (s', _) => Inv s'
    | .error e => e.isMisuse = true := by
  rcases getVal_cases s hd with hg | ⟨ed, hed, hg⟩
  · simp [stepCloneFrom, hg, Err.isMisuse]
  · rcases getVal_cases s hs with hg2 | ⟨es, hes, hg2⟩
    · simp [stepCloneFrom, hg, stepClone_dead hg2, Err.isMisuse]
    · obtain ⟨s1, v, s2, _, _, _, _, _, hI2, hst⟩ := stepCloneFrom_spec hI hed hes
      rw [hst]
      exact hI2

theorem stepCloneFromUnwind_inv {s : St} (hI : Inv s) (hd hs : Nat) :
    match stepCloneFromUnwind s hd hs with
    | .ok (s', _) => Inv s'
    | .error e => e.isMisuse = true := by
  rcases getVal_cases s hd with hg | ⟨ed, hed, hg⟩
  · simp [stepCloneFromUnwind, hg, Err.isMisuse]
  · rcases getVal_cases s hs with hg2 | ⟨es, hes, hg2⟩
    · simp [stepCloneFromUnwind, hg, hg2, Err.isMisuse]
    · rcases cloneFromPartsUnwind_spec hI hes with ⟨_, hu⟩ | ⟨_, hu⟩
      · simp only [stepCloneFromUnwind, hg, hg2, hu]
        exact hI
      · simp only [stepCloneFromUnwind, hg, hg2, hu]
        exact stepCloneFrom_inv hI hd hs

theorem stepReadUnwind_spec {s : St} (hI : Inv s) {h1 h2 : Nat} {e1 e2 : Entry}
    (he1 : s.vals[h1]? = some (some e1)) (he2 : s.vals[h2]? = some (some e2)) :
    stepReadUnwind s h1 h2 = .ok (s, .unwound) := by
  have hg1 : getVal s h1 = .ok e1 := by simp [getVal, he1]
  have hg2 : getVal s h2 = .ok e2 := by simp [getVal, he2]
  simp only [stepReadUnwind, hg1, hg2, read_ok (hI.ent h1 e1 he1), read_ok (hI.ent h2 e2 he2)]

theorem stepReadUnwind_inv {s : St} (hI : Inv s) (h1 h2 : Nat) :
    match stepReadUnwind s h1 h2 with
    | .ok (s', _) => Inv s'
    | .error e => e.isMisuse = true := by
  rcases getVal_cases s h1 with hg | ⟨e1, he1, hg1⟩
  · simp [stepReadUnwind, hg, Err.isMisuse]
  · rcases getVal_cases s h2 with hg | ⟨e2, he2, hg2⟩
    · simp [stepReadUnwind, hg1, hg, Err.isMisuse]
    · rw [stepReadUnwind_spec hI he1 he2]
      exact hI

/-- **one step**: from a state satisfying the invariant every operation either succeeds into a state
    satisfying the invariant, or is rejected as a caller error — never a memory error. -/
theorem step_inv {s : St} (hI : Inv s) (op : Op) :
    match step s op with
    | .ok (s', _) => Inv s'
    | .error e => e.isMisuse = true := by
  cases op with
  | newArc c =>
    simp only [step]
    by_cases hc : usizeMax ≤ c.length
    · simp [hc, Err.isMisuse]
    · simp only [hc, if_false]
      exact inv_newArc hI c (by omega)
  | dropArc a =>
    simp only [step]
    cases hc : s.arcs[a]? with
    | none => simp [heldArc, hc, Err.isMisuse]
    | some c =>
      by_cases hext : 0 < c.ext
      · obtain ⟨h1, h2, h3⟩ := hI.arc a c hc
        have hpos : 0 < c.strong := by omega
        have hl : c.live = true := by rw [h2]; simpa using hpos
        have hs : c.strong ≠ 0 := by omega
        have := inv_dropArc hI a c hc hl hext
        simpa [heldArc, hc, hext, decArc, hl, hs, bind, Except.bind] using this
      · simp [heldArc, hc, hext, Err.isMisuse]
  | fromBorrowed c =>
    simp only [step]
    by_cases hc : usizeMax ≤ c.length
    · simp [hc, Err.isMisuse]
    · simp only [hc, if_false, borrowedIntoParts]
      have hI' := inv_pushStatic hI c (by omega)
      have hb := bindNew_ok (s := { s with statics := s.statics ++ [c] })
        (v := ⟨.stat s.statics.length, c.length, 0⟩) (g := c) hI'
      simp only [hb, bind, Except.bind]
      exact hI'
  | fromOwned c cap =>
    simp only [step]
    have := fromOwned_spec hI c cap
    cases hf : fromOwned s c cap with
    | error e => rw [hf] at this; simpa [bind, Except.bind] using this
    | ok r =>
      obtain ⟨s1, v⟩ := r
      rw [hf] at this
      simp only at this
      simp only [bind, Except.bind, bindNew_ok this]
      exact this
  | fromShared a =>
    simp only [step]
    cases hc : s.arcs[a]? with
    | none => simp [Err.isMisuse]
    | some c =>
      by_cases hext : c.ext = 0
      · simp [hext, Err.isMisuse]
      · obtain ⟨h1, h2, h3⟩ := hI.arc a c hc
        have hpos : 0 < c.strong := by omega
        have hl : c.live = true := by rw [h2]; simpa using hpos
        have hI' := inv_newShared hI a c hc hl
        simp only [hext, if_false, incStrong, hc, bind, Except.bind]
        rw [if_pos hl]
        simp only [bindNew_ok hI']
        exact hI'
  | clone h =>
    simp only [step]
    exact stepClone_inv hI h
  | deref h =>
    simp only [step]
    rcases getVal_cases s h with hg | ⟨e, he, hg⟩
    · simp [hg, bind, Except.bind, Err.isMisuse]
    · simp only [hg, bind, Except.bind, read_ok (hI.ent h e he)]
      exact hI
  | eq h1 h2 =>
    simp only [step]
    rcases getVal_cases s h1 with hg | ⟨e1, he1, hg1⟩
    · simp [hg, bind, Except.bind, Err.isMisuse]
    · rcases getVal_cases s h2 with hg | ⟨e2, he2, hg2⟩
      · simp [hg1, hg, bind, Except.bind, Err.isMisuse]
      · simp only [hg1, hg2, bind, Except.bind, read_ok (hI.ent h1 e1 he1), read_ok (hI.ent h2 e2 he2)]
        exact hI
  | intoOwned h fc =>
    simp only [step]
    exact stepIntoOwned_inv hI h fc
  | intoStdCow h fc =>
    simp only [step]
    rcases getVal_cases s h with hg | ⟨e, he, hg⟩
    · simp [hg, bind, Except.bind, Err.isMisuse]
    · cases hk : e.val.kind with
      | borrowed =>
        have hI' := inv_move hI h e he
        simp only [hg, hk, dropFromParts, bind, Except.bind, bindNew_ok hI']
        exact hI'
      | owned =>
        obtain ⟨s1, o, hc, hI'⟩ := ownedFromParts_spec hI he fc
        simp only [hg, hk, intoOwned, hc, bind, Except.bind, bindNew_ok hI']
        exact hI'
      | shared =>
        obtain ⟨s1, o, hc, hI'⟩ := ownedFromParts_spec hI he fc
        simp only [hg, hk, intoOwned, hc, bind, Except.bind, bindNew_ok hI']
        exact hI'
  | drop h =>
    simp only [step]
    rcases getVal_cases s h with hg | ⟨e, he, hg⟩
    · simp [hg, bind, Except.bind, Err.isMisuse]
    · obtain ⟨s1, hc, hI'⟩ := dropFromParts_spec hI he
      simp only [hg, hc, bind, Except.bind]
      exact hI'
  | intoOwnedUnwind h fc =>
    simp only [step]
    exact stepIntoOwnedUnwind_inv hI h fc
  | cloneUnwind h =>
    simp only [step]
    exact stepCloneUnwind_inv hI h
  | cloneFrom hd hs =>
    simp only [step]
    exact stepCloneFrom_inv hI hd hs
  | cloneFromUnwind hd hs =>
    simp only [step]
    exact stepCloneFromUnwind_inv hI hd hs
  | readUnwind h1 h2 =>
    simp only [step]
    exact stepReadUnwind_inv hI h1 h2


end MetricsVerif.Cow
