/-
C05, conservation with clearers outside the K1 pattern.

K1 (known finding K-C05-K1) is "a pusher's slot claim lands on a block that a clear has already detached".  In the
step machine that is a `pClaim blk` step that really claims a slot (`write < B`) of a block whose ghost owner
(`Proofs/BucketClear.lean`: `live` / `det tid` / `read`) is not `live` — a block leaves `live` only through a
clear's detach CAS, so a clear's detach step lies between the pusher's tail load (or its installing CAS) and its
slot claim.  `k1Count` counts these steps along a schedule (a ghost counter next to `grun`; `step` itself is not
touched).

Without K1 steps: a clearer reads a detached block only after it saw it quiesced, nobody claims in it afterwards, so
what the clear hands to its callback is EVERY claimed slot of the block (`KInv.eq`: delivered = cells of the blocks
marked `read`, with equality).  At quiescence no block is `det`, every `live` block is on the chain from the tail and
fully published, hence claimed cells = delivered + visible, and claimed cells = pushes (`arun_vals`).
-/
import MetricsVerif.Proofs.BucketSnap

namespace MetricsVerif.Bucket

/-! ### the K1 step: `k1PC`, `k1Step`, `k1Count` are defined in `Model/BucketGhost.lean` (the driver evaluates them) -/

theorem k1Fold_eq (sched : List Nat) : ∀ (s : Sys) (own : Nat → Owner) (n : Nat),
    k1Fold s own n sched = n + k1Count s own sched := by
  induction sched with
  | nil => intro s own n; rfl
  | cons t ts ih =>
    intro s own n
    simp only [k1Fold, k1Count, ih]
    omega

/-! ### what one step can do to any one block (cells AND claim counter) -/

def BlkStep (B : Nat) (b b' : Block) (claimHere : Prop) : Prop :=
  (b'.cells = b.cells ∧ (b'.write = b.write ∨ (B ≤ b.write ∧ b'.write = b.write + 1)))
  ∨ (claimHere ∧ b.write < B ∧ b'.write = b.write + 1 ∧ ∃ v, b'.cells = b.cells ++ [Cell.written v])
  ∨ (b'.write = b.write ∧ ∃ i, b'.cells = publishCell b.cells i)

theorem BlkStep.same {B : Nat} {b b' : Block} {P : Prop} (h1 : b'.cells = b.cells) (h2 : b'.write = b.write) :
    BlkStep B b b' P := Or.inl ⟨h1, Or.inl h2⟩

theorem blkStep_setBlock (s : Sys) (blk : Nat) (b' : Block) (k : Nat) (P : Prop)
    (h : blk = k → BlkStep s.B (getBlock s blk) b' P) :
    BlkStep s.B (getBlock s k) (getBlock (setBlock s blk b') k) P := by
  rw [getBlock_setBlock]
  split
  · rename_i hc; obtain ⟨rfl, _⟩ := hc; exact h rfl
  · exact BlkStep.same rfl rfl

theorem blkStep_append (s : Sys) (nb : Block) (tl : Option Nat) (k : Nat) (P : Prop)
    (h : nb.cells = [] ∧ nb.write = 0) :
    BlkStep s.B (getBlock s k) (getBlock { s with blocks := s.blocks ++ [nb], tail := tl } k) P := by
  rw [getBlock_append]
  by_cases h1 : k < s.blocks.length
  · simp only [h1, if_true]; exact BlkStep.same rfl rfl
  · have hk : getBlock s k = newBlock := getBlock_of_ge s k (by omega)
    simp only [h1, if_false, hk]
    split
    · exact BlkStep.same (by rw [h.1]; rfl) (by rw [h.2]; rfl)
    · exact BlkStep.same rfl rfl

theorem stepThread_blk (s : Sys) (t : Thread) (k : Nat) :
    BlkStep s.B (getBlock s k) (getBlock (stepThread s t).1 k) (∃ r, t.pc = .pClaim k r) := by
  unfold stepThread
  cases hp : t.pc with
  | pCasFirst =>
    simp only
    split
    · exact blkStep_append s newBlock _ k _ ⟨rfl, rfl⟩
    · exact BlkStep.same rfl rfl
  | pClaim blk r =>
    simp only
    by_cases hlt : (getBlock s blk).write < s.B
    · simp only [hlt, if_true]
      refine blkStep_setBlock _ _ _ _ _ (fun e => Or.inr (Or.inl ⟨⟨r, by rw [e]⟩, hlt, rfl, _, rfl⟩))
    · simp only [hlt, if_false]
      split <;> exact blkStep_setBlock _ _ _ _ _ (fun _ => Or.inl ⟨rfl, Or.inr ⟨by omega, rfl⟩⟩)
  | pPublish blk idx =>
    simp only
    exact blkStep_setBlock _ _ _ _ _ (fun _ => Or.inr (Or.inr ⟨rfl, idx, rfl⟩))
  | pCasNew old =>
    simp only
    split
    · exact blkStep_append s { newBlock with next := some old } _ k _ ⟨rfl, rfl⟩
    · exact BlkStep.same rfl rfl
  | start => exact BlkStep.same rfl rfl
  | done => exact BlkStep.same rfl rfl
  | pLoadTail => simp only; split <;> exact BlkStep.same rfl rfl
  | dLoadTail => simp only; split <;> exact BlkStep.same rfl rfl
  | dQuiesced blk => exact BlkStep.same rfl rfl
  | dWait blk => exact BlkStep.same rfl rfl
  | dRead blk => exact BlkStep.same rfl rfl
  | dNext blk => simp only; split <;> exact BlkStep.same rfl rfl
  | cLoadTail => simp only; split <;> exact BlkStep.same rfl rfl
  | cCas old => simp only; split <;> exact BlkStep.same rfl rfl
  | cQuiesced blk => exact BlkStep.same rfl rfl
  | cWait blk => exact BlkStep.same rfl rfl
  | cRead blk => exact BlkStep.same rfl rfl
  | cNext blk => simp only; split <;> exact BlkStep.same rfl rfl
  | eLoadTail => simp only; split <;> exact BlkStep.same rfl rfl
  | eLen blk => exact BlkStep.same rfl rfl

theorem step_B (s : Sys) (tid : Nat) : (step s tid).B = s.B := by
  cases hg : s.threads[tid]? with
  | none => unfold step; rw [hg]
  | some t => rw [step_eq s tid t hg]

theorem step_getBlock (s : Sys) (tid : Nat) (t : Thread) (hg : s.threads[tid]? = some t) (k : Nat) :
    getBlock (step s tid) k = getBlock (stepThread s t).1 k := by
  rw [step_eq s tid t hg]; rfl

/-- one step of the system, seen from block `k`: unless the stepping thread claims a free slot of `k`, the cells of
    `k` keep their values and the claim counter moves only when the block is already full -/
theorem step_blk (s : Sys) (tid k : Nat) :
    BlkStep s.B (getBlock s k) (getBlock (step s tid) k)
      (∃ t r, s.threads[tid]? = some t ∧ t.pc = .pClaim k r) := by
  cases hg : s.threads[tid]? with
  | none =>
    have : step s tid = s := by unfold step; rw [hg]
    rw [this]; exact BlkStep.same rfl rfl
  | some t =>
    rw [step_getBlock s tid t hg]
    rcases stepThread_blk s t k with h | ⟨⟨r, hr⟩, h⟩ | h
    · exact Or.inl h
    · exact Or.inr (Or.inl ⟨⟨t, r, rfl, hr⟩, h⟩)
    · exact Or.inr (Or.inr h)

theorem k1_of_claim (s : Sys) (own : Nat → Owner) (tid k : Nat) (hno : k1Step s own tid = false)
    (hown : own k ≠ .live) :
    ¬ ((∃ t r, s.threads[tid]? = some t ∧ t.pc = .pClaim k r) ∧ (getBlock s k).write < s.B) := by
  rintro ⟨⟨t, r, hg, hp⟩, hw⟩
  unfold k1Step at hno
  rw [hg] at hno
  simp only [hp, k1PC, hw, decide_true, hown, decide_false, Bool.not_false, Bool.and_self] at hno
  cases hno

theorem BlkStep.cnt_eq {B : Nat} {b b' : Block} {P : Prop} (h : BlkStep B b b' P) (hn : ¬ (P ∧ b.write < B)) (v : Nat) :
    cnt v b' = cnt v b := by
  rcases h with ⟨h, _⟩ | ⟨hp, hw, _⟩ | ⟨_, i, h⟩
  · unfold cnt; rw [h]
  · exact absurd ⟨hp, hw⟩ hn
  · unfold cnt; rw [h, publishCell_vals]

theorem BlkStep.quiesced {B : Nat} {b b' : Block} {P : Prop} (h : BlkStep B b b' P) (hn : ¬ (P ∧ b.write < B))
    (hl : b.cells.length = min b.write B) (hq : b.quiesced B = true) : b'.quiesced B = true := by
  simp only [Block.quiesced, Block.len, Bool.or_eq_true, beq_iff_eq] at hq ⊢
  rcases h with ⟨hc, hw⟩ | ⟨hp, hw, _⟩ | ⟨hw, i, hc⟩
  · rw [hc]
    rcases hw with hw | ⟨h1, hw⟩
    · rw [hw]; exact hq
    · rw [hw]; omega
  · exact absurd ⟨hp, hw⟩ hn
  · rw [hc, hw]
    have h1 := (takeWhile_prefix_publish b.cells i).length_le
    have h2 := (List.takeWhile_sublist Cell.isPub (l := publishCell b.cells i)).length_le
    rw [publishCell_length] at h2
    omega

/-! ### sums over blocks by owner -/

def isDet : Owner → Bool
  | .det _ => true
  | _ => false

/-- cells holding `v` in the blocks a running clear has detached and not yet read -/
def dsum (v : Nat) (own : Nat → Owner) : List Block → Nat → Nat
  | [], _ => 0
  | b :: bs, k => (if isDet (own k) = true then cnt v b else 0) + dsum v own bs (k + 1)

/-- every block has exactly one owner: claimed cells = read + live + detached -/
theorem csum_partition (v : Nat) (own : Nat → Owner) : ∀ (bs : List Block) (k : Nat),
    csum v bs = rsum v own bs k + lsum v own bs k + dsum v own bs k := by
  intro bs
  induction bs with
  | nil => intro k; simp [rsum, lsum, dsum, csum]
  | cons b bs ih =>
    intro k
    have := ih (k + 1)
    simp only [rsum, lsum, dsum, csum, List.map_cons, List.sum_cons] at this ⊢
    cases h : own k <;> simp [isDet] <;> omega

theorem dsum_zero (v : Nat) (own : Nat → Owner) : ∀ (bs : List Block) (k : Nat),
    (∀ i, k ≤ i → i < k + bs.length → isDet (own i) = false) → dsum v own bs k = 0 := by
  intro bs
  induction bs with
  | nil => intro k _; rfl
  | cons b bs ih =>
    intro k h
    have h0 := h k (Nat.le_refl _) (by simp)
    have := ih (k + 1) (fun i h1 h2 => h i (by omega) (by simp only [List.length_cons]; omega))
    simp only [dsum, h0, this]; simp

theorem lsum_zero (v : Nat) (own : Nat → Owner) : ∀ (bs : List Block) (k : Nat),
    (∀ i, k ≤ i → i < k + bs.length → own i ≠ .live) → lsum v own bs k = 0 := by
  intro bs
  induction bs with
  | nil => intro k _; rfl
  | cons b bs ih =>
    intro k h
    have h0 := h k (Nat.le_refl _) (by simp)
    have := ih (k + 1) (fun i h1 h2 => h i (by omega) (by simp only [List.length_cons]; omega))
    simp only [lsum, h0, this, if_false]

theorem rsum_append_one (v : Nat) (own : Nat → Owner) (b : Block) : ∀ (bs : List Block) (k : Nat),
    rsum v own (bs ++ [b]) k = rsum v own bs k + (if own (k + bs.length) = .read then cnt v b else 0) := by
  intro bs
  induction bs with
  | nil => intro k; simp [rsum]
  | cons x xs ih =>
    intro k
    simp only [List.cons_append, rsum, ih (k + 1), List.length_cons]
    have : k + 1 + xs.length = k + (xs.length + 1) := by omega
    rw [this]; omega

/-- same `read` marks, same values in the blocks marked `read`: same sum -/
theorem rsum_congr (v : Nat) (own own' : Nat → Owner) : ∀ (bs bs' : List Block) (k : Nat),
    bs'.length = bs.length →
    (∀ (i : Nat) (b b' : Block), bs[i]? = some b → bs'[i]? = some b' →
      (own (k + i) = .read ↔ own' (k + i) = .read) ∧ (own (k + i) = .read → cnt v b' = cnt v b)) →
    rsum v own' bs' k = rsum v own bs k := by
  intro bs
  induction bs with
  | nil =>
    intro bs' k hl _
    have : bs' = [] := List.eq_nil_of_length_eq_zero hl
    rw [this]; rfl
  | cons b bs ih =>
    intro bs' k hl h
    cases bs' with
    | nil => simp at hl
    | cons b' bs' =>
      obtain ⟨h1, h2⟩ := h 0 b b' rfl rfl
      simp only [Nat.add_zero] at h1 h2
      have hrest := ih bs' (k + 1) (by simpa using hl) (by
        intro i c c' hc hc'
        have := h (i + 1) c c' (by simpa using hc) (by simpa using hc')
        have e : k + (i + 1) = k + 1 + i := by omega
        rw [e] at this; exact this)
      simp only [rsum, hrest]
      by_cases hr : own k = .read
      · simp only [hr, h1.mp hr, if_true, h2 hr]
      · have : ¬ own' k = .read := fun c => hr (h1.mpr c)
        simp only [hr, this, if_false]

/-- marking block `blk` as `read` adds exactly its cells -/
theorem rsum_mark (v : Nat) (own : Nat → Owner) (blk : Nat) (hne : own blk ≠ .read) : ∀ (bs : List Block) (k : Nat),
    rsum v (fun i => if i = blk then .read else own i) bs k
      = rsum v own bs k + (if k ≤ blk then ((bs[blk - k]?).map (cnt v)).getD 0 else 0) := by
  intro bs
  induction bs with
  | nil => intro k; simp [rsum]
  | cons b bs ih =>
    intro k
    simp only [rsum, ih (k + 1)]
    by_cases h1 : k = blk
    · subst h1
      have : ¬ (k + 1 ≤ k) := by omega
      simp [hne, this]; omega
    · by_cases h2 : k < blk
      · have e : blk - k = (blk - (k + 1)) + 1 := by omega
        have h3 : k + 1 ≤ blk := h2
        have h4 : k ≤ blk := by omega
        simp only [h1, if_false, h3, h4, if_true, e, List.getElem?_cons_succ]
        omega
      · have h3 : ¬ (k + 1 ≤ blk) := by omega
        have h4 : ¬ (k ≤ blk) := by omega
        simp only [h1, if_false, h3, h4]
        omega

/-! ### the conservation invariant of runs without K1 steps -/

theorem startPC_ne_cRead (calls : List Call) (blk : Nat) : startPC calls ≠ .cRead blk := by
  intro h
  have := claim_startPC calls
  rw [h] at this; cases this

/-- a clearer arrives at its read step only from a quiescence check that succeeded in the same state -/
theorem stepThread_cRead (s : Sys) (t : Thread) (blk : Nat) (h : (stepThread s t).2.pc = .cRead blk) :
    (getBlock s blk).quiesced s.B = true ∧ (stepThread s t).1 = s := by
  have adv : ∀ r, (t.advance r).pc ≠ .cRead blk := fun r => startPC_ne_cRead _ _
  unfold stepThread at h ⊢
  cases hp : t.pc with
  | cQuiesced b =>
    rw [hp] at h; simp only at h ⊢
    by_cases hq : (getBlock s b).quiesced s.B = true
    · simp [hq] at h; subst h; exact ⟨hq, trivial⟩
    · simp [hq] at h
  | cWait b =>
    rw [hp] at h; simp only at h ⊢
    by_cases hq : (getBlock s b).quiesced s.B = true
    · simp [hq] at h; subst h; exact ⟨hq, trivial⟩
    · simp [hq] at h
  | start => rw [hp] at h; exact absurd h (startPC_ne_cRead _ _)
  | done => rw [hp] at h; simp [hp] at h
  | pLoadTail => rw [hp] at h; simp only at h; split at h <;> simp at h
  | pCasFirst => rw [hp] at h; simp only at h; split at h <;> simp at h
  | pClaim b r =>
    rw [hp] at h; simp only at h
    split at h
    · simp at h
    · split at h <;> simp at h
  | pPublish b i => rw [hp] at h; exact absurd h (adv _)
  | pCasNew old => rw [hp] at h; simp only at h; split at h <;> simp at h
  | dLoadTail =>
    rw [hp] at h; simp only at h
    split at h
    · exact absurd h (adv _)
    · simp at h
  | dQuiesced b => rw [hp] at h; simp only at h; split at h <;> simp at h
  | dWait b => rw [hp] at h; simp only at h; split at h <;> simp at h
  | dRead b => rw [hp] at h; simp at h
  | dNext b =>
    rw [hp] at h; simp only at h
    split at h
    · exact absurd h (adv _)
    · simp at h
  | cLoadTail =>
    rw [hp] at h; simp only at h
    split at h
    · exact absurd h (adv _)
    · simp at h
  | cCas old =>
    rw [hp] at h; simp only at h
    split at h
    · simp at h
    · simp at h
  | cRead b => rw [hp] at h; simp at h
  | cNext b =>
    rw [hp] at h; simp only at h
    split at h
    · exact absurd h (adv _)
    · simp at h
  | eLoadTail =>
    rw [hp] at h; simp only at h
    split at h
    · exact absurd h (adv _)
    · simp at h
  | eLen b => rw [hp] at h; exact absurd h (adv _)

theorem gownT_det (s : Sys) (t : Thread) (tid : Nat) (own : Nat → Owner) (i u : Nat)
    (h : gownT s t tid own i = .det u) : own i = .det u ∨ u = tid := by
  unfold gownT at h
  cases hp : t.pc with
  | cCas old =>
    rw [hp] at h; simp only at h
    split at h
    · simp only at h
      split at h
      · injection h with e; exact Or.inr e.symm
      · exact Or.inl h
    · exact Or.inl h
  | cRead blk =>
    rw [hp] at h; simp only at h
    split at h
    · cases h
    · exact Or.inl h
  | _ => rw [hp] at h; exact Or.inl h

/-- in runs without K1 steps: a clearer at its read step has a quiesced block in front of it; what clears were
    handed is EXACTLY the cells of the blocks marked `read`; every `det` mark belongs to an existing thread -/
structure KInv (s : Sys) (own : Nat → Owner) : Prop where
  rdq : ∀ (tid : Nat) (t : Thread) (blk : Nat), s.threads[tid]? = some t → t.pc = .cRead blk →
      (getBlock s blk).quiesced s.B = true
  eq : ∀ v, Dsum v s = rsum v own s.blocks 0
  detex : ∀ (i tid : Nat), own i = .det tid → tid < s.threads.length

theorem kstep_inv (s : Sys) (own : Nat → Owner) (tid : Nat) (h : GInv s own) (ha : GAcc s own) (hk : KInv s own)
    (hno : k1Step s own tid = false) : KInv (step s tid) (gown s own tid) := by
  cases hg : s.threads[tid]? with
  | none =>
    have e1 : step s tid = s := by unfold step; rw [hg]
    have e2 : gown s own tid = own := by unfold gown; rw [hg]
    rw [e1, e2]; exact hk
  | some t =>
    have hcl := h.base.inv.cells_len
    have hblk := fun k => step_blk s tid k
    have hnk := fun k (hown : own k ≠ .live) => k1_of_claim s own tid k hno hown
    have e2 : gown s own tid = gownT s t tid own := by unfold gown; rw [hg]
    refine ⟨?_, ?_, ?_⟩
    · intro j u blk hu hpu
      rw [step_B]
      rw [(step_threads s tid t hg).1] at hu
      rcases threads_after hg j u hu with ⟨_, rfl⟩ | ⟨hj, hu'⟩
      · obtain ⟨hq, hs⟩ := stepThread_cRead s t blk hpu
        rw [step_getBlock s tid t hg, hs]; exact hq
      · have hq := hk.rdq j u blk hu' hpu
        have hc := h.clr j u hu'
        rw [hpu] at hc
        obtain ⟨hlt, bt, hbt, hr, _⟩ := hc
        have hown : own blk = .det j := (hr blk).mpr ⟨hbt, Or.inr ⟨rfl, rfl⟩⟩
        have hb : s.blocks[blk]? = some s.blocks[blk] := List.getElem?_eq_getElem hlt
        refine (hblk blk).quiesced (hnk blk (by rw [hown]; intro c; cases c)) ?_ hq
        rw [getBlock_eq hb]; exact hcl blk _ hb
    · intro v
      have hstep := step_eq s tid t hg
      have hcnt : ∀ (k : Nat) (b b' : Block), s.blocks[k]? = some b → (stepThread s t).1.blocks[k]? = some b' →
          own k ≠ .live → cnt v b' = cnt v b := by
        intro k b b' hb hb' hown
        have := (hblk k).cnt_eq (hnk k hown) v
        rw [getBlock_eq hb, step_getBlock s tid t hg, getBlock_eq hb'] at this
        exact this
      rw [hstep, e2]
      have eff := stepThread_geff s t
      generalize (stepThread s t).1.blocks = bs' at eff hcnt ⊢
      generalize (stepThread s t).1.tail = tl' at eff ⊢
      generalize (stepThread s t).2 = t' at eff ⊢
      have heq := hk.eq v
      have hD := sum_map_setAt (fun t => (dl t).count v) s.threads tid t' t hg
      show ((setAt s.threads tid t').map (fun t => (dl t).count v)).sum = _
      simp only [Dsum] at heq
      have hct := h.clr tid t hg
      have hanT := ha.accnil tid t hg
      cases eff with
      | quiet bs' t' hsim hcl' hgo hdl =>
        rw [hgo]
        have hr := rsum_congr v own own s.blocks bs' 0 hsim.1 (fun i b b' hb hb' =>
          ⟨Iff.rfl, fun hr => hcnt i b b' hb hb' (by rw [Nat.zero_add] at hr; rw [hr]; intro c; cases c)⟩)
        have := hdl v
        try simp only at hD ⊢
        omega
      | append nb t' hcells hc0 hc1 hgo hdl hnb =>
        rw [hgo]
        have hr := rsum_append_one v own nb s.blocks 0
        have hz : cnt v nb = 0 := by simp [cnt, hcells]
        rw [hz] at hr
        simp only [ite_self] at hr
        have := hdl v
        try simp only at hD ⊢
        omega
      | detach old hp ht =>
        have hgo : gownT s t tid own = fun i => if i < s.blocks.length ∧ own i = .live then .det tid else own i := by
          unfold gownT; rw [hp]; simp only [ht, if_true]
        rw [hgo]
        have hiff : ∀ j, own j = .read ↔
            (if j < s.blocks.length ∧ own j = .live then Owner.det tid else own j) = .read := by
          intro j
          by_cases hc : j < s.blocks.length ∧ own j = .live
          · rw [if_pos hc]
            constructor
            · intro e; rw [hc.2] at e; cases e
            · intro e; cases e
          · rw [if_neg hc]
        have hr := rsum_congr v own (fun i => if i < s.blocks.length ∧ own i = .live then .det tid else own i)
          s.blocks s.blocks 0 rfl
          (fun i b b' hb hb' => ⟨hiff _, fun _ => by rw [hb] at hb'; injection hb' with e; rw [e]⟩)
        have hacc : t.acc = [] := hanT (by rw [hp]; rfl)
        have e : (dl { t with pc := PC.cQuiesced old }).count v = (dl t).count v := by
          simp [dl, hp, claim, hacc]
        try simp only at hD ⊢
        omega
      | read blk hp =>
        have hgo : gownT s t tid own = fun i => if i = blk then .read else own i := by
          unfold gownT; rw [hp]
        rw [hgo]
        rw [hp] at hct
        obtain ⟨hlt, bt, hbt, hr, hseg⟩ := hct
        have hown_blk : own blk = .det tid := (hr blk).mpr ⟨hbt, Or.inr ⟨rfl, rfl⟩⟩
        have hb : s.blocks[blk]? = some s.blocks[blk] := List.getElem?_eq_getElem hlt
        have hm := rsum_mark v own blk (by rw [hown_blk]; intro c; cases c) s.blocks 0
        simp only [Nat.zero_le, if_true, Nat.sub_zero, hb, Option.map_some, Option.getD_some] at hm
        have hq := hk.rdq tid t blk hg hp
        rw [getBlock_eq hb] at hq
        have hd : (s.blocks[blk]).data.count v = cnt v s.blocks[blk] := by
          rw [quiesced_data_all s.B _ (hcl blk _ hb) hq]; rfl
        have e : (dl { t with acc := t.acc ++ (getBlock s blk).data, pc := PC.cNext blk }).count v
            = (dl t).count v + (s.blocks[blk]).data.count v := by
          rw [getBlock_eq hb]
          simp [dl, hp, claim, List.count_append]; omega
        try simp only at hD ⊢
        omega
      | nextNone blk hp hn =>
        have hgo : gownT s t tid own = own := by unfold gownT; rw [hp]
        rw [hgo]
        have e : (dl (t.advance (.cleared t.acc))).count v = (dl t).count v := by
          rw [dl_advance]; simp [dl, hp, claim, clearedVals, List.count_append]
        try simp only at hD ⊢
        omega
      | nextSome blk n hp hn =>
        have hgo : gownT s t tid own = own := by unfold gownT; rw [hp]
        rw [hgo]
        have e : (dl { t with pc := PC.cQuiesced n }).count v = (dl t).count v := by
          simp [dl, hp, claim]
        try simp only at hD ⊢
        omega
    · intro i u hiu
      rw [(step_threads s tid t hg).1, setAt_length]
      rw [e2] at hiu
      rcases gownT_det s t tid own i u hiu with h1 | h1
      · exact hk.detex i u h1
      · rw [h1]; exact lt_of_getElem?_some hg

/-! ### every reachable state of a run without K1 steps -/

theorem init_kinv (B : Nat) (progs : List (List Call)) : KInv (init B progs) own0 := by
  refine ⟨?_, ?_, ?_⟩
  · intro tid t blk ht hp
    have hm : t ∈ (init B progs).threads := List.mem_of_getElem? ht
    simp only [init, List.mem_map] at hm
    obtain ⟨p, _, rfl⟩ := hm
    simp [mkThread] at hp
  · intro v
    have := (init_gacc B progs).le v
    simp only [init, rsum] at this ⊢
    omega
  · intro i tid h; cases h

theorem k1Step_false_of_count {s : Sys} {own : Nat → Owner} {t : Nat} {ts : List Nat}
    (hc : k1Count s own (t :: ts) = 0) : k1Step s own t = false ∧ k1Count (step s t) (gown s own t) ts = 0 := by
  simp only [k1Count] at hc
  cases hx : k1Step s own t with
  | false => rw [hx] at hc; simp at hc; exact ⟨rfl, hc⟩
  | true => rw [hx] at hc; simp at hc

theorem krun_inv (sched : List Nat) : ∀ s own, GInv s own → GAcc s own → KInv s own → k1Count s own sched = 0 →
    GInv (grun s own sched).1 (grun s own sched).2 ∧ GAcc (grun s own sched).1 (grun s own sched).2
      ∧ KInv (grun s own sched).1 (grun s own sched).2 := by
  induction sched with
  | nil => intro s own h ha hk _; exact ⟨h, ha, hk⟩
  | cons t ts ih =>
    intro s own h ha hk hc
    obtain ⟨hno, hc'⟩ := k1Step_false_of_count hc
    simp only [grun]
    exact ih _ _ (gstep_inv s own t h) (gstep_acc s own t h ha) (kstep_inv s own t h ha hk hno) hc'

/-! ### a finished thread has no calls left -/

def DoneNil (t : Thread) : Prop := t.pc = .done → t.calls = []

theorem startPC_done (calls : List Call) (h : startPC calls = .done) : calls = [] := by
  cases calls with
  | nil => rfl
  | cons c r => cases c <;> simp [startPC, pcOfCall] at h

theorem DoneNil_advance (t : Thread) (r : Res) : DoneNil (t.advance r) := fun e => startPC_done _ e

theorem donenil_step (s : Sys) (t : Thread) (h : DoneNil t) : DoneNil (stepThread s t).2 := by
  unfold stepThread
  cases hp : t.pc with
  | start => exact fun e => startPC_done _ e
  | done => exact h
  | pLoadTail => simp only; split <;> exact fun e => by simp at e
  | pCasFirst => simp only; split <;> exact fun e => by simp at e
  | pClaim blk r =>
    simp only
    split
    · exact fun e => by simp at e
    · split <;> exact fun e => by simp at e
  | pPublish blk idx => exact DoneNil_advance _ _
  | pCasNew old => simp only; split <;> exact fun e => by simp at e
  | dLoadTail =>
    simp only
    split
    · exact DoneNil_advance _ _
    · exact fun e => by simp at e
  | dQuiesced blk => simp only; exact fun e => by split at e <;> simp at e
  | dWait blk => simp only; exact fun e => by split at e <;> simp at e
  | dRead blk => exact fun e => by simp at e
  | dNext blk =>
    simp only
    split
    · exact DoneNil_advance _ _
    · exact fun e => by simp at e
  | cLoadTail =>
    simp only
    split
    · exact DoneNil_advance _ _
    · exact fun e => by simp at e
  | cCas old =>
    simp only
    split
    · exact fun e => by simp at e
    · exact fun e => by simp at e
  | cQuiesced blk => simp only; exact fun e => by split at e <;> simp at e
  | cWait blk => simp only; exact fun e => by split at e <;> simp at e
  | cRead blk => exact fun e => by simp at e
  | cNext blk =>
    simp only
    split
    · exact DoneNil_advance _ _
    · exact fun e => by simp at e
  | eLoadTail =>
    simp only
    split
    · exact DoneNil_advance _ _
    · exact fun e => by simp at e
  | eLen blk => exact DoneNil_advance _ _

def AllDoneNil (s : Sys) : Prop := ∀ (i : Nat) (t : Thread), s.threads[i]? = some t → DoneNil t

theorem donenil_sys_step (s : Sys) (tid : Nat) (h : AllDoneNil s) : AllDoneNil (step s tid) := by
  cases hg : s.threads[tid]? with
  | none => unfold step; rw [hg]; exact h
  | some t =>
    intro i u hu
    rw [(step_threads s tid t hg).1] at hu
    rcases threads_after hg i u hu with ⟨_, rfl⟩ | ⟨_, hu'⟩
    · exact donenil_step s t (h tid t hg)
    · exact h i u hu'

theorem donenil_run (sched : List Nat) : ∀ s, AllDoneNil s → AllDoneNil (run s sched) := by
  induction sched with
  | nil => intro s h; exact h
  | cons t ts ih => intro s h; exact ih _ (donenil_sys_step s t h)

theorem init_donenil (B : Nat) (progs : List (List Call)) : AllDoneNil (init B progs) := by
  intro i t ht
  have hm : t ∈ (init B progs).threads := List.mem_of_getElem? ht
  simp only [init, List.mem_map] at hm
  obtain ⟨p, _, rfl⟩ := hm
  intro e; simp [mkThread] at e

/-- at quiescence every thread has run its whole program -/
theorem calls_nil_of_quiescent (s : Sys) (h : AllDoneNil s) (hq : quiescent s = true) :
    ∀ t ∈ s.threads, t.pc = .done ∧ t.calls = [] := by
  simp only [quiescent, List.all_eq_true, beq_iff_eq] at hq
  intro t ht
  obtain ⟨i, hi⟩ := List.getElem?_of_mem ht
  exact ⟨hq t ht, h i t hi (hq t ht)⟩

theorem todoSum_zero_of_done (s : Sys) (h : AllDoneNil s) (hq : quiescent s = true) (v : Nat) : todoSum v s = 0 := by
  have : ∀ (l : List Thread), (∀ t ∈ l, t.pc = .done ∧ t.calls = []) → (l.map (todo v)).sum = 0 := by
    intro l; induction l with
    | nil => intro _; rfl
    | cons x xs ih =>
      intro hl
      simp only [List.map_cons, List.sum_cons, ih (fun t ht => hl t (by simp [ht]))]
      have := hl x (by simp)
      simp [todo, this.1, this.2]
  exact this _ (calls_nil_of_quiescent s h hq)

/-! ### the three parts at quiescence -/

theorem Dsum_of_quiescent (s : Sys) (hq : quiescent s = true) (v : Nat) : Dsum v s = (delivered s).count v := by
  have hd : delivered s = s.threads.flatMap (fun t => t.results.flatMap clearedVals) := by
    unfold delivered
    congr 1
  simp only [quiescent, List.all_eq_true, beq_iff_eq] at hq
  rw [hd]
  unfold Dsum
  have : ∀ l : List Thread, (∀ t ∈ l, t.pc = .done) →
      (l.map (fun t => (dl t).count v)).sum = (l.flatMap (fun t => t.results.flatMap clearedVals)).count v := by
    intro l
    induction l with
    | nil => intro _; rfl
    | cons x xs ih =>
      intro hl
      have hx := hl x (by simp)
      simp only [List.map_cons, List.sum_cons, List.flatMap_cons, List.count_append,
        ih (fun t ht => hl t (by simp [ht]))]
      simp [dl, hx, claim]
  exact this _ hq

/-- walking the chain down from block `lo + n`: when nothing is unpublished and exactly the blocks `lo ..= lo + n` of
    the first `lo + n + 1` are live, the walk hands out exactly the live cells -/
theorem chain_eq_lsum (s : Sys) (own : Nat → Owner) (v : Nat) (lo : Nat)
    (nowr : ∀ b ∈ s.blocks, wcount b.cells = 0) (hlow : ∀ i, i < lo → own i ≠ .live) : ∀ (n fuel : Nat), n < fuel →
    lo + n < s.blocks.length → Seg s.blocks lo (lo + n) → (∀ i, lo ≤ i → i ≤ lo + n → own i = .live) →
    (chainData s fuel (some (lo + n))).count v = lsum v own (s.blocks.take (lo + n + 1)) 0 := by
  intro n
  induction n with
  | zero =>
    intro fuel hf hlt hseg hl
    have hlt0 : lo < s.blocks.length := hlt
    have hb : s.blocks[lo]? = some s.blocks[lo] := List.getElem?_eq_getElem hlt0
    have hnx : (s.blocks[lo]).next = none := by
      have := hseg.1; rw [nextAt_getBlock hlt0, getBlock_eq hb] at this; injection this
    have hz : lsum v own (s.blocks.take lo) 0 = 0 :=
      lsum_zero v own _ 0 (fun i _ h2 => hlow i (by simp only [List.length_take] at h2; omega))
    rw [Nat.add_zero, lsum_take_succ v own s.blocks lo _ hb, if_pos (hl lo (Nat.le_refl _) (by omega)), hz]
    cases fuel with
    | zero => omega
    | succ f =>
      have hd := data_of_no_written _ (nowr _ (List.mem_of_getElem? hb))
      have : chainData s f none = [] := by cases f <;> rfl
      simp only [chainData, getBlock_eq hb, hnx, this, List.append_nil, hd, Nat.zero_add]
      rfl
  | succ n ih =>
    intro fuel hf hlt hseg hl
    have hlt' : lo + (n + 1) < s.blocks.length := hlt
    have hb : s.blocks[lo + (n + 1)]? = some s.blocks[lo + (n + 1)] := List.getElem?_eq_getElem hlt'
    have hnx : (s.blocks[lo + (n + 1)]).next = some (lo + n) := by
      have := hseg.2 (lo + (n + 1)) (by omega) (Nat.le_refl _)
      rw [nextAt_getBlock hlt', getBlock_eq hb] at this
      injection this
    rw [lsum_take_succ v own s.blocks (lo + (n + 1)) _ hb, if_pos (hl _ (by omega) (Nat.le_refl _))]
    cases fuel with
    | zero => omega
    | succ f =>
      have hd := data_of_no_written _ (nowr _ (List.mem_of_getElem? hb))
      have hrec := ih f (by omega) (by omega) ⟨hseg.1, fun i h1 h2 => hseg.2 i h1 (by omega)⟩
        (fun i h1 h2 => hl i h1 (by omega))
      simp only [chainData, getBlock_eq hb, hnx, List.count_append, hd]
      have e : lo + n + 1 = lo + (n + 1) := by omega
      rw [e] at hrec
      rw [hrec]
      unfold cnt
      omega

theorem visible_eq_lsum (s : Sys) (own : Nat → Owner) (hg : GInv s own) (nowr : ∀ b ∈ s.blocks, wcount b.cells = 0)
    (v : Nat) : (visible s).count v = lsum v own s.blocks 0 := by
  obtain ⟨lb, hlb, hlive, htn, hts⟩ := hg.live
  unfold visible
  cases ht : s.tail with
  | none =>
    have : chainData s s.blocks.length none = [] := by cases s.blocks.length <;> rfl
    rw [this]
    have hl := htn ht
    rw [lsum_zero v own s.blocks 0 (fun i _ h2 hc => by have := (hlive i).mp hc; omega)]
    rfl
  | some b =>
    obtain ⟨h4, hseg⟩ := hts b ht
    have hbl := hg.base.inv.tail_valid b ht
    obtain ⟨n, rfl⟩ : ∃ n, b = lb + n := ⟨b - lb, by omega⟩
    have := chain_eq_lsum s own v lb nowr (fun i hi hc => by have := (hlive i).mp hc; omega) n s.blocks.length
      (by omega) (by omega) hseg (fun i h _ => (hlive i).mpr h)
    rw [hbl, List.take_length] at this
    exact this

/-- **conservation without K1** (count form, on the ghost-carrying run): in a run of ANY programs whose schedule
    contains no K1 step, at quiescence every value has been delivered to clears plus is visible to a snapshot exactly
    as often as it was pushed -/
theorem conserved_of_noK1 (B : Nat) (progs : List (List Call)) (sched : List Nat)
    (hk : k1Count (init B progs) own0 sched = 0) (hq : quiescent (run (init B progs) sched) = true) (v : Nat) :
    (delivered (run (init B progs) sched)).count v + (visible (run (init B progs) sched)).count v
      = progs.flatten.count (.push v) := by
  obtain ⟨hg, _, hkv⟩ := krun_inv sched _ _ (init_ginv B progs) (init_gacc B progs) (init_kinv B progs) hk
  rw [grun_fst] at hg hkv
  have hvals := arun_vals v sched _ (init_ainv2 B progs)
  rw [todoSum_init] at hvals
  have hc0 : cellsCount v (init B progs) = 0 := by simp [cellsCount, init]
  rw [hc0] at hvals
  have hdn := donenil_run sched _ (init_donenil B progs)
  generalize (grun (init B progs) own0 sched).2 = own at hg hkv
  generalize run (init B progs) sched = s at hg hkv hvals hdn hq ⊢
  have htodo := todoSum_zero_of_done s hdn hq v
  have hp0 := pSum_zero_of_quiescent s hq
  have hw0 : wSum s = 0 := by rw [hg.base.inv.wp, hp0]
  have nowr : ∀ b ∈ s.blocks, wcount b.cells = 0 := sum_zero_all (fun (b : Block) => wcount b.cells) s.blocks hw0
  have hvis := visible_eq_lsum s own hg nowr v
  have hdl := Dsum_of_quiescent s hq v
  have hpart := csum_partition v own s.blocks 0
  have hdet : dsum v own s.blocks 0 = 0 := by
    apply dsum_zero
    intro i _ _
    cases ho : own i with
    | live => rfl
    | read => rfl
    | det u =>
      exfalso
      have hlt := hkv.detex i u ho
      have hu : s.threads[u]? = some s.threads[u] := List.getElem?_eq_getElem hlt
      have hpc := (calls_nil_of_quiescent s hdn hq _ (List.mem_of_getElem? hu)).1
      have hc := hg.clr u _ hu
      rw [hpc] at hc
      exact hc i ho
  have heq := hkv.eq v
  rw [cellsCount_eq] at hvals
  omega

/-! ### programs without clears never take a K1 step -/

theorem k1Step_own0 (s : Sys) (tid : Nat) : k1Step s own0 tid = false := by
  unfold k1Step
  cases s.threads[tid]? with
  | none => rfl
  | some t => simp only; cases t.pc <;> simp [k1PC, own0]

theorem gown_own0_of_noclear (s : Sys) (tid : Nat) (h : CInv s) : gown s own0 tid = own0 := by
  unfold gown
  cases hg : s.threads[tid]? with
  | none => rfl
  | some t =>
    have hn := (h.thr tid t hg).2
    simp only
    unfold gownT
    cases hp : t.pc <;> first | rfl | (rw [hp] at hn; simp [isClearPC] at hn)

theorem k1Count_noclear (sched : List Nat) : ∀ s, CInv s → k1Count s own0 sched = 0 := by
  induction sched with
  | nil => intro s _; rfl
  | cons t ts ih =>
    intro s h
    simp only [k1Count, k1Step_own0, gown_own0_of_noclear s t h, ih _ (cstep s t h)]
    simp

theorem grun_own0_noclear (sched : List Nat) : ∀ s, CInv s → (grun s own0 sched).2 = own0 := by
  induction sched with
  | nil => intro s _; rfl
  | cons t ts ih =>
    intro s h
    simp only [grun, gown_own0_of_noclear s t h]
    exact ih _ (cstep s t h)

theorem rsum_zero (v : Nat) (own : Nat → Owner) (h : ∀ i, own i ≠ .read) : ∀ (bs : List Block) (k : Nat),
    rsum v own bs k = 0 := by
  intro bs
  induction bs with
  | nil => intro k; rfl
  | cons b bs ih => intro k; simp only [rsum, h k, if_false, ih (k + 1)]

/-- without clears nothing is ever delivered -/
theorem delivered_zero_noclear (B : Nat) (progs : List (List Call)) (hnc : ∀ p ∈ progs, Call.clear ∉ p)
    (sched : List Nat) (v : Nat) : (delivered (run (init B progs) sched)).count v = 0 := by
  obtain ⟨_, ha⟩ := grun_inv sched _ _ (init_ginv B progs) (init_gacc B progs)
  rw [grun_fst, grun_own0_noclear sched _ (init_cinv B progs hnc)] at ha
  have h1 := delivered_count_le_Dsum (run (init B progs) sched) v
  have h2 := ha.le v
  rw [rsum_zero v own0 (fun i c => by cases c)] at h2
  omega

/-! ### what K1 means in terms of the state alone, and of the trace

`live` (ghost) = reachable from the tail through `next` (state).  A thread arrives at `pClaim blk` only in a state
whose tail is `blk`; a block stops being live only in a clear's successful detach CAS.  So a K1 step is exactly a
slot claim with a clear's detach step between the pusher's tail load / installing CAS and the claim. -/

/-- ids of the blocks a walk from `start` through `next` visits (same recursion as `chainData`) -/
def chainIds (s : Sys) : Nat → Option Nat → List Nat
  | 0, _ => []
  | _, none => []
  | fuel + 1, some i => i :: chainIds s fuel (getBlock s i).next

/-- block `blk` is reachable from the tail -/
def onChain (s : Sys) (blk : Nat) : Bool := (chainIds s s.blocks.length s.tail).contains blk

theorem chainIds_seg (s : Sys) (lo : Nat) : ∀ (n fuel : Nat), n < fuel → lo + n < s.blocks.length →
    Seg s.blocks lo (lo + n) → ∀ i, i ∈ chainIds s fuel (some (lo + n)) ↔ (lo ≤ i ∧ i ≤ lo + n) := by
  intro n
  induction n with
  | zero =>
    intro fuel hf hlt hseg i
    have hlt0 : lo < s.blocks.length := hlt
    have hnx : (getBlock s lo).next = none := by
      have := hseg.1; rw [nextAt_getBlock hlt0] at this; injection this
    cases fuel with
    | zero => omega
    | succ f =>
      have : chainIds s f none = [] := by cases f <;> rfl
      simp only [Nat.add_zero, chainIds, hnx, this, List.mem_singleton]
      omega
  | succ n ih =>
    intro fuel hf hlt hseg i
    have hlt' : lo + (n + 1) < s.blocks.length := hlt
    have hnx : (getBlock s (lo + (n + 1))).next = some (lo + n) := by
      have := hseg.2 (lo + (n + 1)) (by omega) (Nat.le_refl _)
      rw [nextAt_getBlock hlt'] at this
      injection this
    cases fuel with
    | zero => omega
    | succ f =>
      have hrec := ih f (by omega) (by omega) ⟨hseg.1, fun i h1 h2 => hseg.2 i h1 (by omega)⟩ i
      simp only [chainIds, hnx, List.mem_cons, hrec]
      omega

/-- the ghost mark `live` is exactly reachability from the tail -/
theorem live_iff_onChain {s : Sys} {own : Nat → Owner} (hg : GInv s own) (blk : Nat) (hlt : blk < s.blocks.length) :
    own blk = .live ↔ onChain s blk = true := by
  obtain ⟨lb, hlb, hlive, htn, hts⟩ := hg.live
  unfold onChain
  rw [hlive blk]
  cases ht : s.tail with
  | none =>
    have : chainIds s s.blocks.length none = [] := by cases s.blocks.length <;> rfl
    have hl := htn ht
    rw [this]; simp; omega
  | some b =>
    obtain ⟨h4, hseg⟩ := hts b ht
    have hbl := hg.base.inv.tail_valid b ht
    obtain ⟨n, rfl⟩ : ∃ n, b = lb + n := ⟨b - lb, by omega⟩
    have := chainIds_seg s lb n s.blocks.length (by omega) (by omega) hseg blk
    rw [List.contains_iff_mem, this]
    omega

/-- **K1, state form**: a K1 step is a step of a pusher parked at `blk.push.claim` that claims a free slot of a block
    which is not reachable from the tail any more -/
theorem k1Step_iff {s : Sys} {own : Nat → Owner} (hg : GInv s own) (tid : Nat) :
    k1Step s own tid = true ↔
      ∃ t blk r, s.threads[tid]? = some t ∧ t.pc = .pClaim blk r ∧ (getBlock s blk).write < s.B
        ∧ onChain s blk = false := by
  unfold k1Step
  cases hgt : s.threads[tid]? with
  | none => simp
  | some t =>
    simp only
    cases hp : t.pc with
    | pClaim blk r =>
      have hlt := (hg.base.inv.thr tid t hgt).claim_lt blk r hp
      have hl := live_iff_onChain hg blk hlt
      simp only [k1PC, Bool.and_eq_true, decide_eq_true_eq, Bool.not_eq_true', decide_eq_false_iff_not]
      constructor
      · intro ⟨h1, h2⟩
        refine ⟨t, blk, r, rfl, hp, h1, ?_⟩
        cases hc : onChain s blk with
        | false => rfl
        | true => exact absurd (hl.mpr hc) h2
      · intro ⟨t', blk', r', ht', hp', h1, h2⟩
        injection ht' with ht'; subst ht'
        rw [hp] at hp'; injection hp' with e1 e2; subst e1
        exact ⟨h1, fun hc => by rw [hl.mp hc] at h2; cases h2⟩
    | _ =>
      simp only [k1PC]
      constructor
      · intro h; cases h
      · intro ⟨t', blk', r', ht', hp', _⟩
        injection ht' with ht'; subst ht'
        rw [hp] at hp'; cases hp'

/-- a thread arrives at `blk.push.claim` for block `blk` only in a state whose tail IS `blk` (tail load, lost or won
    first-block CAS, won hand-over CAS) -/
theorem claim_target_is_tail (s : Sys) (t : Thread) (blk : Nat) (r : Bool)
    (h : (stepThread s t).2.pc = .pClaim blk r) : (stepThread s t).1.tail = some blk := by
  have hstart : ∀ calls, startPC calls ≠ .pClaim blk r := fun calls => (startPC_plain calls).1 blk r
  have adv : ∀ r', (t.advance r').pc ≠ .pClaim blk r := fun r' => hstart _
  unfold stepThread at h ⊢
  cases hp : t.pc with
  | pLoadTail =>
    rw [hp] at h; simp only at h ⊢
    split at h
    · simp at h
    · rename_i b hb; simp at h; rw [← h.1]; simp [hb]
  | pCasFirst =>
    rw [hp] at h; simp only at h ⊢
    split at h
    · rename_i hb; simp at h; simp [h.1]
    · rename_i b hb; simp at h; rw [← h.1]; simp [hb]
  | pCasNew old =>
    rw [hp] at h; simp only at h ⊢
    split at h
    · rename_i hb; simp at h; simp [hb, h.1]
    · simp at h
  | pClaim b r' =>
    rw [hp] at h; simp only at h
    split at h
    · simp at h
    · split at h <;> simp at h
  | start => rw [hp] at h; exact absurd h (hstart _)
  | done => rw [hp] at h; simp [hp] at h
  | pPublish b i => rw [hp] at h; exact absurd h (adv _)
  | dLoadTail =>
    rw [hp] at h; simp only at h
    split at h
    · exact absurd h (adv _)
    · simp at h
  | dQuiesced b => rw [hp] at h; simp only at h; split at h <;> simp at h
  | dWait b => rw [hp] at h; simp only at h; split at h <;> simp at h
  | dRead b => rw [hp] at h; simp at h
  | dNext b =>
    rw [hp] at h; simp only at h
    split at h
    · exact absurd h (adv _)
    · simp at h
  | cLoadTail =>
    rw [hp] at h; simp only at h
    split at h
    · exact absurd h (adv _)
    · simp at h
  | cCas old =>
    rw [hp] at h; simp only at h
    split at h
    · simp at h
    · simp at h
  | cQuiesced b => rw [hp] at h; simp only at h; split at h <;> simp at h
  | cWait b => rw [hp] at h; simp only at h; split at h <;> simp at h
  | cRead b => rw [hp] at h; simp at h
  | cNext b =>
    rw [hp] at h; simp only at h
    split at h
    · exact absurd h (adv _)
    · simp at h
  | eLoadTail =>
    rw [hp] at h; simp only at h
    split at h
    · exact absurd h (adv _)
    · simp at h
  | eLen b => rw [hp] at h; exact absurd h (adv _)

/-- thread `tid`'s next step is a clear's detach CAS that will succeed -/
def detachStep (s : Sys) (tid : Nat) : Prop := ∃ t old, s.threads[tid]? = some t ∧ t.pc = .cCas old ∧ s.tail = some old

/-- a block stops being live only in a clear's successful detach CAS -/
theorem live_lost_only_by_detach {s : Sys} {own : Nat → Owner} (hg : GInv s own) (tid blk : Nat)
    (h1 : own blk = .live) (h2 : gown s own tid blk ≠ .live) : detachStep s tid := by
  unfold gown at h2
  cases hgt : s.threads[tid]? with
  | none => rw [hgt] at h2; exact absurd h1 h2
  | some t =>
    rw [hgt] at h2
    simp only at h2
    unfold gownT at h2
    cases hp : t.pc with
    | cCas old =>
      rw [hp] at h2; simp only at h2
      by_cases ht : s.tail = some old
      · exact ⟨t, old, hgt, hp, ht⟩
      · rw [if_neg ht] at h2; exact absurd h1 h2
    | cRead b =>
      rw [hp] at h2; simp only at h2
      by_cases hb : blk = b
      · subst hb
        have hc := hg.clr tid t hgt
        rw [hp] at hc
        obtain ⟨_, bt, hbt, hr, _⟩ := hc
        have : own blk = .det tid := (hr blk).mpr ⟨hbt, Or.inr ⟨rfl, rfl⟩⟩
        rw [h1] at this; cases this
      · rw [if_neg hb] at h2; exact absurd h1 h2
    | _ => rw [hp] at h2; exact absurd h1 h2

/-- **K1, trace form**: if a block was live at some moment of a run and is not live later, a clear's successful
    detach CAS was executed in between -/
theorem detach_between (sched : List Nat) : ∀ (s : Sys) (own : Nat → Owner), GInv s own → ∀ blk, own blk = .live →
    (grun s own sched).2 blk ≠ .live →
    ∃ pre tid post, sched = pre ++ tid :: post ∧ detachStep (run s pre) tid := by
  induction sched with
  | nil => intro s own _ blk h1 h2; exact absurd h1 h2
  | cons t ts ih =>
    intro s own hg blk h1 h2
    by_cases hl : gown s own t blk = .live
    · simp only [grun] at h2
      obtain ⟨pre, tid, post, e, hd⟩ := ih _ _ (gstep_inv s own t hg) blk hl h2
      refine ⟨t :: pre, tid, post, by rw [e]; rfl, ?_⟩
      simpa [run] using hd
    · exact ⟨[], t, ts, rfl, live_lost_only_by_detach hg t blk h1 hl⟩

theorem grun_append (a b : List Nat) : ∀ (s : Sys) (own : Nat → Owner),
    grun s own (a ++ b) = grun (grun s own a).1 (grun s own a).2 b := by
  induction a with
  | nil => intro s own; rfl
  | cons t ts ih => intro s own; simp only [List.cons_append, grun]; exact ih _ _

theorem run_append (a b : List Nat) (s : Sys) : run s (a ++ b) = run (run s a) b := by
  simp [run, List.foldl_append]

theorem tail_is_live {s : Sys} {own : Nat → Owner} (hg : GInv s own) {b : Nat} (ht : s.tail = some b) : own b = .live := by
  obtain ⟨lb, _, hlive, _, hts⟩ := hg.live
  exact (hlive b).mpr (hts b ht).1

theorem k1Step_not_live {s : Sys} {own : Nat → Owner} {tid : Nat} {t : Thread} {blk : Nat} {r : Bool}
    (hg : s.threads[tid]? = some t) (hp : t.pc = .pClaim blk r) (hk : k1Step s own tid = true) : own blk ≠ .live := by
  unfold k1Step at hk
  rw [hg] at hk
  simp only [hp, k1PC, Bool.and_eq_true, decide_eq_true_eq, Bool.not_eq_true', decide_eq_false_iff_not] at hk
  exact hk.2

/-- **K1, trace form**: block `blk` is the tail after `pre` (this is the case whenever a pusher has just obtained
    `blk` for its claim, `claim_target_is_tail`); if after `pre ++ mid` a thread parked at the claim on `blk` is about
    to take a K1 step, then `mid` contains a clear's successful detach CAS -/
theorem k1_needs_detach (B : Nat) (progs : List (List Call)) (pre mid : List Nat) (tid blk : Nat) (t : Thread) (r : Bool)
    (htail : (run (init B progs) pre).tail = some blk)
    (hg : (run (init B progs) (pre ++ mid)).threads[tid]? = some t) (hp : t.pc = .pClaim blk r)
    (hk : k1Step (run (init B progs) (pre ++ mid)) (grun (init B progs) own0 (pre ++ mid)).2 tid = true) :
    ∃ m1 c m2, mid = m1 ++ c :: m2 ∧ detachStep (run (init B progs) (pre ++ m1)) c := by
  have hg1 := (grun_inv pre _ _ (init_ginv B progs) (init_gacc B progs)).1
  have hnl := k1Step_not_live hg hp hk
  rw [grun_append] at hnl
  have hl := tail_is_live hg1 (by rw [grun_fst]; exact htail)
  obtain ⟨m1, c, m2, e, hd⟩ := detach_between mid _ _ hg1 blk hl hnl
  refine ⟨m1, c, m2, e, ?_⟩
  rw [grun_fst] at hd
  rw [run_append]; exact hd

/-! ### the non-quiescent form: where every completed push is, at every moment of a run without K1 steps -/

theorem wcount_publishCell_le (cs : List Cell) (i : Nat) : wcount (publishCell cs i) ≤ wcount cs := by
  induction cs generalizing i with
  | nil => exact Nat.le_refl _
  | cons c cs ih =>
    cases i with
    | zero =>
      simp only [publishCell, wcount, List.countP_cons]
      cases c <;> simp [Cell.isPub]
    | succ n =>
      have := ih n
      simp only [publishCell, wcount, List.countP_cons] at this ⊢
      omega

theorem wcount_zero_of_takeWhile (cs : List Cell) (h : cs.takeWhile Cell.isPub = cs) : wcount cs = 0 := by
  induction cs with
  | nil => rfl
  | cons c cs ih =>
    cases c with
    | written w => simp [Cell.isPub] at h
    | published w =>
      simp only [List.takeWhile_cons, Cell.isPub, if_true, List.cons.injEq, true_and] at h
      have := ih h
      simp only [wcount, List.countP_cons, Cell.isPub] at this ⊢
      simpa using this

theorem pubc_eq_of_no_written (v : Nat) (cs : List Cell) (h : wcount cs = 0) : pubc v cs = (cs.map Cell.val).count v := by
  induction cs with
  | nil => rfl
  | cons c cs ih =>
    cases c with
    | written w => simp [wcount, Cell.isPub] at h
    | published w =>
      have h' : wcount cs = 0 := by
        simp only [wcount, List.countP_cons, Cell.isPub] at h ⊢
        simpa using h
      have := ih h'
      simp only [pubc, pubVals, List.filterMap_cons, Cell.pubVal, List.map_cons, Cell.val, List.count_cons] at this ⊢
      omega

def isLive : Owner → Bool
  | .live => true
  | _ => false

def isRead : Owner → Bool
  | .read => true
  | _ => false

/-- sum of `f` over the blocks whose owner satisfies `p` (block `i` of the list has index `k + i`) -/
def osum (f : Block → Nat) (p : Owner → Bool) (own : Nat → Owner) : List Block → Nat → Nat
  | [], _ => 0
  | b :: bs, k => (if p (own k) = true then f b else 0) + osum f p own bs (k + 1)

theorem osum_partition (f : Block → Nat) (own : Nat → Owner) : ∀ (bs : List Block) (k : Nat),
    (bs.map f).sum = osum f isRead own bs k + osum f isLive own bs k + osum f isDet own bs k := by
  intro bs
  induction bs with
  | nil => intro k; rfl
  | cons b bs ih =>
    intro k
    have := ih (k + 1)
    simp only [osum, List.map_cons, List.sum_cons] at this ⊢
    cases h : own k <;> simp [isRead, isLive, isDet] <;> omega

/-- blocks marked `read` are fully published -/
def RPub (s : Sys) (own : Nat → Owner) : Prop :=
  ∀ (i : Nat) (b : Block), s.blocks[i]? = some b → own i = .read → wcount b.cells = 0

theorem osum_read_eq_rsum (v : Nat) (own : Nat → Owner) : ∀ (bs : List Block) (k : Nat),
    (∀ (i : Nat) (b : Block), bs[i]? = some b → own (k + i) = .read → wcount b.cells = 0) →
    osum (fun b => pubc v b.cells) isRead own bs k = rsum v own bs k := by
  intro bs
  induction bs with
  | nil => intro k _; rfl
  | cons b bs ih =>
    intro k h
    have hrest := ih (k + 1) (fun i c hc ho => h (i + 1) c (by simpa using hc) (by
      have e : k + (i + 1) = k + 1 + i := by omega
      rw [e]; exact ho))
    simp only [osum, rsum, hrest]
    by_cases hr : own k = .read
    · have := h 0 b rfl (by simpa using hr)
      simp only [hr, isRead, if_true, cnt, pubc_eq_of_no_written v b.cells this]
    · have : isRead (own k) = false := by cases ho : own k <;> simp_all [isRead]
      simp [hr, this]

theorem gownT_read (s : Sys) (t : Thread) (tid : Nat) (own : Nat → Owner) (i : Nat)
    (h : gownT s t tid own i = .read) : own i = .read ∨ t.pc = .cRead i := by
  unfold gownT at h
  cases hp : t.pc with
  | cCas old =>
    rw [hp] at h; simp only at h
    split at h
    · simp only at h
      split at h
      · cases h
      · exact Or.inl h
    · exact Or.inl h
  | cRead blk =>
    rw [hp] at h; simp only at h
    split at h
    · rename_i e; exact Or.inr (by rw [e])
    · exact Or.inl h
  | _ => rw [hp] at h; exact Or.inl h

theorem rpub_step (s : Sys) (own : Nat → Owner) (tid : Nat) (h : GInv s own) (hk : KInv s own) (hr : RPub s own)
    (hno : k1Step s own tid = false) : RPub (step s tid) (gown s own tid) := by
  cases hg : s.threads[tid]? with
  | none =>
    have e1 : step s tid = s := by unfold step; rw [hg]
    have e2 : gown s own tid = own := by unfold gown; rw [hg]
    rw [e1, e2]; exact hr
  | some t =>
    have e2 : gown s own tid = gownT s t tid own := by unfold gown; rw [hg]
    have hcl := h.base.inv.cells_len
    obtain ⟨lb, hlb, hlive, _, _⟩ := h.live
    intro i b' hb' ho
    rw [e2] at ho
    have hb'' : getBlock (step s tid) i = b' := getBlock_eq hb'
    -- the block existed before the step: indices beyond the old length are live
    have hnl : own i ≠ .live := by
      rcases gownT_read s t tid own i ho with h1 | h1
      · rw [h1]; intro c; cases c
      · have hc := h.clr tid t hg
        rw [h1] at hc
        obtain ⟨_, bt, hbt, hrr, _⟩ := hc
        have : own i = .det tid := (hrr i).mpr ⟨hbt, Or.inr ⟨rfl, rfl⟩⟩
        rw [this]; intro c; cases c
    have hlt : i < s.blocks.length := by
      rcases Nat.lt_or_ge i s.blocks.length with h1 | h1
      · exact h1
      · exact absurd ((hlive i).mpr (by omega)) hnl
    have hb : s.blocks[i]? = some s.blocks[i] := List.getElem?_eq_getElem hlt
    have hbs := step_blk s tid i
    rw [hb'', getBlock_eq hb] at hbs
    have hnk := k1_of_claim s own tid i hno hnl
    rw [getBlock_eq hb] at hnk
    have hw0 : wcount (s.blocks[i]).cells = 0 := by
      rcases gownT_read s t tid own i ho with h1 | h1
      · exact hr i _ hb h1
      · have hq := hk.rdq tid t i hg h1
        rw [getBlock_eq hb] at hq
        exact wcount_zero_of_takeWhile _ (quiesced_all_pub s.B _ (hcl i _ hb) hq)
    rcases hbs with ⟨hc, _⟩ | ⟨hp, hw, _⟩ | ⟨_, j, hc⟩
    · rw [hc]; exact hw0
    · exact absurd ⟨hp, hw⟩ hnk
    · rw [hc]
      have := wcount_publishCell_le (s.blocks[i]).cells j
      omega

theorem init_rpub (B : Nat) (progs : List (List Call)) : RPub (init B progs) own0 := by
  intro i b hb; simp [init] at hb

theorem krun_inv2 (sched : List Nat) : ∀ s own, GInv s own → GAcc s own → KInv s own → RPub s own →
    k1Count s own sched = 0 →
    GInv (grun s own sched).1 (grun s own sched).2 ∧ KInv (grun s own sched).1 (grun s own sched).2
      ∧ RPub (grun s own sched).1 (grun s own sched).2 := by
  induction sched with
  | nil => intro s own h _ hk hr _; exact ⟨h, hk, hr⟩
  | cons t ts ih =>
    intro s own h ha hk hr hc
    obtain ⟨hno, hc'⟩ := k1Step_false_of_count hc
    simp only [grun]
    exact ih _ _ (gstep_inv s own t h) (gstep_acc s own t h ha) (kstep_inv s own t h ha hk hno)
      (rpub_step s own t h hk hr hno) hc'

/-- published slots holding `v` in the blocks whose owner satisfies `p` -/
def pubIn (v : Nat) (p : Owner → Bool) (own : Nat → Owner) (s : Sys) : Nat :=
  osum (fun b => pubc v b.cells) p own s.blocks 0

/-- **accounting at every moment, without K1**: every published slot (= completed push) holding `v` has been handed
    to a clear callback (`Dsum`: finished clears and the running ones), or sits in a block reachable from the tail,
    or in a detached block a clearer is still walking — and nothing else was handed to clears -/
theorem accounted_of_noK1 (B : Nat) (progs : List (List Call)) (sched : List Nat)
    (hk : k1Count (init B progs) own0 sched = 0) (v : Nat) :
    pubCount v (run (init B progs) sched)
      = Dsum v (run (init B progs) sched)
        + pubIn v isLive (grun (init B progs) own0 sched).2 (run (init B progs) sched)
        + pubIn v isDet (grun (init B progs) own0 sched).2 (run (init B progs) sched) := by
  obtain ⟨hg, hkv, hr⟩ := krun_inv2 sched _ _ (init_ginv B progs) (init_gacc B progs) (init_kinv B progs)
    (init_rpub B progs) hk
  rw [grun_fst] at hg hkv hr
  generalize (grun (init B progs) own0 sched).2 = own at hg hkv hr ⊢
  generalize run (init B progs) sched = s at hg hkv hr ⊢
  have hpart := osum_partition (fun b => pubc v b.cells) own s.blocks 0
  have hrd := osum_read_eq_rsum v own s.blocks 0 (fun i b hb ho => hr i b hb (by simpa using ho))
  have heq := hkv.eq v
  unfold pubCount needFrom pubIn
  rw [List.drop_zero]
  omega

/-- values the RUNNING clears have been handed so far (their callbacks already ran on these blocks) -/
def inRunningClears (s : Sys) : List Nat := s.threads.flatMap (fun t => if (claim t.pc).isSome then t.acc else [])

theorem Dsum_split (s : Sys) (v : Nat) : Dsum v s = (delivered s).count v + (inRunningClears s).count v := by
  have hd : delivered s = s.threads.flatMap (fun t => t.results.flatMap clearedVals) := by
    unfold delivered
    congr 1
  rw [hd]
  unfold Dsum inRunningClears
  induction s.threads with
  | nil => rfl
  | cons t ts ih =>
    simp only [List.map_cons, List.sum_cons, List.flatMap_cons, List.count_append, ih]
    have : (dl t).count v = (t.results.flatMap clearedVals).count v
        + (if (claim t.pc).isSome then t.acc else []).count v := by simp [dl, List.count_append]
    omega

/-- claimed-but-unpublished slots holding `v` -/
def wrc (v : Nat) (cs : List Cell) : Nat := cs.countP (fun c => !c.isPub && c.val == v)

theorem pubc_add_wrc (v : Nat) (cs : List Cell) : pubc v cs + wrc v cs = (cs.map Cell.val).count v := by
  induction cs with
  | nil => rfl
  | cons c cs ih =>
    cases c with
    | written w =>
      simp only [pubc, pubVals, List.filterMap_cons, Cell.pubVal, wrc, List.countP_cons, Cell.isPub, Cell.val,
        List.map_cons, List.count_cons] at ih ⊢
      by_cases hw : w = v <;> simp [hw] <;> omega
    | published w =>
      simp only [pubc, pubVals, List.filterMap_cons, Cell.pubVal, wrc, List.countP_cons, Cell.isPub, Cell.val,
        List.map_cons, List.count_cons] at ih ⊢
      by_cases hw : w = v <;> simp [hw] <;> omega

/-- slots holding `v` whose push is between slot write and publish -/
def inFlight (v : Nat) (s : Sys) : Nat := (s.blocks.map (fun b => wrc v b.cells)).sum

theorem pubCount_add_inFlight (v : Nat) (s : Sys) : pubCount v s + inFlight v s = cellsCount v s := by
  unfold pubCount needFrom inFlight cellsCount
  rw [List.drop_zero]
  induction s.blocks with
  | nil => rfl
  | cons b bs ih =>
    have := pubc_add_wrc v b.cells
    simp only [List.map_cons, List.sum_cons] at ih ⊢
    omega

end MetricsVerif.Bucket
