/-
Helper lemmas for the whole-render theorems of C08 (`Props/C08.lean` §7): the number tokens of the recorder
model are value tokens and harmless label values, everything `key_to_parts` returns is grammar-conforming,
invariant-preservation lemmas for the association-list `upsert` and for `foldl`.
-/
import MetricsVerif.Proofs.PromFmt
import MetricsVerif.Model.Prom

namespace MetricsVerif.PromFmt
open MetricsVerif.Expo MetricsVerif.Prom MetricsVerif.PromRender

/-! ### number tokens -/

/-- characters of the model's number tokens (`natText`, `intTok`, `Val.tok`, the quantile place holder) -/
def numChar (c : Char) : Bool := c.isDigit || c == '-' || c == 'd' || c == 'b' || c == 'q'

theorem numChar_safe {c : Char} (h : numChar c = true) : c ≠ ' ' ∧ c ≠ '\n' ∧ c ≠ '\\' ∧ c ≠ '"' := by
  refine ⟨?_, ?_, ?_, ?_⟩ <;> (intro e; subst e; revert h; decide)

theorem isToken_of_num {v : List Char} (hne : v ≠ []) (h : ∀ c ∈ v, numChar c = true) : IsToken v = true := by
  cases v with
  | nil => exact absurd rfl hne
  | cons a as =>
    simp only [IsToken, List.isEmpty_cons, Bool.not_false, Bool.true_and, List.all_eq_true, Bool.and_eq_true,
      bne_iff_ne, ne_eq]
    intro c hc
    have := numChar_safe (h c hc)
    exact ⟨this.1, this.2.1⟩

/-- text without backslash, newline and quote is well-formed escaped text -/
theorem wf_of_safe {v : List Char} (h : ∀ c ∈ v, c ≠ '\\' ∧ c ≠ '\n' ∧ c ≠ '"') : WF false v := by
  induction v with
  | nil => exact .nil
  | cons c cs ih =>
    have hs := h c (by simp)
    exact .safe c cs hs.1 hs.2.1 (fun _ => hs.2.2) (ih (fun x hx => h x (by simp [hx])))

theorem wf_of_num {v : List Char} (h : ∀ c ∈ v, numChar c = true) : WF false v :=
  wf_of_safe (fun c hc => by have := numChar_safe (h c hc); exact ⟨this.2.2.1, this.2.1, this.2.2.2⟩)

theorem natRepr_num (n : Nat) : ∀ c ∈ (toString n).toList, numChar c = true := by
  intro c hc
  rw [Nat.toString_eq_repr, Nat.toList_repr] at hc
  have := Nat.isDigit_of_mem_toDigits (by decide) (by decide) hc
  simp [numChar, this]

theorem natText_num (n : Nat) : ∀ c ∈ natText n, numChar c = true := natRepr_num n

theorem natText_ne (n : Nat) : natText n ≠ [] := by
  unfold natText
  rw [Nat.toString_eq_repr, Nat.toList_repr]
  exact Nat.toDigits_ne_nil

theorem intRepr_num (n : Int) : ∀ c ∈ (toString n).toList, numChar c = true := by
  intro c hc
  rw [Int.toString_eq_repr, Int.repr_eq_if] at hc
  split at hc
  · exact natRepr_num _ c (by rw [Nat.toString_eq_repr]; exact hc)
  · rw [String.toList_append] at hc
    simp only [List.mem_append] at hc
    rcases hc with h | h
    · have e : ("-" : String).toList = ['-'] := by decide
      rw [e] at h
      simp only [List.mem_singleton] at h
      subst h
      decide
    · exact natRepr_num _ c (by rw [Nat.toString_eq_repr]; exact h)

theorem intTok_num (n : Int) : ∀ c ∈ intTok n, numChar c = true := by
  intro c hc
  simp only [intTok, List.mem_cons] at hc
  rcases hc with rfl | h
  · decide
  · exact intRepr_num n c h

theorem valTok_num (v : Val) : ∀ c ∈ v.tok, numChar c = true := by
  cases v with
  | dy n => exact intTok_num n
  | bits b =>
    intro c hc
    simp only [Val.tok, List.mem_cons] at hc
    rcases hc with rfl | h
    · decide
    · exact natRepr_num b c h

theorem natText_token (n : Nat) : IsToken (natText n) = true := isToken_of_num (natText_ne n) (natText_num n)
theorem intTok_token (n : Int) : IsToken (intTok n) = true :=
  isToken_of_num (by simp [intTok]) (intTok_num n)
theorem valTok_token (v : Val) : IsToken v.tok = true :=
  isToken_of_num (by cases v <;> simp [Val.tok, intTok]) (valTok_num v)

/-! ### `key_to_parts` -/

theorem imInsert_mem (m : List (List Char × List Char)) (k v : List Char) :
    ∀ x ∈ imInsert m k v, x.1 = k ∨ x ∈ m := by
  induction m with
  | nil => intro x hx; simp only [imInsert, List.mem_singleton] at hx; left; rw [hx]
  | cons kv rest ih =>
    intro x hx
    obtain ⟨k', v'⟩ := kv
    simp only [imInsert] at hx
    split at hx
    · rename_i heq
      simp only [List.mem_cons] at hx
      rcases hx with rfl | h
      · left; exact heq
      · right; simp [h]
    · simp only [List.mem_cons] at hx
      rcases hx with rfl | h
      · right; simp
      · rcases ih x h with h1 | h2
        · left; exact h1
        · right; simp [h2]

theorem merged_keys (keyLabels : List (List Char × List Char)) :
    ∀ globals : List (List Char × List Char), (∀ x ∈ globals, x.1 ≠ []) → (∀ x ∈ keyLabels, x.1 ≠ []) →
    ∀ x ∈ keyLabels.foldl (fun m kv => imInsert m kv.1 kv.2) globals, x.1 ≠ [] := by
  induction keyLabels with
  | nil => intro g hg _ x hx; exact hg x hx
  | cons kv rest ih =>
    intro g hg hk
    simp only [List.foldl_cons]
    apply ih
    · intro x hx
      rcases imInsert_mem g kv.1 kv.2 x hx with h | h
      · rw [h]; exact hk kv (by simp)
      · exact hg x h
    · intro x hx; exact hk x (by simp [hx])

/-- label strings as `key_to_parts` hands them to `write_metric_line`: each is `name="escaped value"` of a
    label the grammar accepts -/
def LabelsOk (ls : List (List Char)) : Prop :=
  ∃ lbls : List (List Char × List Char), ls = lbls.map labelStr ∧ ∀ kt ∈ lbls, LabelOk kt

/-- **`key_to_parts` is grammar-conforming**: for every non-empty metric name and non-empty label names
    (own and global), the name is a metric name and every label string is an accepted label -/
theorem keyToParts_ok (name : List Char) (kl gl : List (List Char × List Char)) (hn : name ≠ [])
    (hk : ∀ x ∈ kl, x.1 ≠ []) (hg : ∀ x ∈ gl, x.1 ≠ []) :
    IsMetricName (keyToParts name kl gl).1 = true ∧ LabelsOk (keyToParts name kl gl).2 := by
  refine ⟨sanitizeMetricName_grammar name hn, ?_⟩
  refine ⟨(kl.foldl (fun m kv => imInsert m kv.1 kv.2) gl).map
      (fun kv => (sanitizeLabelKey kv.1, sanitizeLabelValue kv.2)), ?_, ?_⟩
  · simp only [keyToParts, List.map_map]
    apply List.map_congr_left
    intro kv _
    simp [formatLabel, labelStr]
  · intro kt hkt
    simp only [List.mem_map] at hkt
    obtain ⟨kv, hkv, rfl⟩ := hkt
    exact ⟨sanitizeLabelKey_grammar kv.1 (merged_keys kl gl hg hk kv hkv), sanitizeLabelValue_wf kv.2⟩

/-! ### association lists and folds -/

theorem upsert_inv {κ α : Type} [DecidableEq κ] (P : κ → α → Prop) (m : List (κ × α)) (k : κ) (d : α)
    (f : α → α) (hm : ∀ x ∈ m, P x.1 x.2) (hd : P k (f d)) (hf : ∀ a, P k a → P k (f a)) :
    ∀ x ∈ upsert m k d f, P x.1 x.2 := by
  induction m with
  | nil => intro x hx; simp only [upsert, List.mem_singleton] at hx; subst hx; exact hd
  | cons ka rest ih =>
    intro x hx
    obtain ⟨k', a⟩ := ka
    simp only [upsert] at hx
    split at hx
    · rename_i heq
      simp only [List.mem_cons] at hx
      rcases hx with rfl | h
      · have := hm (k', a) (by simp)
        subst heq
        exact hf a this
      · exact hm x (by simp [h])
    · simp only [List.mem_cons] at hx
      rcases hx with rfl | h
      · exact hm _ (by simp)
      · exact ih (fun y hy => hm y (by simp [hy])) x h

theorem foldl_inv {α β : Type} (P : β → Prop) (Q : α → Prop) (f : β → α → β) (l : List α)
    (hf : ∀ b a, P b → Q a → P (f b a)) : ∀ b, P b → (∀ a ∈ l, Q a) → P (l.foldl f b) := by
  induction l with
  | nil => intro b hb _; exact hb
  | cons a rest ih =>
    intro b hb hq
    simp only [List.foldl_cons]
    exact ih _ (hf b a hb (hq a (by simp))) (fun x hx => hq x (by simp [hx]))

end MetricsVerif.PromFmt
