/-
Lemmas about the independent DogStatsD reader (`Model/StatsdRead.lean`) and its round trip with the messages
the writer model renders (`renderMsg` over `trailer`).
-/
import MetricsVerif.Model.StatsdRead
import MetricsVerif.Proofs.Statsd

namespace MetricsVerif.StatsdRead
open MetricsVerif.Statsd (Tag tagText tagsGo trailer renderMsg)

/-! ## splitting -/

theorem splitOn_of_not_mem (d : UInt8) : ∀ (a : Bytes), d ∉ a → splitOn d a = [a] := by
  intro a
  induction a with
  | nil => intro _; rfl
  | cons c cs ih =>
    intro h
    simp only [List.mem_cons, not_or] at h
    have hc : c ≠ d := fun e => h.1 e.symm
    simp [splitOn, hc, ih h.2]

theorem splitOn_append (d : UInt8) (rest : Bytes) : ∀ (a : Bytes), d ∉ a →
    splitOn d (a ++ d :: rest) = a :: splitOn d rest := by
  intro a
  induction a with
  | nil => intro _; simp [splitOn]
  | cons c cs ih =>
    intro h
    simp only [List.mem_cons, not_or] at h
    have hc : c ≠ d := fun e => h.1 e.symm
    simp [splitOn, hc, ih h.2]

/-- pieces free of the delimiter, joined with it, split back into exactly those pieces -/
theorem splitOn_join (d : UInt8) : ∀ (secs : List Bytes) (head : Bytes), d ∉ head → (∀ s ∈ secs, d ∉ s) →
    splitOn d (head ++ secs.flatMap (d :: ·)) = head :: secs := by
  intro secs
  induction secs with
  | nil => intro head hh _; simpa using splitOn_of_not_mem d head hh
  | cons s secs ih =>
    intro head hh hs
    simp only [List.flatMap_cons, List.cons_append]
    rw [splitOn_append d _ head hh, ih s (hs s (by simp)) (fun x hx => hs x (by simp [hx]))]

theorem splitFirst_of_not_mem (d : UInt8) : ∀ (k : Bytes), d ∉ k → splitFirst d k = (k, none) := by
  intro k
  induction k with
  | nil => intro _; rfl
  | cons c cs ih =>
    intro h
    simp only [List.mem_cons, not_or] at h
    have hc : c ≠ d := fun e => h.1 e.symm
    simp [splitFirst, hc, ih h.2]

theorem splitFirst_append (d : UInt8) (v : Bytes) : ∀ (k : Bytes), d ∉ k →
    splitFirst d (k ++ d :: v) = (k, some v) := by
  intro k
  induction k with
  | nil => intro _; simp [splitFirst]
  | cons c cs ih =>
    intro h
    simp only [List.mem_cons, not_or] at h
    have hc : c ≠ d := fun e => h.1 e.symm
    simp [splitFirst, hc, ih h.2]

/-! ## the representability hypotheses (decidable) -/

/-- `s` contains none of the bytes `ds` -/
def freeOf (ds : List UInt8) (s : Bytes) : Bool := s.all (fun b => !ds.contains b)

theorem freeOf_not_mem {ds : List UInt8} {s : Bytes} (h : freeOf ds s = true) {d : UInt8} (hd : d ∈ ds) : d ∉ s := by
  intro hm
  simp only [freeOf, List.all_eq_true] at h
  have := h d hm
  simp [hd] at this

/-- a tag DogStatsD can carry: non-empty key without `: , | \n`, value without `, | \n` (colons are fine in a
    value, the reader splits at the first one) -/
def tagOk (t : Tag) : Bool := !t.1.isEmpty && freeOf [58, 44, 124, 10] t.1 && freeOf [44, 124, 10] t.2

/-- a value text: non-empty, without `: | \n` (true of every `ryu` / `itoa` output) -/
def valOk (v : Bytes) : Bool := !v.isEmpty && freeOf [58, 124, 10] v

/-- a (prefixed) metric name DogStatsD can carry: non-empty, without `: | \n` -/
def nameOk (n : Bytes) : Bool := !n.isEmpty && freeOf [58, 124, 10] n

/-- a sample-rate text: non-empty, without `| \n` -/
def rateOk (r : Bytes) : Bool := !r.isEmpty && freeOf [124, 10] r

/-- a timestamp text: non-empty decimal digits -/
def tsOk (t : Bytes) : Bool := !t.isEmpty && t.all isDigit

def optOk (f : Bytes → Bool) : Option Bytes → Bool
  | none => true
  | some x => f x

theorem isDigit_ne {b : UInt8} (h : isDigit b = true) : b ≠ 124 ∧ b ≠ 10 := by
  constructor <;> (intro e; subst e; revert h; decide)

theorem tsOk_free {t : Bytes} (h : tsOk t = true) : t ≠ [] ∧ t.all isDigit = true ∧ (124 : UInt8) ∉ t ∧ (10 : UInt8) ∉ t := by
  simp only [tsOk, Bool.and_eq_true, Bool.not_eq_true', List.isEmpty_eq_false_iff] at h
  refine ⟨h.1, h.2, ?_, ?_⟩
  · intro hm; exact (isDigit_ne (List.all_eq_true.mp h.2 _ hm)).1 rfl
  · intro hm; exact (isDigit_ne (List.all_eq_true.mp h.2 _ hm)).2 rfl

/-! ## tags -/

theorem tagsGo_true (ts : List Tag) : tagsGo true ts = ts.flatMap (fun t => 44 :: tagText t) := by
  induction ts with
  | nil => rfl
  | cons t ts ih => simp [tagsGo, ih]

theorem tagText_free {t : Tag} (h : tagOk t = true) {d : UInt8} (hd : d ∈ [44, 124, 10]) : d ∉ tagText t := by
  simp only [tagOk, Bool.and_eq_true] at h
  have hk : d ∉ t.1 := freeOf_not_mem h.1.2 (by
    simp only [List.mem_cons, List.not_mem_nil, or_false] at hd ⊢
    rcases hd with rfl | rfl | rfl <;> simp)
  have hv : d ∉ t.2 := freeOf_not_mem h.2 hd
  unfold tagText
  split
  · exact hk
  · simp only [List.mem_append, List.mem_cons, not_or]
    refine ⟨hk, ?_, hv⟩
    simp only [List.mem_cons, List.not_mem_nil, or_false] at hd
    rcases hd with rfl | rfl | rfl <;> decide

theorem parseTag_tagText {t : Tag} (h : tagOk t = true) : parseTag (tagText t) = some t := by
  obtain ⟨k, v⟩ := t
  simp only [tagOk, Bool.and_eq_true, Bool.not_eq_true', List.isEmpty_eq_false_iff] at h
  have hk : (58 : UInt8) ∉ k := freeOf_not_mem h.1.2 (by simp)
  have hkne : k ≠ [] := h.1.1
  unfold tagText parseTag
  cases v with
  | nil => simp [splitFirst_of_not_mem 58 k hk, hkne]
  | cons x xs => simp [splitFirst_append 58 (x :: xs) k hk, hkne]

theorem parseTags_map {ts : List Tag} (h : ∀ t ∈ ts, tagOk t = true) : parseTags (ts.map tagText) = some ts := by
  induction ts with
  | nil => rfl
  | cons t ts ih =>
    simp only [List.map_cons, parseTags, parseTag_tagText (h t (by simp)),
      ih (fun x hx => h x (by simp [hx]))]

/-- the text after `|#` for a non-empty tag list -/
def tagsText (t : Tag) (ts : List Tag) : Bytes := tagText t ++ ts.flatMap (fun t => 44 :: tagText t)

theorem tagsText_split {t : Tag} {ts : List Tag} (h : ∀ x ∈ t :: ts, tagOk x = true) :
    splitOn 44 (tagsText t ts) = (t :: ts).map tagText := by
  have := splitOn_join 44 (ts.map tagText) (tagText t) (tagText_free (h t (by simp)) (by simp))
    (by
      intro s hs
      simp only [List.mem_map] at hs
      obtain ⟨x, hx, rfl⟩ := hs
      exact tagText_free (h x (by simp [hx])) (by simp))
  simpa [tagsText, List.flatMap_map] using this

theorem tagsText_free {t : Tag} {ts : List Tag} (h : ∀ x ∈ t :: ts, tagOk x = true) {d : UInt8} (hd : d ∈ [124, 10]) :
    d ∉ tagsText t ts := by
  have hd' : d ∈ [44, 124, 10] := by
    simp only [List.mem_cons, List.not_mem_nil, or_false] at hd ⊢; exact Or.inr hd
  have hne : d ≠ 44 := by
    simp only [List.mem_cons, List.not_mem_nil, or_false] at hd
    rcases hd with rfl | rfl <;> decide
  simp only [tagsText, List.mem_append, List.mem_flatMap, List.mem_cons, not_or, not_exists, not_and]
  refine ⟨tagText_free (h t (by simp)) hd', ?_⟩
  intro x hx
  exact ⟨hne, tagText_free (h x (by simp [hx])) hd'⟩

/-! ## the optional sections -/

/-- the sections after the type, as the writer's trailer lays them out -/
def optSecs (tags : List Tag) (ts rate : Option Bytes) : List Bytes :=
  (match rate with | some r => [64 :: r] | none => [])
  ++ (match tags with | [] => [] | t :: more => [35 :: tagsText t more])
  ++ (match ts with | some t => [84 :: t] | none => [])

theorem trailer_eq (labels globals : List Tag) (ts rate : Option Bytes) :
    trailer labels globals ts rate = (optSecs (globals ++ labels) ts rate).flatMap (124 :: ·) ++ [10] := by
  unfold trailer optSecs
  cases rate <;> cases ts <;> cases hg : globals ++ labels <;>
    simp [tagsGo, tagsGo_true, tagsText, List.append_assoc]

theorem optSecs_free {tags : List Tag} {ts rate : Option Bytes} (htags : ∀ t ∈ tags, tagOk t = true)
    (hts : optOk tsOk ts = true) (hrate : optOk rateOk rate = true) {d : UInt8} (hd : d ∈ [124, 10]) :
    ∀ s ∈ optSecs tags ts rate, d ∉ s := by
  have hne : d ≠ 64 ∧ d ≠ 35 ∧ d ≠ 84 := by
    simp only [List.mem_cons, List.not_mem_nil, or_false] at hd
    rcases hd with rfl | rfl <;> decide
  intro s hs
  simp only [optSecs, List.mem_append] at hs
  rcases hs with (hs | hs) | hs
  · cases rate with
    | none => cases hs
    | some r =>
      simp only [List.mem_singleton] at hs; subst hs
      simp only [optOk, rateOk, Bool.and_eq_true] at hrate
      simp only [List.mem_cons, not_or]
      exact ⟨hne.1, freeOf_not_mem hrate.2 hd⟩
  · cases tags with
    | nil => cases hs
    | cons t more =>
      simp only [List.mem_singleton] at hs; subst hs
      simp only [List.mem_cons, not_or]
      exact ⟨hne.2.1, tagsText_free htags hd⟩
  · cases ts with
    | none => cases hs
    | some t =>
      simp only [List.mem_singleton] at hs; subst hs
      have := tsOk_free (t := t) hts
      simp only [List.mem_cons, not_or]
      refine ⟨hne.2.2, ?_⟩
      simp only [List.mem_cons, List.not_mem_nil, or_false] at hd
      rcases hd with rfl | rfl
      · exact this.2.2.1
      · exact this.2.2.2

theorem parseSections_optSecs {tags : List Tag} {ts rate : Option Bytes} (htags : ∀ t ∈ tags, tagOk t = true)
    (hts : optOk tsOk ts = true) (hrate : optOk rateOk rate = true) (n : Bytes) (vs : List Bytes) (ty : Bytes) :
    parseSections 0 (optSecs tags ts rate) ⟨n, vs, ty, none, [], none⟩ = some ⟨n, vs, ty, rate, tags, ts⟩ := by
  have hr : ∀ r, rate = some r → r ≠ [] := by
    intro r e; subst e
    simp only [optOk, rateOk, Bool.and_eq_true, Bool.not_eq_true', List.isEmpty_eq_false_iff] at hrate
    exact hrate.1
  have ht : ∀ t, ts = some t → t ≠ [] ∧ t.all isDigit = true := by
    intro t e; subst e
    have := tsOk_free (t := t) hts
    exact ⟨this.1, this.2.1⟩
  have hg : ∀ t more, tags = t :: more → parseTags (splitOn 44 (tagsText t more)) = some (t :: more) := by
    intro t more e; subst e
    rw [tagsText_split htags, parseTags_map htags]
  cases rate with
  | none =>
    cases tags with
    | nil =>
      cases ts with
      | none => simp [optSecs, parseSections]
      | some t => simp [optSecs, parseSections, ht t rfl]
    | cons g more =>
      cases ts with
      | none => simp [optSecs, parseSections, hg g more rfl]
      | some t => simp [optSecs, parseSections, hg g more rfl, ht t rfl]
  | some r =>
    cases tags with
    | nil =>
      cases ts with
      | none => simp [optSecs, parseSections, hr r rfl]
      | some t => simp [optSecs, parseSections, hr r rfl, ht t rfl]
    | cons g more =>
      cases ts with
      | none => simp [optSecs, parseSections, hr r rfl, hg g more rfl]
      | some t => simp [optSecs, parseSections, hr r rfl, hg g more rfl, ht t rfl]

/-! ## the round trip -/

/-- the four type bytes the writer uses -/
def tyOk (ty : UInt8) : Bool := ty == 99 || ty == 103 || ty == 104 || ty == 100

/-- **round trip.**  A rendered message whose strings are representable is read by the independent reader as
    exactly one datagram with that name, those values in order, that type, rate, tags (in order) and timestamp. -/
theorem render_parses (nm : Bytes) (ty : UInt8) (labels globals : List Tag) (ts rate : Option Bytes)
    (v : Bytes) (vs : List Bytes)
    (hnm : nameOk nm = true) (hty : tyOk ty = true) (hvs : ∀ x ∈ v :: vs, valOk x = true)
    (htags : ∀ t ∈ globals ++ labels, tagOk t = true) (hts : optOk tsOk ts = true) (hrate : optOk rateOk rate = true) :
    parsePayload (renderMsg nm ty (trailer labels globals ts rate) (v :: vs))
      = some ⟨nm, v :: vs, [ty], rate, globals ++ labels, ts⟩ := by
  simp only [nameOk, Bool.and_eq_true, Bool.not_eq_true', List.isEmpty_eq_false_iff] at hnm
  have hvne : ∀ x ∈ v :: vs, x ≠ [] := by
    intro x hx
    have := hvs x hx
    simp only [valOk, Bool.and_eq_true, Bool.not_eq_true', List.isEmpty_eq_false_iff] at this
    exact this.1
  have hvfree : ∀ x ∈ v :: vs, ∀ d ∈ [58, 124, 10], d ∉ x := by
    intro x hx d hd
    have := hvs x hx
    simp only [valOk, Bool.and_eq_true] at this
    exact freeOf_not_mem this.2 hd
  have htyne : ty ≠ 124 ∧ ty ≠ 10 := by
    simp only [tyOk, Bool.or_eq_true, beq_iff_eq] at hty
    rcases hty with ((rfl | rfl) | rfl) | rfl <;> decide
  -- the message is `head|ty|sec…\n`
  let head := nm ++ (v :: vs).flatMap (58 :: ·)
  let secs := [ty] :: optSecs (globals ++ labels) ts rate
  have hmsg : renderMsg nm ty (trailer labels globals ts rate) (v :: vs)
      = (head ++ secs.flatMap (124 :: ·)) ++ [10] := by
    simp only [renderMsg, trailer_eq, head, secs, List.flatMap_cons, List.append_assoc, List.cons_append,
      List.nil_append]
  have hheadfree : ∀ d ∈ [124, 10], d ∉ head := by
    intro d hd
    have hd' : d ∈ [58, 124, 10] := by
      simp only [List.mem_cons, List.not_mem_nil, or_false] at hd ⊢; exact Or.inr hd
    have hne : d ≠ 58 := by
      simp only [List.mem_cons, List.not_mem_nil, or_false] at hd
      rcases hd with rfl | rfl <;> decide
    simp only [head, List.mem_append, List.mem_flatMap, List.mem_cons, not_or, not_exists, not_and]
    refine ⟨freeOf_not_mem hnm.2 hd', ?_⟩
    intro x hx
    exact ⟨hne, hvfree x (by simpa using hx) d hd'⟩
  have hsecsfree : ∀ d ∈ [124, 10], ∀ s ∈ secs, d ∉ s := by
    intro d hd s hs
    simp only [secs, List.mem_cons] at hs
    rcases hs with rfl | hs
    · simp only [List.mem_cons, List.not_mem_nil, or_false] at hd ⊢
      rcases hd with rfl | rfl
      · exact fun e => htyne.1 e.symm
      · exact fun e => htyne.2 e.symm
    · exact optSecs_free htags hts hrate hd s hs
  have hsplit : splitOn 124 (head ++ secs.flatMap (124 :: ·)) = head :: secs :=
    splitOn_join 124 secs head (hheadfree 124 (by simp)) (hsecsfree 124 (by simp))
  have hnl : (head ++ secs.flatMap (124 :: ·)).contains 10 = false := by
    rw [List.contains_eq_mem, decide_eq_false_iff_not]
    simp only [List.mem_append, List.mem_flatMap, List.mem_cons, not_or, not_exists, not_and]
    refine ⟨hheadfree 10 (by simp), ?_⟩
    intro s hs
    exact ⟨by decide, hsecsfree 10 (by simp) s hs⟩
  have hhead : splitOn 58 head = nm :: v :: vs :=
    splitOn_join 58 (v :: vs) nm (freeOf_not_mem hnm.2 (by simp)) (fun x hx => hvfree x hx 58 (by simp))
  have hany : (v :: vs).any (·.isEmpty) = false := by
    rw [List.any_eq_false]
    intro x hx
    simpa using hvne x hx
  have hist : isType [ty] = true := by
    simp only [tyOk, Bool.or_eq_true, beq_iff_eq] at hty
    rcases hty with ((rfl | rfl) | rfl) | rfl <;> decide
  have hnmne : nm.isEmpty = false := by simpa using hnm.1
  unfold parsePayload
  rw [hmsg, List.getLast?_concat, List.dropLast_concat]
  simp only [if_true, hnl, Bool.false_eq_true, if_false, hsplit, secs, hhead, hany, hist, hnmne,
    Bool.or_false, Bool.not_true]
  rw [parseSections_optSecs htags hts hrate]

end MetricsVerif.StatsdRead
