import MetricsVerif.Driver.Util
import MetricsVerif.Model.Key

/-
Driver for component `key` (C03).  A key is two tokens: `<name-hex> <labels>` with labels a list of
`<key-hex>:<value-hex>`.

  eq   A B            → 1 | 0                       `a == b`
  cmp  A B            → lt | eq | gt                `a.cmp(&b)`
  cmpold A B          → lt | eq | gt                `a.cmp(&b)` of the code before fix-C03 (not emitted by the harness; used to
                                                    confirm that the pre-repair model matches the pre-repair code)
  hash A              → B<hex>,Uff,Z<n>,…           calls on a recording `Hasher` (`write`, `write_u8`, `write_usize`)
  raw  A              → <hex>,<hex>,…               `write` calls reaching a hasher that overrides `write` only (as `KeyHasher`)
  gh   A B            → 1 | 0                       `a.get_hash() == b.get_hash()` (model: same call sequence)
  race static|built A <n> <sched>  → ok,ok,…        n threads' first `get_hash()` under the schedule, each vs. the true hash
                                                    (the real threads ran under the OS scheduler; the model under `sched`)
  sched static|built A <n> <grants> → 0:load-flag,1:load-flag,… ok,ok
                                                    the real threads ran exactly `grants` (token passing over the yield
                                                    points of `get_hash`); per grant the point it started from, then results
  mix static|prehashed A <roles> <grants> → 0:start,1:start,0:cow-clone,… fresh,ok
                                                    threads with roles `h` (first `get_hash()`) / `c` (`clone()`) on one shared
                                                    key, run exactly under `grants` (token passing over the yield points of
                                                    `get_hash` and of the two `Cow::clone` calls inside `Key::clone`; every
                                                    thread first parks at a harness-side `start` point).  The real `clone` has
                                                    no yield point between `labels.clone()` and its two loads, so a grant at the
                                                    second `cow-clone` point is three model steps.  Results: `ok`/`bad:v` for a
                                                    hasher; for a cloner `fresh` (copied `hashed = false`), `memo:ok` /
                                                    `memo:bad:v` (copied `hashed = true` and the right / a wrong value)
  ceq  K A K B        → 1 | 0                       `CompositeKey::new(K, a) == CompositeKey::new(K, b)`, K = c | g | h
  ccmp K A K B        → lt | eq | gt                `….cmp(…)`
  leq / lcmp  L L     → 1 | 0  /  lt | eq | gt      `Label == Label`, `Label::cmp`
  scmp S S            → lt | eq | gt                `Ord for SharedString / KeyName` (= `Ord for str`)
  nhash S             → B<hex>,Uff                  calls of `Hash for KeyName` on a recording hasher (= those of `Hash for str`)
  ops  A B            → <ne> <lt> <le> <gt> <ge> <partial_cmp>   `a != b`, `a < b`, `a <= b`, `a > b`, `a >= b` (1 | 0), `a.partial_cmp(&b)`
  sel  A B            → <max> <min>                 `a.max(b)` and `a.min(b)`, each as the two key tokens (labels in the order the
                                                    returned key carries them, which tells the two arguments apart when they are `==`)
  clamp X LO HI       → <key>                       `x.clamp(lo, hi)` (the harness emits it only when `lo <= hi`)
  path P|S N L steps… → <key> <hashed> <hash> <get_hash>
                                                    a key obtained through a construction path: `P` = `from_parts`-like (eager hash),
                                                    `S` = `from_static_*` (lazy), then steps `c` (clone), `h` (a `get_hash()` call),
                                                    `r` (`from_parts(into_parts())`), `x <labels>` (`with_extra_labels`).  Answer: its
                                                    content, its memo fields (`1|0`, then `ok` = the true hash / `zero` / `bad`) and
                                                    whether `get_hash()` returns the true hash of the content
-/
namespace MetricsVerif.Driver.Key
open MetricsVerif.Driver MetricsVerif.Key

def strTok (s : String) : Option Str := (unhexBytes s).map (·.map UInt8.toNat)

def labelTok (s : String) : Option Label := (pairTok strTok strTok s).map (fun kv => ⟨kv.1, kv.2⟩)

def keyToks (n l : String) : Option MetricsVerif.Key.Key := do
  pure ⟨← strTok n, ← listTok labelTok l⟩

def hexStr (s : Str) : String := hexBytes (s.map UInt8.ofNat)

def showWrite : Write → String
  | .bytes b => "B" ++ hexStr b
  | .u8 n => "U" ++ hexStr [n]
  | .usize n => "Z" ++ toString n

def showOrd : Ordering → String
  | .lt => "lt" | .eq => "eq" | .gt => "gt"

/-- a concrete stand-in for aHash in the race op (the theorems are for every `H`) -/
def demoH (ws : List Write) : Nat :=
  (ws.flatMap lower).foldl (fun acc b => (acc * 1099511628211 + b + 1) % 18446744073709551616) 14695981039346656037

/-- yield-point id of a program counter (the ids of `verif_key_hook::point` in metrics/src/key.rs) -/
def pcName : PC → String
  | .idle => "idle" | .loadFlag => "load-flag" | .loadHash => "load-hash"
  | .storeHash _ => "store-hash" | .storeFlag _ => "store-flag" | .done _ => "done"
  | .cloneName => "cow-clone" | .cloneLabels => "cow-clone" | .cloneFlag => "clone-load-flag"
  | .cloneHash _ => "clone-load-hash" | .cloneHashFirst => "clone-load-hash" | .cloneFlagSecond _ => "clone-load-flag"
  | .cloned _ _ => "cloned"

def showResults (s : Sys) (h nt : Nat) : String :=
  showList (fun t => match s.pc t with
    | .done v => if v = h then "ok" else s!"bad:{v}"
    | _ => "unfinished") (List.range nt)

def showMixResults (s : Sys) (h nt : Nat) : String :=
  showList (fun t => match s.pc t with
    | .done v => if v = h then "ok" else s!"bad:{v}"
    | .cloned f v => if f then (if v = h then "memo:ok" else s!"memo:bad:{v}") else "fresh"
    | _ => "unfinished") (List.range nt)

def roleTok : String → Option Role
  | "h" => some .hasher
  | "c" => some .cloner
  | _ => none

def kindTok : String → Option Kind
  | "c" => some .counter
  | "g" => some .gauge
  | "h" => some .histogram
  | _ => none

/-- what the real code does between the yield point thread `t` is parked at and its next one -/
def grantStep (h : Nat) (s : Sys) (t : Nat) : Sys :=
  match s.pc t with
  | .cloneLabels => step codeOrds h (step codeOrds h (step codeOrds h s t) t) t
  | _ => step codeOrds h s t

def showLabel (l : Label) : String := hexStr l.key ++ ":" ++ hexStr l.value

def showKey (k : MetricsVerif.Key.Key) : String := hexStr k.name ++ " " ++ showList showLabel k.labels

def bit (b : Bool) : String := if b then "1" else "0"

/-- the steps of a `path` op -/
def pathSteps : Path → List String → Option Path
  | p, [] => some p
  | p, "c" :: rest => pathSteps (.clone p) rest
  | p, "h" :: rest => pathSteps (.hashed p) rest
  | p, "r" :: rest => pathSteps (.reparts p) rest
  | p, "x" :: ls :: rest => do pathSteps (.withExtra p (← listTok labelTok ls)) rest
  | _, _ => none

def handle (args : List String) : Option String :=
  match args with
  | ["eq", na, la, nb, lb] => do
    pure (if Key.eq (← keyToks na la) (← keyToks nb lb) then "1" else "0")
  | ["cmp", na, la, nb, lb] => do
    pure (showOrd (Key.cmp (← keyToks na la) (← keyToks nb lb)))
  | ["cmpold", na, la, nb, lb] => do
    pure (showOrd (Key.cmpOld (← keyToks na la) (← keyToks nb lb)))
  | ["hash", n, l] => do
    pure (showList showWrite (hashStream (← keyToks n l)))
  | ["raw", n, l] => do
    pure (showList hexStr (keyHasherWrites (← keyToks n l)))
  | ["gh", na, la, nb, lb] => do
    pure (if hashStream (← keyToks na la) = hashStream (← keyToks nb lb) then "1" else "0")
  | ["race", kind, n, l, nt, sched] => do
    let k ← keyToks n l
    let nt ← nt.toNat?
    let sched ← listTok String.toNat? sched
    let h := generateKeyHash demoH k
    let s0 ← match kind with
      | "static" => some (freshStatic nt)
      | "built" => some (freshBuilt h nt)
      | _ => none
    -- the given schedule, then every thread runs to completion (a call is at most 3 steps)
    let s := run codeOrds h s0 (sched ++ (List.range nt).flatMap (fun t => [t, t, t]))
    pure (showResults s h nt)
  | ["sched", kind, n, l, nt, grants] => do
    let k ← keyToks n l
    let nt ← nt.toNat?
    let grants ← listTok String.toNat? grants
    let h := generateKeyHash demoH k
    let s0 ← match kind with
      | "static" => some (freshStatic nt)
      | "built" => some (freshBuilt h nt)
      | _ => none
    -- exactly the grants the harness made: the yield point each grant starts from, then the results
    let (s, trace) := grants.foldl (fun (acc : Sys × List String) t =>
      (step codeOrds h acc.1 t, s!"{t}:{pcName (acc.1.pc t)}" :: acc.2)) (s0, [])
    pure s!"{showList id trace.reverse} {showResults s h nt}"
  | ["mix", kind, n, l, roles, grants] => do
    let k ← keyToks n l
    let rs ← listTok roleTok roles
    let grants ← listTok String.toNat? grants
    let h := generateKeyHash demoH k
    let s0 ← match kind with
      | "static" => some (freshOf false 0 (rolesOf rs))
      | "prehashed" => some (freshOf true h (rolesOf rs))
      | _ => none
    let (s, _, trace) := grants.foldl (fun (acc : Sys × List Nat × List String) t =>
      let (s, started, tr) := acc
      if started.contains t then (grantStep h s t, started, s!"{t}:{pcName (s.pc t)}" :: tr)
      else (s, t :: started, s!"{t}:start" :: tr)) (s0, [], [])
    pure s!"{showList id trace.reverse} {showMixResults s h rs.length}"
  | ["ops", na, la, nb, lb] => do
    let a ← keyToks na la
    let b ← keyToks nb lb
    let pc ← Key.partialCmp a b
    pure s!"{bit (Key.ne a b)} {bit (Key.lt a b)} {bit (Key.le a b)} {bit (Key.gt a b)} {bit (Key.ge a b)} {showOrd pc}"
  | ["sel", na, la, nb, lb] => do
    let a ← keyToks na la
    let b ← keyToks nb lb
    pure s!"{showKey (Key.max a b)} {showKey (Key.min a b)}"
  | ["clamp", nx, lx, na, la, nb, lb] => do
    pure (showKey (Key.clamp (← keyToks nx lx) (← keyToks na la) (← keyToks nb lb)))
  | "path" :: kind :: n :: l :: steps => do
    let k ← keyToks n l
    let p0 ← match kind with
      | "P" => some (Path.fromParts k.name k.labels)
      | "S" => some (Path.fromStatic k.name k.labels)
      | _ => none
    let p ← pathSteps p0 steps
    let r := p.build demoH
    let h := generateKeyHash demoH r.key
    let memo := if r.hash = h then "ok" else if r.hash = 0 then "zero" else "bad"
    pure s!"{showKey r.key} {bit r.hashed} {memo} {if (r.getHash demoH).1 = h then "ok" else "bad"}"
  | ["ceq", ka, na, la, kb, nb, lb] => do
    pure (if CompositeKey.eq ⟨← kindTok ka, ← keyToks na la⟩ ⟨← kindTok kb, ← keyToks nb lb⟩ then "1" else "0")
  | ["ccmp", ka, na, la, kb, nb, lb] => do
    pure (showOrd (CompositeKey.cmp ⟨← kindTok ka, ← keyToks na la⟩ ⟨← kindTok kb, ← keyToks nb lb⟩))
  | ["leq", a, b] => do
    pure (if Label.eq (← labelTok a) (← labelTok b) then "1" else "0")
  | ["lcmp", a, b] => do
    pure (showOrd (Label.cmp (← labelTok a) (← labelTok b)))
  | ["scmp", a, b] => do
    pure (showOrd (cmpStr (← strTok a) (← strTok b)))
  | ["nhash", a] => do
    pure (showList showWrite (keyNameWrites (← strTok a)))
  | _ => none

end MetricsVerif.Driver.Key
