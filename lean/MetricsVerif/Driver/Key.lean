import MetricsVerif.Driver.Util
import MetricsVerif.Model.Key

/-
Driver for component `key` (C03).  A key is two tokens: `<name-hex> <labels>` with labels a list of
`<key-hex>:<value-hex>`.

  eq   A B            → 1 | 0                       `a == b`
  cmp  A B            → lt | eq | gt                `a.cmp(&b)`
  cmpold A B          → lt | eq | gt                `a.cmp(&b)` of the code before fix-C03 (not emitted by the harness; used to
                                                    confirm that the pre-repair model matches the pre-repair code)
  hash A              → B<hex>,Uff,Z<n>,…           calls on a recording `Hasher` (`write`, `write_u8`, `write_usize`)
  raw  A              → <hex>,<hex>,…               `write` calls reaching a hasher that overrides `write` only (as `KeyHasher`)
  gh   A B            → 1 | 0                       `a.get_hash() == b.get_hash()` (model: same call sequence)
  race static|built A <n> <sched>  → ok,ok,…        n threads' first `get_hash()` under the schedule, each vs. the true hash
                                                    (the real threads ran under the OS scheduler; the model under `sched`)
  sched static|built A <n> <grants> → 0:load-flag,1:load-flag,… ok,ok
                                                    the real threads ran exactly `grants` (token passing over the yield
                                                    points of `get_hash`); per grant the point it started from, then results
-/
namespace MetricsVerif.Driver.Key
open MetricsVerif.Driver MetricsVerif.Key

def strTok (s : String) : Option Str := (unhexBytes s).map (·.map UInt8.toNat)

def labelTok (s : String) : Option Label := (pairTok strTok strTok s).map (fun kv => ⟨kv.1, kv.2⟩)

def keyToks (n l : String) : Option MetricsVerif.Key.Key := do
  pure ⟨← strTok n, ← listTok labelTok l⟩

def hexStr (s : Str) : String := hexBytes (s.map UInt8.ofNat)

def showWrite : Write → String
  | .bytes b => "B" ++ hexStr b
  | .u8 n => "U" ++ hexStr [n]
  | .usize n => "Z" ++ toString n

def showOrd : Ordering → String
  | .lt => "lt" | .eq => "eq" | .gt => "gt"

/-- a concrete stand-in for aHash in the race op (the theorems are for every `H`) -/
def demoH (ws : List Write) : Nat :=
  (ws.flatMap lower).foldl (fun acc b => (acc * 1099511628211 + b + 1) % 18446744073709551616) 14695981039346656037

/-- yield-point id of a program counter (the ids of `verif_key_hook::point` in metrics/src/key.rs) -/
def pcName : PC → String
  | .idle => "idle" | .loadFlag => "load-flag" | .loadHash => "load-hash"
  | .storeHash _ => "store-hash" | .storeFlag _ => "store-flag" | .done _ => "done"

def showResults (s : Sys) (h nt : Nat) : String :=
  showList (fun t => match s.pc t with
    | .done v => if v = h then "ok" else s!"bad:{v}"
    | _ => "unfinished") (List.range nt)

def handle (args : List String) : Option String :=
  match args with
  | ["eq", na, la, nb, lb] => do
    pure (if Key.eq (← keyToks na la) (← keyToks nb lb) then "1" else "0")
  | ["cmp", na, la, nb, lb] => do
    pure (showOrd (Key.cmp (← keyToks na la) (← keyToks nb lb)))
  | ["cmpold", na, la, nb, lb] => do
    pure (showOrd (Key.cmpOld (← keyToks na la) (← keyToks nb lb)))
  | ["hash", n, l] => do
    pure (showList showWrite (hashStream (← keyToks n l)))
  | ["raw", n, l] => do
    pure (showList hexStr (keyHasherWrites (← keyToks n l)))
  | ["gh", na, la, nb, lb] => do
    pure (if hashStream (← keyToks na la) = hashStream (← keyToks nb lb) then "1" else "0")
  | ["race", kind, n, l, nt, sched] => do
    let k ← keyToks n l
    let nt ← nt.toNat?
    let sched ← listTok String.toNat? sched
    let h := generateKeyHash demoH k
    let s0 ← match kind with
      | "static" => some (freshStatic nt)
      | "built" => some (freshBuilt h nt)
      | _ => none
    -- the given schedule, then every thread runs to completion (a call is at most 3 steps)
    let s := run codeOrds h s0 (sched ++ (List.range nt).flatMap (fun t => [t, t, t]))
    pure (showResults s h nt)
  | ["sched", kind, n, l, nt, grants] => do
    let k ← keyToks n l
    let nt ← nt.toNat?
    let grants ← listTok String.toNat? grants
    let h := generateKeyHash demoH k
    let s0 ← match kind with
      | "static" => some (freshStatic nt)
      | "built" => some (freshBuilt h nt)
      | _ => none
    -- exactly the grants the harness made: the yield point each grant starts from, then the results
    let (s, trace) := grants.foldl (fun (acc : Sys × List String) t =>
      (step codeOrds h acc.1 t, s!"{t}:{pcName (acc.1.pc t)}" :: acc.2)) (s0, [])
    pure s!"{showList id trace.reverse} {showResults s h nt}"
  | _ => none

end MetricsVerif.Driver.Key
