import MetricsVerif.Driver.Util
import MetricsVerif.Model.Statsd
import MetricsVerif.Model.StatsdRead

/-!
Line protocol of the `statsd` component (C09).  State: the long-lived writer (`none` before `new` and after a
panic).

    statsd new <max> <0|1> [<fixA> <fixB> <fixC>]                  → ok | panic
    statsd c|g <name> <labels> <value text> <ts text|~> <prefix|~> <globals>      → w=<n> d=<n> | panic
    statsd h|d <name> <labels> <value texts> <rate text|~> <prefix|~> <globals>   → w=<n> d=<n> | panic
    statsd drain                                                   → emitted slices (hex list)
    statsd parse <payload>                                         → what the grammar-level reader sees
    statsd cfg udp|unixgram|unix <max|~>                           → err | panic | ok max=<n> lp=<0|1>
                                                                     (builder validation + the writer of Forwarder::run;
                                                                      on `ok` the state becomes that writer)
    statsd validate udp|unixgram|unix <max|~>                      → ok | err   (DogStatsDBuilder::validate_max_payload_len)
    statsd fprefix <global prefix|~> <name>                        → the prefix State::flush passes for that name

All strings are hex of their bytes; labels are `k:v` pairs.
-/
namespace MetricsVerif.Driver.Statsd
open MetricsVerif.Driver MetricsVerif.Statsd

abbrev St := Option Writer

def tags (s : String) : Option (List Tag) := listTok (pairTok unhexBytes unhexBytes) s

def bit (s : String) : Option Bool := if s == "1" then some true else if s == "0" then some false else none

def tyByte (s : String) : Option UInt8 :=
  if s == "c" then some 99 else if s == "g" then some 103 else if s == "h" then some 104
  else if s == "d" then some 100 else none

def answer (r : Option (Writer × Nat × Nat)) : St × String :=
  match r with
  | some (w, wr, dr) => (some w, s!"w={wr} d={dr}")
  | none => (none, "panic")

def showMsg (m : MetricsVerif.StatsdRead.Msg) : String :=
  let opt (o : Option Bytes) := match o with | some b => hexBytes b | none => "~"
  s!"{hexBytes m.name} {showList hexBytes m.values} {hexBytes m.ty} {opt m.rate} " ++
  s!"{showList (fun kv => hexBytes kv.1 ++ ":" ++ hexBytes kv.2) m.tags} {opt m.ts}"

def handle (st : St) (args : List String) : Option (St × String) :=
  match args with
  | ["new", max, lp] => do
    let max ← max.toNat?
    let lp ← bit lp
    match new max lp Fixes.all with
    | some w => pure (some w, "ok")
    | none => pure (none, "panic")
  | ["new", max, lp, a, b, c] => do
    let max ← max.toNat?
    let lp ← bit lp
    match new max lp ⟨← bit a, ← bit b, ← bit c⟩ with
    | some w => pure (some w, "ok")
    | none => pure (none, "panic")
  | ["drain"] => do
    let w ← st
    let (w', slices) := payloads w
    pure (some w', showList hexBytes slices)
  | ["cfg", t, m] => do
    let t ← (if t == "udp" then some Transport.udp else if t == "unixgram" then some Transport.unixgram
             else if t == "unix" then some Transport.unix else none)
    let m ← optTok String.toNat? m
    match buildWriter t m Fixes.all with
    | none => pure (none, "err")
    | some none => pure (none, "panic")
    | some (some w) => pure (some w, s!"ok max={w.max} lp={if w.lp then 1 else 0}")
  | ["validate", t, m] => do
    let t ← (if t == "udp" then some Transport.udp else if t == "unixgram" then some Transport.unixgram
             else if t == "unix" then some Transport.unix else none)
    let m ← optTok String.toNat? m
    pure (st, if validateMaxPayloadLen t m then "ok" else "err")
  | ["fprefix", g, name] => do
    let g ← optTok unhexBytes g
    let name ← unhexBytes name
    match flushPrefix g name with
    | some p => pure (st, hexBytes p)
    | none => pure (st, "~")
  | ["parse", p] => do
    let p ← unhexBytes p
    match MetricsVerif.StatsdRead.parsePayload p with
    | some m => pure (st, showMsg m)
    | none => pure (st, "reject")
  | [k, name, labels, v, x, pfx, globals] => do
    let w ← st
    let ty ← tyByte k
    let name ← unhexBytes name
    let labels ← tags labels
    let pfx ← optTok unhexBytes pfx
    let globals ← tags globals
    if k == "c" || k == "g" then
      let v ← unhexBytes v
      let ts ← optTok unhexBytes x
      pure (answer (writeScalar w ⟨ty, name, labels, ts, none, pfx, globals⟩ v))
    else
      let vs ← listTok unhexBytes v
      let rate ← optTok unhexBytes x
      pure (answer (writeHist w ⟨ty, name, labels, none, rate, pfx, globals⟩ vs))
  | _ => none

end MetricsVerif.Driver.Statsd
