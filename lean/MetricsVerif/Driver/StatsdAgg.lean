import MetricsVerif.Driver.Util
import MetricsVerif.Model.StatsdAgg

namespace MetricsVerif.Driver.StatsdAgg
open MetricsVerif.Driver MetricsVerif.StatsdAgg

/-- thread program: calls joined by `+`: `i<n>` increment, `a<v>` absolute, `f` flush -/
def progTok (s : String) : Option (List Call) :=
  if s == "-" then some [] else
  (s.splitOn "+").mapM (fun c =>
    match c.toList with
    | ['f'] => some Call.flush
    | 'i' :: r => (String.ofList r).toNat?.map Call.inc
    | 'a' :: r => (String.ofList r).toNat?.map Call.abs
    | _ => none)

def schedTok (s : String) : Option (List Nat) :=
  if s == "-" then some [] else (s.splitOn ".").mapM String.toNat?

def handle (args : List String) : Option String :=
  match args with
  | ["run", legacy, progs, sched] => do
    let progs ← listTok progTok progs
    let sched ← schedTok sched
    let (s, labels) := sched.foldl (fun (acc : Sys × List String) tid =>
        let lbl := match acc.1.threads[tid]? with | some t => t.pc.label | none => "nothread"
        (step acc.1 tid, acc.2 ++ [lbl])) (init (legacy == "1") progs, [])
    let outs := showList (fun (o : Nat × Bool) => if o.2 then s!"d{o.1}" else "skip") s.outcomes.reverse
    pure s!"{".".intercalate labels} | {outs}"
  | ["gauge", calls] => do
    let calls ← listTok (fun c => match c.toList with
      | ['f'] => some GCall.flush
      | 's' :: r => (String.ofList r).toNat?.map GCall.set
      | _ => none) calls
    pure (showList toString (gaugeRun calls 0))
  | _ => none

end MetricsVerif.Driver.StatsdAgg
