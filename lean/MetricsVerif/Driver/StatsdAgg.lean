import MetricsVerif.Driver.Util
import MetricsVerif.Model.StatsdAgg
import MetricsVerif.Model.StatsdHist

namespace MetricsVerif.Driver.StatsdAgg
open MetricsVerif.Driver MetricsVerif.StatsdAgg

/-- thread program: calls joined by `+`: `i<n>` increment, `a<v>` absolute, `f` flush -/
def progTok (s : String) : Option (List Call) :=
  if s == "-" then some [] else
  (s.splitOn "+").mapM (fun c =>
    match c.toList with
    | ['f'] => some Call.flush
    | 'i' :: r => (String.ofList r).toNat?.map Call.inc
    | 'a' :: r => (String.ofList r).toNat?.map Call.abs
    | _ => none)

def schedTok (s : String) : Option (List Nat) :=
  if s == "-" then some [] else (s.splitOn ".").mapM String.toNat?

def handle (args : List String) : Option String :=
  match args with
  | ["run", legacy, progs, sched] => do
    let progs ← listTok progTok progs
    let sched ← schedTok sched
    let (s, labels) := sched.foldl (fun (acc : Sys × List String) tid =>
        let lbl := match acc.1.threads[tid]? with | some t => t.pc.label | none => "nothread"
        (step acc.1 tid, acc.2 ++ [lbl])) (init (legacy == "1") progs, [])
    let outs := showList (fun (o : Nat × Bool) => if o.2 then s!"d{o.1}" else "skip") s.outcomes.reverse
    pure s!"{".".intercalate labels} | {outs}"
  | ["absrace", progs, sched] => do
    -- number of K-C10-abs-race window steps of the schedule (`absRaceCount`, Model/StatsdAgg.lean)
    let progs ← listTok progTok progs
    let sched ← schedTok sched
    pure (toString (absRaceCount (init false progs) false sched))
  | ["visits", vs] => do
    -- the counter visits of any number of `State::flush`es, in order: `<key id>:<delta>:<0|1 = write accepted>`;
    -- answer per visit: `w` written, `r` decided but the write was rejected, `s` skipped (`visits`, Model/StatsdAgg.lean)
    let vs ← listTok (fun c => match c.splitOn ":" with
      | [k, d, ok] => do
        let k ← k.toNat?
        let d ← d.toNat?
        if ok == "1" then pure (Visit.mk k d true) else if ok == "0" then pure (Visit.mk k d false) else none
      | _ => none) vs
    pure (showList (fun (o : Nat × Nat × Bool × Bool) => if o.2.2.2 then "w" else if o.2.2.1 then "r" else "s")
      (visits [] vs))
  | ["gauge", calls] => do
    let calls ← listTok (fun c => match c.toList with
      | ['f'] => some GCall.flush
      | 's' :: r => (String.ofList r).toNat?.map GCall.set
      | _ => none) calls
    pure (showList toString (gaugeRun calls 0))
  | ["gaugeops", calls] => do
    -- s<bits> set, i<bits> increment, d<bits> decrement, f flush; f64 arithmetic on bit patterns
    let calls ← listTok (fun c => match c.toList with
      | ['f'] => some GOp.flush
      | 's' :: r => (String.ofList r).toNat?.map GOp.set
      | 'i' :: r => (String.ofList r).toNat?.map GOp.incr
      | 'd' :: r => (String.ofList r).toNat?.map GOp.decr
      | _ => none) calls
    let add := fun (a b : Nat) => (Float.ofBits a.toUInt64 + Float.ofBits b.toUInt64).toBits.toNat
    let sub := fun (a b : Nat) => (Float.ofBits a.toUInt64 - Float.ofBits b.toUInt64).toBits.toNat
    pure (showList toString (gaugeOps add sub calls 0))
  | ["hist", b, recs, nflush, sched] => do
    -- histogram (sampling off): recorder threads `v+v+…` (`-` = none), then ONE flusher doing `nflush` State::flush'es
    let b ← b.toNat?
    let recs ← listTok (fun r => if r == "-" then some [] else (r.splitOn "+").mapM String.toNat?) recs
    let nflush ← nflush.toNat?
    let sched ← schedTok sched
    let f := recs.length
    let answers := StatsdHist.findAnswers b recs sched nflush []
    if answers.length != nflush then none else
    let progs := StatsdHist.progsOf recs answers
    let (s, labels) := sched.foldl (fun (acc : Bucket.Sys × List String) tid =>
        let lbl := match acc.1.threads[tid]? with | some t => t.pc.label | none => "nothread"
        (StatsdHist.grant acc.1 tid, acc.2 ++ [lbl])) (Bucket.init b progs, [])
    let showVals (vs : List Nat) : String := if vs.isEmpty then "[]" else "[" ++ "/".intercalate (vs.map toString) ++ "]"
    let res := StatsdHist.flusherResults s f
    let fl := StatsdHist.flushesOf (StatsdHist.emptyAnswers res) (StatsdHist.clearedOf res)
    let outs := showList (fun (o : Option (List Nat)) => match o with | none => "skip" | some vs => showVals vs) fl
    pure s!"{".".intercalate labels} | {outs} | visible={showVals (Bucket.visible s)} | consistent={StatsdHist.consistent s f answers}"
  | _ => none

end MetricsVerif.Driver.StatsdAgg
