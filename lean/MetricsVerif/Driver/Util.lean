/-
Line-protocol helpers for the model driver (`mvdriver`): hex strings, lists, pairs, options.
Import-free so the driver links as a plain `lean_exe`.
-/
namespace MetricsVerif.Driver

def hexDigit (c : Char) : Option Nat :=
  if '0' ≤ c ∧ c ≤ '9' then some (c.toNat - '0'.toNat)
  else if 'a' ≤ c ∧ c ≤ 'f' then some (c.toNat - 'a'.toNat + 10)
  else none

def unhexBytes (s : String) : Option (List UInt8) :=
  if s == "-" then some [] else
  let rec go : List Char → List UInt8 → Option (List UInt8)
    | [], acc => some acc.reverse
    | [_], _ => none
    | a :: b :: rest, acc =>
      match hexDigit a, hexDigit b with
      | some x, some y => go rest (UInt8.ofNat (x * 16 + y) :: acc)
      | _, _ => none
  go s.toList []

def hexOfNat (n : Nat) : Char := if n < 10 then Char.ofNat (48 + n) else Char.ofNat (87 + n)

def hexBytes (bs : List UInt8) : String :=
  if bs.isEmpty then "-" else
  String.ofList (bs.flatMap (fun b => [hexOfNat (b.toNat / 16), hexOfNat (b.toNat % 16)]))

/-- hex token → string as `List Char` (UTF-8 decoded) -/
def unhexChars (s : String) : Option (List Char) := do
  let bs ← unhexBytes s
  let str ← String.fromUTF8? (ByteArray.mk bs.toArray)
  pure str.toList

def hexChars (cs : List Char) : String := hexBytes (String.ofList cs).toUTF8.toList

/-- `~` = none -/
def optTok (f : String → Option α) (s : String) : Option (Option α) :=
  if s == "~" then some none else (f s).map some

/-- `.` = empty list, else comma separated -/
def listTok (f : String → Option α) (s : String) : Option (List α) :=
  if s == "." then some [] else (s.splitOn ",").mapM f

def pairTok (f : String → Option α) (g : String → Option β) (s : String) : Option (α × β) :=
  match s.splitOn ":" with
  | [a, b] => do pure (← f a, ← g b)
  | _ => none

def showList (f : α → String) (xs : List α) : String :=
  if xs.isEmpty then "." else ",".intercalate (xs.map f)

def unhexNat (s : String) : Option Nat :=
  s.toList.foldlM (fun acc c => (hexDigit c).map (fun d => acc * 16 + d)) 0

end MetricsVerif.Driver
