import MetricsVerif.Driver.Util
import MetricsVerif.Model.Layers

/-
Line protocol of the `layers` component (C13).

  layers new <tree>                         → ok
  layers d <kind> <name> <unit> <desc>      → deliveries
  layers r <kind> <name> <labels> <meta>    → deliveries; the returned handle gets the next handle number (0,1,…)
  layers u <handle#> <upd>                  → deliveries
  layers drop                               → ok     the recorder tree is dropped; handles live on, d / r are bad ops afterwards
  layers mask <bits>                        → c|g|h|a|panic     what `add_route` makes of a raw `MetricKindMask` value
  layers cq <t> d|r <…as d / r…>            → ok     queue a client call for thread t (concurrent streams)
  layers cq <t> u s|o <i> <upd>             → ok     … an update through shared handle i (registered by `layers r`) / own handle i
  layers crun <T> <sched>                   → done|unfinished <global log>     T threads run the queued calls under the schedule
                                              (granted thread ids joined by `.`); log = `<t>><base>:<ev>` joined by `;` (raw calls,
                                              record_many NOT expanded), in real-time order
  layers cfree <T>                          → per thread `<t>><base>:<ev>;…` joined by `|`: what each thread causes under ANY schedule
                                              (`conc_complete`)

<tree> is one token, `/`-separated, prefix notation:
  b/<id>                                     base recorder
  p/<hex>/<tree>                             PrefixLayer::new(p).layer(tree)
  f/<ci>/<dfa>/<n>/<hex>{n}/<tree>           FilterLayer (case_insensitive, use_dfa) .layer(tree)
  s/<n>/<layer>{n}/<tree>                    Stack::new(tree).push(layer₁)…push(layerₙ);  layer = p/<hex> | f/<ci>/<dfa>/<n>/<hex>{n}
  r/<n>/<tree>/(<mask>/<hex>/<tree>){n}      RouterBuilder::from_recorder(default) + n × add_route;  mask = c|g|h|a
  g/<init>/<m>/<fop>{m}/<tree>               a FilterLayer built by a chain of builder calls, then .layer(tree);
                                             init = d (FilterLayer::default()) | f/<k>/<hex>{k} (from_patterns);
                                             fop = a/<hex> (add_pattern) | c/<0|1> (case_insensitive) | u/<0|1> (use_dfa);
                                             also allowed as a <layer> of `s`
  m/g/<init>/<n>/<lstep>{n}                  ONE FilterLayer value, changed and applied several times;
                                             lstep = <fop> | l/<tree> (.layer(tree)); the recorders produced are
                                             collected, in order, into a Fanout
  m/p/<hex>/<n>/<tree>{n}                    ONE PrefixLayer value applied to n recorders, collected into a Fanout
  n/<w>/<tree>{w}                            FanoutBuilder + w × add_recorder
<kind> = c|g|h;  <unit> = `~` or the unit's canonical label;  <meta> = opaque token;
<upd> = ci<n> | ca<n> | gi<bits> | gd<bits> | gs<bits> | hr<bits> | hm<bits>x<count>   (decimal)

deliveries: `none`, or per base recorder in ascending id `<id>=<ev>;<ev>…` joined by `|`, events in the
order that recorder received them:
  D/<kind>/<name>/<unit>/<desc>     R/<kind>/<name>/<labels>/<meta>     U/<kind>/<name>/<labels>/<meta>/<upd>
Received `record_many(v, n)` calls are shown as n × `hr<v>` (the property counts samples, not calls).
In the answer to `u`, k > 1 consecutive identical events of one recorder are written once as `<ev>*k`.
-/
namespace MetricsVerif.Driver.Layers
open MetricsVerif.Driver MetricsVerif.Layers

structure St where
  tree : Rec
  handles : List (Kind × Handle) := []
  /-- the recorder tree has been dropped (handles live on; describe / register are no longer possible) -/
  dropped : Bool := false
  /-- queued client calls of the concurrent streams: (thread, call), in queueing order -/
  queue : List (Nat × Call) := []

def kindTok : String → Option Kind
  | "c" => some .counter | "g" => some .gauge | "h" => some .histogram | _ => none
def Kind.tok : Kind → String
  | .counter => "c" | .gauge => "g" | .histogram => "h"

def maskTok : String → Option Mask
  | "c" => some .counter | "g" => some .gauge | "h" => some .histogram | "a" => some .all | _ => none

def boolTok : String → Option Bool
  | "0" => some false | "1" => some true | _ => none

/-- unit token: `~` or a non-empty lowercase/underscore label, kept opaque -/
def unitTok (s : String) : Option (Option Str) :=
  if s == "~" then some none
  else if !s.isEmpty && s.toList.all (fun c => c.isLower || c == '_') then some (some s.toList)
  else none

/-- metadata token: opaque, non-empty, none of the separators used in answers -/
def metaTok (s : String) : Option Str :=
  if !s.isEmpty && s.toList.all (fun c => c.isAlphanum || c == '+' || c == '-' || c == '~') then some s.toList else none

def takeN (f : List String → Option (α × List String)) : Nat → List String → Option (List α × List String)
  | 0, ts => some ([], ts)
  | n + 1, ts => do
    let (a, ts) ← f ts
    let (as, ts) ← takeN f n ts
    pure (a :: as, ts)

def hexTok1 : List String → Option (Str × List String)
  | t :: ts => (unhexChars t).map (·, ts)
  | [] => none

def parseFOp : List String → Option (FOp × List String)
  | "a" :: h :: ts => do pure (.add (← unhexChars h), ts)
  | "c" :: b :: ts => do pure (.ci (← boolTok b), ts)
  | "u" :: b :: ts => do pure (.dfa (← boolTok b), ts)
  | _ => none

def parseFInit : List String → Option (FilterCfg × List String)
  | "d" :: ts => some (FilterCfg.dflt, ts)
  | "f" :: k :: ts => do
    let (pats, ts) ← takeN hexTok1 (← k.toNat?) ts
    pure (FilterCfg.fromPatterns pats, ts)
  | _ => none

/-- `<init>/<m>/<fop>{m}` → the `FilterLayer` value after the chain of builder calls -/
def parseFilterChain (ts : List String) : Option (FilterCfg × List String) := do
  let (c, ts) ← parseFInit ts
  match ts with
  | m :: ts =>
    let (ops, ts) ← takeN parseFOp (← m.toNat?) ts
    pure (c.run ops, ts)
  | [] => none

def parseLayer : List String → Option (Layer × List String)
  | "p" :: h :: ts => do pure (.pfx (← unhexChars h), ts)
  | "g" :: ts => do
    let (c, ts) ← parseFilterChain ts
    pure (.filter c.patterns c.ci, ts)
  | "f" :: ci :: dfa :: n :: ts => do
    let ci ← boolTok ci
    let _ ← boolTok dfa
    let (pats, ts) ← takeN hexTok1 (← n.toNat?) ts
    pure (.filter pats ci, ts)
  | _ => none

/-- recursive descent with fuel (each call consumes at least one token) -/
def parseTree : Nat → List String → Option (Rec × List String)
  | 0, _ => none
  | fuel + 1, toks =>
    match toks with
    | "b" :: id :: ts => do pure (.base (← id.toNat?), ts)
    | "p" :: h :: ts => do
      let p ← unhexChars h
      let (r, ts) ← parseTree fuel ts
      pure (.pfx p r, ts)
    | "f" :: ci :: dfa :: n :: ts => do
      let ci ← boolTok ci
      let _ ← boolTok dfa
      let (pats, ts) ← takeN hexTok1 (← n.toNat?) ts
      let (r, ts) ← parseTree fuel ts
      pure (.filter pats ci r, ts)
    | "s" :: n :: ts => do
      let (ls, ts) ← takeN parseLayer (← n.toNat?) ts
      let (r, ts) ← parseTree fuel ts
      pure (stack r ls, ts)
    | "r" :: n :: ts => do
      let (d, ts) ← parseTree fuel ts
      let route (ts : List String) : Option (((Mask × Str) × Rec) × List String) :=
        match ts with
        | m :: h :: ts => do
          let m ← maskTok m
          let p ← unhexChars h
          let (r, ts) ← parseTree fuel ts
          pure (((m, p), r), ts)
        | _ => none
      let (rs, ts) ← takeN route (← n.toNat?) ts
      pure (.router d (rs.map (·.1)) (rs.map (·.2)), ts)
    | "n" :: w :: ts => do
      let (rs, ts) ← takeN (parseTree fuel) (← w.toNat?) ts
      pure (.fanout rs, ts)
    | "g" :: ts => do
      let (c, ts) ← parseFilterChain ts
      let (r, ts) ← parseTree fuel ts
      pure (c.layer r, ts)
    | "m" :: "g" :: ts => do
      let (c, ts) ← parseFInit ts
      let lstep (ts : List String) : Option (LStep × List String) :=
        match ts with
        | "l" :: ts => do
          let (r, ts) ← parseTree fuel ts
          pure (.layer r, ts)
        | ts => do
          let (o, ts) ← parseFOp ts
          pure (.cfg o, ts)
      match ts with
      | n :: ts =>
        let (steps, ts) ← takeN lstep (← n.toNat?) ts
        pure (.fanout (c.reuse steps), ts)
      | [] => none
    | "m" :: "p" :: h :: n :: ts => do
      let p ← unhexChars h
      let (rs, ts) ← takeN (parseTree fuel) (← n.toNat?) ts
      pure (.fanout (rs.map (prefixLayer p)), ts)
    | _ => none

def treeTok (s : String) : Option Rec :=
  let toks := s.splitOn "/"
  match parseTree (toks.length + 1) toks with
  | some (r, []) => some r
  | _ => none

def updTok (s : String) : Option Upd :=
  match s.toList with
  | 'c' :: 'i' :: r => (String.ofList r).toNat?.map .cinc
  | 'c' :: 'a' :: r => (String.ofList r).toNat?.map .cabs
  | 'g' :: 'i' :: r => (String.ofList r).toNat?.map .ginc
  | 'g' :: 'd' :: r => (String.ofList r).toNat?.map .gdec
  | 'g' :: 's' :: r => (String.ofList r).toNat?.map .gset
  | 'h' :: 'r' :: r => (String.ofList r).toNat?.map .hrec
  | 'h' :: 'm' :: r =>
    match (String.ofList r).splitOn "x" with
    | [v, n] => do pure (.hmany (← v.toNat?) (← n.toNat?))
    | _ => none
  | _ => none

def Upd.tok : Upd → String
  | .cinc n => s!"ci{n}" | .cabs n => s!"ca{n}"
  | .ginc v => s!"gi{v}" | .gdec v => s!"gd{v}" | .gset v => s!"gs{v}"
  | .hrec v => s!"hr{v}" | .hmany v n => s!"hm{v}x{n}"

def labelsTok (ls : List (Str × Str)) : String :=
  showList (fun (kv : Str × Str) => s!"{hexChars kv.1}:{hexChars kv.2}") ls

def opEvent (op : Op) : String :=
  if op.reg then s!"R/{Kind.tok op.kind}/{hexChars op.name}/{labelsTok op.labels}/{String.ofList op.metadata}"
  else
    let u := match op.unit with | none => "~" | some u => String.ofList u
    s!"D/{Kind.tok op.kind}/{hexChars op.name}/{u}/{hexChars op.desc}"

def updEvent (op : Op) (u : Upd) : String :=
  s!"U/{Kind.tok op.kind}/{hexChars op.name}/{labelsTok op.labels}/{String.ofList op.metadata}/{Upd.tok u}"

/-- group by base id (ascending), keeping each base's order of reception -/
def showDeliveries (ds : List (Nat × String)) : String :=
  let ids := (ds.map (·.1)).eraseDups.mergeSort (fun a b => decide (a ≤ b))
  if ids.isEmpty then "none" else
  "|".intercalate (ids.map (fun id =>
    s!"{id}=" ++ ";".intercalate ((ds.filter (·.1 == id)).map (·.2))))

/-- run-length form of consecutive identical events: `ev`, or `ev*k` for k > 1 -/
def rleGo : String → Nat → List String → List String
  | cur, n, [] => [if n > 1 then s!"{cur}*{n}" else cur]
  | cur, n, x :: xs => if x == cur then rleGo cur (n + 1) xs else (if n > 1 then s!"{cur}*{n}" else cur) :: rleGo x 1 xs
def rle : List String → List String
  | [] => []
  | x :: xs => rleGo x 1 xs

def showDeliveriesRle (ds : List (Nat × String)) : String :=
  let ids := (ds.map (·.1)).eraseDups.mergeSort (fun a b => decide (a ≤ b))
  if ids.isEmpty then "none" else
  "|".intercalate (ids.map (fun id =>
    s!"{id}=" ++ ";".intercalate (rle ((ds.filter (·.1 == id)).map (·.2)))))

def evTok : Ev → String
  | .got b op => s!"{b}:{opEvent op}"
  | .upd l u => s!"{l.1}:{updEvent l.2 u}"

/-- the client calls queued for thread `t`, in order -/
def scriptOf (q : List (Nat × Call)) (t : Nat) : List Call := (q.filter (·.1 == t)).map (·.2)

/-- is every update of the script applied to an existing handle of its kind?  (`own` = kinds of the thread's own
    handles so far) -/
def scriptOk (shared : List Kind) : List Kind → List Call → Bool
  | _, [] => true
  | own, .op o :: cs => scriptOk shared (if o.reg then own ++ [o.kind] else own) cs
  | own, .upd sh i u :: cs =>
    (match (if sh then shared else own)[i]? with
     | some k => decide (k = u.kind)
     | none => false) && scriptOk shared own cs

def schedTok (s : String) : Option (List Nat) :=
  if s == "-" then some [] else (s.splitOn ".").mapM (·.toNat?)

def handle (st : Option St) (args : List String) : Option (Option St × String) :=
  match args with
  | ["drop"] => do
    let s ← st
    pure (some { s with dropped := true }, "ok")
  | ["mask", b] => do
    let b ← b.toNat?
    pure (st, match Mask.ofBits b with
      | some .counter => "c" | some .gauge => "g" | some .histogram => "h" | some .all => "a" | none => "panic")
  | ["cq", t, "d", k, n, u, d] => do
    let s ← st
    if s.dropped then none else
    let op : Op := { reg := false, kind := ← kindTok k, name := ← unhexChars n, labels := [],
                     unit := ← unitTok u, desc := ← unhexChars d, metadata := [] }
    pure (some { s with queue := s.queue ++ [(← t.toNat?, .op op)] }, "ok")
  | ["cq", t, "r", k, n, l, m] => do
    let s ← st
    if s.dropped then none else
    let op : Op := { reg := true, kind := ← kindTok k, name := ← unhexChars n,
                     labels := ← listTok (pairTok unhexChars unhexChars) l,
                     unit := none, desc := [], metadata := ← metaTok m }
    pure (some { s with queue := s.queue ++ [(← t.toNat?, .op op)] }, "ok")
  | ["cq", t, "u", src, i, u] => do
    let s ← st
    let sh ← (match src with | "s" => some true | "o" => some false | _ => none)
    pure (some { s with queue := s.queue ++ [(← t.toNat?, .upd sh (← i.toNat?) (← updTok u))] }, "ok")
  | ["crun", n, sched] => do
    let s ← st
    let n ← n.toNat?
    let sched ← schedTok sched
    if !(List.range n).all (fun t => scriptOk (s.handles.map (·.1)) [] (scriptOf s.queue t)) then none else
    if !(s.queue.all (fun c => decide (c.1 < n)) && sched.all (fun t => decide (t < n))) then none else
    let fin := (Sys.init s.tree (s.handles.map (·.2)) (scriptOf s.queue)).run sched
    let evs := fin.log.map (fun x => s!"{x.1}>{evTok x.2}")
    let done := (List.range n).all (fun t => (fin.threads t).finished)
    pure (some { s with queue := [] }, (if done then "done " else "unfinished ") ++ (if evs.isEmpty then "none" else ";".intercalate evs))
  | ["cfree", n] => do
    let s ← st
    let n ← n.toNat?
    if !(List.range n).all (fun t => scriptOk (s.handles.map (·.1)) [] (scriptOf s.queue t)) then none else
    if !(s.queue.all (fun c => decide (c.1 < n))) then none else
    let per := (List.range n).map (fun t =>
      let evs := (seqFrom s.tree (s.handles.map (·.2)) [] (scriptOf s.queue t)).map evTok
      s!"{t}>" ++ (if evs.isEmpty then "none" else ";".intercalate evs))
    pure (some { s with queue := [] }, "|".intercalate per)
  | ["new", tree] => do
    let r ← treeTok tree
    pure (some { tree := r }, "ok")
  | ["d", k, n, u, d] => do
    let s ← st
    if s.dropped then none else
    let op : Op := { reg := false, kind := ← kindTok k, name := ← unhexChars n, labels := [],
                     unit := ← unitTok u, desc := ← unhexChars d, metadata := [] }
    pure (some s, showDeliveries ((s.tree.deliver op).map (fun d => (d.1, opEvent d.2))))
  | ["r", k, n, l, m] => do
    let s ← st
    if s.dropped then none else
    let op : Op := { reg := true, kind := ← kindTok k, name := ← unhexChars n,
                     labels := ← listTok (pairTok unhexChars unhexChars) l,
                     unit := none, desc := [], metadata := ← metaTok m }
    pure (some { s with handles := s.handles ++ [(op.kind, s.tree.handle op)] },
          showDeliveries ((s.tree.deliver op).map (fun d => (d.1, opEvent d.2))))
  | ["u", i, u] => do
    let s ← st
    let (k, h) ← s.handles[← i.toNat?]?
    let u ← updTok u
    if u.kind ≠ k then none else
    pure (some s, showDeliveriesRle (((h.apply u).flatMap normD).map (fun d => (d.1.1, updEvent d.1.2 d.2))))
  | _ => none

end MetricsVerif.Driver.Layers
