import MetricsVerif.Driver.Util
import MetricsVerif.Driver.Prom
import MetricsVerif.Model.Histogram
import MetricsVerif.Model.Rolling
import MetricsVerif.Model.DistBuilder
import MetricsVerif.Model.Quantile

/-
Driver of the C15 models.  Ops (component `c15`):
  hnew <slot> <bounds>          → ok | none            Histogram::new
  hrec <slot> <v>               → ok                   Histogram::record
  hmany <slot> <vs>             → ok                   Distribution::record_samples / Histogram::record_many
  hread <slot>                  → <buckets> <count> <sum>
  hreadns <slot>                → <buckets> <count>    (order-only stream: sums are not compared)
  rnew <n> <d>                  → ok                   Distribution::new_summary
  rnewcfg <count|~> <dur|~>     → <n> <d>              PrometheusBuilder::{set_bucket_count, set_bucket_duration} (or neither) →
                                                       DistributionBuilder::get_distribution → new_summary; answers the window
  runit <minU>                  → ok                   value scale of the following radd/rquant: min_possible in value units
  rquant <now> <num> <den>      → none | zero | <v>    snapshot(now).quantile(num/den), 0 < num < den: the retained sample whose
                                                       bin answers
  radd <v>@<t>,…                → ok                   Distribution::record_samples (summary arm)
  rsnap <now>                   → <count> <sum> <retained> <sorted retained samples> <min()> <max()>
  rsnapc <now>                  → <count> <sum> <retained> <quantile token: zero|some>
  rsnapq <now>                  → <count> <sum> <quantile token>   (what a rendered summary shows)
  guard <buckets|metric|quantiles|duration> <n> → ok | err   the builder's guards: a slice of length n / a duration of n ns
  dist <global|~> <calls> <name>→ <type> histogram:<bounds> | <type> summary
  qnew <q>                      → <value> <min|max|p>  Quantile::new (q and value in units of 1/1024, or nan/ninf/pinf)
  qcfg <qs>                     → ok <n> | err         PrometheusBuilder::set_quantiles / parse_quantiles: stores the parsed list
  rrender <now>                 → <label>:<shown>,…    the quantile lines of the rendered summary series, in order; shown =
                                                       none | zero | <v> (bin of the retained sample v) | x<v> (exactly v)
Values: `nan`, `ninf`, `pinf` or an integer.
-/
namespace MetricsVerif.Driver.C15
open MetricsVerif.Driver MetricsVerif.Histogram MetricsVerif.Rolling MetricsVerif

structure St where
  hists : List (Nat × Hist) := []
  summ : Option SummaryDist := none
  minU : Nat := 0
  quantiles : List Quantile.Quantile := []

def fvTok (s : String) : Option FV :=
  match s with
  | "nan" => some .nan
  | "ninf" => some .ninf
  | "pinf" => some .pinf
  | _ => s.toInt?.map FV.fin

def showFV : FV → String
  | .nan => "nan"
  | .ninf => "ninf"
  | .pinf => "pinf"
  | .fin n => toString n

/-- total order used only to print a multiset canonically: nan < -inf < finite < +inf -/
def fvKey : FV → Nat × Int
  | .nan => (0, 0)
  | .ninf => (1, 0)
  | .fin n => (2, n)
  | .pinf => (3, 0)

def fvLe (a b : FV) : Bool :=
  let ka := fvKey a; let kb := fvKey b
  ka.1 < kb.1 || (ka.1 == kb.1 && ka.2 ≤ kb.2)

def getHist (st : St) (slot : Nat) : Option Hist := (st.hists.find? (·.1 == slot)).map (·.2)
def setHist (st : St) (slot : Nat) (h : Hist) : St :=
  { st with hists := (slot, h) :: st.hists.filter (fun p => p.1 != slot) }

def sampleTok (s : String) : Option (FV × Nat) :=
  match s.splitOn "@" with
  | [v, t] => do pure (← fvTok v, ← t.toNat?)
  | _ => none

def showNats (l : List Nat) : String := showList toString l

def handle (st : St) (args : List String) : Option (St × String) :=
  match args with
  | ["hnew", slot, bounds] => do
    let slot ← slot.toNat?
    let bounds ← listTok fvTok bounds
    match Hist.new bounds with
    | some h => pure (setHist st slot h, "ok")
    | none => pure (st, "none")
  | ["hrec", slot, v] => do
    let slot ← slot.toNat?
    let h ← getHist st slot
    pure (setHist st slot (h.record (← fvTok v)), "ok")
  | ["hmany", slot, vs] => do
    let slot ← slot.toNat?
    let h ← getHist st slot
    let vs ← listTok fvTok vs
    pure (setHist st slot (h.recordSamples (vs.map (fun v => (v, 0)))), "ok")
  | ["hread", slot] => do
    let h ← getHist st (← slot.toNat?)
    pure (st, s!"{showNats h.buckets} {h.infBucket} {showFV h.sum.val}")
  | ["hreadns", slot] => do
    let h ← getHist st (← slot.toNat?)
    pure (st, s!"{showNats h.buckets} {h.infBucket}")
  | ["rnew", n, d] => do
    let n ← n.toNat?
    let d ← d.toNat?
    if n == 0 || d == 0 then none else
    pure ({ st with summ := some (SummaryDist.new n d) }, "ok")
  | ["rnewcfg", count, dur] => do
    let count ← optTok (fun s => s.toNat?) count
    let dur ← optTok (fun s => s.toNat?) dur
    if count == some 0 || dur == some 0 then none else
    let (n, d) := DistBuilder.windowOf count dur
    pure ({ st with summ := some (SummaryDist.new n d) }, s!"{n} {d}")
  | ["runit", m] => do
    pure ({ st with minU := (← m.toNat?) }, "ok")
  | ["rquant", now, num, den] => do
    let s ← st.summ
    let num ← num.toNat?
    let den ← den.toNat?
    if num == 0 || den ≤ num then none else
    match snapshotQuantile st.minU s.rolling (← now.toNat?) num den with
    | .none => pure (st, "none")
    | .zero => pure (st, "zero")
    | .bin v => pure (st, showFV v)
  | ["radd", samples] => do
    let s ← st.summ
    let samples ← listTok sampleTok samples
    pure ({ st with summ := some (s.recordSamples samples) }, "ok")
  | ["rsnap", now] => do
    let s ← st.summ
    let snap := s.rolling.snapshot (← now.toNat?)
    let sorted := snap.mergeSort fvLe
    -- min()/max() of the merged sketch; this stream has positive samples only, where the repaired and the unrepaired
    -- `Summary::merge` coincide
    let mm := snapshotMinMax false s.rolling (← now.toNat?)
    pure (st, s!"{s.rolling.count} {showFV s.sum.val} {snap.length} {showList showFV sorted} {showFV mm.min} {showFV mm.max}")
  | ["rsnapc", now] => do
    let s ← st.summ
    let (q, sum, count) := s.render (← now.toNat?)
    let snap := s.rolling.snapshot (← now.toNat?)
    let qs := match q with
      | .zero => "zero"
      | .within _ => "some"
    pure (st, s!"{count} {showFV sum} {snap.length} {qs}")
  | ["rsnapq", now] => do
    let s ← st.summ
    let (q, sum, count) := s.render (← now.toNat?)
    let qs := match q with
      | .zero => "zero"
      | .within _ => "some"
    pure (st, s!"{count} {showFV sum} {qs}")
  | ["guard", which, n] => do
    let n ← n.toNat?
    match which with
    | "buckets" => pure (st, if (DistBuilder.setBucketsChecked (List.replicate n 0)).isSome then "ok" else "err")
    | "metric" =>
      pure (st, if (DistBuilder.setBucketsForMetricChecked [] (.full []) (List.replicate n 0)).isSome then "ok" else "err")
    | "quantiles" => pure (st, if DistBuilder.guardNonEmpty n then "ok" else "err")
    | "duration" => pure (st, if DistBuilder.guardDuration n then "ok" else "err")
    | _ => none
  | ["dist", global, calls, name] => do
    let global ← optTok (fun s => (s.splitOn "+").mapM Prom.intTok?) global
    let calls ← listTok Prom.matcherTok calls
    let name ← unhexChars name
    let ty := String.ofList (DistBuilder.typeFor global calls name)
    match DistBuilder.distributionFor global calls name with
    | .hist bounds _ _ _ => pure (st, s!"{ty} histogram:{"+".intercalate (bounds.map toString)}")
    | .summ _ _ => pure (st, s!"{ty} summary")
  | ["qnew", q] => do
    let q := Quantile.Quantile.new (← fvTok q)
    let l := match q.label with
      | .min => "min"
      | .max => "max"
      | .p => "p"
    pure (st, s!"{showFV q.value} {l}")
  | ["qcfg", qs] => do
    let qs ← listTok fvTok qs
    match Quantile.setQuantiles qs with
    | some l => pure ({ st with quantiles := l }, s!"ok {l.length}")
    | none => pure (st, "err")
  | ["rrender", now] => do
    let s ← st.summ
    let lines := Quantile.renderQuantiles st.minU st.quantiles s.rolling (← now.toNat?)
    let showShown : Quantile.Shown → String
      | .placeholder => "none"
      | .zeroClass => "zero"
      | .near v => showFV v
      | .exact v => "x" ++ showFV v
    pure (st, showList (fun (ln : FV × Quantile.Shown) => s!"{showFV ln.1}:{showShown ln.2}") lines)
  | _ => none

end MetricsVerif.Driver.C15
