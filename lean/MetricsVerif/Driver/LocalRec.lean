import MetricsVerif.Driver.Util
import MetricsVerif.Model.LocalRec

/-
Line protocol of the `localrec` component (C01).  Per case (a `#` line resets the state):

  localrec init <global>            <global> = `~` (no global recorder installed in the process) or its id   → ok
  localrec <tid> install <r>        let g = set_default_local_recorder(&r)          → g<id> | rejected
  localrec <tid> drop <g>           drop(g)                                         → ok | rejected
  localrec <tid> forget <g>         mem::forget(g)                                  → ok | rejected
  localrec <tid> end <r>            the borrow of r ends                            → ok | rejected
  localrec <tid> enter <r>          with_local_recorder(&r, || {                    → g<id> | rejected
  localrec <tid> exit               })  closure returned                            → ok | rejected
  localrec <tid> unwind             })  a panic unwound through the closure frame   → ok | rejected
  localrec <tid> setglobal <r>      set_global_recorder(r)                          → ok | err
  localrec <tid> keepref            kept = with_recorder(|r| r)   (type probe)      → rejected
  localrec <tid> dupguard <g>       g.clone() / g used after move (type probe)      → rejected
  localrec <tid> emit <form#>       the form-th macro call of the compiled table    →
        <target> stale=<0|1> lifo=<0|1> handle=<target|~> <row>
     handle   = the recorder whose register_* made the handle the call site got (`~` for describe_* forms)
     <target> = loc:<r> | glob:<r> | noop      lifo = thread's ops so far were all LIFO / no forget
     <row>    = <r|d><c|g|h> <name> <labels k:v,…> <target|~> <level|~> <module_path|~> <unit|~> <desc|~>   (hex strings)
-/
namespace MetricsVerif.Driver.LocalRec
open MetricsVerif.Driver MetricsVerif.LocalRec

structure DSt where
  st : St
  broken : List Tid := []      -- threads whose history contains a non-LIFO drop or a forget

def hexS (s : String) : String := hexBytes s.toUTF8.toList

def optS : Option String → String
  | none => "~"
  | some s => hexS s

def kindS : Kind → String
  | .counter => "c" | .gauge => "g" | .histogram => "h"

def levelS : Level → String
  | .trace => "trace" | .debug => "debug" | .info => "info" | .warn => "warn" | .error => "error"

def rowS (r : Row) : String :=
  let lv := match r.level with | none => "~" | some l => levelS l
  s!"{if r.describe then "d" else "r"}{kindS r.kind} {hexS r.name} {showList (fun (kv : String × String) => hexS kv.1 ++ ":" ++ hexS kv.2) r.labels} {optS r.target} {lv} {optS r.modulePath} {optS r.unit} {optS r.desc}"

def targetS : Target → String
  | .loc r => s!"loc:{r}" | .glob r => s!"glob:{r}" | .noop => "noop"

def b01 (b : Bool) : String := if b then "1" else "0"

def outS (lifo : Bool) : Out → String
  | .guard g => s!"g{g}"
  | .ok => "ok"
  | .err => "err"
  | .rejected => "rejected"
  | .emitted e =>
    let h := match handleOf e with | some tg => targetS tg | none => "~"
    s!"{targetS e.target} stale={b01 e.stale} lifo={b01 lifo} handle={h} {rowS (expand modPath e.call)}"

def parseOp : List String → Option Op
  | ["install", r] => r.toNat?.map .install
  | ["drop", g] => g.toNat?.map .dropGuard
  | ["forget", g] => g.toNat?.map .forget
  | ["end", r] => r.toNat?.map .endBorrow
  | ["enter", r] => r.toNat?.map .enter
  | ["exit"] => some (.exit false)
  | ["unwind"] => some (.exit true)
  | ["setglobal", r] => r.toNat?.map .setGlobal
  | ["keepref"] => some .keepRef
  | ["dupguard", g] => g.toNat?.map .dupGuard
  | ["emit", f] => do
    let i ← f.toNat?
    let c ← forms[i]?
    pure (.emit c)
  | _ => none

def handle (d : Option DSt) (args : List String) : Option (Option DSt × String) :=
  match d, args with
  | none, ["init", g] => do
    let g ← optTok String.toNat? g
    pure (some { st := init g }, "ok")
  | some d, tid :: rest => do
    let t ← tid.toNat?
    let op ← parseOp rest
    let ok := opOk d.st t op
    let broken := if ok || d.broken.contains t then d.broken else t :: d.broken
    let (s', o) := step d.st t op
    pure (some { st := s', broken := broken }, outS (!broken.contains t) o)
  | _, _ => none

end MetricsVerif.Driver.LocalRec
