import MetricsVerif.Driver.Util
import MetricsVerif.Model.Reservoir
import MetricsVerif.Model.ReservoirConc

/-!
Line protocol of component `reservoir`:

* `new <cap>`                → `ok`
* `push <bits:16 hex> <raw>` → `ok ~` (generator not consulted) | `ok <upper>` | `panic <upper>`
* `consume <k|~>`            → `len=<len> rate=<bits:16 hex> vals=<list of 16-hex>`; `k` = read only the first `k`
                               values before dropping the `Drain`
* `empty`                    → `1` | `0`
* `enum <cap> <n>`           → `total=<#choice vectors> counts=<per-position retention counts>` (from `vectors`/`retained`)
* `consumef <k|~>`           → as `consume`, the closure leaks the `Drain` (`mem::forget`): no count reset
* `consumes <script> <fin>`   → a consume whose closure reads the `Drain` OBJECT (Model `DrainIt`) by a script.
                               `script`: comma list (`.` empty) of `n` next(), `t<k>` nth(k), `l` len(), `r` sample_rate(),
                               `h` size_hint(), `a` by_ref().collect(), `c` by_ref().count(), `z` by_ref().last();
                               `fin` (what finally takes the Drain by value): `D` drop, `C` count(), `L` last(),
                               `V` collect(), `S<k>` skip(k).collect().  Answer: `outs=<;-joined answers> fin=<answer>`;
                               value = 16 hex | `~`, value lists `+`-joined (`-` empty), counts `#n`, size_hint `lo:hi|~`
* `builder <calls> <n>`      → `DogStatsDBuilder::default()` + the calls (`s0`/`s1` with_histogram_sampling, `z<n>`
                               with_histogram_reservoir_size; `.` none), one histogram, `n` values recorded, one flush:
                               `sampled=<0|1> cap=<capacity|~> yielded=<number of values flushed> rate=<num>/<den>`
* `crun <cap> <progs> <sched>` → concurrent run of `Model/ReservoirConc` on a fresh reservoir. `progs`: threads joined
                               by `/`, ops by `,` (`p<bits>:<raw>` push, `c` consume, `f` consume leaking the drain, `.`
                               empty program); `sched`: granted thread ids joined by `.`.  Answer:
                               `trace=<one letter per grant: s selected, c claimed, r reading, o between ops, f finished, x did not move>
                                asked=<per thread, `/`-joined: what each push asked the generator for>
                                drains=<tid:len:rate:vals(+-joined)> flush=<two sequential drains after the run>`
* `pushers <cap> <progs> <sched>` → an epoch of pushers on a fresh reservoir, read through the ghosts of the theorems
                               `conc_pushers_*` / `conc_retention_is_sequential_on_claim_order_partial`:
                               `pushonly=<pushOnlySched> done=<all pushes completed> inorder=<storesInOrder>
                                log=<values in claim order (claimLog)> n=<#pushes> drain=<the drain that follows>
                                seq=<drain of sequential push over the claim order, `-` unless inorder>`
-/
namespace MetricsVerif.Driver.Reservoir
open MetricsVerif.Driver MetricsVerif.Reservoir

def hex16 (n : Nat) : String :=
  String.ofList ((List.range 16).reverse.map (fun i => hexOfNat ((n / 16 ^ i) % 16)))

def bitsTok (s : String) : Option Nat :=
  if s.length == 16 then unhexNat s else none

/-- IEEE bits of `Drain::sample_rate`: `1.0` or `len as f64 / unsampled_len as f64` -/
def rateBits (d : DrainOut) : Nat :=
  let (n, m) := d.rate
  (Float.ofNat n / Float.ofNat m).toBits.toNat

def drainTok (d : DrainOut) : String :=
  let vals := if d.values.isEmpty then "-" else "+".intercalate (d.values.map hex16)
  s!"{d.len}:{hex16 (rateBits d)}:{vals}"

def copTok (s : String) : Option COp :=
  if s == "c" then some .consume
  else if s == "f" then some .consumeForget
  else match s.toList with
    | 'p' :: rest =>
      match (String.ofList rest).splitOn ":" with
      | [v, c] => do pure (.push (← bitsTok v) (← c.toNat?))
      | _ => none
    | _ => none

def labelOf (before after : Sys) (t : Nat) : Char :=
  if before == after then 'x' else
  match after.threads[t]? with
  | none => 'x'
  | some th =>
    if th.prog.isEmpty then 'f' else
    match th.pc with
    | .idle => 'o'
    | .selected _ => 's'
    | .claimed _ _ => 'c'
    | .reading _ _ _ _ => 'r'

def crunAnswer (cap : Nat) (progs : List (List COp)) (sched : List Nat) : String :=
  let (s, labels) := sched.foldl (fun (acc : Sys × List Char) t =>
    let s' := cstep acc.1 t
    (s', labelOf acc.1 s' t :: acc.2)) (Sys.init cap progs, [])
  let asked := "/".intercalate (s.threads.map (fun th =>
    showList (fun (o : Option Nat) => match o with | none => "~" | some u => toString u) th.asked))
  let drains := showList (fun (td : Nat × DrainOut) => s!"{td.1}:{drainTok td.2}") s.drains
  if !s.finished || s.locked then s!"trace={String.ofList labels.reverse} asked={asked} drains={drains} unfinished"
  else
    let (a1, d1) := s.asr.consume
    let (_, d2) := a1.consume
    s!"trace={String.ofList labels.reverse} asked={asked} drains={drains} flush={drainTok d1},{drainTok d2}"

def pushersAnswer (cap : Nat) (progs : List (List COp)) (sched : List Nat) : String :=
  let s0 := Sys.init cap progs
  let s := crun s0 sched
  let b := fun (x : Bool) => if x then "1" else "0"
  let log := claimLog s0 sched
  let inorder := storesInOrder s0 sched
  let done := s.threads.all (fun th => (pushPrefix th.prog).isEmpty)
  let seq := if inorder && done then drainTok (seqRun (Res.new cap) log).drain else "-"
  s!"pushonly={b (pushOnlySched s0 sched)} done={b done} inorder={b inorder} log={showList (fun (vc : Nat × Nat) => hex16 vc.1) log} n={(progs.flatMap pushPrefix).length} drain={drainTok s.asr.consume.2} seq={seq}"

def valsTok (vs : List Nat) : String := if vs.isEmpty then "-" else "+".intercalate (vs.map hex16)
def optValTok : Option Nat → String
  | none => "~"
  | some v => hex16 v

def rateBitsIt (d : DrainIt) : Nat :=
  let (n, m) := d.rate
  (Float.ofNat n / Float.ofNat m).toBits.toNat

/-- one script token of `consumes` on the iterator object: the object afterwards and the answer -/
def itTok (d : DrainIt) (tok : String) : Option (DrainIt × String) :=
  match tok.toList with
  | ['n'] => let (d', o) := d.next; some (d', optValTok o)
  | ['l'] => some (d, toString d.remaining)
  | ['r'] => some (d, hex16 (rateBitsIt d))
  | ['h'] => some (d, "0:~")                       -- default `Iterator::size_hint`: `(0, None)`
  | ['a'] => let (d', vs) := d.pullAll; some (d', valsTok vs)
  | ['c'] => let (d', vs) := d.pullAll; some (d', s!"#{vs.length}")
  | ['z'] => let (d', vs) := d.pullAll; some (d', optValTok vs.getLast?)
  | 't' :: k => do
    let k ← (String.ofList k).toNat?
    let (d', o) := d.nth k
    pure (d', optValTok o)
  | _ => none

def itFin (d : DrainIt) (tok : String) : Option String :=
  match tok.toList with
  | ['D'] => some "-"
  | ['C'] => some s!"#{d.pullAll.2.length}"
  | ['L'] => some (optValTok d.pullAll.2.getLast?)
  | ['V'] => some (valsTok d.pullAll.2)
  | 'S' :: k => do
    let k ← (String.ofList k).toNat?
    pure (valsTok (d.advance k).pullAll.2)
  | _ => none

def itScript (d : DrainIt) (toks : List String) : Option (DrainIt × List String) :=
  toks.foldlM (fun (acc : DrainIt × List String) t => do
    let (d', a) ← itTok acc.1 t
    pure (d', acc.2 ++ [a])) (d, [])

def bopTok (s : String) : Option BOp :=
  match s.toList with
  | ['s', '0'] => some (.sampling false)
  | ['s', '1'] => some (.sampling true)
  | 'z' :: n => do pure (.size (← (String.ofList n).toNat?))
  | _ => none

/-- `builder <calls> <n>`: the histogram the configured builder creates, `n` pushes (values do not matter), one drain -/
def builderAnswer (calls : List BOp) (n : Nat) : String :=
  match (Builder.configure calls).histogram with
  | .raw => s!"sampled=0 cap=~ yielded={n} rate=1/1"
  | .sampled a =>
    let a' := (List.range n).foldl (fun a i => a.push i 0) a
    let d := a'.consume.2
    s!"sampled=1 cap={a.primary.slots.length} yielded={d.values.length} rate={d.rate.1}/{d.rate.2}"

def handle (st : Option ASR) (args : List String) : Option (Option ASR × String) :=
  match args with
  | ["new", cap] => do pure (some (ASR.new (← cap.toNat?)), "ok")
  | ["enum", cap, n] => do
    let cap ← cap.toNat?
    let n ← n.toNat?
    if n < cap then none else
    let vs := vectors cap (n - cap)
    let counts := (List.range n).map (fun i => retainCount cap (n - cap) i)
    pure (st, s!"total={vs.length} counts={showList toString counts}")
  | ["crun", cap, progs, sched] => do
    let cap ← cap.toNat?
    let progs ← (progs.splitOn "/").mapM (listTok copTok)
    let sched ← if sched == "-" then some [] else (sched.splitOn ".").mapM String.toNat?
    pure (st, crunAnswer cap progs sched)
  | ["pushers", cap, progs, sched] => do
    let cap ← cap.toNat?
    let progs ← (progs.splitOn "/").mapM (listTok copTok)
    let sched ← if sched == "-" then some [] else (sched.splitOn ".").mapM String.toNat?
    pure (st, pushersAnswer cap progs sched)
  | ["builder", calls, n] => do
    let calls ← listTok bopTok calls
    let n ← n.toNat?
    pure (st, builderAnswer calls n)
  | op :: rest => do
    let a ← st
    match op, rest with
    | "push", [v, c] => do
      let v ← bitsTok v
      let c ← c.toNat?
      let up := a.active.nextUpper
      -- the panic flag of the model is sticky; clear it first so that it reports this push
      let a0 : ASR := { a with primary := { a.primary with panicked := false },
                               secondary := { a.secondary with panicked := false } }
      let a' := a0.push v c
      let ans := match up with
        | none => "ok ~"
        | some u => if a'.active.panicked then s!"panic {u}" else s!"ok {u}"
      pure (some a', ans)
    | "consume", [k] => do
      let k ← optTok String.toNat? k
      let (a', d) := a.consume
      let vals := match k with
        | none => d.values
        | some k => d.values.take k
      pure (some a', s!"len={d.len} rate={hex16 (rateBits d)} vals={showList hex16 vals}")
    | "consumef", [k] => do
      let k ← optTok String.toNat? k
      -- the closure leaks the Drain: the side is swapped, the count of the retired side is NOT reset
      let (a', d) := a.consumeForget
      let vals := match k with
        | none => d.values
        | some k => d.values.take k
      pure (some a', s!"len={d.len} rate={hex16 (rateBits d)} vals={showList hex16 vals}")
    | "consumes", [script, fin] => do
      let toks ← listTok some script
      let d0 := a.active.drainIt
      let (d, outs) ← itScript d0 toks
      let f ← itFin d fin
      let outsS := if outs.isEmpty then "-" else ";".intercalate outs
      pure (some a.consume.1, s!"outs={outsS} fin={f}")
    | "empty", [] => pure (some a, if a.isEmpty then "1" else "0")
    | _, _ => none
  | _ => none

end MetricsVerif.Driver.Reservoir
