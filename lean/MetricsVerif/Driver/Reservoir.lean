import MetricsVerif.Driver.Util
import MetricsVerif.Model.Reservoir

/-!
Line protocol of component `reservoir`:

* `new <cap>`                → `ok`
* `push <bits:16 hex> <raw>` → `ok ~` (generator not consulted) | `ok <upper>` | `panic <upper>`
* `consume <k|~>`            → `len=<len> rate=<bits:16 hex> vals=<list of 16-hex>`; `k` = read only the first `k`
                               values before dropping the `Drain`
* `empty`                    → `1` | `0`
* `enum <cap> <n>`           → `total=<#choice vectors> counts=<per-position retention counts>` (from `vectors`/`retained`)
-/
namespace MetricsVerif.Driver.Reservoir
open MetricsVerif.Driver MetricsVerif.Reservoir

def hex16 (n : Nat) : String :=
  String.ofList ((List.range 16).reverse.map (fun i => hexOfNat ((n / 16 ^ i) % 16)))

def bitsTok (s : String) : Option Nat :=
  if s.length == 16 then unhexNat s else none

/-- IEEE bits of `Drain::sample_rate`: `1.0` or `len as f64 / unsampled_len as f64` -/
def rateBits (d : DrainOut) : Nat :=
  let (n, m) := d.rate
  (Float.ofNat n / Float.ofNat m).toBits.toNat

def handle (st : Option ASR) (args : List String) : Option (Option ASR × String) :=
  match args with
  | ["new", cap] => do pure (some (ASR.new (← cap.toNat?)), "ok")
  | ["enum", cap, n] => do
    let cap ← cap.toNat?
    let n ← n.toNat?
    if n < cap then none else
    let vs := vectors cap (n - cap)
    let counts := (List.range n).map (fun i => retainCount cap (n - cap) i)
    pure (st, s!"total={vs.length} counts={showList toString counts}")
  | op :: rest => do
    let a ← st
    match op, rest with
    | "push", [v, c] => do
      let v ← bitsTok v
      let c ← c.toNat?
      let up := a.active.nextUpper
      -- the panic flag of the model is sticky; clear it first so that it reports this push
      let a0 : ASR := { a with primary := { a.primary with panicked := false },
                               secondary := { a.secondary with panicked := false } }
      let a' := a0.push v c
      let ans := match up with
        | none => "ok ~"
        | some u => if a'.active.panicked then s!"panic {u}" else s!"ok {u}"
      pure (some a', ans)
    | "consume", [k] => do
      let k ← optTok String.toNat? k
      let (a', d) := a.consume
      let vals := match k with
        | none => d.values
        | some k => d.values.take k
      pure (some a', s!"len={d.len} rate={hex16 (rateBits d)} vals={showList hex16 vals}")
    | "empty", [] => pure (some a, if a.isEmpty then "1" else "0")
    | _, _ => none
  | _ => none

end MetricsVerif.Driver.Reservoir
