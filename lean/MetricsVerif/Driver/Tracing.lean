import MetricsVerif.Driver.Util
import MetricsVerif.Model.Tracing

/-!
Line protocol of component `tracing` (C17).

    tracing filter all | allow <names> | custom <mod> <rem>     → ok            (fresh subscriber + recorder)
    tracing new <thread> <r|c|span#> <fields> [<slot>]          → <span#> <map>   (slot = the registry slot the real span
                                                                  got; bad-op when a live span occupies it or the
                                                                  map read through the slot differs)
    tracing rec <thread> <span#> <fields>                       → <map>
    tracing enter <thread> <span#>   /  exit <thread> <span#>   → <current span# of the thread | ~>
    tracing emit <thread> <name> <labels>                       → <labels the inner recorder saw>
    tracing close <thread> <span#>                              → closed     (last handle dropped; bad-op when the span
                                                                  is on a stack of threads 0..15 or has a live child)
    tracing filt <name> <key> <value>                          → 0 | 1      (`LabelFilter::should_include_label` of the
                                                                  subscriber's filter, called directly on any label)
    tracing nolayer                                             → ok         (the subscriber has no MetricsLayer:
                                                                  spans answer `no-labels`, keys pass unchanged)

`filter` starts a fresh subscriber; the object pool is process-wide and carries over (`poolAfterDrop`).

fields = list of `name:value`, value = `s<hex>` | `b0` | `b1` | `i<int>` | `u<nat>` | `d<hex rendered>` | `e`.
A custom filter admits a label iff (sum of the code points of metric name, key and value) % mod ≠ rem.
-/
namespace MetricsVerif.Driver.Tracing
open MetricsVerif.Driver MetricsVerif.Tracing

structure DSt where
  filter : Filter
  p : PState := {}
  hasLayer : Bool := true
  r : RState := {}                      -- the same subscriber, `Labels` stored in and read through registry slots

/-- the pool a new subscriber finds: what the previous one (with a layer) left behind -/
def carry (d : Option DSt) : List FMap :=
  match d with
  | some d => if d.hasLayer then poolAfterDrop d.p else d.p.pool
  | none => []

def live (p : PState) (id : Nat) : Bool := id < p.base.spans.length && !p.closed.contains id

def valueTok (s : String) : Option Value :=
  match s.toList with
  | ['e'] => some .empty
  | ['b', '0'] => some (.bool false)
  | ['b', '1'] => some (.bool true)
  | 's' :: r => (unhexChars (String.ofList r)).map Value.str
  | 'd' :: r => (unhexChars (String.ofList r)).map Value.dbg
  | 'i' :: r => (String.ofList r).toInt?.map Value.i64
  | 'u' :: r => (String.ofList r).toNat?.map Value.u64
  | _ => none

def fieldsTok : String → Option (List (Str × Value)) := listTok (pairTok unhexChars valueTok)
def labelsTok : String → Option (List (Str × Str)) := listTok (pairTok unhexChars unhexChars)

def showMap (m : List (Str × Str)) : String :=
  showList (fun (kv : Str × Str) => s!"{hexChars kv.1}:{hexChars kv.2}") m

def showCur (c : Option Nat) : String :=
  match c with
  | some i => toString i
  | none => "~"

def codeSum (s : Str) : Nat := (s.map Char.toNat).sum

def customPred (m r : Nat) (name k v : Str) : Bool := (codeSum name + codeSum k + codeSum v) % m != r

def parentTok (p : PState) (tok : String) : Option Parent :=
  if tok == "r" then some .root
  else if tok == "c" then some .contextual
  else do
    let i ← tok.toNat?
    if live p i then some (.explicit i) else none

def handle (d : Option DSt) (args : List String) : Option (Option DSt × String) :=
  match args with
  | ["filter", "all"] => some (some { filter := .includeAll, p := { pool := carry d } }, "ok")
  | ["filter", "allow", names] => do
    let names ← listTok unhexChars names
    pure (some { filter := .allowlist names, p := { pool := carry d } }, "ok")
  | ["filter", "custom", m, r] => do
    let m ← m.toNat?
    let r ← r.toNat?
    if m == 0 then none else
    pure (some { filter := .custom (customPred m r), p := { pool := carry d } }, "ok")
  | ["nolayer"] => do
    let d ← d
    if d.p.base.spans.isEmpty then pure (some { d with hasLayer := false }, "ok") else none
  | op :: rest => do
    let d ← d
    let p := d.p
    let n := p.base.spans.length
    match op, rest with
    | "new", [t, par, fields] => do
      let t ← t.toNat?
      let par ← parentTok p par
      let fields ← fieldsTok fields
      if d.hasLayer then
        let p' := pstep p (.base (.newSpan t par fields))
        let m ← p'.base.spans[n]?
        pure (some { d with p := p' }, s!"{n} {showMap m}")
      else
        pure (some { d with p := pNewSpanNoLayer p t par }, s!"{n} no-labels")
    | "new", [t, par, fields, slot] => do
      let t ← t.toNat?
      let par ← parentTok p par
      let fields ← fieldsTok fields
      let slot ← slot.toNat?
      if d.hasLayer && legal d.r (.new t par fields slot) then
        let p' := pstep p (.base (.newSpan t par fields))
        let r' := rstep d.r (.new t par fields slot)
        let m ← p'.base.spans[n]?
        -- the map as the code reads it: through the slot
        if r'.ext slot == some m then pure (some { d with p := p', r := r' }, s!"{n} {showMap m}") else none
      else none
    | "rec", [t, id, fields] => do
      let t ← t.toNat?
      let id ← id.toNat?
      let fields ← fieldsTok fields
      if live p id then
        if d.hasLayer then
          let p' := pstep p (.base (.record t id fields))
          let r' := rstep d.r (.record t id fields)
          let m ← p'.base.spans[id]?
          if d.r.base.spans.isEmpty || r'.ext (r'.slotOf id) == some m then
            pure (some { d with p := p', r := r' }, showMap m)
          else none
        else pure (some d, "no-labels")
      else none
    | "enter", [t, id] => do
      let t ← t.toNat?
      let id ← id.toNat?
      if live p id then
        let p' := pstep p (.base (.enter t id))
        pure (some { d with p := p', r := rstep d.r (.enter t id) }, showCur (current p'.base t))
      else none
    | "exit", [t, id] => do
      let t ← t.toNat?
      let id ← id.toNat?
      if live p id then
        let p' := pstep p (.base (.exit t id))
        pure (some { d with p := p', r := rstep d.r (.exit t id) }, showCur (current p'.base t))
      else none
    | "close", [t, id] => do
      let _ ← t.toNat?
      let id ← id.toNat?
      if live p id && !pinned p 16 id then
        if d.hasLayer then pure (some { d with p := pstep p (.close id), r := rstep d.r (.close id) }, "closed")
        else pure (some { d with p := { p with closed := id :: p.closed } }, "closed")
      else none
    | "emit", [t, name, labels] => do
      let t ← t.toNat?
      let name ← unhexChars name
      let labels ← labelsTok labels
      let viaP := emitCfg d.hasLayer p.base d.filter t name labels
      -- when the slots were tracked, the key as the code computes it: current span's labels read from its slot
      if d.hasLayer && !d.r.base.spans.isEmpty && d.r.base.spans.length == p.base.spans.length
          && rEmit d.r d.filter t name labels != viaP then none
      else pure (some d, showMap viaP)
    | "filt", [name, k, v] => do
      let name ← unhexChars name
      let k ← unhexChars k
      let v ← unhexChars v
      pure (some d, if d.filter.shouldInclude name k v then "1" else "0")
    | _, _ => none
  | _ => none

end MetricsVerif.Driver.Tracing
