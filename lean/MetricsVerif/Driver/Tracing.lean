import MetricsVerif.Driver.Util
import MetricsVerif.Model.Tracing

/-!
Line protocol of component `tracing` (C17).

    tracing filter all | allow <names> | custom <mod> <rem>     → ok            (fresh subscriber + recorder)
    tracing new <thread> <r|c|span#> <fields> [<slot>]          → <span#> <map>   (slot = the registry slot the real span
                                                                  got; bad-op when a live span occupies it or the
                                                                  map read through the slot differs)
    tracing rec <thread> <span#> <fields>                       → <map>
    tracing enter <thread> <span#>   /  exit <thread> <span#>   → <current span# of the thread | ~>
    tracing emit <thread> <name> <labels>                       → <labels the inner recorder saw>
    tracing close <thread> <span#>                              → closed     (last handle dropped; bad-op when the span
                                                                  is on a stack of threads 0..15 or has a live child)
    tracing filt <name> <key> <value>                          → 0 | 1      (`LabelFilter::should_include_label` of the
                                                                  subscriber's filter, called directly on any label)
    tracing nolayer                                             → ok         (the subscriber has no MetricsLayer:
                                                                  spans answer `no-labels`, keys pass unchanged)

    tracing newhid <thread> <r|c|span#> [<slot>]                → <span#> no-labels   (the per-layer filter on the
                                                                  MetricsLayer turned the span down: it exists, the layer
                                                                  never hears of it)
    tracing newoff <thread>                                     → <span#> off   (a global filter disabled the span: it has
                                                                  no id; later reference to the number is a bad-op)
    tracing event <thread> <r|c|span#> <fields>                 → <map of the span the event is in | no-labels | ~>
    tracing follows <span#> <span#>                             → <map of the first span | no-labels>

`new` under a filtered layer merges the labels of the closest ENABLED ancestor (`labelParent`); the driver runs the
filtered model (`FState`) and, translated (`ftransOp`), the pooled and the slot models side by side: bad-op when they
disagree.

`filter` starts a fresh subscriber; the object pool is process-wide and carries over (`poolAfterDrop`).

fields = list of `name:value`, value = `s<hex>` | `b0` | `b1` | `i<int>` | `u<nat>` | `d<hex rendered>` | `e`.
A custom filter admits a label iff (sum of the code points of metric name, key and value) % mod ≠ rem.
-/
namespace MetricsVerif.Driver.Tracing
open MetricsVerif.Driver MetricsVerif.Tracing

structure DSt where
  filter : Filter
  p : PState := {}
  hasLayer : Bool := true
  r : RState := {}                      -- the same subscriber, `Labels` stored in and read through registry slots
  f : FState := {}                      -- the same subscriber with spans hidden from the layer, events, follows_from

/-- the pool a new subscriber finds: what the previous one (with a layer) left behind -/
def carry (d : Option DSt) : List FMap :=
  match d with
  | some d => if d.hasLayer then poolAfterDrop d.p else d.p.pool
  | none => []

def live (p : PState) (id : Nat) : Bool := id < p.base.spans.length && !p.closed.contains id

def valueTok (s : String) : Option Value :=
  match s.toList with
  | ['e'] => some .empty
  | ['b', '0'] => some (.bool false)
  | ['b', '1'] => some (.bool true)
  | 's' :: r => (unhexChars (String.ofList r)).map Value.str
  | 'd' :: r => (unhexChars (String.ofList r)).map Value.dbg
  | 'i' :: r => (String.ofList r).toInt?.map Value.i64
  | 'u' :: r => (String.ofList r).toNat?.map Value.u64
  | _ => none

def fieldsTok : String → Option (List (Str × Value)) := listTok (pairTok unhexChars valueTok)
def labelsTok : String → Option (List (Str × Str)) := listTok (pairTok unhexChars unhexChars)

def showMap (m : List (Str × Str)) : String :=
  showList (fun (kv : Str × Str) => s!"{hexChars kv.1}:{hexChars kv.2}") m

def showCur (c : Option Nat) : String :=
  match c with
  | some i => toString i
  | none => "~"

def codeSum (s : Str) : Nat := (s.map Char.toNat).sum

def customPred (m r : Nat) (name k v : Str) : Bool := (codeSum name + codeSum k + codeSum v) % m != r

def parentTok (p : PState) (tok : String) : Option Parent :=
  if tok == "r" then some .root
  else if tok == "c" then some .contextual
  else do
    let i ← tok.toNat?
    if live p i then some (.explicit i) else none

def handle (d : Option DSt) (args : List String) : Option (Option DSt × String) :=
  match args with
  | ["filter", "all"] => some (some { filter := .includeAll, p := { pool := carry d } }, "ok")
  | ["filter", "allow", names] => do
    let names ← listTok unhexChars names
    pure (some { filter := .allowlist names, p := { pool := carry d } }, "ok")
  | ["filter", "custom", m, r] => do
    let m ← m.toNat?
    let r ← r.toNat?
    if m == 0 then none else
    pure (some { filter := .custom (customPred m r), p := { pool := carry d } }, "ok")
  | ["nolayer"] => do
    let d ← d
    if d.p.base.spans.isEmpty then pure (some { d with hasLayer := false }, "ok") else none
  | op :: rest => do
    let d ← d
    let p := d.p
    let n := p.base.spans.length
    match op, rest with
    | "new", [t, par, fields] => do
      let t ← t.toNat?
      let par ← parentTok p par
      let fields ← fieldsTok fields
      if d.hasLayer then
        let q := optParent (labelParent d.f t par)
        let p' := pstep p (.base (.newSpan t q fields))
        let p' := { p' with parents := p.parents ++ [resolveParent p.base t par] }
        let f' := fstep d.f (.new t par fields true)
        let m ← p'.base.spans[n]?
        if fLabels f' n == some m then pure (some { d with p := p', f := f' }, s!"{n} {showMap m}") else none
      else
        pure (some { d with p := pNewSpanNoLayer p t par }, s!"{n} no-labels")
    | "new", [t, par, fields, slot] => do
      let t ← t.toNat?
      let par ← parentTok p par
      let fields ← fieldsTok fields
      let slot ← slot.toNat?
      let q := optParent (labelParent d.f t par)
      if d.hasLayer && legal d.r (.new t q fields slot) then
        let p' := pstep p (.base (.newSpan t q fields))
        let p' := { p' with parents := p.parents ++ [resolveParent p.base t par] }
        let r' := rstep d.r (.new t q fields slot)
        let f' := fstep d.f (.new t par fields true)
        let m ← p'.base.spans[n]?
        -- the map as the code reads it: through the slot
        if r'.ext slot == some m && fLabels f' n == some m then
          pure (some { d with p := p', r := r', f := f' }, s!"{n} {showMap m}")
        else none
      else none
    | "newhid", [t, par] => do
      let t ← t.toNat?
      let par ← parentTok p par
      if d.hasLayer then
        pure (some { d with p := pNewSpanNoLayer p t par, f := fstep d.f (.new t par [] false) }, s!"{n} no-labels")
      else none
    | "newhid", [t, par, slot] => do
      let t ← t.toNat?
      let par ← parentTok p par
      let slot ← slot.toNat?
      -- in the slot model the hidden span occupies its slot as a field-less root (`ftransOp`)
      if d.hasLayer && legal d.r (.new t .root [] slot) then
        pure (some { d with p := pNewSpanNoLayer p t par, r := rstep d.r (.new t .root [] slot),
                            f := fstep d.f (.new t par [] false) }, s!"{n} no-labels")
      else none
    | "newoff", [t] => do
      let t ← t.toNat?
      let p' := pNewSpanNoLayer p t .root
      pure (some { d with p := { p' with closed := n :: p'.closed }, f := fstep d.f (.new t .root [] false) }, s!"{n} off")
    | "event", [t, par, fields] => do
      let t ← t.toNat?
      let par ← parentTok p par
      let fields ← fieldsTok fields
      let f' := fstep d.f (.event t par fields)
      match resolveParent p.base t par with
      | none => pure (some { d with f := f' }, "~")
      | some c =>
        if d.hasLayer then
          pure (some { d with f := f' }, match fLabels f' c with | some m => showMap m | none => "no-labels")
        else pure (some d, "no-labels")
    | "follows", [a, b] => do
      let a ← a.toNat?
      let b ← b.toNat?
      if live p a && live p b then
        let f' := fstep d.f (.followsFrom a b)
        if d.hasLayer then
          pure (some { d with f := f' }, match fLabels f' a with | some m => showMap m | none => "no-labels")
        else pure (some d, "no-labels")
      else none
    | "rec", [t, id, fields] => do
      let t ← t.toNat?
      let id ← id.toNat?
      let fields ← fieldsTok fields
      if live p id then
        if d.hasLayer && !isHidden d.f id then
          let p' := pstep p (.base (.record t id fields))
          let r' := rstep d.r (.record t id fields)
          let f' := fstep d.f (.record t id fields)
          let m ← p'.base.spans[id]?
          if (d.r.base.spans.isEmpty || r'.ext (r'.slotOf id) == some m) && fLabels f' id == some m then
            pure (some { d with p := p', r := r', f := f' }, showMap m)
          else none
        else pure (some { d with f := fstep d.f (.record t id fields) }, "no-labels")
      else none
    | "enter", [t, id] => do
      let t ← t.toNat?
      let id ← id.toNat?
      if live p id then
        let p' := pstep p (.base (.enter t id))
        pure (some { d with p := p', r := rstep d.r (.enter t id), f := fstep d.f (.enter t id) }, showCur (current p'.base t))
      else none
    | "exit", [t, id] => do
      let t ← t.toNat?
      let id ← id.toNat?
      if live p id then
        let p' := pstep p (.base (.exit t id))
        pure (some { d with p := p', r := rstep d.r (.exit t id), f := fstep d.f (.exit t id) }, showCur (current p'.base t))
      else none
    | "close", [t, id] => do
      let _ ← t.toNat?
      let id ← id.toNat?
      if live p id && !pinned p 16 id then
        if d.hasLayer && !isHidden d.f id then
          pure (some { d with p := pstep p (.close id), r := rstep d.r (.close id) }, "closed")
        else if d.hasLayer then
          -- a hidden span holds no `Labels`: nothing goes back to the pool; its slot is freed
          pure (some { d with p := { p with closed := id :: p.closed }, r := rstep d.r (.close id) }, "closed")
        else pure (some { d with p := { p with closed := id :: p.closed } }, "closed")
      else none
    | "emit", [t, name, labels] => do
      let t ← t.toNat?
      let name ← unhexChars name
      let labels ← labelsTok labels
      let viaP := emitCfg d.hasLayer p.base d.filter t name labels
      -- the filtered model must agree (a hidden current span has no labels there, an empty map here)
      if d.hasLayer && fEmit d.f d.filter t name labels != viaP then none else
      -- when the slots were tracked, the key as the code computes it: current span's labels read from its slot
      if d.hasLayer && !d.r.base.spans.isEmpty && d.r.base.spans.length == p.base.spans.length
          && rEmit d.r d.filter t name labels != viaP then none
      else pure (some d, showMap viaP)
    | "filt", [name, k, v] => do
      let name ← unhexChars name
      let k ← unhexChars k
      let v ← unhexChars v
      pure (some d, if d.filter.shouldInclude name k v then "1" else "0")
    | _, _ => none
  | _ => none

end MetricsVerif.Driver.Tracing
