import MetricsVerif.Driver.Util
import MetricsVerif.Model.Tracing

/-!
Line protocol of component `tracing` (C17).

    tracing filter all | allow <names> | custom <mod> <rem>     → ok            (fresh subscriber + recorder)
    tracing new <thread> <r|c|span#> <fields>                   → <span#> <map>
    tracing rec <thread> <span#> <fields>                       → <map>
    tracing enter <thread> <span#>   /  exit <thread> <span#>   → <current span# of the thread | ~>
    tracing emit <thread> <name> <labels>                       → <labels the inner recorder saw>

fields = list of `name:value`, value = `s<hex>` | `b0` | `b1` | `i<int>` | `u<nat>` | `d<hex rendered>` | `e`.
A custom filter admits a label iff (sum of the code points of metric name, key and value) % mod ≠ rem.
-/
namespace MetricsVerif.Driver.Tracing
open MetricsVerif.Driver MetricsVerif.Tracing

structure DSt where
  filter : Filter
  st : State := {}

def valueTok (s : String) : Option Value :=
  match s.toList with
  | ['e'] => some .empty
  | ['b', '0'] => some (.bool false)
  | ['b', '1'] => some (.bool true)
  | 's' :: r => (unhexChars (String.ofList r)).map Value.str
  | 'd' :: r => (unhexChars (String.ofList r)).map Value.dbg
  | 'i' :: r => (String.ofList r).toInt?.map Value.i64
  | 'u' :: r => (String.ofList r).toNat?.map Value.u64
  | _ => none

def fieldsTok : String → Option (List (Str × Value)) := listTok (pairTok unhexChars valueTok)
def labelsTok : String → Option (List (Str × Str)) := listTok (pairTok unhexChars unhexChars)

def showMap (m : List (Str × Str)) : String :=
  showList (fun (kv : Str × Str) => s!"{hexChars kv.1}:{hexChars kv.2}") m

def showCur (c : Option Nat) : String :=
  match c with
  | some i => toString i
  | none => "~"

def codeSum (s : Str) : Nat := (s.map Char.toNat).sum

def customPred (m r : Nat) (name k v : Str) : Bool := (codeSum name + codeSum k + codeSum v) % m != r

def parentTok (s : State) (tok : String) : Option Parent :=
  if tok == "r" then some .root
  else if tok == "c" then some .contextual
  else do
    let i ← tok.toNat?
    if i < s.spans.length then some (.explicit i) else none

def handle (d : Option DSt) (args : List String) : Option (Option DSt × String) :=
  match args with
  | ["filter", "all"] => some (some { filter := .includeAll }, "ok")
  | ["filter", "allow", names] => do
    let names ← listTok unhexChars names
    pure (some { filter := .allowlist names }, "ok")
  | ["filter", "custom", m, r] => do
    let m ← m.toNat?
    let r ← r.toNat?
    if m == 0 then none else
    pure (some { filter := .custom (customPred m r) }, "ok")
  | op :: rest => do
    let d ← d
    let s := d.st
    match op, rest with
    | "new", [t, p, fields] => do
      let t ← t.toNat?
      let p ← parentTok s p
      let fields ← fieldsTok fields
      let s' := step s (.newSpan t p fields)
      let m ← s'.spans[s.spans.length]?
      pure (some { d with st := s' }, s!"{s.spans.length} {showMap m}")
    | "rec", [t, id, fields] => do
      let t ← t.toNat?
      let id ← id.toNat?
      let fields ← fieldsTok fields
      if id < s.spans.length then
        let s' := step s (.record t id fields)
        let m ← s'.spans[id]?
        pure (some { d with st := s' }, showMap m)
      else none
    | "enter", [t, id] => do
      let t ← t.toNat?
      let id ← id.toNat?
      if id < s.spans.length then
        let s' := step s (.enter t id)
        pure (some { d with st := s' }, showCur (current s' t))
      else none
    | "exit", [t, id] => do
      let t ← t.toNat?
      let id ← id.toNat?
      if id < s.spans.length then
        let s' := step s (.exit t id)
        pure (some { d with st := s' }, showCur (current s' t))
      else none
    | "emit", [t, name, labels] => do
      let t ← t.toNat?
      let name ← unhexChars name
      let labels ← labelsTok labels
      pure (some d, showMap (emit s d.filter t name labels))
    | _, _ => none
  | _ => none

end MetricsVerif.Driver.Tracing
