import MetricsVerif.Driver.Util
import MetricsVerif.Model.PromFmt
import MetricsVerif.Model.PromNum

namespace MetricsVerif.Driver.C08
open MetricsVerif.Driver MetricsVerif.PromFmt

def unitTok (s : String) : Option (Option MUnit) :=
  if s == "~" then some none else (MUnit.ofStr? s).map some

def handle (args : List String) : Option String :=
  match args with
  | ["name", s] => do pure (hexChars (sanitizeMetricName (← unhexChars s)))
  | ["lkey", s] => do pure (hexChars (sanitizeLabelKey (← unhexChars s)))
  | ["lval", s] => do pure (hexChars (sanitizeLabelValue (← unhexChars s)))
  | ["desc", s] => do pure (hexChars (sanitizeDescription (← unhexChars s)))
  | ["help", n, d] => do pure (hexChars (writeHelpLine (← unhexChars n) (← unhexChars d)))
  | ["type", n, t] => do pure (hexChars (writeTypeLine (← unhexChars n) (← unhexChars t)))
  | ["line", n, sfx, labels, extra, v, u] => do
    let n ← unhexChars n
    let sfx ← optTok unhexChars sfx
    let labels ← listTok unhexChars labels
    let extra ← optTok (pairTok unhexChars unhexChars) extra
    let v ← unhexChars v
    let u ← unitTok u
    pure (hexChars (writeMetricLine n sfx labels extra v u))
  | ["parts", n, kl, gl] => do
    let n ← unhexChars n
    let kl ← listTok (pairTok unhexChars unhexChars) kl
    let gl ← listTok (pairTok unhexChars unhexChars) gl
    let (pn, pl) := keyToParts n kl gl
    pure s!"{hexChars pn} {showList hexChars pl}"
  | ["letext", n] => do pure (hexChars (PromNum.dyText (← n.toInt?)))
  | _ => none

end MetricsVerif.Driver.C08
