import MetricsVerif.Driver.Util
import MetricsVerif.Model.Cow
import MetricsVerif.Model.CowSend
import MetricsVerif.Generated.SourceFacts

/-
Line driver of the ownership model (component `cow`).  Content tokens are hex byte strings (`-` empty): the
bytes of a `str`, or one byte per element (an index into the harness's element pool) for slices.

  cow count on|off          → ok          (whether answers carry the live-allocation count; per case)
  cow arc <hex>             → a<k>
  cow droparc <a>           → ok
  cow borrowed <hex>        → h<k> <hex>
  cow owned <hex> <cap>     → h<k> <hex>
  cow shared <a>            → h<k> <hex>
  cow clone <h>             → h<k> <hex> p=<1|0>     (p: same data pointer as the source)
  cow deref <h>             → <hex>
  cow eq <h1> <h2>          → true|false
  cow intoowned <h> <fc>    → h<k> <hex> cap=<n>    (fc: real capacity of the result; used for fresh copies only)
  cow intostd <h> <fc>      → h<k> B|O <hex>
  cow drop <h> | dropt <h>  → ok          (dropt: dropped on another thread — same heap operations)
  cow intoownedu <h> <fc>   → unwound | h<k> <hex> cap=<n>   (into_owned with a panicking element Clone armed)
  cow cloneu <h>            → unwound | h<k> <hex> p=<1|0>   (clone with a panicking element Clone armed)
  cow clonefrom <hd> <hs>   → h<k> <hex> p=<1|0>     (dst.clone_from(&src): dst's old handle dies, h<k> is its new value;
                                                      p: same data pointer as the SOURCE)
  cow clonefromu <hd> <hs>  → unwound | h<k> <hex> p=<1|0>   (clone_from with a panicking element Clone armed)
  cow readu <h1> <h2>       → unwound                (a comparison / hash whose element operation panics)
  cow autotrait <s> <y>     → send=<0|1> sync=<0|1>  (thread model, `Model/CowSend.lean`: is `Cow<[E]>` `Send` / `Sync` for an
                                                      element type `E` with `E: Send` = s, `E: Sync` = y — decided by the bounds
                                                      the translator read from the two `unsafe impl` headers of cow.rs)

Every answer ends with ` n=<live allocations | *> s=<strong counts of the arcs the caller still holds, ~ otherwise>`.
A memory error of the model answers `error <name>` and poisons the rest of the case.
-/
namespace MetricsVerif.Driver.Cow
open MetricsVerif.Driver MetricsVerif.Cow

structure DSt where
  st : St := {}
  count : Bool := true
  dead : Bool := false

def contentTok (s : String) : Option Content := (unhexBytes s).map (·.map UInt8.toNat)
def showContent (c : Content) : String := hexBytes (c.map UInt8.ofNat)

def errName : Err → String
  | .doubleFree => "doubleFree" | .foreignFree => "foreignFree" | .badLayout => "badLayout"
  | .readFreed => "readFreed" | .wildRead => "wildRead" | .strongUnderflow => "strongUnderflow"
  | .arcUseAfterFree => "arcUseAfterFree" | .deadHandle => "deadHandle" | .noArcHeld => "noArcHeld"
  | .notAVec => "notAVec" | .invalidCapacity => "invalidCapacity" | .tooLarge => "tooLarge"

def suffix (d : DSt) : String :=
  let n := if d.count then toString (liveAllocs d.st) else "*"
  let s := showList (fun (c : ArcCell) => if c.ext = 0 then "~" else toString c.strong) d.st.arcs
  s!" n={n} s={s}"

def samePtr (s : St) (h h' : Nat) : Bool :=
  match s.vals[h]?, s.vals[h']? with
  | some (some a), some (some b) => a.val.ptr == b.val.ptr
  | _, _ => false

def parseOp : List String → Option Op
  | ["arc", c] => do pure (.newArc (← contentTok c))
  | ["droparc", a] => do pure (.dropArc (← a.toNat?))
  | ["borrowed", c] => do pure (.fromBorrowed (← contentTok c))
  | ["owned", c, cap] => do pure (.fromOwned (← contentTok c) (← cap.toNat?))
  | ["shared", a] => do pure (.fromShared (← a.toNat?))
  | ["clone", h] => do pure (.clone (← h.toNat?))
  | ["deref", h] => do pure (.deref (← h.toNat?))
  | ["eq", h1, h2] => do pure (.eq (← h1.toNat?) (← h2.toNat?))
  | ["intoowned", h, fc] => do pure (.intoOwned (← h.toNat?) (← fc.toNat?))
  | ["intostd", h, fc] => do pure (.intoStdCow (← h.toNat?) (← fc.toNat?))
  | ["drop", h] => do pure (.drop (← h.toNat?))
  | ["dropt", h] => do pure (.drop (← h.toNat?))
  | ["intoownedu", h, fc] => do pure (.intoOwnedUnwind (← h.toNat?) (← fc.toNat?))
  | ["cloneu", h] => do pure (.cloneUnwind (← h.toNat?))
  | ["clonefrom", hd, hs] => do pure (.cloneFrom (← hd.toNat?) (← hs.toNat?))
  | ["clonefromu", hd, hs] => do pure (.cloneFromUnwind (← hd.toNat?) (← hs.toNat?))
  | ["readu", h1, h2] => do pure (.readUnwind (← h1.toNat?) (← h2.toNat?))
  | _ => none

def showAns (s' : St) (op : Op) : Ans → String
  | .handle h c =>
    match op with
    | .clone src => s!"h{h} {showContent c} p={if samePtr s' src h then 1 else 0}"
    | .cloneUnwind src => s!"h{h} {showContent c} p={if samePtr s' src h then 1 else 0}"
    | .cloneFrom _ src => s!"h{h} {showContent c} p={if samePtr s' src h then 1 else 0}"
    | .cloneFromUnwind _ src => s!"h{h} {showContent c} p={if samePtr s' src h then 1 else 0}"
    | _ => s!"h{h} {showContent c}"
  | .owned h c cap => s!"h{h} {showContent c} cap={cap}"
  | .std h b c => s!"h{h} {if b then "B" else "O"} {showContent c}"
  | .content c => showContent c
  | .bool b => if b then "true" else "false"
  | .arc a => s!"a{a}"
  | .unit => "ok"
  | .unwound => "unwound"

def bitTok (t : String) : Option Bool := if t = "1" then some true else if t = "0" then some false else none

def handle (d : DSt) (args : List String) : Option (DSt × String) :=
  match args with
  | ["count", "on"] => some ({ d with count := true }, "ok")
  | ["count", "off"] => some ({ d with count := false }, "ok")
  | ["autotrait", es, ey] => do
    let e : MetricsVerif.CowSend.Elem := { send := (← bitTok es), sync := (← bitTok ey) }
    let bs := MetricsVerif.CowSend.Bound.ofTokens MetricsVerif.Generated.cow_send_bound_tokens
    let by' := MetricsVerif.CowSend.Bound.ofTokens MetricsVerif.Generated.cow_sync_bound_tokens
    pure (d, s!"send={if bs.admits e then 1 else 0} sync={if by'.admits e then 1 else 0}")
  | _ => do
    let op ← parseOp args
    if d.dead then pure (d, "error poisoned") else
    match step d.st op with
    | .ok (s', a) =>
      let d' := { d with st := s' }
      pure (d', showAns s' op a ++ suffix d')
    | .error e => pure ({ d with dead := true }, s!"error {errName e}")

end MetricsVerif.Driver.Cow
