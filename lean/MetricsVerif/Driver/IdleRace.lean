import MetricsVerif.Driver.Util
import MetricsVerif.Model.IdleRace

namespace MetricsVerif.Driver.IdleRace
open MetricsVerif.Driver MetricsVerif.IdleRace

def schedTok (s : String) : Option (List Nat) :=
  if s == "-" then some [] else (s.splitOn ".").mapM String.toNat?

def boolTok (s : String) : Option Bool :=
  if s == "1" then some true else if s == "0" then some false else none

/-- `f:n` = an updater that obtains its handle anew before each of its `n` updates, `k:n` = one kept handle -/
def updTok (s : String) : Option (Bool × Nat) :=
  match s.splitOn ":" with
  | ["f", n] => n.toNat?.map (fun n => (true, n))
  | ["k", n] => n.toNat?.map (fun n => (false, n))
  | _ => none

def showOpt (o : Option Nat) : String := match o with | some v => toString v | none => "~"

/-- `idlerace run c <timeout|~> <covered> <tick> <adv> <pre> <updaters> <renders> <grants> <post advances>`:
    (`c` = counter / gauge; nothing else is modelled)
    the race under the given grants, then for every post advance: the clock moves, one quiescent render.
    Answer: yield point of every grant | shown by the racing renders | shown by the post renders |
    lost updates, whether no update step lies inside a read→delete window -/
def handle (args : List String) : Option String :=
  match args with
  | ["run", mode, timeout, covered, tick, adv, pre, upds, renders, sched, post] => do
    -- only counters / gauges: a histogram update passes the yield points of its lock-free bucket, which this machine does not have
    let _ ← (if mode == "c" then some () else none)
    let timeout ← optTok String.toNat? timeout
    let covered ← boolTok covered
    let tick ← tick.toNat?
    let adv ← adv.toNat?
    let pre ← pre.toNat?
    let upds ← listTok updTok upds
    let renders ← renders.toNat?
    let sched ← schedTok sched
    let post ← listTok String.toNat? post
    let s0 := init { timeout, covered, tick, adv, pre, upds, renders }
    let (s, labels) := sched.foldl (fun (acc : Sys × List String) tid =>
        (step acc.1 tid, acc.2 ++ [label acc.1 tid])) (s0, [])
    let raced := s.obs.shown
    let (s', posts) := post.foldl (fun (acc : Sys × List (Option Nat)) a =>
        let s1 := observeQuiet (advance acc.1 a)
        (s1, acc.2 ++ [(s1.obs.shown.getLast?).getD none])) (s, [])
    pure s!"{if labels.isEmpty then "-" else ".".intercalate labels} | {showList showOpt raced} | {showList showOpt posts} | lost={s'.lost} wf={if windowFree s0 sched then 1 else 0}"
  | _ => none

end MetricsVerif.Driver.IdleRace
