import MetricsVerif.Driver.Util
import MetricsVerif.Model.Recency

/-!
Line protocol of component `recency` (C12):

* `new <mask 0..7> <timeout ticks | ~> <byKind 0|1>` → `ok`
* `reg <c|g|h> <key hex>` → `ok`
* `upd <c|g|h> <key hex> <inc|abs|set|add|rec>:<number>` → `ok` (an update that does not fit the kind is `bad-op`)
* `get <c|g|h> <key hex>` → `<generation>/<value>` or `~`
* `adv <ticks>` → `ok`
* `observe` → the registry after the observation: sorted `<kind>/<key hex>/<generation>/<value>`, `.` if empty
* `render` → the same observation, without generations (what an exposition text can show)
* `del <c|g|h> <key hex>` → `1` / `0`: `Registry::delete_*` from outside `Recency`; was the metric registered?
* `clear` → `ok`: `Registry::clear`
* `stale <c|g|h> <key hex> <generation>` → `<answer 1|0>/<registered afterwards 1|0>`: `should_store_*` with the
  generation of a handle from a second observer's snapshot; `stalekeep …` → the answer only

values: counter `n`, gauge `v`, histogram `count+sum`.
-/
namespace MetricsVerif.Driver.Recency
open MetricsVerif.Driver MetricsVerif.Recency

def kindTok : String → Option Kind
  | "c" => some .counter
  | "g" => some .gauge
  | "h" => some .histogram
  | _ => none

def kindStr : Kind → String
  | .counter => "c"
  | .gauge => "g"
  | .histogram => "h"

def updTok (s : String) : Option Upd :=
  match s.splitOn ":" with
  | ["inc", n] => n.toNat?.map Upd.inc
  | ["abs", n] => n.toNat?.map Upd.abs
  | ["set", v] => v.toInt?.map Upd.set
  | ["add", v] => v.toInt?.map Upd.add
  | ["rec", v] => v.toInt?.map Upd.record
  | _ => none

def valStr : Val → String
  | .c n => toString n
  | .g v => toString v
  | .h cnt s => s!"{cnt}+{s}"

def showRegistry (withGen : Bool) (s : St) : String :=
  let items := s.metrics.map (fun e =>
    if withGen then s!"{kindStr e.1.1}/{hexChars e.1.2}/{e.2.gen}/{valStr e.2.val}"
    else s!"{kindStr e.1.1}/{hexChars e.1.2}/{valStr e.2.val}")
  showList id (items.mergeSort (fun a b => decide (a ≤ b)))

def handle (st : Option St) (args : List String) : Option (Option St × String) :=
  match args with
  | ["new", mask, timeout, byKind] => do
    let mask ← mask.toNat?
    if mask > 7 then none
    let timeout ← optTok String.toNat? timeout
    let byKind ← (match byKind with | "1" => some true | "0" => some false | _ => none)
    pure (some (init { mask, timeout, byKind }), "ok")
  | op :: rest => do
    let s ← st
    match op, rest with
    | "reg", [k, key] => do pure (some (step s (.reg (← kindTok k) (← unhexChars key))), "ok")
    | "upd", [k, key, u] => do
      let k ← kindTok k
      let u ← updTok u
      if !u.fits k then none
      pure (some (step s (.upd k (← unhexChars key) u)), "ok")
    | "get", [k, key] => do
      let k ← kindTok k
      let key ← unhexChars key
      match lookup s.metrics (k, key) with
      | some m => pure (some s, s!"{m.gen}/{valStr m.val}")
      | none => pure (some s, "~")
    | "adv", [n] => do pure (some (step s (.adv (← n.toNat?))), "ok")
    | "observe", [] =>
      let s' := step s .observe
      pure (some s', showRegistry true s')
    | "render", [] =>
      let s' := step s .observe
      pure (some s', showRegistry false s')
    | "del", [k, key] => do
      let k ← kindTok k
      let key ← unhexChars key
      pure (some (xstep s (.del k key)), if (deleteMetric s.metrics (k, key)).2 then "1" else "0")
    | "clear", [] => pure (some (xstep s .clear), "ok")
    | "stale", [k, key, g] => do
      let k ← kindTok k
      let key ← unhexChars key
      let g ← g.toNat?
      let s' := xstep s (.stale k key g)
      let keep := if (shouldStore s k key g).2 then "1" else "0"
      let reg := if (lookup s'.metrics (k, key)).isSome then "1" else "0"
      pure (some s', s!"{keep}/{reg}")
    | "stalekeep", [k, key, g] => do
      -- the same operation where only the answer can be observed (the exporter does not expose its registry)
      let k ← kindTok k
      let key ← unhexChars key
      let g ← g.toNat?
      pure (some (xstep s (.stale k key g)), if (shouldStore s k key g).2 then "1" else "0")
    | _, _ => none
  | _ => none

end MetricsVerif.Driver.Recency
