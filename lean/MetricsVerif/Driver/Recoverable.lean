import MetricsVerif.Driver.Util
import MetricsVerif.Model.Recoverable

namespace MetricsVerif.Driver.Recoverable
open MetricsVerif.Driver MetricsVerif.Recoverable

/-- thread program: calls joined by `+`: `e` emit, `i` into_inner, `d` drop handle, `p` emission in which the
    recorder panics, `n` emission in which the recorder emits again through the wrapper, `k` registration whose returned handle is kept, `u` write through the kept
    handles, `x` drop the kept handles, `m<d>` emission in which the recorder re-enters the wrapper `d` levels deep,
    `D` emission during which the recorder drops the RecoveryHandle, `I` emission during which the recorder calls
    `into_inner` (both from inside the forwarded call) -/
def progTok (s : String) : Option (List Call) :=
  if s == "-" then some [] else
  (s.splitOn "+").mapM (fun c =>
    match c with
    | "e" => some Call.emit | "i" => some Call.intoInner | "d" => some Call.dropHandle
    | "p" => some Call.emitPanic | "n" => some Call.emitNested
    | "k" => some Call.emitKeep | "u" => some Call.useKept | "x" => some Call.dropKept
    | "D" => some Call.emitDropInside | "I" => some Call.emitIntoInside
    | _ => if c.startsWith "m" then (c.drop 1).toNat?.map Call.emitDeep else none)

def schedTok (s : String) : Option (List Nat) :=
  if s == "-" then some [] else (s.splitOn ".").mapM String.toNat?

def showRes : Res → String
  | .delivered => "delivered" | .ignored => "ignored" | .recovered => "recovered" | .dropped => "dropped"
  | .panicked => "panicked" | .nestedDelivered => "nested-delivered" | .nestedIgnored => "nested-ignored"
  | .used l i => s!"used-{l}-{i}" | .keptDropped n => s!"kept-dropped-{n}"

def cellTok (s : String) : Option (Option Nat) :=
  if s == "~" then some none else s.toNat?.map some

def showCell : Option Nat → String
  | none => "~" | some g => toString g

def handle (args : List String) : Option String :=
  match args with
  | ["run", progs, sched] => do
    let progs ← listTok progTok progs
    let sched ← schedTok sched
    let (s, labels) := sched.foldl (fun (acc : Sys × List String) tid =>
        let lbl := match acc.1.threads[tid]? with | some t => t.pc.label | none => "nothread"
        (step acc.1 tid, acc.2 ++ [lbl])) (init progs, [])
    let res := showList (fun (t : Thread) => showList showRes t.results |>.replace "," "+") s.threads
    pure s!"{".".intercalate labels} | {res} | finalised={s.finalised} recovered={s.recovered} late={s.enteredAfterEnd} busy={s.unwrapBusy}"
  | ["install", cell, id] => do
    let cell ← cellTok cell
    let id ← id.toNat?
    let (cell', out) := install cell id
    match out with
    | .installed => pure s!"cell={showCell cell'} installed"
    | .handedBack r fin rec => pure s!"cell={showCell cell'} handed-back id={r} finalised={fin} recovered={rec}"
  | ["free", progs] => do
    -- a free-running round (no scheduler): what every schedule that runs all threads to the end agrees on
    -- (theorems into_inner_exclusive, no_entry_after_end, finalised_at_most_once, inert_after_handle_drop_partial);
    -- evaluated on the round-robin schedule; by `C20.complete_outcome` / `complete_schedules_agree` EVERY schedule
    -- that runs all threads to the end gives these values (finalised, recovered) = `completeOutcome progs`
    let progs ← listTok progTok progs
    let n := progs.length
    let fuel := 4 * (progs.foldl (fun a p => a + p.length + 1) 0) * (n + 1)
    let sched := (List.range fuel).map (fun i => i % (max n 1))
    let s := run (init progs) sched
    let allDone := s.threads.all (fun t => t.pc == PC.done)
    pure s!"done={allDone} finalised={s.finalised} recovered={s.recovered} late={s.enteredAfterEnd} busy={s.unwrapBusy}"
  | _ => none

end MetricsVerif.Driver.Recoverable
