import MetricsVerif.Driver.Util
import MetricsVerif.Model.Recoverable

namespace MetricsVerif.Driver.Recoverable
open MetricsVerif.Driver MetricsVerif.Recoverable

/-- thread program: calls joined by `+`: `e` emit, `i` into_inner, `d` drop handle -/
def progTok (s : String) : Option (List Call) :=
  if s == "-" then some [] else
  (s.splitOn "+").mapM (fun c =>
    match c with
    | "e" => some Call.emit | "i" => some Call.intoInner | "d" => some Call.dropHandle | _ => none)

def schedTok (s : String) : Option (List Nat) :=
  if s == "-" then some [] else (s.splitOn ".").mapM String.toNat?

def showRes : Res → String
  | .delivered => "delivered" | .ignored => "ignored" | .recovered => "recovered" | .dropped => "dropped"

def handle (args : List String) : Option String :=
  match args with
  | ["run", progs, sched] => do
    let progs ← listTok progTok progs
    let sched ← schedTok sched
    let (s, labels) := sched.foldl (fun (acc : Sys × List String) tid =>
        let lbl := match acc.1.threads[tid]? with | some t => t.pc.label | none => "nothread"
        (step acc.1 tid, acc.2 ++ [lbl])) (init progs, [])
    let res := showList (fun (t : Thread) => showList showRes t.results |>.replace "," "+") s.threads
    pure s!"{".".intercalate labels} | {res} | finalised={s.finalised} recovered={s.recovered} late={s.enteredAfterEnd} busy={s.unwrapBusy}"
  | _ => none

end MetricsVerif.Driver.Recoverable
