import MetricsVerif.Driver.Util
import MetricsVerif.Model.Allowlist

/-
Driver for component `allow` (C18).  Per-case state: the configured session (allowlist + marker value).
  allow parse <fam>/<addr>/<plen|~>        → ok | err
  allow new <~ | entry,entry,…>            → ok | builderr
  allow inc <n>                            → ok
  allow req <fam>/<addr> <hex target>      → 403 empty | 200 ok | 200 render <marker> | <status> other
  allow fault <kind> <fam>/<addr>          → ok
`<fam>` is `4` or `6`, `<addr>` the address as a decimal number.
-/
namespace MetricsVerif.Driver.Allowlist
open MetricsVerif.Driver MetricsVerif.Allowlist

def famTok (s : String) : Option Family :=
  if s == "4" then some .v4 else if s == "6" then some .v6 else none

/-- `<fam>/<addr>`; the address must fit the family's width (the harness cannot produce anything else) -/
def addrTok (s : String) : Option Addr :=
  match s.splitOn "/" with
  | [f, a] => do
    let f ← famTok f
    let a ← a.toNat?
    if a < 2 ^ f.width then pure ⟨f, a⟩ else none
  | _ => none

/-- `<fam>/<addr>/<plen|~>` -/
def entryTok (s : String) : Option Entry :=
  match s.splitOn "/" with
  | [f, a, p] => do
    let f ← famTok f
    let a ← a.toNat?
    let p ← optTok (fun t => t.toNat?) p
    pure ⟨f, a, p⟩
  | _ => none

/-- the marker rendering used by the driver: the decimal value (only its class and value are compared) -/
def renderMarker (n : Nat) : List Char := 'r' :: 'e' :: 'n' :: 'd' :: 'e' :: 'r' :: ' ' :: (toString n).toList

def faultKinds : List String :=
  ["garbage", "halfopen", "reset", "bighead", "abort", "partial", "keepalive", "binary", "badversion", "concurrent"]

def showResp (r : Resp) : String :=
  if r.status == 403 && r.body.isEmpty then "403 empty"
  else if r.status == 200 && r.body == okBody then "200 ok"
  else if r.status == 200 then s!"200 {String.ofList r.body}"
  else s!"{r.status} other"

def handle (st : Option Sess) (args : List String) : Option (Option Sess × String) :=
  match args with
  | ["parse", e] => do
    let e ← entryTok e
    pure (st, if (parseEntry e).isSome then "ok" else "err")
  | ["new", l] => do
    let es ← optTok (listTok entryTok) l
    match es with
    | none => pure (some ⟨none, 0⟩, "ok")
    | some es =>
      -- `.` (an allowlist without entries) cannot be configured through the builder
      if es.isEmpty then none else
      match addAll none es with
      | some al => pure (some ⟨al, 0⟩, "ok")
      | none => pure (none, "builderr")
  | [op, a] => do
    let s ← st
    match op with
    | "inc" => do
      let n ← a.toNat?
      pure (some (stepEv renderMarker s (.update n)).1, "ok")
    | _ => none
  | [op, a, b] => do
    let s ← st
    match op with
    | "req" => do
      let peer ← addrTok a
      let target ← unhexChars b
      match stepEv renderMarker s (.req peer target) with
      | (s', some r) => pure (some s', showResp r)
      | (_, none) => none
    | "fault" => do
      let peer ← addrTok b
      let k ← faultKinds.idxOf? a
      match stepEv renderMarker s (.fault k peer) with
      | (s', none) => pure (some s', "ok")
      | (_, some _) => none
    | _ => none
  | _ => none

end MetricsVerif.Driver.Allowlist
