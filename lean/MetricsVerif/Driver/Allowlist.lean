import MetricsVerif.Driver.Util
import MetricsVerif.Model.Allowlist

/-
Driver for component `allow` (C18).  Per-case state: the configured session (allowlist + marker value).
  allow parse <fam>/<addr>/<plen|~>        → ok | err
  allow new <~ | entry,entry,…>            → ok | builderr
  allow inc <n>                            → ok
  allow req <fam>/<addr> <hex target>      → 403 empty | 200 ok | 200 render <marker> | <status> other
  allow fault <kind> <fam>/<addr>          → ok
  allow build <. | bop,bop,…>              → tcp <port> | uds | push | builderr   (bop: L<port> U<id> P A<entry>)
  allow rq <peer> <hex method> <hex target> <. | hexname:hexvalue,…>
                                           → 403 empty | 200 ok | 200 head | 200 render <marker> | noanswer
  allow ka <peer> <hexmethod:hextarget,…>  → answers of one keep-alive connection joined by `|`
  allow hc <peer> <hexmethod:hextarget,…>  → answers to a client that half-closes after its requests, joined by `|`
  allow accepterr <errno>                  → ok | stopped
requests in flight (overlapping scrapes; `stepC`), on the endpoint of the current session:
  allow cnew <v0,v1,…>                     → ok          (series 0…n-1 with these values, nothing in flight)
  allow cupd <k> <d>                       → ok          (series k += d)
  allow carrive <id> <peer> <hex target>   → ok | noanswer   (the request reaches the handler)
  allow cread <id> <k>                     → ok          (its rendering loads series k)
  allow creadall <id>                      → ok          (its rendering loads every series it has not loaded yet)
  allow crespond <id>                      → 403 empty | 200 ok | 200 render <v0,v1,…> | pending
`<fam>` is `4` or `6`, `<addr>` the address as a decimal number, `<peer>` is `<fam>/<addr>/<port>` or `unix`.
-/
namespace MetricsVerif.Driver.Allowlist
open MetricsVerif.Driver MetricsVerif.Allowlist

def famTok (s : String) : Option Family :=
  if s == "4" then some .v4 else if s == "6" then some .v6 else none

/-- `<fam>/<addr>`; the address must fit the family's width (the harness cannot produce anything else) -/
def addrTok (s : String) : Option Addr :=
  match s.splitOn "/" with
  | [f, a] => do
    let f ← famTok f
    let a ← a.toNat?
    if a < 2 ^ f.width then pure ⟨f, a⟩ else none
  | _ => none

/-- `<fam>/<addr>/<plen|~>` -/
def entryTok (s : String) : Option Entry :=
  match s.splitOn "/" with
  | [f, a, p] => do
    let f ← famTok f
    let a ← a.toNat?
    let p ← optTok (fun t => t.toNat?) p
    pure ⟨f, a, p⟩
  | _ => none

/-- the marker rendering used by the driver: the decimal value (only its class and value are compared) -/
def renderMarker (n : Nat) : List Char := 'r' :: 'e' :: 'n' :: 'd' :: 'e' :: 'r' :: ' ' :: (toString n).toList

def faultKinds : List String :=
  ["garbage", "halfopen", "reset", "bighead", "abort", "partial", "keepalive", "binary", "badversion", "concurrent"]

def showResp (r : Resp) : String :=
  if r.status == 403 && r.body.isEmpty then "403 empty"
  else if r.status == 200 && r.body == okBody then "200 ok"
  else if r.status == 200 then s!"200 {String.ofList r.body}"
  else s!"{r.status} other"

/-- answer to a request with method `m`: for `HEAD` only the status is visible -/
def showResp2 (m : List Char) (r : Resp) : String :=
  if m == headMethod && r.status == 200 then "200 head" else showResp r

/-- `<fam>/<addr>/<port>` or `unix` -/
def peerTok (s : String) : Option Peer :=
  if s == "unix" then some .unix else
  match s.splitOn "/" with
  | [f, a, p] => do
    let f ← famTok f
    let a ← a.toNat?
    let p ← p.toNat?
    if a < 2 ^ f.width ∧ p < 65536 then pure (.ip ⟨f, a⟩ p) else none
  | _ => none

/-- builder call: `L<port>` with_http_listener, `U<id>` with_http_uds_listener, `P` with_push_gateway,
    `A<fam>/<addr>/<plen|~>` add_allowed_address -/
def bopTok (s : String) : Option BOp :=
  match s.toList with
  | 'L' :: r => (String.ofList r).toNat?.map .httpListener
  | 'U' :: r => (String.ofList r).toNat?.map .udsListener
  | ['P'] => some .pushGateway
  | 'A' :: r => (entryTok (String.ofList r)).map .allow
  | _ => none

def showEndpoint : Endpoint → String
  | .tcp a _ => s!"tcp {a}"
  | .uds _ => "uds"
  | .nolistener => "push"

/-- `<hex method>:<hex target>` -/
def reqTok (s : String) : Option Req := do
  let (m, t) ← pairTok unhexChars unhexChars s
  pure ⟨m, t, []⟩

/-- the arm of the accept loops in the code (`src_listener_plumbing`) -/
def arm : LoopAct := .continue

/-- what a connection does on EOF from the client while a response is owed: the option the code sets
    (`half_close(true)`, `src_connection_task`) -/
def eof : EofAct := .finish

/-- the text of a rendering in the `stepC` layer: the values of the series in order -/
def renderVals (vs : List Nat) : List Char := ("render " ++ ",".intercalate (vs.map toString)).toList

/-- per-case state: the sequential session and, once `cnew` was sent, the exporter with requests in flight -/
structure DState where
  sess : Sess2
  conc : Option StC := none

abbrev DSt := Option DState

def handleSeq (st : Option Sess2) (args : List String) : Option (Option Sess2 × String) :=
  match args with
  | ["parse", e] => do
    let e ← entryTok e
    pure (st, if (parseEntry e).isSome then "ok" else "err")
  | ["new", l] => do
    let es ← optTok (listTok entryTok) l
    match es with
    | none => pure (some (Sess2.start (.tcp 0 none)), "ok")
    | some es =>
      -- `.` (an allowlist without entries) cannot be configured through the builder
      if es.isEmpty then none else
      match Builder.new.applyAll (.httpListener 0 :: es.map .allow) with
      | some b => pure (some (Sess2.start b.build), "ok")
      | none => pure (none, "builderr")
  | ["build", l] => do
    let ops ← listTok bopTok l
    match Builder.new.applyAll ops with
    | some b => pure (some (Sess2.start b.build), showEndpoint b.build)
    | none => pure (none, "builderr")
  | [op, a] => do
    let s ← st
    match op with
    | "inc" => do
      let n ← a.toNat?
      pure (some (stepEv2 arm renderMarker s (.update n)).1, "ok")
    | "accepterr" => do
      let n ← a.toNat?
      match stepEv2 arm renderMarker s (.acceptErr n) with
      | (s', []) => pure (some s', if s'.running then "ok" else "stopped")
      | (_, _) => none
    | _ => none
  | [op, a, b] => do
    let s ← st
    match op with
    | "req" => do
      let peer ← addrTok a
      let target ← unhexChars b
      match stepEv2 arm renderMarker s ((Ev.req peer target).lift 0) with
      | (s', [r]) => pure (some s', showResp r)
      | (s', []) => pure (some s', "noanswer")
      | (_, _) => none
    | "fault" => do
      let peer ← addrTok b
      let k ← faultKinds.idxOf? a
      match stepEv2 arm renderMarker s ((Ev.fault k peer).lift 0) with
      | (s', []) => pure (some s', "ok")
      | (_, _) => none
    | "ka" => do
      -- several requests on one connection
      let peer ← peerTok a
      let reqs ← listTok reqTok b
      if reqs.isEmpty then none else
      match stepEv2 arm renderMarker s (.conn peer reqs) with
      | (s', []) => pure (some s', "noanswer")
      | (s', rs) =>
        if rs.length == reqs.length then
          pure (some s', "|".intercalate ((reqs.zip rs).map (fun (q, r) => showResp2 q.method r)))
        else none
    | "hc" => do
      -- complete requests, then the client shuts down its write side and reads until EOF
      let peer ← peerTok a
      let reqs ← listTok reqTok b
      if reqs.isEmpty then none else
      match stepEv3 arm eof renderMarker s (.halfClose peer reqs) with
      | (s', []) => pure (some s', "noanswer")
      | (s', rs) =>
        if rs.length == reqs.length then
          pure (some s', "|".intercalate ((reqs.zip rs).map (fun (q, r) => showResp2 q.method r)))
        else none
    | _ => none
  | ["rq", a, m, t, h] => do
    let s ← st
    let peer ← peerTok a
    let m ← unhexChars m
    let t ← unhexChars t
    let hs ← listTok (pairTok unhexChars unhexChars) h
    match stepEv2 arm renderMarker s (.conn peer [⟨m, t, hs⟩]) with
    | (s', [r]) => pure (some s', showResp2 m r)
    | (s', []) => pure (some s', "noanswer")
    | (_, _) => none
  | _ => none

/-- the ops on requests in flight; everything else goes to `handleSeq` -/
def handle (st : DSt) (args : List String) : Option (DSt × String) :=
  match args with
  | ["cnew", l] => do
    let d ← st
    let vs ← listTok (fun t => t.toNat?) l
    pure (some { d with conc := some ⟨vs.length, fun k => vs.getD k 0, []⟩ }, "ok")
  | ["cupd", k, n] => do
    let d ← st
    let c ← d.conc
    let k ← k.toNat?
    let n ← n.toNat?
    if k < c.n then pure (some { d with conc := some (stepC renderVals c (.update k n)).1 }, "ok") else none
  | ["carrive", id, peer, t] => do
    let d ← st
    let c ← d.conc
    let id ← id.toNat?
    let peer ← peerTok peer
    let t ← unhexChars t
    -- ids are the harness's names: an id still in flight is a malformed op
    if (findFlight id c.flights).isSome then none else
    match (if d.sess.running then d.sess.ep.isAllowed peer else none) with
    | some ok => pure (some { d with conc := some (stepC renderVals c (.arrive id ok (pathOf t))).1 }, "ok")
    | none => pure (some d, "noanswer")
  | ["cread", id, k] => do
    let d ← st
    let c ← d.conc
    let id ← id.toNat?
    let k ← k.toNat?
    if k < c.n ∧ (findFlight id c.flights).isSome then
      pure (some { d with conc := some (stepC renderVals c (.read id k)).1 }, "ok")
    else none
  | ["creadall", id] => do
    let d ← st
    let c ← d.conc
    let id ← id.toNat?
    if (findFlight id c.flights).isSome then
      pure (some { d with conc := some (runStateC renderVals c ((List.range c.n).map (fun k => EvC.read id k))) }, "ok")
    else none
  | ["crespond", id] => do
    let d ← st
    let c ← d.conc
    let id ← id.toNat?
    if (findFlight id c.flights).isNone then none else
    match stepC renderVals c (.respond id) with
    | (c', some r) => pure (some { d with conc := some c' }, showResp r)
    | (c', none) => pure (some { d with conc := some c' }, "pending")
  | _ => do
    let (s', ans) ← handleSeq (st.map (·.sess)) args
    pure (s'.map (fun s => ({ sess := s, conc := st.bind (·.conc) } : DState)), ans)

end MetricsVerif.Driver.Allowlist
