import MetricsVerif.Driver.Util
import MetricsVerif.Driver.C08
import MetricsVerif.Model.Prom
import MetricsVerif.Model.Exposition

namespace MetricsVerif.Driver.Prom
open MetricsVerif.Driver MetricsVerif.Prom MetricsVerif.PromFmt MetricsVerif.PromRender MetricsVerif

def intTok? (s : String) : Option Int := s.toInt?

/-- value token: `d<int>` (n/1024) or `b<decimal bits>` -/
def valTok (s : String) : Option Val :=
  match s.toList with
  | 'd' :: r => (String.ofList r).toInt?.map Val.dy
  | 'b' :: r => (String.ofList r).toNat?.map Val.bits
  | _ => none

def keyToks (n l : String) : Option MKey := do
  pure ⟨← unhexChars n, ← listTok (pairTok unhexChars unhexChars) l⟩

def matcherTok (s : String) : Option (Matcher × List Int) :=
  match s.splitOn "/" with
  | [kind, pat, bs] => do
    let pat ← unhexChars pat
    let bs ← (bs.splitOn "+").mapM intTok?
    match kind with
    | "full" => pure (.full pat, bs)
    | "prefix" => pure (.pfx pat, bs)
    | "suffix" => pure (.sfx pat, bs)
    | _ => none
  | _ => none

/-- canonical, order-independent view of an exposition text (same algorithm as harness/src/prom.rs) -/
def canonical (text : List Char) : String :=
  let lines := Expo.splitLines text
  let rec go (ls : List (List Char)) (cur : List Char) (acc : List String) : List String :=
    match ls with
    | [] => acc
    | l :: rest =>
      if l == ['\n'] then go rest cur acc else
      match Expo.parseHelp l with
      | some (n, d) => go rest cur (s!"H {hexChars n} {hexChars d}" :: acc)
      | none =>
      match Expo.parseType l with
      | some (n, t) => go rest n (s!"T {hexChars n} {String.ofList t}" :: acc)
      | none =>
      match Expo.parseSample l with
      | some smp =>
        let ls := showList (fun (kv : List Char × List Char) => s!"{hexChars kv.1}:{hexChars kv.2}") smp.labels
        go rest cur (s!"S {hexChars cur} {hexChars smp.name} {ls} {String.ofList smp.value}" :: acc)
      | none => go rest cur (s!"unparseable {hexChars l}" :: acc)
  let items := go lines [] []
  let sorted := items.mergeSort (fun a b => decide (a ≤ b))
  if sorted.isEmpty then "empty" else ";".intercalate sorted

def handle (st : Option St) (args : List String) : Option (Option St × String) :=
  match args with
  | ["new", us, globals, buckets, overrides, quantiles] => do
    let globals ← listTok (pairTok unhexChars unhexChars) globals
    let buckets ← optTok (fun s => (s.splitOn "+").mapM intTok?) buckets
    let overrides ← listTok matcherTok overrides
    let quantiles ← listTok unhexChars quantiles
    -- `globals` / `overrides` are the builder calls as made (repeats included), folded as the builder does
    let cfg : Cfg := { unitSuffix := us == "1", globals := buildGlobals globals, buckets,
                       overrides := buildOverrides overrides, quantiles }
    pure (some { cfg }, "ok")
  | op :: rest => do
    let s ← st
    match op, rest with
    | "describe", [n, u, d] => do
      let s' := step s (.describe (← unhexChars n) (← C08.unitTok u) (← unhexChars d))
      pure (some s', "ok")
    | "cinc", [n, l, v] => do pure (some (step s (.cinc (← keyToks n l) (← v.toNat?))), "ok")
    | "cabs", [n, l, v] => do pure (some (step s (.cabs (← keyToks n l) (← v.toNat?))), "ok")
    | "gset", [n, l, v] => do pure (some (step s (.gset (← keyToks n l) (← valTok v))), "ok")
    | "gadd", [n, l, v] => do pure (some (step s (.gadd (← keyToks n l) (← intTok? v))), "ok")
    | "hrec", [n, l, v] => do pure (some (step s (.hrec (← keyToks n l) (← intTok? v))), "ok")
    | "hrecmany", [n, l, v, c] => do pure (some (step s (.hrecMany (← keyToks n l) (← intTok? v) (← c.toNat?))), "ok")
    | "upkeep", [] => pure (some (step s .upkeep), "ok")
    | "render", [] =>
      let (s', fams) := renderLines s
      pure (some s', canonical (renderText fams.flatten))
    | _, _ => none
  | _ => none

end MetricsVerif.Driver.Prom
