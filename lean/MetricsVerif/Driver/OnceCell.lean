import MetricsVerif.Driver.Util
import MetricsVerif.Model.OnceCell
import MetricsVerif.Model.GlobalRec

namespace MetricsVerif.Driver.OnceCell
open MetricsVerif.Driver MetricsVerif.OnceCell MetricsVerif.GlobalRec

/-- thread program token: calls joined by `+`: `s<id>` = set recorder id, `l` = load -/
def progTok (s : String) : Option (List Call) :=
  if s == "-" then some [] else
  (s.splitOn "+").mapM (fun c =>
    match c.toList with
    | ['l'] => some Call.load
    | 's' :: r => (String.ofList r).toNat?.map Call.set
    | _ => none)

/-- API program token: `s<id>` = set_global_recorder(recorder id), `e` = emission without local recorder,
    `x<id>` = emission inside with_local_recorder(local id), `p` = emission whose recorder call panics (caught),
    `n<k>` = emission whose recorder emits again from inside the call (k levels), `i` = emission from inside the
    closure handed to with_recorder, `y<id>` = emission under local recorder id whose recorder panics (caught),
    `w<id>` = with_recorder closure that installs recorder id and then emits, `v<l>r<id>` = installation of recorder id
    (then an emission) inside with_local_recorder(local l) -/
def gprogTok (s : String) : Option (List GCall) :=
  if s == "-" then some [] else
  (s.splitOn "+").mapM (fun c =>
    match c.toList with
    | ['e'] => some GCall.emit
    | 's' :: r => (String.ofList r).toNat?.map GCall.install
    | 'x' :: r => (String.ofList r).toNat?.map GCall.emitLocal
    | ['p'] => some GCall.emitPanic
    | ['i'] => some GCall.emitIn
    | 'n' :: r => (String.ofList r).toNat?.map GCall.emitNested
    | 'y' :: r => (String.ofList r).toNat?.map GCall.emitLocalPanic
    | 'w' :: r => (String.ofList r).toNat?.map GCall.installIn
    | 'v' :: r => match (String.ofList r).splitOn "r" with
      | [l, x] => do pure (GCall.installLocal (← l.toNat?) (← x.toNat?))
      | _ => none
    | _ => none)

def showTarget : Target → String
  | .noop => "none" | .global r => s!"some{r}" | .localRec l => s!"local{l}"

def showRes : Res → String
  | .ok => "ok" | .err r => s!"err{r}" | .some r => s!"some{r}" | .none => "none" | .torn => "torn"

def showGRes : GRes → String
  | .closureInstall a i b => showTarget a ++ "&" ++ showRes i ++ "&" ++ showTarget b
  | .scopedInstall i l => showRes i ++ "&" ++ s!"local{l}"
  | .installed => "ok" | .rejected r => s!"err{r}"
  | .sent t => showTarget t
  | .unwound t => showTarget t ++ "!"
  | .sentAll ts => "&".intercalate (ts.map showTarget)

def schedTok (s : String) : Option (List Nat) :=
  if s == "-" then some [] else (s.splitOn ".").mapM String.toNat?

/-- `cell run <progs> <schedule>`: answers the label of every step taken (the point id the stepped thread
    was parked at) and the per-thread results. Orderings: release/acquire (what the source has; pinned
    separately by the translator obligation). -/
def handle (args : List String) : Option String :=
  match args with
  | ["run", progs, sched] => do
    let progs ← listTok progTok progs
    let sched ← schedTok sched
    let o : Ord := { storeRelease := true, loadAcquire := true }
    let (s, labels) := sched.foldl (fun (acc : Sys × List String) tid =>
        let lbl := match acc.1.threads[tid]? with | some t => t.pc.label | none => "nothread"
        (step o acc.1 tid, acc.2 ++ [lbl])) (init progs, [])
    let res := showList (fun (t : Thread) => showList showRes t.results |>.replace "," "+") s.threads
    let cell := match s.cell with | some r => toString r | none => "~"
    pure s!"{".".intercalate labels} | {res} | cell={cell}"
  | ["grun", progs, sched] => do
    -- the lookup layer of mod.rs on the real GLOBAL_RECORDER: API programs projected onto the cell machine
    let gprogs ← listTok gprogTok progs
    let sched ← schedTok sched
    let o : Ord := { storeRelease := true, loadAcquire := true }
    let (s, labels) := sched.foldl (fun (acc : Sys × List String) tid =>
        let lbl := match acc.1.threads[tid]? with | some t => t.pc.label | none => "nothread"
        (step o acc.1 tid, acc.2 ++ [lbl])) (ginit gprogs, [])
    let res := showList (fun (r : List GRes) => showList showGRes r |>.replace "," "+") (gobserve gprogs s)
    -- what a final emission on a fresh thread without local recorder reaches
    let fin := match dispatch none (match s.state, s.cell with | 2, some r => Res.some r | _, _ => Res.none) with
      | .global r => toString r | _ => "~"
    pure s!"{".".intercalate labels} | {res} | cell={fin}"
  | _ => none

end MetricsVerif.Driver.OnceCell
