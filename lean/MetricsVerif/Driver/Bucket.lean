import MetricsVerif.Driver.Util
import MetricsVerif.Model.Bucket
import MetricsVerif.Model.BucketGhost
import MetricsVerif.Model.BucketUnwind

namespace MetricsVerif.Driver.Bucket
open MetricsVerif.Driver MetricsVerif.Bucket

/-- thread program: calls joined by `+`: `p<v>` push, `d` data, `c` clear, `e` is_empty -/
def progTok (s : String) : Option (List Call) :=
  if s == "-" then some [] else
  (s.splitOn "+").mapM (fun c =>
    match c.toList with
    | ['d'] => some Call.data | ['c'] => some Call.clear | ['e'] => some Call.isEmpty
    | 'p' :: r => (String.ofList r).toNat?.map Call.push
    | _ => none)

def schedTok (s : String) : Option (List Nat) :=
  if s == "-" then some [] else (s.splitOn ".").mapM String.toNat?

def showVals (vs : List Nat) : String := if vs.isEmpty then "[]" else "[" ++ "/".intercalate (vs.map toString) ++ "]"

def showRes : Res → String
  | .pushed => "pushed" | .snapshot vs => "snap" ++ showVals vs | .cleared vs => "clr" ++ showVals vs
  | .empty b => s!"empty:{b}"

/- one granted step = one model step: every PC of the step machine is a yield point of bucket.rs (the CAS of
   `clear_with` is the point `bkt.clear.cas`), so the granted schedule IS the model schedule -/

def handle (args : List String) : Option String :=
  match args with
  | ["k1", b, progs, sched] => do
    -- number of K1 steps (slot claims landing on an already detached block, `Model/BucketGhost.lean`) of the run
    let b ← b.toNat?
    let progs ← listTok progTok progs
    let sched ← schedTok sched
    pure s!"k1={k1Fold (init b progs) own0 0 sched}"
  | ["run", b, progs, sched] => do
    let b ← b.toNat?
    let progs ← listTok progTok progs
    let sched ← schedTok sched
    let (s, labels) := sched.foldl (fun (acc : Sys × List String) tid =>
        let lbl := match acc.1.threads[tid]? with | some t => t.pc.label | none => "nothread"
        (step acc.1 tid, acc.2 ++ [lbl])) (init b progs, [])
    let res := showList (fun (t : Thread) => showList showRes t.results |>.replace "," "+") s.threads
    pure s!"{".".intercalate labels} | {res} | visible={showVals (visible s)}"
  | ["unwind", b, progs, sched, marks] => do
    -- `run` with marked grants: at the grant indices in `marks` (joined by `.`, `-` = none) the callback that
    -- `clear_with` calls in that grant unwinds (`Model/BucketUnwind.lean`); additionally the values orphaned there, sorted
    let b ← b.toNat?
    let progs ← listTok progTok progs
    let sched ← schedTok sched
    let marks ← schedTok marks
    let marked := (List.range sched.length).zip sched |>.map (fun (i, tid) => (tid, marks.contains i))
    let labels := (marked.foldl (fun (acc : Sys × List String) (m : Nat × Bool) =>
        let lbl := match acc.1.threads[m.1]? with | some t => t.pc.label | none => "nothread"
        let s' := step acc.1 m.1
        ((if m.2 then unwindStep s' m.1 else s'), acc.2 ++ [lbl])) (init b progs, [])).2
    let s := runMarked (init b progs) marked
    let res := showList (fun (t : Thread) => showList showRes t.results |>.replace "," "+") s.threads
    let orph := (orphansOfRun (init b progs) marked).mergeSort (· ≤ ·)
    pure s!"{".".intercalate labels} | {res} | visible={showVals (visible s)} | orphaned={showVals orph}"
  | _ => none

end MetricsVerif.Driver.Bucket
