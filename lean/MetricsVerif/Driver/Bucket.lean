import MetricsVerif.Driver.Util
import MetricsVerif.Model.Bucket
import MetricsVerif.Model.BucketGhost

namespace MetricsVerif.Driver.Bucket
open MetricsVerif.Driver MetricsVerif.Bucket

/-- thread program: calls joined by `+`: `p<v>` push, `d` data, `c` clear, `e` is_empty -/
def progTok (s : String) : Option (List Call) :=
  if s == "-" then some [] else
  (s.splitOn "+").mapM (fun c =>
    match c.toList with
    | ['d'] => some Call.data | ['c'] => some Call.clear | ['e'] => some Call.isEmpty
    | 'p' :: r => (String.ofList r).toNat?.map Call.push
    | _ => none)

def schedTok (s : String) : Option (List Nat) :=
  if s == "-" then some [] else (s.splitOn ".").mapM String.toNat?

def showVals (vs : List Nat) : String := if vs.isEmpty then "[]" else "[" ++ "/".intercalate (vs.map toString) ++ "]"

def showRes : Res → String
  | .pushed => "pushed" | .snapshot vs => "snap" ++ showVals vs | .cleared vs => "clr" ++ showVals vs
  | .empty b => s!"empty:{b}"

/-- one granted step = one model step, except that the CAS of `clear_with` follows its tail load without a
    yield point in the source: both happen in the grant of `bkt.clear.load_tail` -/
def grant (s : Sys) (tid : Nat) : Sys :=
  let s1 := step s tid
  match s1.threads[tid]? with
  | some t => (match t.pc with | .cCas _ => step s1 tid | _ => s1)
  | none => s1

/-- the model schedule behind a granted schedule: the thread id twice where `grant` takes the clear's CAS step -/
def expand (s : Sys) (sched : List Nat) : List Nat :=
  (sched.foldl (fun (acc : Sys × List Nat) tid =>
      let s1 := step acc.1 tid
      match s1.threads[tid]? with
      | some t => (match t.pc with | .cCas _ => (step s1 tid, acc.2 ++ [tid, tid]) | _ => (s1, acc.2 ++ [tid]))
      | none => (s1, acc.2 ++ [tid])) (s, [])).2

def handle (args : List String) : Option String :=
  match args with
  | ["k1", b, progs, sched] => do
    -- number of K1 steps (slot claims landing on an already detached block, `Model/BucketGhost.lean`) of the run
    let b ← b.toNat?
    let progs ← listTok progTok progs
    let sched ← schedTok sched
    pure s!"k1={k1Fold (init b progs) own0 0 (expand (init b progs) sched)}"
  | ["run", b, progs, sched] => do
    let b ← b.toNat?
    let progs ← listTok progTok progs
    let sched ← schedTok sched
    let (s, labels) := sched.foldl (fun (acc : Sys × List String) tid =>
        let lbl := match acc.1.threads[tid]? with | some t => t.pc.label | none => "nothread"
        (grant acc.1 tid, acc.2 ++ [lbl])) (init b progs, [])
    let res := showList (fun (t : Thread) => showList showRes t.results |>.replace "," "+") s.threads
    pure s!"{".".intercalate labels} | {res} | visible={showVals (visible s)}"
  | _ => none

end MetricsVerif.Driver.Bucket
