import MetricsVerif.Driver.Util
import MetricsVerif.Model.Registry
import MetricsVerif.Model.RegistryStore
import MetricsVerif.Generated.SourceFacts

/-
Driver for the registry model (component `registry`).

Keys arrive as `<class>:<hash>:<maphash>`: the ≈-class the harness assigns by its own canonicalisation (name + sorted
labels), the REAL 64-bit `Hashable::hashable()` value in decimal, and the REAL hash the shard map's own
`BuildHasherDefault<KeyHasher>` computes for the key.  The model compares classes and uses the hashes exactly as the
code does: shard = hash & mask, lookup by hash and equality, and a NEW entry is filed under the hash that the insertion
call named by the source fact `Generated.reg_goc_insert_calls` uses (`Model/RegistryStore.lean`: `or_insert_with` → the
map's hash; `insert_with_hasher(hash, .., |k| k.hashable())` → the looked-up hash; anything else → `bad-op`).
`<class>:<hash>` is accepted as a key whose two hashes are equal.  The step machines (`run`, `lrun`) are one-hash
machines: they answer `bad-op` for a program that contains a key the code would file under another hash than it
looks it up with.

  registry new <shard count>                       → ok
  registry goc|get|del <c|g|h> <key>               → <id> | <id>/~ | true/false
  registry retain <c|g|h> <classes> <ids>          → what the predicate was called with (sorted); keeps an
                                                     entry iff its class is in <classes> or its id in <ids>
  registry retainpanic <c|g|h>                     → ok   (a `retain_*` whose predicate unwinds at its first call: hashbrown's
                                                     `retain` has removed nothing yet, later shards are not reached; the
                                                     poisoned shard lock is recovered by every later lock call: no change)
  registry clear                                   → ok
  registry visit <c|g|h>                           → non-empty shards in shard order, each sorted: a:1,b:2;c:3
  registry handles <c|g|h>                         → sorted cls:id list
  registry handlescls <c|g|h>                      → sorted classes of the snapshot map's keys (two-hash key stream: with several
                                                     entries per key, which storage the map keeps depends on hashbrown's
                                                     iteration order)
  registry created                                 → number of storages created so far
  registry run <count> <pre> <progs> <sched>       → labels | per-thread results | final listings | created
-/
namespace MetricsVerif.Driver.Registry
open MetricsVerif.Driver MetricsVerif.Registry

structure DKey where
  cls : Nat
  hash : Nat
  mhash : Nat

def dko : KeyOps DKey := { eqv := fun a b => a.cls == b.cls, hash := fun a => a.hash }

/-- the insertion call of this source tree -/
def insertVia : Option InsertVia := insertViaOf Generated.reg_goc_insert_calls

/-- the two-hash view of a key under this source tree's insertion call -/
def dso : Option (StoreOps DKey) :=
  match insertVia with
  | some .mapHasher => some { ko := dko, storeHash := fun a => a.mhash }
  | some .givenHash => some { ko := dko, storeHash := fun a => a.hash }
  | none => none

abbrev St := Reg DKey

def keyTok (s : String) : Option DKey :=
  match s.splitOn ":" with
  | [c, h] => do
    let c ← c.toNat?
    let h ← h.toNat?
    pure { cls := c, hash := h, mhash := h }
  | [c, h, m] => do
    let c ← c.toNat?
    let h ← h.toNat?
    let m ← m.toNat?
    pure { cls := c, hash := h, mhash := m }
  | _ => none

/-- a key of a step-machine program: must be filed under the hash it is looked up with -/
def keyTokCoh (s : String) : Option DKey := do
  let k ← keyTok s
  let so ← dso
  if so.storeHash k = k.hash then pure k else none

def kindTok : String → Option Kind
  | "c" => some .counter | "g" => some .gauge | "h" => some .histogram | _ => none

def pairLe (a b : Nat × Nat) : Bool := a.1 < b.1 || (a.1 == b.1 && a.2 ≤ b.2)

def showPairs (l : List (DKey × Nat)) : String :=
  showList (fun (p : Nat × Nat) => s!"{p.1}:{p.2}") ((l.map (fun p => (p.1.cls, p.2))).mergeSort pairLe)

def showShards (ls : List (List (DKey × Nat))) : String :=
  let ne := ls.filter (fun l => !l.isEmpty)
  if ne.isEmpty then "." else ";".intercalate (ne.map showPairs)

def callTok (s : String) : Option (Call DKey) :=
  match s.splitOn "/" with
  | [o, kd, k] => do
    let kd ← kindTok kd
    let k ← keyTokCoh k
    match o with
    | "g" => some (.goc kd k) | "r" => some (.get kd k) | "d" => some (.delete kd k) | _ => none
  | _ => none

def progTok (s : String) : Option (List (Call DKey)) :=
  if s == "-" then some [] else (s.splitOn "+").mapM callTok

def schedTok (s : String) : Option (List Nat) :=
  if s == "-" then some [] else (s.splitOn ".").mapM String.toNat?

def showRes : Res → String
  | .id i => toString i
  | .opt none => "~" | .opt (some i) => s!"s{i}"
  | .bool true => "t" | .bool false => "f"

/-! lock-aware machine (`registry lrun`): calls `g|r|d/<kd>/<key>`, `c` (clear), `v/<kd>/<0|1>` (visit, 1 = the
    callback parks), `t/<kd>/<classes joined by _ or ->/<0|1>` (retain keeping these classes) -/

def boolTok : String → Option Bool
  | "0" => some false | "1" => some true | _ => none

def clsTok (s : String) : Option (List Nat) :=
  if s == "-" then some [] else (s.splitOn "_").mapM String.toNat?

def lcallTok (s : String) : Option (LCall DKey) :=
  match s.splitOn "/" with
  | ["c"] => some .clear
  | ["v", kd, h] => do pure (.visit (← kindTok kd) (← boolTok h))
  | ["t", kd, cs, h] => do
    let cs ← clsTok cs
    pure (.retain (← kindTok kd) (fun k _ => cs.contains k.cls) (← boolTok h))
  | [o, kd, k] => do
    let kd ← kindTok kd
    let k ← keyTokCoh k
    match o with
    | "g" => some (.goc kd k) | "r" => some (.get kd k) | "d" => some (.delete kd k) | _ => none
  | _ => none

def lprogTok (s : String) : Option (List (LCall DKey)) :=
  if s == "-" then some [] else (s.splitOn "+").mapM lcallTok

def showLRes : LRes DKey → String
  | .id i => toString i
  | .opt none => "~" | .opt (some i) => s!"s{i}"
  | .bool true => "t" | .bool false => "f"
  | .unit => "u"
  | .listing l =>
    "L" ++ "_".intercalate (((l.map (fun p => (p.1.cls, p.2))).mergeSort pairLe).map (fun (p : Nat × Nat) => s!"{p.1}:{p.2}"))

def lcallLabelArg : Option (LCall DKey) → Option Bool
  | some (.visit _ _) => some false
  | some (.retain _ _ _) => some true
  | _ => none

def handle (st : Option St) (args : List String) : Option (Option St × String) :=
  match args with
  | ["new", count] => do
    let c ← count.toNat?
    if c = 0 then none else pure (some (Reg.new c), "ok")
  | ["run", count, pre, progs, sched] => do
    let c ← count.toNat?
    if c = 0 then none else
    let pre ← progTok pre
    let progs ← listTok progTok progs
    let sched ← schedTok sched
    let r0 := (runOps dko (Reg.new c) (pre.map Call.toOp)).1
    let s0 : Sys DKey := { Sys.init c progs with reg := r0 }
    let (s, labels) := sched.foldl (fun (acc : Sys DKey × List String) tid =>
        let lbl := match acc.1.threads[tid]? with | some t => t.pc.label | none => "nothread"
        (step1 dko acc.1 tid, acc.2 ++ [lbl])) (s0, [])
    let res := showList (fun (t : Thread DKey) => showList showRes t.results |>.replace "," "+") s.threads
    let fin := " ".intercalate ([Kind.counter, .gauge, .histogram].map (fun kd => showPairs (visit s.reg kd)))
    pure (st, s!"{".".intercalate labels} | {res} | {fin} | created={s.reg.next}")
  | ["lrun", count, pre, progs, sched] => do
    let c ← count.toNat?
    if c = 0 then none else
    let pre ← progTok pre
    let progs ← listTok lprogTok progs
    let sched ← schedTok sched
    let r0 := (runOps dko (Reg.new c) (pre.map Call.toOp)).1
    let s0 : LSys DKey := { LSys.init c progs with reg := r0 }
    let (s, labels) := sched.foldl (fun (acc : LSys DKey × List String) tid =>
        let lbl := match acc.1.threads[tid]? with
          | some t => t.pc.label (lcallLabelArg t.calls.head?)
          | none => "nothread"
        (lstep dko acc.1 tid, acc.2 ++ [lbl])) (s0, [])
    let res := showList (fun (t : LThread DKey) =>
        if t.results.isEmpty then "." else "+".intercalate (t.results.map showLRes)) s.threads
    let fin := " ".intercalate ([Kind.counter, .gauge, .histogram].map (fun kd => showPairs (visit s.reg kd)))
    let pcs := showList (fun (t : LThread DKey) => t.pc.label (lcallLabelArg t.calls.head?)) s.threads
    pure (st, s!"{".".intercalate labels} | {res} | {fin} | created={s.reg.next} | {pcs}")
  | op :: rest => do
    let r ← st
    match op, rest with
    | "goc", [kd, k] =>
      let (r', i) := getOrCreateS (← dso) r (← kindTok kd) (← keyTok k)
      pure (some r', toString i)
    | "retainpanic", [kd] =>
      let _ ← kindTok kd
      pure (some r, "ok")
    | "get", [kd, k] =>
      pure (some r, match getExisting dko r (← kindTok kd) (← keyTok k) with | some i => toString i | none => "~")
    | "del", [kd, k] =>
      let (r', b) := delete dko r (← kindTok kd) (← keyTok k)
      pure (some r', toString b)
    | "retain", [kd, classes, ids] => do
      let cs ← listTok String.toNat? classes
      let is ← listTok String.toNat? ids
      let (r', seen) := retain r (← kindTok kd) (fun k i => cs.contains k.cls || is.contains i)
      pure (some r', showPairs seen)
    | "clear", [] => pure (some (clear r), "ok")
    | "visit", [kd] => pure (some r, showShards (visitShards r (← kindTok kd)))
    | "handles", [kd] => pure (some r, showPairs (handles dko r (← kindTok kd)))
    | "handlescls", [kd] =>
      pure (some r, showList (fun (c : Nat) => toString c)
        (((handles dko r (← kindTok kd)).map (fun p => p.1.cls)).mergeSort (fun a b => decide (a ≤ b))))
    | "created", [] => pure (some r, toString r.next)
    | _, _ => none
  | _ => none

end MetricsVerif.Driver.Registry
