import MetricsVerif.Driver.Util
import MetricsVerif.Driver.Recency
import MetricsVerif.Model.PromIdle
import MetricsVerif.Model.PromFmt

/-!
Line protocol of component `promidle` (C12, exporter side: registry + `Recency` + `distributions`):

* `new <mask 0..7> <timeout ticks | ~> <global labels: khex:vhex,… | .>` → `ok`
* `key <key id hex> <name hex> <labels: khex:vhex,… | .>` → `ok`   declares what `Key` a key id stands for
  (`key_to_parts` needs name and labels; an undeclared id is `bad-op` in every later op)
* `reg <c|g|h> <key id hex>` / `upd <c|g|h> <key id hex> <inc|abs|set|add|rec>:<number>` / `recmany <key id hex> <v> <n>` /
  `adv <ticks>` / `upkeep` → `ok`
* `render` → what the exposition text shows after the observation, sorted:
  counters and gauges from the registry `c/<key id hex>/<value>`, histograms from the distributions
  `h/<sanitised name hex>/<hex of the label strings joined by ','>/<count>+<sum>`; `.` if nothing
-/
namespace MetricsVerif.Driver.PromIdle
open MetricsVerif.Driver MetricsVerif.Recency MetricsVerif.PromIdle

structure DSt where
  ps : PSt
  globals : List (List Char × List Char)
  table : List (Key × (List Char × List (List Char × List Char))) := []

/-- `key_to_parts(key, Some(&global_labels))` for a declared key id -/
def partsOf (globals : List (List Char × List Char))
    (table : List (Key × (List Char × List (List Char × List Char)))) (key : Key) : DKey :=
  match lookup table key with
  | some (name, labels) => PromFmt.keyToParts name labels globals
  | none => (key, [])

def joinComma : List (List Char) → List Char
  | [] => []
  | [x] => x
  | x :: rest => x ++ [','] ++ joinComma rest

def showOutput (s : PSt) : String :=
  let cg := (s.base.metrics.filter (fun e => e.1.1 != Kind.histogram)).map (fun e =>
    s!"{Recency.kindStr e.1.1}/{hexChars e.1.2}/{Recency.valStr e.2.val}")
  let hs := s.dists.map (fun d => s!"h/{hexChars d.1.1}/{hexChars (joinComma d.1.2)}/{d.2.1}+{d.2.2}")
  showList id ((cg ++ hs).mergeSort (fun a b => decide (a ≤ b)))

def handle (st : Option DSt) (args : List String) : Option (Option DSt × String) :=
  match args with
  | ["new", mask, timeout, globals] => do
    let mask ← mask.toNat?
    if mask > 7 then none
    let timeout ← optTok String.toNat? timeout
    let globals ← listTok (pairTok unhexChars unhexChars) globals
    pure (some { ps := PromIdle.init { mask, timeout, byKind := true }, globals }, "ok")
  | op :: rest => do
    let d ← st
    let parts := partsOf d.globals d.table
    let known (key : Key) : Option Unit := if (lookup d.table key).isSome then some () else none
    let go (o : POp) : Option (Option DSt × String) := pure (some { d with ps := pstep parts d.ps o }, "ok")
    match op, rest with
    | "key", [key, name, labels] => do
      let key ← unhexChars key
      let name ← unhexChars name
      let labels ← listTok (pairTok unhexChars unhexChars) labels
      pure (some { d with table := insert d.table key (name, labels) }, "ok")
    | "reg", [k, key] => do
      let key ← unhexChars key
      known key
      go (.reg (← Recency.kindTok k) key)
    | "upd", [k, key, u] => do
      let k ← Recency.kindTok k
      let u ← Recency.updTok u
      if !u.fits k then none
      let key ← unhexChars key
      known key
      go (.upd k key u)
    | "recmany", [key, v, n] => do
      let key ← unhexChars key
      known key
      go (.recMany key (← v.toInt?) (← n.toNat?))
    | "adv", [n] => do go (.adv (← n.toNat?))
    | "upkeep", [] => go .upkeep
    | "render", [] =>
      let ps' := pstep parts d.ps .render
      pure (some { d with ps := ps' }, showOutput ps')
    | _, _ => none
  | _ => none

end MetricsVerif.Driver.PromIdle
