import MetricsVerif.Driver.Util
import MetricsVerif.Model.StatsdFwd
import MetricsVerif.Generated.SourceFacts

/-!
Line protocol of the `sfwd` component (C09, the forwarder's client state machine).

    sfwd new <0|1>                       → ok                      (1 = unix stream socket, 0 = datagram socket)
    sfwd def <id> <payload>              → ok len=<n>              (names a payload; big payloads are sent many times)
    sfwd send <id> <c0|c1> <full|f<k>>   → ok <n> ready conns=<n> | err ready|disc conns=<n>
                                           (c1/c0: a connect attempt, if one is made, succeeds / fails;
                                            full: the socket accepts everything; f<k>: k bytes, then an error)
    sfwd wire                            → per socket ever made, oldest first:
                                           stream:   <bytes>/<fnv1a>/<complete frames>/<fnv1a of the frame bodies>/<rest bytes>
                                           datagram: <datagrams>/<fnv1a of their concatenation>  (all sockets together)
    sfwd cycle <len>:<c0|c1>:<full|f<k>>,…  → sent=<n> bytes_sent=<n> dropped=<n> dropped_writer=<n> bytes_dropped=<n>
                                           bytes_dropped_writer=<n> rx=<whole payloads received so far>/<their bytes> ready|disc
                                           (one flush cycle of `Forwarder::run` on the current client: the payload loop
                                            with cleared counters; payloads are given by their lengths)
    sfwd udp <v4|v6>,…                   → connect=ok|refused     (the UDP client of the CURRENT source — the bind call
                                           is read from Generated.dsd_udp_bind — towards addresses of these families)
-/
namespace MetricsVerif.Driver.StatsdFwd
open MetricsVerif.Driver MetricsVerif.Statsd MetricsVerif.StatsdFwd

structure St where
  fwd : Fwd
  defs : List (Nat × Bytes) := []

def fnv (bs : Bytes) : Nat :=
  bs.foldl (fun h b => ((h ^^^ b.toNat) * 16777619) % 4294967296) 2166136261

def showConn (stream : Bool) (c : Conn) : String :=
  if stream then
    let bs := rxStream c
    let (frames, rest) := deframe bs
    s!"{bs.length}/{fnv bs}/{frames.length}/{fnv frames.flatten}/{rest.length}"
  else
    let ds := rxDgram c
    s!"{ds.length}/{fnv ds.flatten}"

def handle (st : Option St) (args : List String) : Option (Option St × String) :=
  match args with
  | ["new", b] =>
    if b == "1" then some (some { fwd := init true }, "ok")
    else if b == "0" then some (some { fwd := init false }, "ok") else none
  | ["def", id, p] => do
    let st ← st
    let id ← id.toNat?
    let p ← unhexBytes p
    pure (some { st with defs := (id, p) :: st.defs }, s!"ok len={p.length}")
  | ["send", id, c, w] => do
    let st ← st
    let id ← id.toNat?
    let p ← st.defs.lookup id
    let c ← (if c == "c1" then some true else if c == "c0" then some false else none)
    let w ← (if w == "full" then some WriteRes.full
             else if w.startsWith "f" then (w.drop 1).toNat?.map WriteRes.fail else none)
    -- a stream `write_all` that fails has accepted fewer bytes than the payload has
    match w with
    | .fail k => if st.fwd.stream && !(k < p.length) then none else pure ()
    | .full => pure ()
    let (s', o) := trySend st.fwd p ⟨c, w⟩
    let state := if s'.ready.isSome then "ready" else "disc"
    -- the number of sockets made so far is observable (accepts) only for the stream transport
    let n := if s'.stream then s!" conns={(conns s').length}" else ""
    match o with
    | some k => pure (some { st with fwd := s' }, s!"ok {k} {state}{n}")
    | none => pure (some { st with fwd := s' }, s!"err {state}{n}")
  | ["cycle", items] => do
    let st ← st
    let parseItem (t : String) : Option (Bytes × Env) :=
      match t.splitOn ":" with
      | [len, c, w] => do
        let len ← len.toNat?
        let c ← (if c == "c1" then some true else if c == "c0" then some false else none)
        let w ← (if w == "full" then some WriteRes.full
                 else if w.startsWith "f" then (w.drop 1).toNat?.map WriteRes.fail else none)
        pure (List.replicate len 0, ⟨c, w⟩)
      | _ => none
    let ops ← (if items == "." then some [] else (items.splitOn ",").mapM parseItem)
    let (s', c) := cycle st.fwd SendCounts.zero ops
    let got := (conns s').flatMap rxDgram
    let state := if s'.ready.isSome then "ready" else "disc"
    pure (some { st with fwd := s' },
      s!"sent={c.packetsSent} bytes_sent={c.bytesSent} dropped={c.packetsDropped} dropped_writer={c.packetsDroppedWriter} bytes_dropped={c.bytesDropped} bytes_dropped_writer={c.bytesDroppedWriter} rx={got.length}/{got.flatten.length} {state}")
  | ["udp", fams] => do
    let fams ← (fams.splitOn ",").mapM (fun f => if f == "v4" then some Family.v4 else if f == "v6" then some Family.v6 else none)
    let b ← udpBindOfSource Generated.dsd_udp_bind
    pure (st, if udpConnects b fams then "connect=ok" else "connect=refused")
  | ["wire"] => do
    let st ← st
    if st.fwd.stream then pure (some st, showList (showConn true) (conns st.fwd))
    else
      -- one receiving datagram socket: the datagrams of all client sockets, in order
      let ds := (conns st.fwd).flatMap rxDgram
      pure (some st, s!"{ds.length}/{fnv ds.flatten}")
  | _ => none

end MetricsVerif.Driver.StatsdFwd
