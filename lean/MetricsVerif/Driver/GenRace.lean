import MetricsVerif.Driver.Util
import MetricsVerif.Model.GenRace

namespace MetricsVerif.Driver.GenRace
open MetricsVerif.Driver MetricsVerif.GenRace

def natList (s : String) : Option (List Nat) :=
  if s == "." then some [] else (s.splitOn ",").mapM String.toNat?

def schedTok (s : String) : Option (List Nat) :=
  if s == "-" then some [] else (s.splitOn ".").mapM String.toNat?

def showSeen (o : Obs) : String :=
  if o.seen.isEmpty then "." else ",".intercalate (o.seen.map (fun p => s!"{p.1}:{p.2}"))

/-- `genrace run <bumpFirst 0|1> <updates per updater> <observations per observer> <grants>`:
    every grant runs the thread from the yield point it is parked at to the next one -/
def handle (args : List String) : Option String :=
  match args with
  | ["run", bf, upds, obss, sched] => do
    let upds ← natList upds
    let obss ← natList obss
    let sched ← schedTok sched
    let (s, labels) := sched.foldl (fun (acc : Sys × List String) tid =>
        (grant acc.1 tid, acc.2 ++ [label acc.1 tid])) (init (bf == "1") upds obss, [])
    pure s!"{".".intercalate labels} | {" ".intercalate (s.obss.map showSeen)} | gen={s.gen} applied={s.applied} quiescent={quiescent s}"
  | ["prom", upds, renders, sched] => do
    -- the exporter's view: one observer doing `renders` observations after an initial observation of generation 0;
    -- shown values, and whether the render made one timeout after the race still shows the metric (= the last
    -- generation stamp differs from the final generation)
    let upds ← natList upds
    let renders ← renders.toNat?
    let sched ← schedTok sched
    let (s, labels) := sched.foldl (fun (acc : Sys × List String) tid =>
        (grant acc.1 tid, acc.2 ++ [label acc.1 tid])) (init false upds [renders], [])
    let seen := (s.obss.head?.map (·.seen)).getD []
    let vals := if seen.isEmpty then "." else ",".intercalate (seen.map (fun p => toString p.2))
    let lastg := (seen.getLast?.map (·.1)).getD 0
    pure s!"{".".intercalate labels} | {vals} | final={s.applied} kept={if lastg != s.gen then 1 else 0}"
  | _ => none

end MetricsVerif.Driver.GenRace
