/-
Line driver for the `DebuggingRecorder` model (component `debug`).

  debug new <n>                                   n recorders, ids 0..n-1
  debug <rid> <tid> describe <c|g|h> <name> <unit|~> <desc>
  debug <rid> <tid> register <c|g|h> <name> <labels>
  debug <rid> <tid> cinc|cabs <name> <labels> <u64>
  debug <rid> <tid> gset <name> <labels> <val>    val = d<int> (n/1024) | b<decimal bits>
  debug <rid> <tid> gadd <name> <labels> <int>
  debug <rid> <tid> hrec <name> <labels> <val>
  debug <rid> <tid> snapshot                      entries in order, `;`-separated (`empty` if none)
  debug <rid> <tid> snapshotmap                   the same snapshot, entries sorted (came out of a HashMap)

  debug sc <tid> enter <rid>                      `with_local_recorder(&rec, || {` / `set_default_local_recorder`
  debug sc <tid> exit <0|1>                       the scope ends by return (0) or by unwinding (1)
  debug sc <tid> install <rid>                    `rec.install()`: `ok` | `err` (a global recorder is already set)
  debug sc <tid> target                           what `with_recorder` finds: `r<rid>` | `noop`
  debug sc <tid> cur <describe…|register…|cinc…|…>  a call through `with_recorder` / a macro; answers the recorder
                                                  reached (`r<rid>` | `noop`)

  debug conc <shard count> <progs> <sched>        several threads on ONE recorder under a schedule (`Model/DebuggingConc`):
                                                  progs = per-thread programs, `,`-separated; a program = calls joined
                                                  by `+` (`-` = no call); a call = `r/<c|g|h>/<class>:<hash>` (register;
                                                  key as in `registry run`), `u/<handle index>/<ci|ca><u64>|<gs|ga|hr><int>`
                                                  (update through the thread's n-th handle; ints = numerators of n/1024),
                                                  `s` (snapshot); sched = thread ids joined by `.`.
                                                  → point labels | per-thread snapshots | snapshot at the end
                                                  snapshot = entries `<kind>/<class>/<c<n>|g<int>|h<ints joined by _>>`
                                                  joined by `;` (`empty` if none), a thread's snapshots joined by `+`

  debug hconc <B> <prefill> <recs> <snaps> <sched>  ONE histogram of a recorder, record() / record_many() racing snapshot()
                                                  at the granularity of the lock-free bucket (`Model/DebuggingHist`):
                                                  prefill = the values recorded before the scheduled threads start, recs =
                                                  per recording thread its values (`,` between threads, `.` = no thread);
                                                  values joined by `+`, `v*n` = `record_many(v, n)`, `-` = none;
                                                  snaps = per snapshotting thread its number of snapshots;
                                                  sched = grants joined by `.`: `<t>` = thread t granted at a bucket yield
                                                  point (one model step), `<t>n` = granted elsewhere (no model step).
                                                  → point labels | k1=<K1 steps> | k1vals=<values of the K1 claims> |
                                                    snaps=<per snapshotting thread its snapshots joined by `+`, values of
                                                    one snapshot in the order shown joined by `_`, `e` = empty, `.` = no
                                                    snapshot> | pending=<what a snapshot after the run shows>
                                                  recording thread t is model thread t, the prefill is model thread
                                                  `recs.length` (it runs alone first), snapshotting thread j is model
                                                  thread `recs.length + 1 + j`; harness ids in `sched` skip the prefill.

The global recorder has id `globalId` = 1000; it survives `debug new` (a process has one global recorder).
`tid` (the thread issuing the call) must be a number; the direct calls of the model do not depend on it.
Entry: `<c|g|h>/<name>/<labels as shown>/<unit|~>/<desc|~>/<value>`; histogram values in the order shown (newest block first, each block in record order).
-/
import MetricsVerif.Driver.Util
import MetricsVerif.Driver.C08
import MetricsVerif.Driver.Prom
import MetricsVerif.Model.Debugging
import MetricsVerif.Driver.Registry
import MetricsVerif.Model.DebuggingConc
import MetricsVerif.Model.DebuggingHist

namespace MetricsVerif.Driver.Debugging
open MetricsVerif.Driver MetricsVerif.Prom MetricsVerif.PromFmt MetricsVerif.Debugging MetricsVerif

/-- the recorders' states as data (a `Sys` is a closure; keeping closures would re-run the whole history on
    every look-up) -/
structure DSt where
  n : Nat
  states : List Debugging.St
  /-- the globally installed recorder's state (id `globalId`) -/
  glob : Debugging.St := init
  sc : Scopes := {}

def globalId : Nat := 1000

def DSt.sys (d : DSt) : Sys := fun r => if r = globalId then d.glob else d.states.getD r init

/-- the system's states evaluated -/
def DSt.ofSys (d : DSt) (sys : Sys) (sc : Scopes) : DSt :=
  { d with states := (List.range d.n).map sys, glob := sys globalId, sc := sc }

/-- one model step of the system, then its states evaluated -/
def DSt.next (d : DSt) (a : Nat × Debugging.Op) : DSt :=
  d.ofSys (sysStep d.sys a) d.sc

/-- one step of the scoped system -/
def DSt.snext (d : DSt) (a : Tid × SOp) : DSt :=
  let s := sStep ⟨d.sys, d.sc⟩ a
  d.ofSys s.sys s.sc

/-- what survives the end of a case: the global recorder (a process has one, installed once) and its state;
    no local recorders (`debug new` creates them), no open scopes -/
def carry : Option DSt → Option DSt
  | some d => some { n := 0, states := [], glob := d.glob, sc := { global := d.sc.global } }
  | none => none

def showTarget : Option Rid → String
  | some r => s!"r{r}"
  | none => "noop"

def kindTok (s : String) : Option Kind :=
  match s with
  | "c" => some .counter
  | "g" => some .gauge
  | "h" => some .histogram
  | _ => none

def showKind : Kind → String
  | .counter => "c" | .gauge => "g" | .histogram => "h"

def showVal : Val → String
  | .dy n => s!"d{n}"
  | .bits b => s!"b{b}"

def showLabels (ls : List (Str × Str)) : String :=
  showList (fun (kv : Str × Str) => s!"{hexChars kv.1}:{hexChars kv.2}") ls

def showValue : DValue → String
  | .counter n => s!"c{n}"
  | .gauge v => showVal v
  | .histogram vs => showList id (vs.map showVal)

def showEntry (e : Entry) : String :=
  let u := match e.unit with | some u => u.asStr | none => "~"
  let d := match e.desc with | some d => hexChars d | none => "~"
  s!"{showKind e.kind}/{hexChars e.shown.name}/{showLabels e.shown.labels}/{u}/{d}/{showValue e.value}"

def showEntries (es : List String) : String :=
  if es.isEmpty then "empty" else ";".intercalate es

def parseOp (args : List String) : Option Debugging.Op :=
  match args with
  | ["describe", k, n, u, d] => do
    pure (.describe (← kindTok k) (← unhexChars n) (← C08.unitTok u) (← unhexChars d))
  | ["register", k, n, l] => do pure (.register (← kindTok k) (← Prom.keyToks n l))
  | ["cinc", n, l, v] => do
    let v ← v.toNat?
    if v < two64 then pure (.cinc (← Prom.keyToks n l) v) else none
  | ["cabs", n, l, v] => do
    let v ← v.toNat?
    if v < two64 then pure (.cabs (← Prom.keyToks n l) v) else none
  | ["gset", n, l, v] => do pure (.gset (← Prom.keyToks n l) (← Prom.valTok v))
  | ["gadd", n, l, v] => do pure (.gadd (← Prom.keyToks n l) (← Prom.intTok? v))
  | ["hrec", n, l, v] => do pure (.hrec (← Prom.keyToks n l) (← Prom.valTok v))
  | _ => none

/-! ### `debug conc`: the concurrent machine -/

namespace Conc
open MetricsVerif.DebuggingConc

abbrev DKey := Registry.DKey

def intTok (s : String) : Option Int :=
  if s.startsWith "-" then (s.drop 1).toString.toNat?.map (fun n => -(Int.ofNat n)) else s.toNat?.map Int.ofNat

def updTok (s : String) : Option Upd :=
  let tag := (s.take 2).toString
  let rest := (s.drop 2).toString
  match tag with
  | "ci" => do let n ← rest.toNat?; if n < DebuggingConc.two64 then pure (.cinc n) else none
  | "ca" => do let n ← rest.toNat?; if n < DebuggingConc.two64 then pure (.cabs n) else none
  | "gs" => (intTok rest).map .gset
  | "ga" => (intTok rest).map .gadd
  | "hr" => (intTok rest).map .hrec
  | _ => none

def callTok (s : String) : Option (CCall DKey) :=
  match s.splitOn "/" with
  | ["r", kd, k] => do pure (.register (← Registry.kindTok kd) (← Registry.keyTok k))
  | ["u", h, u] => do pure (.update (← h.toNat?) (← updTok u))
  | ["s"] => some .snapshot
  | _ => none

/-- an update must go through a handle the thread has obtained by then -/
def progOk : Nat → List (CCall DKey) → Bool
  | _, [] => true
  | n, .register _ _ :: rest => progOk (n + 1) rest
  | n, .update h _ :: rest => decide (h < n) && progOk n rest
  | n, .snapshot :: rest => progOk n rest

def progTok (s : String) : Option (List (CCall DKey)) := do
  let p ← if s == "-" then some [] else (s.splitOn "+").mapM callTok
  if progOk 0 p then some p else none

def showKind : Registry.Kind → String
  | .counter => "c" | .gauge => "g" | .histogram => "h"

def showCell : Cell → String
  | .counter n => s!"c{n}"
  | .gauge v => s!"g{v}"
  | .hist vs => "h" ++ "_".intercalate (vs.map toString)

def showSnap (es : List (SnapEntry DKey)) : String :=
  if es.isEmpty then "empty" else ";".intercalate (es.map (fun e => s!"{showKind e.1}/{e.2.1.cls}/{showCell e.2.2}"))

def runTok (count progs sched : String) : Option String := do
  let c ← count.toNat?
  if c = 0 then none else
  let progs ← listTok progTok progs
  let sched ← Registry.schedTok sched
  let (s, labels) := sched.foldl (fun (acc : CSys DKey × List String) tid =>
      let lbl := match acc.1.threads[tid]? with | some t => t.pc.label | none => "nothread"
      (DebuggingConc.step Registry.dko acc.1 tid, acc.2 ++ [lbl])) (CSys.init c progs, [])
  let per := showList (fun (t : CThread DKey) =>
      if t.snaps.isEmpty then "." else "+".intercalate (t.snaps.map showSnap)) s.threads
  let pcs := showList (fun (t : CThread DKey) => t.pc.label) s.threads
  pure s!"{".".intercalate labels} | {per} | {showSnap (DebuggingConc.snapshot Registry.dko s).2} | {pcs}"

end Conc

/-! ### `debug hconc`: one histogram on the bucket step machine -/

namespace Hist
open MetricsVerif.Bucket MetricsVerif.DebuggingHist

/-- `v` or `v*n` (`record_many(v, n)`) -/
def valTok (s : String) : Option (List Nat) :=
  match s.splitOn "*" with
  | [v] => v.toNat?.map (fun v => [v])
  | [v, n] => do pure (recordMany (← v.toNat?) (← n.toNat?))
  | _ => none

def valsTok (s : String) : Option (List Nat) :=
  if s == "-" then some [] else ((s.splitOn "+").mapM valTok).map List.flatten

inductive Tok
  | step (t : Nat)
  | noop (t : Nat)

def tokOf (s : String) : Option Tok :=
  match s.toList.reverse with
  | 'n' :: r => (String.ofList r.reverse).toNat?.map Tok.noop
  | _ => s.toNat?.map Tok.step

def schedTok (s : String) : Option (List Tok) :=
  if s == "-" then some [] else (s.splitOn ".").mapM tokOf

structure Replay where
  s : Bucket.Sys
  fine : List Nat := []
  labels : List String := []

def replayTok (nrec : Nat) (r : Replay) : Tok → Replay
  | .step t =>
    let m := if t < nrec then t else t + 1
    let lbl := match r.s.threads[m]? with | some th => th.pc.label | none => "nothread"
    { r with s := Bucket.step r.s m, fine := r.fine ++ [m], labels := r.labels ++ [lbl] }
  | .noop _ => r

def showVals (vs : List Nat) : String := if vs.isEmpty then "e" else "_".intercalate (vs.map toString)

def showThreadSnaps (t : Bucket.Thread) : String :=
  let sn := snapsOfThread t
  if sn.isEmpty then "." else "+".intercalate (sn.map showVals)

def runTok (b prefill recs snaps sched : String) : Option String := do
  let b ← b.toNat?
  if b = 0 then none else
  let pre ← valsTok prefill
  let recs ← listTok valsTok recs
  let snaps ← listTok String.toNat? snaps
  let toks ← schedTok sched
  let progs := progsOf (recs ++ [pre]) snaps
  let preSched := prefillSched recs.length pre.length
  let s0 := Bucket.run (Bucket.init b progs) preSched
  let r := toks.foldl (replayTok recs.length) { s := s0 }
  let all := preSched ++ r.fine
  let k1 := k1Fold (Bucket.init b progs) own0 0 all
  let kv := k1ValsAcc (Bucket.init b progs) own0 [] all
  let per := showList showThreadSnaps (r.s.threads.drop (recs.length + 1))
  pure s!"{".".intercalate r.labels} | k1={k1} | k1vals={showVals kv} | snaps={per} | pending={showVals (pending r.s)}"

end Hist

def handle (st : Option DSt) (args : List String) : Option (Option DSt × String) :=
  match args with
  | ["conc", count, progs, sched] => do pure (st, ← Conc.runTok count progs sched)
  | ["hconc", b, prefill, recs, snaps, sched] => do pure (st, ← Hist.runTok b prefill recs snaps sched)
  | ["new", n] => do
    let n ← n.toNat?
    if n = 0 ∨ n > globalId then none else
    -- the global recorder and its state survive; every thread is outside any scope again
    let (glob, global) := match st with
      | some d => (d.glob, d.sc.global)
      | none => (init, none)
    pure (some { n := n, states := (List.range n).map sysInit, glob := glob, sc := { global := global } }, "ok")
  | "sc" :: tid :: rest => do
    let d ← st
    let tid ← tid.toNat?
    match rest with
    | ["enter", r] =>
      let r ← r.toNat?
      if r ≥ d.n then none else pure (some (d.snext (tid, .enter r)), "ok")
    | ["exit", "0"] => pure (some (d.snext (tid, .exit false)), "ok")
    | ["exit", "1"] => pure (some (d.snext (tid, .exit true)), "ok")
    | ["install", r] =>
      let r ← r.toNat?
      if r ≥ d.n ∧ r ≠ globalId then none else
      pure (some (d.snext (tid, .install r)), if d.sc.global.isNone then "ok" else "err")
    | ["target"] => pure (some d, showTarget (target d.sc tid))
    | "cur" :: opArgs =>
      let op ← parseOp opArgs
      pure (some (d.snext (tid, .cur op)), showTarget (target d.sc tid))
    | _ => none
  | rid :: tid :: rest => do
    let d ← st
    let rid ← rid.toNat?
    let _ ← tid.toNat?
    if rid ≥ d.n ∧ rid ≠ globalId then none else
    match rest with
    | ["snapshot"] =>
      let es := sysOutput d.sys (rid, .snapshot)
      pure (some (d.next (rid, .snapshot)), showEntries (es.map showEntry))
    | ["snapshotmap"] =>
      let es := sysOutput d.sys (rid, .snapshot)
      pure (some (d.next (rid, .snapshot)),
            showEntries ((es.map showEntry).mergeSort (fun a b => decide (a ≤ b))))
    | _ => do
      let op ← parseOp rest
      pure (some (d.next (rid, op)), "ok")
  | _ => none

end MetricsVerif.Driver.Debugging
