/-
Line driver for the `DebuggingRecorder` model (component `debug`).

  debug new <n>                                   n recorders, ids 0..n-1
  debug <rid> <tid> describe <c|g|h> <name> <unit|~> <desc>
  debug <rid> <tid> register <c|g|h> <name> <labels>
  debug <rid> <tid> cinc|cabs <name> <labels> <u64>
  debug <rid> <tid> gset <name> <labels> <val>    val = d<int> (n/1024) | b<decimal bits>
  debug <rid> <tid> gadd <name> <labels> <int>
  debug <rid> <tid> hrec <name> <labels> <val>
  debug <rid> <tid> snapshot                      entries in order, `;`-separated (`empty` if none)
  debug <rid> <tid> snapshotmap                   the same snapshot, entries sorted (came out of a HashMap)

`tid` (the thread issuing the call) must be a number; the model does not depend on it.
Entry: `<c|g|h>/<name>/<labels as shown>/<unit|~>/<desc|~>/<value>`; histogram values sorted as tokens.
-/
import MetricsVerif.Driver.Util
import MetricsVerif.Driver.C08
import MetricsVerif.Driver.Prom
import MetricsVerif.Model.Debugging

namespace MetricsVerif.Driver.Debugging
open MetricsVerif.Driver MetricsVerif.Prom MetricsVerif.PromFmt MetricsVerif.Debugging MetricsVerif

/-- the recorders' states as data (a `Sys` is a closure; keeping closures would re-run the whole history on
    every look-up) -/
structure DSt where
  n : Nat
  states : List Debugging.St

def DSt.sys (d : DSt) : Sys := fun r => d.states.getD r init

/-- one model step of the system, then its states evaluated -/
def DSt.next (d : DSt) (a : Nat × Debugging.Op) : DSt :=
  { d with states := (List.range d.n).map (sysStep d.sys a) }

def kindTok (s : String) : Option Kind :=
  match s with
  | "c" => some .counter
  | "g" => some .gauge
  | "h" => some .histogram
  | _ => none

def showKind : Kind → String
  | .counter => "c" | .gauge => "g" | .histogram => "h"

def showVal : Val → String
  | .dy n => s!"d{n}"
  | .bits b => s!"b{b}"

def showLabels (ls : List (Str × Str)) : String :=
  showList (fun (kv : Str × Str) => s!"{hexChars kv.1}:{hexChars kv.2}") ls

def showValue : DValue → String
  | .counter n => s!"c{n}"
  | .gauge v => showVal v
  | .histogram vs => showList id ((vs.map showVal).mergeSort (fun a b => decide (a ≤ b)))

def showEntry (e : Entry) : String :=
  let u := match e.unit with | some u => u.asStr | none => "~"
  let d := match e.desc with | some d => hexChars d | none => "~"
  s!"{showKind e.kind}/{hexChars e.shown.name}/{showLabels e.shown.labels}/{u}/{d}/{showValue e.value}"

def showEntries (es : List String) : String :=
  if es.isEmpty then "empty" else ";".intercalate es

def parseOp (args : List String) : Option Debugging.Op :=
  match args with
  | ["describe", k, n, u, d] => do
    pure (.describe (← kindTok k) (← unhexChars n) (← C08.unitTok u) (← unhexChars d))
  | ["register", k, n, l] => do pure (.register (← kindTok k) (← Prom.keyToks n l))
  | ["cinc", n, l, v] => do
    let v ← v.toNat?
    if v < two64 then pure (.cinc (← Prom.keyToks n l) v) else none
  | ["cabs", n, l, v] => do
    let v ← v.toNat?
    if v < two64 then pure (.cabs (← Prom.keyToks n l) v) else none
  | ["gset", n, l, v] => do pure (.gset (← Prom.keyToks n l) (← Prom.valTok v))
  | ["gadd", n, l, v] => do pure (.gadd (← Prom.keyToks n l) (← Prom.intTok? v))
  | ["hrec", n, l, v] => do pure (.hrec (← Prom.keyToks n l) (← Prom.valTok v))
  | _ => none

def handle (st : Option DSt) (args : List String) : Option (Option DSt × String) :=
  match args with
  | ["new", n] => do
    let n ← n.toNat?
    if n = 0 then none else pure (some ⟨n, (List.range n).map sysInit⟩, "ok")
  | rid :: tid :: rest => do
    let d ← st
    let rid ← rid.toNat?
    let _ ← tid.toNat?
    if rid ≥ d.n then none else
    match rest with
    | ["snapshot"] =>
      let es := sysOutput d.sys (rid, .snapshot)
      pure (some (d.next (rid, .snapshot)), showEntries (es.map showEntry))
    | ["snapshotmap"] =>
      let es := sysOutput d.sys (rid, .snapshot)
      pure (some (d.next (rid, .snapshot)),
            showEntries ((es.map showEntry).mergeSort (fun a b => decide (a ≤ b))))
    | _ => do
      let op ← parseOp rest
      pure (some (d.next (rid, op)), "ok")
  | _ => none

end MetricsVerif.Driver.Debugging
