import MetricsVerif.Driver.Util
import MetricsVerif.Model.PromConc

/-
Driver of `Model/PromConc.lean` (C07, concurrent stream): replays ONE scheduled run of the real exporter (one histogram
key; recording threads, draining threads, samples recorded before the threads started) on the bucket step machine.

  promconc run <B> <prefill> <recs> <drains> <sched>
    prefill  number of samples of value 1 recorded sequentially before the scheduled threads start
    recs     per recording thread its samples joined by `+` (`-` = none), threads comma separated (`.` = no thread)
    drains   per draining thread its number of drain passes, comma separated
    sched    the grants of the run joined by `.`: `<t>` = thread t was granted at a bucket yield point (one model grant),
             `<t>n` = granted at a point outside the bucket (no model step), `<t>m` = granted at the marker the harness
             places right after a `render()` returned (the render read the distributions in thread t's previous grant)
  answer: `<labels> | k1=<K1 steps> | renders=<count:sum,…> | final=<count:sum>` — `final` = distribution + pending = what a
          `render()` taken after the run shows (it drains the pending samples first)
  promconc stream complete   (answer `complete`; the harness answers otherwise when scheduled runs did not complete)

Harness thread t is model thread t for recorders and t+1 for drainers: the prefill is one more recording thread (index
`recs.length`) that runs alone first, so the programs are `progsOf (recs ++ [prefill]) drains` and the theorems of
`Props/C07Conc.lean` apply as they stand.
-/
namespace MetricsVerif.Driver.PromConc
open MetricsVerif.Driver MetricsVerif.Bucket MetricsVerif.PromConc

def valsTok (s : String) : Option (List Nat) :=
  if s == "-" then some [] else (s.splitOn "+").mapM String.toNat?

inductive Tok
  | step (t : Nat)
  | noop (t : Nat)
  | mark (t : Nat)

def tokOf (s : String) : Option Tok :=
  match s.toList.reverse with
  | 'n' :: r => (String.ofList r.reverse).toNat?.map Tok.noop
  | 'm' :: r => (String.ofList r.reverse).toNat?.map Tok.mark
  | _ => s.toNat?.map Tok.step

def schedTok (s : String) : Option (List Tok) :=
  if s == "-" then some [] else (s.splitOn ".").mapM tokOf

def showDist (d : Dist) : String := s!"{d.count}:{d.sum}"

structure Replay where
  s : Sys
  fine : List Nat := []            -- the single steps taken so far (for the K1 count)
  labels : List String := []
  saved : List (Nat × Dist) := []  -- per harness thread: the distribution right after its latest grant
  renders : List Dist := []

def savedOf (r : Replay) (t : Nat) : Dist :=
  match r.saved.find? (fun p => p.1 == t) with
  | some p => p.2
  | none => Dist.zero

def save (r : Replay) (t : Nat) : Replay :=
  { r with saved := (t, distOf r.s) :: r.saved.filter (fun p => p.1 != t) }

def replayTok (nrec : Nat) (r : Replay) : Tok → Replay
  | .step t =>
    let m := if t < nrec then t else t + 1
    let lbl := match r.s.threads[m]? with | some th => th.pc.label | none => "nothread"
    let r1 := { r with s := grant r.s m, fine := r.fine ++ [m], labels := r.labels ++ [lbl] }
    save r1 t
  | .noop t => save r t
  | .mark t => { r with renders := r.renders ++ [savedOf r t] }

def handle (args : List String) : Option String :=
  match args with
  | ["run", b, prefill, recs, drains, sched] => do
    let b ← b.toNat?
    let p ← prefill.toNat?
    let recs ← listTok valsTok recs
    let drains ← listTok String.toNat? drains
    let toks ← schedTok sched
    let progs := progsOf (recs ++ [List.replicate p 1]) drains
    let pre := prefillSched recs.length p
    let s0 := run (init b progs) pre
    let r := toks.foldl (replayTok recs.length) { s := s0 }
    let k1 := k1Fold (init b progs) own0 0 (pre ++ r.fine)
    pure s!"{".".intercalate r.labels} | k1={k1} | renders={showList showDist r.renders} | final={showDist ((distOf r.s).record (visible r.s))}"
  | ["stream", "complete"] => some "complete"
  | _ => none

end MetricsVerif.Driver.PromConc
