import MetricsVerif.Driver.Util
import MetricsVerif.Model.Tcp

/-
Driver for component `tcp` (C11): the hook's event trace of a real exporter session, replayed on the model.
  tcp init <n|~> [<cap><dec><block> as 0/1]   → ok | error capacity-overflow
  tcp wake <metas> <frames> <results>          → cc=<n> ss=<0|1> {<tok>=<phase>[;x<dropped>;e<enqueued>;<phase>]}
       metas   = `.` | key/frameid/hex,…        frames = `.` | frameid/hex,…
       results = `.` | tok/<r.r.r|->,…          r = o<n> | w | i | e
       phase   = <done 0|1>/<wbuf len|~>/<msgs len>/<attempt lens a.b.c|->
  tcp accept <`.` | key,key,…>                 → cc=… ss=… tok=<t> enq=<n> bytes=<b> permok=<0|1>
  tcp writable <tok> <r.r.r|->                 → cc=… ss=… <tok>=<phase>
  tcp received <tok>                           → hex of the bytes the socket accepted
`bad-op` when the results do not fit the calls the model makes (too few, too many, unknown or dead token) or
more frames are given than the buffer limit lets the read loop take.
-/
namespace MetricsVerif.Driver.Tcp
open MetricsVerif.Driver MetricsVerif.Tcp

def splitSlash (s : String) : List String := s.splitOn "/"

def resTok (s : String) : Option WriteResult :=
  if s == "w" then some .wouldBlock
  else if s == "i" then some .interrupted
  else if s == "e" then some .err
  else if s.startsWith "o" then (s.drop 1).toNat?.map .ok
  else none

def resListTok (s : String) : Option (List WriteResult) :=
  if s == "-" then some [] else (s.splitOn ".").mapM resTok

def frameTok (s : String) : Option Frame :=
  match splitSlash s with
  | [i, h] => do pure ⟨← i.toNat?, ← unhexBytes h⟩
  | _ => none

def metaTok (s : String) : Option (Nat × Frame) :=
  match splitSlash s with
  | [k, i, h] => do pure (← k.toNat?, ⟨← i.toNat?, ← unhexBytes h⟩)
  | _ => none

def tokResTok (s : String) : Option (Nat × List WriteResult) :=
  match splitSlash s with
  | [t, r] => do pure (← t.toNat?, ← resListTok r)
  | _ => none

def showPhase (p : Phase) : String :=
  let w := match p.wbuf with | none => "~" | some n => toString n
  let a := if p.attempts.isEmpty then "-" else ".".intercalate (p.attempts.map toString)
  s!"{if p.done then 1 else 0}/{w}/{p.msgs}/{a}"

def showGate (s : State) : String := s!"cc={s.clientCount} ss={if s.shouldSend then 1 else 0}"

def showLog (t : Nat) (l : ClientLog) : String :=
  match l.second with
  | none => s!"{t}={showPhase l.p1}"
  | some (x, e, p2) => s!"{t}={showPhase l.p1};x{x};e{e};{showPhase p2}"

/-- every write result was used by exactly one `write` call -/
def logOk (l : ClientLog) : Bool :=
  l.leftover == 0 && !l.p1.starved && (match l.second with | none => true | some (_, _, p2) => !p2.starved)

def logsOf (xs : List (Nat × ClientStep)) : List (Nat × ClientLog) :=
  xs.filterMap (fun p => p.2.log.map (fun l => (p.1, l)))

def handle (st : Option State) (args : List String) : Option (Option State × String) :=
  match args with
  | ["init", b] => do
    let b ← optTok (fun t => t.toNat?) b
    match initTransport {} b with
    | some s => pure (some s, "ok")
    | none => pure (none, "error capacity-overflow")
  | ["init", b, fx] => do
    let b ← optTok (fun t => t.toNat?) b
    let fx ← match fx.toList with
      | [c, d, k] => if [c, d, k].all (fun x => x == '0' || x == '1') then some (⟨c == '1', d == '1', k == '1'⟩ : Fixes) else none
      | _ => none
    match initTransport fx b with
    | some s => pure (some s, "ok")
    | none => pure (none, "error capacity-overflow")
  | ["wake", ms, fs, rs] => do
    let s ← st
    let ms ← listTok metaTok ms
    let fs ← listTok frameTok fs
    let rs ← listTok tokResTok rs
    if fs.length > s.limit then none else
    let (s', xs) := wakeFull s ms fs rs
    let logs := logsOf xs
    -- results only for clients that were driven, and all of them used
    if !(rs.all (fun p => logs.any (fun q => q.1 == p.1))) then none else
    if !(logs.all (fun q => logOk q.2)) then none else
    let body := logs.map (fun q => " " ++ showLog q.1 q.2)
    pure (some s', showGate s' ++ String.join body)
  | ["accept", perm] => do
    let s ← st
    let perm ← listTok (fun t => t.toNat?) perm
    let s' := accept s perm
    let cl := (lookupKey s.nextToken s'.clients).getD {}
    let bytes := (cl.msgs.map (fun f => f.bytes.length)).foldl (· + ·) 0
    pure (some s', s!"{showGate s'} tok={s.nextToken} enq={cl.msgs.length} bytes={bytes} permok={if permOk s perm then 1 else 0}")
  | ["writable", c, rs] => do
    let s ← st
    let c ← c.toNat?
    let rs ← resListTok rs
    let (s', xs) := writableFull s c rs
    match logsOf xs with
    | [(t, l)] => if logOk l then pure (some s', s!"{showGate s'} {showLog t l}") else none
    | _ => if rs.isEmpty then pure (some s', s!"{showGate s'} {c}=dead") else none
  | ["received", c] => do
    let s ← st
    let c ← c.toNat?
    let cl ← lookupKey c s.clients
    pure (some s, hexBytes cl.received)
  | _ => none

end MetricsVerif.Driver.Tcp
