import MetricsVerif.Driver.Util
import MetricsVerif.Model.Atomics
import MetricsVerif.Model.AtomicsCas

/-
Line protocol of component `atomics` (C04).

  atomics trace <c0> <progs> <sched>   cell after every scheduled step:   t=<hex>.<hex>… w=<0|1> n=<log length>
  atomics run   <c0> <progs> <sched>   final state only:                  cell=<hex> w=<0|1> n=<log length> done=<0|1>
  atomics cls   <c0> <progs> <sched>   class of the gauge value after every step: t=<nan|+inf|-inf|fin|unk>.…
  atomics hist  <depth> <calls>        delivered log, run-length encoded:  <hex>x<n>,…   (`.` = nothing delivered)
  atomics conv  <arg>                  `into_f64` of one argument:         <hex>
  atomics dconv <arg>                  `__into_f64` of one argument:       <hex>
  atomics itrace <c0> <progs> <sched>  like `trace`, on the bit-level IEEE carrier (`ieeeCarrier`: every f64 operand,
                                       rounding included); a NaN cell prints as `nan`:  t=<hex|nan>.… n=<log length>
  atomics ctrace <c0> <progs> <sched>  the CAS-loop machine (`casStep`, `casShape`: gauge increment/decrement = load + CAS per closure
                                       evaluation; counters and set single instructions) on the IEEE carrier, no spurious CAS
                                       failures; per scheduled step `c<hex|nan>` (an update took effect: the cell after it), `l`
                                       (load / failed CAS: the thread is at the closure's yield point), `n` (no-op handle call
                                       returned), `-` (nothing):   t=<tok>.… n=<log length> cell=<hex|nan> done=<0|1>
  atomics ctraceu …                    the same for counter programs: the cell is a u64, always printed as hex
  atomics upd <input> <a|i|d> <arg>    `GaugeValue::{Absolute,Increment,Decrement}(arg).update_value(input)` on the
                                       IEEE carrier (<input> = f64 bits, hex):             <hex|nan>

  <c0>     initial cell, hex
  <progs>  thread programs separated by `,` (`.` = no threads); a program = calls joined by `+` (`-` = empty)
  call     `L`/`N` (live handle / no-op handle) then  i<dec> | a<dec> | gi=<arg> | gd=<arg> | gs=<arg>
  <sched>  thread ids joined by `.` (`-` = empty)
  hist call `L`/`N` then  r=<arg>  |  m=<arg>*<count>
  <arg>    f64:<hex bits> | f32:<hex bits> | i8:<int> | u8:… | i16 | u16 | i32 | u32 | dur:<secs>:<nanos>
  <depth>  number of `Arc` wrappers around the logging `HistogramFn` (0 = `from_arc(Arc<Log>)`)

All updates are single RMW steps (`allRmw`; the source's shape is pinned by `C04.src_rmw_shape`).
-/
namespace MetricsVerif.Driver.Atomics
open MetricsVerif.Driver MetricsVerif.Atomics

def hex16 (n : Nat) : String :=
  if two64 ≤ n then "unk" else
  let ds := Nat.toDigits 16 n
  String.ofList (List.replicate (16 - ds.length) '0' ++ ds)

def tyTok : String → Option SrcTy
  | "i8" => some .i8 | "u8" => some .u8 | "i16" => some .i16 | "u16" => some .u16
  | "i32" => some .i32 | "u32" => some .u32
  | _ => none

def argTok (s : String) : Option Arg :=
  match s.splitOn ":" with
  | ["f64", h] => (unhexNat h).map Arg.f64
  | ["f32", h] => (unhexNat h).map Arg.f32
  | ["dur", a, b] => do pure (Arg.dur (← a.toNat?) (← b.toNat?))
  | [t, v] => do pure (Arg.int (← tyTok t) (← v.toInt?))
  | _ => none

/-- the f64 an argument converts to, as a model value -/
def argVal (s : String) : Option Val := do
  let a ← argTok s
  let b ← intoF64Bits a
  pure (decodeF64 b)

def handleTok : Char → Option (Handle Unit)
  | 'L' => some (some ())
  | 'N' => some none
  | _ => none

def opTok (cs : List Char) : Option (Op Val) :=
  match cs with
  | 'g' :: 'i' :: '=' :: r => (argVal (String.ofList r)).map Op.gInc
  | 'g' :: 'd' :: '=' :: r => (argVal (String.ofList r)).map Op.gDec
  | 'g' :: 's' :: '=' :: r => (argVal (String.ofList r)).map Op.gSet
  | 'i' :: r => (String.ofList r).toNat?.bind (fun n => if n < two64 then some (Op.inc n) else none)
  | 'a' :: r => (String.ofList r).toNat?.bind (fun n => if n < two64 then some (Op.abs n) else none)
  | _ => none

def callTok (s : String) : Option (Call Val) :=
  match s.toList with
  | h :: r => do pure { h := (← handleTok h), op := (← opTok r) }
  | [] => none

def progTok (s : String) : Option (List (Call Val)) :=
  if s == "-" then some [] else (s.splitOn "+").mapM callTok

def schedTok (s : String) : Option (List Nat) :=
  if s == "-" then some [] else (s.splitOn ".").mapM String.toNat?

def b01 (b : Bool) : String := if b then "1" else "0"

inductive HCall
  | one (h : Bool) (v : Nat)
  | many (h : Bool) (v : Nat) (n : Nat)

def hcallTok (s : String) : Option HCall :=
  match s.toList with
  | h :: 'r' :: '=' :: r => do
    let live ← (handleTok h).map Option.isSome
    let b ← (argTok (String.ofList r)).bind intoF64Bits
    pure (.one live b)
  | h :: 'm' :: '=' :: r => do
    let live ← (handleTok h).map Option.isSome
    match (String.ofList r).splitOn "*" with
    | [a, n] => do
      let b ← (argTok a).bind intoF64Bits
      pure (.many live b (← n.toNat?))
    | _ => none
  | _ => none

/-- run-length encoding of a delivered log -/
def rle : List Nat → List (Nat × Nat)
  | [] => []
  | x :: xs =>
    match rle xs with
    | (y, n) :: rest => if x = y then (y, n + 1) :: rest else (x, 1) :: (y, n) :: rest
    | [] => [(x, 1)]

def opTokI (cs : List Char) : Option (Op Nat) :=
  match cs with
  | 'g' :: 'i' :: '=' :: r => ((argTok (String.ofList r)).bind intoF64Bits).map Op.gInc
  | 'g' :: 'd' :: '=' :: r => ((argTok (String.ofList r)).bind intoF64Bits).map Op.gDec
  | 'g' :: 's' :: '=' :: r => ((argTok (String.ofList r)).bind intoF64Bits).map Op.gSet
  | 'i' :: r => (String.ofList r).toNat?.bind (fun n => if n < two64 then some (Op.inc n) else none)
  | 'a' :: r => (String.ofList r).toNat?.bind (fun n => if n < two64 then some (Op.abs n) else none)
  | _ => none

def callTokI (s : String) : Option (Call Nat) :=
  match s.toList with
  | h :: r => do pure { h := (← handleTok h), op := (← opTokI r) }
  | [] => none

def progTokI (s : String) : Option (List (Call Nat)) :=
  if s == "-" then some [] else (s.splitOn "+").mapM callTokI

/-- a gauge cell on the IEEE carrier: NaNs by class only -/
def cellTokI (b : Nat) : String := if f64IsNaN b then "nan" else hex16 b

/-- `atomics ctrace` / `ctraceu`: the CAS-loop machine on the IEEE carrier, one token per scheduled step -/
def ctrace (raw : Bool) (c0 progs sched : String) : Option String := do
    let cellTok : Nat → String := if raw then hex16 else cellTokI
    let c0 ← unhexNat c0
    if two64 ≤ c0 then none
    let progs ← listTok progTokI progs
    let sched ← schedTok sched
    let (s, tr) := sched.foldl (fun (acc : Sys Nat × List String) tid =>
        let s' := casStep ieeeCarrier casShape acc.1 (tid, false)
        let k := stepKind acc.1 s' tid
        (s', (if k == "c" then "c" ++ cellTok s'.cell else k) :: acc.2)) (init c0 progs, [])
    let t := if tr.isEmpty then "-" else ".".intercalate tr.reverse
    let done := s.threads.all (fun t => t.prog.isEmpty)
    pure s!"t={t} n={s.log.length} cell={cellTok s.cell} done={b01 done}"

def handle (args : List String) : Option String :=
  match args with
  | ["itrace", c0, progs, sched] => do
    let c0 ← unhexNat c0
    if two64 ≤ c0 then none
    let progs ← listTok progTokI progs
    let sched ← schedTok sched
    let (s, tr) := sched.foldl (fun (acc : Sys Nat × List String) tid =>
        let s' := step ieeeCarrier allRmw acc.1 tid
        (s', cellTokI s'.cell :: acc.2)) (init c0 progs, [])
    let t := if tr.isEmpty then "-" else ".".intercalate tr.reverse
    pure s!"t={t} n={s.log.length}"
  | ["ctrace", c0, progs, sched] => ctrace false c0 progs sched
  | ["ctraceu", c0, progs, sched] => ctrace true c0 progs sched
  | ["upd", inp, k, a] => do
    let inp ← unhexNat inp
    if two64 ≤ inp then none
    let v ← (argTok a).bind intoF64Bits
    let gv : GaugeValue Nat ← match k with
      | "a" => some (.absolute v) | "i" => some (.increment v) | "d" => some (.decrement v) | _ => none
    pure (cellTokI (gv.updateValue ieeeCarrier inp))
  | [mode, c0, progs, sched] => do
    let c0 ← unhexNat c0
    if two64 ≤ c0 then none
    let progs ← listTok progTok progs
    let sched ← schedTok sched
    let s0 : Sys Val := init c0 progs
    match mode with
    | "run" =>
      let s := run dyCarrier allRmw s0 sched
      let done := s.threads.all (fun t => t.prog.isEmpty)
      pure s!"cell={hex16 s.cell} w={b01 s.wrapped} n={s.log.length} done={b01 done}"
    | "trace" =>
      let (s, tr) := sched.foldl (fun (acc : Sys Val × List String) tid =>
          let s' := step dyCarrier allRmw acc.1 tid
          (s', hex16 s'.cell :: acc.2)) (s0, [])
      let t := if tr.isEmpty then "-" else ".".intercalate tr.reverse
      pure s!"t={t} w={b01 s.wrapped} n={s.log.length}"
    | "cls" =>
      let (_, tr) := sched.foldl (fun (acc : Sys Val × List String) tid =>
          let s' := step dyCarrier allRmw acc.1 tid
          (s', (decodeF64 s'.cell).cls :: acc.2)) (s0, [])
      let t := if tr.isEmpty then "-" else ".".intercalate tr.reverse
      pure s!"t={t}"
    | _ => none
  | ["hist", depth, calls] => do
    let depth ← depth.toNat?
    let calls ← if calls == "-" then some [] else (calls.splitOn "+").mapM hcallTok
    let live : Handle (HistFn (List Nat) Nat) := Handle.fromArc (HistFn.arcN logFn depth)
    let log := calls.foldl (fun (log : List Nat) c =>
        match c with
        | .one h v => histRecord (if h then live else Handle.noop) log v
        | .many h v n => histRecordMany (if h then live else Handle.noop) log v n) []
    pure (showList (fun (p : Nat × Nat) => s!"{hex16 p.1}x{p.2}") (rle log))
  | ["dconv", a] => do
    let a ← argTok a
    match dunderIntoF64Bits a with
    | some b => pure (hex16 b)
    | none =>
      match a with
      | .dur s n => if n < 1000000000 ∧ s < two64 then pure "inexact" else none
      | _ => none
  | ["conv", a] => do
    let a ← argTok a
    match intoF64Bits a with
    | some b => pure (hex16 b)
    | none =>
      match a with
      | .dur s n => if n < 1000000000 ∧ s < two64 then pure "inexact" else none
      | _ => none
  | _ => none

end MetricsVerif.Driver.Atomics
