import MetricsVerif.Driver.Util
import MetricsVerif.Model.TcpProd

/-
Driver for component `tcpq` (C11, producer / transport interleavings): one real exporter, emitting threads
parked at their yield points and the transport thread parked at its trace records are stepped by a schedule;
the same schedule is replayed on `Model/TcpProd.lean`.
  tcpq init <cap|~> <gate 0|1> <wake pending 0|1> <progs>      progs = ids of emitter 0,ids of emitter 1,…  ids = a/b/c
                                                               → ok
  tcpq step e<i>            → e<i> <pc before>><pc after> q=<channel length> wp=<0|1>
  tcpq step t               → t blocked|woken|recv|fanout:<ids a/b/c or ->:sw<0|1>  q=… wp=…
  tcpq end                  → q=… wp=… tpc=<idle|loop> delivered=<ids|-> quiescent=<0|1>
pc names are the yield points of the real code: `tcp:should_send`, `clone`, `tcp:wake`, `done`.
-/
namespace MetricsVerif.Driver.TcpProd
open MetricsVerif.Driver MetricsVerif.TcpProd

structure St where
  sys : Sys
  n : Nat

def pcName : Pc → String
  | .gate => "tcp:should_send"
  | .send => "clone"
  | .wake => "tcp:wake"
  | .done => "done"

def idsTok (s : String) : Option (List Nat) :=
  if s == "-" then some [] else (s.splitOn "/").mapM (fun t => t.toNat?)

def showIds (xs : List Nat) : String :=
  if xs.isEmpty then "-" else "/".intercalate (xs.map toString)

def b01 (b : Bool) : String := if b then "1" else "0"

def tail (s : Sys) : String := s!"q={s.chan.length} wp={b01 s.wakePending}"

def bit (s : String) : Option Bool :=
  if s == "0" then some false else if s == "1" then some true else none

def handle (st : Option St) (args : List String) : Option (Option St × String) :=
  match args with
  | ["init", cap, gate, wp, progs] => do
    let cap ← optTok (fun t => t.toNat?) cap
    let gate ← bit gate
    let wp ← bit wp
    let progs ← listTok idsTok progs
    let s := { init .sendThenWake cap gate progs with wakePending := wp }
    pure (some ⟨s, progs.length⟩, "ok")
  | ["step", tid] => do
    let st ← st
    let s := st.sys
    if tid == "t" then
      let s' := tStep s
      let what :=
        match s.tpc with
        | .idle => if s.wakePending then "woken" else "blocked"
        | .loop =>
          match s'.tpc with
          | .loop => "recv"
          | .idle => s!"fanout:{showIds s.buffered}:sw{b01 (decide (s.limit ≤ s.buffered.length))}"
      pure (some { st with sys := s' }, s!"t {what} {tail s'}")
    else if tid.startsWith "e" then
      let i ← (tid.drop 1).toNat?
      if i ≥ st.n then none else
      let s' := emStep s i
      pure (some { st with sys := s' }, s!"e{i} {pcName (s.ems i).pc}>{pcName (s'.ems i).pc} {tail s'}")
    else none
  | ["end"] => do
    let st ← st
    let s := st.sys
    let alldone := (List.range st.n).all (fun i => (s.ems i).pc == .done)
    let q := alldone && s.tpc == .idle && !s.wakePending
    let tp := match s.tpc with | .idle => "idle" | .loop => "loop"
    pure (some st, s!"{tail s} tpc={tp} delivered={showIds s.delivered} quiescent={b01 q}")
  | _ => none

end MetricsVerif.Driver.TcpProd
