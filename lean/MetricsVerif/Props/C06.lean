/-
C06 — the registry keeps exactly one storage per metric kind and key.

Model: `Model/Registry.lean` (sharded hash maps with raw-entry lookups, read section / write section with
re-check, delete / retain / clear / visit / handles; concurrent step machine with one step per lock section).

All theorems are for ANY key type with ANY `eqv`/`hash` satisfying `KeyLaws` (an equivalence whose classes
hash alike — what C03 establishes for `metrics::Key`), so equal-but-differently-built keys, keys sharing a
shard and keys sharing a full hash are all covered; for ANY shard count `> 0` (the code's `2^k` included);
for ALL op sequences (induction on the list) and ALL schedules of ANY number of threads (induction on the
schedule).
-/
import MetricsVerif.Proofs.Registry
import MetricsVerif.Proofs.RegistryClear
import MetricsVerif.Generated.SourceFacts

namespace MetricsVerif.C06
open MetricsVerif.Registry

variable {K : Type}

/-! ## sequential: refinement of the abstract map -/

/-- a `retain` predicate must not tell equal keys apart (it is handed the stored key, which is whichever equal
    key created the entry) -/
def Respects (ko : KeyOps K) : Op K → Prop
  | .retain _ f => ∀ a b i, ko.eqv a b = true → f a i = f b i
  | _ => True

/-- `l` lists exactly the live keys of kind `kd`, each once, with their storages -/
def Listing (ko : KeyOps K) (s : Spec K) (kd : Kind) (l : List (K × Nat)) : Prop :=
  l.Pairwise (fun p q => ko.eqv p.1 q.1 = false) ∧
  ∀ k i, (∃ p ∈ l, ko.eqv k p.1 = true ∧ p.2 = i) ↔ s.map kd k = some i

/-- the answer `o` to `op` is what the abstract map `s` prescribes -/
def OutOK (ko : KeyOps K) (s : Spec K) : Op K → Out K → Prop
  | .goc kd k, o => o = (specStep ko s (.goc kd k)).2
  | .get kd k, o => o = .opt (s.map kd k)
  | .delete kd k, o => o = .bool (s.map kd k).isSome
  | .retain _ _, o => o = .unit
  | .clear, o => o = .unit
  | .visit kd, o => ∃ l, o = .listing l ∧ Listing ko s kd l
  | .handles kd, o => ∃ l, o = .listing l ∧ Listing ko s kd l

def OutsOK (ko : KeyOps K) : Spec K → List (Op K) → List (Out K) → Prop
  | _, [], [] => True
  | s, op :: ops, o :: os => OutOK ko s op o ∧ OutsOK ko (specStep ko s op).1 ops os
  | _, _, _ => False

theorem spec_ext {s t : Spec K} (h1 : s.map = t.map) (h2 : s.next = t.next) : s = t := by
  cases s; cases t; simp_all

theorem abs_new (ko : KeyOps K) (count : Nat) : abs ko (Reg.new count : Reg K) = Spec.empty := by
  apply spec_ext
  · funext kd k
    have hget : (Reg.new count : Reg K).get kd = List.replicate count [] := by cases kd <;> rfl
    simp only [abs, readSection, Reg.shard, hget, Spec.empty, lookup, List.getD, List.getElem?_replicate]
    split <;> rfl
  · rfl

/-- the write section alone (re-check included) already is the abstract get-or-create -/
theorem writeSection_refines {ko : KeyOps K} (L : KeyLaws ko) (r : Reg K) (hinv : Inv ko r) (kd : Kind) (k : K) :
    Inv ko (writeSection ko r kd k).1
    ∧ abs ko (writeSection ko r kd k).1 = (specStep ko (abs ko r) (.goc kd k)).1
    ∧ Out.id (writeSection ko r kd k).2 = (specStep ko (abs ko r) (.goc kd k)).2 := by
  unfold writeSection
  simp only
  cases hl : lookup ko (r.shard kd (ko.hash k)) (ko.hash k) k with
  | some e =>
    have hr : (abs ko r).map kd k = some e.id := by simp [abs, readSection, hl]
    refine ⟨hinv, ?_, ?_⟩ <;> simp only [specStep, hr]
  | none =>
    have hr : (abs ko r).map kd k = none := by simp [abs, readSection, hl]
    refine ⟨insert_inv L r hinv kd k hl, ?_, ?_⟩
    case refine_2 => simp only [specStep, hr]; rfl
    simp only [specStep, hr]
    apply spec_ext
    · funext kd' k'
      exact read_after_insert L r kd k (hinv.len kd) hl kd' k'
    · simp [abs]

/-- sequentially the read section is redundant: `get_or_create` = its write section -/
theorem getOrCreate_eq_writeSection (ko : KeyOps K) (r : Reg K) (kd : Kind) (k : K) :
    getOrCreate ko r kd k = writeSection ko r kd k := by
  unfold getOrCreate writeSection readSection
  simp only
  cases lookup ko (r.shard kd (ko.hash k)) (ko.hash k) k <;> rfl

theorem visit_listing {ko : KeyOps K} (L : KeyLaws ko) (r : Reg K) (hinv : Inv ko r) (kd : Kind) :
    Listing ko (abs ko r) kd (visit r kd) := by
  refine ⟨?_, ?_⟩
  · rw [visit_eq, List.pairwise_map]; exact entries_pairwise L r hinv kd
  · intro k i
    rw [← show readSection ko r kd k = (abs ko r).map kd k from rfl, ← entries_lookup L r hinv kd k i, visit_eq]
    constructor
    · intro ⟨p, hp, h1, h2⟩
      obtain ⟨e, he, rfl⟩ := List.mem_map.mp hp
      exact ⟨e, he, h1, h2⟩
    · intro ⟨e, he, h1, h2⟩
      exact ⟨(e.key, e.id), List.mem_map.mpr ⟨e, he, rfl⟩, h1, h2⟩

/-- **one step refines the abstract map**: the invariant is kept, the abstraction commutes, the answer is the
    abstract answer -/
theorem step_refines {ko : KeyOps K} (L : KeyLaws ko) (r : Reg K) (hinv : Inv ko r) (op : Op K)
    (hop : Respects ko op) :
    Inv ko (step ko r op).1 ∧ abs ko (step ko r op).1 = (specStep ko (abs ko r) op).1
    ∧ OutOK ko (abs ko r) op (step ko r op).2 := by
  cases op with
  | goc kd k =>
    have := writeSection_refines L r hinv kd k
    simp only [step, getOrCreate_eq_writeSection, OutOK]
    exact this
  | get kd k => exact ⟨hinv, rfl, rfl⟩
  | delete kd k =>
    simp only [step, OutOK]
    refine ⟨sub_inv hinv (delete_sub ko r kd k (hinv.len kd)), ?_, ?_⟩
    · apply spec_ext
      · funext kd' k'
        exact read_after_delete L r hinv kd k kd' k'
      · have := (delete_sub ko r kd k (hinv.len kd))
        simp only [abs, specStep]
        unfold delete
        simp only
        split <;> simp
    · rw [delete_out]; rfl
  | retain kd f =>
    simp only [step, OutOK]
    refine ⟨sub_inv hinv (retain_sub r kd f), ?_, trivial⟩
    apply spec_ext
    · funext kd' k'
      exact read_after_retain L r hinv kd f hop kd' k'
    · simp [abs, specStep, retain]
  | clear =>
    simp only [step, OutOK]
    refine ⟨sub_inv hinv (clear_sub r), ?_, trivial⟩
    apply spec_ext
    · funext kd' k'
      exact read_after_clear ko r kd' k'
    · rfl
  | visit kd => exact ⟨hinv, rfl, _, rfl, visit_listing L r hinv kd⟩
  | handles kd =>
    refine ⟨hinv, rfl, _, rfl, ?_⟩
    rw [handles_eq_visit L r hinv kd]
    exact visit_listing L r hinv kd

/-- **refinement, any op sequence from any good state** -/
theorem run_refines {ko : KeyOps K} (L : KeyLaws ko) (ops : List (Op K)) :
    ∀ r, Inv ko r → (∀ op ∈ ops, Respects ko op) →
      Inv ko (runOps ko r ops).1 ∧ abs ko (runOps ko r ops).1 = runSpec ko (abs ko r) ops
      ∧ OutsOK ko (abs ko r) ops (runOps ko r ops).2 := by
  induction ops with
  | nil => intro r hinv _; exact ⟨hinv, rfl, trivial⟩
  | cons op ops ih =>
    intro r hinv hops
    obtain ⟨h1, h2, h3⟩ := step_refines L r hinv op (hops op (List.mem_cons_self))
    obtain ⟨g1, g2, g3⟩ := ih (step ko r op).1 h1 (fun o ho => hops o (List.mem_cons_of_mem _ ho))
    simp only [runOps, runSpec, OutsOK]
    rw [← h2]
    exact ⟨g1, g2, h3, g3⟩

/-- **registry_refines**: from a fresh registry with any positive shard count, every op sequence leaves the
    registry abstracting to what the abstract map semantics computes, and answers what it answers -/
theorem registry_refines {ko : KeyOps K} (L : KeyLaws ko) (count : Nat) (hc : 0 < count) (ops : List (Op K))
    (hops : ∀ op ∈ ops, Respects ko op) :
    abs ko (runOps ko (Reg.new count) ops).1 = runSpec ko Spec.empty ops
    ∧ OutsOK ko Spec.empty ops (runOps ko (Reg.new count) ops).2 := by
  have := run_refines L ops (Reg.new count) (new_inv ko count hc) hops
  rw [abs_new] at this
  exact ⟨this.2.1, this.2.2⟩

/-- states reachable from a fresh registry -/
def Reach (ko : KeyOps K) (r : Reg K) : Prop :=
  ∃ count ops, 0 < count ∧ (∀ op ∈ ops, Respects ko op) ∧ r = (runOps ko (Reg.new count) ops).1

theorem reach_inv {ko : KeyOps K} (L : KeyLaws ko) {r : Reg K} (h : Reach ko r) : Inv ko r := by
  obtain ⟨count, ops, hc, hops, rfl⟩ := h
  exact (run_refines L ops _ (new_inv ko count hc) hops).1

/-! ### corollaries for the sequential registry -/

/-- **uniqueness**: in every reachable state a kind holds at most one entry per key class — counted over ALL
    shards -/
theorem at_most_one_entry {ko : KeyOps K} (L : KeyLaws ko) {r : Reg K} (h : Reach ko r) (kd : Kind) (k : K) :
    (entries r kd).countP (fun e => ko.eqv k e.key) ≤ 1 :=
  countP_le_one L k _ (entries_pairwise L r (reach_inv L h) kd)

/-- **kinds and keys never share storage**: two entries with the same storage are the same kind and equal keys -/
theorem never_share {ko : KeyOps K} (L : KeyLaws ko) {r : Reg K} (h : Reach ko r) (kd kd' : Kind)
    (e e' : Entry K) (he : e ∈ entries r kd) (he' : e' ∈ entries r kd') (hid : e.id = e'.id) :
    kd = kd' ∧ ko.eqv e.key e'.key = true := by
  obtain ⟨i, hi⟩ := (mem_entries r kd e).mp he
  obtain ⟨i', hi'⟩ := (mem_entries r kd' e').mp he'
  exact (reach_inv L h).idinj _ _ _ _ _ _ hi hi' hid

/-- after `get_or_create(k)` answered storage `i`, a lookup of `k` finds `i` -/
theorem goc_post {ko : KeyOps K} (L : KeyLaws ko) (r : Reg K) (hinv : Inv ko r) (kd : Kind) (k : K) :
    ∃ i, (step ko r (.goc kd k)).2 = .id i ∧ readSection ko (step ko r (.goc kd k)).1 kd k = some i := by
  obtain ⟨_, ha, ho⟩ := step_refines L r hinv (.goc kd k) trivial
  have hmap : readSection ko (step ko r (.goc kd k)).1 kd k = (specStep ko (abs ko r) (.goc kd k)).1.map kd k := by
    rw [← ha]; rfl
  simp only [OutOK] at ho
  rw [ho, hmap]
  cases hm : (abs ko r).map kd k with
  | some i => exact ⟨i, by simp [specStep, hm], by simp [specStep, hm]⟩
  | none => exact ⟨(abs ko r).next, by simp [specStep, hm], by simp [specStep, hm, L.refl]⟩

theorem step_goc (ko : KeyOps K) (r : Reg K) (kd : Kind) (k : K) :
    step ko r (.goc kd k) = ((getOrCreate ko r kd k).1, .id (getOrCreate ko r kd k).2) := rfl

/-- `op` may remove the entry of `(kd, k)` -/
def removes (ko : KeyOps K) (kd : Kind) (k : K) : Op K → Bool
  | .delete kd' k' => decide (kd' = kd) && ko.eqv k' k
  | .retain kd' _ => decide (kd' = kd)
  | .clear => true
  | _ => false

theorem stable_step {ko : KeyOps K} (L : KeyLaws ko) (r : Reg K) (hinv : Inv ko r) (op : Op K)
    (hop : Respects ko op) (kd : Kind) (k : K) (a : Nat) (h : readSection ko r kd k = some a)
    (hn : removes ko kd k op = false) : readSection ko (step ko r op).1 kd k = some a := by
  obtain ⟨_, ha, _⟩ := step_refines L r hinv op hop
  have hmap : readSection ko (step ko r op).1 kd k = (specStep ko (abs ko r) op).1.map kd k := by rw [← ha]; rfl
  rw [hmap]
  have h' : (abs ko r).map kd k = some a := h
  cases op with
  | goc kd' k' =>
    cases hm : (abs ko r).map kd' k' with
    | some i => simp only [specStep, hm]; exact h'
    | none =>
      simp only [specStep, hm]
      by_cases hc : kd = kd' ∧ ko.eqv k' k = true
      · have h1 : readSection ko r kd' k' = none := hm
        rw [hc.1, readSection_congr L r kd' hc.2, h1] at h
        cases h
      · rw [if_neg hc]; exact h'
  | get kd' k' => exact h'
  | delete kd' k' =>
    simp only [specStep]
    have hc : ¬ (kd = kd' ∧ ko.eqv k' k = true) := by
      intro c
      simp [removes, c.1, c.2] at hn
    rw [if_neg hc]; exact h'
  | retain kd' f =>
    simp only [specStep]
    have hc : ¬ kd = kd' := by
      intro c
      simp [removes, c] at hn
    rw [if_neg hc]; exact h'
  | clear => simp [removes] at hn
  | visit kd' => exact h'
  | handles kd' => exact h'

theorem stable_run {ko : KeyOps K} (L : KeyLaws ko) (ops : List (Op K)) (kd : Kind) (k : K) (a : Nat) :
    ∀ r, Inv ko r → (∀ op ∈ ops, Respects ko op ∧ removes ko kd k op = false) →
      readSection ko r kd k = some a → readSection ko (runOps ko r ops).1 kd k = some a := by
  induction ops with
  | nil => intro r _ _ h; exact h
  | cons op ops ih =>
    intro r hinv hops h
    have ho := hops op (List.mem_cons_self)
    exact ih _ (step_refines L r hinv op ho.1).1 (fun o hmem => hops o (List.mem_cons_of_mem _ hmem))
      (stable_step L r hinv op ho.1 kd k a h ho.2)

/-- **equal keys hit the same storage until it is deleted**: a `get_or_create(k₁)`, then any operations that do not
    delete / retain / clear that kind-and-key, then a `get_or_create(k₂)` with `k₂ ≈ k₁` (built in any way):
    the second call is handed the very storage the first one was -/
theorem same_storage_until_deleted {ko : KeyOps K} (L : KeyLaws ko) (r : Reg K) (hinv : Inv ko r) (kd : Kind)
    (k₁ k₂ : K) (mid : List (Op K)) (heq : ko.eqv k₁ k₂ = true)
    (hmid : ∀ op ∈ mid, Respects ko op ∧ removes ko kd k₁ op = false) :
    (step ko (runOps ko (step ko r (.goc kd k₁)).1 mid).1 (.goc kd k₂)).2 = (step ko r (.goc kd k₁)).2 := by
  obtain ⟨i, h1, h2⟩ := goc_post L r hinv kd k₁
  have hinv1 := (step_refines L r hinv (.goc kd k₁) trivial).1
  have h3 := stable_run L mid kd k₁ i _ hinv1 hmid h2
  rw [← readSection_congr L _ kd heq] at h3
  rw [h1, step_goc]
  simp only [getOrCreate, h3]

/-- delete is exact and truthful -/
theorem delete_exact {ko : KeyOps K} (L : KeyLaws ko) {r : Reg K} (h : Reach ko r) (kd : Kind) (k : K) :
    (delete ko r kd k).2 = (readSection ko r kd k).isSome
    ∧ ∀ kd' k', readSection ko (delete ko r kd k).1 kd' k'
        = if kd' = kd ∧ ko.eqv k k' = true then none else readSection ko r kd' k' :=
  ⟨delete_out ko r kd k, read_after_delete L r (reach_inv L h) kd k⟩

/-- retain keeps exactly the entries its predicate accepts, and shows the predicate every live entry once -/
theorem retain_exact {ko : KeyOps K} (L : KeyLaws ko) {r : Reg K} (h : Reach ko r) (kd : Kind) (f : K → Nat → Bool)
    (hf : ∀ a b i, ko.eqv a b = true → f a i = f b i) :
    (∀ kd' k', readSection ko (retain r kd f).1 kd' k'
        = if kd' = kd then (readSection ko r kd' k').filter (f k') else readSection ko r kd' k')
    ∧ Listing ko (abs ko r) kd (retain r kd f).2 := by
  refine ⟨read_after_retain L r (reach_inv L h) kd f hf, ?_⟩
  rw [retain_calls]; exact visit_listing L r (reach_inv L h) kd

/-- clear removes everything -/
theorem clear_exact (ko : KeyOps K) (r : Reg K) (kd : Kind) (k : K) : readSection ko (clear r) kd k = none :=
  read_after_clear ko r kd k

/-- listings and visits of a reachable state report exactly the live keys, each once; and the snapshot map of
    `get_*_handles` is that visit -/
theorem listings_exact {ko : KeyOps K} (L : KeyLaws ko) {r : Reg K} (h : Reach ko r) (kd : Kind) :
    Listing ko (abs ko r) kd (visit r kd) ∧ handles ko r kd = visit r kd :=
  ⟨visit_listing L r (reach_inv L h) kd, handles_eq_visit L r (reach_inv L h) kd⟩

/-! ### storages created -/

/-- `op` makes the storage factory create a storage: a get-or-create of an absent key -/
def creates (s : Spec K) : Op K → Bool
  | .goc kd k => (s.map kd k).isNone
  | _ => false

def countCreates (ko : KeyOps K) : Spec K → List (Op K) → Nat
  | _, [] => 0
  | s, op :: ops => (if creates s op then 1 else 0) + countCreates ko (specStep ko s op).1 ops

theorem spec_next (ko : KeyOps K) (ops : List (Op K)) :
    ∀ s : Spec K, (runSpec ko s ops).next = s.next + countCreates ko s ops := by
  induction ops with
  | nil => intro s; rfl
  | cons op ops ih =>
    intro s
    simp only [runSpec, countCreates, ih]
    cases op with
    | goc kd k => cases hm : s.map kd k <;> simp [specStep, creates, hm] <;> omega
    | _ => simp [specStep, creates]

/-- **one storage per lifetime**: the number of storages ever created is the number of get-or-create calls that
    found their key absent (i.e. that started a lifetime); no other operation creates one -/
theorem storages_created {ko : KeyOps K} (L : KeyLaws ko) (count : Nat) (hc : 0 < count) (ops : List (Op K))
    (hops : ∀ op ∈ ops, Respects ko op) :
    (runOps ko (Reg.new count) ops).1.next = countCreates ko Spec.empty ops := by
  have h := (registry_refines L count hc ops hops).1
  have h2 := spec_next ko ops Spec.empty
  rw [← h] at h2
  simpa [abs, Spec.empty] using h2

/-! ## concurrent: every interleaving of lock sections -/

theorem calls_respect (ko : KeyOps K) (l : List (LogEntry K)) : ∀ op ∈ logOps l, Respects ko op := by
  intro op hop
  obtain ⟨e, _, rfl⟩ := List.mem_map.mp hop
  cases e.call <;> trivial

/-- **a concurrent run is the sequential run of its calls in the order they took effect** (each call at its
    successful read section, else at its write section; delete and get at their only section): same final
    registry, same answers.  Any number of threads, any programs, any schedule; needs no assumption on keys. -/
theorem concurrent_is_sequential (ko : KeyOps K) (count : Nat) (progs : List (List (Call K))) (sched : List Nat) :
    runOps ko (Reg.new count) (logOps (run ko (Sys.init count progs) sched).log)
      = ((run ko (Sys.init count progs) sched).reg, logOuts (run ko (Sys.init count progs) sched).log) := by
  obtain ⟨new, h1, h2⟩ := run_seq ko sched (Sys.init count progs)
  have : (Sys.init count progs : Sys K).log = [] := rfl
  rw [this, List.nil_append] at h1
  rw [h1]; exact h2

/-- what a thread has been answered is its part of that order, and its logged calls are the consumed prefix of
    its program in program order -/
theorem thread_results_logged (ko : KeyOps K) (count : Nat) (progs : List (List (Call K))) (sched : List Nat)
    (tid : Nat) (t : Thread K) (ht : (run ko (Sys.init count progs) sched).threads[tid]? = some t) :
    t.results = ((run ko (Sys.init count progs) sched).log.filter (fun e => e.tid == tid)).map (·.res)
    ∧ ((run ko (Sys.init count progs) sched).log.filter (fun e => e.tid == tid)).map (·.call) ++ t.calls
        = progs.getD tid [] :=
  run_logInv ko progs sched _ (init_logInv count progs) tid t ht

/-- **no duplicate entry, ever**: the invariant (one entry per kind and key class, placed by its hash, storages
    not shared) holds after every schedule -/
theorem concurrent_inv {ko : KeyOps K} (L : KeyLaws ko) (count : Nat) (hc : 0 < count)
    (progs : List (List (Call K))) (sched : List Nat) : Inv ko (run ko (Sys.init count progs) sched).reg := by
  have h := concurrent_is_sequential ko count progs sched
  have := (run_refines L (logOps (run ko (Sys.init count progs) sched).log) (Reg.new count)
    (new_inv ko count hc) (calls_respect ko _)).1
  rw [h] at this; exact this

theorem concurrent_unique {ko : KeyOps K} (L : KeyLaws ko) (count : Nat) (hc : 0 < count)
    (progs : List (List (Call K))) (sched : List Nat) (kd : Kind) (k : K) :
    (entries (run ko (Sys.init count progs) sched).reg kd).countP (fun e => ko.eqv k e.key) ≤ 1 :=
  countP_le_one L k _ (entries_pairwise L _ (concurrent_inv L count hc progs sched) kd)

/-- **linearization**: the registry abstracts to the abstract map after the logged calls, and every logged answer
    is the abstract map's answer at that point -/
theorem concurrent_linearizes {ko : KeyOps K} (L : KeyLaws ko) (count : Nat) (hc : 0 < count)
    (progs : List (List (Call K))) (sched : List Nat) :
    abs ko (run ko (Sys.init count progs) sched).reg = runSpec ko Spec.empty (logOps (run ko (Sys.init count progs) sched).log)
    ∧ OutsOK ko Spec.empty (logOps (run ko (Sys.init count progs) sched).log)
        (logOuts (run ko (Sys.init count progs) sched).log) := by
  have h := concurrent_is_sequential ko count progs sched
  have := registry_refines L count hc _ (calls_respect ko (run ko (Sys.init count progs) sched).log)
  rw [h] at this; exact this

/-- **one storage per lifetime, concurrently**: storages created = logged get-or-creates that found the key absent -/
theorem concurrent_storages_created {ko : KeyOps K} (L : KeyLaws ko) (count : Nat) (hc : 0 < count)
    (progs : List (List (Call K))) (sched : List Nat) :
    (run ko (Sys.init count progs) sched).reg.next
      = countCreates ko Spec.empty (logOps (run ko (Sys.init count progs) sched).log) := by
  have h := concurrent_is_sequential ko count progs sched
  have := storages_created L count hc _ (calls_respect ko (run ko (Sys.init count progs) sched).log)
  rw [h] at this; exact this

theorem toOut_inj {a b : Res} (h : (a.toOut : Out K) = b.toOut) : a = b := by
  cases a <;> cases b <;> simp [Res.toOut] at h <;> simp [h]

/-- the answer logged for an entry is the sequential answer in the state reached by the entries before it -/
theorem log_entry_step (ko : KeyOps K) (r r' : Reg K) (pre post : List (LogEntry K)) (e : LogEntry K)
    (h : runOps ko r (logOps (pre ++ e :: post)) = (r', logOuts (pre ++ e :: post))) :
    (step ko (runOps ko r (logOps pre)).1 e.call.toOp).2 = e.res.toOut := by
  simp only [logOps, logOuts, List.map_append, List.map_cons] at h
  rw [runOps_append] at h
  have h2 := congrArg Prod.snd h
  simp only at h2
  have hl : (runOps ko r (List.map (fun e => e.call.toOp) pre)).2.length
      = (List.map (fun e : LogEntry K => (e.res.toOut : Out K)) pre).length := by
    rw [runOps_length]; simp
  have h3 := (List.append_inj h2 hl).2
  simp only [runOps] at h3
  exact (List.cons.inj h3).1

/-- **every get-or-create returns the storage that is in the map at its linearization point** -/
theorem goc_returns_current {ko : KeyOps K} (L : KeyLaws ko) (count : Nat) (hc : 0 < count)
    (progs : List (List (Call K))) (sched : List Nat) (pre post : List (LogEntry K)) (e : LogEntry K)
    (kd : Kind) (k : K) (hlog : (run ko (Sys.init count progs) sched).log = pre ++ e :: post)
    (hcall : e.call = .goc kd k) :
    ∃ i, e.res = .id i ∧ readSection ko (runOps ko (Reg.new count) (logOps (pre ++ [e]))).1 kd k = some i := by
  have h := concurrent_is_sequential ko count progs sched
  rw [hlog] at h
  have hs := log_entry_step ko _ _ pre post e h
  have hinv := (run_refines L (logOps pre) (Reg.new count) (new_inv ko count hc) (calls_respect ko pre)).1
  rw [hcall] at hs
  obtain ⟨i, h1, h2⟩ := goc_post L _ hinv kd k
  refine ⟨i, ?_, ?_⟩
  · have : (e.res.toOut : Out K) = (Res.id i).toOut := by rw [← hs]; exact h1
    exact toOut_inj this
  · have e1 : logOps (pre ++ [e]) = logOps pre ++ [Op.goc kd k] := by
      simp only [logOps, List.map_append, List.map_cons, List.map_nil, hcall]; rfl
    rw [e1, runOps_append]
    simpa [runOps] using h2

/-- **racing creators agree**: two get-or-creates of equal keys (on any threads, built in any way) are handed the
    same storage unless a delete of that kind-and-key took effect between them -/
theorem racing_creators_agree {ko : KeyOps K} (L : KeyLaws ko) (count : Nat) (hc : 0 < count)
    (progs : List (List (Call K))) (sched : List Nat) (pre mid post : List (LogEntry K)) (e₁ e₂ : LogEntry K)
    (kd : Kind) (k₁ k₂ : K)
    (hlog : (run ko (Sys.init count progs) sched).log = pre ++ e₁ :: (mid ++ e₂ :: post))
    (h₁ : e₁.call = .goc kd k₁) (h₂ : e₂.call = .goc kd k₂) (heq : ko.eqv k₁ k₂ = true)
    (hmid : ∀ m ∈ mid, removes ko kd k₁ m.call.toOp = false) : e₁.res = e₂.res := by
  have h := concurrent_is_sequential ko count progs sched
  rw [hlog] at h
  have hs1 := log_entry_step ko _ _ pre _ e₁ h
  have h' := h
  rw [show pre ++ e₁ :: (mid ++ e₂ :: post) = (pre ++ e₁ :: mid) ++ e₂ :: post by simp] at h'
  have hs2 := log_entry_step ko _ _ _ post e₂ h'
  have hinv := (run_refines L (logOps pre) (Reg.new count) (new_inv ko count hc) (calls_respect ko pre)).1
  have hmid' : ∀ op ∈ logOps mid, Respects ko op ∧ removes ko kd k₁ op = false := by
    intro op hop
    refine ⟨calls_respect ko mid op hop, ?_⟩
    obtain ⟨m, hm, rfl⟩ := List.mem_map.mp hop
    exact hmid m hm
  have key := same_storage_until_deleted L _ hinv kd k₁ k₂ (logOps mid) heq hmid'
  rw [h₁] at hs1
  rw [h₂] at hs2
  have e : (runOps ko (Reg.new count) (logOps (pre ++ e₁ :: mid))).1
      = (runOps ko (step ko (runOps ko (Reg.new count) (logOps pre)).1 (.goc kd k₁)).1 (logOps mid)).1 := by
    simp only [logOps, List.map_append, List.map_cons, h₁, Call.toOp]
    rw [runOps_append]
    simp [runOps]
  rw [e] at hs2
  simp only [Call.toOp] at hs1 hs2
  rw [hs1, hs2] at key
  exact (toOut_inj key).symm

/-! ## sweeps (clear / retain / visit) racing threads that hold a shard lock — the lock-aware machine -/

/-- **a sweep waits**: at a shard whose lock another thread holds in a conflicting mode the sweep neither touches
    the registry nor moves on — it stays before that shard (`RwLock::read/write` block; no shard is skipped) -/
theorem sweep_waits (c : LCall K) (hold : Bool) (others : List Lock) (fuel : Nat) (r : Reg K)
    (acc : List (K × Nat)) (kd : Kind) (idx : Nat)
    (h : mustWait others { kd, idx, write := c.sweepWrite } = true) :
    sweepRun c hold others (fuel + 1) r acc kd idx = (r, acc, .waiting kd idx) := by
  simp [sweepRun, h]

/-- the section of `clear` on a shard leaves that shard empty -/
theorem clear_section_empties (r : Reg K) (kd : Kind) (idx : Nat) (sh : Shard K) (acc : List (K × Nat))
    (hlt : idx < (r.get kd).length) :
    ((sweepSection (.clear : LCall K) r kd idx sh acc).1.get kd).getD idx [] = [] := by
  simp [sweepSection, Reg.setIdx, get_set, List.getD, getElem?_setAt, hlt]

/-- one token of any thread of the lock-aware machine keeps the registry invariant, whatever locks the others hold -/
theorem lstepThread_inv {ko : KeyOps K} (L : KeyLaws ko) (r : Reg K) (hinv : Inv ko r) (others : List Lock)
    (t : LThread K) : Inv ko (lstepThread ko r others t).1 := by
  unfold lstepThread
  repeat' split
  all_goals first
    | exact hinv
    | exact (writeSection_refines L r hinv _ _).1
    | exact sub_inv hinv (delete_sub ko r _ _ (hinv.len _))
    | exact sub_inv hinv (sweepRun_sub _ _ _ _ _ _ _ _)

theorem lstep_inv {ko : KeyOps K} (L : KeyLaws ko) (s : LSys K) (hinv : Inv ko s.reg) (tid : Nat) :
    Inv ko (lstep ko s tid).reg := by
  unfold lstep
  split
  · exact hinv
  · exact lstepThread_inv L s.reg hinv _ _

/-- **no duplicate entry under sweeps and held locks, ever**: creators, getters, deleters, `clear`, `retain_*`,
    `visit_*` on any number of threads, callbacks parked under shard locks, sweeps waiting for them — after every
    schedule each kind holds at most one entry per key class, placed by its hash, storages not shared -/
theorem lrun_inv {ko : KeyOps K} (L : KeyLaws ko) (count : Nat) (hc : 0 < count) (progs : List (List (LCall K)))
    (sched : List Nat) : Inv ko (lrun ko (LSys.init count progs) sched).reg := by
  have : ∀ (sched : List Nat) (s : LSys K), Inv ko s.reg → Inv ko (lrun ko s sched).reg := by
    intro sched
    induction sched with
    | nil => intro s h; exact h
    | cons tid rest ih => intro s h; exact ih _ (lstep_inv L s h tid)
  exact this sched _ (new_inv ko count hc)

theorem lrun_unique {ko : KeyOps K} (L : KeyLaws ko) (count : Nat) (hc : 0 < count) (progs : List (List (LCall K)))
    (sched : List Nat) (kd : Kind) (k : K) :
    (entries (lrun ko (LSys.init count progs) sched).reg kd).countP (fun e => ko.eqv k e.key) ≤ 1 :=
  countP_le_one L k _ (entries_pairwise L _ (lrun_inv L count hc progs sched) kd)

/-- a run of sweep sections never adds an entry and never makes a storage: what is registered afterwards was
    registered before (shard by shard a sublist), so a sweep cannot resurrect or duplicate anything -/
theorem sweep_only_removes (c : LCall K) (hold : Bool) (others : List Lock) (fuel : Nat) (r : Reg K)
    (acc : List (K × Nat)) (kd : Kind) (idx : Nat) : Sub (sweepRun c hold others fuel r acc kd idx).1 r :=
  sweepRun_sub c hold others fuel r acc kd idx

/-! ### a completed `clear()` has removed every entry older than its call — all schedules -/

/-- **a completed `clear()` has removed every entry older than its call.**  Thread `tid` stands at the beginning of a
    `clear()` call (`pc = sweep counter 0`; `rest` are its calls after it) in ANY state `s0` of the lock-aware machine
    with well-formed shard vectors; `n0 = s0.reg.next` storages have been made so far, so every entry registered at
    that moment carries a storage id `< n0` and every later one an id `≥ n0`.  Then after ANY schedule of ANY number of
    threads running creators / getters / deleters / other sweeps, with callbacks parked under shard locks and `clear`
    waiting for them as often as it must: once the call has returned (the thread has moved past it), no entry with
    a storage id `< n0` is registered under any kind — everything older than the call is gone, and since storage ids
    are never handed out twice (`Inv.fresh`) none of it can come back.  Needs no assumption on the keys. -/
theorem clear_removes_older (ko : KeyOps K) (s0 : LSys K) (hlen : Lens s0.reg) (tid : Nat) (t0 : LThread K)
    (rest : List (LCall K)) (ht0 : s0.threads[tid]? = some t0) (hcalls : t0.calls = LCall.clear :: rest)
    (hpc : t0.pc = .sweep .counter 0) (sched : List Nat) (t1 : LThread K)
    (ht1 : (lrun ko s0 sched).threads[tid]? = some t1) (hdone : t1.calls.length ≤ rest.length)
    (kd : Kind) (e : Entry K) (he : e ∈ entries (lrun ko s0 sched).reg kd) : s0.reg.next ≤ e.id := by
  have h0 : ClearInv ko s0.reg.next rest tid s0 :=
    ⟨hlen, Nat.le_refl _, t0, ht0, Or.inr ⟨hcalls, .counter, 0, hpc, Nat.succ_pos _, by
      intro kd i e _ h; simp [walkPos, Kind.rank] at h⟩⟩
  have h1 := clearInv_lrun sched s0 h0
  obtain ⟨t, ht, hcase⟩ := h1.thr
  rw [ht1] at ht
  cases ht
  rcases hcase with ⟨_, hnb⟩ | ⟨hc, _⟩
  · obtain ⟨i, hat⟩ := (mem_entries _ kd e).mp he
    refine hnb kd i e hat ?_
    have hi := at_lt hat
    rw [h1.lens kd] at hi
    unfold walkPos
    cases kd <;> simp only [Kind.rank] <;> omega
  · rw [hc, List.length_cons] at hdone
    omega

/-- the same from a fresh registry: `pre` is any schedule up to the moment the call begins, `post` any schedule after
    which the call has returned -/
theorem clear_removes_older_reachable (ko : KeyOps K) (count : Nat) (hc : 0 < count) (progs : List (List (LCall K)))
    (pre post : List Nat) (tid : Nat) (t0 : LThread K) (rest : List (LCall K))
    (ht0 : (lrun ko (LSys.init count progs) pre).threads[tid]? = some t0) (hcalls : t0.calls = LCall.clear :: rest)
    (hpc : t0.pc = .sweep .counter 0) (t1 : LThread K)
    (ht1 : (lrun ko (LSys.init count progs) (pre ++ post)).threads[tid]? = some t1)
    (hdone : t1.calls.length ≤ rest.length) (kd : Kind) (e : Entry K)
    (he : e ∈ entries (lrun ko (LSys.init count progs) (pre ++ post)).reg kd) :
    (lrun ko (LSys.init count progs) pre).reg.next ≤ e.id := by
  have happ : lrun ko (LSys.init count progs) (pre ++ post) = lrun ko (lrun ko (LSys.init count progs) pre) post := by
    simp [lrun, List.foldl_append]
  rw [happ] at ht1 he
  exact clear_removes_older ko _ (lrun_lens pre _ (new_lens count hc)) tid t0 rest ht0 hcalls hpc post t1 ht1 hdone kd e he

/-- … said on the entries themselves: nothing that was registered when `clear()` was called is registered when it
    has returned (under the registry invariant storages are identified by their ids) -/
theorem clear_removes_entries_of_call_time {ko : KeyOps K} (s0 : LSys K) (hinv : Inv ko s0.reg) (tid : Nat)
    (t0 : LThread K) (rest : List (LCall K)) (ht0 : s0.threads[tid]? = some t0) (hcalls : t0.calls = LCall.clear :: rest)
    (hpc : t0.pc = .sweep .counter 0) (sched : List Nat) (t1 : LThread K)
    (ht1 : (lrun ko s0 sched).threads[tid]? = some t1) (hdone : t1.calls.length ≤ rest.length)
    (kd0 kd : Kind) (e0 e : Entry K) (he0 : e0 ∈ entries s0.reg kd0) (he : e ∈ entries (lrun ko s0 sched).reg kd) :
    e.id ≠ e0.id := by
  obtain ⟨i, hat⟩ := (mem_entries _ kd0 e0).mp he0
  have h1 := hinv.fresh kd0 i e0 hat
  have h2 := clear_removes_older ko s0 hinv.len tid t0 rest ht0 hcalls hpc sched t1 ht1 hdone kd e he
  omega

/-! ## two hashes: what lookups use and what a new entry is filed under (`Model/RegistryStore.lean`) -/

theorem writeSectionS_coherent (so : StoreOps K) (hcoh : ∀ k, so.storeHash k = so.ko.hash k) (r : Reg K) (kd : Kind)
    (k : K) : writeSectionS so r kd k = writeSection so.ko r kd k := by
  cases h : lookup so.ko (r.shard kd (so.ko.hash k)) (so.ko.hash k) k <;> simp [writeSectionS, writeSection, h, hcoh]

theorem stepS_coherent (so : StoreOps K) (hcoh : ∀ k, so.storeHash k = so.ko.hash k) (r : Reg K) (op : Op K) :
    stepS so r op = step so.ko r op := by
  cases op with
  | goc kd k =>
    cases h : readSection so.ko r kd k <;>
      simp [stepS, step, getOrCreateS, getOrCreate, h, writeSectionS_coherent so hcoh]
  | _ => rfl

/-- **one hash, one model**: for a key type whose entries are filed under the hash they are looked up with (what
    `src_shipped_keys_one_hash` pins for `metrics::Key` and `DefaultHashable<H>`, and what holds for every key type once
    the insertion is `insert_with_hasher(hash, …, |k| k.hashable())`) the two-hash registry IS the registry of
    `Model/Registry.lean`: every theorem above speaks about it -/
theorem stored_hash_coherent_same (so : StoreOps K) (hcoh : ∀ k, so.storeHash k = so.ko.hash k) (ops : List (Op K)) :
    ∀ r, runOpsS so r ops = runOps so.ko r ops := by
  induction ops with
  | nil => intro r; rfl
  | cons op ops ih =>
    intro r
    simp only [runOpsS, runOps, stepS_coherent so hcoh, ih]

/-- the provable part of "at most one entry per key" for the registry as it files entries today -/
theorem at_most_one_entry_partial {so : StoreOps K} (L : KeyLaws so.ko) (hcoh : ∀ k, so.storeHash k = so.ko.hash k)
    (count : Nat) (hc : 0 < count) (ops : List (Op K)) (hops : ∀ op ∈ ops, Respects so.ko op) (kd : Kind) (k : K) :
    (entries (runOpsS so (Reg.new count) ops).1 kd).countP (fun e => so.ko.eqv k e.key) ≤ 1 := by
  rw [stored_hash_coherent_same so hcoh]
  exact at_most_one_entry L ⟨count, ops, hc, hops, rfl⟩ kd k

def isGoc : Op K → Bool
  | .goc _ _ => true
  | _ => false

/-- with split hashes (`Split`: the hash an entry is filed under is never the lookup hash of an equal key) one step
    from a state whose entries are all filed that way: a get-or-create ALWAYS makes a new storage, `get_*` finds
    nothing, `delete_*` reports `false` and removes nothing — whatever is registered -/
theorem two_hash_step {so : StoreOps K} (hsp : Split so) (r : Reg K) (hlen : Lens r) (hst : StoredBy so r) (op : Op K) :
    (stepS so r op).1.next = r.next + (if isGoc op then 1 else 0)
    ∧ (∀ kd k, op = .goc kd k → (stepS so r op).2 = .id r.next)
    ∧ (∀ kd k, op = .get kd k → (stepS so r op).2 = .opt none)
    ∧ (∀ kd k, op = .delete kd k → stepS so r op = (r, .bool false)) := by
  have hmiss := lookup_none_of_split hsp r hlen hst
  cases op with
  | goc kd k =>
    have h1 : readSection so.ko r kd k = none := by simp [readSection, hmiss kd k]
    refine ⟨?_, ?_, (by intro _ _ h; cases h), (by intro _ _ h; cases h)⟩
    · simp [stepS, getOrCreateS, h1, writeSectionS, hmiss kd k, isGoc]
    · intro _ _ _
      simp [stepS, getOrCreateS, h1, writeSectionS, hmiss kd k]
  | get kd k =>
    refine ⟨by simp [stepS, step, isGoc], (by intro _ _ h; cases h), ?_, (by intro _ _ h; cases h)⟩
    intro _ _ _
    simp [stepS, step, getExisting, readSection, hmiss kd k]
  | delete kd k =>
    have : delete so.ko r kd k = (r, false) := by simp [delete, hmiss kd k]
    refine ⟨by simp [stepS, step, this, isGoc], (by intro _ _ h; cases h), (by intro _ _ h; cases h), ?_⟩
    intro _ _ _
    simp [stepS, step, this]
  | retain kd f =>
    exact ⟨by simp [stepS, step, retain, isGoc], (by intro _ _ h; cases h), (by intro _ _ h; cases h), (by intro _ _ h; cases h)⟩
  | clear =>
    exact ⟨by simp [stepS, step, clear, isGoc], (by intro _ _ h; cases h), (by intro _ _ h; cases h), (by intro _ _ h; cases h)⟩
  | visit kd =>
    exact ⟨by simp [stepS, step, isGoc], (by intro _ _ h; cases h), (by intro _ _ h; cases h), (by intro _ _ h; cases h)⟩
  | handles kd =>
    exact ⟨by simp [stepS, step, isGoc], (by intro _ _ h; cases h), (by intro _ _ h; cases h), (by intro _ _ h; cases h)⟩

/-- **N get-or-creates, N storages**: with split hashes, after ANY op sequence from a fresh registry the storage
    factory has been called once per `get_or_create_*` CALL (not once per key lifetime, `storages_created`) — for one
    key registered N times there are N storages -/
theorem two_hash_every_goc_creates {so : StoreOps K} (hsp : Split so) (ops : List (Op K)) :
    ∀ r, Lens r → StoredBy so r → (runOpsS so r ops).1.next = r.next + ops.countP isGoc := by
  induction ops with
  | nil => intro r _ _; simp [runOpsS]
  | cons op ops ih =>
    intro r hlen hst
    obtain ⟨hl', hs'⟩ := stepS_keeps so r hlen hst op
    have h1 := (two_hash_step hsp r hlen hst op).1
    simp only [runOpsS, ih _ hl' hs', h1, List.countP_cons]
    omega

theorem two_hash_every_goc_creates_fresh {so : StoreOps K} (hsp : Split so) (count : Nat) (hc : 0 < count)
    (ops : List (Op K)) : (runOpsS so (Reg.new count) ops).1.next = ops.countP isGoc := by
  have := two_hash_every_goc_creates hsp ops (Reg.new count) (new_lens count hc) (new_storedBy so count)
  simpa [Reg.new] using this

/-! ## source facts (tools/extract.py, regenerated from the repository on every run) -/

/-- **the insertion call is one the model follows, lookups use the precomputed hash**: every `get_or_create_*` fills
    the vacant raw entry by a call `Model/RegistryStore.insertViaOf` knows (today `or_insert_with`: filed under the MAP
    hasher's hash), every raw-entry lookup in the file is `from_key_hashed_nocheck(hash, key)` and there is no other
    kind of lookup, and `hash` is `key.hashable()` in all three shard selectors -/
theorem src_insert_path :
    (insertViaOf Generated.reg_goc_insert_calls).isSome = true
    ∧ Generated.reg_lookup_args.all (· == "hash, key") = true
    ∧ Generated.reg_lookup_args.length = 15
    ∧ Generated.reg_other_lookups = []
    ∧ Generated.reg_shard_hash_exprs = ["key.hashable()", "key.hashable()", "key.hashable()"] := by decide

/-- **the key types the crate ships have ONE hash**: the shard maps hash with `BuildHasherDefault<RegistryHasher>`,
    `RegistryHasher = KeyHasher`; `Hashable for Key` and `Hashable for DefaultHashable<H>` both declare
    `type Hasher = KeyHasher` and compute `hashable()` by `KeyHasher` (memoised for `Key`: C03); the trait's default
    `hashable()` runs `Self::Hasher` over `impl Hash` (so a third-party key with another `Hasher` has two hashes) -/
theorem src_shipped_keys_one_hash :
    Generated.reg_registry_hasher = "KeyHasher"
    ∧ Generated.reg_map_type = "HashMap<K, V, BuildHasherDefault<RegistryHasher>>"
    ∧ Generated.hashable_impls
        = [("Key", "KeyHasher", "{ self.get_hash() }"),
           ("DefaultHashable<H>", "KeyHasher",
            "{ let mut hasher = KeyHasher::default(); self.hash(&mut hasher); hasher.finish() }")]
    ∧ Generated.hashable_default_body
        = "{ let mut hasher = Self::Hasher::default(); self.hash(&mut hasher); hasher.finish() }" := by decide

/-- **a poisoned shard is recovered, never skipped**: each of the 21 lock calls of the file is directly followed by
    `.unwrap_or_else(PoisonError::into_inner)`; nothing matches on a lock result or asks `is_poisoned` -/
theorem src_poison_recovered :
    Generated.reg_lock_recover.all (· == ".unwrap_or_else(PoisonError::into_inner)") = true
    ∧ Generated.reg_lock_recover.length
        = Generated.reg_clear_locks.length + (Generated.reg_visit_locks.map List.length).sum
          + (Generated.reg_retain_locks.map List.length).sum + (Generated.reg_delete_locks.map List.length).sum
          + (Generated.reg_get_locks.map List.length).sum + (Generated.reg_goc_locks.map List.length).sum
    ∧ Generated.reg_poison_branches = [] := by decide

/-- **`get_*_handles` is one `visit_*` filling a fresh map** (`Registry.handles`), the three copies the same text -/
theorem src_handles_forward :
    Generated.reg_handles_copies_identical = true
    ∧ Generated.reg_handles_calls = [["visit_counters"], ["visit_gauges"], ["visit_histograms"]]
    ∧ Generated.reg_handles_body
        = "{ let mut KIND = HashMap::new(); self.visit_KIND(|k, v| { KIND.insert(k.clone(), v.clone()); }); KIND }" := by
  decide


/-- **every lock section waits**: `clear` walks counters, gauges, histograms and takes `write()` on each shard;
    `visit_*` take `read()`, `retain_*` and `delete_*` `write()`, `get_*` `read()`, `get_or_create_*` `read()` then
    `write()` — the modes of the model (`LCall.sweepWrite`, `lstepThread`) — and there is no `try_read` /
    `try_write` anywhere in the file: no function can skip a shard that is in use -/
theorem src_locks_block :
    Generated.reg_clear_loops = ["counters", "gauges", "histograms"]
    ∧ Generated.reg_clear_locks = ["write", "write", "write"]
    ∧ Generated.reg_visit_locks = [["read"], ["read"], ["read"]]
    ∧ Generated.reg_retain_locks = [["write"], ["write"], ["write"]]
    ∧ Generated.reg_delete_locks = [["write"], ["write"], ["write"]]
    ∧ Generated.reg_get_locks = [["read"], ["read"], ["read"]]
    ∧ Generated.reg_goc_locks = [["read", "write"], ["read", "write"], ["read", "write"]]
    ∧ Generated.reg_try_locks = [] := by decide

/-- the lock modes of the source are the ones the model's sweeps take -/
theorem src_sweep_modes :
    (Generated.reg_clear_locks.all (· == "write")) = (LCall.clear : LCall Nat).sweepWrite
    ∧ (Generated.reg_retain_locks.all (·.all (· == "write"))) = (LCall.retain .counter (fun _ _ => true) false : LCall Nat).sweepWrite
    ∧ (Generated.reg_visit_locks.all (·.all (· == "write"))) = (LCall.visit .counter false : LCall Nat).sweepWrite := by decide

/-- **the per-kind copies are one text**: the counter / gauge / histogram versions of `get_or_create_*`, `get_*`,
    `delete_*`, `visit_*`, `retain_*` and of the shard selection differ only in the kind's name, so the model's
    single `writeSection` / `readSection` / `delete` / sweep section speaks for all three -/
theorem src_kind_copies_identical :
    Generated.reg_goc_copies_identical = true ∧ Generated.reg_get_copies_identical = true
    ∧ Generated.reg_delete_copies_identical = true ∧ Generated.reg_visit_copies_identical = true
    ∧ Generated.reg_retain_copies_identical = true ∧ Generated.reg_shard_for_copies_identical = true := by decide

/-- **shard layout**: the shard count is `available_parallelism` (1 if unknown) rounded up to a power of two — never
    0 —, both constructors make exactly that many shards per kind and set `shard_mask = shard_count - 1`, and a
    shard is selected by `hash & shard_mask` (`Reg.new`, `shardOf`) -/
theorem src_shard_layout :
    Generated.reg_shard_count_body
      = "{ std::thread::available_parallelism().map(|x| x.get()).unwrap_or(1).next_power_of_two() }"
    ∧ Generated.reg_ctor_masks = ["shard_count - 1", "shard_count - 1"]
    ∧ Generated.reg_ctor_takes = ["shard_count shard_count shard_count", "shard_count shard_count shard_count"]
    ∧ Generated.reg_shard_index_exprs
      = ["hash as usize & self.shard_mask", "hash as usize & self.shard_mask", "hash as usize & self.shard_mask"] := by
  decide

/-! ## non-vacuity -/

/-- keys `(class, how it was built)`; classes 0 and 3 share their FULL hash, so they also share a shard -/
def exKo : KeyOps (Nat × Nat) := { eqv := fun a b => a.1 == b.1, hash := fun a => a.1 % 3 }

theorem exLaws : KeyLaws exKo := by
  refine ⟨?_, ?_, ?_, ?_⟩ <;> simp only [exKo, beq_iff_eq]
  · intro a; trivial
  · intro a b h; exact h.symm
  · intro a b c h1 h2; exact h1.trans h2
  · intro a b h; rw [h]

/-- sequential: equal keys built differently share a storage, a colliding key and another kind do not, delete
    is truthful, a re-created key gets a new storage, listings show each live key once -/
example :
    (runOps exKo (Reg.new 4)
      [.goc .counter (0, 0), .goc .counter (0, 1), .goc .counter (3, 0), .goc .gauge (0, 0), .visit .counter,
       .delete .counter (0, 1), .delete .counter (0, 0), .get .counter (3, 0), .goc .counter (0, 1),
       .handles .counter, .retain .counter (fun k _ => k.1 == 0), .visit .counter, .clear, .visit .gauge]).2
    = [.id 0, .id 0, .id 1, .id 2, .listing [((0, 0), 0), ((3, 0), 1)],
       .bool true, .bool false, .opt (some 1), .id 3,
       .listing [((3, 0), 1), ((0, 1), 3)], .unit, .listing [((0, 1), 3)], .unit, .listing []] := by decide

/-- concurrent: two creators of equal keys both miss in their read sections; the second write section finds the
    entry on its re-check and returns the same storage; one storage is created; a deleter then removes it -/
example :
    let s := run exKo (Sys.init 4 [[.goc .counter (0, 0)], [.goc .counter (0, 1)], [.delete .counter (0, 2)]])
      [0, 1, 0, 1, 0, 1, 2, 2]
    s.threads.map (·.results) = [[.id 0], [.id 0], [.bool true]] ∧ s.reg.next = 1 ∧ visit s.reg .counter = []
    ∧ s.log.map (·.tid) = [0, 1, 2] := by decide

/-- concurrent: a delete that takes effect between two creators separates their storages (the hypothesis of
    `racing_creators_agree` is needed) -/
example :
    let s := run exKo (Sys.init 2 [[.goc .counter (0, 0)], [.goc .counter (0, 1)], [.delete .counter (0, 2)]])
      [0, 1, 2, 0, 0, 2, 1, 1]
    s.threads.map (·.results) = [[.id 0], [.id 1], [.bool true]] ∧ s.reg.next = 2 := by decide

/-- lock-aware machine: a recorder is parked inside `op` under the read lock of its metric's shard; `clear`
    empties the shards before it and WAITS there (that entry and the one in the shard behind it are still
    registered, clear has not returned); when the
    recorder leaves, clear takes the shard and finishes: nothing is left -/
example :
    let r0 := (runOps exKo (Reg.new 4) [.goc .counter (1, 0), .goc .counter (2, 0)]).1
    let s0 : LSys (Nat × Nat) := { LSys.init 4 [[.clear], [.goc .counter (1, 1)]] with reg := r0 }
    let s1 := lrun exKo s0 [1, 1, 0, 0]
    let s2 := lrun exKo s1 [1, 0]
    (s1.threads.map (·.pc) = [.sweep .counter 1, .gocOp 0] ∧ visit s1.reg .counter = [((1, 0), 0), ((2, 0), 1)]
      ∧ s2.threads.map (·.pc) = [.done, .done] ∧ visit s2.reg .counter = []) := by decide

/-! ### two hashes: the negation, with its witness -/

/-- a key type as in `exKo`, whose entries are filed under another hash than lookups use (e.g. a `Hashable` impl with
    `type Hasher = SomethingElse` and the trait's default `hashable()`); equal keys still agree on BOTH hashes -/
def exSo : StoreOps (Nat × Nat) := { ko := exKo, storeHash := fun a => a.1 % 3 + 4 }

theorem exSo_split : Split exSo := by
  intro k k' _
  simp only [exSo, exKo]
  omega

/-- **"at most one storage per key" is FALSE of the registry for such a key type** (witness replayed on the real
    code on every run, harness stream T): the same key registered twice gets two storages, is visited twice, `get_*`
    does not find it, `delete_*` answers `false`, and the snapshot map silently keeps one of the two storages -/
theorem at_most_one_entry_fails_two_hash :
    ¬ (∀ (so : StoreOps (Nat × Nat)), KeyLaws so.ko → (∀ a b, so.ko.eqv a b = true → so.storeHash a = so.storeHash b) →
        ∀ (ops : List (Op (Nat × Nat))) (k : Nat × Nat),
          (entries (runOpsS so (Reg.new 4) ops).1 .counter).countP (fun e => so.ko.eqv k e.key) ≤ 1) := by
  intro h
  have := h exSo exLaws (by intro a b hab; simp only [exSo, exKo, beq_iff_eq] at hab; simp only [exSo, hab])
    [.goc .counter (0, 0), .goc .counter (0, 1)] (0, 0)
  revert this
  decide


/-- the witness in full (replayed on the real registry on every run: harness stream T) -/
example :
    (runOpsS exSo (Reg.new 4)
      [.goc .counter (0, 0), .goc .counter (0, 1), .visit .counter, .get .counter (0, 0), .delete .counter (0, 0),
       .handles .counter, .clear, .visit .counter]).2
    = [.id 0, .id 1, .listing [((0, 0), 0), ((0, 1), 1)], .opt none, .bool false,
       .listing [((0, 0), 1)], .unit, .listing []] := by decide

/-- the same keys filed under their lookup hash: the one-hash model, one storage -/
example :
    (runOpsS { ko := exKo, storeHash := exKo.hash } (Reg.new 4)
      [.goc .counter (0, 0), .goc .counter (0, 1), .visit .counter, .get .counter (0, 0), .delete .counter (0, 0)]).2
    = [.id 0, .id 0, .listing [((0, 0), 0)], .opt (some 0), .bool true] := by decide

/-- `clear_removes_older` is not vacuous: a recorder creates key 1 and is parked inside `op` under the WRITE lock
    of its shard when `clear()` is called (2 storages made so far); `clear` empties shard 0 and waits at shard 1;
    meanwhile another thread registers a key in the already swept shard 0 (storage 2); the recorder leaves; `clear`
    finishes.  The call has returned, the entry made during the call is still registered (ids ≥ 2 may stay), nothing
    older is. -/
example :
    let r0 := (runOps exKo (Reg.new 4) [.goc .counter (2, 0)]).1
    let s0 : LSys (Nat × Nat) :=
      lrun exKo { LSys.init 4 [[.clear], [.goc .counter (1, 0)], [.goc .counter (0, 0)]] with reg := r0 } [1, 1, 1, 0]
    let s1 := lrun exKo s0 [0, 2, 2, 2, 2, 1, 0]
    (s0.threads.map (·.pc) = [.sweep .counter 0, .gocOp 1, .start] ∧ s0.reg.next = 2
      ∧ s1.threads.map (·.pc) = [.done, .done, .done] ∧ visit s1.reg .counter = [((0, 0), 2)]) := by decide

end MetricsVerif.C06
