/-
C17 — span fields become labels with metric > inner span > outer span precedence.

Model: `Model/Tracing.lean` (`MetricsLayer::on_new_span` / `on_record`, `TracingContext::enhance_key`, the label
filters, the registry's per-thread span stack and parent resolution).

The statements below are for ALL programs: any number of spans, any parent relation (contextual, explicit,
root), any field names shared across levels, any later `record()`s, empty spans, any metric label list, any
label filter (an arbitrary Boolean function of metric name, label name, label value), any number of threads.

How the property's words are made precise (definitions in `Proofs/Tracing.lean`, none of which mentions the
insertion-ordered maps the code uses):
* the *history* of a span is the time-ordered list of assignments made by its creation and its `record()`s;
* what a span can *see* is a `Chain`: its own history, then the history its parent had at the moment the
  span was created (a snapshot), and so on outwards — `chainStep` / `runG` maintain exactly that;
* `visibleSpec chain k` looks `k` up in the innermost level that ever assigned it, taking that level's
  latest assignment (inner wins over outer, later `record()` replaces);
* `admitOpt` applies the label filter; the metric's own labels go on top.
-/
import MetricsVerif.Proofs.Tracing
import MetricsVerif.Generated.SourceFacts

namespace MetricsVerif.C17
open MetricsVerif.Tracing

/-- a fresh subscriber: no spans, every thread outside any span -/
def init : State := {}

/-! ## the side-by-side run is the model's run -/

/-- `runG` only adds the histories next to the model state; the state is the model's own `run` -/
theorem runG_state (ops : List Op) : (runG init [] ops).1 = run init ops := runG_fst ops init []

/-! ## how histories evolve (the reading of "fields its ancestors had when each descendant was created") -/

/-- a new span sees its own creation-time assignments, then exactly what its parent saw at that moment;
    no existing span's view changes -/
theorem chain_new_span (s : State) (cs : List Chain) (t : Nat) (p : Parent) (fields : List (Str × Value)) :
    (chainStep s cs (.newSpan t p fields))[cs.length]? = some (rendered fields :: parentChain cs (resolveParent s t p))
    ∧ ∀ i, i < cs.length → (chainStep s cs (.newSpan t p fields))[i]? = cs[i]? := by
  constructor
  · simp [chainStep]
  · intro i hi; simp [chainStep, List.getElem?_append_left hi]

/-- `record()` on a span extends that span's own history and nobody else's: descendants created earlier keep
    the snapshot they took -/
theorem chain_record (s : State) (cs : List Chain) (t id : Nat) (fields : List (Str × Value)) (j : Nat) :
    (chainStep s cs (.record t id fields))[j]?
      = if j = id then (cs[j]?).map (recordChain (rendered fields)) else cs[j]? := by
  simp [chainStep, getElem?_modifyAt]

/-- entering and leaving spans never changes what any span can see -/
theorem chain_enter_exit (s : State) (cs : List Chain) (t id : Nat) :
    chainStep s cs (.enter t id) = cs ∧ chainStep s cs (.exit t id) = cs := ⟨rfl, rfl⟩

/-! ## precedence inside the visible fields -/

/-- an inner level that has assigned `k` decides, whatever the outer levels say -/
theorem inner_wins (lvl : List (Str × Str)) (outer : Chain) (k v : Str) (h : lastAssign lvl k = some v) :
    visibleSpec (lvl :: outer) k = some v := by
  simp [visibleSpec, h]

/-- a level that never assigned `k` lets the next outer level through -/
theorem outer_shows_through (lvl : List (Str × Str)) (outer : Chain) (k : Str) (h : lastAssign lvl k = none) :
    visibleSpec (lvl :: outer) k = visibleSpec outer k := by
  simp [visibleSpec, h]

/-- a later assignment replaces the earlier value of that name and leaves other names alone -/
theorem later_record_replaces (evs : List (Str × Str)) (k v k' : Str) :
    lastAssign (evs ++ [(k, v)]) k = some v
    ∧ (k' ≠ k → lastAssign (evs ++ [(k, v)]) k' = lastAssign evs k') := by
  constructor
  · simp [lastAssign_append, lastAssign]
  · intro h
    have : ¬ k = k' := fun e => h e.symm
    simp [lastAssign_append, lastAssign, this]

/-- on the model: after `record()` of `fields` on a span the span shows the recorded values, and its previous
    values for every name not recorded -/
theorem record_replaces_on_span (m : FMap) (fields : List (Str × Value)) (k : Str) :
    FMap.get? (extendFromLabelsOverwrite m (fromRecord fields)) k
      = (lastAssign (rendered fields) k).or (FMap.get? m k) := get?_record m fields k

/-! ## the span maps of the code hold exactly the visible fields -/

/-- **Visible fields.**  After any program, the map `MetricsLayer` keeps for span `i` answers every lookup as
    the span's chain of histories says: own assignments (latest first), then those the parent had when the
    span was created, and so on outwards; and it never holds a name twice. -/
theorem span_fields_spec (ops : List Op) :
    let sc := runG init [] ops
    sc.1.spans.length = sc.2.length
    ∧ (∀ (i : Nat) (m : FMap) (c : Chain), sc.1.spans[i]? = some m → sc.2[i]? = some c →
        ∀ k, FMap.get? m k = visibleSpec c k)
    ∧ (∀ m ∈ sc.1.spans, (FMap.keys m).Nodup) := by
  have h := agree_runG ops (s := init) (cs := []) agree_init
  refine ⟨h.1, h.2, ?_⟩
  rw [runG_state]
  exact nodupKeys_run ops nodupKeys_init

/-! ## emission -/

/-- what reaches `enhance_key` is the current span's visible fields -/
theorem visibleAt_eq (ops : List Op) (t : Nat) (k : Str) :
    let sc := runG init [] ops
    (match parentLabels sc.1 (current sc.1 t) with | some pl => FMap.get? pl k | none => none)
      = visibleAt sc.1 sc.2 t k :=
  parentLabels_agree (agree_runG ops (s := init) (cs := []) agree_init) _ k

/-- **Precedence metric > inner > outer, as a lookup.**  After any program, for a metric with distinct own
    label names emitted on thread `t`, the key handed to the inner recorder maps every name `k` to: the
    metric's own value for `k` if it has one; otherwise the value visible for `k` from the current span of
    `t` (innermost span that assigned it, latest record), provided the filter admits that label; otherwise
    nothing. -/
theorem emit_lookup (ops : List Op) (f : Filter) (t : Nat) (name : Str) (labels : List (Str × Str))
    (hl : (FMap.keys labels).Nodup) (k : Str) :
    let sc := runG init [] ops
    FMap.get? (emit sc.1 f t name labels) k
      = (FMap.get? labels k).or (admitOpt f name k (visibleAt sc.1 sc.2 t k)) := by
  intro sc
  have hv := visibleAt_eq ops t k
  have hnd : NodupKeys sc.1 := by
    show NodupKeys (runG init [] ops).1
    rw [runG_state]; exact nodupKeys_run ops nodupKeys_init
  simp only [] at hv
  rw [← hv]
  simp only [emit, enhanceKey]
  cases hp : parentLabels sc.1 (current sc.1 t) with
  | none => simp [admitOpt]
  | some m =>
    have hmem : m ∈ sc.1.spans := by
      cases hc : current sc.1 t with
      | none => rw [hc] at hp; simp [parentLabels] at hp
      | some id =>
        rw [hc] at hp
        simp only [parentLabels] at hp
        exact List.mem_of_getElem? hp
    by_cases he : m.isEmpty
    · have : m = [] := List.isEmpty_iff.mp he
      subst this
      simp [admitOpt]
    · simp only [if_neg he, Option.getD_some]
      rw [get?_enhanceLabels f name (hnd m hmem), lastAssign_eq_get?_of_nodup hl]

/-- **No repeated label name.**  Given distinct label names on the metric itself, the resulting key never
    contains a label name twice — after any program, for any filter. -/
theorem emit_no_duplicate_names (ops : List Op) (f : Filter) (t : Nat) (name : Str) (labels : List (Str × Str))
    (hl : (FMap.keys labels).Nodup) :
    (FMap.keys (emit (run init ops) f t name labels)).Nodup := by
  have hnd : NodupKeys (run init ops) := nodupKeys_run ops nodupKeys_init
  simp only [emit, enhanceKey]
  cases hp : parentLabels (run init ops) (current (run init ops) t) with
  | none => simpa using hl
  | some m =>
    have hmem : m ∈ (run init ops).spans := by
      cases hc : current (run init ops) t with
      | none => rw [hc] at hp; simp [parentLabels] at hp
      | some id =>
        rw [hc] at hp
        simp only [parentLabels] at hp
        exact List.mem_of_getElem? hp
    by_cases he : m.isEmpty
    · simpa [he] using hl
    · simp only [if_neg he, Option.getD_some]
      exact nodup_enhanceLabels f name (hnd m hmem) labels

/-- **The label set.**  Given distinct own label names, a pair `(k, v)` is a label of the resulting key iff it
    is one of the metric's own labels, or the metric has no label named `k` and `v` is the admitted visible
    value of span field `k`.  (Together with `emit_no_duplicate_names` this determines the key's label set.) -/
theorem emit_label_set (ops : List Op) (f : Filter) (t : Nat) (name : Str) (labels : List (Str × Str))
    (hl : (FMap.keys labels).Nodup) (k v : Str) :
    let sc := runG init [] ops
    (k, v) ∈ emit sc.1 f t name labels
      ↔ (k, v) ∈ labels ∨ (k ∉ FMap.keys labels ∧ admitOpt f name k (visibleAt sc.1 sc.2 t k) = some v) := by
  intro sc
  have hnd : (FMap.keys (emit sc.1 f t name labels)).Nodup := by
    show (FMap.keys (emit (runG init [] ops).1 f t name labels)).Nodup
    rw [runG_state]; exact emit_no_duplicate_names ops f t name labels hl
  rw [FMap.mem_iff_get? hnd, FMap.mem_iff_get? hl, emit_lookup ops f t name labels hl k]
  cases hg : FMap.get? labels k with
  | some w =>
    have : k ∈ FMap.keys labels := FMap.mem_keys_of_get? hg
    simp [this]
  | none =>
    have : k ∉ FMap.keys labels := by
      intro hm
      obtain ⟨w, hw⟩ := get?_isSome_of_mem_keys hm
      rw [hw] at hg; cases hg
    simp [this, sc]

/-- **The exact key (order included).**  After any program, when the current span of `t` holds at least one
    field, the label list handed to the inner recorder is: the admitted fields of that span's map in the map's
    order, each carrying the metric's own value where the metric has a label of that name, followed by the
    metric's remaining labels in their own order. -/
theorem emit_exact (ops : List Op) (f : Filter) (t : Nat) (name : Str) (labels : List (Str × Str))
    (hl : (FMap.keys labels).Nodup) (m : FMap)
    (hp : parentLabels (run init ops) (current (run init ops) t) = some m) (hne : m ≠ []) :
    emit (run init ops) f t name labels
      = (m.filter (admits f name)).map (overrideBy labels) ++ labels.filter (notIn (m.filter (admits f name))) := by
  have hnd : NodupKeys (run init ops) := nodupKeys_run ops nodupKeys_init
  have hmem : m ∈ (run init ops).spans := by
    cases hc : current (run init ops) t with
    | none => rw [hc] at hp; simp [parentLabels] at hp
    | some id =>
      rw [hc] at hp
      simp only [parentLabels] at hp
      exact List.mem_of_getElem? hp
  have he : ¬ m.isEmpty = true := by
    intro h; exact hne (List.isEmpty_iff.mp h)
  simp only [emit, enhanceKey, hp, if_neg he, Option.getD_some]
  exact enhanceLabels_eq f name (hnd m hmem) labels hl

/-- **Unchanged without a current span** — in any state, for any label list (even one that repeats a name) -/
theorem emit_unchanged_no_span (s : State) (f : Filter) (t : Nat) (name : Str) (labels : List (Str × Str))
    (h : current s t = none) : emit s f t name labels = labels := by
  simp [emit, enhanceKey, h, parentLabels]

/-- **Unchanged without fields** — after any program, if nothing is visible from the current span (it and the
    ancestors' snapshots never assigned anything: empty spans, only `Empty` placeholders), the key is the
    metric's own, for any label list -/
theorem emit_unchanged_no_fields (ops : List Op) (f : Filter) (t : Nat) (name : Str) (labels : List (Str × Str)) :
    let sc := runG init [] ops
    (∀ k, visibleAt sc.1 sc.2 t k = none) → emit sc.1 f t name labels = labels := by
  intro sc h
  simp only [emit, enhanceKey]
  cases hp : parentLabels sc.1 (current sc.1 t) with
  | none => rfl
  | some m =>
    have hm : ∀ k, FMap.get? m k = none := by
      intro k
      have hv := visibleAt_eq ops t k
      simp only [] at hv
      have hp' : parentLabels (runG init [] ops).1 (current (runG init [] ops).1 t) = some m := hp
      rw [hp'] at hv
      simp only [] at hv
      rw [hv]; exact h k
    have : m = [] := (FMap.get?_isNone_iff_all m).mp hm
    subst this
    rfl

/-! ## other threads -/

/-- an emission on thread `t` reads nothing but `t`'s own stack and the span store -/
theorem emit_frame (s₁ s₂ : State) (f : Filter) (t : Nat) (name : Str) (labels : List (Str × Str))
    (hs : s₁.spans = s₂.spans) (ht : s₁.stacks t = s₂.stacks t) :
    emit s₁ f t name labels = emit s₂ f t name labels := by
  simp [emit, enhanceKey, current, parentLabels, hs, ht]

/-- **Independence from other threads' spans.**  Whatever the *other* threads do — create spans (with any
    parent), enter and exit spans in any order, record on any span other than `t`'s current one — the key a
    metric gets on thread `t` is the same as if they had done nothing.  (A `record()` on `t`'s own current span
    is excluded because it changes that span, not because of who calls it.) -/
theorem emit_indep_other_threads (s : State) (hwf : WF s) (t : Nat) (ops : List Op)
    (hops : ∀ op ∈ ops, opThread op ≠ t ∧ ¬ recordsOn (current s t) op)
    (f : Filter) (name : Str) (labels : List (Str × Str)) :
    emit (run s ops) f t name labels = emit s f t name labels := by
  induction ops generalizing s with
  | nil => rfl
  | cons op ops ih =>
    have h1 := hops op (by simp)
    have hst := step_other_thread hwf t op h1.1 h1.2
    have hcur : current (step s op) t = current s t := by simp [current, hst.1]
    have := ih (step s op) (wf_step hwf op) (by
      intro o ho
      have := hops o (by simp [ho])
      rw [hcur]; exact this)
    simp only [run, List.foldl_cons] at this ⊢
    rw [this]
    simp only [emit, enhanceKey, hcur, hst.2]

/-- the same, from a fresh subscriber: any prefix program, then any activity of the other threads -/
theorem emit_indep_other_threads_reachable (pre ops : List Op) (t : Nat)
    (hops : ∀ op ∈ ops, opThread op ≠ t ∧ ¬ recordsOn (current (run init pre) t) op)
    (f : Filter) (name : Str) (labels : List (Str × Str)) :
    emit (run init (pre ++ ops)) f t name labels = emit (run init pre) f t name labels := by
  have := emit_indep_other_threads (run init pre) (wf_run pre wf_init) t ops hops f name labels
  simpa [run, List.foldl_append] using this

/-! ## the filters of the crate -/

theorem includeAll_admits (name k v : Str) : Filter.includeAll.shouldInclude name k v = true := rfl

theorem allowlist_admits_iff (names : List Str) (name k v : Str) :
    (Filter.allowlist names).shouldInclude name k v = true ↔ k ∈ names := by
  simp [Filter.shouldInclude]

/-! ### names are bytes: the allow-list for arbitrary UTF-8 names

The code compares Rust strings, i.e. UTF-8 byte sequences (`HashSet<String>::contains(&str)`); the model compares
code-point lists.  `utf8_inj` makes the two the same question, and the statements below say what the property's
"allow-list = the listed names" means for names of any script: byte-for-byte identity with a listed name and
nothing else — in particular no length (in bytes or in characters) of any name on the list plays a role. -/

/-- two names have the same UTF-8 bytes iff they are the same code points -/
theorem utf8_inj (a b : Str) : utf8 a = utf8 b ↔ a = b := by
  constructor
  · intro h
    exact String.ofList_injective (String.toByteArray_inj.mp h)
  · intro h; rw [h]

/-- **`Allowlist` admits exactly the listed names, byte for byte**: a label is admitted iff the bytes of its name
    are the bytes of some listed name — whatever the metric, the value, the other names on the list, and the
    lengths of any of them -/
theorem allowlist_admits_iff_bytes (names : List Str) (name k v : Str) :
    (Filter.allowlist names).shouldInclude name k v = true ↔ ∃ n ∈ names, utf8 n = utf8 k := by
  simp [Filter.shouldInclude, utf8_inj]

/-- the decision for `k` depends on nothing but whether `k` itself is listed: adding or removing OTHER names
    (longer, shorter, of another script) never changes it -/
theorem allowlist_indep_of_other_names (names names' : List Str) (name name' k v v' : Str)
    (h : k ∈ names ↔ k ∈ names') :
    (Filter.allowlist names).shouldInclude name k v = (Filter.allowlist names').shouldInclude name' k v' := by
  have h1 := allowlist_admits_iff names name k v
  have h2 := allowlist_admits_iff names' name' k v'
  cases e1 : (Filter.allowlist names).shouldInclude name k v <;>
    cases e2 : (Filter.allowlist names').shouldInclude name' k v' <;> simp_all

/-- a character takes at least one byte: `chars().count() ≤ len()` for every name -/
theorem charLen_le_byteLen (s : Str) : charLen s ≤ byteLen s := by
  induction s with
  | nil => simp [charLen]
  | cons c r ih =>
    simp only [charLen, byteLen, utf8, String.toByteArray_ofList] at ih ⊢
    rw [List.utf8Encode_cons, ByteArray.size_append, List.utf8Encode_singleton]
    have : 1 ≤ (String.utf8EncodeChar c).toByteArray.size := by
      simp
      exact Char.utf8Size_pos c
    simp only [List.length_cons]
    omega

/-- … and the two lengths do differ, so a bound taken in one unit must not be compared with a length taken in
    the other: there are allow-lists with a listed (hence admitted) name whose byte length exceeds the character
    count of EVERY listed name.  Any shortcut of the form "reject when `key.len()` is above the largest
    `chars().count()` of the list" therefore rejects a label the property requires. -/
theorem char_count_bound_unsound :
    ∃ (names : List Str) (k : Str), k ∈ names
      ∧ (∀ name v, (Filter.allowlist names).shouldInclude name k v = true)
      ∧ ∀ n ∈ names, charLen n < byteLen k := by
  refine ⟨[['r', 'é', 'g', 'i', 'o', 'n'], ['e', 'n', 'v']], ['r', 'é', 'g', 'i', 'o', 'n'], by simp, ?_, by decide⟩
  intro name v
  simp [Filter.shouldInclude]

/-- a bound in the SAME unit is harmless: every listed name lies between the smallest and the largest byte
    length of the list (so the only sound length shortcut is one in bytes, and it changes no decision) -/
theorem byte_length_bound_sound (names : List Str) (k : Str) (h : k ∈ names) :
    (names.map byteLen).foldl min (byteLen k) ≤ byteLen k ∧ byteLen k ≤ (names.map byteLen).foldl max 0 := by
  constructor
  · generalize byteLen k = b
    have : ∀ (l : List Nat) (a : Nat), a ≤ b → l.foldl min a ≤ b := by
      intro l
      induction l with
      | nil => intro a ha; simpa using ha
      | cons x r ih => intro a ha; exact ih (min a x) (by omega)
    exact this _ b (Nat.le_refl b)
  · have : ∀ (l : List Str) (a : Nat), (k ∈ l ∨ byteLen k ≤ a) → byteLen k ≤ (l.map byteLen).foldl max a := by
      intro l
      induction l with
      | nil => intro a ha; simpa using ha
      | cons x r ih =>
        intro a ha
        simp only [List.map_cons, List.foldl_cons]
        apply ih
        rcases ha with ha | ha
        · rcases List.mem_cons.mp ha with e | e
          · right; subst e; omega
          · left; exact e
        · right; omega
    exact this names 0 (Or.inl h)

/-- **Emission under an allow-list**, for names of any script: after any program, the key handed to the inner
    recorder maps `k` to the metric's own value if it has one; otherwise to the value visible for `k` from the
    current span iff `k` is byte-for-byte one of the listed names; otherwise to nothing. -/
theorem emit_allowlist_lookup (ops : List Op) (names : List Str) (t : Nat) (name : Str) (labels : List (Str × Str))
    (hl : (FMap.keys labels).Nodup) (k : Str) :
    let sc := runG init [] ops
    FMap.get? (emit sc.1 (.allowlist names) t name labels) k
      = (FMap.get? labels k).or (if ∃ n ∈ names, utf8 n = utf8 k then visibleAt sc.1 sc.2 t k else none) := by
  intro sc
  have h := emit_lookup ops (.allowlist names) t name labels hl k
  simp only [] at h
  rw [h]
  congr 1
  cases hv : visibleAt (runG init [] ops).1 (runG init [] ops).2 t k with
  | none => simp [admitOpt]
  | some w =>
    have hb := allowlist_admits_iff_bytes names name k w
    by_cases hm : ∃ n ∈ names, utf8 n = utf8 k
    · simp [admitOpt, hm, hb.mpr hm]
    · have : (Filter.allowlist names).shouldInclude name k w = false := by
        cases e : (Filter.allowlist names).shouldInclude name k w
        · rfl
        · exact absurd (hb.mp e) hm
      simp [admitOpt, hm, this]

/-! ## the object pool: maps of closed spans are reused, and it never shows

`Labels::default()` does not build a map, it pulls one out of a process-wide pool into which the maps of closed
spans (of any thread, of any subscriber) and the temporaries of `record()` are handed back.  The statements
above read "a new span starts from an empty map"; here that is proved of the pooled code, for ALL programs
with any closings in any places. -/

/-- a fresh process: fresh subscriber, nothing in the pool -/
def pinit : PState := {}

/-- **Pool invariant.**  After any program (spans created, recorded on, entered, left, closed in any order)
    every free map of the pool is empty. -/
theorem pool_clean (ops : List POp) : ∀ m ∈ (prun pinit ops).pool, m = [] :=
  (prun_of_clean ops (p := pinit) (by intro m hm; simp [pinit] at hm)).1

/-- **Closed spans leave no trace.**  The subscriber state after any program with closings is the state of the
    same program without them, in the pool-free reading every theorem above is about. -/
theorem pooled_run_base (ops : List POp) : (prun pinit ops).base = run init (baseOps ops) := by
  have h := (prun_of_clean ops (p := pinit) (by intro m hm; simp [pinit] at hm)).2
  rw [h, baseStep_foldl]; rfl

/-- the same from any state whose pool is clean (e.g. a pool filled by another subscriber's closed spans) -/
theorem pooled_run_base_from (p : PState) (h : PoolClean p) (ops : List POp) :
    (prun p ops).base = run p.base (baseOps ops) ∧ PoolClean (prun p ops) := by
  have h' := prun_of_clean ops h
  exact ⟨by rw [h'.2, baseStep_foldl], h'.1⟩

/-- **The pool across subscribers.**  When a subscriber goes away after any program, all its open spans hand
    their maps back; the pool the next subscriber (of any thread) finds is clean again, so
    `pooled_run_base_from` applies to it. -/
theorem pool_clean_after_drop (ops : List POp) : ∀ m ∈ poolAfterDrop (prun pinit ops), m = [] :=
  poolAfterDrop_clean (prun_of_clean ops (p := pinit) (by intro m hm; simp [pinit] at hm)).1

/-- **A span created after any history starts from its own fields.**  Whatever was created, recorded and
    closed before, the map stored for a new span is its own fields followed by what its parent shows. -/
theorem pooled_new_span_fresh (ops : List POp) (t : Nat) (par : Parent) (fields : List (Str × Value)) :
    let p := prun pinit ops
    (pstep p (.base (.newSpan t par fields))).base.spans
      = p.base.spans ++ [newSpanLabels fields (parentLabels p.base (resolveParent p.base t par))] := by
  intro p
  have hc : PoolClean p := (prun_of_clean ops (p := pinit) (by intro m hm; simp [pinit] at hm)).1
  rw [(pstep_of_clean hc _).2]
  rfl

/-- **Emission after closings.**  The key handed to the inner recorder after any program with closings obeys
    the lookup rule of `emit_lookup` on the program without them: own label, else admitted visible field. -/
theorem pooled_emit_lookup (ops : List POp) (f : Filter) (t : Nat) (name : Str) (labels : List (Str × Str))
    (hl : (FMap.keys labels).Nodup) (k : Str) :
    let sc := runG init [] (baseOps ops)
    FMap.get? (emit (prun pinit ops).base f t name labels) k
      = (FMap.get? labels k).or (admitOpt f name k (visibleAt sc.1 sc.2 t k)) := by
  intro sc
  rw [pooled_run_base, ← runG_state]
  exact emit_lookup (baseOps ops) f t name labels hl k

/-- **Unchanged without fields, after closings**: stale labels of finished spans never reach a key -/
theorem pooled_emit_unchanged_no_fields (ops : List POp) (f : Filter) (t : Nat) (name : Str)
    (labels : List (Str × Str)) :
    let sc := runG init [] (baseOps ops)
    (∀ k, visibleAt sc.1 sc.2 t k = none) → emit (prun pinit ops).base f t name labels = labels := by
  intro sc h
  rw [pooled_run_base, ← runG_state]
  exact emit_unchanged_no_fields (baseOps ops) f t name labels h

/-- the invariant is what carries these: from a pool holding a non-empty free map the code does show stale
    labels (a root span without fields comes out with the leftover), so a `reset` callback that leaves
    entries behind breaks the property -/
theorem dirty_pool_leaks :
    (pstep { pool := [[(['a'], ['x'])]] } (.base (.newSpan 0 .root []))).base.spans = [[(['a'], ['x'])]] := by
  decide

/-- a subscriber without a `MetricsLayer`: every key is handed on unchanged -/
theorem emit_unchanged_no_layer (s : State) (f : Filter) (t : Nat) (name : Str) (labels : List (Str × Str)) :
    emitCfg false s f t name labels = labels ∧ emitCfg true s f t name labels = emit s f t name labels :=
  ⟨rfl, rfl⟩

/-! ## registry slots: the id of a closed span is reused, and it never shows

`Model/Tracing` § registry slots stores every `Labels` in the registry slot of its span and reads it back through
the slot (`rLookup`), with closed spans freeing their slot for later spans. -/

/-- what ties the two readings together: the slot of every live span holds that span's map, and no two live spans
    share a slot -/
def RInv (r : RState) : Prop :=
  (∀ id, liveR r id = true → r.ext (r.slotOf id) = r.base.spans[id]?) ∧
  (∀ i j, liveR r i = true → liveR r j = true → r.slotOf i = r.slotOf j → i = j)

theorem liveR_iff (r : RState) (id : Nat) : liveR r id = true ↔ id < r.base.spans.length ∧ id ∉ r.closed := by
  simp [liveR]

theorem slotFree_spec {r : RState} {slot : Nat} (h : slotFree r slot = true) (id : Nat) (hl : liveR r id = true) :
    r.slotOf id ≠ slot := by
  simp only [slotFree, List.all_eq_true, List.mem_range] at h
  rw [liveR_iff] at hl
  have := h id hl.1
  intro e
  simp [e, hl.2] at this

theorem rLookup_eq {r : RState} (hi : RInv r) (p : Option Nat)
    (hp : match p with | none => True | some pid => liveR r pid = true) :
    rLookup r p = parentLabels r.base p := by
  cases p with
  | none => rfl
  | some pid => simp only [rLookup, parentLabels]; exact hi.1 pid hp

/-- one legal operation keeps the invariant, and the creation-numbered reading moves as the slot-free model says
    (closing does nothing there) -/
theorem rinv_step {r : RState} (hi : RInv r) (op : ROp) (hl : legal r op = true) :
    RInv (rstep r op) ∧ (rstep r op).base = baseStepOpt r.base op.toBase := by
  cases op with
  | new t par fields slot =>
    simp only [legal, Bool.and_eq_true] at hl
    have hfree := hl.1
    have hpar : rLookup r (resolveParent r.base t par) = parentLabels r.base (resolveParent r.base t par) := by
      apply rLookup_eq hi
      cases h : resolveParent r.base t par with
      | none => trivial
      | some pid => have := hl.2; rw [h] at this; exact this
    have hold : ∀ id, liveR (rstep r (.new t par fields slot)) id = true → id ≠ r.base.spans.length → liveR r id = true := by
      intro id h e
      rw [liveR_iff] at h ⊢
      simp only [rstep, List.length_append, List.length_cons, List.length_nil] at h
      exact ⟨by omega, h.2⟩
    refine ⟨⟨?_, ?_⟩, ?_⟩
    · intro id hlive
      by_cases e : id = r.base.spans.length
      · subst e; simp [rstep]
      · have hlv := hold id hlive e
        have hlt := ((liveR_iff r id).mp hlv).1
        have hne := slotFree_spec hfree id hlv
        simp only [rstep, if_neg e, if_neg hne]
        rw [hi.1 id hlv, List.getElem?_append_left hlt]
    · intro i j hli hlj hs
      simp only [rstep] at hs
      by_cases ei : i = r.base.spans.length <;> by_cases ej : j = r.base.spans.length
      · omega
      · have hne := slotFree_spec hfree j (hold j hlj ej)
        simp [ei, ej] at hs; exact absurd hs.symm hne
      · have hne := slotFree_spec hfree i (hold i hli ei)
        simp [ei, ej] at hs; exact absurd hs hne
      · simp [ei, ej] at hs
        exact hi.2 i j (hold i hli ei) (hold j hlj ej) hs
    · simp only [rstep, ROp.toBase, baseStepOpt, step, onNewSpan, hpar]
  | record t id fields =>
    simp only [legal] at hl
    have hold : ∀ j, liveR (rstep r (.record t id fields)) j = true → liveR r j = true := by
      intro j h
      rw [liveR_iff] at h ⊢
      simpa [rstep, length_modifyAt] using h
    refine ⟨⟨?_, ?_⟩, ?_⟩
    · intro j hlive
      have hlj := hold j hlive
      simp only [rstep]
      by_cases e : j = id
      · subst e
        simp only [if_true, getElem?_modifyAt]
        rw [hi.1 j hlj]
      · have hne : r.slotOf j ≠ r.slotOf id := fun h => e (hi.2 j id hlj hl h)
        simp only [if_neg hne, getElem?_modifyAt, if_neg e]
        exact hi.1 j hlj
    · intro i j hli hlj hs
      exact hi.2 i j (hold i hli) (hold j hlj) hs
    · simp only [rstep, ROp.toBase, baseStepOpt, step, onRecord]; rfl
  | enter t id =>
    have hsp : (step r.base (.enter t id)).spans = r.base.spans := by
      simp only [step]; split <;> simp [setStack]
    have hold : ∀ j, liveR (rstep r (.enter t id)) j = true → liveR r j = true := by
      intro j h
      rw [liveR_iff] at h ⊢
      simpa [rstep, hsp] using h
    refine ⟨⟨?_, ?_⟩, rfl⟩
    · intro j hlive
      simp only [rstep, hsp]
      exact hi.1 j (hold j hlive)
    · intro i j hli hlj hs
      exact hi.2 i j (hold i hli) (hold j hlj) hs
  | exit t id =>
    have hsp : (step r.base (.exit t id)).spans = r.base.spans := by
      simp [step, setStack]
    have hold : ∀ j, liveR (rstep r (.exit t id)) j = true → liveR r j = true := by
      intro j h
      rw [liveR_iff] at h ⊢
      simpa [rstep, hsp] using h
    refine ⟨⟨?_, ?_⟩, rfl⟩
    · intro j hlive
      simp only [rstep, hsp]
      exact hi.1 j (hold j hlive)
    · intro i j hli hlj hs
      exact hi.2 i j (hold i hli) (hold j hlj) hs
  | close id =>
    simp only [rstep]
    by_cases hc : liveR r id = true
    · simp only [if_pos hc]
      have hold : ∀ j, liveR { r with closed := id :: r.closed, ext := fun s => if s = r.slotOf id then none else r.ext s } j = true
          → liveR r j = true ∧ j ≠ id := by
        intro j h
        rw [liveR_iff] at h ⊢
        simp only [List.mem_cons, not_or] at h
        exact ⟨⟨h.1, h.2.2⟩, h.2.1⟩
      refine ⟨⟨?_, ?_⟩, rfl⟩
      · intro j hlive
        have ⟨hlj, hne⟩ := hold j hlive
        have hsl : r.slotOf j ≠ r.slotOf id := fun h => hne (hi.2 j id hlj hc h)
        simp only [if_neg hsl]
        exact hi.1 j hlj
      · intro i j hli hlj hs
        exact hi.2 i j (hold i hli).1 (hold j hlj).1 hs
    · simp only [hc]
      exact ⟨hi, rfl⟩

def rinit : RState := {}

def rrun (r : RState) (ops : List ROp) : RState := ops.foldl rstep r

/-- every operation of the program is legal at the moment it is made -/
def legalRun (r : RState) : List ROp → Bool
  | [] => true
  | op :: ops => legal r op && legalRun (rstep r op) ops

def baseOpsR (ops : List ROp) : List Op := ops.filterMap ROp.toBase

theorem rinv_init : RInv rinit := by
  constructor
  · intro id h; simp [liveR, rinit] at h
  · intro i j h; simp [liveR, rinit] at h

/-- the same from any state satisfying the invariant -/
theorem slots_agree_from (r : RState) (hi : RInv r) (ops : List ROp) (h : legalRun r ops = true) :
    (rrun r ops).base = run r.base (baseOpsR ops) ∧ RInv (rrun r ops) := by
  induction ops generalizing r with
  | nil => exact ⟨rfl, hi⟩
  | cons op ops ih =>
    simp only [legalRun, Bool.and_eq_true] at h
    have hs := rinv_step hi op h.1
    have := ih (rstep r op) hs.1 h.2
    simp only [rrun, List.foldl_cons] at this ⊢
    refine ⟨?_, this.2⟩
    rw [this.1, hs.2]
    cases hb : op.toBase with
    | none => simp [baseOpsR, hb, baseStepOpt]
    | some o => simp [baseOpsR, hb, baseStepOpt, run]

/-- **Registry id reuse does not show.**  After any program in which spans close and their registry slots are handed
    to later spans — any slot no live span occupies, in any order, across threads — the creation-numbered state is
    the one of the slot-free model on the same program without the closings (so every theorem above applies), and
    the slot of every live span holds exactly that span's map: nothing of the slot's previous tenant. -/
theorem slots_agree (ops : List ROp) (h : legalRun rinit ops = true) :
    (rrun rinit ops).base = run init (baseOpsR ops) ∧ RInv (rrun rinit ops) := by
  have := slots_agree_from rinit rinv_init ops h
  exact this

/-- **Emission through a reused slot.**  The key of a metric emitted on thread `t`, its current span's labels being
    read from the registry slot the span lives in (possibly the slot of spans that closed earlier), is the key
    `emit` of the slot-free model gives — hence obeys `emit_lookup` / `emit_label_set` / `emit_exact`.  (The
    current span is alive: its stack entry holds a reference.) -/
theorem slot_emit_eq (ops : List ROp) (h : legalRun rinit ops = true) (f : Filter) (t : Nat) (name : Str)
    (labels : List (Str × Str))
    (hc : ∀ c, current (rrun rinit ops).base t = some c → liveR (rrun rinit ops) c = true) :
    rEmit (rrun rinit ops) f t name labels = emit (run init (baseOpsR ops)) f t name labels := by
  have ha := slots_agree ops h
  have hl : rLookup (rrun rinit ops) (current (rrun rinit ops).base t)
      = parentLabels (rrun rinit ops).base (current (rrun rinit ops).base t) := by
    apply rLookup_eq ha.2
    cases hcur : current (rrun rinit ops).base t with
    | none => trivial
    | some c => exact hc c hcur
  simp only [rEmit, hl, emit, enhanceKey, ← ha.1]
  cases parentLabels (rrun rinit ops).base (current (rrun rinit ops).base t) with
  | none => rfl
  | some m => by_cases e : m.isEmpty <;> simp [e]


/-- the legality premise is what carries this: were a slot handed out while a live span occupies it, that span would
    show the newcomer's labels -/
theorem illegal_slot_reuse_leaks :
    rEmit (rrun rinit [.new 0 .root [(['a'], .str ['x'])] 0, .enter 0 0, .new 0 .root [(['b'], .str ['y'])] 0])
      .includeAll 0 ['m'] [] = [(['b'], ['y'])] := by
  decide

/-! ## other subscriber compositions: a per-layer filter on the `MetricsLayer`, events, `follows_from`

`FState` / `fstep` / `fEmit` (`Model/Tracing`): spans the layer's filter turned down exist in the registry without a
`Labels` extension; an enabled span merges the map of its closest ENABLED ancestor; events and `follows_from` reach no
callback of the layer. -/

def finit : FState := {}

theorem frun_append (f : FState) (a b : List FOp) : frun f (a ++ b) = frun (frun f a) b := by
  simp [frun, List.foldl_append]

/-- **Events and `follows_from` change nothing.**  Removing every `tracing::event!` (with whatever fields, under
    whatever parent) and every `Span::follows_from` from a program leaves the state — every span's labels, every
    thread's stack — exactly as it was; so no later key can depend on them. -/
theorem events_follows_transparent (ops : List FOp) (f : FState) :
    frun f ops = frun f (ops.filter (fun op => !op.silent)) := by
  induction ops generalizing f with
  | nil => rfl
  | cons op r ih =>
    cases op <;> simp [frun, FOp.silent, List.filter, fstep] <;> exact ih _

/-- one step of the filtered subscriber is the translated step(s) of the unfiltered model -/
theorem fstep_base (f : FState) (op : FOp) : (fstep f op).base = run f.base (ftransOp f op) := by
  cases op with
  | new t par fields en =>
    cases en with
    | true =>
      cases h : labelParent f t par <;>
        simp [fstep, ftransOp, run, step, onNewSpan, resolveParent, optParent, h]
    | false => simp [fstep, ftransOp, run, step, onNewSpan, resolveParent, parentLabels, newSpanLabels, fromRecord]
  | record t id fields =>
    by_cases h : isHidden f id <;> simp [fstep, ftransOp, run, h]
  | enter t id => simp [fstep, ftransOp, run]
  | exit t id => simp [fstep, ftransOp, run]
  | event t par fields => simp [fstep, ftransOp, run]
  | followsFrom a b => simp [fstep, ftransOp, run]

/-- **Every state a filtered subscriber reaches is a state of the unfiltered model** — reached by the translated
    program (`ftrans`: enabled spans created under their closest enabled ancestor, hidden spans as field-less roots,
    records on hidden spans / events / `follows_from` dropped).  Hence every theorem above about `run init ops`
    (precedence, no duplicate names, the label set, …) holds for the keys of a filtered subscriber whenever the
    current span is enabled for the layer (`fil_emit_enabled`). -/
theorem fil_run_is_base_run (ops : List FOp) (f : FState) :
    (frun f ops).base = run f.base (ftrans f ops) := by
  induction ops generalizing f with
  | nil => rfl
  | cons op r ih =>
    show (frun (fstep f op) r).base = run f.base (ftransOp f op ++ ftrans (fstep f op) r)
    rw [ih (fstep f op), fstep_base]
    simp [run, List.foldl_append]

/-- with the current span enabled for the layer the key is the unfiltered model's key in the translated program -/
theorem fil_emit_enabled (ops : List FOp) (flt : Filter) (t c : Nat) (name : Str) (labels : List (Str × Str))
    (hc : current (frun finit ops).base t = some c) (he : isHidden (frun finit ops) c = false) :
    fEmit (frun finit ops) flt t name labels = emit (run init (ftrans finit ops)) flt t name labels := by
  have hb : (frun finit ops).base = run init (ftrans finit ops) := fil_run_is_base_run ops finit
  simp only [fEmit, hc, he]
  rw [hb]
  simp

/-- … in particular it never repeats a label name (distinct own names given) -/
theorem fil_emit_no_duplicate_names (ops : List FOp) (flt : Filter) (t : Nat) (name : Str) (labels : List (Str × Str))
    (hl : (FMap.keys labels).Nodup) :
    (FMap.keys (fEmit (frun finit ops) flt t name labels)).Nodup := by
  have hb : (frun finit ops).base = run init (ftrans finit ops) := fil_run_is_base_run ops finit
  simp only [fEmit]
  cases hc : current (frun finit ops).base t with
  | none => simpa using hl
  | some c =>
    by_cases he : isHidden (frun finit ops) c
    · simpa [he] using hl
    · simp only [he]
      rw [hb]
      exact emit_no_duplicate_names (ftrans finit ops) flt t name labels hl

/-- **Inside a span the layer's filter turned down the key is unchanged** — whatever its enabled ancestors carry:
    `current_span()` is the hidden span, it has no `Labels`, `enhance_key` gives up -/
theorem fil_hidden_current_unchanged (f : FState) (flt : Filter) (t c : Nat) (name : Str) (labels : List (Str × Str))
    (hc : current f.base t = some c) (hh : isHidden f c = true) : fEmit f flt t name labels = labels := by
  simp [fEmit, hc, hh]

/-- a hidden span never has labels, and `record()` on it changes nothing anywhere -/
theorem fil_hidden_no_labels (f : FState) (id t : Nat) (fields : List (Str × Value)) (hh : isHidden f id = true) :
    fLabels f id = none ∧ fstep f (.record t id fields) = f := by
  simp [fLabels, fstep, hh]

/-- **A subscriber whose filter turns nothing down is the plain model**: same spans, same stacks, same keys -/
theorem fil_no_hidden_eq (ops : List Op) :
    (frun finit (ops.map FOp.ofOp)).base = run init ops ∧ (frun finit (ops.map FOp.ofOp)).hidden = [] := by
  suffices h : ∀ (f : FState), f.hidden = [] →
      (frun f (ops.map FOp.ofOp)).base = run f.base ops ∧ (frun f (ops.map FOp.ofOp)).hidden = [] from h finit rfl
  induction ops with
  | nil => intro f hf; exact ⟨rfl, hf⟩
  | cons op r ih =>
    intro f hf
    have hlp : ∀ t par, parentLabels f.base (labelParent f t par) = parentLabels f.base (resolveParent f.base t par) := by
      intro t par
      simp only [labelParent]
      cases hrp : resolveParent f.base t par with
      | none => cases f.base.spans.length <;> simp [enabledFrom]
      | some p =>
        cases hn : f.base.spans.length with
        | zero =>
          have : f.base.spans = [] := List.eq_nil_of_length_eq_zero hn
          simp [enabledFrom, parentLabels, this]
        | succ n => simp [enabledFrom, isHidden, hf]
    have hstep : (fstep f (FOp.ofOp op)).base = step f.base op ∧ (fstep f (FOp.ofOp op)).hidden = [] := by
      cases op with
      | newSpan t par fields => simp [FOp.ofOp, fstep, step, onNewSpan, hlp, hf]
      | record t id fields => simp [FOp.ofOp, fstep, isHidden, hf]
      | enter t id => simp [FOp.ofOp, fstep, hf]
      | exit t id => simp [FOp.ofOp, fstep, hf]
    have := ih (fstep f (FOp.ofOp op)) hstep.2
    simp only [List.map_cons, frun, List.foldl_cons, run] at this ⊢
    rw [hstep.1] at this
    exact this

/-- … and emits the plain model's keys -/
theorem fil_no_hidden_emit (ops : List Op) (flt : Filter) (t : Nat) (name : Str) (labels : List (Str × Str)) :
    fEmit (frun finit (ops.map FOp.ofOp)) flt t name labels = emit (run init ops) flt t name labels := by
  obtain ⟨hb, hh⟩ := fil_no_hidden_eq ops
  simp only [fEmit, isHidden, hh, hb]
  cases hc : current (run init ops) t with
  | none => simp [emit_unchanged_no_span _ _ _ _ _ hc]
  | some c => simp

/-- **The property's full wording is FALSE of a filtered layer** (witness, replayed on the real crates by the harness
    corpus "per-layer filter: emission inside a hidden span"): outer span `a = 1` enabled and entered, inner span
    hidden and entered; the metric is emitted "inside tracing spans", the ancestor's field `a` was there when the
    inner span was created — and the key has no label.  The provable part is `fil_emit_enabled`. -/
theorem fil_hidden_drops_ancestor_fields :
    let ops : List FOp := [.new 0 .contextual [(['a'], .u64 1)] true, .enter 0 0, .new 0 .contextual [] false, .enter 0 1]
    fEmit (frun finit ops) .includeAll 0 ['m'] [] = []
    ∧ fLabels (frun finit ops) 0 = some [(['a'], ['1'])]
    ∧ (frun finit ops).parents = [none, some 0] := by
  decide

/-! ## source facts: what ties the model's shape to the text of the crate -/

/-- the pool is built with `Map::new` / `Map::clear` (`poolInit` / `poolReset`), `Labels::default()` pulls
    from it and `from_record` starts from `Labels::default()` -/
theorem src_pool :
    Generated.tracing_pool_callbacks = ["Map::new", "Map::clear"]
    ∧ Generated.tracing_labels_default = "{Labels(get_pool().pull_owned())}"
    ∧ Generated.tracing_from_record = "{letmutlabels=Labels::default();record.record(&mutlabels);labels}" := by
  decide

/-- `Labels::extend` walks ALL of `other`; the keep variant is `entry().or_insert_with`, the overwrite variant
    `insert`; every `Visit` arm inserts under the field's name -/
theorem src_extend :
    Generated.tracing_extend_loop = ["for(k,v)inother.as_ref()", "{f(&mutself.0,k,v);}"]
    ∧ Generated.tracing_extend_keep = "{map.entry(k.clone()).or_insert_with(||v.clone());}"
    ∧ Generated.tracing_extend_overwrite = "{map.insert(k.clone(),v.clone());}"
    ∧ Generated.tracing_visit_fns
        = ["record_str:insert", "record_bool:insert", "record_i64:insert", "record_u64:insert", "record_debug:insert"] := by
  decide

/-- call order of the two subscriber callbacks and of the lookup `enhance_key` goes through -/
theorem src_layer_calls :
    Generated.tracing_on_new_span_calls = ["from_record", "parent", "get", "extend_from_labels", "insert"]
    ∧ Generated.tracing_on_record_calls = ["from_record", "get_mut", "extend_from_labels_overwrite", "insert"]
    ∧ Generated.tracing_lookup_calls = ["downcast_ref", "span", "extensions", "f", "get"]
    ∧ Generated.tracing_with_labels
        = "{letmutff=|labels:&Labels|f(labels.0.clone());(self.with_labels?)(dispatch,id,&mutff)}" := by
  decide

/-- `enhance_key`: filter (`retain` with the metric's name and the label) BEFORE the metric's own labels are
    put on top (`extend`) -/
theorem src_enhance_key :
    Generated.tracing_enhance_key_calls
      = ["get_default", "current_span", "id", "downcast_ref", "is_empty", "then", "into_parts", "retain",
         "should_include_label", "extend", "from_parts", "with_labels"]
    ∧ Generated.tracing_enhance_filter_args = ["&name", "&label"] := by
  decide

set_option maxRecDepth 8192 in
/-- every `register_*` registers the ENHANCED key (the original one only when `enhance_key` gave none) with
    the caller's metadata at the inner recorder and returns the inner recorder's handle; every `describe_*`
    is handed on untouched -/
theorem src_recorder_forwards :
    Generated.tracing_recorder_fns
      = ["describe_counter:{self.inner.describe_counter(key_name,unit,description)}",
         "describe_gauge:{self.inner.describe_gauge(key_name,unit,description)}",
         "describe_histogram:{self.inner.describe_histogram(key_name,unit,description)}",
         "register_counter:{letnew_key=self.enhance_key(key);letkey=new_key.as_ref().unwrap_or(key);self.inner.register_counter(key,metadata)}",
         "register_gauge:{letnew_key=self.enhance_key(key);letkey=new_key.as_ref().unwrap_or(key);self.inner.register_gauge(key,metadata)}",
         "register_histogram:{letnew_key=self.enhance_key(key);letkey=new_key.as_ref().unwrap_or(key);self.inner.register_histogram(key,metadata)}"] := by
  decide

/-- the crate's two filters: exact membership of the label's name in the set built from the given names
    unchanged; include-all is constantly true -/
theorem src_filters :
    Generated.tracing_allowlist_include = "{self.label_names.contains(label.key())}"
    ∧ Generated.tracing_allowlist_new = "{Self{label_names:allowed.into_iter().map(|s|s.as_ref().to_string()).collect()}}"
    ∧ Generated.tracing_includeall_include = "{true}" := by
  decide

/-- an `Allowlist` holds nothing but the set of names (no bounds, no precomputed lengths that a decision could
    consult besides the set), and the layer constructors hand the names / the include-all filter on untouched -/
theorem src_filter_construction :
    Generated.tracing_allowlist_fields = ["label_names:HashSet<String>"]
    ∧ Generated.tracing_only_allow = "{Self{label_filter:label_filter::Allowlist::new(allowed)}}"
    ∧ Generated.tracing_layer_all = "{Self{label_filter:label_filter::IncludeAll}}" := by
  decide

/-- `MetricsLayer` implements exactly `on_layer`, `on_new_span`, `on_record`: no `on_event`, `on_follows_from`,
    `on_enter`, `on_exit`, `on_close`, `enabled` (the model's `fstep` does nothing on events / `follows_from`); the
    three functions that decide what a key gets make exactly these calls with exactly this control flow (a guard on
    a span's level, name or target would add calls and an `if` / `return` / `?`) -/
theorem src_layer_inventory :
    Generated.tracing_layer_fns = ["on_layer", "on_new_span", "on_record"]
    ∧ Generated.tracing_on_new_span_all_calls
        = ["span", "expect", "from_record", "new", "values", "parent", "extensions", "get", "extend_from_labels",
           "extensions_mut", "insert"]
    ∧ Generated.tracing_on_new_span_ctrl = ["if", "if"]
    ∧ Generated.tracing_on_record_all_calls
        = ["span", "expect", "from_record", "extensions_mut", "get_mut", "extend_from_labels_overwrite", "insert"]
    ∧ Generated.tracing_on_record_ctrl = ["if", "else"]
    ∧ Generated.tracing_on_layer_all_calls = ["downcast_ref", "span", "extensions", "f", "get"]
    ∧ Generated.tracing_on_layer_ctrl = ["?", "?", "?"]
    ∧ Generated.tracing_enhance_key_all_calls
        = ["get_default", "current_span", "id", "downcast_ref", "is_empty", "then", "clone", "into_parts", "retain", "new",
           "clone", "clone", "should_include_label", "extend", "into_iter", "map", "into_iter", "map", "new", "from_parts",
           "with_labels"]
    ∧ Generated.tracing_enhance_key_ctrl = ["?", "?"] := by
  decide

/-- the whole body of every `Visit` arm: the VALUE stored is the full `value` (`to_owned`, `itoa`, `{value:?}` without
    width / precision / truncation), `Value.render` of the model -/
theorem src_visit_values :
    Generated.tracing_visit_bodies
      = ["record_str:{self.0.insert(field.name().into(),value.to_owned().into());}",
         "record_bool:{self.0.insert(field.name().into(),ifvalue{\"true\"}else{\"false\"}.into());}",
         "record_i64:{letmutbuf=itoa::Buffer::new();lets=buf.format(value);self.0.insert(field.name().into(),s.to_owned().into());}",
         "record_u64:{letmutbuf=itoa::Buffer::new();lets=buf.format(value);self.0.insert(field.name().into(),s.to_owned().into());}",
         "record_debug:{self.0.insert(field.name().into(),format!(\"{value:?}\").into());}"] := by
  decide

/-! ## non-vacuity: concrete programs -/

section examples

private def A : Str := ['a']
private def B : Str := ['b']
private def C : Str := ['c']
private def M : Str := ['m']

/-- outer{a=oa,b=ob,c=oc} ⊃ inner{a=ia,b=(empty, recorded later as 7)}; a record on the outer span after the
    inner one exists; metric label a=ma -/
private def prog : List Op :=
  [ .newSpan 0 .contextual [(A, .str ['o', 'a']), (B, .str ['o', 'b']), (C, .str ['o', 'c'])],
    .enter 0 0,
    .newSpan 0 .contextual [(A, .str ['i', 'a']), (B, .empty)],
    .enter 0 1,
    .record 0 0 [(C, .str ['l', 'a', 't', 'e'])],
    .record 0 1 [(B, .bool true)] ]

example : emit (run init prog) .includeAll 0 M [(A, ['m', 'a'])]
    = [(A, ['m', 'a']), (B, ['t', 'r', 'u', 'e']), (C, ['o', 'c'])] := by decide

example : emit (run init prog) (.allowlist [C]) 0 M [(A, ['m', 'a'])] = [(C, ['o', 'c']), (A, ['m', 'a'])] := by decide

/-- after leaving the inner span the late record on the outer span is visible -/
example : emit (run init (prog ++ [.exit 0 1])) .includeAll 0 M []
    = [(A, ['o', 'a']), (B, ['o', 'b']), (C, ['l', 'a', 't', 'e'])] := by decide

/-- another thread is outside every span -/
example : emit (run init prog) .includeAll 1 M [(A, ['m', 'a'])] = [(A, ['m', 'a'])] := by decide

/-- the histories of the example: the inner span kept the snapshot `c = oc` -/
example : (runG init [] prog).2 =
    [ [[(A, ['o', 'a']), (B, ['o', 'b']), (C, ['o', 'c']), (C, ['l', 'a', 't', 'e'])]],
      [[(A, ['i', 'a']), (B, ['t', 'r', 'u', 'e'])], [(A, ['o', 'a']), (B, ['o', 'b']), (C, ['o', 'c'])]] ] := by decide

/-- the hypotheses of `emit_indep_other_threads` are satisfiable by a non-trivial activity of thread 1 -/
example : ∀ op ∈ ([.newSpan 1 (.explicit 1) [(A, .u64 5)], .enter 1 2, .record 1 0 [(A, .i64 (-1))], .exit 1 2] : List Op),
    opThread op ≠ 0 ∧ ¬ recordsOn (current (run init prog) 0) op := by
  intro op h
  simp only [List.mem_cons, List.mem_nil_iff, or_false] at h
  rcases h with h | h | h | h <;> subst h <;> refine ⟨by decide, ?_⟩ <;> simp [recordsOn] <;> decide

/-- a key with a repeated own name does get a repeated name when nothing is visible (hence the hypothesis of
    `emit_no_duplicate_names`), and loses the repetition as soon as a field is visible -/
example : emit init .includeAll 0 M [(A, ['1']), (A, ['2'])] = [(A, ['1']), (A, ['2'])] := by decide
example : emit (run init prog) .includeAll 0 M [(A, ['1']), (A, ['2'])]
    = [(A, ['2']), (B, ['t', 'r', 'u', 'e']), (C, ['o', 'c'])] := by decide

/-- names outside ASCII: `région` is 6 characters and 7 bytes, `地域` 2 and 6, the decomposed `région` 7 and 8 -/
private def REGION : Str := ['r', 'é', 'g', 'i', 'o', 'n']
private def REGION_NFD : Str := ['r', 'e', '\u0301', 'g', 'i', 'o', 'n']
private def CHIIKI : Str := ['地', '域']

example : charLen REGION = 6 ∧ byteLen REGION = 7 ∧ charLen CHIIKI = 2 ∧ byteLen CHIIKI = 6
    ∧ charLen REGION_NFD = 7 ∧ byteLen REGION_NFD = 8 := by decide

example : (utf8 REGION).data.toList = [0x72, 0xC3, 0xA9, 0x67, 0x69, 0x6F, 0x6E]
    ∧ (utf8 CHIIKI).data.toList = [0xE5, 0x9C, 0xB0, 0xE5, 0x9F, 0x9F] := by decide

/-- the single CJK name is admitted; the longest, multi-byte name of a list is admitted; its undecorated and its
    decomposed spelling are different names -/
example : emit (run init [.newSpan 0 .contextual [(CHIIKI, .str ['k']), (A, .str ['v'])], .enter 0 0])
    (.allowlist [CHIIKI]) 0 M [] = [(CHIIKI, ['k'])] := by decide
example : emit (run init [.newSpan 0 .contextual [(REGION, .str ['e', 'u']), (REGION_NFD, .str ['x']), (B, .u64 1)], .enter 0 0])
    (.allowlist [REGION, B]) 0 M [] = [(REGION, ['e', 'u']), (B, ['1'])] := by decide
example : (Filter.allowlist [REGION, B]).shouldInclude M REGION_NFD [] = false
    ∧ (Filter.allowlist [REGION, B]).shouldInclude M ['r', 'e', 'g', 'i', 'o', 'n'] [] = false := by decide

/-- wide-stack leaf closes, its map goes back to the pool; the next span (no fields, root) is empty and a metric
    inside it keeps its key; the pool holds the two maps handed back (the record temporary and the leaf's) -/
private def pprog : List POp :=
  [ .base (.newSpan 0 .contextual [(A, .str ['o', 'a']), (B, .str ['o', 'b'])]),
    .base (.enter 0 0),
    .base (.newSpan 0 .contextual [(C, .u64 7)]),
    .base (.record 0 1 [(C, .i64 (-1))]),
    .close 1,
    .base (.exit 0 0),
    .base (.newSpan 0 .root []),
    .base (.enter 0 2) ]

example : (prun pinit pprog).base.spans[2]? = some [] := by decide
example : emit (prun pinit pprog).base .includeAll 0 M [(A, ['m'])] = [(A, ['m'])] := by decide
example : (prun pinit pprog).closed = [1] ∧ (prun pinit pprog).pool = [[]] := by decide
example : pinned (prun pinit pprog) 4 0 = false ∧ pinned (prun pinit (pprog.take 4)) 4 0 = true := by decide

/-- span 0 closes, span 1 takes its slot 0 (a reuse), span 2 a fresh slot; a record on the reused slot -/
private def rprog : List ROp :=
  [ .new 0 .contextual [(A, .str ['o', 'l', 'd']), (B, .str ['o', 'b'])] 0,
    .enter 0 0, .exit 0 0, .close 0,
    .new 0 .contextual [(C, .u64 7)] 0,
    .enter 0 1,
    .new 0 .contextual [(A, .str ['n', 'e', 'w'])] 1,
    .record 0 1 [(C, .i64 (-1))],
    .enter 0 2 ]

example : legalRun rinit rprog = true := by decide
example : rEmit (rrun rinit rprog) .includeAll 0 M [] = [(A, ['n', 'e', 'w']), (C, ['7'])] := by decide
example : (rrun rinit rprog).ext 0 = some [(C, ['-', '1'])] ∧ (rrun rinit rprog).slotOf 1 = 0 := by decide


/-! filtered layer: a child of a hidden span inherits from the closest enabled ancestor AS IT IS when the child is
    created (the record on span 0 made after the hidden span 1 was created is seen by span 2) -/
def fprog : List FOp :=
  [.new 0 .contextual [(A, .str ['o']), (B, .empty)] true, .enter 0 0,
   .new 0 .contextual [(C, .u64 9)] false, .enter 0 1,
   .record 0 0 [(B, .str ['l', 'a', 't', 'e'])],
   .record 0 1 [(C, .u64 10)],
   .event 0 .contextual [(A, .str ['e', 'v'])],
   .new 0 .contextual [(C, .i64 (-1))] true, .followsFrom 2 0, .enter 0 2]

example : fLabels (frun finit fprog) 2 = some [(C, ['-', '1']), (A, ['o']), (B, ['l', 'a', 't', 'e'])] := by decide
example : fLabels (frun finit fprog) 1 = none := by decide
example : fEmit (frun finit fprog) .includeAll 0 M [(A, ['m'])] = [(C, ['-', '1']), (A, ['m']), (B, ['l', 'a', 't', 'e'])] := by
  decide
example : fEmit (frun finit (fprog ++ [.exit 0 2])) .includeAll 0 M [(A, ['m'])] = [(A, ['m'])] := by decide
example : ftrans finit fprog =
    [.newSpan 0 .root [(A, .str ['o']), (B, .empty)], .enter 0 0, .newSpan 0 .root [], .enter 0 1,
     .record 0 0 [(B, .str ['l', 'a', 't', 'e'])], .newSpan 0 (.explicit 0) [(C, .i64 (-1))], .enter 0 2] := by rfl

end examples

end MetricsVerif.C17
