/-
C17 — span fields become labels with metric > inner span > outer span precedence.

Model: `Model/Tracing.lean` (`MetricsLayer::on_new_span` / `on_record`, `TracingContext::enhance_key`, the label
filters, the registry's per-thread span stack and parent resolution).

The statements below are for ALL programs: any number of spans, any parent relation (contextual, explicit,
root), any field names shared across levels, any later `record()`s, empty spans, any metric label list, any
label filter (an arbitrary Boolean function of metric name, label name, label value), any number of threads.

How the property's words are made precise (definitions in `Proofs/Tracing.lean`, none of which mentions the
insertion-ordered maps the code uses):
* the *history* of a span is the time-ordered list of assignments made by its creation and its `record()`s;
* what a span can *see* is a `Chain`: its own history, then the history its parent had at the moment the
  span was created (a snapshot), and so on outwards — `chainStep` / `runG` maintain exactly that;
* `visibleSpec chain k` looks `k` up in the innermost level that ever assigned it, taking that level's
  latest assignment (inner wins over outer, later `record()` replaces);
* `admitOpt` applies the label filter; the metric's own labels go on top.
-/
import MetricsVerif.Proofs.Tracing
import MetricsVerif.Generated.SourceFacts

namespace MetricsVerif.C17
open MetricsVerif.Tracing

/-- a fresh subscriber: no spans, every thread outside any span -/
def init : State := {}

/-! ## the side-by-side run is the model's run -/

/-- `runG` only adds the histories next to the model state; the state is the model's own `run` -/
theorem runG_state (ops : List Op) : (runG init [] ops).1 = run init ops := runG_fst ops init []

/-! ## how histories evolve (the reading of "fields its ancestors had when each descendant was created") -/

/-- a new span sees its own creation-time assignments, then exactly what its parent saw at that moment;
    no existing span's view changes -/
theorem chain_new_span (s : State) (cs : List Chain) (t : Nat) (p : Parent) (fields : List (Str × Value)) :
    (chainStep s cs (.newSpan t p fields))[cs.length]? = some (rendered fields :: parentChain cs (resolveParent s t p))
    ∧ ∀ i, i < cs.length → (chainStep s cs (.newSpan t p fields))[i]? = cs[i]? := by
  constructor
  · simp [chainStep]
  · intro i hi; simp [chainStep, List.getElem?_append_left hi]

/-- `record()` on a span extends that span's own history and nobody else's: descendants created earlier keep
    the snapshot they took -/
theorem chain_record (s : State) (cs : List Chain) (t id : Nat) (fields : List (Str × Value)) (j : Nat) :
    (chainStep s cs (.record t id fields))[j]?
      = if j = id then (cs[j]?).map (recordChain (rendered fields)) else cs[j]? := by
  simp [chainStep, getElem?_modifyAt]

/-- entering and leaving spans never changes what any span can see -/
theorem chain_enter_exit (s : State) (cs : List Chain) (t id : Nat) :
    chainStep s cs (.enter t id) = cs ∧ chainStep s cs (.exit t id) = cs := ⟨rfl, rfl⟩

/-! ## precedence inside the visible fields -/

/-- an inner level that has assigned `k` decides, whatever the outer levels say -/
theorem inner_wins (lvl : List (Str × Str)) (outer : Chain) (k v : Str) (h : lastAssign lvl k = some v) :
    visibleSpec (lvl :: outer) k = some v := by
  simp [visibleSpec, h]

/-- a level that never assigned `k` lets the next outer level through -/
theorem outer_shows_through (lvl : List (Str × Str)) (outer : Chain) (k : Str) (h : lastAssign lvl k = none) :
    visibleSpec (lvl :: outer) k = visibleSpec outer k := by
  simp [visibleSpec, h]

/-- a later assignment replaces the earlier value of that name and leaves other names alone -/
theorem later_record_replaces (evs : List (Str × Str)) (k v k' : Str) :
    lastAssign (evs ++ [(k, v)]) k = some v
    ∧ (k' ≠ k → lastAssign (evs ++ [(k, v)]) k' = lastAssign evs k') := by
  constructor
  · simp [lastAssign_append, lastAssign]
  · intro h
    have : ¬ k = k' := fun e => h e.symm
    simp [lastAssign_append, lastAssign, this]

/-- on the model: after `record()` of `fields` on a span the span shows the recorded values, and its previous
    values for every name not recorded -/
theorem record_replaces_on_span (m : FMap) (fields : List (Str × Value)) (k : Str) :
    FMap.get? (extendFromLabelsOverwrite m (fromRecord fields)) k
      = (lastAssign (rendered fields) k).or (FMap.get? m k) := get?_record m fields k

/-! ## the span maps of the code hold exactly the visible fields -/

/-- **Visible fields.**  After any program, the map `MetricsLayer` keeps for span `i` answers every lookup as
    the span's chain of histories says: own assignments (latest first), then those the parent had when the
    span was created, and so on outwards; and it never holds a name twice. -/
theorem span_fields_spec (ops : List Op) :
    let sc := runG init [] ops
    sc.1.spans.length = sc.2.length
    ∧ (∀ (i : Nat) (m : FMap) (c : Chain), sc.1.spans[i]? = some m → sc.2[i]? = some c →
        ∀ k, FMap.get? m k = visibleSpec c k)
    ∧ (∀ m ∈ sc.1.spans, (FMap.keys m).Nodup) := by
  have h := agree_runG ops (s := init) (cs := []) agree_init
  refine ⟨h.1, h.2, ?_⟩
  rw [runG_state]
  exact nodupKeys_run ops nodupKeys_init

/-! ## emission -/

/-- what reaches `enhance_key` is the current span's visible fields -/
theorem visibleAt_eq (ops : List Op) (t : Nat) (k : Str) :
    let sc := runG init [] ops
    (match parentLabels sc.1 (current sc.1 t) with | some pl => FMap.get? pl k | none => none)
      = visibleAt sc.1 sc.2 t k :=
  parentLabels_agree (agree_runG ops (s := init) (cs := []) agree_init) _ k

/-- **Precedence metric > inner > outer, as a lookup.**  After any program, for a metric with distinct own
    label names emitted on thread `t`, the key handed to the inner recorder maps every name `k` to: the
    metric's own value for `k` if it has one; otherwise the value visible for `k` from the current span of
    `t` (innermost span that assigned it, latest record), provided the filter admits that label; otherwise
    nothing. -/
theorem emit_lookup (ops : List Op) (f : Filter) (t : Nat) (name : Str) (labels : List (Str × Str))
    (hl : (FMap.keys labels).Nodup) (k : Str) :
    let sc := runG init [] ops
    FMap.get? (emit sc.1 f t name labels) k
      = (FMap.get? labels k).or (admitOpt f name k (visibleAt sc.1 sc.2 t k)) := by
  intro sc
  have hv := visibleAt_eq ops t k
  have hnd : NodupKeys sc.1 := by
    show NodupKeys (runG init [] ops).1
    rw [runG_state]; exact nodupKeys_run ops nodupKeys_init
  simp only [] at hv
  rw [← hv]
  simp only [emit, enhanceKey]
  cases hp : parentLabels sc.1 (current sc.1 t) with
  | none => simp [admitOpt]
  | some m =>
    have hmem : m ∈ sc.1.spans := by
      cases hc : current sc.1 t with
      | none => rw [hc] at hp; simp [parentLabels] at hp
      | some id =>
        rw [hc] at hp
        simp only [parentLabels] at hp
        exact List.mem_of_getElem? hp
    by_cases he : m.isEmpty
    · have : m = [] := List.isEmpty_iff.mp he
      subst this
      simp [admitOpt]
    · simp only [if_neg he, Option.getD_some]
      rw [get?_enhanceLabels f name (hnd m hmem), lastAssign_eq_get?_of_nodup hl]

/-- **No repeated label name.**  Given distinct label names on the metric itself, the resulting key never
    contains a label name twice — after any program, for any filter. -/
theorem emit_no_duplicate_names (ops : List Op) (f : Filter) (t : Nat) (name : Str) (labels : List (Str × Str))
    (hl : (FMap.keys labels).Nodup) :
    (FMap.keys (emit (run init ops) f t name labels)).Nodup := by
  have hnd : NodupKeys (run init ops) := nodupKeys_run ops nodupKeys_init
  simp only [emit, enhanceKey]
  cases hp : parentLabels (run init ops) (current (run init ops) t) with
  | none => simpa using hl
  | some m =>
    have hmem : m ∈ (run init ops).spans := by
      cases hc : current (run init ops) t with
      | none => rw [hc] at hp; simp [parentLabels] at hp
      | some id =>
        rw [hc] at hp
        simp only [parentLabels] at hp
        exact List.mem_of_getElem? hp
    by_cases he : m.isEmpty
    · simpa [he] using hl
    · simp only [if_neg he, Option.getD_some]
      exact nodup_enhanceLabels f name (hnd m hmem) labels

/-- **The label set.**  Given distinct own label names, a pair `(k, v)` is a label of the resulting key iff it
    is one of the metric's own labels, or the metric has no label named `k` and `v` is the admitted visible
    value of span field `k`.  (Together with `emit_no_duplicate_names` this determines the key's label set.) -/
theorem emit_label_set (ops : List Op) (f : Filter) (t : Nat) (name : Str) (labels : List (Str × Str))
    (hl : (FMap.keys labels).Nodup) (k v : Str) :
    let sc := runG init [] ops
    (k, v) ∈ emit sc.1 f t name labels
      ↔ (k, v) ∈ labels ∨ (k ∉ FMap.keys labels ∧ admitOpt f name k (visibleAt sc.1 sc.2 t k) = some v) := by
  intro sc
  have hnd : (FMap.keys (emit sc.1 f t name labels)).Nodup := by
    show (FMap.keys (emit (runG init [] ops).1 f t name labels)).Nodup
    rw [runG_state]; exact emit_no_duplicate_names ops f t name labels hl
  rw [FMap.mem_iff_get? hnd, FMap.mem_iff_get? hl, emit_lookup ops f t name labels hl k]
  cases hg : FMap.get? labels k with
  | some w =>
    have : k ∈ FMap.keys labels := FMap.mem_keys_of_get? hg
    simp [this]
  | none =>
    have : k ∉ FMap.keys labels := by
      intro hm
      obtain ⟨w, hw⟩ := get?_isSome_of_mem_keys hm
      rw [hw] at hg; cases hg
    simp [this, sc]

/-- **The exact key (order included).**  After any program, when the current span of `t` holds at least one
    field, the label list handed to the inner recorder is: the admitted fields of that span's map in the map's
    order, each carrying the metric's own value where the metric has a label of that name, followed by the
    metric's remaining labels in their own order. -/
theorem emit_exact (ops : List Op) (f : Filter) (t : Nat) (name : Str) (labels : List (Str × Str))
    (hl : (FMap.keys labels).Nodup) (m : FMap)
    (hp : parentLabels (run init ops) (current (run init ops) t) = some m) (hne : m ≠ []) :
    emit (run init ops) f t name labels
      = (m.filter (admits f name)).map (overrideBy labels) ++ labels.filter (notIn (m.filter (admits f name))) := by
  have hnd : NodupKeys (run init ops) := nodupKeys_run ops nodupKeys_init
  have hmem : m ∈ (run init ops).spans := by
    cases hc : current (run init ops) t with
    | none => rw [hc] at hp; simp [parentLabels] at hp
    | some id =>
      rw [hc] at hp
      simp only [parentLabels] at hp
      exact List.mem_of_getElem? hp
  have he : ¬ m.isEmpty = true := by
    intro h; exact hne (List.isEmpty_iff.mp h)
  simp only [emit, enhanceKey, hp, if_neg he, Option.getD_some]
  exact enhanceLabels_eq f name (hnd m hmem) labels hl

/-- **Unchanged without a current span** — in any state, for any label list (even one that repeats a name) -/
theorem emit_unchanged_no_span (s : State) (f : Filter) (t : Nat) (name : Str) (labels : List (Str × Str))
    (h : current s t = none) : emit s f t name labels = labels := by
  simp [emit, enhanceKey, h, parentLabels]

/-- **Unchanged without fields** — after any program, if nothing is visible from the current span (it and the
    ancestors' snapshots never assigned anything: empty spans, only `Empty` placeholders), the key is the
    metric's own, for any label list -/
theorem emit_unchanged_no_fields (ops : List Op) (f : Filter) (t : Nat) (name : Str) (labels : List (Str × Str)) :
    let sc := runG init [] ops
    (∀ k, visibleAt sc.1 sc.2 t k = none) → emit sc.1 f t name labels = labels := by
  intro sc h
  simp only [emit, enhanceKey]
  cases hp : parentLabels sc.1 (current sc.1 t) with
  | none => rfl
  | some m =>
    have hm : ∀ k, FMap.get? m k = none := by
      intro k
      have hv := visibleAt_eq ops t k
      simp only [] at hv
      have hp' : parentLabels (runG init [] ops).1 (current (runG init [] ops).1 t) = some m := hp
      rw [hp'] at hv
      simp only [] at hv
      rw [hv]; exact h k
    have : m = [] := (FMap.get?_isNone_iff_all m).mp hm
    subst this
    rfl

/-! ## other threads -/

/-- an emission on thread `t` reads nothing but `t`'s own stack and the span store -/
theorem emit_frame (s₁ s₂ : State) (f : Filter) (t : Nat) (name : Str) (labels : List (Str × Str))
    (hs : s₁.spans = s₂.spans) (ht : s₁.stacks t = s₂.stacks t) :
    emit s₁ f t name labels = emit s₂ f t name labels := by
  simp [emit, enhanceKey, current, parentLabels, hs, ht]

/-- **Independence from other threads' spans.**  Whatever the *other* threads do — create spans (with any
    parent), enter and exit spans in any order, record on any span other than `t`'s current one — the key a
    metric gets on thread `t` is the same as if they had done nothing.  (A `record()` on `t`'s own current span
    is excluded because it changes that span, not because of who calls it.) -/
theorem emit_indep_other_threads (s : State) (hwf : WF s) (t : Nat) (ops : List Op)
    (hops : ∀ op ∈ ops, opThread op ≠ t ∧ ¬ recordsOn (current s t) op)
    (f : Filter) (name : Str) (labels : List (Str × Str)) :
    emit (run s ops) f t name labels = emit s f t name labels := by
  induction ops generalizing s with
  | nil => rfl
  | cons op ops ih =>
    have h1 := hops op (by simp)
    have hst := step_other_thread hwf t op h1.1 h1.2
    have hcur : current (step s op) t = current s t := by simp [current, hst.1]
    have := ih (step s op) (wf_step hwf op) (by
      intro o ho
      have := hops o (by simp [ho])
      rw [hcur]; exact this)
    simp only [run, List.foldl_cons] at this ⊢
    rw [this]
    simp only [emit, enhanceKey, hcur, hst.2]

/-- the same, from a fresh subscriber: any prefix program, then any activity of the other threads -/
theorem emit_indep_other_threads_reachable (pre ops : List Op) (t : Nat)
    (hops : ∀ op ∈ ops, opThread op ≠ t ∧ ¬ recordsOn (current (run init pre) t) op)
    (f : Filter) (name : Str) (labels : List (Str × Str)) :
    emit (run init (pre ++ ops)) f t name labels = emit (run init pre) f t name labels := by
  have := emit_indep_other_threads (run init pre) (wf_run pre wf_init) t ops hops f name labels
  simpa [run, List.foldl_append] using this

/-! ## the filters of the crate -/

theorem includeAll_admits (name k v : Str) : Filter.includeAll.shouldInclude name k v = true := rfl

theorem allowlist_admits_iff (names : List Str) (name k v : Str) :
    (Filter.allowlist names).shouldInclude name k v = true ↔ k ∈ names := by
  simp [Filter.shouldInclude]

/-! ## the object pool: maps of closed spans are reused, and it never shows

`Labels::default()` does not build a map, it pulls one out of a process-wide pool into which the maps of closed
spans (of any thread, of any subscriber) and the temporaries of `record()` are handed back.  The statements
above read "a new span starts from an empty map"; here that is proved of the pooled code, for ALL programs
with any closings in any places. -/

/-- a fresh process: fresh subscriber, nothing in the pool -/
def pinit : PState := {}

/-- **Pool invariant.**  After any program (spans created, recorded on, entered, left, closed in any order)
    every free map of the pool is empty. -/
theorem pool_clean (ops : List POp) : ∀ m ∈ (prun pinit ops).pool, m = [] :=
  (prun_of_clean ops (p := pinit) (by intro m hm; simp [pinit] at hm)).1

/-- **Closed spans leave no trace.**  The subscriber state after any program with closings is the state of the
    same program without them, in the pool-free reading every theorem above is about. -/
theorem pooled_run_base (ops : List POp) : (prun pinit ops).base = run init (baseOps ops) := by
  have h := (prun_of_clean ops (p := pinit) (by intro m hm; simp [pinit] at hm)).2
  rw [h, baseStep_foldl]; rfl

/-- the same from any state whose pool is clean (e.g. a pool filled by another subscriber's closed spans) -/
theorem pooled_run_base_from (p : PState) (h : PoolClean p) (ops : List POp) :
    (prun p ops).base = run p.base (baseOps ops) ∧ PoolClean (prun p ops) := by
  have h' := prun_of_clean ops h
  exact ⟨by rw [h'.2, baseStep_foldl], h'.1⟩

/-- **The pool across subscribers.**  When a subscriber goes away after any program, all its open spans hand
    their maps back; the pool the next subscriber (of any thread) finds is clean again, so
    `pooled_run_base_from` applies to it. -/
theorem pool_clean_after_drop (ops : List POp) : ∀ m ∈ poolAfterDrop (prun pinit ops), m = [] :=
  poolAfterDrop_clean (prun_of_clean ops (p := pinit) (by intro m hm; simp [pinit] at hm)).1

/-- **A span created after any history starts from its own fields.**  Whatever was created, recorded and
    closed before, the map stored for a new span is its own fields followed by what its parent shows. -/
theorem pooled_new_span_fresh (ops : List POp) (t : Nat) (par : Parent) (fields : List (Str × Value)) :
    let p := prun pinit ops
    (pstep p (.base (.newSpan t par fields))).base.spans
      = p.base.spans ++ [newSpanLabels fields (parentLabels p.base (resolveParent p.base t par))] := by
  intro p
  have hc : PoolClean p := (prun_of_clean ops (p := pinit) (by intro m hm; simp [pinit] at hm)).1
  rw [(pstep_of_clean hc _).2]
  rfl

/-- **Emission after closings.**  The key handed to the inner recorder after any program with closings obeys
    the lookup rule of `emit_lookup` on the program without them: own label, else admitted visible field. -/
theorem pooled_emit_lookup (ops : List POp) (f : Filter) (t : Nat) (name : Str) (labels : List (Str × Str))
    (hl : (FMap.keys labels).Nodup) (k : Str) :
    let sc := runG init [] (baseOps ops)
    FMap.get? (emit (prun pinit ops).base f t name labels) k
      = (FMap.get? labels k).or (admitOpt f name k (visibleAt sc.1 sc.2 t k)) := by
  intro sc
  rw [pooled_run_base, ← runG_state]
  exact emit_lookup (baseOps ops) f t name labels hl k

/-- **Unchanged without fields, after closings**: stale labels of finished spans never reach a key -/
theorem pooled_emit_unchanged_no_fields (ops : List POp) (f : Filter) (t : Nat) (name : Str)
    (labels : List (Str × Str)) :
    let sc := runG init [] (baseOps ops)
    (∀ k, visibleAt sc.1 sc.2 t k = none) → emit (prun pinit ops).base f t name labels = labels := by
  intro sc h
  rw [pooled_run_base, ← runG_state]
  exact emit_unchanged_no_fields (baseOps ops) f t name labels h

/-- the invariant is what carries these: from a pool holding a non-empty free map the code does show stale
    labels (a root span without fields comes out with the leftover), so a `reset` callback that leaves
    entries behind breaks the property -/
theorem dirty_pool_leaks :
    (pstep { pool := [[(['a'], ['x'])]] } (.base (.newSpan 0 .root []))).base.spans = [[(['a'], ['x'])]] := by
  decide

/-- a subscriber without a `MetricsLayer`: every key is handed on unchanged -/
theorem emit_unchanged_no_layer (s : State) (f : Filter) (t : Nat) (name : Str) (labels : List (Str × Str)) :
    emitCfg false s f t name labels = labels ∧ emitCfg true s f t name labels = emit s f t name labels :=
  ⟨rfl, rfl⟩

/-! ## source facts: what ties the model's shape to the text of the crate -/

/-- the pool is built with `Map::new` / `Map::clear` (`poolInit` / `poolReset`), `Labels::default()` pulls
    from it and `from_record` starts from `Labels::default()` -/
theorem src_pool :
    Generated.tracing_pool_callbacks = ["Map::new", "Map::clear"]
    ∧ Generated.tracing_labels_default = "{Labels(get_pool().pull_owned())}"
    ∧ Generated.tracing_from_record = "{letmutlabels=Labels::default();record.record(&mutlabels);labels}" := by
  decide

/-- `Labels::extend` walks ALL of `other`; the keep variant is `entry().or_insert_with`, the overwrite variant
    `insert`; every `Visit` arm inserts under the field's name -/
theorem src_extend :
    Generated.tracing_extend_loop = ["for(k,v)inother.as_ref()", "{f(&mutself.0,k,v);}"]
    ∧ Generated.tracing_extend_keep = "{map.entry(k.clone()).or_insert_with(||v.clone());}"
    ∧ Generated.tracing_extend_overwrite = "{map.insert(k.clone(),v.clone());}"
    ∧ Generated.tracing_visit_fns
        = ["record_str:insert", "record_bool:insert", "record_i64:insert", "record_u64:insert", "record_debug:insert"] := by
  decide

/-- call order of the two subscriber callbacks and of the lookup `enhance_key` goes through -/
theorem src_layer_calls :
    Generated.tracing_on_new_span_calls = ["from_record", "parent", "get", "extend_from_labels", "insert"]
    ∧ Generated.tracing_on_record_calls = ["from_record", "get_mut", "extend_from_labels_overwrite", "insert"]
    ∧ Generated.tracing_lookup_calls = ["downcast_ref", "span", "extensions", "f", "get"]
    ∧ Generated.tracing_with_labels
        = "{letmutff=|labels:&Labels|f(labels.0.clone());(self.with_labels?)(dispatch,id,&mutff)}" := by
  decide

/-- `enhance_key`: filter (`retain` with the metric's name and the label) BEFORE the metric's own labels are
    put on top (`extend`) -/
theorem src_enhance_key :
    Generated.tracing_enhance_key_calls
      = ["get_default", "current_span", "id", "downcast_ref", "is_empty", "then", "into_parts", "retain",
         "should_include_label", "extend", "from_parts", "with_labels"]
    ∧ Generated.tracing_enhance_filter_args = ["&name", "&label"] := by
  decide

set_option maxRecDepth 8192 in
/-- every `register_*` registers the ENHANCED key (the original one only when `enhance_key` gave none) with
    the caller's metadata at the inner recorder and returns the inner recorder's handle; every `describe_*`
    is handed on untouched -/
theorem src_recorder_forwards :
    Generated.tracing_recorder_fns
      = ["describe_counter:{self.inner.describe_counter(key_name,unit,description)}",
         "describe_gauge:{self.inner.describe_gauge(key_name,unit,description)}",
         "describe_histogram:{self.inner.describe_histogram(key_name,unit,description)}",
         "register_counter:{letnew_key=self.enhance_key(key);letkey=new_key.as_ref().unwrap_or(key);self.inner.register_counter(key,metadata)}",
         "register_gauge:{letnew_key=self.enhance_key(key);letkey=new_key.as_ref().unwrap_or(key);self.inner.register_gauge(key,metadata)}",
         "register_histogram:{letnew_key=self.enhance_key(key);letkey=new_key.as_ref().unwrap_or(key);self.inner.register_histogram(key,metadata)}"] := by
  decide

/-- the crate's two filters: exact membership of the label's name in the set built from the given names
    unchanged; include-all is constantly true -/
theorem src_filters :
    Generated.tracing_allowlist_include = "{self.label_names.contains(label.key())}"
    ∧ Generated.tracing_allowlist_new = "{Self{label_names:allowed.into_iter().map(|s|s.as_ref().to_string()).collect()}}"
    ∧ Generated.tracing_includeall_include = "{true}" := by
  decide

/-! ## non-vacuity: concrete programs -/

section examples

private def A : Str := ['a']
private def B : Str := ['b']
private def C : Str := ['c']
private def M : Str := ['m']

/-- outer{a=oa,b=ob,c=oc} ⊃ inner{a=ia,b=(empty, recorded later as 7)}; a record on the outer span after the
    inner one exists; metric label a=ma -/
private def prog : List Op :=
  [ .newSpan 0 .contextual [(A, .str ['o', 'a']), (B, .str ['o', 'b']), (C, .str ['o', 'c'])],
    .enter 0 0,
    .newSpan 0 .contextual [(A, .str ['i', 'a']), (B, .empty)],
    .enter 0 1,
    .record 0 0 [(C, .str ['l', 'a', 't', 'e'])],
    .record 0 1 [(B, .bool true)] ]

example : emit (run init prog) .includeAll 0 M [(A, ['m', 'a'])]
    = [(A, ['m', 'a']), (B, ['t', 'r', 'u', 'e']), (C, ['o', 'c'])] := by decide

example : emit (run init prog) (.allowlist [C]) 0 M [(A, ['m', 'a'])] = [(C, ['o', 'c']), (A, ['m', 'a'])] := by decide

/-- after leaving the inner span the late record on the outer span is visible -/
example : emit (run init (prog ++ [.exit 0 1])) .includeAll 0 M []
    = [(A, ['o', 'a']), (B, ['o', 'b']), (C, ['l', 'a', 't', 'e'])] := by decide

/-- another thread is outside every span -/
example : emit (run init prog) .includeAll 1 M [(A, ['m', 'a'])] = [(A, ['m', 'a'])] := by decide

/-- the histories of the example: the inner span kept the snapshot `c = oc` -/
example : (runG init [] prog).2 =
    [ [[(A, ['o', 'a']), (B, ['o', 'b']), (C, ['o', 'c']), (C, ['l', 'a', 't', 'e'])]],
      [[(A, ['i', 'a']), (B, ['t', 'r', 'u', 'e'])], [(A, ['o', 'a']), (B, ['o', 'b']), (C, ['o', 'c'])]] ] := by decide

/-- the hypotheses of `emit_indep_other_threads` are satisfiable by a non-trivial activity of thread 1 -/
example : ∀ op ∈ ([.newSpan 1 (.explicit 1) [(A, .u64 5)], .enter 1 2, .record 1 0 [(A, .i64 (-1))], .exit 1 2] : List Op),
    opThread op ≠ 0 ∧ ¬ recordsOn (current (run init prog) 0) op := by
  intro op h
  simp only [List.mem_cons, List.mem_nil_iff, or_false] at h
  rcases h with h | h | h | h <;> subst h <;> refine ⟨by decide, ?_⟩ <;> simp [recordsOn] <;> decide

/-- a key with a repeated own name does get a repeated name when nothing is visible (hence the hypothesis of
    `emit_no_duplicate_names`), and loses the repetition as soon as a field is visible -/
example : emit init .includeAll 0 M [(A, ['1']), (A, ['2'])] = [(A, ['1']), (A, ['2'])] := by decide
example : emit (run init prog) .includeAll 0 M [(A, ['1']), (A, ['2'])]
    = [(A, ['2']), (B, ['t', 'r', 'u', 'e']), (C, ['o', 'c'])] := by decide

/-- wide-stack leaf closes, its map goes back to the pool; the next span (no fields, root) is empty and a metric
    inside it keeps its key; the pool holds the two maps handed back (the record temporary and the leaf's) -/
private def pprog : List POp :=
  [ .base (.newSpan 0 .contextual [(A, .str ['o', 'a']), (B, .str ['o', 'b'])]),
    .base (.enter 0 0),
    .base (.newSpan 0 .contextual [(C, .u64 7)]),
    .base (.record 0 1 [(C, .i64 (-1))]),
    .close 1,
    .base (.exit 0 0),
    .base (.newSpan 0 .root []),
    .base (.enter 0 2) ]

example : (prun pinit pprog).base.spans[2]? = some [] := by decide
example : emit (prun pinit pprog).base .includeAll 0 M [(A, ['m'])] = [(A, ['m'])] := by decide
example : (prun pinit pprog).closed = [1] ∧ (prun pinit pprog).pool = [[]] := by decide
example : pinned (prun pinit pprog) 4 0 = false ∧ pinned (prun pinit (pprog.take 4)) 4 0 = true := by decide

end examples

end MetricsVerif.C17
