/-
C01 — emissions reach exactly the recorder in scope, never one whose scope ended.

Model: `Model/LocalRec.lean` (LOCAL_RECORDER per thread, the table of `LocalRecorderGuard`s with their saved
`prev_recorder`, `with_local_recorder` frames, `with_recorder` dispatch, `set_global_recorder`, the macro arms).
All theorems are about op sequences of ANY length over ANY number of threads (ops carry their thread id),
by the inductive invariant `Proofs/LocalRec.lean: Inv`.

The full property ("any order of guard drops, guards leaked with mem::forget") is FALSE of the code:
`fifo_drop_leaves_stale`, `forget_leaves_stale`, `closure_escape_leaves_stale` (kernel-evaluated witnesses,
replayed on the real code by the harness as known findings K-C01-fifo / K-C01-forget).  What is proved for
all programs is therefore named `…_partial`: it assumes the discipline `disc` — every guard drop (explicit,
closure return, unwinding) closes the newest live guard of its thread and nothing is forgotten.  Every
program built only from `with_local_recorder` closures, at any depth, with panics, satisfies the discipline
(`closures_only_disciplined`).  `thread_isolation` and `delivered_fields` need no discipline.
-/
import MetricsVerif.Proofs.LocalRec
import MetricsVerif.Generated.SourceFacts

namespace MetricsVerif.C01
open MetricsVerif.LocalRec

/-- every state reached by a disciplined program satisfies the invariant -/
theorem reachable_inv (g : Option RecId) (ops : List (Tid × Op)) (h : disc (init g) ops = true) :
    LocalRec.Inv (run (init g) ops) := run_inv ops _ (init_inv g) h

/-- **the stack invariant**: in every state reached by a disciplined program, on every thread, LOCAL_RECORDER
    is the recorder of the newest live guard, each live guard saved the recorder of the live guard below it,
    and the oldest saved "nothing" -/
theorem stack_invariant_partial (g : Option RecId) (ops : List (Tid × Op)) (h : disc (init g) ops = true) (t : Tid) :
    Chain ((run (init g) ops).loc t) (liveGuards (run (init g) ops) t) := (reachable_inv g ops h).chain t

/-- **(a) dispatch to the innermost recorder, exactly once**: after any disciplined program `pre`, a macro call
    on thread `t` makes exactly one recorder call (one entry appended to the log), and it goes to the recorder
    of the newest live installation of THAT thread, else to the global recorder, else to the no-op recorder;
    and that recorder's borrow has not ended -/
theorem dispatch_innermost_partial (g : Option RecId) (pre : List (Tid × Op)) (t : Tid) (c : Call)
    (h : disc (init g) pre = true) :
    (step (run (init g) pre) t (.emit c)).2
        = .emitted { tid := t, target := innermost (run (init g) pre) t, stale := false, call := c }
    ∧ (step (run (init g) pre) t (.emit c)).1.log
        = (run (init g) pre).log ++ [{ tid := t, target := innermost (run (init g) pre) t, stale := false, call := c }] := by
  have hi := reachable_inv g pre h
  have h1 := dispatch_eq_innermost _ t hi
  have h2 := innermost_fresh _ t hi
  unfold step
  simp only [h1, h2, and_self]

/-- the same for an emission anywhere inside a disciplined program -/
theorem dispatch_innermost_anywhere_partial (g : Option RecId) (ops pre post : List (Tid × Op)) (t : Tid) (c : Call)
    (h : disc (init g) ops = true) (e : ops = pre ++ (t, .emit c) :: post) :
    (step (run (init g) pre) t (.emit c)).2
        = .emitted { tid := t, target := innermost (run (init g) pre) t, stale := false, call := c } := by
  rw [e, disc_append] at h
  simp only [Bool.and_eq_true] at h
  exact (dispatch_innermost_partial g pre t c h.1).1

/-- **ending a scope restores the recorder that was in scope before it**: a disciplined explicit drop pops the
    thread's stack; LOCAL_RECORDER becomes the recorder of the guard below (none if there is none) -/
theorem drop_restores_partial (s : St) (t : Tid) (g : GuardId) (h : LocalRec.Inv s)
    (hok : opOk s t (.dropGuard g) = true) (hacc : (step s t (.dropGuard g)).2 = .ok) :
    liveGuards (step s t (.dropGuard g)).1 t = (liveGuards s t).tail
    ∧ (step s t (.dropGuard g)).1.loc t = (liveGuards s t).tail.head?.map Guard.rcd := by
  have ht : topLive s t = some g := by simpa [opOk] using hok
  cases hc : (s.scopes t).contains g with
  | true =>
    have hc' : g ∈ s.scopes t := by simpa using hc
    simp [step, hc'] at hacc
  | false =>
    have hc' : g ∉ s.scopes t := by simpa using hc
    cases hx : findLive s.guards t g with
    | none => simp [step, hc', hx] at hacc
    | some x =>
      have hs : (step s t (.dropGuard g)).1 = dropG s t x := by simp [step, hc', hx]
      rw [hs]
      have := inv_dropG s t g x h ht hx
      refine ⟨this.2, ?_⟩
      have hch := this.1.chain t
      rw [this.2] at hch
      exact chain_loc hch

/-- the same when a `with_local_recorder` closure returns or a panic unwinds through it -/
theorem exit_restores_partial (s : St) (t : Tid) (p : Bool) (h : LocalRec.Inv s)
    (hok : opOk s t (.exit p) = true) (hacc : (step s t (.exit p)).2 = .ok) :
    liveGuards (step s t (.exit p)).1 t = (liveGuards s t).tail
    ∧ (step s t (.exit p)).1.loc t = (liveGuards s t).tail.head?.map Guard.rcd := by
  cases hs : s.scopes t with
  | nil => simp [step, hs] at hacc
  | cons g rest =>
    have ht : topLive s t = some g := by
      have : topLive s t = (s.scopes t).head? := by simpa [opOk] using hok
      rw [this, hs]; rfl
    cases hx : findLive s.guards t g with
    | none => simp [step, hs, hx] at hacc
    | some x =>
      have hst : (step s t (.exit p)).1 = dropG { s with scopes := upd s.scopes t rest } t x := by
        simp [step, hs, hx]
      rw [hst]
      have := inv_dropG { s with scopes := upd s.scopes t rest } t g x (inv_scopes s _ h) ht hx
      refine ⟨this.2, ?_⟩
      have hch := this.1.chain t
      rw [this.2] at hch
      exact chain_loc hch

/-- **(b) no use after scope**: in a disciplined program no emission is ever dispatched to a local recorder
    after the `endBorrow` of that recorder (`Emission.stale` is computed at dispatch time as
    "the target is a local recorder that is in `ended`") -/
theorem no_use_after_scope_partial (g : Option RecId) (ops : List (Tid × Op)) (h : disc (init g) ops = true) :
    ∀ e ∈ (run (init g) ops).log, e.stale = false := (reachable_inv g ops h).fresh

/-- … because in a disciplined program the borrow of every recorder that is still installed is still alive:
    no guard value that exists borrows an ended recorder, and LOCAL_RECORDER is always such a guard's recorder -/
theorem installed_is_borrowed_partial (g : Option RecId) (ops : List (Tid × Op)) (h : disc (init g) ops = true)
    (t : Tid) (r : RecId) (hl : (run (init g) ops).loc t = some r) :
    (run (init g) ops).ended.contains r = false := by
  have hi := reachable_inv g ops h
  have h1 := dispatch_eq_innermost _ t hi
  have h2 := innermost_fresh _ t hi
  rw [← h1] at h2
  unfold dispatch at h2
  rw [hl] at h2
  exact h2

/-- for ALL programs (no discipline): the model never accepts an `endBorrow r` while a guard value borrowing
    `r` exists, nor an installation of an ended recorder — in every reachable state no existing guard value
    borrows an ended recorder.  This is the sense in which the witnesses below are "borrow-checker-legal":
    the stale recorder is reachable only through LOCAL_RECORDER, never through a guard the program still owns -/
theorem borrow_respected (g : Option RecId) (ops : List (Tid × Op)) :
    ∀ x ∈ (run (init g) ops).guards, x.live = true → (run (init g) ops).ended.contains x.rcd = false :=
  (base_run ops _ ⟨(init_inv g).wf, (init_inv g).nle⟩).nle

/-- **(c) thread isolation** (ALL states, ALL ops — no discipline): an op of thread `t` never changes the
    LOCAL_RECORDER of another thread -/
theorem thread_isolation (s : St) (t t' : Tid) (op : Op) (h : t' ≠ t) : (step s t op).1.loc t' = s.loc t' := by
  cases op <;> unfold step <;> simp only
  · split
    · rfl
    · exact upd_other _ _ _ _ h
  · split
    · rfl
    · split
      · exact upd_other _ _ _ _ h
      · rfl
  · split
    · rfl
    · split <;> rfl
  · split <;> rfl
  · split
    · rfl
    · exact upd_other _ _ _ _ h
  · split
    · rfl
    · split
      · exact upd_other _ _ _ _ h
      · rfl
  · split <;> rfl

/-- … so whatever the other threads do (any ops, any order, disciplined or not), thread `t'` keeps its recorder:
    a locally installed recorder is never visible to, or disturbed by, another thread -/
theorem thread_isolation_run (ops : List (Tid × Op)) (t' : Tid) (h : ∀ o ∈ ops, o.1 ≠ t') :
    ∀ s, (run s ops).loc t' = s.loc t' := by
  induction ops with
  | nil => intro s; rfl
  | cons o rest ih =>
    intro s
    rw [run_cons, ih (fun o' ho' => h o' (List.mem_cons_of_mem _ ho'))]
    exact thread_isolation s o.1 t' o.2 (fun e => h o List.mem_cons_self e.symm)

/-- a thread with no local installation dispatches to the global recorder or the no-op recorder, never to a
    recorder another thread installed -/
theorem no_local_no_foreign (s : St) (t : Tid) (h : s.loc t = none) :
    dispatch s t = fallback s ∧ ∀ r, fallback s ≠ .loc r := by
  refine ⟨by simp [dispatch, h], ?_⟩
  intro r; unfold fallback; cases s.global <;> simp

/-! ### (d) the delivered record is what the call site spelled -/

/-- the labels as written at the call site, in the written order -/
def written : LabelsArg → List (String × String)
  | .none => []
  | .litPairs kv => kv
  | .exprPairs kv => kv
  | .collection kv => kv

theorem keyVar_written (n : NameArg) (l : LabelsArg) : keyVar n l = (n.val, written l) := by
  cases n <;> cases l <;> rfl

/-- **(d)** every macro call makes the recorder call with the call it was given (no discipline needed) … -/
theorem delivered_fields (s : St) (t : Tid) (c : Call) :
    ∃ e, (step s t (.emit c)).2 = .emitted e ∧ e.call = c ∧ e.tid = t ∧ e.target = dispatch s t
      ∧ (step s t (.emit c)).1.log = s.log ++ [e] :=
  ⟨_, rfl, rfl, rfl, rfl, rfl⟩

/-- … and the arms of `counter!/gauge!/histogram!` + `key_var!` + `metadata_var!` hand over: the written name,
    the written labels in order, the written `target:` or else the module path, the written `level:` or else
    INFO, the module path of the call site; no unit, no description -/
theorem register_row (mp : String) (c : RegCall) :
    expand mp (.reg c) =
      { describe := false, kind := c.kind, name := c.name.val, labels := written c.labels,
        target := some (c.target.getD mp), level := some (c.level.getD .info), modulePath := some mp,
        unit := none, desc := none } := by
  show expandReg mp c = _
  unfold expandReg metadataVar
  rw [keyVar_written]
  cases c.target <;> cases c.level <;> rfl

/-- the two arms of `describe!`: the written name, the written unit (or none), the written description -/
theorem describe_row (mp : String) (d : DescCall) :
    expand mp (.desc d) =
      { describe := true, kind := d.kind, name := d.name.val, labels := [], target := none, level := none,
        modulePath := none, unit := d.unit, desc := some d.desc } := rfl

/-! ### closure-only programs are disciplined -/

theorem closures_only_aux (t : Tid) (p : Prog) :
    ∀ s, LocalRec.Inv s → s.ended = [] →
      disc s (compile t p) = true ∧ LocalRec.Inv (run s (compile t p)) ∧ (run s (compile t p)).ended = []
      ∧ liveGuards (run s (compile t p)) t = liveGuards s t ∧ (run s (compile t p)).scopes t = s.scopes t := by
  induction p with
  | done => intro s h he; exact ⟨rfl, h, he, rfl, rfl⟩
  | panic => intro s h he; exact ⟨rfl, h, he, rfl, rfl⟩
  | emit c rest ih =>
    intro s h he
    have hi : LocalRec.Inv (step s t (.emit c)).1 := step_inv s t _ h rfl
    obtain ⟨a, b, c', d, e⟩ := ih (step s t (.emit c)).1 hi he
    exact ⟨by simp only [compile, disc, opOk, Bool.true_and]; exact a, b, c', d, e⟩
  | withLocal r body rest ihb ihr =>
    intro s h he
    -- enter
    have hnot : s.ended.contains r = false := by rw [he]; rfl
    let s1 : St := { (install s t r).1 with scopes := upd (install s t r).1.scopes t ((install s t r).2 :: s.scopes t) }
    have hs1 : (step s t (.enter r)).1 = s1 := by
      unfold step; simp only [hnot]; rfl
    have hi1 : LocalRec.Inv s1 := inv_scopes _ _ (inv_install s t r h hnot)
    have hl1 : liveGuards s1 t = newGuard s t r :: liveGuards s t := liveGuards_install_same s t r
    have hsc1 : s1.scopes t = s.next t :: s.scopes t := upd_same _ _ _
    have he1 : s1.ended = [] := he
    -- body
    obtain ⟨db, ib, eb, lb, sb⟩ := ihb s1 hi1 he1
    -- exit
    have htop : topLive (run s1 (compile t body)) t = some (s.next t) := by
      unfold topLive; rw [lb, hl1]; rfl
    have hok : opOk (run s1 (compile t body)) t (.exit body.panics) = true := by
      simp [opOk, htop, sb, hsc1]
    have hfl : findLive (run s1 (compile t body)).guards t (s.next t) = some (newGuard s t r) := by
      refine findLive_top _ t (s.next t) (newGuard s t r) ?_ rfl
      show (liveGuards (run s1 (compile t body)) t).head? = _
      rw [lb, hl1]; rfl
    let s2 := run s1 (compile t body)
    let s3 : St := dropG { s2 with scopes := upd s2.scopes t (s.scopes t) } t (newGuard s t r)
    have hs3 : (step s2 t (.exit body.panics)).1 = s3 := by
      unfold step
      simp only
      have : s2.scopes t = s.next t :: s.scopes t := by rw [sb, hsc1]
      rw [this]
      simp only
      rw [hfl]
    have hd3 := inv_dropG { s2 with scopes := upd s2.scopes t (s.scopes t) } t (s.next t) (newGuard s t r)
      (inv_scopes s2 _ ib) htop hfl
    have hl3 : liveGuards s3 t = liveGuards s t := by
      rw [hd3.2]
      show (liveGuards s2 t).tail = _
      rw [lb, hl1]; rfl
    have hsc3 : s3.scopes t = s.scopes t := upd_same _ _ _
    have he3 : s3.ended = [] := eb
    -- rest
    obtain ⟨dr, ir, er, lr, sr⟩ := ihr s3 hd3.1 he3
    have hrun : run s (compile t (.withLocal r body rest)) = run s3 (compile t rest) := by
      show run s ((t, .enter r) :: (compile t body ++ (t, .exit body.panics) :: compile t rest)) = _
      rw [run_cons]
      show run (step s t (.enter r)).1 _ = _
      rw [hs1, run_append, run_cons]
      show run (step s2 t (.exit body.panics)).1 _ = _
      rw [hs3]
    refine ⟨?_, ?_, ?_, ?_, ?_⟩
    · show disc s ((t, .enter r) :: (compile t body ++ (t, .exit body.panics) :: compile t rest)) = true
      simp only [disc, opOk, Bool.true_and]
      rw [hs1, disc_append, db, Bool.true_and]
      simp only [disc, Bool.and_eq_true]
      refine ⟨hok, ?_⟩
      show disc (step s2 t (.exit body.panics)).1 _ = true
      rw [hs3]; exact dr
    · rw [hrun]; exact ir
    · rw [hrun]; exact er
    · rw [hrun, lr, hl3]
    · rw [hrun, sr, hsc3]

/-- **every program built only from `with_local_recorder` closures and macro calls — any nesting depth, panics
    anywhere — keeps the discipline**, from any disciplined state in which no borrow has ended yet; so (a) and
    (b) hold for it, and when it is over the thread's stack of installations is what it was before -/
theorem closures_only_disciplined (t : Tid) (p : Prog) (s : St) (h : LocalRec.Inv s) (he : s.ended = []) :
    disc s (compile t p) = true ∧ liveGuards (run s (compile t p)) t = liveGuards s t
      ∧ (run s (compile t p)).loc t = s.loc t := by
  obtain ⟨a, b, _, d, _⟩ := closures_only_aux t p s h he
  refine ⟨a, d, ?_⟩
  rw [chain_loc (b.chain t), chain_loc (h.chain t), d]

/-- closure-only programs of several threads, one after the other, from the initial state -/
theorem closures_only_from_init (g : Option RecId) (t : Tid) (p : Prog) :
    disc (init g) (compile t p) = true ∧ ∀ e ∈ (run (init g) (compile t p)).log, e.stale = false := by
  have := closures_only_disciplined t p (init g) (init_inv g) rfl
  exact ⟨this.1, no_use_after_scope_partial g _ this.1⟩

/-! ### (e) the full statement, without the discipline, is FALSE of the code (known findings) -/

def c0 : Call := .reg { kind := .counter, target := none, level := none, name := .lit "c_lit", labels := .none }

/-- `let g0 = set_default_local_recorder(&r1); let g1 = set_default_local_recorder(&r2); drop(g0); drop(g1);`
    then both borrows end, then one macro call -/
def fifoWitness : List (Tid × Op) :=
  [(0, .install 1), (0, .install 2), (0, .dropGuard 0), (0, .dropGuard 1), (0, .endBorrow 1), (0, .endBorrow 2),
   (0, .emit c0)]

/-- `let g0 = set_default_local_recorder(&r1); mem::forget(g0);` then the borrow ends, then one macro call -/
def forgetWitness : List (Tid × Op) := [(0, .install 1), (0, .forget 0), (0, .endBorrow 1), (0, .emit c0)]

/-- `with_local_recorder(&r1, || { slot = Some(set_default_local_recorder(&r2)); }); drop(slot.take());`
    then both borrows end, then one macro call -/
def closureEscapeWitness : List (Tid × Op) :=
  [(0, .enter 1), (0, .install 2), (0, .exit false), (0, .dropGuard 1), (0, .endBorrow 1), (0, .endBorrow 2),
   (0, .emit c0)]

/-- K-C01-fifo: the program is accepted by the borrow checker, every scope and every borrow has ended, and
    the emission is dispatched to recorder 1 — after its borrow ended -/
theorem fifo_drop_leaves_stale :
    borrowChecked (init none) fifoWitness = true
    ∧ liveGuards (run (init none) fifoWitness) 0 = []
    ∧ (run (init none) fifoWitness).ended = [2, 1]
    ∧ (run (init none) fifoWitness).log.map (fun e => (e.target, e.stale)) = [(.loc 1, true)] := by decide

/-- K-C01-forget: a forgotten guard is never undone -/
theorem forget_leaves_stale :
    borrowChecked (init none) forgetWitness = true
    ∧ liveGuards (run (init none) forgetWitness) 0 = []
    ∧ (run (init none) forgetWitness).ended = [1]
    ∧ (run (init none) forgetWitness).log.map (fun e => (e.target, e.stale)) = [(.loc 1, true)] := by decide

/-- the FIFO defect through a closure: a guard created inside a `with_local_recorder` closure outlives it -/
theorem closure_escape_leaves_stale :
    borrowChecked (init none) closureEscapeWitness = true
    ∧ liveGuards (run (init none) closureEscapeWitness) 0 = []
    ∧ (run (init none) closureEscapeWitness).log.map (fun e => (e.target, e.stale)) = [(.loc 1, true)] := by decide

/-- the witnesses break the discipline exactly where the known-finding signatures say -/
theorem witnesses_undisciplined :
    disc (init none) fifoWitness = false ∧ disc (init none) forgetWitness = false
    ∧ disc (init none) closureEscapeWitness = false
    ∧ opOk (run (init none) (fifoWitness.take 2)) 0 (.dropGuard 0) = false := by decide

/-- **the full statement is false**: there is a borrow-checker-legal program with an emission dispatched to a
    recorder after the borrow that installed it ended -/
theorem no_use_after_scope_full_false :
    ∃ ops, borrowChecked (init none) ops = true ∧ ∃ e ∈ (run (init none) ops).log, e.stale = true :=
  ⟨fifoWitness, by decide, ⟨{ tid := 0, target := .loc 1, stale := true, call := c0 }, by decide, rfl⟩⟩

/-! ### non-vacuity -/

/-- depth-3 nesting with a panic in the innermost closure that unwinds two frames, an explicit guard around
    it, a second thread with its own closure, a global recorder: disciplined, and every emission reaches the
    innermost recorder of ITS thread / the global recorder -/
def nested : List (Tid × Op) :=
  [(0, .emit c0), (0, .install 9), (0, .enter 1), (0, .emit c0), (1, .emit c0), (1, .enter 101), (0, .enter 2),
   (0, .emit c0), (0, .enter 3), (1, .emit c0), (0, .emit c0), (0, .exit true), (0, .exit true), (0, .emit c0),
   (1, .exit false), (0, .exit false), (0, .emit c0), (0, .dropGuard 0), (0, .endBorrow 9), (0, .endBorrow 1),
   (0, .endBorrow 2), (0, .endBorrow 3), (1, .endBorrow 101), (0, .emit c0), (1, .emit c0)]

example :
    disc (init (some 900)) nested = true ∧ borrowChecked (init (some 900)) nested = true
    ∧ (run (init (some 900)) nested).log.map (fun e => (e.tid, e.target, e.stale))
      = [(0, .glob 900, false), (0, .loc 1, false), (1, .glob 900, false), (0, .loc 2, false), (1, .loc 101, false),
         (0, .loc 3, false), (0, .loc 1, false), (0, .loc 9, false), (0, .glob 900, false), (1, .glob 900, false)] := by
  decide

/-- the same as a closure-only `Prog` (the hypotheses of `closures_only_disciplined` are met by `init`) -/
example :
    compile 0 (.withLocal 1 (.emit c0 (.withLocal 2 (.withLocal 3 (.emit c0 .panic) (.emit c0 .done)) (.emit c0 .done))) (.emit c0 .done))
      = [(0, .enter 1), (0, .emit c0), (0, .enter 2), (0, .enter 3), (0, .emit c0), (0, .exit true), (0, .emit c0),
         (0, .exit false), (0, .emit c0), (0, .exit false), (0, .emit c0)] := by decide

/-- the delivered row of a form with every prefix and literal labels -/
example :
    expand "m" (.reg { kind := .counter, target := some "t", level := some .warn, name := .lit "n",
                       labels := .litPairs [("k", "v")] })
      = { describe := false, kind := .counter, name := "n", labels := [("k", "v")], target := some "t",
          level := some .warn, modulePath := some "m", unit := none, desc := none } := rfl

/-! ### (f) the recorder callback runs in the scope of the call site (`with_recorder` only READS the thread-local) -/

/-- **a macro call changes nothing but the log**: LOCAL_RECORDER of every thread, the guard table, the closure
    frames, the global recorder and the ended borrows are what they were.  This is what allows the harness to
    write the statements a recorder method executes from INSIDE its callback (re-entrant macro calls, scopes opened
    and left, panics) as ordinary ops following the `emit`: `with_recorder` does nothing before or after `f` -/
theorem emit_transparent (s : St) (t : Tid) (c : Call) :
    (step s t (.emit c)).1.loc = s.loc ∧ (step s t (.emit c)).1.next = s.next
    ∧ (step s t (.emit c)).1.scopes = s.scopes ∧ (step s t (.emit c)).1.guards = s.guards
    ∧ (step s t (.emit c)).1.global = s.global ∧ (step s t (.emit c)).1.ended = s.ended :=
  ⟨rfl, rfl, rfl, rfl, rfl, rfl⟩

/-- … so after any number of macro calls (by any threads) every thread dispatches where it dispatched before -/
theorem emits_keep_dispatch (cs : List (Tid × Call)) (s : St) (t' : Tid) :
    dispatch (run s (cs.map fun p => (p.1, Op.emit p.2))) t' = dispatch s t' := by
  induction cs generalizing s with
  | nil => rfl
  | cons p rest ih =>
    show dispatch (run (step s p.1 (.emit p.2)).1 _) t' = _
    rw [ih]; rfl

/-- **re-entrant emission**: a macro call `d` made by the recorder method while it handles `c` (on the same
    thread) is delivered, exactly once, to the very recorder that is handling `c` — ALL states, no discipline -/
theorem reentrant_same_recorder (s : St) (t : Tid) (c d : Call) :
    (step (step s t (.emit c)).1 t (.emit d)).2
        = .emitted { tid := t, target := dispatch s t, stale := isStale s (dispatch s t), call := d }
    ∧ (step (step s t (.emit c)).1 t (.emit d)).1.log
        = s.log ++ [{ tid := t, target := dispatch s t, stale := isStale s (dispatch s t), call := c }]
            ++ [{ tid := t, target := dispatch s t, stale := isStale s (dispatch s t), call := d }] :=
  ⟨rfl, rfl⟩

/-- a panic out of the recorder method (caught around the macro call) is no op at all: the state after the call
    is the state `emit_transparent` describes, in particular the local scope is intact (in a disciplined program
    the next macro call still reaches the innermost recorder) -/
theorem after_callback_still_innermost_partial (g : Option RecId) (pre : List (Tid × Op)) (t : Tid) (c d : Call)
    (h : disc (init g) pre = true) :
    (step (step (run (init g) pre) t (.emit c)).1 t (.emit d)).2
        = .emitted { tid := t, target := innermost (run (init g) pre) t, stale := false, call := d } := by
  have hi := reachable_inv g pre h
  have h1 := dispatch_eq_innermost _ t hi
  have h2 := innermost_fresh _ t hi
  rw [(reentrant_same_recorder _ t c d).1, h1, h2]

/-! ### (g) what the type system must refuse (the harness compiles these programs: `type probe` cases) -/

/-- **the recorder cannot be freed while a guard value installed from it exists** (`LocalRecorderGuard<'a>` carries
    the borrow): `endBorrow r` is not a program then; nothing changes — ALL states -/
theorem endBorrow_rejected_while_borrowed (s : St) (t : Tid) (r : RecId) (h : borrowed s r = true) :
    step s t (.endBorrow r) = (s, .rejected) := by
  simp [step, h]

/-- right after `let g = set_default_local_recorder(&r)` (borrow of `r` alive) the guard borrows `r` -/
theorem install_borrows (s : St) (t : Tid) (r : RecId) (h : s.ended.contains r = false) :
    borrowed (step s t (.install r)).1 r = true := by
  have hs : (step s t (.install r)).1 = (install s t r).1 := by
    unfold step; simp only [h]; rfl
  rw [hs]
  simp [install, borrowed, borrowsRec]

/-- **a guard cannot be dropped by a thread that does not own it** (`LocalRecorderGuard: !Send`): the op is not
    a program; nothing changes, in particular the other thread's LOCAL_RECORDER — ALL states -/
theorem foreign_drop_rejected (s : St) (t' : Tid) (g : GuardId) (h : findLive s.guards t' g = none) :
    step s t' (.dropGuard g) = (s, .rejected) := by
  unfold step
  simp only [h]
  split <;> rfl

/-- the two probe programs of the harness, on the model -/
theorem probes_rejected :
    (step (step (init none) 0 (.install 1)).1 0 (.endBorrow 1)).2 = .rejected
    ∧ (step (step (init none) 0 (.install 1)).1 1 (.dropGuard 0)).2 = .rejected
    ∧ ((step (step (init none) 0 (.install 1)).1 1 (.dropGuard 0)).1.loc 0 = some 1) := by decide

/-! ### (h) the form table covers every shape of call site -/

/-- the shape of a `counter!/gauge!/histogram!` call site: macro, `target:` present, `level:` present, literal
    name, and which group of `key_var!` arms its labels select -/
def regShape (c : RegCall) : Kind × Bool × Bool × Bool × Nat :=
  (c.kind, c.target.isSome, c.level.isSome,
   (match c.name with | .lit _ => true | .expr _ => false),
   (match c.labels with | .none => 0 | .litPairs _ => 1 | .exprPairs _ => 2 | .collection _ => 3))

theorem mem_genReg (k : Kind) (p : Option String × Option Level) (nl : NameArg × LabelsArg)
    (hk : k ∈ kinds) (hp : p ∈ prefixes k) (hnl : nl ∈ nameLabel k) :
    Call.reg { kind := k, target := p.1, level := p.2, name := nl.1, labels := nl.2 } ∈ genReg :=
  List.mem_flatMap.2 ⟨k, hk, List.mem_flatMap.2 ⟨p, hp, List.mem_map.2 ⟨nl, hnl, rfl⟩⟩⟩

theorem kinds_complete (k : Kind) : k ∈ kinds := by cases k <;> simp [kinds]

theorem prefixes_cover (k : Kind) (a b : Bool) : ∃ p ∈ prefixes k, p.1.isSome = a ∧ p.2.isSome = b := by
  cases a <;> cases b
  · exact ⟨(none, none), by simp [prefixes], rfl, rfl⟩
  · exact ⟨(none, some (lvlOnly k)), by simp [prefixes], rfl, rfl⟩
  · exact ⟨(some "tgt_x", none), by simp [prefixes], rfl, rfl⟩
  · exact ⟨(some "tgt_y", some (lvlBoth k)), by simp [prefixes], rfl, rfl⟩

/-- **every shape of register call site occurs in the compiled table**: for any call `c` whatsoever there is a
    table entry with the same macro, the same prefix arm, the same kind of name and the same kind of labels — so
    each arm of `counter!/gauge!/histogram!` is compared, with labels, against `register_row` on every run -/
theorem forms_cover_every_shape (c : RegCall) : ∃ c', Call.reg c' ∈ forms ∧ regShape c' = regShape c := by
  obtain ⟨p, hp, hp1, hp2⟩ := prefixes_cover c.kind c.target.isSome c.level.isSome
  have hnl : ∃ nl ∈ nameLabel c.kind,
      (match nl.1 with | .lit _ => true | .expr _ => false) = (match c.name with | .lit _ => true | .expr _ => false)
      ∧ (match nl.2 with | .none => 0 | .litPairs _ => 1 | .exprPairs _ => 2 | .collection _ => 3)
        = (match c.labels with | .none => 0 | .litPairs _ => 1 | .exprPairs _ => 2 | .collection _ => 3) := by
    cases c.name <;> cases c.labels <;>
      first
      | exact ⟨(.lit (litName c.kind), .none), by simp [nameLabel, labelShapes], rfl, rfl⟩
      | exact ⟨(.expr (compName c.kind), .none), by simp [nameLabel, labelShapes], rfl, rfl⟩
      | exact ⟨(.lit (litName c.kind), .litPairs [("uvw", "xyz"), ("a", "b")]), by simp [nameLabel, labelShapes], rfl, rfl⟩
      | exact ⟨(.expr (compName c.kind), .litPairs [("uvw", "xyz"), ("a", "b")]), by simp [nameLabel, labelShapes], rfl, rfl⟩
      | exact ⟨(.lit (litName c.kind), .exprPairs [("dyn", "xyz!"), ("ck", "cv")]), by simp [nameLabel, labelShapes], rfl, rfl⟩
      | exact ⟨(.expr (compName c.kind), .exprPairs [("dyn", "xyz!"), ("ck", "cv")]), by simp [nameLabel, labelShapes], rfl, rfl⟩
      | exact ⟨(.lit (litName c.kind), .collection [("uvw", "xyz!"), ("k2", "v2")]), by simp [nameLabel, labelShapes], rfl, rfl⟩
      | exact ⟨(.expr (compName c.kind), .collection [("uvw", "xyz!"), ("k2", "v2")]), by simp [nameLabel, labelShapes], rfl, rfl⟩
  obtain ⟨nl, hnlm, hn1, hn2⟩ := hnl
  refine ⟨{ kind := c.kind, target := p.1, level := p.2, name := nl.1, labels := nl.2 }, ?_, ?_⟩
  · have := mem_genReg c.kind p nl (kinds_complete _) hp hnlm
    unfold forms
    simp only [List.mem_append]
    exact Or.inl (Or.inl (Or.inr this))
  · simp only [regShape, hp1, hp2, hn1, hn2]

/-- every describe macro occurs without unit and with each of the 17 units, with a literal and a computed name -/
theorem forms_cover_describe (k : Kind) (u : Option String) (hu : u = none ∨ ∃ x ∈ unitNames, u = some x) :
    Call.desc { kind := k, name := .lit (litName k), unit := u, desc := "d lit" } ∈ forms
    ∧ Call.desc { kind := k, name := .expr (compName k), unit := u, desc := "computed desc 7" } ∈ forms := by
  have hd : ∀ c ∈ descPair k u, c ∈ genDesc := by
    intro c hc
    refine List.mem_flatMap.2 ⟨k, kinds_complete k, ?_⟩
    rw [List.mem_append]
    rcases hu with hu | ⟨x, hx, hu⟩
    · left; rw [← hu]; exact hc
    · right; exact List.mem_flatMap.2 ⟨x, hx, by rw [← hu]; exact hc⟩
  have hf : ∀ c ∈ genDesc, c ∈ forms := by
    intro c hc; unfold forms; simp only [List.mem_append]; exact Or.inl (Or.inr hc)
  exact ⟨hf _ (hd _ (by simp [descPair])), hf _ (hd _ (by simp [descPair]))⟩

/-! ### (i) facts of the source no run can observe (tools/extract.py → Generated/SourceFacts.lean) -/

/-- `with_recorder` only READS the thread-local (`get`; no `take`/`set`/`replace` around the callback), and tries
    local, then global, then the no-op recorder — the shape `dispatch`/`fallback` and `emit_transparent` model -/
theorem src_with_recorder_shape :
    Generated.localrec_with_recorder_local_calls = ["get"]
    ∧ Generated.localrec_with_recorder_order = ["local", "global", "noop"]
    ∧ Generated.localrec_thread_local_decl
        = "static LOCAL_RECORDER: Cell<Option<NonNull<dyn Recorder>>> = Cell::new(None)" := ⟨rfl, rfl, rfl⟩

/-- `LocalRecorderGuard::new` = `replace(Some(r))` keeping the old value, `Drop` = `replace(saved)`;
    `with_local_recorder` binds the guard to a NAMED local for the whole call of `f` — `install`/`dropG`/`enter`/`exit` -/
theorem src_guard_save_restore :
    Generated.localrec_guard_new_calls = ["replace(Some(recorder_ptr))"]
    ∧ Generated.localrec_guard_drop_calls = ["replace(self.prev_recorder.take())"]
    ∧ Generated.localrec_with_local_body = "{ let _local = LocalRecorderGuard::new(recorder); f() }" := ⟨rfl, rfl, rfl⟩

/-- the guard type carries the recorder's borrow and is neither `Send` nor `Sync` by hand: what `Out.rejected`
    stands for (`endBorrow_rejected_while_borrowed`, `foreign_drop_rejected`; compiled by the type probes) -/
theorem src_guard_carries_borrow :
    Generated.localrec_guard_phantom = "PhantomData<&'a dyn Recorder>"
    ∧ Generated.localrec_guard_new_sig = "recorder: &'a (dyn Recorder + 'a)"
    ∧ Generated.localrec_set_default_sig
        = "pub fn set_default_local_recorder(recorder: &dyn Recorder) -> LocalRecorderGuard"
    ∧ Generated.localrec_with_local_sig
        = "pub fn with_local_recorder<T>(recorder: &dyn Recorder, f: impl FnOnce() -> T) -> T"
    ∧ Generated.localrec_guard_unsafe_impls = [] := ⟨rfl, rfl, rfl, rfl, rfl⟩

/-- body of a forwarding method of `impl_recorder!` -/
def fwdBody (m args : String) : String := "{ std::ops::Deref::deref(self)." ++ m ++ "(" ++ args ++ ") }"

/-- the blanket impls for `&T`, `&mut T`, `Box<T>`, `Arc<T>` forward each of the six methods, once, to its
    namesake with the same arguments: a recorder installed through a wrapper is the recorder (the model has no
    wrapper; the harness installs its doubles through every one of them) -/
theorem src_blanket_forwards_to_namesake :
    Generated.localrec_blanket_forwarding
      = [("describe_counter", fwdBody "describe_counter" "key, unit, description"),
         ("describe_gauge", fwdBody "describe_gauge" "key, unit, description"),
         ("describe_histogram", fwdBody "describe_histogram" "key, unit, description"),
         ("register_counter", fwdBody "register_counter" "key, metadata"),
         ("register_gauge", fwdBody "register_gauge" "key, metadata"),
         ("register_histogram", fwdBody "register_histogram" "key, metadata")]
    ∧ Generated.localrec_blanket_types = ["&T", "&mut T", "std::boxed::Box<T>", "std::sync::Arc<T>"] := by decide

/-- what every forwarding arm must pass on: the name and ALL label arguments -/
def fwdArgs : String := "$name $(, $label_key $(=> $label_value)?)*"

/-- the arms of one macro: `target:`-only ⇒ level INFO, `level:`-only ⇒ target `module_path!()`, plain ⇒ both
    defaults (`expandReg`), each passing on name and labels; the full arm hands name+labels to `key_var!`, target and
    level to `metadata_var!`, and calls the macro's own `register_*` -/
def armsOf (m : String) : String × List String :=
  (m, ["target: $target, level: $crate::Level::INFO, " ++ fwdArgs,
       "target: ::std::module_path!(), level: $level, " ++ fwdArgs,
       "target: ::std::module_path!(), level: $crate::Level::INFO, " ++ fwdArgs,
       fwdArgs, "$target, $level", "register_" ++ m ++ "(&metric_key, metadata)"])

theorem src_macro_arms :
    Generated.localrec_macro_arms = [armsOf "counter", armsOf "gauge", armsOf "histogram"]
    ∧ Generated.localrec_metadata_var_new_args = "$target, $level, ::core::option::Option::Some(::std::module_path!())," := by
  decide

/-! ### (j) exactly once, for ALL programs: nothing but a macro call reaches a recorder -/

/-- the macro call an op makes, if it is one -/
def callOf : Tid × Op → Option (Tid × Call)
  | (t, .emit c) => some (t, c)
  | _ => none

/-- an op that is not a macro call makes no recorder call: installing, dropping or forgetting a guard, entering or
    leaving (also by unwinding) a `with_local_recorder` frame, `set_global_recorder`, the end of a borrow — ALL states -/
theorem only_emit_logs (s : St) (t : Tid) (op : Op) (h : callOf (t, op) = none) : (step s t op).1.log = s.log := by
  cases op with
  | emit c => simp [callOf] at h
  | _ => unfold step <;> simp only <;> (repeat' split) <;> rfl

/-- **delivered exactly once** — ANY program, any threads, no discipline: the recorder calls made during the program
    are, in order, exactly its macro calls (thread and call as written): none is lost, none is made twice, and no
    other op of the program makes one -/
theorem delivered_exactly_once (ops : List (Tid × Op)) :
    ∀ s, (run s ops).log.map (fun e => (e.tid, e.call)) = s.log.map (fun e => (e.tid, e.call)) ++ ops.filterMap callOf := by
  induction ops with
  | nil => intro s; simp [run]
  | cons o rest ih =>
    intro s
    rw [run_cons, ih]
    obtain ⟨t, op⟩ := o
    cases hc : callOf (t, op) with
    | none =>
      rw [only_emit_logs s t op hc]
      simp [hc]
    | some tc =>
      cases op <;> simp [callOf] at hc
      subst hc
      simp [step, callOf]

/-- … in particular the number of recorder calls is the number of macro calls -/
theorem delivery_count (g : Option RecId) (ops : List (Tid × Op)) :
    (run (init g) ops).log.length = (ops.filterMap callOf).length := by
  have := congrArg List.length (delivered_exactly_once ops (init g))
  simpa [init] using this

/-! ### (k) the handle the call site gets is the one the recorder in scope made -/

/-- a `counter!/gauge!/histogram!` call evaluates to the handle returned by the recorder it was dispatched to; a
    `describe_*!` call to nothing — ALL states -/
theorem handle_from_dispatch_target (s : St) (t : Tid) (c : Call) :
    ∃ e, (step s t (.emit c)).2 = .emitted e ∧
      handleOf e = (match c with | .reg _ => some (dispatch s t) | .desc _ => none) := by
  refine ⟨_, rfl, ?_⟩
  cases c <;> rfl

/-- in a disciplined program that is the innermost recorder in scope (else global, else no-op) -/
theorem handle_from_innermost_partial (g : Option RecId) (pre : List (Tid × Op)) (t : Tid) (c : RegCall)
    (h : disc (init g) pre = true) :
    ∃ e, (step (run (init g) pre) t (.emit (.reg c))).2 = .emitted e ∧ handleOf e = some (innermost (run (init g) pre) t) := by
  refine ⟨_, rfl, ?_⟩
  show some (dispatch _ t) = _
  rw [dispatch_eq_innermost _ t (reachable_inv g pre h)]

/-! ### (l) two more things the type system must refuse (type probes), and what would happen if it did not -/

/-- **the `&dyn Recorder` handed to the closure of `with_recorder` cannot be kept** (`impl FnOnce(&dyn Recorder) -> T`:
    the lifetime is higher-ranked, `T` cannot name it) — not a program; ALL states -/
theorem keepRef_rejected (s : St) (t : Tid) : step s t .keepRef = (s, .rejected) := rfl

/-- **a guard value cannot be duplicated** (`LocalRecorderGuard` is neither `Clone` nor `Copy`) — ALL states -/
theorem dupGuard_rejected (s : St) (t : Tid) (g : GuardId) : step s t (.dupGuard g) = (s, .rejected) := rfl

/-- `with_local_recorder(&r1, || { kept = with_recorder(|r| r) });` then `r1`'s borrow ends -/
def keepRefProgram : List (Tid × Op) := [(0, .enter 1), (0, .exit false), (0, .endBorrow 1)]

/-- why `keepRef` must be rejected: in a perfectly LIFO, borrow-checked program the reference `with_recorder` hands
    out inside the scope is recorder 1, and after the program recorder 1's borrow has ended — a call through a kept
    reference would be a dispatch after the end of the installing borrow (clause 6), with no guard misuse at all -/
theorem escaped_ref_would_be_stale :
    disc (init none) keepRefProgram = true ∧ borrowChecked (init none) keepRefProgram = true
    ∧ dispatch (run (init none) (keepRefProgram.take 1)) 0 = .loc 1
    ∧ isStale (run (init none) keepRefProgram) (.loc 1) = true
    ∧ dispatch (run (init none) keepRefProgram) 0 = .noop := by decide

/-- `g0 = install 1; g1 = install 2; drop g1; drop g0;` the borrow of recorder 1 ends (g1 borrowed recorder 2 only) -/
def dupPrefix : List (Tid × Op) :=
  [(0, .install 1), (0, .install 2), (0, .dropGuard 1), (0, .dropGuard 0), (0, .endBorrow 1)]

/-- why `dupGuard` must be rejected: after the LIFO, borrow-checked `dupPrefix`, the destructor of a second copy of
    `g1` (`Drop` = `replace(prev_recorder)`, here `dropG` with `g1`'s record: it saved recorder 1) re-installs recorder 1
    after its borrow ended; the next macro call is dispatched to it -/
theorem cloned_guard_would_dispatch_stale :
    disc (init none) dupPrefix = true ∧ borrowChecked (init none) dupPrefix = true
    ∧ (run (init none) dupPrefix).loc 0 = none
    ∧ (step (dropG (run (init none) dupPrefix) 0
              { tid := 0, id := 1, rcd := 2, prev := some 1, live := false, forgotten := false }) 0 (.emit c0)).2
        = .emitted { tid := 0, target := .loc 1, stale := true, call := c0 } := by decide

/-- the probe programs on the model -/
theorem probes2_rejected :
    (step (step (init none) 0 (.enter 1)).1 0 .keepRef).2 = .rejected
    ∧ (step (step (init none) 0 (.install 1)).1 0 (.dupGuard 0)).2 = .rejected := by decide

/-! ### (m) macro calls made by destructors — also while a panic unwinds the frame -/

theorem compile_flush (t : Tid) (pend : List Call) (k : Prog) :
    compile t (flush pend k) = pend.map (fun c => (t, Op.emit c)) ++ compile t k := by
  induction pend with
  | nil => rfl
  | cons c cs ih => simp [flush, compile, ih]

theorem panics_flush (pend : List Call) (k : Prog) : (flush pend k).panics = k.panics := by
  induction pend with
  | nil => rfl
  | cons c cs ih => simpa [flush, Prog.panics] using ih

/-- how a body is left does not depend on the destructors pending around it -/
theorem panics_lower (p : ProgD) : ∀ pend, (lower pend p).panics = (lower [] p).panics := by
  induction p with
  | done => intro pend; simp [lower, panics_flush]
  | panic => intro pend; simp [lower, panics_flush]
  | emit c rest ih => intro pend; simpa [lower, Prog.panics] using ih pend
  | defer c rest ih => intro pend; rw [lower, lower, ih (c :: pend), ih [c]]
  | withLocal r body rest _ ihr => intro pend; simpa [lower, Prog.panics] using ihr pend

/-- **the destructors run when the body is left, after everything else the body did, newest first** — whether it is
    left by return or by a panic -/
theorem compile_lower_pend (t : Tid) (p : ProgD) :
    ∀ pend, compile t (lower pend p) = compile t (lower [] p) ++ pend.map (fun c => (t, Op.emit c)) := by
  induction p with
  | done => intro pend; simp [lower, compile_flush, flush, compile]
  | panic => intro pend; simp [lower, compile_flush, flush, compile]
  | emit c rest ih => intro pend; simp [lower, compile, ih pend]
  | defer c rest ih =>
    intro pend
    rw [lower, lower, ih (c :: pend), ih [c]]
    simp
  | withLocal r body rest _ ihr =>
    intro pend
    simp [lower, compile, ihr pend]

/-- `with_local_recorder(&r, || { let _d = EmitOnDrop(c); body })`: the op stream is `enter r`, the body, THEN the
    macro call `c`, and only then the frame's exit (by return or unwinding — the same flag the body alone would give) -/
theorem defer_runs_inside_scope (t : Tid) (r : RecId) (c : Call) (body rest : ProgD) :
    compileD t (.withLocal r (.defer c body) rest)
      = (t, .enter r) :: ((compile t (lower [] body) ++ [(t, .emit c)])
          ++ (t, .exit (lower [] body).panics) :: compile t (lower [] rest)) := by
  show compile t (.withLocal r (lower [c] body) (lower [] rest)) = _
  rw [compile, compile_lower_pend t body [c], panics_lower body [c]]
  rfl

/-- **every program of closures, macro calls, panics and "emit on drop" locals keeps the discipline** (any depth):
    (a) and (b) hold for every macro call in it, those made by destructors during unwinding included -/
theorem defer_programs_disciplined (t : Tid) (p : ProgD) (s : St) (h : LocalRec.Inv s) (he : s.ended = []) :
    disc s (compileD t p) = true ∧ liveGuards (run s (compileD t p)) t = liveGuards s t
      ∧ (run s (compileD t p)).loc t = s.loc t :=
  closures_only_disciplined t (lower [] p) s h he

/-- **a macro call made by the destructor of a local of a `with_local_recorder(&r, ..)` body reaches `r`**, exactly
    once, whatever the body did before (nested scopes, panics caught inside) and however it is left — by return or
    by a panic (then the call is made while the thread is unwinding) -/
theorem deferred_reaches_own_scope (t : Tid) (r : RecId) (c : Call) (body : ProgD) (s : St)
    (h : LocalRec.Inv s) (he : s.ended = []) :
    (step (run (step s t (.enter r)).1 (compile t (lower [] body))) t (.emit c)).2
      = .emitted { tid := t, target := .loc r, stale := false, call := c } := by
  have hnot : s.ended.contains r = false := by rw [he]; rfl
  let s1 : St := { (install s t r).1 with scopes := upd (install s t r).1.scopes t ((install s t r).2 :: s.scopes t) }
  have hs1 : (step s t (.enter r)).1 = s1 := by
    unfold step; simp only [hnot]; rfl
  have hi1 : LocalRec.Inv s1 := inv_scopes _ _ (inv_install s t r h hnot)
  have hl1 : liveGuards s1 t = newGuard s t r :: liveGuards s t := liveGuards_install_same s t r
  have he1 : s1.ended = [] := he
  obtain ⟨_, ib, _, lb, _⟩ := closures_only_aux t (lower [] body) s1 hi1 he1
  rw [hs1]
  have h1 := dispatch_eq_innermost _ t ib
  have h2 := innermost_fresh _ t ib
  have h3 : innermost (run s1 (compile t (lower [] body))) t = .loc r := by
    unfold innermost; rw [lb, hl1]; rfl
  rw [h3] at h2
  unfold step
  simp only [h1, h3, h2]

/-- a body that panics after opening (and unwinding) a nested scope: the destructor's call is the op before `unwind` -/
example :
    compileD 0 (.withLocal 1 (.defer c0 (.emit c0 (.withLocal 2 (.defer c0 .panic) .panic))) (.emit c0 .done))
      = [(0, .enter 1), (0, .emit c0), (0, .enter 2), (0, .emit c0), (0, .exit true), (0, .emit c0), (0, .exit true),
         (0, .emit c0)] := by decide

example :
    (run (init (some 900)) (compileD 0 (.withLocal 1 (.defer c0 (.emit c0 (.withLocal 2 (.defer c0 .panic) .panic))) (.emit c0 .done)))).log.map
        (fun e => (e.target, e.stale))
      = [(.loc 1, false), (.loc 2, false), (.loc 1, false), (.glob 900, false)] := by decide

/-! ### (n) more facts of the source: signatures, attributes, impl lists, whole bodies -/

/-- `with_recorder`'s SIGNATURE confines the recorder reference to the call (what `keepRef_rejected` stands for), and
    its whole body is the three-way dispatch and nothing else (no `thread::panicking()` test, no second lookup) -/
theorem src_with_recorder_sig_body :
    Generated.localrec_with_recorder_sig = "pub fn with_recorder<T>(f: impl FnOnce(&dyn Recorder) -> T) -> T"
    ∧ Generated.localrec_with_recorder_body
        = "{ LOCAL_RECORDER.with(|local_recorder| { if let Some(recorder) = local_recorder.get() { UNSAFE { f(recorder.as_ref()) } } else if let Some(global_recorder) = GLOBAL_RECORDER.try_load() { f(global_recorder) } else { f(&NOOP_RECORDER) } }) }" :=
  ⟨rfl, rfl⟩

/-- the guard type: no attribute (no `#[derive(Clone)]`), exactly the two fields, exactly one inherent impl with the
    private `new` and one trait impl, `Drop` (no manual `Clone`/`Copy`/`Send`/`Sync`) — what `dupGuard_rejected` and
    `foreign_drop_rejected` stand for -/
theorem src_guard_type :
    Generated.localrec_guard_attrs = []
    ∧ Generated.localrec_guard_decl = "pub struct LocalRecorderGuard<'a>"
    ∧ Generated.localrec_guard_fields
        = "{ prev_recorder: Option<NonNull<dyn Recorder>>, phantom: PhantomData<&'a dyn Recorder>, }"
    ∧ Generated.localrec_guard_impls = ["impl<'a> LocalRecorderGuard<'a>", "impl<'a> Drop for LocalRecorderGuard<'a>"]
    ∧ Generated.localrec_guard_impl_fns = ["fn new"] := ⟨rfl, rfl, rfl, rfl, rfl⟩

/-- the whole bodies of `LocalRecorderGuard::new`, its `Drop`, `set_default_local_recorder` and `set_global_recorder`:
    none of them calls a recorder method (`only_emit_logs`) or does anything besides the one `replace` / `set` -/
theorem src_scope_bodies :
    Generated.localrec_guard_new_body
        = "{ let recorder_ptr = UNSAFE { std::mem::transmute::<*const (dyn Recorder + 'a), *mut (dyn Recorder + 'static)>( recorder as &'a (dyn Recorder + 'a), ) }; let recorder_ptr = UNSAFE { NonNull::new_unchecked(recorder_ptr) }; let prev_recorder = LOCAL_RECORDER.with(|local_recorder| local_recorder.replace(Some(recorder_ptr))); Self { prev_recorder, phantom: PhantomData } }"
    ∧ Generated.localrec_guard_drop_impl
        = "{ fn drop(&mut self) { LOCAL_RECORDER.with(|local_recorder| local_recorder.replace(self.prev_recorder.take())); } }"
    ∧ Generated.localrec_set_default_body = "{ LocalRecorderGuard::new(recorder) }"
    ∧ Generated.localrec_set_global_sig
        = "pub fn set_global_recorder<R>(recorder: R) -> Result<(), SetRecorderError<R>> where R: Recorder + Sync + 'static,"
    ∧ Generated.localrec_set_global_body = "{ GLOBAL_RECORDER.set(recorder) }" := ⟨rfl, rfl, rfl, rfl, rfl⟩

/-- the full arm of `counter!/gauge!/histogram!`, whole: key, metadata, ONE unconditional `with_recorder` call whose
    value (the handle the recorder returned, `handleOf`) is the value of the macro; the two arms of `describe!`, whole:
    ONE unconditional `with_recorder` call of the named method with name, unit (`Some`/`None`), description; and each
    `describe_*!` forwards to `describe!` with its own method name -/
theorem src_macro_bodies :
    Generated.localrec_macro_full_arms
      = [("counter", "{{ let metric_key = $crate::key_var!($name $(, $label_key $(=> $label_value)?)*); let metadata = $crate::metadata_var!($target, $level); $crate::with_recorder(|recorder| recorder.register_counter(&metric_key, metadata)) }}"),
         ("gauge", "{{ let metric_key = $crate::key_var!($name $(, $label_key $(=> $label_value)?)*); let metadata = $crate::metadata_var!($target, $level); $crate::with_recorder(|recorder| recorder.register_gauge(&metric_key, metadata)) }}"),
         ("histogram", "{{ let metric_key = $crate::key_var!($name $(, $label_key $(=> $label_value)?)*); let metadata = $crate::metadata_var!($target, $level); $crate::with_recorder(|recorder| recorder.register_histogram(&metric_key, metadata)) }}")]
    ∧ Generated.localrec_describe_arms
      = ["{{ $crate::with_recorder(|recorder| { recorder.$method( ::core::convert::Into::into($name), ::core::option::Option::Some($unit), ::core::convert::Into::into($description), ); }); }}",
         "{{ $crate::with_recorder(|recorder| { recorder.$method( ::core::convert::Into::into($name), ::core::option::Option::None, ::core::convert::Into::into($description), ); }); }}"]
    ∧ Generated.localrec_describe_forwards
      = [("describe_counter", ["describe_counter, $name, $unit, $description", "describe_counter, $name, $description"]),
         ("describe_gauge", ["describe_gauge, $name, $unit, $description", "describe_gauge, $name, $description"]),
         ("describe_histogram", ["describe_histogram, $name, $unit, $description", "describe_histogram, $name, $description"])] :=
  ⟨rfl, rfl, rfl⟩

/-- a callback that emits, one that panics, inside a depth-2 scope: the log shows both deliveries at the inner
    recorder and the scope intact afterwards -/
example :
    (run (init (some 900)) [(0, .enter 1), (0, .enter 2), (0, .emit c0), (0, .emit c0), (0, .exit true), (0, .emit c0),
        (0, .exit false), (0, .emit c0)]).log.map (fun e => (e.target, e.stale))
      = [(.loc 2, false), (.loc 2, false), (.loc 1, false), (.glob 900, false)] := by decide

example : forms.length = 239 := rfl

end MetricsVerif.C01
