/-
C15 — histogram buckets and summary windows mean what Prometheus says they mean.

Models: `Model/Histogram.lean` (`Histogram::{new, record, record_many}`, `Distribution::record_samples`),
`Model/DistBuilder.lean` + `Model/Prom.lean` (`set_buckets_for_metric`, `DistributionBuilder::{new, get_distribution,
get_distribution_type}`, `Matcher`), `Model/Rolling.lean` (`RollingSummary::{new, add, snapshot, count}`, the render path
of a summary), `Model/Quantile.lean` (`Quantile::new`, `parse_quantiles`, `set_quantiles`, the guard of
`Summary::quantile`, the quantile lines of a rendered summary).  Every theorem is for ALL bound lists / sample sequences / batchings / matcher sets / names / bucket
counts and durations / non-decreasing timestamp sequences — no bound on any of them.

Outside the model (checked dynamically by harness/src/c15.rs on the real code): the DDSketch is abstracted to the list of
samples it retains, so "a quantile lies within the sketch's relative error of a retained sample" is an assumption about
`sketches-ddsketch`, not a theorem; IEEE rounding of `sum`.
-/
import MetricsVerif.Proofs.Histogram
import MetricsVerif.Proofs.DistBuilder
import MetricsVerif.Proofs.DistExpose
import MetricsVerif.Proofs.Rolling
import MetricsVerif.Model.Quantile
import MetricsVerif.Generated.SourceFacts

namespace MetricsVerif.C15
open MetricsVerif.Histogram MetricsVerif.Rolling MetricsVerif.Prom MetricsVerif.PromFmt MetricsVerif.DistBuilder
open MetricsVerif.PromRender MetricsVerif.Quantile

/-! ## (a) buckets -/

/-- IEEE `<=` is transitive on all of f64 (a NaN makes a premise false) … -/
theorem le_trans {a b c : FV} (h1 : a.le b = true) (h2 : b.le c = true) : a.le c = true := FV.le_trans h1 h2

/-- … and total away from NaN. -/
theorem le_total (a b : FV) (ha : a ≠ .nan) (hb : b ≠ .nan) : a.le b = true ∨ b.le a = true := FV.le_total a b ha hb

/-- `record`, for ANY bounds (sorted or not): after any samples, the count kept for bound `b` is the number of samples
    `<= b`. -/
theorem record_counts (bounds : List FV) (h0 : Hist) (e : Hist.new bounds = some h0) (xs : List FV) :
    (h0.recordAll xs).buckets = bounds.map (fun b => xs.countP (fun x => x.le b)) := by
  have hb : h0.bounds = bounds := (Hist.new_wf e).2
  have hz : h0.buckets = bounds.map (fun _ => 0) := by
    unfold Hist.new at e; split at e
    · cases e
    · cases e; rfl
  rw [(Hist.recordAll_fields xs h0).1, hb, hz, foldl_bumpAll_zeros]

theorem recordBatches_eq_recordAll (xss : List (List FV)) : ∀ (h : Hist), h.WF → Ascending h.bounds →
    h.recordBatches xss = h.recordAll xss.flatten := by
  induction xss with
  | nil => intro h _ _; rfl
  | cons xs xss ih =>
    intro h w hasc
    simp only [Hist.recordBatches, List.foldl_cons, List.flatten_cons] at ih ⊢
    rw [Hist.recordMany_eq_recordAll h w hasc xs, ih _ (Hist.recordAll_wf xs h w) (by rw [Hist.recordAll_bounds]; exact hasc)]
    simp [Hist.recordAll, List.foldl_append]

/-- **batch_equiv**: for ascending bounds and EVERY batching, feeding the batches to `record_many` (what
    `Distribution::record_samples` does) leaves the histogram in exactly the state that `record`ing the same samples one
    by one does — buckets, count, and the sum in exact arithmetic. -/
theorem batch_equiv (bounds : List FV) (hasc : Ascending bounds) (h0 : Hist) (e : Hist.new bounds = some h0)
    (xss : List (List FV)) : h0.recordBatches xss = h0.recordAll xss.flatten := by
  obtain ⟨w, hb⟩ := Hist.new_wf e
  exact recordBatches_eq_recordAll xss h0 w (by rw [hb]; exact hasc)

/-- the ascending hypothesis is necessary: bounds `[10, 5]`, one sample `7` — `record` counts it for 10 only,
    `record_many`'s `break` + running sum counts it for 5 as well (kernel-evaluated on the model; the harness corpus
    replays the same input on the real code) -/
theorem record_many_differs_unsorted :
    ∃ (bounds : List FV) (h0 : Hist) (xs : List FV), Hist.new bounds = some h0 ∧ ¬ Ascending bounds
      ∧ (h0.recordMany xs).buckets ≠ (h0.recordAll xs).buckets :=
  ⟨[.fin 10240, .fin 5120], ⟨[.fin 10240, .fin 5120], [0, 0], 0, {}⟩, [.fin 7168], by decide, by decide, by decide⟩

/-- **bucket_counts**: with ascending bounds, after any sequence of samples (incl. values equal to bounds, ±∞, NaN) fed in
    any batches, the count reported for bound `bᵢ` is the number of samples that are `<= bᵢ`. -/
theorem bucket_counts (bounds : List FV) (hasc : Ascending bounds) (h0 : Hist) (e : Hist.new bounds = some h0)
    (xss : List (List FV)) :
    (h0.recordBatches xss).buckets = bounds.map (fun b => xss.flatten.countP (fun x => x.le b)) := by
  rw [batch_equiv bounds hasc h0 e, record_counts bounds h0 e]

/-- the same, by index -/
theorem bucket_counts_at (bounds : List FV) (hasc : Ascending bounds) (h0 : Hist) (e : Hist.new bounds = some h0)
    (xss : List (List FV)) (i : Nat) (hi : i < bounds.length) :
    (h0.recordBatches xss).buckets[i]? = some (xss.flatten.countP (fun x => x.le bounds[i])) := by
  rw [bucket_counts bounds hasc h0 e]; simp [hi]

/-- counts never decrease from one bound to the next -/
theorem buckets_monotone_in_i (bounds : List FV) (hasc : Ascending bounds) (h0 : Hist) (e : Hist.new bounds = some h0)
    (xss : List (List FV)) : (h0.recordBatches xss).buckets.Pairwise (· ≤ ·) := by
  rw [bucket_counts bounds hasc h0 e, List.pairwise_map]
  refine List.Pairwise.imp ?_ hasc
  intro a b hab
  exact List.countP_mono_left (fun x _ hx => FV.le_trans hx hab)

/-- counts never decrease over time (from one render to the next): for ANY histogram state and ANY further batches,
    every bucket and the total count only grow -/
theorem buckets_monotone_in_time (h : Hist) (yss : List (List FV)) :
    leAll h.buckets (h.recordBatches yss).buckets ∧ h.count ≤ (h.recordBatches yss).count
    ∧ ∀ i, h.buckets.getD i 0 ≤ (h.recordBatches yss).buckets.getD i 0 := by
  have gen : ∀ (yss : List (List FV)) (h : Hist),
      leAll h.buckets (h.recordBatches yss).buckets ∧ h.count ≤ (h.recordBatches yss).count := by
    intro yss
    induction yss with
    | nil => intro h; exact ⟨leAll_refl _, Nat.le_refl _⟩
    | cons ys yss ih =>
      intro h
      have := ih (h.recordMany ys)
      simp only [Hist.recordBatches, List.foldl_cons] at this ⊢
      refine ⟨leAll_trans (Hist.recordMany_leAll h ys) this.1, Nat.le_trans ?_ this.2⟩
      simp [Hist.recordMany]
  exact ⟨(gen yss h).1, (gen yss h).2, leAll_getD (gen yss h).1⟩

/-- the `+Inf` bucket: `render` prints `count()` for it; that is the number of all samples (NaN and ±∞ included), and no
    bucket exceeds it -/
theorem inf_bucket_is_count (bounds : List FV) (hasc : Ascending bounds) (h0 : Hist) (e : Hist.new bounds = some h0)
    (xss : List (List FV)) :
    (h0.recordBatches xss).infBucket = xss.flatten.length
    ∧ ∀ c ∈ (h0.recordBatches xss).buckets, c ≤ (h0.recordBatches xss).infBucket := by
  have hc : (h0.recordBatches xss).count = xss.flatten.length := by
    rw [batch_equiv bounds hasc h0 e, (Hist.recordAll_fields _ h0).2.2]
    unfold Hist.new at e; split at e
    · cases e
    · cases e; simp
  refine ⟨hc, ?_⟩
  intro c hcm
  rw [bucket_counts bounds hasc h0 e] at hcm
  simp only [List.mem_map] at hcm
  obtain ⟨b, _, rfl⟩ := hcm
  simp only [Hist.infBucket, hc]
  exact List.countP_le_length

/-- the sum printed as `_sum` is the exact sum of the finite samples, or the NaN/±∞ that IEEE addition gives as soon as
    a NaN / an infinity (both infinities) was recorded — independent of the batching -/
theorem sum_covers_all (bounds : List FV) (hasc : Ascending bounds) (h0 : Hist) (e : Hist.new bounds = some h0)
    (xss : List (List FV)) : (h0.recordBatches xss).sum = xss.flatten.foldl FSum.add {} := by
  rw [batch_equiv bounds hasc h0 e, (Hist.recordAll_fields _ h0).2.1]
  unfold Hist.new at e; split at e
  · cases e
  · cases e; rfl

/-! ## (b) which distribution a name gets -/

def Dist.isHist : Dist → Bool
  | .hist .. => true
  | .summ .. => false

/-- a fresh histogram with the given bounds -/
def freshHist (bs : List Int) : Dist := .hist bs (bs.map (fun _ => 0)) 0 0

/-- **precedence**, on the configuration `DistributionBuilder::new` produces (overrides sorted by the derived order of
    `Matcher`): `get_distribution name` is
    * the histogram of an override that matches `name` and is least among ALL matching overrides — so a Full matcher
      beats every Prefix and Suffix matcher, a Prefix matcher every Suffix matcher (`rank`: Full 0, Prefix 1, Suffix 2);
    * if no override matches: the histogram of the global buckets if set, else a summary. -/
theorem precedence (l : List (Matcher × List Int)) (cfg : Cfg) (hov : cfg.overrides = sortMatchers l) (name : Str) :
    (∀ mb, cfg.overrides.find? (fun mb => mb.1.matches name) = some mb →
        mb ∈ l ∧ mb.1.matches name = true
        ∧ (∀ mb' ∈ l, mb'.1.matches name = true → mb.1.rank ≤ mb'.1.rank ∧ Matcher.lt mb'.1 mb.1 = false)
        ∧ newDist cfg name = freshHist mb.2)
    ∧ (cfg.overrides.find? (fun mb => mb.1.matches name) = none →
        (∀ mb ∈ l, mb.1.matches name = false)
        ∧ newDist cfg name = (match cfg.buckets with | some bs => freshHist bs | none => .summ 0 0)) := by
  constructor
  · intro mb h
    have hs : Sorted cfg.overrides := by rw [hov]; exact sortMatchers_sorted l
    obtain ⟨h1, h2, h3⟩ := find_sorted_least _ cfg.overrides hs mb h
    rw [hov, mem_sortMatchers] at h1
    refine ⟨h1, h2, ?_, ?_⟩
    · intro mb' hm hp
      have hm' : mb' ∈ cfg.overrides := by rw [hov, mem_sortMatchers]; exact hm
      exact ⟨rank_le_of_not_lt (h3 mb' hm' hp), h3 mb' hm' hp⟩
    · unfold newDist; rw [h]; rfl
  · intro h
    refine ⟨?_, ?_⟩
    · intro mb hm
      have hm' : mb ∈ cfg.overrides := by rw [hov, mem_sortMatchers]; exact hm
      exact (find_none_iff _ _).mp h mb hm'
    · unfold newDist; rw [h]; cases cfg.buckets <;> rfl

/-- the three clauses of the documentation, for the raw metric name and the raw patterns given to
    `set_buckets_for_metric`: matching is SANITISED name against SANITISED pattern. -/
theorem precedence_raw (global : Option (List Int)) (calls : List (Matcher × List Int)) (name : Str) :
    (∀ mb, (cfgOf global calls).overrides.find? (fun mb => mb.1.matches (sanitizeMetricName name)) = some mb →
        mb ∈ overridesOf calls ∧ mb.1.matches (sanitizeMetricName name) = true
        ∧ (∃ c ∈ calls, mb.1 = c.1.sanitized)
        ∧ (∀ mb' ∈ overridesOf calls, mb'.1.matches (sanitizeMetricName name) = true → mb.1.rank ≤ mb'.1.rank)
        ∧ distributionFor global calls name = freshHist mb.2)
    ∧ ((∀ mb ∈ overridesOf calls, mb.1.matches (sanitizeMetricName name) = false) →
        distributionFor global calls name = (match global with | some bs => freshHist bs | none => .summ 0 0)) := by
  have p := precedence (overridesOf calls) (cfgOf global calls) rfl (sanitizeMetricName name)
  constructor
  · intro mb h
    obtain ⟨h1, h2, h3, h4⟩ := p.1 mb h
    exact ⟨h1, h2, overridesOf_sanitised calls mb h1, fun mb' hm hp => (h3 mb' hm hp).1, h4⟩
  · intro hnone
    have : (cfgOf global calls).overrides.find? (fun mb => mb.1.matches (sanitizeMetricName name)) = none := by
      apply (find_none_iff _ _).mpr
      intro mb hm
      have : mb ∈ overridesOf calls := by simpa [cfgOf, mem_sortMatchers] using hm
      exact hnone mb this
    exact (p.2 this).2

/-- a Full override that matches wins over everything else -/
theorem full_wins (l : List (Matcher × List Int)) (cfg : Cfg) (hov : cfg.overrides = sortMatchers l) (name : Str)
    (s : Str) (bs : List Int) (hm : (Matcher.full s, bs) ∈ l) (hmatch : (Matcher.full s).matches name = true) :
    ∃ mb ∈ l, mb.1.rank = 0 ∧ mb.1.matches name = true ∧ newDist cfg name = freshHist mb.2 := by
  cases hf : cfg.overrides.find? (fun mb => mb.1.matches name) with
  | none =>
    have := ((precedence l cfg hov name).2 hf).1 _ hm
    rw [hmatch] at this; cases this
  | some mb =>
    obtain ⟨h1, h2, h3, h4⟩ := (precedence l cfg hov name).1 mb hf
    have := (h3 _ hm hmatch).1
    exact ⟨mb, h1, by simpa [Matcher.rank] using this, h2, h4⟩

/-- no Full override matches, a Prefix override does: a matching Prefix override wins (never a Suffix one) -/
theorem prefix_wins (l : List (Matcher × List Int)) (cfg : Cfg) (hov : cfg.overrides = sortMatchers l) (name : Str)
    (hnofull : ∀ mb ∈ l, mb.1.rank = 0 → mb.1.matches name = false)
    (s : Str) (bs : List Int) (hm : (Matcher.pfx s, bs) ∈ l) (hmatch : (Matcher.pfx s).matches name = true) :
    ∃ mb ∈ l, mb.1.rank = 1 ∧ mb.1.matches name = true ∧ newDist cfg name = freshHist mb.2 := by
  cases hf : cfg.overrides.find? (fun mb => mb.1.matches name) with
  | none =>
    have := ((precedence l cfg hov name).2 hf).1 _ hm
    rw [hmatch] at this; cases this
  | some mb =>
    obtain ⟨h1, h2, h3, h4⟩ := (precedence l cfg hov name).1 mb hf
    have hle : mb.1.rank ≤ 1 := by simpa [Matcher.rank] using (h3 _ hm hmatch).1
    have hne : mb.1.rank ≠ 0 := by
      intro h0
      have := hnofull mb h1 h0
      rw [h2] at this; cases this
    exact ⟨mb, h1, by omega, h2, h4⟩

/-- only Suffix overrides match: one of them wins over the global buckets -/
theorem suffix_wins (l : List (Matcher × List Int)) (cfg : Cfg) (hov : cfg.overrides = sortMatchers l) (name : Str)
    (hno : ∀ mb ∈ l, mb.1.rank ≤ 1 → mb.1.matches name = false)
    (s : Str) (bs : List Int) (hm : (Matcher.sfx s, bs) ∈ l) (hmatch : (Matcher.sfx s).matches name = true) :
    ∃ mb ∈ l, mb.1.rank = 2 ∧ mb.1.matches name = true ∧ newDist cfg name = freshHist mb.2 := by
  cases hf : cfg.overrides.find? (fun mb => mb.1.matches name) with
  | none =>
    have := ((precedence l cfg hov name).2 hf).1 _ hm
    rw [hmatch] at this; cases this
  | some mb =>
    obtain ⟨h1, h2, h3, h4⟩ := (precedence l cfg hov name).1 mb hf
    have hle : mb.1.rank ≤ 2 := by simpa [Matcher.rank] using (h3 _ hm hmatch).1
    have hne : ¬ mb.1.rank ≤ 1 := by
      intro h0
      have := hno mb h1 h0
      rw [h2] at this; cases this
    exact ⟨mb, h1, by omega, h2, h4⟩

/-- **type_iff_buckets_apply**: the `# TYPE` line says `histogram` exactly when the distribution created for the name is
    a histogram, exactly when some override matches or global buckets are set; otherwise it says `summary`. -/
theorem type_iff_buckets_apply (cfg : Cfg) (name : Str) :
    (distType cfg name = "histogram".toList ↔ Dist.isHist (newDist cfg name) = true)
    ∧ (Dist.isHist (newDist cfg name) = true ↔
        (cfg.overrides.any (fun mb => mb.1.matches name) = true ∨ cfg.buckets.isSome = true))
    ∧ (distType cfg name = "histogram".toList ∨ distType cfg name = "summary".toList) := by
  have hfind : cfg.overrides.any (fun mb => mb.1.matches name) = true ↔
      (cfg.overrides.find? (fun mb => mb.1.matches name)).isSome = true := by
    rw [List.find?_isSome, List.any_eq_true]
  unfold distType newDist
  cases hb : cfg.buckets with
  | some bs =>
    cases hf : cfg.overrides.find? (fun mb => mb.1.matches name) with
    | some mb => simp [Dist.isHist]
    | none => simp [Dist.isHist]
  | none =>
    cases hf : cfg.overrides.find? (fun mb => mb.1.matches name) with
    | some mb =>
      have : cfg.overrides.any (fun mb => mb.1.matches name) = true := hfind.mpr (by rw [hf]; rfl)
      simp [Dist.isHist, this]
    | none =>
      have : cfg.overrides.any (fun mb => mb.1.matches name) = false := by
        cases ha : cfg.overrides.any (fun mb => mb.1.matches name) with
        | false => rfl
        | true => have := hfind.mp ha; rw [hf] at this; cases this
      simp [Dist.isHist, this]

/-! ### the whole recorder: under which family name and type a histogram name is exposed -/

/-- the distribution part of `Inner::render`: after the counter and gauge families, one family per entry of the
    (drained) distribution map, whose `# TYPE` is `get_distribution_type` of the map's key — the PLAIN sanitised name — while
    only `renderFamily` (= `family_name`) sees the described unit -/
theorem render_distribution_families (s0 : St) :
    ∃ pre, (renderLines s0).2 = pre ++ (drain s0).dists.map (fun f =>
      renderFamily s0.cfg.unitSuffix f.1 (lookup (drain s0).descs f.1) (distType s0.cfg f.1)
        (f.2.map (fun ld => distSeries s0.cfg.quantiles ld.1 ld.2))) :=
  ⟨_, rfl⟩

/-- the `# TYPE` line of a rendered family carries exactly the type it was given, under the family name `name` +
    unit suffix (the suffix only when unit suffixes are enabled and the name was described with a unit) -/
theorem render_family_type_line (us : Bool) (name : Str) (desc : Option (Str × Option MUnit)) (ty : Str)
    (series : List Series) :
    Line.type (familyName name (match desc with | some (_, u) => if us then u else none | none => none)) ty
      ∈ renderFamily us name desc ty series := by
  unfold renderFamily
  cases desc with
  | none => simp
  | some du => obtain ⟨d, u⟩ := du; simp

/-- **exposed_type_iff_buckets_apply**: for EVERY configuration and EVERY history of describe / record / upkeep / render
    operations (any units, unit suffixes on or off, descriptions before or after the first drain, any number of label
    sets), every distribution `ld` of every family `f` the recorder renders satisfies: the family's `# TYPE` is
    `histogram` exactly when `ld` is a histogram (is rendered as `_bucket` lines), `summary` exactly when it is a summary
    (quantile lines), and it is a histogram exactly when an override matches the plain sanitised name or global buckets
    are set.  The type line and the series of a family can never disagree. -/
theorem exposed_type_iff_buckets_apply (cfg : Cfg) (ops : List Op) :
    ∀ f ∈ (drain (run { cfg := cfg } ops)).dists, ∀ ld ∈ f.2,
      (distType cfg f.1 = "histogram".toList ↔ isHist ld.2 = true)
      ∧ (distType cfg f.1 = "summary".toList ↔ isHist ld.2 = false)
      ∧ (isHist ld.2 = true ↔ (cfg.overrides.any (fun mb => mb.1.matches f.1) = true ∨ cfg.buckets.isSome = true)) := by
  intro f hf ld hld
  have hinv : KindInv cfg (drain (run { cfg := cfg } ops)).dists := by
    have h0 : KindInv ({ cfg := cfg } : St).cfg ({ cfg := cfg } : St).dists := by intro f hf; cases hf
    have h1 := run_kind ops _ h0
    have h2 := drain_kind _ h1
    rw [drain_cfg, run_cfg] at h2
    exact h2
  have hk := hinv f hf ld hld
  have same : ∀ d : Dist, isHist d = Dist.isHist d := by intro d; cases d <;> rfl
  obtain ⟨t1, t2, t3⟩ := type_iff_buckets_apply cfg f.1
  rw [hk, same]
  refine ⟨t1, ?_, t2⟩
  constructor
  · intro hs
    cases hb : Dist.isHist (newDist cfg f.1) with
    | false => rfl
    | true =>
      have := t1.mpr hb
      rw [hs] at this
      exact absurd this (by decide)
  · intro hb
    rcases t3 with h | h
    · have := t1.mp h; rw [hb] at this; cases this
    · exact h

/-- neither the type nor the distribution of an exposed histogram name depends on the unit it was described with or on
    the unit-suffix switch; only the family name does -/
theorem exposed_ignores_unit (us : Bool) (global : Option (List Int)) (calls : List (Matcher × List Int)) (name : Str)
    (unit : Option MUnit) :
    exposedFor us global calls name unit
      = (familyName (sanitizeMetricName name) (if us then unit else none), typeFor global calls name,
         distributionFor global calls name) := rfl

/-- **builder_never_builds_empty_histogram**: if every `set_buckets_for_metric` call of a chain was accepted (and the
    global buckets, if any, passed `set_buckets`), the override map is the one `overridesOf` models, every call had a
    non-empty bound list, and no name ever gets a histogram with an empty bound list — `Distribution::new_histogram`'s
    `expect("buckets should never be empty")` cannot fire in the drain. -/
theorem builder_never_builds_empty_histogram (global : Option (List Int)) (hg : ∀ bs, global = some bs → setBucketsChecked bs = some bs)
    (calls : List (Matcher × List Int)) (ovs : List (Matcher × List Int)) (h : overridesOfChecked calls = some ovs)
    (name : Str) :
    ovs = overridesOf calls ∧ (∀ c ∈ calls, c.2 ≠ [])
    ∧ (∀ bs cs n sm, distributionFor global calls name = .hist bs cs n sm → bs ≠ [] ∧ (Hist.new (bs.map FV.fin)).isSome = true) := by
  obtain ⟨e, h1, h2⟩ := foldlM_checked calls [] ovs (by simp) h
  refine ⟨e, h2, ?_⟩
  intro bs cs n sm hd
  have hne : bs ≠ [] := by
    have p := precedence (overridesOf calls) (cfgOf global calls) rfl (sanitizeMetricName name)
    cases hf : (cfgOf global calls).overrides.find? (fun mb => mb.1.matches (sanitizeMetricName name)) with
    | some mb =>
      obtain ⟨hm, _, _, hnd⟩ := p.1 mb hf
      have : distributionFor global calls name = freshHist mb.2 := hnd
      rw [this] at hd
      simp only [freshHist, Dist.hist.injEq] at hd
      rw [← hd.1]
      exact h1 mb (by rw [e]; exact hm)
    | none =>
      have hnd := (p.2 hf).2
      have : distributionFor global calls name = (match (cfgOf global calls).buckets with | some bs => freshHist bs | none => .summ 0 0) := hnd
      rw [this] at hd
      cases hgl : global with
      | none => simp [cfgOf, hgl] at hd
      | some gb =>
        simp only [cfgOf, hgl, freshHist, Dist.hist.injEq] at hd
        rw [← hd.1]
        have := hg gb hgl
        intro hnil
        rw [hnil] at this
        simp [setBucketsChecked, guardNonEmpty] at this
  refine ⟨hne, ?_⟩
  unfold Hist.new
  cases bs with
  | nil => exact absurd rfl hne
  | cons b bs => simp

/-- the guards as coded -/
theorem src_builder_guards :
    Generated.c15_builder_guards
      = ["set_quantiles: if quantiles.is_empty() { return Err(BuildError::EmptyBucketsOrQuantiles); }",
         "set_bucket_duration: if value.is_zero() { return Err(BuildError::ZeroBucketDuration); }",
         "set_buckets: if values.is_empty() { return Err(BuildError::EmptyBucketsOrQuantiles); }",
         "set_buckets_for_metric: if values.is_empty() { return Err(BuildError::EmptyBucketsOrQuantiles); }"]
    ∧ guardNonEmpty 0 = false ∧ guardDuration 0 = false ∧ (∀ n, guardNonEmpty (n + 1) = true) := by
  refine ⟨by decide, rfl, rfl, fun n => by simp [guardNonEmpty]⟩

/-- the two decision sites of the recorder, and the loops they run, as modelled: the drain asks `get_distribution` with the
    name `key_to_parts` returned; `render` asks `get_distribution_type` with the map key BEFORE `family_name` shadows `name`;
    both walk the sorted overrides in order and take the first `matcher.matches(name)`; `Matcher::matches` is equality /
    `starts_with` / `ends_with`; `RollingSummary::add` truncates to `max_buckets - 1` before inserting one bucket -/
theorem src_exposure_sites :
    Generated.c15_drain_get_distribution = "self.distribution_builder.get_distribution(name.as_str())"
    ∧ Generated.c15_render_dist_loop_lets
        = ["(desc, unit) = self.describe_family(&descriptions, name.as_str())",
           "distribution_type = self.distribution_builder.get_distribution_type(name.as_str())",
           "name = family_name(name, unit)"]
    ∧ Generated.c15_get_distribution_loop
        = "for (matcher, buckets) in overrides { if matcher.matches(name) { return Distribution::new_histogram(buckets); } }"
    ∧ Generated.c15_get_distribution_type_loop
        = "for (matcher, _) in overrides { if matcher.matches(name) { return \"histogram\"; } }"
    ∧ Generated.c15_matcher_matches_arms
        = ["Matcher::Prefix(prefix) => key.starts_with(prefix)", "Matcher::Suffix(suffix) => key.ends_with(suffix)",
           "Matcher::Full(full) => key == full"]
    ∧ Generated.c15_rolling_add_truncate = "self.buckets.truncate(self.max_buckets - 1);"
    ∧ Generated.c15_rolling_new_vec = "Vec::new()"
    ∧ Generated.c15_render_hist_arm_loop = "for (le, count) in histogram.buckets()"
    ∧ Generated.c15_render_quantile_value = "snapshot.quantile(quantile.value()).unwrap_or(0.0)" := by decide

/-- `set_buckets_for_metric` keys the override map by the SANITISED matcher: every key `get_distribution` ever sees is
    the sanitised form of a pattern that was given -/
theorem overrides_sanitised (calls : List (Matcher × List Int)) :
    ∀ x ∈ (cfgOf none calls).overrides, ∃ c ∈ calls, x.1 = c.1.sanitized := by
  intro x hx
  have : x ∈ overridesOf calls := by simpa [cfgOf, mem_sortMatchers] using hx
  exact overridesOf_sanitised calls x this

/-- the sort of `DistributionBuilder::new` keeps exactly the given overrides and puts them in order -/
theorem sort_is_sorted_permutation (l : List (Matcher × List Int)) :
    Sorted (sortMatchers l) ∧ (∀ x, x ∈ sortMatchers l ↔ x ∈ l) ∧ (sortMatchers l).length = l.length :=
  ⟨sortMatchers_sorted l, fun x => mem_sortMatchers x l, sortMatchers_length l⟩

/-! ## (c) the rolling window -/

/-- the alignment loop of `add` equals its closed form wherever the code reaches it -/
theorem align_closed_form (d now ref : Nat) (hd : 1 ≤ d) (h : ref + d ≤ now) :
    alignLoop d now (now + 1) (ref + d) = ref + d * ((now - ref) / d) := alignLoop_closed d now ref hd h

/-- the invariant holds after any non-decreasing sequence of adds (buckets latest-first, begins ≥ one duration apart,
    each retained sample in the bucket covering its timestamp, a kept sample lost only with an expired bucket) -/
theorem window_invariant {α : Type} (keep : α → Bool) (n d : Nat) (hd : 1 ≤ d) (hn : 1 ≤ n) (adds : List (α × Nat))
    (hmono : adds.Pairwise (fun a b => a.2 ≤ b.2)) :
    ∃ T, Inv keep d n (runT keep n d adds).buckets adds T ∧ ∀ now, (∀ a ∈ adds, a.2 ≤ now) → T ≤ now := by
  have nd : NonDecr 0 adds := nonDecr_of_pairwise adds 0 hmono (fun _ _ => Nat.zero_le _)
  obtain ⟨T, i, h⟩ := Inv.run keep d n hd hn adds [] [] 0 (Inv.init keep d n) nd
  refine ⟨T, ?_, fun now hall => h now (Nat.zero_le _) hall⟩
  rw [(runT_fields keep n d adds).1]
  simpa using i

/-- **window_sound**: `n ≥ 1` buckets of duration `d ≥ 1` (window `W = n·d`), samples added at non-decreasing times
    `t₁ ≤ … ≤ tₖ ≤ now`, each sample carrying its own timestamp.  Then the snapshot at `now`
    * contains only samples that were added, that `Summary::add` keeps (not ±∞), and that are younger than the window:
      `tᵢ + W > now`;
    * contains every kept sample with `tᵢ + W > now + d` (nothing recent is lost — the window is bucket-granular, so a
      sample may leave up to one bucket duration early, never earlier);
    and `count()` is the number of all adds. -/
theorem window_sound {α : Type} (keep : α → Bool) (n d : Nat) (hd : 1 ≤ d) (hn : 1 ≤ n) (adds : List (α × Nat))
    (hmono : adds.Pairwise (fun a b => a.2 ≤ b.2)) (now : Nat) (hnow : ∀ a ∈ adds, a.2 ≤ now) :
    let r := runT keep n d adds
    (∀ a ∈ r.snapshot now, a ∈ adds ∧ keep a.1 = true ∧ now < a.2 + d * n)
    ∧ (∀ a ∈ adds, keep a.1 = true → now + d < a.2 + d * n → a ∈ r.snapshot now)
    ∧ r.count = adds.length := by
  obtain ⟨T, inv, hT⟩ := window_invariant keep n d hd hn adds hmono
  have hTn := hT now hnow
  have hW := (runT_fields keep n d adds).2.2.2.1
  refine ⟨?_, ?_, (runT_fields keep n d adds).2.2.2.2⟩
  · intro a ha
    obtain ⟨b, hb, hl, hab⟩ := (mem_snapshot _ _ _).mp ha
    obtain ⟨s1, _, s3, s4⟩ := inv.sound b hb a hab
    rw [hW] at hl
    exact ⟨s3, s4, by omega⟩
  · intro a ha hk hrecent
    rcases inv.complete a ha hk with ⟨b, hb, hab⟩ | h
    · apply (mem_snapshot _ _ _).mpr
      refine ⟨b, hb, ?_, hab⟩
      have := (inv.sound b hb a hab).2.1
      rw [hW]; omega
    · omega

/-- multiplicities: if the time-stamped samples are pairwise distinct (tag them with their index), no sample occurs
    twice in a snapshot — for ANY timestamps.  With `window_sound` this makes the two inclusions multiset inclusions. -/
theorem window_no_duplicates {α : Type} (keep : α → Bool) (n d : Nat) (adds : List (α × Nat)) (hnd : adds.Nodup)
    (now : Nat) : ((runT keep n d adds).snapshot now).Nodup := snapshot_nodup keep n d adds hnd now

/-- the same for the model as the driver runs it (plain values, no timestamps kept): its snapshot is the value image of a
    list `S` of time-stamped samples with the two window properties -/
theorem window_sound_plain (n d : Nat) (hd : 1 ≤ d) (hn : 1 ≤ n) (adds : List (FV × Nat))
    (hmono : adds.Pairwise (fun a b => a.2 ≤ b.2)) (now : Nat) (hnow : ∀ a ∈ adds, a.2 ≤ now) :
    let r := adds.foldl (fun r a => r.add keepFV a.1 a.2) (Rolling.new n d)
    ∃ S : List (FV × Nat), r.snapshot now = S.map Prod.fst
      ∧ (∀ a ∈ S, a ∈ adds ∧ a.1.isInfinite = false ∧ now < a.2 + d * n)
      ∧ (∀ a ∈ adds, a.1.isInfinite = false → now + d < a.2 + d * n → a ∈ S)
      ∧ r.count = adds.length := by
  obtain ⟨h1, h2, h3⟩ := window_sound keepFV n d hd hn adds hmono now hnow
  refine ⟨(runT keepFV n d adds).snapshot now, ?_, ?_, ?_, ?_⟩
  · rw [run_map, snapshot_map]
  · intro a ha
    obtain ⟨x, y, z⟩ := h1 a ha
    exact ⟨x, by simpa [keepFV] using y, z⟩
  · intro a ha hk hr
    exact h2 a ha (by simpa [keepFV] using hk) hr
  · rw [run_map]; simpa [Rolling.map] using h3

/-- **count_covers_all**: `count()` (printed as `_count`) is the number of adds whatever the timestamps are — also for
    values that are dropped because they are too old or infinite — and `_sum` accumulates every sample -/
theorem count_covers_all (n d : Nat) (samples : List (FV × Nat)) :
    ((SummaryDist.new n d).recordSamples samples).rolling.count = samples.length
    ∧ ((SummaryDist.new n d).recordSamples samples).sum = (samples.map Prod.fst).foldl FSum.add {} := by
  have gen : ∀ (samples : List (FV × Nat)) (s : SummaryDist),
      (s.recordSamples samples).rolling.count = s.rolling.count + samples.length
      ∧ (s.recordSamples samples).sum = (samples.map Prod.fst).foldl FSum.add s.sum := by
    intro samples
    induction samples with
    | nil => intro s; simp [SummaryDist.recordSamples]
    | cons a rest ih =>
      intro s
      have := ih { rolling := s.rolling.add keepFV a.1 a.2, sum := s.sum.add a.1 }
      simp only [SummaryDist.recordSamples, List.foldl_cons, List.length_cons, List.map_cons] at this ⊢
      refine ⟨?_, this.2⟩
      rw [this.1, (add_params keepFV s.rolling a.1 a.2).2.2.2]; omega
  have := gen samples (SummaryDist.new n d)
  simpa [SummaryDist.new, Rolling.new] using this

/-- **empty_window_quantile_zero**: when no retained sample is inside the window (nothing recorded, everything expired,
    or only infinities recorded) every quantile line shows `0` (`snapshot.quantile(q).unwrap_or(0.0)`), while `_sum` and
    `_count` still cover all samples -/
theorem empty_window_quantile_zero (s : SummaryDist) (now : Nat) (h : s.rolling.snapshot now = []) :
    s.render now = (.zero, s.sum.val, s.rolling.count) := by
  simp [SummaryDist.render, quantileTok, h]

/-- … and a non-empty window is never shown as the `0` placeholder: the quantile is then an estimate over exactly the
    retained samples -/
theorem nonempty_window_quantile (s : SummaryDist) (now : Nat) (h : s.rolling.snapshot now ≠ []) :
    s.render now = (.within (s.rolling.snapshot now), s.sum.val, s.rolling.count) := by
  simp [SummaryDist.render, quantileTok, h]

/-- whatever is older than the whole window is gone: at `now ≥ t_last + W` the snapshot is empty -/
theorem all_expired {α : Type} (keep : α → Bool) (n d : Nat) (hd : 1 ≤ d) (hn : 1 ≤ n) (adds : List (α × Nat))
    (hmono : adds.Pairwise (fun a b => a.2 ≤ b.2)) (now : Nat) (hnow : ∀ a ∈ adds, a.2 + d * n ≤ now) :
    (runT keep n d adds).snapshot now = [] := by
  have hle : ∀ a ∈ adds, a.2 ≤ now := fun a ha => by have := hnow a ha; omega
  have h1 := (window_sound keep n d hd hn adds hmono now hle).1
  cases hs : (runT keep n d adds).snapshot now with
  | nil => rfl
  | cons a rest =>
    have := h1 a (by rw [hs]; simp)
    have := hnow a this.1
    omega

/-! ### quantile 0 and quantile 1: the sketch's min/max across the merge of a snapshot -/

/-- **finding** (model of `DDSketch::merge` 0.3.0 as `Summary::merge` calls it; the harness corpus reproduces it on the
    real `Distribution` and through a real recorder's `render()`): two buckets of 10, `+∞` recorded at t = 0 (its
    bucket's sketch stays empty), `-1.0` at t = 10.  The window at t = 10 holds exactly the sample -1.0, but the merge
    takes over the empty sketch's initial min/max because the accumulated sketch has no POSITIVE sample:
    `quantile="0"` shows +Inf and `quantile="1"` shows -Inf.  With the repaired `Summary::merge` (empty summaries are
    skipped) both show -1.0. -/
theorem quantile_escapes_window_unfixed :
    let adds : List (FV × Nat) := [(.pinf, 0), (.fin (-1024), 10)]
    let r := adds.foldl (fun r a => r.add keepFV a.1 a.2) (Rolling.new 2 10)
    r.snapshot 10 = [.fin (-1024)]
    ∧ renderQ0 (snapshotMinMax false r 10) = .pinf ∧ renderQ1 (snapshotMinMax false r 10) = .ninf
    ∧ renderQ0 (snapshotMinMax true r 10) = .fin (-1024) ∧ renderQ1 (snapshotMinMax true r 10) = .fin (-1024) := by
  decide

/-- **with the repair**: for every rolling summary whose live buckets hold finite samples only (what `Summary::add`
    lets through, NaN aside), the values shown for `quantile="0"` and `quantile="1"` are members of the snapshot — so
    they lie between its smallest and largest sample — and `0` exactly when the window is empty. -/
theorem quantile_ends_in_window_fixed (r : Rolling FV) (now : Nat)
    (hfin : ∀ x ∈ r.snapshot now, isFin x = true) :
    let m := snapshotMinMax true r now
    m.total = (r.snapshot now).length
    ∧ (r.snapshot now = [] → renderQ0 m = .fin 0 ∧ renderQ1 m = .fin 0)
    ∧ (r.snapshot now ≠ [] → renderQ0 m ∈ r.snapshot now ∧ renderQ1 m ∈ r.snapshot now) := by
  have hb : ∀ b ∈ liveAt r.maxBucketDuration now r.buckets, ∀ x ∈ b.samples, isFin x = true := by
    intro b hb x hx
    exact hfin x (by simp only [Rolling.snapshot, List.mem_flatMap]; exact ⟨b, hb, hx⟩)
  have g := Good.buckets (liveAt r.maxBucketDuration now r.buckets) {} [] Good.empty hb
  simp only [List.nil_append] at g
  obtain ⟨g1, _, _, g4⟩ := g
  refine ⟨g1, ?_, ?_⟩
  · intro he
    have : (snapshotMinMax true r now).total = 0 := by
      simp only [snapshotMinMax, g1]; simp only [Rolling.snapshot] at he; simp [he]
    simp [renderQ0, renderQ1, this]
  · intro hne
    have hpos : 0 < (snapshotMinMax true r now).total := by
      simp only [snapshotMinMax, g1]
      simp only [Rolling.snapshot] at hne
      exact List.length_pos_iff.mpr hne
    have hne0 : ((snapshotMinMax true r now).total == 0) = false := by simp; omega
    simp only [renderQ0, renderQ1, hne0, Bool.false_eq_true, if_false]
    exact g4 hpos

/-! ### every quantile strictly between 0 and 1: the sketch answers with the bin of a sample of the window -/

/-- **quantile_in_window**: for ANY rolling summary, time and configured quantile `num/den ≤ 1`, the value
    printed for that quantile is
    * the `0` placeholder exactly when the window is empty (`Ok(None)` → `unwrap_or(0.0)`);
    * `0.0` only if a sample of the window is in the sketch's zero class (`|v| ≤ min_possible`, or NaN);
    * otherwise `±value(key)` of the bin of a sample `v` that IS in the window (`v ∈ snapshot now`) — so it lies, up to
      the bin's relative error, between the smallest and the largest sample of the window, and by `window_sound` no
      sample older than the window can be that `v`.
    (`value(key v)` within alpha·|v| of `v` is the floating-point part of `sketches-ddsketch`; the harness checks it on
    every snapshot at the documented alpha = 1e-4.) -/
theorem quantile_in_window (minU : Nat) (r : Rolling FV) (now num den : Nat) (hnum : num ≤ den) :
    (snapshotQuantile minU r now num den = .none ↔ r.snapshot now = [])
    ∧ (snapshotQuantile minU r now num den = .zero → ∃ v ∈ r.snapshot now, clsOf minU v = .zero)
    ∧ (∀ v, snapshotQuantile minU r now num den = .bin v → v ∈ r.snapshot now ∧ clsOf minU v ≠ .zero) := by
  have w := Within.snapshot minU r now
  have hrank : ∀ c, 0 < c → rankOf num den c < c := by
    intro c hc
    unfold rankOf
    have h1 : num * (c - 1) ≤ den * (c - 1) := Nat.mul_le_mul_right _ hnum
    have h2 : num * (c - 1) / den ≤ c - 1 := by
      apply Nat.div_le_of_le_mul
      exact h1
    omega
  simp only [snapshotQuantile]
  generalize hsk : snapshotSketch minU r now = sk at w
  have hcount := w.count
  have hrk : 0 < sk.count → rankOf num den sk.count < sk.count := hrank sk.count
  generalize rankOf num den sk.count = rk at hrk ⊢
  refine ⟨⟨?_, ?_⟩, ?_, ?_⟩
  · intro h
    unfold Sketch.atRank at h
    by_cases h0 : sk.count = 0
    · rw [h0] at hcount; exact List.length_eq_zero_iff.mp hcount.symm
    · have hpos : 0 < sk.count := Nat.pos_of_ne_zero h0
      have hr := hrk hpos
      have hb : (sk.count == 0) = false := by simpa using h0
      simp only [hb, Bool.false_eq_true, if_false] at h
      split at h
      · rename_i hlt
        cases hs : storeAtRank (fun a b => b.le a) sk.neg (sk.neg.length - rk - 1) with
        | some x => rw [hs] at h; cases h
        | none =>
          have := storeAtRank_none _ _ _ hs
          rw [this] at hlt; simp at hlt
      · split at h
        · cases h
        · rename_i h1 h2
          cases hs : storeAtRank FV.le sk.pos (rk - sk.zero - sk.neg.length) with
          | some x => rw [hs] at h; cases h
          | none =>
            have := storeAtRank_none _ _ _ hs
            simp only [Sketch.count, this, List.length_nil] at hr
            omega
  · intro h
    have : sk.count = 0 := by rw [hcount, h]; rfl
    simp [Sketch.atRank, this]
  · intro h
    unfold Sketch.atRank at h
    split at h
    · cases h
    · split at h
      · cases hs : storeAtRank (fun a b => b.le a) sk.neg (sk.neg.length - rk - 1) with
        | some x => rw [hs] at h; cases h
        | none => rw [hs] at h; cases h
      · split at h
        · rename_i h1 h2
          exact w.zero (by omega)
        · cases hs : storeAtRank FV.le sk.pos (rk - sk.zero - sk.neg.length) with
          | some x => rw [hs] at h; cases h
          | none => rw [hs] at h; cases h
  · intro v h
    unfold Sketch.atRank at h
    split at h
    · cases h
    · split at h
      · cases hs : storeAtRank (fun a b => b.le a) sk.neg (sk.neg.length - rk - 1) with
        | some x =>
          rw [hs] at h; cases h
          obtain ⟨a, b⟩ := w.neg _ (storeAtRank_mem _ _ _ _ hs)
          exact ⟨a, by rw [b]; decide⟩
        | none => rw [hs] at h; cases h
      · split at h
        · cases h
        · cases hs : storeAtRank FV.le sk.pos (rk - sk.zero - sk.neg.length) with
          | some x =>
            rw [hs] at h; cases h
            obtain ⟨a, b⟩ := w.pos _ (storeAtRank_mem _ _ _ _ hs)
            exact ⟨a, by rw [b]; decide⟩
          | none => rw [hs] at h; cases h

/-- … and with the window theorem: under non-decreasing timestamps no sample that is older than the window (nor an
    infinity) can be the one a quantile answers with -/
theorem quantile_ignores_expired (minU n d : Nat) (hd : 1 ≤ d) (hn : 1 ≤ n) (adds : List (FV × Nat))
    (hmono : adds.Pairwise (fun a b => a.2 ≤ b.2)) (now : Nat) (hnow : ∀ a ∈ adds, a.2 ≤ now)
    (num den : Nat) (hnum : num ≤ den) (v : FV) :
    let r := adds.foldl (fun r a => r.add keepFV a.1 a.2) (Rolling.new n d)
    snapshotQuantile minU r now num den = .bin v →
      ∃ t, (v, t) ∈ adds ∧ v.isInfinite = false ∧ now < t + d * n := by
  intro r h
  obtain ⟨S, hS, h1, _, _⟩ := window_sound_plain n d hd hn adds hmono now hnow
  have hv := ((quantile_in_window minU r now num den hnum).2.2 v h).1
  have hv' : v ∈ S.map Prod.fst := by rw [← hS]; exact hv
  obtain ⟨⟨v', t⟩, hm, rfl⟩ := List.mem_map.mp hv'
  obtain ⟨a, b, c⟩ := h1 _ hm
  exact ⟨t, a, b, c⟩

/-- the non-decreasing-timestamps hypothesis of `window_sound` is necessary for its second half, and the code is reached
    with decreasing timestamps in ordinary use: `AtomicBucket::clear_with` hands the NEWEST block of 64 samples to
    `record_samples` first, so a histogram that took more than one block between two upkeeps while the clock passed a
    bucket boundary feeds `add` the newer samples before the older ones.  3 buckets of 10: the sample of t = 11 arrives
    first, the one of t = 0 second; at now = 11 the latter is 11 old (window 30) but it is not in the snapshot — it found
    no bucket and `now <= reftime` dropped it — while `count` still says 2.  (Replayed on the real recorder by the
    corpus cases "multi-block drain".) -/
theorem window_complete_needs_monotone :
    let adds : List (FV × Nat) := [(.fin 2048, 11), (.fin 1024, 0)]
    let r := adds.foldl (fun r a => r.add keepFV a.1 a.2) (Rolling.new 3 10)
    ¬ adds.Pairwise (fun a b => a.2 ≤ b.2) ∧ (∀ a ∈ adds, a.2 ≤ 11) ∧ 11 + 10 < 0 + 10 * 3
    ∧ r.snapshot 11 = [.fin 2048] ∧ r.count = 2 := by decide

/-! ### the window a summary gets from the builder -/

/-- **window_config**: the number of buckets and the bucket duration of a summary are resolved independently: a value that
    was set is used as it is, whatever the other one is; one that was not set is the documented default (3 buckets,
    20 s) — so `set_bucket_count` alone changes the count and `set_bucket_duration` alone the duration, and the window
    length `RollingSummary::new` computes is their product. -/
theorem window_config (count dur : Option Nat) :
    (∀ c, count = some c → (windowOf count dur).1 = c)
    ∧ (count = none → (windowOf count dur).1 = 3)
    ∧ (∀ d, dur = some d → (windowOf count dur).2 = d)
    ∧ (dur = none → (windowOf count dur).2 = 20000000000)
    ∧ ((SummaryDist.new (windowOf count dur).1 (windowOf count dur).2).rolling.maxBucketDuration
        = (windowOf count dur).2 * (windowOf count dur).1)
    ∧ ((SummaryDist.new (windowOf count dur).1 (windowOf count dur).2).rolling.maxBuckets = (windowOf count dur).1) := by
  refine ⟨?_, ?_, ?_, ?_, rfl, rfl⟩
  · rintro c rfl; rfl
  · rintro rfl; rfl
  · rintro d rfl; cases count <;> rfl
  · rintro rfl; cases count <;> rfl

/-! ### source facts (regenerated from the repository on every run) -/

/-- the defaults and the way `get_distribution` resolves the two options are the ones `windowOf` models; the builder
    stores what it is given and hands the two options over in the parameter order of `DistributionBuilder::new`;
    `RollingSummary::new` multiplies duration and count -/
theorem src_window_defaults :
    Generated.c15_default_bucket_count = toString defaultBucketCount
    ∧ Generated.c15_default_bucket_duration = "from_secs(20)" ∧ defaultBucketDurationNs = 20 * 1000000000
    ∧ Generated.c15_get_distribution_duration = "self.bucket_duration.map_or(DEFAULT_SUMMARY_BUCKET_DURATION, |d| d)"
    ∧ Generated.c15_get_distribution_count = "self.bucket_count.map_or(DEFAULT_SUMMARY_BUCKET_COUNT, |c| c)"
    ∧ Generated.c15_get_distribution_new_summary = "Distribution::new_summary(self.quantiles.clone(), b_duration, b_count)"
    ∧ Generated.c15_new_summary_body = "Distribution::Summary(RollingSummary::new(bucket_count, bucket_duration), quantiles, 0.0)"
    ∧ Generated.c15_rolling_new_max_duration = "bucket_duration * buckets.get()"
    ∧ Generated.c15_rolling_new_max_buckets = "buckets.get() as usize"
    ∧ Generated.c15_builder_hands_over
        = "DistributionBuilder::new( self.quantiles, self.bucket_duration, self.buckets, self.bucket_count, self.bucket_overrides, )"
    ∧ Generated.c15_set_bucket_duration_assign = "self.bucket_duration = Some(value)"
    ∧ Generated.c15_set_bucket_count_assign = "self.bucket_count = Some(count)" := by decide

/-- the sketch every summary bucket uses: relative error 1e-4, 32768 bins, zero class up to 1e-9 (the harness checks
    quantiles at exactly these figures); `Summary::add` drops infinities and nothing else (`keepFV`).
    `1e-9` in the units of the small-magnitude stream (2^-40) is 1099 (`clsOf 1099`). -/
theorem src_sketch_parameters :
    Generated.c15_summary_with_defaults = "Summary::new(0.0001, 32_768, 1.0e-9)"
    ∧ Generated.c15_summary_new_config = "Config::new(alpha, max_buckets, min_value.abs())"
    ∧ Generated.c15_summary_add_body = "{ if value.is_infinite() { return; } self.sketch.add(value); }"
    ∧ (1099 * 10 ^ 9 ≤ 2 ^ 40 ∧ 2 ^ 40 < 1100 * 10 ^ 9) := by decide

/-- `Matcher`'s variants are declared Full, Prefix, Suffix and the order is the derived one (`Matcher.lt`/`rank` of the
    model: Full 0, Prefix 1, Suffix 2); the overrides are sorted by that order -/
theorem src_matcher_order :
    Generated.c15_matcher_variants = ["Full", "Prefix", "Suffix"]
    ∧ Generated.c15_matcher_derive = "Clone, Debug, Eq, Hash, Ord, PartialEq, PartialOrd"
    ∧ Generated.c15_overrides_sort = "matchers.sort_by(|a, b| a.0.cmp(&b.0))"
    ∧ (Matcher.full []).rank = 0 ∧ (Matcher.pfx []).rank = 1 ∧ (Matcher.sfx []).rank = 2 := by decide

/-- `Histogram::record` and `record_many` compare with `<=` only, branch on nothing else (in particular not on the number
    of bounds), and add every sample to a sum of the type of `self.sum` (`let mut sum = 0.0` is an `f64` because it is
    added to `self.sum: f64`); the summary arm adds every sample to the rolling summary and to `_sum` -/
theorem src_histogram_statements :
    Generated.c15_record_ifs = ["sample <= *bucket"]
    ∧ Generated.c15_record_many_ifs = ["sample <= bucket", "bucketed.len() >= 2"]
    ∧ Generated.c15_record_comparisons = ["sample <= *bucket"]
    ∧ Generated.c15_record_many_comparisons = ["sample <= bucket"]
    ∧ Generated.c15_record_sum_statements = ["self.sum += sample;"]
    ∧ Generated.c15_record_many_sum_statements = ["let mut sum = 0.0;", "sum += *sample;", "self.sum += sum;"]
    ∧ Generated.c15_record_samples_summary_arm = "{ for (sample, ts) in samples { hist.add(*sample, *ts); *sum += *sample; } }" := by
  decide

/-! ## (d) the configured quantiles (`metrics-util/src/quantile.rs`, `set_quantiles`, the quantile lines of `render`) -/

/-- **quantile_new_in_unit**: `Quantile::new` maps EVERY f64 — in range, below 0, above 1, ±∞ and NaN — to a value in
    [0, 1] ("All values are clamped between 0.0 and 1.0"); in particular never to NaN. -/
theorem quantile_new_in_unit (x : FV) : ∃ n : Int, (Quantile.new x).value = .fin n ∧ 0 ≤ n ∧ n ≤ 1024 := by
  cases x with
  | nan => exact ⟨0, by decide, by omega, by omega⟩
  | ninf => exact ⟨0, by decide, by omega, by omega⟩
  | pinf => exact ⟨1024, by decide, by omega, by omega⟩
  | fin n =>
    by_cases h0 : n ≤ 0
    · refine ⟨0, ?_, by omega, by omega⟩
      simp [Quantile.new, fmax, fmin, qZero, qOne, FV.isNan, FV.le, h0]
    · by_cases h1 : n ≤ 1024
      · refine ⟨n, ?_, by omega, h1⟩
        simp [Quantile.new, fmax, fmin, qZero, qOne, FV.isNan, FV.le, h0, h1]
      · refine ⟨1024, ?_, by omega, by omega⟩
        simp [Quantile.new, fmax, fmin, qZero, qOne, FV.isNan, FV.le, h0, h1]

/-- a value that already is in [0, 1] is kept as it is -/
theorem quantile_new_fixes_unit (n : Int) (h0 : 0 ≤ n) (h1 : n ≤ 1024) : (Quantile.new (.fin n)).value = .fin n := by
  by_cases h : n ≤ 0
  · have : n = 0 := by omega
    subst this; decide
  · simp [Quantile.new, fmax, fmin, qZero, qOne, FV.isNan, FV.le, h, h1]

/-- what the clamp does outside the range: NaN, -∞ and everything below 0 become 0.0 (label `min`), +∞ and everything
    above 1 become 1.0 (label `max`) -/
theorem quantile_new_outside :
    Quantile.new .nan = ⟨.fin 0, .min⟩ ∧ Quantile.new .ninf = ⟨.fin 0, .min⟩ ∧ Quantile.new .pinf = ⟨.fin 1024, .max⟩
    ∧ (∀ n : Int, n ≤ 0 → Quantile.new (.fin n) = ⟨.fin 0, .min⟩)
    ∧ (∀ n : Int, 1024 ≤ n → Quantile.new (.fin n) = ⟨.fin 1024, .max⟩) := by
  refine ⟨by decide, by decide, by decide, ?_, ?_⟩
  · intro n h
    simp [Quantile.new, fmax, fmin, qZero, qOne, FV.isNan, FV.le, h]
  · intro n h
    by_cases h0 : n ≤ 0
    · omega
    · by_cases h1 : n ≤ 1024
      · have : n = 1024 := by omega
        subst this; decide
      · simp [Quantile.new, fmax, fmin, qZero, qOne, FV.isNan, FV.le, h0, h1]

/-- the label is `min` exactly for the value 0.0 and `max` exactly for 1.0 -/
theorem quantile_new_label (x : FV) :
    ((Quantile.new x).label = .min ↔ (Quantile.new x).value = .fin 0)
    ∧ ((Quantile.new x).label = .max ↔ (Quantile.new x).value = .fin 1024) := by
  have hv : (Quantile.new x).label =
      if (Quantile.new x).value = qZero then Label.min else if (Quantile.new x).value = qOne then Label.max else Label.p := rfl
  rw [hv]
  by_cases a : (Quantile.new x).value = qZero
  · simp only [a, if_true]; simp [qZero]
  · by_cases b : (Quantile.new x).value = qOne
    · simp only [b, if_true]; simp [qOne, qZero]
    · simp only [a, b, if_false]
      simp only [qZero, qOne] at a b
      simp [a, b]

/-- `parse_quantiles` (and `set_quantiles`, which stores its result): one `Quantile` per configured value, in the
    configured order, each clamped; `set_quantiles` refuses exactly the empty slice -/
theorem parse_quantiles_clamps (cfg : List FV) :
    (parseQuantiles cfg).length = cfg.length
    ∧ (parseQuantiles cfg).map (·.value) = cfg.map (fun x => (Quantile.new x).value)
    ∧ (∀ q ∈ parseQuantiles cfg, ∃ n : Int, q.value = .fin n ∧ 0 ≤ n ∧ n ≤ 1024)
    ∧ (setQuantiles cfg = none ↔ cfg = [])
    ∧ (∀ l, setQuantiles cfg = some l → l = parseQuantiles cfg) := by
  refine ⟨by simp [parseQuantiles], by simp [parseQuantiles], ?_, ?_, ?_⟩
  · intro q hq
    obtain ⟨x, _, rfl⟩ := List.mem_map.mp hq
    exact quantile_new_in_unit x
  · cases cfg <;> simp [setQuantiles]
  · intro l h
    cases cfg with
    | nil => simp [setQuantiles] at h
    | cons a t => simpa [setQuantiles] using h.symm

/-- what a quantile line may show, given the retained samples `S` of the window: the `0` placeholder only for an empty
    window; `0.0` only if a sample of the window is in the sketch's zero class; otherwise a sample OF THE WINDOW (the
    bin of it, within the sketch's relative error, or — for the two ends — the sample itself) -/
def ShownInWindow (minU : Nat) (S : List FV) : Shown → Prop
  | .placeholder => S = []
  | .zeroClass => ∃ v ∈ S, clsOf minU v = .zero
  | .near v => v ∈ S ∧ clsOf minU v ≠ .zero
  | .exact v => v ∈ S

/-- a line that satisfies `ShownInWindow` shows the placeholder exactly when the window is empty -/
theorem shown_placeholder_iff (minU : Nat) (S : List FV) (s : Shown) (h : ShownInWindow minU S s) :
    s = .placeholder ↔ S = [] := by
  cases s with
  | placeholder => simpa [ShownInWindow] using h
  | zeroClass =>
    obtain ⟨v, hv, _⟩ := h
    constructor
    · intro e; cases e
    · intro e; rw [e] at hv; cases hv
  | near v =>
    constructor
    · intro e; cases e
    · intro e; have := h.1; rw [e] at this; cases this
  | exact v =>
    constructor
    · intro e; cases e
    · intro e; have : v ∈ S := h; rw [e] at this; cases this

/-- **summary_quantile_in_window**: for EVERY rolling summary (finite retained samples: what `Summary::add` lets through,
    NaN aside), time and quantile value in [0, 1], the value shown lies in the window in the sense of `ShownInWindow`:
    it is (the bin of) a sample that is inside the rolling window — hence between the smallest and the largest of them —
    and the `0` placeholder iff the window is empty. -/
theorem summary_quantile_in_window (minU : Nat) (r : Rolling FV) (now : Nat)
    (hfin : ∀ x ∈ r.snapshot now, isFin x = true) (n : Int) (h0 : 0 ≤ n) (h1 : n ≤ 1024) :
    ShownInWindow minU (r.snapshot now) (summaryQuantile minU r now (.fin n)) := by
  have hunit : inUnit (.fin n) = true := by simp [inUnit, qZero, qOne, FV.le, h0, h1]
  have hcount : (snapshotSketch minU r now).count = (r.snapshot now).length := (Within.snapshot minU r now).count
  obtain ⟨e1, _, e3⟩ := quantile_ends_in_window_fixed r now hfin
  unfold summaryQuantile
  simp only [hunit, Bool.not_true, Bool.false_eq_true, if_false]
  by_cases hc : (snapshotSketch minU r now).count = 0
  · have : ((snapshotSketch minU r now).count == 0) = true := by simp [hc]
    simp only [this, if_true]
    rw [hc] at hcount
    exact List.length_eq_zero_iff.mp hcount.symm
  · have hb : ((snapshotSketch minU r now).count == 0) = false := by simpa using hc
    simp only [hb, Bool.false_eq_true, if_false]
    have hne : r.snapshot now ≠ [] := by
      intro e; rw [e] at hcount; exact hc (by simpa using hcount)
    have htot : ((snapshotMinMax true r now).total == 0) = false := by
      have : (snapshotMinMax true r now).total ≠ 0 := by
        rw [e1]; intro e; exact hne (List.length_eq_zero_iff.mp e)
      simpa using this
    have e3' := e3 hne
    simp only [renderQ0, renderQ1, htot, Bool.false_eq_true, if_false] at e3'
    by_cases hz : (FV.fin n) = qZero
    · simp only [hz, if_true]; exact e3'.1
    · simp only [hz, if_false]
      by_cases ho : (FV.fin n) = qOne
      · simp only [ho, if_true]; exact e3'.2
      · simp only [ho, if_false]
        have hnum : n.toNat ≤ 1024 := by omega
        obtain ⟨q1, q2, q3⟩ := quantile_in_window minU r now n.toNat 1024 hnum
        cases hq : snapshotQuantile minU r now n.toNat 1024 with
        | none => exact absurd (q1.mp hq) hne
        | zero => exact q2 hq
        | bin v => exact q3 v hq

/-- **configured_quantiles_exposed**: for EVERY list of configured quantiles (any f64s: NaN, ±∞, negative, above 1,
    repeated), every rolling summary with finite retained samples and every render time: the summary series shows
    exactly one quantile line per configured value, in the configured order; the value of its `quantile` label is the
    clamped configured value and lies in [0, 1]; and the value shown lies in the window (`ShownInWindow`): within the
    sketch's relative error between the smallest and the largest sample of the rolling window, `0` iff it is empty. -/
theorem configured_quantiles_exposed (minU : Nat) (cfg : List FV) (r : Rolling FV) (now : Nat)
    (hfin : ∀ x ∈ r.snapshot now, isFin x = true) :
    (renderQuantiles minU (parseQuantiles cfg) r now).map Prod.fst = cfg.map (fun x => (Quantile.new x).value)
    ∧ ∀ ln ∈ renderQuantiles minU (parseQuantiles cfg) r now,
        (∃ n : Int, ln.1 = .fin n ∧ 0 ≤ n ∧ n ≤ 1024)
        ∧ ShownInWindow minU (r.snapshot now) ln.2
        ∧ (ln.2 = .placeholder ↔ r.snapshot now = []) := by
  refine ⟨by simp [renderQuantiles, parseQuantiles, List.map_map, Function.comp_def], ?_⟩
  intro ln hln
  simp only [renderQuantiles, parseQuantiles, List.map_map, List.mem_map, Function.comp_def] at hln
  obtain ⟨x, _, rfl⟩ := hln
  obtain ⟨n, hn, h0, h1⟩ := quantile_new_in_unit x
  have hs := summary_quantile_in_window minU r now hfin n h0 h1
  refine ⟨⟨n, hn, h0, h1⟩, ?_, ?_⟩
  · simpa [hn] using hs
  · simp only [hn]; exact shown_placeholder_iff minU _ _ hs

/-- the clamp is what makes the second half true: a quantile value that reached `render` as NaN (what
    `quantile.clamp(0.0, 1.0)` would hand on) fails the range test of `Summary::quantile` and is shown as the `0`
    placeholder under the label NaN although the window holds the samples 2.0 and 3.0 — while `Quantile::new(NaN)`
    shows the window minimum under the label 0.  Likewise a value above 1 that was not clamped. -/
theorem unclamped_quantile_escapes_window :
    let r := [(FV.fin 2048, 1), (.fin 3072, 2)].foldl (fun r (a : FV × Nat) => r.add keepFV a.1 a.2) (Rolling.new 2 10)
    r.snapshot 2 = [.fin 2048, .fin 3072]
    ∧ renderQuantiles 0 [⟨.nan, .p⟩, ⟨.fin 2048, .p⟩] r 2 = [(.nan, .placeholder), (.fin 2048, .placeholder)]
    ∧ renderQuantiles 0 (parseQuantiles [.nan, .fin 2048, .fin 512]) r 2
        = [(.fin 0, .exact (.fin 2048)), (.fin 1024, .exact (.fin 3072)), (.fin 512, .near (.fin 2048))] := by
  decide

/-- `Quantile::new` clamps with `max(0.0)` then `min(1.0)` (NaN-absorbing, unlike `f64::clamp`), `parse_quantiles` maps
    it over the slice, `set_quantiles` stores `parse_quantiles(quantiles)`, the defaults go through the same function,
    and `Summary::quantile` refuses everything outside `0.0..=1.0` as well as an empty sketch -/
theorem src_quantile_clamp :
    Generated.c15_quantile_new_clamp = ["quantile.max(0.0)", "clamped.min(1.0)"]
    ∧ Generated.c15_quantile_new_result = "Quantile(clamped, label)"
    ∧ Generated.c15_parse_quantiles_body = "{ quantiles.iter().map(|f| Quantile::new(*f)).collect() }"
    ∧ Generated.c15_set_quantiles_assign = "self.quantiles = parse_quantiles(quantiles)"
    ∧ Generated.c15_default_quantiles = "parse_quantiles(&[0.0, 0.5, 0.9, 0.95, 0.99, 0.999, 1.0])"
    ∧ Generated.c15_summary_quantile_guard = "!(0.0..=1.0).contains(&q) || self.count() == 0"
    ∧ Generated.c15_render_quantile_label = "Some((\"quantile\", quantile.value()))" := by decide

/-- the alignment of a new bucket in `RollingSummary::add` is the integer walk the model's `alignLoop` follows (no
    floating-point arithmetic on durations: `as_secs_f64`/`mul_f64`/`div_f64` do not occur in `add`) -/
theorem src_rolling_align :
    Generated.c15_rolling_add_align
      = ["if now > reftime {", "begin = reftime + self.bucket_duration;", "let mut end = begin + self.bucket_duration;",
         "while now < begin || now >= end {", "begin += self.bucket_duration;", "end += self.bucket_duration;", "}",
         "self.buckets.truncate(self.max_buckets - 1);", "self.buckets.insert(0, Bucket {", "begin, summary });", "}"]
    ∧ Generated.c15_rolling_add_float_ops = [] := by decide

/-! ## non-vacuity -/

-- (a) duplicates, ±∞ bounds; samples equal to bounds, NaN, ±∞; three batches incl. an empty one
example :
    let bounds : List FV := [.ninf, .fin (-1024), .fin 0, .fin 0, .fin 2560, .pinf]
    Ascending bounds ∧
    (Hist.new bounds).map (fun h => (h.recordBatches [[.fin 0, .fin (-1024), .fin 2560, .pinf], [], [.ninf, .nan, .fin 3072]]).buckets)
      = some [1, 2, 3, 3, 4, 6] ∧
    (Hist.new bounds).map (fun h => (h.recordBatches [[.fin 0, .fin (-1024), .fin 2560, .pinf], [], [.ninf, .nan, .fin 3072]]).infBucket)
      = some 7 ∧
    (Hist.new bounds).map (fun h => (h.recordBatches [[.fin 0, .fin (-1024), .fin 2560, .pinf], [], [.ninf, .nan, .fin 3072]]).sum.val)
      = some .nan := by decide

-- the repo's own unit test of `Histogram` (bounds 10, 25, 100)
example :
    (Hist.new [.fin 10, .fin 25, .fin 100]).map (fun h =>
      ((h.recordMany [.fin 3, .fin 2, .fin 6, .fin 12, .fin 56, .fin 82, .fin 202, .fin 100, .fin 29]).record (.fin 89)).buckets)
      = some [3, 4, 9] := by decide

-- (b) all three kinds apply to `lat_ms`; patterns and name are sanitised (`lat.ms` ≡ `lat_ms`); later call replaces
example :
    let calls : List (Matcher × List Int) :=
      [(.sfx ['m','s'], [1]), (.pfx ['l','a','t'], [2]), (.full ['l','a','t','.','m','s'], [3]), (.full ['l','a','t','_','m','s'], [4])]
    distributionFor (some [9]) calls ['l','a','t','-','m','s'] = freshHist [4]
    ∧ distributionFor (some [9]) calls ['l','a','t','_','u','s'] = freshHist [2]
    ∧ distributionFor (some [9]) calls ['x','_','m','s'] = freshHist [1]
    ∧ distributionFor (some [9]) calls ['o'] = freshHist [9]
    ∧ distributionFor none calls ['o'] = .summ 0 0
    ∧ typeFor none calls ['o'] = "summary".toList
    ∧ typeFor none calls ['x','.','m','s'] = "histogram".toList := by decide

-- exposure: `request_latency` described in seconds, unit suffixes on, a Full override of the plain name and a Suffix
-- override `_seconds`: exposed as the HISTOGRAM family `request_latency_seconds` with the Full override's bounds, while
-- `queue_wait` (no override matches the plain name) is the SUMMARY family `queue_wait_seconds` — deciding on the exposed
-- family name instead would give the opposite answer for both
example :
    let calls : List (Matcher × List Int) :=
      [(.full ['r','e','q','u','e','s','t','_','l','a','t','e','n','c','y'], [1, 2]), (.sfx ['_','s','e','c','o','n','d','s'], [3])]
    let rl := ['r','e','q','u','e','s','t','_','l','a','t','e','n','c','y']
    let qw := ['q','u','e','u','e','_','w','a','i','t']
    exposedFor true none calls rl (some .seconds) = (rl ++ "_seconds".toList, "histogram".toList, freshHist [1, 2])
    ∧ exposedFor true none calls qw (some .seconds) = (qw ++ "_seconds".toList, "summary".toList, .summ 0 0)
    ∧ exposedFor false none calls rl (some .seconds) = (rl, "histogram".toList, freshHist [1, 2])
    ∧ distType (cfgOfU true none calls) (qw ++ "_seconds".toList) = "histogram".toList
    ∧ overridesOfChecked calls = some (overridesOf calls)
    ∧ overridesOfChecked (calls ++ [(.pfx ['a'], [])]) = none := by decide

-- the invariant is about a state that is really reached: describe, record under two label sets, render
example :
    let cfg := cfgOfU true none [(.full ['a'], [5])]
    let ka : MKey := ⟨['a'], []⟩
    let kb : MKey := ⟨['a'], [(['h'], ['1'])]⟩
    let s := drain (run { cfg := cfg } [.describe ['a'] (some .bytes) ['d'], .hrec ka 3, .upkeep, .hrec kb 7, .hrec ka 9])
    s.dists.map (fun f => (f.1, f.2.map (fun ld => ld.2)))
      = [(['a'], [.hist [5] [1] 2 12, .hist [5] [0] 1 7])] := by decide

-- (c) 2 buckets of 10: samples at 4, 14, 23, 24; at now = 24 the sample of t = 4 is gone (and the +∞ was never
-- retained, the NaN is), at now = 34 the bucket [14, 24) has left the window, at now = 44 everything has
example :
    let adds : List (FV × Nat) := [(.fin 1, 4), (.fin 2, 14), (.pinf, 14), (.fin 3, 23), (.nan, 24)]
    let r := adds.foldl (fun r a => r.add keepFV a.1 a.2) (Rolling.new 2 10)
    adds.Pairwise (fun a b => a.2 ≤ b.2)
    ∧ r.snapshot 24 = [.nan, .fin 2, .fin 3] ∧ r.count = 5 ∧ r.snapshot 33 = [.nan, .fin 2, .fin 3]
    ∧ r.snapshot 34 = [.nan] ∧ r.snapshot 44 = [] := by decide

-- a window that holds only an infinite sample prints 0 for every quantile, `_count` 1, `_sum` +Inf
example : ((SummaryDist.new 3 20).recordSamples [(.pinf, 100)]).render 100 = (.zero, .pinf, 1) := by decide

-- quantiles strictly inside (0,1): window {-3, nan, 0, 2, 5} (n/1024 units): ranks 0..4 answer -3, zero, zero, 2, 5
example :
    let r := [(FV.fin (-3), 1), (.nan, 2), (.fin 0, 11), (.fin 5, 12), (.fin 2, 13), (.pinf, 13)].foldl
      (fun r (a : FV × Nat) => r.add keepFV a.1 a.2) (Rolling.new 2 10)
    snapshotQuantile 0 r 13 1 4 = .zero ∧ snapshotQuantile 0 r 13 3 4 = .bin (.fin 2)
    ∧ snapshotQuantile 0 r 13 1 100 = .bin (.fin (-3)) ∧ snapshotQuantile 0 r 13 99 100 = .bin (.fin 2)
    ∧ snapshotQuantile 0 r 33 1 2 = .none
    -- magnitudes up to min_possible are zeros: unit 2^-40, 1099 units ≤ 1e-9 < 1100 units
    ∧ (bucketSketch 1099 [.fin 1099, .fin 1100, .fin (-1100), .fin (-5)]).atRank 1 = .zero
    ∧ (bucketSketch 1099 [.fin 1099, .fin 1100, .fin (-1100), .fin (-5)]).atRank 3 = .bin (.fin 1100) := by decide

-- (d) configured quantiles NaN, -∞, -1/4, 1/2, 5/4, +∞ on a window {2.0, 3.0, 5.0} of 2 buckets of 10 whose oldest sample
-- (1.0 at t = 1) has expired: labels 0 0 0 0.5 1 1; the ends show the window's min/max, the median its middle sample;
-- once everything has expired every line shows the placeholder
example :
    let r := [(FV.fin 1024, 1), (.fin 5120, 12), (.fin 2048, 13), (.fin 3072, 21)].foldl
      (fun r (a : FV × Nat) => r.add keepFV a.1 a.2) (Rolling.new 2 10)
    let qs := parseQuantiles [.nan, .ninf, .fin (-256), .fin 512, .fin 1280, .pinf]
    qs.map (·.label) = [.min, .min, .min, .p, .max, .max]
    ∧ r.snapshot 21 = [.fin 3072, .fin 5120, .fin 2048]
    ∧ renderQuantiles 0 qs r 21
        = [(.fin 0, .exact (.fin 2048)), (.fin 0, .exact (.fin 2048)), (.fin 0, .exact (.fin 2048)),
           (.fin 512, .near (.fin 3072)), (.fin 1024, .exact (.fin 5120)), (.fin 1024, .exact (.fin 5120))]
    ∧ (renderQuantiles 0 qs r 50).map Prod.snd = List.replicate 6 .placeholder
    ∧ setQuantiles [] = none := by decide

-- only the count set / only the duration set / neither
example : windowOf (some 5) none = (5, 20000000000) ∧ windowOf none (some 7) = (3, 7) ∧ windowOf none none = (3, 20000000000) := by
  decide

end MetricsVerif.C15
