/-
C07 — Prometheus output reports exactly what was recorded, each sample once.

Model: `Model/Prom.lean` (sequential recorder state machine).  Theorems are for ALL operation sequences
(any interleaving of register/update/describe/upkeep/render calls, any keys, any configuration).
Arithmetic on gauge/histogram values is exact (dyadic rationals); IEEE rounding is outside the model.
Concurrent `record()` vs. drain is the composition with the bucket model (C05).
-/
import MetricsVerif.Proofs.Prom

namespace MetricsVerif.C07
open MetricsVerif.Prom MetricsVerif.PromFmt MetricsVerif.PromRender

/-- a fresh recorder -/
def init (cfg : Cfg) : St := { cfg }

/-! ## histograms: every sample is counted exactly once, however record / upkeep / render interleave -/

/-- **conservation invariant**: for every series `p`, samples already in its distribution plus samples
    still pending in the buckets of the keys rendered as `p` = samples ever recorded for `p`. -/
theorem hist_conserved (cfg : Cfg) (ops : List Op) (p : Parts) :
    let s := run (init cfg) ops
    dCount (getDist s.dists p) + pendCount cfg s.hists p = (ops.map (opCount cfg p)).sum
    ∧ dSum (getDist s.dists p) + pendSum cfg s.hists p = (ops.map (opSum cfg p)).sum := by
  have gen : ∀ (ops : List Op) (s : St), s.cfg = cfg →
      dCount (getDist (run s ops).dists p) + pendCount cfg (run s ops).hists p
        = dCount (getDist s.dists p) + pendCount cfg s.hists p + (ops.map (opCount cfg p)).sum
      ∧ dSum (getDist (run s ops).dists p) + pendSum cfg (run s ops).hists p
        = dSum (getDist s.dists p) + pendSum cfg s.hists p + (ops.map (opSum cfg p)).sum := by
    intro ops
    induction ops with
    | nil => intro s _; simp [run]
    | cons op ops ih =>
      intro s hs
      have h1 := step_count s op p
      have h2 := step_sum s op p
      rw [hs] at h1 h2
      have := ih (step s op) (by rw [step_cfg, hs])
      simp only [run, List.foldl_cons, List.map_cons, List.sum_cons] at this ⊢
      omega
  have := gen ops (init cfg) rfl
  simpa [init, getDist, dCount, dSum, pendCount, pendSum] using this

/-- what `render()` shows for a series (it drains first): `_count` = number of samples ever recorded under
    the keys rendered as that series, `_sum` = their sum — for any history. -/
theorem render_reports_hist (cfg : Cfg) (ops : List Op) (p : Parts) :
    let s := (renderLines (run (init cfg) ops)).1
    dCount (getDist s.dists p) = (ops.map (opCount cfg p)).sum
    ∧ dSum (getDist s.dists p) = (ops.map (opSum cfg p)).sum := by
  have h := hist_conserved cfg (ops ++ [.upkeep]) p
  have e : (renderLines (run (init cfg) ops)).1 = run (init cfg) (ops ++ [.upkeep]) := by
    simp [renderLines, run, step]
  simp only [e]
  have hc : (run (init cfg) (ops ++ [Op.upkeep])).cfg = cfg := by rw [run_cfg]; rfl
  have hp : pendCount cfg (run (init cfg) (ops ++ [Op.upkeep])).hists p = 0 := by
    simp only [run, List.foldl_append, List.foldl_cons, List.foldl_nil, step, drain_hists, pendCount_drained]
  have hq : pendSum cfg (run (init cfg) (ops ++ [Op.upkeep])).hists p = 0 := by
    simp only [run, List.foldl_append, List.foldl_cons, List.foldl_nil, step, drain_hists, pendSum_drained]
  simp only [List.map_append, List.map_cons, List.map_nil, List.sum_append, List.sum_cons, List.sum_nil,
    opCount, opSum] at h
  omega

/-- the count/sum texts written for a distribution are those of the distribution -/
theorem distSeries_shows (qs : List Str) (ls : List Str) (d : Dist) :
    (∃ bs, (distSeries qs ls d).data = .hist bs (natText d.count) (intTok d.sum))
    ∨ (∃ q, (distSeries qs ls d).data = .summ q (intTok d.sum) (natText d.count)) := by
  cases d with
  | hist b c n s => exact Or.inl ⟨_, rfl⟩
  | summ n s => exact Or.inr ⟨_, rfl⟩

/-- draining twice is draining once: `render(); render()` with no update in between shows the same state -/
theorem render_idempotent_counts (cfg : Cfg) (ops : List Op) (p : Parts) :
    let s1 := (renderLines (run (init cfg) ops)).1
    let s2 := (renderLines s1).1
    dCount (getDist s2.dists p) = dCount (getDist s1.dists p) ∧ dSum (getDist s2.dists p) = dSum (getDist s1.dists p) := by
  have h1 := render_reports_hist cfg ops p
  have h2 := render_reports_hist cfg (ops ++ [.upkeep]) p
  have e : (renderLines (renderLines (run (init cfg) ops)).1).1 = (renderLines (run (init cfg) (ops ++ [.upkeep]))).1 := by
    simp [renderLines, run, step]
  simp only [e]
  simp only [List.map_append, List.map_cons, List.map_nil, List.sum_append, List.sum_cons, List.sum_nil,
    opCount, opSum] at h2
  omega

/-! ## counters and gauges: each key has its own cell, updated only by its own operations -/

/-- what the history says the counter for `k` holds -/
def specCounter (k : MKey) (acc : Option Nat) : Op → Option Nat
  | .cinc k' n => if k' = k then some (((acc.getD 0) + n) % two64) else acc
  | .cabs k' n => if k' = k then some (max (acc.getD 0) n) else acc
  | _ => acc

theorem step_counter (s : St) (op : Op) (k : MKey) :
    lookup (step s op).counters k = specCounter k (lookup s.counters k) op := by
  cases op with
  | describe n u d => simp only [step, specCounter]; split <;> rfl
  | cinc k' n =>
    simp only [step, specCounter, lookup_upsert]
    by_cases h : k = k'
    · subst h; simp
    · have : ¬ k' = k := fun e => h e.symm
      simp [h, this]
  | cabs k' n =>
    simp only [step, specCounter, lookup_upsert]
    by_cases h : k = k'
    · subst h; simp
    · have : ¬ k' = k := fun e => h e.symm
      simp [h, this]
  | gset k v => rfl
  | gadd k n => rfl
  | hrec k v => rfl
  | upkeep => rfl

/-- **counter refinement**: after any history the cell of `k` is the fold of `k`'s own operations -/
theorem counter_refines (cfg : Cfg) (ops : List Op) (k : MKey) :
    lookup (run (init cfg) ops).counters k = ops.foldl (specCounter k) none := by
  have gen : ∀ (ops : List Op) (s : St),
      lookup (run s ops).counters k = ops.foldl (specCounter k) (lookup s.counters k) := by
    intro ops
    induction ops with
    | nil => intro s; rfl
    | cons op ops ih => intro s; simp only [run, List.foldl_cons] at ih ⊢; rw [ih, step_counter]
  simpa [init] using gen ops (init cfg)

/-- increments only ⇒ the sum of the increments modulo 2^64 -/
theorem counter_sum (k : MKey) (ns : List Nat) (acc : Nat) :
    (ns.map (fun n => Op.cinc k n)).foldl (specCounter k) (some (acc % two64)) = some ((acc + ns.sum) % two64) := by
  induction ns generalizing acc with
  | nil => simp
  | cons n ns ih =>
    simp only [List.map_cons, List.foldl_cons, specCounter, if_true, Option.getD_some, List.sum_cons]
    have : (acc % two64 + n) % two64 = (acc + n) % two64 := Nat.mod_add_mod acc two64 n
    rw [this, ih]; congr 2; omega

/-- an absolute update never lowers the counter and leaves it at least at the given value -/
theorem counter_abs_monotone (k : MKey) (acc : Option Nat) (n : Nat) :
    ∃ v, specCounter k acc (.cabs k n) = some v ∧ acc.getD 0 ≤ v ∧ n ≤ v := by
  refine ⟨max (acc.getD 0) n, by simp [specCounter], Nat.le_max_left _ _, Nat.le_max_right _ _⟩

def specGauge (k : MKey) (acc : Option Val) : Op → Option Val
  | .gset k' v => if k' = k then some v else acc
  | .gadd k' n => if k' = k then some ((acc.getD (.dy 0)).add n) else acc
  | _ => acc

theorem step_gauge (s : St) (op : Op) (k : MKey) :
    lookup (step s op).gauges k = specGauge k (lookup s.gauges k) op := by
  cases op with
  | describe n u d => simp only [step, specGauge]; split <;> rfl
  | cinc k' n => rfl
  | cabs k' n => rfl
  | gset k' v =>
    simp only [step, specGauge, lookup_upsert]
    by_cases h : k = k'
    · subst h; simp
    · have : ¬ k' = k := fun e => h e.symm
      simp [h, this]
  | gadd k' n =>
    simp only [step, specGauge, lookup_upsert]
    by_cases h : k = k'
    · subst h; simp
    · have : ¬ k' = k := fun e => h e.symm
      simp [h, this]
  | hrec k v => rfl
  | upkeep => rfl

/-- **gauge refinement** -/
theorem gauge_refines (cfg : Cfg) (ops : List Op) (k : MKey) :
    lookup (run (init cfg) ops).gauges k = ops.foldl (specGauge k) none := by
  have gen : ∀ (ops : List Op) (s : St),
      lookup (run s ops).gauges k = ops.foldl (specGauge k) (lookup s.gauges k) := by
    intro ops
    induction ops with
    | nil => intro s; rfl
    | cons op ops ih => intro s; simp only [run, List.foldl_cons] at ih ⊢; rw [ih, step_gauge]
  simpa [init] using gen ops (init cfg)

/-- a `set` leaves exactly the value given, whatever came before -/
theorem gauge_set_last (k : MKey) (acc : Option Val) (v : Val) : specGauge k acc (.gset k v) = some v := by
  simp [specGauge]

/-! ## HELP shows the first description given for the name -/

def specDesc (n : Str) (acc : Option (Str × Option MUnit)) : Op → Option (Str × Option MUnit)
  | .describe name unit desc => if sanitizeMetricName name = n then (match acc with | some a => some a | none => some (desc, unit)) else acc
  | _ => acc

theorem lookup_append_new {κ α : Type} [DecidableEq κ] (m : List (κ × α)) (k k' : κ) (a : α)
    (h : lookup m k = none) : lookup (m ++ [(k, a)]) k' = if k' = k then some a else lookup m k' := by
  induction m with
  | nil =>
    simp only [List.nil_append, lookup]
    by_cases e : k = k'
    · subst e; simp
    · have : ¬ k' = k := fun x => e x.symm
      simp [e, this]
  | cons x xs ih =>
    obtain ⟨kx, ax⟩ := x
    simp only [lookup] at h
    by_cases hx : kx = k
    · simp [hx] at h
    · simp only [hx, if_false] at h
      simp only [List.cons_append, lookup]
      by_cases hx' : kx = k'
      · subst hx'
        have : ¬ kx = k := hx
        simp [this]
      · simp [hx', ih h]

theorem step_desc (s : St) (op : Op) (n : Str) :
    lookup (step s op).descs n = specDesc n (lookup s.descs n) op := by
  cases op with
  | describe name unit desc =>
    simp only [step, specDesc]
    cases h : lookup s.descs (sanitizeMetricName name) with
    | some a =>
      simp only
      by_cases e : sanitizeMetricName name = n
      · subst e; simp [h]
      · simp [e]
    | none =>
      simp only
      rw [lookup_append_new _ _ _ _ h]
      by_cases e : sanitizeMetricName name = n
      · subst e; simp [h]
      · have : ¬ n = sanitizeMetricName name := fun x => e x.symm
        simp [e, this]
  | cinc k' n => rfl
  | cabs k' n => rfl
  | gset k' v => rfl
  | gadd k' n => rfl
  | hrec k v => rfl
  | upkeep => rfl

/-- **first description wins** (per sanitised name) -/
theorem desc_refines (cfg : Cfg) (ops : List Op) (n : Str) :
    lookup (run (init cfg) ops).descs n = ops.foldl (specDesc n) none := by
  have gen : ∀ (ops : List Op) (s : St),
      lookup (run s ops).descs n = ops.foldl (specDesc n) (lookup s.descs n) := by
    intro ops
    induction ops with
    | nil => intro s; rfl
    | cons op ops ih => intro s; simp only [run, List.foldl_cons] at ih ⊢; rw [ih, step_desc]
  simpa [init] using gen ops (init cfg)

theorem desc_first_wins (n : Str) (a : Str × Option MUnit) (op : Op) : specDesc n (some a) op = some a := by
  cases op <;> simp [specDesc]

/-! ## labels: global labels, overridden in place by the key's own labels of the same name -/

theorem lookup_imInsert (m : List (Str × Str)) (k v k' : Str) :
    lookup (imInsert m k v) k' = if k' = k then some v else lookup m k' := by
  induction m with
  | nil =>
    simp only [imInsert, lookup]
    by_cases e : k = k'
    · subst e; simp
    · have : ¬ k' = k := fun x => e x.symm
      simp [e, this]
  | cons x xs ih =>
    obtain ⟨kx, vx⟩ := x
    simp only [imInsert]
    by_cases hx : kx = k
    · subst hx
      simp only [if_true, lookup]
      by_cases e : kx = k'
      · subst e; simp
      · have : ¬ k' = kx := fun x => e x.symm
        simp [e, this]
    · simp only [hx, if_false, lookup, ih]
      by_cases e : kx = k'
      · subst e
        have : ¬ kx = k := hx
        simp [this]
      · simp [e]

/-- the merged label set: the key's own value if the key has a label of that name (the last one given),
    otherwise the global one -/
theorem merged_labels (own globals : List (Str × Str)) (n : Str) :
    lookup (own.foldl (fun m kv => imInsert m kv.1 kv.2) globals) n
      = own.foldl (fun acc kv => if kv.1 = n then some kv.2 else acc) (lookup globals n) := by
  induction own generalizing globals with
  | nil => rfl
  | cons kv rest ih =>
    simp only [List.foldl_cons]
    rw [ih, lookup_imInsert]
    by_cases e : n = kv.1
    · subst e; simp
    · have : ¬ kv.1 = n := fun x => e x.symm
      simp [e, this]

/-- a global label whose name no own label uses keeps its position and value -/
theorem imInsert_length_le (m : List (Str × Str)) (k v : Str) : m.length ≤ (imInsert m k v).length := by
  induction m with
  | nil => simp [imInsert]
  | cons x xs ih => simp only [imInsert]; split <;> simp <;> omega

/-! ## non-vacuity -/

example :
    let k : MKey := ⟨"lat".toList, [("host".toList, "a".toList)]⟩
    let cfg : Cfg := { unitSuffix := false, globals := [], buckets := some [0, 1024], overrides := [], quantiles := [] }
    let s := (renderLines (run (init cfg) [.hrec k 5, .upkeep, .hrec k 2000, .hrec k (-3)])).1
    getDist s.dists (partsOf cfg k) = some (.hist [0, 1024] [1, 2] 3 2002) := by decide

end MetricsVerif.C07
